(* Proofs/GenCode10Ok.v -- Duration.__str__ and DurationParser.parse, as translated
   into gen/GenCode10.v on every run, against Model/DurText.v (dur_str, dur_parse).
   See notes/GENCODE10_REPORT.md. *)
From Coq Require Import ZArith QArith Qround Qabs List Bool String Ascii Lia.
From Coq Require Import DecimalString DecimalZ DecimalPos.
From Iso Require Import Model.Num Model.Forms Model.Parse Model.Duration Model.DurText gen.DurGrammar
  Proofs.DurTextSpec.
From Iso Require gen.GenCode3 Proofs.GenCode3Ok gen.GenCode8 Proofs.GenCode8Ok Spec.Cal Model.Driver.
From Iso Require Import gen.GenCode10.
Import ListNotations.
Local Open Scope string_scope.
Local Open Scope Z_scope.

Lemma gen_code10_accepted : translator_ok_code10 = true.
Proof. reflexivity. Qed.

Notation rep := GenCode3Ok.rep.

(* how an outcome of the model reads as an outcome of the code; TUnmodelled
   (outside the model's number <-> text domain) claims nothing *)
Definition agrees (m : tres string) (c : exc pyval) : Prop :=
  m = TUnmodelled \/ c = (s <- of_tres m ;; Ok (VStr s)).

(* ------------------------------------------------------------------ *)
(* A. strings                                                          *)
(* ------------------------------------------------------------------ *)
Lemma replace_app : forall a b s t, replace_char a b (s ++ t) = replace_char a b s ++ replace_char a b t.
Proof. induction s; intros; cbn [replace_char String.append]; [reflexivity | rewrite IHs; reflexivity]. Qed.
Lemma replace_digits : forall s, all_digits s = true -> replace_char "." "," s = s.
Proof.
  induction s as [|c s IH]; [reflexivity|]. unfold all_digits. cbn [str_all replace_char]. intros H.
  apply andb_true_iff in H. destruct H as [Hc Hs].
  rewrite (is_digit_neq c "."%char Hc eq_refl). f_equal. apply IH. exact Hs.
Qed.
Lemma replace_show_Z : forall z, replace_char "." "," (show_Z z) = show_Z z.
Proof.
  intros z. destruct (Z_lt_le_dec z 0) as [H|H].
  - rewrite (show_Z_neg z H). cbn [replace_char]. change (Ascii.eqb "-" ".") with false. cbv iota.
    f_equal. apply replace_digits. apply show_Z_nonneg. lia.
  - apply replace_digits. apply show_Z_nonneg. exact H.
Qed.
Lemma comma_to_point_replace : forall s, comma_to_point s = replace_char "," "." s.
Proof. induction s; cbn [comma_to_point replace_char]; [reflexivity | rewrite IHs; reflexivity]. Qed.

Lemma str_rev_acc_app : forall a b acc, str_rev_acc (a ++ b) acc = str_rev_acc b (str_rev_acc a acc).
Proof. induction a; intros; cbn [String.append str_rev_acc]; [reflexivity | apply IHa]. Qed.
Lemma ends_with_snoc : forall t a c, ends_with (String t "") (a ++ String c "") = Ascii.eqb t c.
Proof.
  intros. unfold ends_with. rewrite str_rev_acc_app. cbn [str_rev_acc str_prefix].
  destruct (Ascii.eqb t c); reflexivity.
Qed.
Lemma str_init_snoc : forall a c, str_init (a ++ String c "") = a.
Proof.
  induction a as [|x a IH]; intros c; [reflexivity|].
  cbn [String.append str_init]. destruct (a ++ String c "") eqn:E.
  - destruct a; discriminate.
  - rewrite <- E. rewrite IH. reflexivity.
Qed.

(* ------------------------------------------------------------------ *)
(* B. two loop schemes                                                 *)
(* ------------------------------------------------------------------ *)
Fixpoint cat (l : list (exc string)) : exc string :=
  match l with [] => Ok "" | m :: r => a <- m ;; b <- cat r ;; Ok (a ++ b) end.

Lemma py_for_append : forall (k : string) body (l : list (pyval * exc string)),
  (forall x r, In (x, r) l -> forall st cs, sget k st = VStr cs ->
     match r with
     | Ok a => exists st', body x st = Ok (LNext st') /\ sget k st' = VStr (cs ++ a)
     | Raise e => body x st = Raise e end) ->
  forall st cs, sget k st = VStr cs ->
    match cat (map snd l) with
    | Ok a => exists st', py_for (map fst l) body st = Ok (LDone st') /\ sget k st' = VStr (cs ++ a)
    | Raise e => py_for (map fst l) body st = Raise e end.
Proof.
  intros k body. induction l as [|[x r] l IH]; intros H st cs Hst.
  - cbn. exists st. split; [reflexivity|]. rewrite sapp_nil_r. exact Hst.
  - cbn [map fst snd cat py_for].
    pose proof (H x r (or_introl eq_refl) st cs Hst) as Hx.
    destruct r as [a|e]; cbn [bind].
    + destruct Hx as [st' [E1 E2]]. rewrite E1.
      assert (H' : forall x r, In (x, r) l -> forall st cs, sget k st = VStr cs ->
         match r with
         | Ok a => exists st', body x st = Ok (LNext st') /\ sget k st' = VStr (cs ++ a)
         | Raise e => body x st = Raise e end) by (intros; apply H; [right; assumption | assumption]).
      specialize (IH H' st' (cs ++ a) E2).
      destruct (cat (map snd l)) as [b|e]; cbn [bind].
      * destruct IH as [st2 [F1 F2]]. exists st2. split; [exact F1|]. rewrite F2, sapp_assoc. reflexivity.
      * exact IH.
    + rewrite Hx. reflexivity.
Qed.

(* the is_fully_negative loop: over the signs of the values (None: the slot holds None) *)
Fixpoint fn_loop (l : list (option Z)) (f : bool) : bool :=
  match l with
  | [] => f
  | None :: r => fn_loop r f
  | Some t :: r => if 0 <? t then false else fn_loop r (if t <? 0 then true else f) end.

Lemma py_for_flag : forall (k : string) body (l : list (pyval * option Z)),
  (forall x ot, In (x, ot) l -> forall st f, sget k st = VBool f ->
     exists st',
     match ot with
     | None => body x st = Ok (LNext st') /\ sget k st' = VBool f
     | Some t => if 0 <? t then body x st = Ok (LBreak st') /\ sget k st' = VBool false
                 else body x st = Ok (LNext st') /\ sget k st' = VBool (if t <? 0 then true else f)
     end) ->
  forall st f, sget k st = VBool f ->
    exists st', py_for (map fst l) body st = Ok (LDone st') /\
                sget k st' = VBool (fn_loop (map snd l) f).
Proof.
  intros k body. induction l as [|[x ot] l IH]; intros H st f Hst.
  - exists st. split; [reflexivity | exact Hst].
  - cbn [map fst snd py_for fn_loop].
    destruct (H x ot (or_introl eq_refl) st f Hst) as [st' Hx].
    assert (H' : forall x ot, In (x, ot) l -> forall st f, sget k st = VBool f ->
     exists st',
     match ot with
     | None => body x st = Ok (LNext st') /\ sget k st' = VBool f
     | Some t => if 0 <? t then body x st = Ok (LBreak st') /\ sget k st' = VBool false
                 else body x st = Ok (LNext st') /\ sget k st' = VBool (if t <? 0 then true else f)
     end) by (intros; apply H; [right; assumption | assumption]).
    destruct ot as [t|].
    + destruct (0 <? t).
      * destruct Hx as [E1 E2]. rewrite E1. exists st'. split; [reflexivity | exact E2].
      * destruct Hx as [E1 E2]. rewrite E1. apply (IH H' st' _ E2).
    + destruct Hx as [E1 E2]. rewrite E1. apply (IH H' st' _ E2).
Qed.

Lemma fn_loop_spec : forall l f,
  fn_loop (map Some l) f = forallb (fun t => t <=? 0) l && (f || existsb (fun t => t <? 0) l).
Proof.
  induction l as [|t l IH]; intros f; cbn [map fn_loop forallb existsb].
  - destruct f; reflexivity.
  - destruct (0 <? t) eqn:E1.
    + assert (E : (t <=? 0) = false) by lia. rewrite E. reflexivity.
    + assert (E : (t <=? 0) = true) by lia. rewrite E, IH. cbn [andb].
      destruct (t <? 0), f; cbn [orb]; reflexivity.
Qed.

(* ------------------------------------------------------------------ *)
(* C. one unit of the content string                                   *)
(* ------------------------------------------------------------------ *)
Definition emit (o : option string) (u : string) : string := match o with None => "" | Some x => x ++ u end.
Definition zpart (z : Z) : exc (option string) :=
  if z =? 0 then Ok None else (s <- of_tres (int_str z) ;; Ok (Some s)).
Definition qpart (q : Q) : exc (option string) :=
  if Qeq_bool q 0 then Ok None
  else if Qeq_bool (qz (qtrunc q)) q then (s <- of_tres (int_str (qtrunc q)) ;; Ok (Some s))
  else (s <- float_repr q ;; Ok (Some s)).
Definition unit_out (m : exc (option string)) (u tail : string) : exc string :=
  o <- m ;; Ok (emit o u ++ tail).

Definition DUobj y mo d h mi s := VDur (rep (DU y mo d h mi s)).
Definition the_items y mo d h mi s : list (pyval * exc string) :=
  [ (VTuple [VStr "years"; VStr "Y"], unit_out (zpart y) "Y" "");
    (VTuple [VStr "months"; VStr "M"], unit_out (zpart mo) "M" "");
    (VTuple [VStr "days"; VStr "D"], unit_out (zpart d) "D" "T");
    (VTuple [VStr "hours"; VStr "H"], unit_out (qpart h) "H" "");
    (VTuple [VStr "minutes"; VStr "M"], unit_out (qpart mi) "M" "");
    (VTuple [VStr "seconds"; VStr "S"], unit_out (qpart s) "S" "") ].

Opaque int_str float_repr qtrunc show_Z.

(* the per-item obligations of the two loops, by evaluation of the generated body (nothing is restated) *)
Ltac l2_items :=
  let x := fresh "x" in let r := fresh "r" in let Hin := fresh "Hin" in
  let st := fresh "st" in let cs := fresh "cs" in let Hst := fresh "Hst" in let E := fresh "E" in
  intros x r Hin st cs Hst; cbv beta; rewrite Hst;
  cbn [the_items In] in Hin;
  destruct Hin as [E|[E|[E|[E|[E|[E|[]]]]]]]; injection E as <- <-;
  unfold unit_out, zpart, qpart, DUobj;
  cbn; rewrite ?Qeq_bool_refl;
  repeat match goal with
         | |- context [if negb (?a =? 0) then _ else _] => destruct (a =? 0); cbn
         | |- context [if negb (Qeq_bool ?a 0) then _ else _] => destruct (Qeq_bool a 0); cbn
         | |- context [if Qeq_bool (qz (qtrunc ?a)) ?a then _ else _] => destruct (Qeq_bool (qz (qtrunc a)) a); cbn
         | |- context [of_tres (int_str ?a)] => destruct (int_str a); cbn
         | |- context [float_repr ?a] => destruct (float_repr a); cbn
         end;
  try reflexivity;
  eexists; (split; [reflexivity | cbn; rewrite ?sapp_nil_r, ?sapp_assoc; reflexivity]).

(* ------------------------------------------------------------------ *)
(* D. the units against the model's z_unit / q_unit                    *)
(* ------------------------------------------------------------------ *)
Lemma zpart_model : forall z u tail,
  unit_out (zpart z) u tail = (a <- of_tres (z_unit z u) ;; Ok (a ++ tail)).
Proof.
  intros. unfold unit_out, zpart, z_unit. destruct (z =? 0); [reflexivity|].
  destruct (int_str z); reflexivity.
Qed.

Transparent show_Z qtrunc float_repr int_str.
Lemma lstrip0_show_pos : forall p, lstrip0 (show_Z (Zpos p)) = show_Z (Zpos p).
Proof.
  intros p. unfold show_Z. cbn [Z.to_int NilZero.string_of_int].
  pose proof (Unsigned.to_uint_nonnil p) as Hn. pose proof (to_uint_head p) as Hh.
  destruct (Pos.to_uint p) eqn:E; try congruence; try reflexivity.
Qed.
Lemma float_safe_int_len : forall p, float_safe (show_Z (Zpos p)) "" = true ->
  (slen (show_Z (Zpos p)) <=? INT_MAX_STR_DIGITS)%nat = true.
Proof.
  intros p H. unfold float_safe in H. cbn [rstrip0] in H. rewrite sapp_nil_r, lstrip0_show_pos in H.
  apply andb_true_iff in H. destruct H as [H _]. apply Nat.leb_le in H. apply Nat.leb_le.
  unfold INT_MAX_STR_DIGITS. lia.
Qed.
Lemma qtrunc_int : forall q n, (q == inject_Z n)%Q -> qtrunc q = n.
Proof.
  intros q n H. unfold qtrunc. destruct (Qle_bool 0 q).
  - rewrite H. apply Qfloor_Z.
  - rewrite H. apply Qceiling_Z.
Qed.
Lemma Qeq_bool_red0 : forall q, Qeq_bool (Qred q) 0 = Qeq_bool q 0.
Proof.
  intros q. destruct (Qeq_bool q 0) eqn:E.
  - apply Qeq_bool_iff. rewrite Qred_correct. apply Qeq_bool_iff. exact E.
  - destruct (Qeq_bool (Qred q) 0) eqn:F; [|reflexivity].
    apply Qeq_bool_iff in F. rewrite Qred_correct in F. apply Qeq_bool_iff in F. congruence.
Qed.

Definition srel (m : tres string) (c : exc string) : Prop :=
  match m with
  | TOk s => exists s', c = Ok s' /\ replace_char "." "," s' = s
  | TUnmodelled => True
  | _ => False end.
Lemma frac_rel : forall x, srel (frac_str x) (float_repr_pos x).
Proof.
  intros x. unfold frac_str, float_repr_pos.
  destruct (Qle_bool (1 # 10000) x); [|exact I].
  destruct (fdig FDIG_FUEL (Qnum x mod Z.pos (Qden x)) (Z.pos (Qden x))) as [f|] eqn:Ef; [|exact I].
  destruct (float_safe (show_Z (Qnum x / Z.pos (Qden x))) f); [|exact I].
  cbn [srel]. eexists. split; [reflexivity|].
  assert (Hr : 0 <= Qnum x mod Z.pos (Qden x) < Z.pos (Qden x)) by (apply Z.mod_pos_bound; lia).
  destruct (fdig_spec _ _ _ _ Hr Ef) as [Hfd _].
  rewrite replace_app, replace_show_Z. cbn [String.append replace_char].
  change (Ascii.eqb "." ".") with true. cbv iota. rewrite (replace_digits _ Hfd). reflexivity.
Qed.

Definition qrel (m : tres string) (c : exc (option string)) (u : string) : Prop :=
  match m with
  | TOk s => exists o, c = Ok o /\ replace_char "." "," (emit o u) = s
  | TUnmodelled => True
  | _ => False end.
Lemma qpart_model : forall q u, replace_char "." "," u = u -> qrel (q_unit q u) (qpart q) u.
Proof.
  intros q u Hu. unfold q_unit, qpart. rewrite Qeq_bool_red0.
  destruct (Qeq_bool q 0) eqn:E0.
  { cbn [qrel]. exists None. split; reflexivity. }
  set (r := Qred q).
  assert (Hqr : (q == r)%Q) by (unfold r; rewrite Qred_correct; reflexivity).
  destruct (Z.pos (Qden r) =? 1) eqn:Ed.
  - (* an integer *)
    assert (Hr : r = inject_Z (Qnum r)).
    { destruct r as [n dd]. cbn [Qnum Qden] in *. unfold inject_Z. f_equal. lia. }
    assert (Hq : (q == inject_Z (Qnum r))%Q) by (rewrite <- Hr; exact Hqr).
    rewrite (qtrunc_int _ _ Hq).
    assert (Et : Qeq_bool (qz (Qnum r)) q = true) by (apply Qeq_bool_iff; unfold qz; rewrite Hq; reflexivity).
    rewrite Et.
    destruct (float_safe (show_Z (Z.abs (Qnum r))) "") eqn:Es; [|exact I].
    assert (Hn : Qnum r <> 0).
    { intros Hz. rewrite Hz in Hq. apply Qeq_bool_neq in E0. apply E0. exact Hq. }
    destruct (Z.abs (Qnum r)) as [|p|p] eqn:Ea; [lia| |lia].
    unfold int_str. rewrite Ea, (float_safe_int_len p Es). cbn [of_tres bind qrel].
    eexists. split; [reflexivity|]. cbn [emit]. rewrite replace_app, replace_show_Z, Hu. reflexivity.
  - (* not an integer *)
    assert (Et : Qeq_bool (qz (qtrunc q)) q = false).
    { destruct (Qeq_bool (qz (qtrunc q)) q) eqn:F; [|reflexivity].
      apply Qeq_bool_iff in F. exfalso.
      assert (G : Qred q = Qred (qz (qtrunc q))) by (apply Qred_complete; symmetry; exact F).
      unfold qz in G. rewrite Qred_inject in G. fold r in G. rewrite G in Ed. cbn in Ed. discriminate. }
    rewrite Et. unfold float_repr. rewrite Qeq_bool_red0, E0. fold r. rewrite Ed.
    destruct (0 <? Qnum r).
    + pose proof (frac_rel r) as H. destruct (frac_str r); cbn [srel tmap tbind qrel] in *; try contradiction; try exact I.
      destruct H as [s' [H1 H2]]. rewrite H1. cbn [bind]. eexists. split; [reflexivity|].
      cbn [emit]. rewrite replace_app, H2, Hu. reflexivity.
    + pose proof (frac_rel (Qred (- r))) as H.
      destruct (frac_str (Qred (- r))); cbn [srel tmap tbind qrel] in *; try contradiction; try exact I.
      destruct H as [s' [H1 H2]]. rewrite H1. cbn [bind]. eexists. split; [reflexivity|].
      cbn [emit String.append replace_char]. change (Ascii.eqb "-" ".") with false. cbv iota.
      rewrite replace_app, H2, Hu. reflexivity.
Qed.
Opaque show_Z qtrunc float_repr int_str.

(* ------------------------------------------------------------------ *)
(* E. the unit form: everything after the weeks test                   *)
(* ------------------------------------------------------------------ *)
Lemma ends_with_mid : forall x A tt t' c,
  ends_with (String x "") (A ++ tt ++ (t' ++ String c "")) = Ascii.eqb x c.
Proof. intros. rewrite <- (sapp_assoc tt), <- sapp_assoc. apply ends_with_snoc. Qed.
Lemma time_shape : forall oh omi os,
  (oh = None /\ omi = None /\ os = None) \/
  exists t' c, emit oh "H" ++ emit omi "M" ++ emit os "S" = t' ++ String c "" /\ Ascii.eqb "T" c = false.
Proof.
  intros oh omi [x|].
  - right. exists (emit oh "H" ++ emit omi "M" ++ x), "S"%char. split; [|reflexivity].
    cbn [emit]. rewrite !sapp_assoc. reflexivity.
  - destruct omi as [x|].
    + right. exists (emit oh "H" ++ x), "M"%char. split; [|reflexivity].
      cbn [emit]. rewrite sapp_nil_r, !sapp_assoc. reflexivity.
    + destruct oh as [x|].
      * right. exists x, "H"%char. split; [|reflexivity]. cbn [emit String.append]. rewrite sapp_nil_r. reflexivity.
      * left. repeat split.
Qed.
Transparent int_str.
Lemma z_unit_replace : forall z u s, replace_char "." "," u = u -> z_unit z u = TOk s -> replace_char "." "," s = s.
Proof.
  intros z u s Hu. unfold z_unit. destruct (z =? 0).
  - intros H. inversion H. reflexivity.
  - unfold int_str. destruct (slen (show_Z (Z.abs z)) <=? INT_MAX_STR_DIGITS)%nat; cbn [tmap tbind]; intros H; inversion H.
    rewrite replace_app, replace_show_Z, Hu. reflexivity.
Qed.
Opaque int_str.
Lemma replace_nonempty : forall a b s, str_nonempty (replace_char a b s) = str_nonempty s.
Proof. destruct s; reflexivity. Qed.
Lemma nonempty_snoc : forall a c, str_nonempty (a ++ String c "") = true.
Proof. destruct a; reflexivity. Qed.

(* the unit form: the code from the six-property loop on, whatever the segment's parameters are *)
Ltac body_DU_tac y mo d h mi s :=
  cbn [py_iter bind];
  match goal with |- context [py_for ?items ?body ?init] =>
    match init with context [(?k, VStr "")] =>
    let Hitems := fresh "Hitems" in let HL := fresh "HL" in
    assert (Hitems : forall x r, In (x, r) (the_items y mo d h mi s) -> forall st cs, sget k st = VStr cs ->
       match r with
       | Ok a => exists st', body x st = Ok (LNext st') /\ sget k st' = VStr (cs ++ a)
       | Raise e => body x st = Raise e end) by l2_items;
    pose proof (py_for_append k body (the_items y mo d h mi s) Hitems init "" eq_refl) as HL;
    clear Hitems; cbn [the_items map fst snd cat] in HL; rewrite !zpart_model in HL
    end
  end.

Lemma time_nonempty : forall hs mis ss oh omi os t' c,
  replace_char "." "," (emit oh "H") = hs -> replace_char "." "," (emit omi "M") = mis ->
  replace_char "." "," (emit os "S") = ss -> emit oh "H" ++ emit omi "M" ++ emit os "S" = t' ++ String c "" ->
  str_nonempty (hs ++ mis ++ ss) = true.
Proof.
  intros hs mis ss oh omi os t' c Rh Rmi Rs Et.
  rewrite <- Rh, <- Rmi, <- Rs, <- !replace_app, replace_nonempty, Et. apply nonempty_snoc.
Qed.

(* ------------------------------------------------------------------ *)
(* F. the is_fully_negative loop and the whole method                  *)
(* ------------------------------------------------------------------ *)
Definition slot_signs (x : dur) : list (pyval * option Z) :=
  match x with
  | DW w => [(VStr "_years", None); (VStr "_months", None); (VStr "_weeks", Some (Z.sgn w)); (VStr "_days", None);
             (VStr "_hours", None); (VStr "_minutes", None); (VStr "_seconds", None)]
  | DU y mo d h mi s =>
            [(VStr "_years", Some (Z.sgn y)); (VStr "_months", Some (Z.sgn mo)); (VStr "_weeks", None);
             (VStr "_days", Some (Z.sgn d)); (VStr "_hours", Some (qsgn h)); (VStr "_minutes", Some (qsgn mi));
             (VStr "_seconds", Some (qsgn s))]
  end.

Ltac l1_items x :=
  let a := fresh "a" in let ot := fresh "ot" in let Hin := fresh "Hin" in
  let st := fresh "st" in let f := fresh "f" in let Hst := fresh "Hst" in let E := fresh "E" in
  intros a ot Hin st f Hst; cbv beta; rewrite Hst;
  destruct x as [? | ? ? ? ? ? ?]; cbn [slot_signs In] in Hin;
  destruct Hin as [E|[E|[E|[E|[E|[E|[E|[]]]]]]]]; injection E as <- <-; cbn;
  try (eexists; split; reflexivity);
  unfold qsgn, qz, Qle_bool; cbn [inject_Z Qnum Qden]; rewrite ?Z.mul_1_r, ?Z.mul_0_l;
  match goal with
  | |- context [Z.sgn (Qnum ?q)] => let n := fresh "n" in let dd := fresh "dd" in
                                    destruct q as [n dd]; cbn [Qnum Qden]; destruct n
  | |- context [Z.sgn ?z] => destruct z
  end; cbn; eexists; split; reflexivity.

Lemma signs_fully_negative : forall x, fn_loop (map snd (slot_signs x)) false = fully_negative x.
Proof.
  intros [w | y mo d h mi s].
  - cbn. destruct w; reflexivity.
  - change (fn_loop (map snd (slot_signs (DU y mo d h mi s))) false)
      with (fn_loop (map Some [Z.sgn y; Z.sgn mo; Z.sgn d; qsgn h; qsgn mi; qsgn s]) false).
    rewrite fn_loop_spec. reflexivity.
Qed.
Lemma fully_negative_equiv : forall a b, dur_equiv a b -> fully_negative a = fully_negative b.
Proof.
  intros [w1 | y1 m1 d1 h1 i1 s1] [w2 | y2 m2 d2 h2 i2 s2] H; cbn [dur_equiv] in H; try contradiction.
  - subst. reflexivity.
  - destruct H as [E1 [E2 [E3 [Eh [Ei Es]]]]]. subst y2 m2 d2.
    apply Qred_complete in Eh, Ei, Es. unfold fully_negative.
    rewrite (qsgn_red _ _ Eh), (qsgn_red _ _ Ei), (qsgn_red _ _ Es). reflexivity.
Qed.
Transparent int_str.
Lemma int_str_replace : forall z s, int_str z = TOk s -> replace_char "." "," s = s.
Proof.
  intros z s. unfold int_str. destruct (slen (show_Z (Z.abs z)) <=? INT_MAX_STR_DIGITS)%nat; intros H; inversion H.
  apply replace_show_Z.
Qed.
Opaque int_str.

(* what the method needs of str() on the Duration it builds in the negative branch *)
Definition ops_ok (ops : dur_ops) : Prop :=
  forall r, fully_negative r = false -> agrees (dur_str r) (op_str_Duration ops (rep r)).

Lemma gen10_str_step : forall ops x, (fully_negative x = true -> ops_ok ops) ->
  agrees (dur_str x) (py_Duration___str__ ops (VDur (rep x))).
Proof.
  intros ops x Hops. unfold py_Duration___str__. cbn [py_truthy]. rewrite GenCode3Ok.gen3_bool.
  unfold dur_str. destruct (dur_bool x) eqn:Eb; cbn [negb]; [|right; reflexivity].
  cbv beta zeta. unfold py_Duration___str____L1.
  replace (py_getattr ops (VDur (rep x)) (VStr "__slots__")) with (Ok (VList (map fst (slot_signs x))))
    by (destruct x; reflexivity).
  cbn [py_iter bind].
  match goal with |- context [py_for (map fst (slot_signs x)) ?body ?init] =>
    match init with context [(?k, VBool false)] =>
    assert (Hitems : forall a ot, In (a, ot) (slot_signs x) -> forall st f, sget k st = VBool f ->
       exists st',
       match ot with
       | None => body a st = Ok (LNext st') /\ sget k st' = VBool f
       | Some t => if 0 <? t then body a st = Ok (LBreak st') /\ sget k st' = VBool false
                   else body a st = Ok (LNext st') /\ sget k st' = VBool (if t <? 0 then true else f)
       end) by (clear Hops Eb; l1_items x);
    destruct (py_for_flag k body (slot_signs x) Hitems init false eq_refl) as [st' [E1 E2]]; clear Hitems
    end
  end.
  rewrite E1. cbn [bind]. cbv zeta. rewrite E2, signs_fully_negative. cbn [py_truthy].
  destruct (fully_negative x) eqn:Ef.
  - (* fully negative: "-" + str(abs(self)) *)
    cbn [py_abs].
    destruct (GenCode3Ok.returns_dur_rep _ _ (GenCode3Ok.gen3_abs x)) as [r [Ha Hr]]. rewrite Ha.
    cbn [lift3 bind py_str].
    assert (Hn : fully_negative r = false).
    { rewrite (fully_negative_equiv r (dur_abs x) Hr). apply nonneg_not_fully_negative, abs_nonneg. }
    pose proof (Hops eq_refl r Hn) as H. rewrite (dur_str_equiv r (dur_abs x) Hr) in H.
    assert (Hb : dur_str (dur_abs x) = dur_str_body (dur_abs x)).
    { unfold dur_str. rewrite abs_bool, Eb. cbn [negb].
      rewrite (nonneg_not_fully_negative _ (abs_nonneg x)). reflexivity. }
    rewrite Hb in H. destruct H as [H|H]; [left; rewrite H; reflexivity|].
    right. rewrite H. destruct (dur_str_body (dur_abs x)); reflexivity.
  - cbn [py_method0 String.eqb Ascii.eqb Bool.eqb]. rewrite GenCode3Ok.gen3_get_is_in_weeks.
    clear st' E1 E2.
    destruct x as [w | y mo d h mi s]; cbn [get_is_in_weeks lift3 bind py_truthy].
    + (* weeks *)
      cbn. destruct (int_str w) as [sw| | | |] eqn:Ew; cbn; try (right; reflexivity); try (left; reflexivity).
      right. rewrite replace_app, (int_str_replace _ _ Ew). reflexivity.
    + (* units: the second loop and what follows it *)
      unfold py_Duration___str____L2. fold (DUobj y mo d h mi s). body_DU_tac y mo d h mi s.
      pose proof (qpart_model h "H" eq_refl) as Qh. pose proof (qpart_model mi "M" eq_refl) as Qmi.
      pose proof (qpart_model s "S" eq_refl) as Qs.
      pose proof (z_unit_replace y "Y") as Ry. pose proof (z_unit_replace mo "M") as Rmo.
      pose proof (z_unit_replace d "D") as Rd.
      unfold agrees. cbn [dur_str_body].
      destruct (z_unit y "Y") as [ys| | | |]; cbn [tbind of_tres bind] in *;
        try (left; reflexivity); try (right; rewrite HL; reflexivity).
      destruct (z_unit mo "M") as [mos| | | |]; cbn [tbind of_tres bind] in *;
        try (left; reflexivity); try (right; rewrite HL; reflexivity).
      destruct (z_unit d "D") as [ds| | | |]; cbn [tbind of_tres bind] in *;
        try (left; reflexivity); try (right; rewrite HL; reflexivity).
      destruct (q_unit h "H") as [hs| | | |]; cbn [tbind qrel] in *; try contradiction; try (left; reflexivity).
      destruct Qh as [oh [Eh Rh]]. rewrite Eh in HL.
      destruct (q_unit mi "M") as [mis| | | |]; cbn [tbind qrel] in *; try contradiction; try (left; reflexivity).
      destruct Qmi as [omi [Emi Rmi]]. rewrite Emi in HL.
      destruct (q_unit s "S") as [ss| | | |]; cbn [tbind qrel] in *; try contradiction; try (left; reflexivity).
      destruct Qs as [os [Es Rs]]. rewrite Es in HL.
      unfold unit_out in HL. cbn [bind] in HL. rewrite ?sapp_nil_r in HL.
      destruct HL as [st' [E1 E2]]. right. rewrite E1. cbn [bind of_tres]. cbv zeta. rewrite E2.
      specialize (Ry ys eq_refl eq_refl). specialize (Rmo mos eq_refl eq_refl). specialize (Rd ds eq_refl eq_refl).
      change ("" ++ ys ++ mos ++ (ds ++ "T") ++ emit oh "H" ++ emit omi "M" ++ emit os "S")
        with (ys ++ mos ++ (ds ++ "T") ++ emit oh "H" ++ emit omi "M" ++ emit os "S").
      rewrite (sapp_assoc ds "T").
      destruct (time_shape oh omi os) as [[-> [-> ->]] | [t' [c [Et Ec]]]].
      * cbn [emit] in *. subst hs mis ss. rewrite !sapp_nil_r.
        cbn [py_endswith bind].
        replace (ys ++ mos ++ ds ++ "T") with ((ys ++ mos ++ ds) ++ String "T" "") by (rewrite !sapp_assoc; reflexivity).
        rewrite ends_with_snoc. cbn [Ascii.eqb Bool.eqb andb py_truthy py_drop_last bind].
        rewrite str_init_snoc. cbn [py_add is_intlike num_of py_replace bind].
        cbn [String.append str_nonempty]. rewrite ?sapp_nil_r. cbn [replace_char].
        change (Ascii.eqb "P" ".") with false. cbv iota.
        rewrite !replace_app, Ry, Rmo, Rd. reflexivity.
      * pose proof (time_nonempty _ _ _ _ _ _ _ _ Rh Rmi Rs Et) as Hne.
        rewrite Et. cbn [py_endswith bind]. rewrite <- (sapp_assoc ys mos), <- (sapp_assoc (ys ++ mos) ds).
        rewrite ends_with_mid, Ec. cbn [py_truthy py_add is_intlike num_of py_replace bind].
        rewrite Hne. rewrite <- Et.
        match goal with |- context [String.append "P" ?X] => change (String.append "P" X) with (String "P" X) end.
        cbn [replace_char]. change (Ascii.eqb "P" ".") with false. cbv iota.
        rewrite !replace_app, Ry, Rmo, Rd, Rh, Rmi, Rs. cbn [replace_char].
        change (Ascii.eqb "T" ".") with false. cbv iota.
        rewrite !sapp_assoc. reflexivity.
Qed.

Lemma gen10_str_nonneg : forall ops n x, fully_negative x = false ->
  agrees (dur_str x) (str_Duration ops (S n) (rep x)).
Proof.
  intros ops n x Hx. cbn [str_Duration]. apply gen10_str_step. intros H. congruence.
Qed.

(* Duration.__str__ = dur_str, the recursion two levels deep (a fully negative
   duration prints "-" and its absolute value, which is not fully negative) *)
Theorem gen10_str : forall ops n x, agrees (dur_str x) (str_Duration ops (S (S n)) (rep x)).
Proof.
  intros ops n x. change (str_Duration ops (S (S n)) (rep x))
    with (py_Duration___str__
            (mkDurOps (str_Duration ops (S n)) (op_parse_timepoint_expression ops) (op_point_attr ops) (op_point_method0 ops))
            (VDur (rep x))).
  apply gen10_str_step. intros _ r Hr. cbn [op_str_Duration]. apply gen10_str_nonneg. exact Hr.
Qed.

(* readable corollaries *)
Corollary gen10_str_ok : forall ops n x s, dur_str x = TOk s -> str_Duration ops (S (S n)) (rep x) = Ok (VStr s).
Proof. intros ops n x s H. destruct (gen10_str ops n x) as [E|E]; rewrite H in E; [discriminate | exact E]. Qed.
Corollary gen10_str_valueerror : forall ops n x, dur_str x = TValueError -> str_Duration ops (S (S n)) (rep x) = Raise ValueError.
Proof. intros ops n x H. destruct (gen10_str ops n x) as [E|E]; rewrite H in E; [discriminate | exact E]. Qed.

(* ================================================================== *)
(* G. DurationParser.parse: the designator notation                    *)
(* ================================================================== *)
Notation abs3 := GenCode3Ok.abs3.
(* how an outcome of the model reads as an outcome of the code.  A returned
   Duration is the object state of a model value equal to the model's up to
   the representation of the three rationals (the model reduces fractions).
   The model reports a ValueError of a later group even when an earlier group
   is outside its float domain; the code stops at the earlier one. *)
Definition dagrees (m : tres dur) (c : exc pyval) : Prop :=
  match m with
  | TOk d => exists r, c = Ok (VDur (rep r)) /\ dur_equiv r d
  | TValueError => c = Raise ValueError \/ c = Raise NotTranslated
  | TSyntax => c = Raise ISO8601SyntaxError
  | TBadInput => c = Raise BadInputError
  | TUnmodelled => True end.

Definition ok_d (o : option string) : Prop :=
  match o with Some ds => all_digits ds && str_nonempty ds = true | None => True end.

Lemma span_digits_digits : forall s, all_digits (fst (span_digits s)) = true.
Proof.
  induction s as [|c r IH]; [reflexivity|]. cbn [span_digits]. destruct (is_digit c) eqn:E; [|reflexivity].
  destruct (span_digits r) as [a b]. cbn [fst] in *. unfold all_digits in *. cbn [str_all]. rewrite E, IH. reflexivity.
Qed.
Lemma take_unit_ok : forall c s, ok_d (fst (take_unit c s)).
Proof.
  intros c s. unfold take_unit. pose proof (span_digits_digits s) as H. destruct (span_digits s) as [ds r].
  cbn [fst] in H. destruct (str_nonempty ds) eqn:E; [|exact I].
  destruct (uncons c r); cbn [fst ok_d]; [|exact I]. rewrite H, E. reflexivity.
Qed.
Lemma match_date_ok : forall s y mo d r, match_date s = (y, mo, d, r) -> ok_d y /\ ok_d mo /\ ok_d d.
Proof.
  intros s y mo d r. unfold match_date.
  pose proof (take_unit_ok "Y" s) as H1. destruct (take_unit "Y" s) as [y' r1].
  pose proof (take_unit_ok "M" r1) as H2. destruct (take_unit "M" r1) as [mo' r2].
  pose proof (take_unit_ok "D" r2) as H3. destruct (take_unit "D" r2) as [d' r3].
  intros E. inversion E. subst. auto.
Qed.
Lemma re1_groups : forall e g, re1 e = Some g ->
  ok_d (g_years g) /\ ok_d (g_months g) /\ ok_d (g_days g) /\
  g_hours g = None /\ g_minutes g = None /\ g_seconds g = None /\ g_weeks g = None.
Proof.
  intros e g. unfold re1. destruct (uncons "P" e) as [r|]; [|discriminate].
  destruct (match_date r) as [[[y mo] d] r3] eqn:E. destruct (at_end r3); [|discriminate].
  intros H. inversion H. cbn. destruct (match_date_ok _ _ _ _ _ E) as [A [B C]]. auto 10.
Qed.
Lemma re2_groups : forall e g, re2 e = Some g ->
  ok_d (g_years g) /\ ok_d (g_months g) /\ ok_d (g_days g) /\ g_weeks g = None.
Proof.
  intros e g. unfold re2. destruct (uncons "P" e) as [r|]; [|discriminate].
  destruct (match_date r) as [[[y mo] d] r3] eqn:E. destruct (uncons "T" r3); [|discriminate].
  destruct (match_time s) as [[[h mi] se]|]; [|discriminate].
  intros H. inversion H. cbn. destruct (match_date_ok _ _ _ _ _ E) as [A [B C]]. auto.
Qed.
Lemma re3_groups : forall e g, re3 e = Some g ->
  exists ds, g = mkGroups None None None None None None (Some ds) /\ all_digits ds && str_nonempty ds = true.
Proof.
  intros e g. unfold re3. destruct (uncons "P" e) as [r|]; [|discriminate].
  pose proof (span_digits_digits r) as Hd. destruct (span_digits r) as [ds r1]. cbn [fst] in Hd.
  destruct (str_nonempty ds) eqn:En; [|discriminate]. destruct (uncons "W" r1); [|discriminate].
  destruct (at_end s); [|discriminate]. intros H. inversion H. exists ds. split; [reflexivity|].
  rewrite Hd, En. reflexivity.
Qed.

Lemma conv_int_cases : forall s, (exists z, conv_int s = TOk z) \/ conv_int s = TValueError.
Proof. intros s. unfold conv_int. destruct (slen s <=? INT_MAX_STR_DIGITS)%nat; eauto. Qed.
Lemma conv_float_cases : forall s,
  (exists q, conv_float s = TOk q) \/ conv_float s = TValueError \/ conv_float s = TUnmodelled.
Proof.
  intros s. unfold conv_float. set (v := comma_to_point s).
  assert (A : forall i f, (exists q, (if float_safe i f then TOk (dval i f) else @TUnmodelled Q) = TOk q) \/
              (if float_safe i f then TOk (dval i f) else @TUnmodelled Q) = TValueError \/
              (if float_safe i f then TOk (dval i f) else @TUnmodelled Q) = TUnmodelled)
    by (intros i f; destruct (float_safe i f); eauto).
  assert (B : (exists q, (if float_accepts v then @TUnmodelled Q else TValueError) = TOk q) \/
              (if float_accepts v then @TUnmodelled Q else TValueError) = TValueError \/
              (if float_accepts v then @TUnmodelled Q else TValueError) = TUnmodelled)
    by (destruct (float_accepts v); eauto).
  destruct (span_digits v) as [i r]. destruct (str_nonempty i); [|exact B].
  destruct r as [|a fr]; [apply A|]. destruct (Ascii.eqb a "."); [|exact B].
  destruct (span_digits fr) as [f r2]. destruct (str_nonempty r2); [exact B | apply A].
Qed.
Lemma float_conv1 : forall s, float_of_str (replace_char "," "." s) = conv_float s.
Proof. intros s. rewrite <- comma_to_point_replace. reflexivity. Qed.
Lemma no_comma : forall s, is_substr "," s = false -> comma_to_point s = s.
Proof.
  induction s as [|c r IH]; [reflexivity|]. cbn [is_substr str_prefix comma_to_point].
  rewrite (Ascii.eqb_sym c ","). destruct (Ascii.eqb "," c); [discriminate|]. intros H. rewrite (IH H). reflexivity.
Qed.
Lemma float_conv2 : forall s, is_substr "," s = false -> float_of_str s = conv_float s.
Proof. intros s H. rewrite <- (no_comma s H) at 1. reflexivity. Qed.

Lemma qmul_red : forall a b, (a * b == qmul a b)%Q.
Proof. intros. unfold qmul. rewrite Qred_correct. reflexivity. Qed.
Lemma qmul_zero : forall b, (0 == qmul 0 b)%Q.
Proof. intros. unfold qmul. rewrite Qred_correct. unfold Qeq. cbn. reflexivity. Qed.
Lemma dur_make_equiv : forall y mo w d h mi s h' mi' s', (h == h')%Q -> (mi == mi')%Q -> (s == s')%Q ->
  dur_equiv (dur_make y mo w d h mi s) (dur_make y mo w d h' mi' s').
Proof.
  intros. unfold dur_make, qeqb.
  rewrite (Qeqb_comp h h' H 0%Q 0%Q (Qeq_refl 0)), (Qeqb_comp mi mi' H0 0%Q 0%Q (Qeq_refl 0)),
          (Qeqb_comp s s' H1 0%Q 0%Q (Qeq_refl 0)).
  destruct (negb (w =? 0) && (y =? 0) && (mo =? 0) && (d =? 0) && Qeq_bool h' 0 && Qeq_bool mi' 0 && Qeq_bool s' 0);
    cbn [dur_equiv]; auto 10.
Qed.

Lemma ctor_spec : forall D y mo w d h mi s,
  forallb (fun kv => existsb (String.eqb (fst kv)) DURATION_KEYWORDS) D = true ->
  kwZ10 "years" D = Ok y -> kwZ10 "months" D = Ok mo -> kwZ10 "weeks" D = Ok w -> kwZ10 "days" D = Ok d ->
  kwQ10 "hours" D = Ok h -> kwQ10 "minutes" D = Ok mi -> kwQ10 "seconds" D = Ok s ->
  py_Duration_ctor (VDict D) = Ok (VDur (rep (dur_make y mo w d h mi s))).
Proof.
  intros D y mo w d h mi s Hk H1 H2 H3 H4 H5 H6 H7. unfold py_Duration_ctor.
  rewrite Hk, H1, H2, H3, H4, H5, H6, H7. cbn [bind]. rewrite GenCode3Ok.gen3_init. reflexivity.
Qed.


Lemma comma_step : forall A (K : pyval -> exc A) s,
  (b <- py_in (VStr ",") (VStr s) ;;
   if b then (t <- py_replace (VStr s) (VStr ",") (VStr ".") ;; K t) else K (VStr s)) = K (VStr (comma_to_point s)).
Proof.
  intros A K s. cbn [py_in bind py_replace]. destruct (is_substr "," s) eqn:E.
  - rewrite comma_to_point_replace. reflexivity.
  - rewrite (no_comma s E). reflexivity.
Qed.
Lemma replace_ctp : forall s, py_replace (VStr s) (VStr ",") (VStr ".") = Ok (VStr (comma_to_point s)).
Proof. intros s. cbn [py_replace]. rewrite comma_to_point_replace. reflexivity. Qed.
Lemma float_ctp : forall s, py_float (VStr (comma_to_point s)) = (q <- of_tres (conv_float s) ;; Ok (VFloat q)).
Proof. reflexivity. Qed.

Opaque re1 re2 re3 conv_int conv_float float_of_str all_digits str_nonempty is_substr replace_char dur_make qmul
  py_Duration_ctor py_DurationParser_parse__A1.

Opaque py_in py_replace py_float.

Ltac key_test :=
  match goal with
  | |- context [py_in (VStr ?k) (VList ?l)] =>
    let r := eval vm_compute in (py_in (VStr k) (VList l)) in change (py_in (VStr k) (VList l)) with r
  | |- context [py_in (VStr ?k) (VTuple ?l)] =>
    let r := eval vm_compute in (py_in (VStr k) (VTuple l)) in change (py_in (VStr k) (VTuple l)) with r
  end.
Ltac conv_int_group o H :=
  destruct o as [?s|];
  [ cbn [ok_d] in H; cbn; key_test; cbn; unfold py_int_str; rewrite H; cbn;
    match goal with |- context [of_tres (conv_int ?s)] =>
      let z := fresh "z" in let Hz := fresh "Hz" in
      destruct (conv_int_cases s) as [[z Hz]|Hz]; rewrite ?Hz; cbn end
  | clear H; cbn ].
Ltac conv_float_group o :=
  destruct o as [?s|];
  [ cbn; key_test; cbn; rewrite ?comma_step, ?replace_ctp; cbn; rewrite float_ctp;
    match goal with |- context [of_tres (conv_float ?s)] =>
      let q := fresh "q" in let Hq := fresh "Hq" in
      destruct (conv_float_cases s) as [[q Hq]|[Hq|Hq]]; rewrite ?Hq; cbn end
  | cbn ].

Ltac raise_leaf :=
  first [ left; reflexivity | right; reflexivity | exact I
        | match goal with |- context [if ?b then _ else _] => destruct b; cbn; first [left; reflexivity | right; reflexivity | exact I] end ].
Ltac ok_leaf :=
  erewrite ctor_spec; [ | reflexivity ..]; cbn; eexists; split;
  [ reflexivity | apply dur_make_equiv; first [apply qmul_red | apply qmul_zero] ].

Lemma parse_re1 : forall ops e sg g, re1 e = Some g ->
  dagrees (convert sg g) (py_DurationParser_parse__L1 ops VParser (VStr e) (VInt sg)).
Proof.
  intros ops e sg g H. destruct (re1_groups e g H) as [Hy [Hmo [Hd [Hh [Hmi [Hs Hw]]]]]].
  unfold py_DurationParser_parse__L1. cbn. rewrite H. cbn. unfold convert. rewrite Hh, Hmi, Hs, Hw. clear H Hh Hmi Hs Hw.
  destruct g as [gy gmo gd gh gmi gs gw]. cbn [g_years g_months g_days conv_oint conv_ofloat is_verr orb] in *.
  conv_int_group gy Hy; try raise_leaf.
  all: conv_int_group gmo Hmo; try raise_leaf.
  all: conv_int_group gd Hd; try raise_leaf.
  all: ok_leaf.
Qed.

Lemma parse_re2 : forall ops e sg g, re1 e = None -> re2 e = Some g ->
  dagrees (convert sg g) (py_DurationParser_parse__L1 ops VParser (VStr e) (VInt sg)).
Proof.
  intros ops e sg g H1 H. destruct (re2_groups e g H) as [Hy [Hmo [Hd Hw]]].
  unfold py_DurationParser_parse__L1. cbn. rewrite H1. cbn. rewrite H. cbn. unfold convert. rewrite Hw. clear H1 H Hw.
  destruct g as [gy gmo gd gh gmi gs gw].
  cbn [g_years g_months g_days g_hours g_minutes g_seconds conv_oint conv_ofloat is_verr orb] in *.
  conv_int_group gy Hy; try raise_leaf.
  all: conv_int_group gmo Hmo; try raise_leaf.
  all: conv_int_group gd Hd; try raise_leaf.
  all: conv_float_group gh; try raise_leaf.
  all: conv_float_group gmi; try raise_leaf.
  all: conv_float_group gs; try raise_leaf.
  all: ok_leaf.
Qed.

Lemma parse_re3 : forall ops e sg g, re1 e = None -> re2 e = None -> re3 e = Some g ->
  dagrees (convert sg g) (py_DurationParser_parse__L1 ops VParser (VStr e) (VInt sg)).
Proof.
  intros ops e sg g H1 H2 H. destruct (re3_groups e g H) as [ds [-> Hd]].
  unfold py_DurationParser_parse__L1. cbn. rewrite H1. cbn. rewrite H2. cbn. rewrite H. cbn.
  unfold convert. cbn [g_years g_months g_days g_hours g_minutes g_seconds g_weeks conv_oint conv_ofloat is_verr orb].
  key_test. cbn. unfold py_int_str. rewrite Hd. cbn.
  destruct (conv_int_cases ds) as [[z Hz]|Hz]; rewrite ?Hz; cbn; try raise_leaf.
  ok_leaf.
Qed.

(* the three designator regexes, in the order of DURATION_REGEXES; no match: the code after the loop *)
Lemma parse_L1_none : forall ops e sg, re1 e = None -> re2 e = None -> re3 e = None ->
  py_DurationParser_parse__L1 ops VParser (VStr e) (VInt sg) =
  py_DurationParser_parse__A1 ops VParser (VStr e) (VInt sg).
Proof.
  intros ops e sg H1 H2 H3. unfold py_DurationParser_parse__L1. cbn. rewrite H1. cbn. rewrite H2. cbn. rewrite H3.
  reflexivity.
Qed.

Definition designator_groups (e : string) : option groups :=
  match re1 e with Some g => Some g | None => match re2 e with Some g => Some g | None => re3 e end end.

Lemma parse_L1 : forall ops e sg g, designator_groups e = Some g ->
  dagrees (convert sg g) (py_DurationParser_parse__L1 ops VParser (VStr e) (VInt sg)).
Proof.
  intros ops e sg g. unfold designator_groups.
  destruct (re1 e) as [g1|] eqn:E1. { intros H; inversion H; subst. apply parse_re1. exact E1. }
  destruct (re2 e) as [g2|] eqn:E2. { intros H; inversion H; subst. apply parse_re2; assumption. }
  intros E3. apply parse_re3; assumption.
Qed.

Lemma starts_uncons : forall c s,
  starts_with (String c "") s = match uncons c s with Some _ => true | None => false end.
Proof.
  intros c [|a r]; [reflexivity|]. unfold starts_with. cbn [str_prefix uncons]. rewrite (Ascii.eqb_sym a c).
  destruct (Ascii.eqb c a); reflexivity.
Qed.
Lemma drop_uncons : forall c s r, uncons c s = Some r -> py_drop_first (VStr s) = Ok (VStr r).
Proof. intros c [|a t] r; cbn [uncons]; [discriminate|]. destruct (Ascii.eqb a c); [|discriminate]. intros H; inversion H. reflexivity. Qed.

Definition strip_sign (expr : string) : Z * string :=
  match uncons "-" expr with Some r => (-1, r) | None => (1, expr) end.

(* the sign and the dispatch *)
Lemma parse_entry : forall ops expr,
  py_DurationParser_parse ops VParser (VStr expr) =
  py_DurationParser_parse__L1 ops VParser (VStr (snd (strip_sign expr))) (VInt (fst (strip_sign expr))).
Proof.
  intros ops expr. unfold py_DurationParser_parse, strip_sign. cbn [py_startswith bind py_truthy]. rewrite starts_uncons.
  destruct (uncons "-" expr) as [r|] eqn:E; cbn [fst snd].
  - rewrite (drop_uncons _ _ _ E). reflexivity.
  - reflexivity.
Qed.

Transparent dur_make qmul.
Theorem gen10_parse_designators : forall ops expr g,
  str_all is_ascii7 expr = true -> designator_groups (snd (strip_sign expr)) = Some g ->
  dur_parse expr = convert (fst (strip_sign expr)) g /\
  dagrees (dur_parse expr) (py_DurationParser_parse ops VParser (VStr expr)).
Proof.
  intros ops expr g Ha Hg.
  assert (E : dur_parse expr = convert (fst (strip_sign expr)) g).
  { unfold dur_parse, strip_sign, designator_groups in *. rewrite Ha. cbn [negb].
    destruct (uncons "-" expr); cbn [fst snd] in *;
      (destruct (re1 _); [inversion Hg; reflexivity|]; destruct (re2 _); [inversion Hg; reflexivity|];
       rewrite Hg; reflexivity). }
  split; [exact E|]. rewrite E, parse_entry. apply parse_L1. exact Hg.
Qed.

(* no designator regex matches: the code is its last segment (the date-time-like alternative notation) *)
Theorem gen10_parse_fallback_cut : forall ops expr,
  designator_groups (snd (strip_sign expr)) = None ->
  py_DurationParser_parse ops VParser (VStr expr) =
  py_DurationParser_parse__A1 ops VParser (VStr (snd (strip_sign expr))) (VInt (fst (strip_sign expr))).
Proof.
  intros ops expr H. rewrite parse_entry. unfold designator_groups in H.
  destruct (re1 _) eqn:E1; [discriminate|]. destruct (re2 _) eqn:E2; [discriminate|].
  apply parse_L1_none; assumption.
Qed.

(* the fallback, where it needs no time point: a sign, or no leading P *)
Transparent py_DurationParser_parse__A1.
Lemma A1_syntax : forall ops e sg, uncons "P" e = None \/ sg = -1 ->
  py_DurationParser_parse__A1 ops VParser (VStr e) (VInt sg) = Raise ISO8601SyntaxError.
Proof.
  intros ops e sg H. unfold py_DurationParser_parse__A1. cbn [py_startswith bind]. rewrite starts_uncons.
  destruct (uncons "P" e) as [r|] eqn:E; cbn [py_truthy bind].
  - destruct H as [H|H]; [discriminate|]. subst sg. reflexivity.
  - reflexivity.
Qed.
Opaque py_DurationParser_parse__A1.

(* no designator regex matches and the text has a sign or no P: ISO8601SyntaxError, as dur_parse says *)
Theorem gen10_parse_syntax : forall ops expr,
  str_all is_ascii7 expr = true -> designator_groups (snd (strip_sign expr)) = None ->
  (uncons "P" (snd (strip_sign expr)) = None \/ fst (strip_sign expr) = -1) ->
  dur_parse expr = TSyntax /\ py_DurationParser_parse ops VParser (VStr expr) = Raise ISO8601SyntaxError.
Proof.
  intros ops expr Ha Hg Hs. split.
  - unfold dur_parse, strip_sign, designator_groups in *. rewrite Ha. cbn [negb].
    destruct (uncons "-" expr); cbn [fst snd] in *;
      (destruct (re1 _); [discriminate|]; destruct (re2 _); [discriminate|]; rewrite Hg;
       destruct (uncons "P" _); [|reflexivity]; destruct Hs as [Hs|Hs]; [discriminate|]; try reflexivity; discriminate).
  - rewrite (gen10_parse_fallback_cut ops expr Hg). apply A1_syntax. exact Hs.
Qed.

(* ================================================================== *)
(* H. the instantiation used by the closed Example                     *)
(* ================================================================== *)
(* parse_timepoint_expression(text, is_duration=.., allow_truncated=False, assumed_time_zone=(0, 0)):
   phase 8's TRANSLATED TimePointParser.parse on the parser those keywords build *)
Definition alt_cfg : pcfg := mkCfg 2 false false (Some (0, 0)) false (0, 0).
Definition exn_of8 (e : GenCode8.pyexn) : pyexn :=
  match e with
  | GenCode8.TypeError => TypeError | GenCode8.ValueError => ValueError | GenCode8.KeyError => KeyError
  | GenCode8.IndexError => IndexError | GenCode8.AttributeError => AttributeError
  | GenCode8.UnboundLocalError => UnboundLocalError | GenCode8.ISO8601SyntaxError => ISO8601SyntaxError
  | GenCode8.BadInputError => BadInputError | GenCode8.NotTranslated => NotTranslated end.
Definition tp_parse_op (md : Spec.Cal.mode) (text kw : pyval) : exc pyval :=
  match text, kw with
  | VStr t, VDict [("is_duration", VBool isd); ("allow_truncated", VBool false);
                   ("assumed_time_zone", VTuple [VInt 0; VInt 0])] =>
    match GenCode8.py_parse (GenCode8Ok.mops md alt_cfg) (GenCode8Ok.code_parser alt_cfg)
            (GenCode8.VStr t) GenCode8.VNone (GenCode8.VBool false) (GenCode8.VBool isd) with
    | GenCode8.Ok (GenCode8.VPoint p) => Ok (VPoint p)
    | GenCode8.Ok _ => Raise NotTranslated
    | GenCode8.Raise e => Raise (exn_of8 e) end
  | _, _ => Raise NotTranslated end.
Definition point_attr (p : ptp) (a : string) : exc pyval :=
  if String.eqb a "_year" then Ok (oZ (p_year p)) else if String.eqb a "_month_of_year" then Ok (oZ (p_month p))
  else if String.eqb a "_day_of_month" then Ok (oZ (p_dom p)) else if String.eqb a "_day_of_year" then Ok (oZ (p_doy p))
  else if String.eqb a "_hour_of_day" then Ok (oQ (p_hour p)) else if String.eqb a "_minute_of_hour" then Ok (oQ (p_min p))
  else if String.eqb a "_second_of_minute" then Ok (oQ (p_sec p)) else Raise NotTranslated.
Definition is_some_b {A} (o : option A) : bool := match o with Some _ => true | None => false end.
Definition point_method0 (p : ptp) (m : string) : exc pyval :=
  if String.eqb m "get_is_week_date" then Ok (VBool (is_some_b (p_week p)))
  else if String.eqb m "get_is_calendar_date" then Ok (VBool (is_some_b (p_month p)))
  else if String.eqb m "get_is_ordinal_date" then Ok (VBool (is_some_b (p_doy p)))
  else Raise NotTranslated.
Definition the_ops (md : Spec.Cal.mode) : dur_ops :=
  mkDurOps (fun _ => Raise NotTranslated) (tp_parse_op md) point_attr point_method0.

Definition show_exn (e : pyexn) : string :=
  match e with
  | ISO8601SyntaxError => "ERR syntax" | BadInputError => "ERR badinput" | ValueError => "ERR value"
  | TypeError => "EXC TypeError" | NotTranslated => "UNMODELLED" | _ => "EXC other" end.
(* str(Duration(..)) of the model value x, as the code computes it *)
Definition run_str (x : dur) : string :=
  match str_Duration (the_ops Spec.Cal.G) 2 (rep x) with
  | Ok (VStr s) => s | Ok _ => "?" | Raise e => show_exn e end.
(* DurationParser().parse(text), printed as the line protocol prints a duration *)
Definition run_parse (md : Spec.Cal.mode) (text : string) : string :=
  match py_DurationParser_parse (the_ops md) VParser (VStr text) with
  | Ok (VDur o) => match abs3 o with Some x => Model.Driver.sh_dur x | None => "?" end
  | Ok _ => "?" | Raise e => show_exn e end.

