(* Proofs/GenCode4Add.v -- TimePoint.add_months, TimePoint.__add__(Duration) and
   TimePoint.__sub__(Duration) as translated from data.py (gen/GenCode4.v) compute
   the model's add_months / tp_add / tp_sub_dur (Model/TimePoint.v), given the
   statements about the parts they call (_tick_over, _copy, the conversions), which
   are section hypotheses here and are discharged in Proofs/GenCode4Ok.v.

   The proofs are symbolic executions, stage by stage; between stages the object
   state is `rep fl q` for a model point q equivalent (tp_equiv) to the model's
   intermediate point. *)
From Coq Require Import QArith Qround Qabs Lqa Lia String.
From Iso Require Import Proofs.Tac Spec.Cal Spec.Instant Model.Num Model.Helpers Model.Duration Model.TimePoint
  gen.CalTables gen.GenCode gen.GenCode2 gen.GenCode4
  Proofs.TablesOk Proofs.GenCodeOk Proofs.GenCode2Ok Proofs.HelpersSpec Proofs.ConvSpec Proofs.DurSpec
  Proofs.TickSpec Proofs.GenCode4Base Proofs.GenCode4Stmt.
From Iso Require gen.GenCode3 Proofs.GenCode3Ok.
Open Scope Z_scope.

(* ====================================================================== *)
(* 1. model-level facts                                                    *)
(* ====================================================================== *)

(* ---------- the month stays in 1..12 ---------- *)
Lemma walk_months_range ms : forall m0 k m d, walk_months ms m0 k = Some (m, d) ->
  m0 <= m < m0 + Z.of_nat (length ms).
Proof.
  induction ms as [|a r IH]; intros m0 k m d; cbn [walk_months]; [discriminate|].
  destruct (k <=? a).
  - intros E; injection E as <- <-. cbn [length]. lia.
  - intros E. apply IH in E. cbn [length]. lia.
Qed.

Lemma cal_from_ord_month md y doy y' m d : cal_from_ord md y doy = Some (y', m, d) -> 1 <= m <= 12.
Proof.
  unfold cal_from_ord. destruct (doy <? 1); [discriminate|].
  destruct (walk_months (year_months md y) 1 doy) as [[m1 d1]|] eqn:E; [|discriminate].
  intros H; injection H as <- <- <-. apply walk_months_range in E. rewrite year_months_length in E. lia.
Qed.

Lemma week_date_start_month md y sy sm sd : week_date_start md y = (sy, sm, sd) -> 1 <= sm <= 12.
Proof.
  unfold week_date_start, REF_MONTH. cbv zeta.
  repeat split_if; intros H; injection H as <- <- <-; lia.
Qed.

Lemma cal_from_week_month md y w d y' m d' : cal_from_week md y w d = Some (y', m, d') -> 1 <= m <= 12.
Proof.
  unfold cal_from_week. cbv zeta. destruct (week_date_start md y) as [[sy sm] sd] eqn:E.
  apply week_date_start_month in E.
  destruct ((w - 1) * 7 + d - 1 =? 0). { intros H; injection H as <- <- <-; exact E. }
  destruct ((w - 1) * 7 + d - 1 <? 0); [discriminate|].
  destruct (ord_from_cal md sy sm sd) as [[? so]|]; [|discriminate].
  repeat split_if; try discriminate; apply cal_from_ord_month.
Qed.

Lemma get_calendar_date_month md dt y m d :
  match dt with Cal _ m0 _ => 1 <= m0 <= 12 | _ => True end ->
  get_calendar_date md dt = Some (y, m, d) -> 1 <= m <= 12.
Proof.
  destruct dt as [y0 m0 d0|y0 doy|y0 w d0]; cbn [get_calendar_date]; intros H E.
  - injection E as <- <- <-. exact H.
  - eapply cal_from_ord_month; exact E.
  - eapply cal_from_week_month; exact E.
Qed.

Definition month_in (c : Z * Z * Z) : Prop := 1 <= snd (fst c) <= 12.

Lemma month_step_month md n c : month_in c -> month_in (month_step md n c).
Proof.
  destruct c as [[y m] d]. unfold month_in, month_step. cbn [fst snd]. intros H.
  repeat split_if; cbn [fst snd]; lia.
Qed.

Lemma nat_iter_month md n k c : month_in c -> month_in (Nat.iter k (month_step md n) c).
Proof.
  intros H. induction k as [|k IH]; [exact H|]. cbn [Nat.iter nat_rect]. apply month_step_month. exact IH.
Qed.

Lemma month_ok_equiv q p : tdate q = tdate p -> month_ok p -> month_ok q.
Proof. unfold month_ok. intros ->. auto. Qed.

Lemma month_ok_with_tod p t : month_ok p -> month_ok (with_tod p t).
Proof. exact (fun H => H). Qed.

Lemma month_ok_add_days p n : month_ok p -> month_ok (with_date p (add_days_raw (tdate p) n)).
Proof. unfold month_ok. cbn [with_date tdate]. destruct (tdate p); cbn [add_days_raw]; auto. Qed.

Lemma month_ok_tick md p : month_ok p -> month_ok (tick_over md p).
Proof.
  intros H. destruct (tick_over_spec md p H) as (_ & V & _).
  unfold month_ok. destruct (tdate (tick_over md p)) as [y m d| |]; [|exact I|exact I].
  cbn [valid_date] in V. unfold valid_cal in V. lia.
Qed.

(* ---------- tp_equiv is kept by the updates ---------- *)
Lemma tp_equiv_with_tod q p t' t : tp_equiv q p -> tod_equiv t' t -> tp_equiv (with_tod q t') (with_tod p t).
Proof. intros (H1 & H2 & H3) H. repeat split; cbn [with_tod tdate ttod tzone]; assumption. Qed.

Lemma tp_equiv_with_date q p d : tp_equiv q p -> tp_equiv (with_date q d) (with_date p d).
Proof. intros (H1 & H2 & H3). repeat split; cbn [with_date tdate ttod tzone]; auto. Qed.

(* the code's updates of the time of day: the model's without the reduction of fractions *)
Definition add_seconds_raw (t : tod) (s : Q) : tod :=
  match t with
  | HMS h m sec => HMS h m (sec + s)
  | HM h m => HM h (m + s / inject_Z 60)
  | HH h => HH (h + s / inject_Z 3600)
  end.
Definition add_minutes_raw (t : tod) (mi : Q) : tod :=
  match t with
  | HMS h m sec => HMS h (m + mi) sec
  | HM h m => HM h (m + mi)
  | HH h => HH (h + mi / inject_Z 60)
  end.
Definition add_hours_raw (t : tod) (x : Q) : tod :=
  match t with
  | HMS h m sec => HMS (h + x) m sec
  | HM h m => HM (h + x) m
  | HH h => HH (h + x)
  end.

Lemma add_seconds_raw_equiv t' t s' s : tod_equiv t' t -> (s' == s)%Q ->
  tod_equiv (add_seconds_raw t' s') (add_seconds t s).
Proof.
  destruct t', t; cbn [tod_equiv add_seconds_raw add_seconds]; try tauto; intros H Hs;
    unfold qadd, qdivz, qz; rewrite ?Qred_correct; intuition (try assumption);
    repeat match goal with E : (_ == _)%Q |- _ => rewrite E; clear E end; reflexivity.
Qed.
Lemma add_minutes_raw_equiv t' t s' s : tod_equiv t' t -> (s' == s)%Q ->
  tod_equiv (add_minutes_raw t' s') (add_minutes t s).
Proof.
  destruct t', t; cbn [tod_equiv add_minutes_raw add_minutes]; try tauto; intros H Hs;
    unfold qadd, qdivz, qz; rewrite ?Qred_correct; intuition (try assumption);
    repeat match goal with E : (_ == _)%Q |- _ => rewrite E; clear E end; reflexivity.
Qed.
Lemma add_hours_raw_equiv t' t s' s : tod_equiv t' t -> (s' == s)%Q ->
  tod_equiv (add_hours_raw t' s') (add_hours t s).
Proof.
  destruct t', t; cbn [tod_equiv add_hours_raw add_hours]; try tauto; intros H Hs;
    unfold qadd, qdivz, qz; rewrite ?Qred_correct; intuition (try assumption);
    repeat match goal with E : (_ == _)%Q |- _ => rewrite E; clear E end; reflexivity.
Qed.

(* ---------- durations up to the representation of rationals ---------- *)
Lemma dur_equiv_to_days a b : GenCode3Ok.dur_equiv a b -> GenCode3Ok.dur_equiv (to_days a) (to_days b).
Proof.
  destruct a, b; cbn [GenCode3Ok.dur_equiv to_days]; try tauto.
  intros ->. repeat split; reflexivity.
Qed.

Lemma dur_equiv_mul a b n : GenCode3Ok.dur_equiv a b -> GenCode3Ok.dur_equiv (dur_mul a n) (dur_mul b n).
Proof.
  destruct a, b; cbn [GenCode3Ok.dur_equiv dur_mul]; try tauto.
  - intros ->. reflexivity.
  - intros (-> & -> & -> & Hh & Hm & Hs). unfold qmul. rewrite !Qred_correct, Hh, Hm, Hs.
    repeat split; reflexivity.
Qed.

Lemma dur_equiv_trans a b c : GenCode3Ok.dur_equiv a b -> GenCode3Ok.dur_equiv b c -> GenCode3Ok.dur_equiv a c.
Proof.
  destruct a, b, c; cbn [GenCode3Ok.dur_equiv]; try tauto.
  - congruence.
  - intros (-> & -> & -> & H1 & H2 & H3) (-> & -> & -> & G1 & G2 & G3).
    repeat split; try reflexivity; etransitivity; eassumption.
Qed.

(* ====================================================================== *)
(* 2. code-level facts                                                     *)
(* ====================================================================== *)

(* sequencing: the state between two stages *)
Lemma stage_bind fl (m : exc pyTimePoint) pk (K : pyTimePoint -> exc pyTimePoint) q :
  returns_tp fl m pk ->
  (forall qk, tp_equiv qk pk -> returns_tp fl (K (rep fl qk)) q) ->
  returns_tp fl (ebind m K) q.
Proof.
  intros H1 H2. apply returns_tp_elim in H1. destruct H1 as (qk & -> & Hq).
  rewrite ebind_ok. apply H2, Hq.
Qed.

Lemma returns_tp_ret fl m q : returns_tp fl m q -> returns_tp fl (ebind m (fun v => Ok v)) q.
Proof.
  intros H. apply stage_bind with (pk := q); [exact H|].
  intros qk Hq. apply returns_tp_intro with qk; [reflexivity | exact Hq].
Qed.

(* the three observers *)
Lemma is_cal_rep fuel cal fl p :
  py_TimePoint_get_is_calendar_date fuel cal (rep fl p) =
  Ok (match tdate p with Cal _ _ _ => true | _ => false end).
Proof. destruct p as [[?|?|?] [?|?|?] ?]; reflexivity. Qed.
Lemma is_ord_rep fuel cal fl p :
  py_TimePoint_get_is_ordinal_date fuel cal (rep fl p) =
  Ok (match tdate p with Ord _ _ => true | _ => false end).
Proof. destruct p as [[?|?|?] [?|?|?] ?]; reflexivity. Qed.
Lemma is_week_rep fuel cal fl p :
  py_TimePoint_get_is_week_date fuel cal (rep fl p) =
  Ok (match tdate p with Wk _ _ _ => true | _ => false end).
Proof. destruct p as [[?|?|?] [?|?|?] ?]; reflexivity. Qed.

(* list indexing inside the list *)
Lemma py_getitem_ok l i : 0 <= i < Z.of_nat (length l) -> py_getitem l i = Ok (znth l i).
Proof.
  intros H. unfold py_getitem. cbv zeta.
  replace ((0 <=? i) && (i <? Z.of_nat (length l))) with true by lia. reflexivity.
Qed.

Lemma months_tables_length md :
  length (DAYS_IN_MONTHS md) = 12%nat /\ length (DAYS_IN_MONTHS_LEAP md) = 12%nat.
Proof. destruct md; split; reflexivity. Qed.

Lemma py_mod_Z_12 a : py_mod_Z a 12 = Ok (a mod 12).
Proof. reflexivity. Qed.

Lemma py_truediv_lit a k : k <> 0 -> py_truediv a (inject_Z k) = Ok (a / inject_Z k)%Q.
Proof.
  intros H. unfold py_truediv. destruct (Qeq_bool (inject_Z k) 0) eqn:E; [|reflexivity].
  apply Qeq_bool_iff in E. change 0%Q with (inject_Z 0) in E. rewrite inject_Z_injective in E. contradiction.
Qed.

(* the table lookup of the month/day clamp *)
Lemma clamp_lookup md y i : 0 <= i < 12 ->
  (if get_is_leap_year y then py_getitem (DAYS_IN_MONTHS_LEAP md) i else py_getitem (DAYS_IN_MONTHS md) i) =
  Ok (znth (year_months md y) i).
Proof.
  intros H. destruct (months_tables_length md) as [L1 L2].
  unfold year_months. destruct (get_is_leap_year y); apply py_getitem_ok; rewrite ?L1, ?L2; lia.
Qed.

(* a loop whose body is a state transformer on an abstract state *)
Lemma for_flow_iter {E S R A : Type} (body : S -> E -> exc (flow S R)) (r : A -> S) (step : A -> A) :
  (forall a x, body (r a) x = Ok (Next (r (step a)))) ->
  forall l a s, s = r a -> for_flow l body s = Ok (Next (r (Nat.iter (length l) step a))).
Proof.
  intros H. induction l as [|x l IH]; intros a s ->; [reflexivity|].
  rewrite for_flow_cons, H. rewrite ebind_ok. cbn [length]. rewrite nat_iter_succ_r. apply IH. reflexivity.
Qed.

Definition cal3 (c : Z * Z * Z) : date := let '(y, m, d) := c in Cal y m d.

(* reduction of the generated code on constructor-headed object states *)
Ltac run4 :=
  cbv beta iota zeta delta [rep rep_zone tdate ttod tzone zh zm with_tod with_date cal3
    add_seconds_raw add_minutes_raw add_hours_raw add_days_raw
    f_digits f_tprop f_tdump f_dump
    ebind need is_none negb andb orb truthy_opt
    py_TimePoint_get_is_calendar_date py_TimePoint_get_is_ordinal_date py_TimePoint_get_is_week_date
    s_num_expanded_year_digits s_year s_month_of_year s_day_of_year s_day_of_month s_day_of_week
    s_week_of_year s_hour_of_day s_minute_of_hour s_second_of_minute s_truncated s_truncated_property
    s_truncated_dump_format s_dump_format s_time_zone
    set_num_expanded_year_digits set_year set_month_of_year set_day_of_year set_day_of_month
    set_day_of_week set_week_of_year set_hour_of_day set_minute_of_hour set_second_of_minute
    set_truncated set_truncated_property set_truncated_dump_format set_dump_format set_time_zone
    lift2].

(* one step of symbolic execution: a partial operation inside its domain, or a case split *)
Ltac step_code md :=
  first [ rewrite py_mod_Z_12
        | rewrite gen_get_is_leap_year_eq
        | rewrite gen_get_days_in_year_eq
        | rewrite gen_get_weeks_in_year_eq
        | rewrite py_getitem_ok by
            (let L1 := fresh in let L2 := fresh in
             destruct (months_tables_length md) as [L1 L2]; rewrite ?L1, ?L2; lia)
        | match goal with |- context [if ?b then _ else _] => destruct b eqn:? end ].

(* the update part of a stage of __add__ on constructor-headed states: the code is
   reduced until it reads `ebind (_tick_over fuel cal o) Ok` for an explicit record o *)
Ltac stage_code md :=
  cal4 md;
  (let K1 := fresh in let K2 := fresh in
   destruct unit_constants_ok as (K1 & K2 & _); rewrite ?K1, ?K2);
  run4; rewrite ?py_truediv_lit by lia; run4; reflexivity.

(* tod_equiv (what the code computed) (the model's update of an equivalent time of day):
   equality of rationals up to Qeq, by linear arithmetic *)
Ltac tod_solve :=
  first
  [ assumption
  | match goal with Ht : tod_equiv _ ?t |- tod_equiv _ _ => revert Ht; destruct t; intros Ht end;
    cbn [tod_equiv add_seconds add_minutes add_hours] in *; try contradiction;
    unfold qadd, qdivz, qz; rewrite ?Qred_correct; unfold Qdiv;
    repeat match goal with |- context [(/ inject_Z (Zpos ?k))%Q] =>
             change (/ inject_Z (Zpos k))%Q with (1 # k)%Q end;
    repeat match goal with H : _ /\ _ |- _ => destruct H end;
    repeat split; lra ].

(* tp_equiv (a constructor-headed point) (a model update of p), from H : tp_equiv (...) p *)
Ltac equiv_solve H :=
  let Hd := fresh "Hd" in let Ht := fresh "Ht" in let Hz := fresh "Hz" in
  destruct H as (Hd & Ht & Hz); cbn [tdate ttod tzone] in Hd, Ht, Hz;
  unfold tp_equiv; cbn [with_tod with_date tdate ttod tzone];
  rewrite <- ?Hd, <- ?Hz; cbn [add_days_raw];
  split; [first [reflexivity | f_equal; lia] | split; [tod_solve | reflexivity]].

(* results given as explicit records *)
Lemma returns_tp_abs fl u o P' P :
  u = Ok o -> abs4 o = Some P' -> flags_of o = fl -> tp_equiv P' P -> returns_tp fl u P.
Proof.
  intros -> Ha Hf He. apply rep_abs4 in Ha. rewrite Hf in Ha. subst o.
  apply returns_tp_intro with P'; [reflexivity | exact He].
Qed.

Section WithParts.
  Hypothesis tick_ok : TickOk.
  Hypothesis copy_ok : CopyOk.
  Hypothesis get_cal_ok : GetCalOk.
  Hypothesis to_cal_ok : ToCalOk.
  Hypothesis to_ord_ok : ToOrdOk.
  Hypothesis to_week_ok : ToWeekOk.

  (* a stage that ends in _tick_over, the object state given as an explicit record o *)
  Lemma tick_finish md fl fuel u o P' P :
    u = ebind (py_TimePoint__tick_over fuel (cal_of md) o) (fun v => Ok v) ->
    abs4 o = Some P' -> flags_of o = fl ->
    tp_equiv P' P -> month_ok P -> (Z.to_nat (tick_bound md P) <= fuel)%nat ->
    returns_tp fl u (tick_over md P).
  Proof.
    intros -> Ha Hf H1 H2 H3. apply rep_abs4 in Ha. rewrite Hf in Ha. subst o.
    apply returns_tp_ret. apply tick_ok; assumption.
  Qed.

  (* add_months: the conversion to a calendar date, the month loop (one iteration =
     month_step), _tick_over, the conversion back.  The plumbing around the calls
     (how the two flags are computed and carried) is evaluated, not matched. *)
  Theorem gen4_add_months_with : AddMonthsOk.
  Proof.
    intros md fl p p' n fuel q Hpp Hm Hadd Hfuel.
    unfold py_TimePoint_add_months. code4_helpers. unfold add_months in Hadd. unfold add_months_bound in Hfuel.
    destruct (n =? 0) eqn:En.
    { injection Hadd as <-. apply returns_tp_intro with p'; [reflexivity | exact Hpp]. }
    destruct (get_calendar_date md (tdate p)) as [[[y0 m0] d0]|] eqn:Ecal; [|discriminate].
    pose proof (get_calendar_date_month md _ _ _ _ Hm Ecal) as Hm0.
    destruct Hpp as (Hd & Ht & Hz).
    destruct p as [dp tp zp], p' as [dt' t' z']. cbn [tdate ttod tzone] in Hd, Ht, Hz, Ecal, Hadd. subst dt' z'.
    clear Hm.
    (* one iteration of the month loop = month_step (the loop is found under the binders
       of the plumbing in front of it) *)
    set (r := fun c : Z * Z * Z => rep fl (mkTp (cal3 c) t' zp)).
    match goal with |- context [@for_flow ?E ?S ?R ?l ?b] =>
      assert (Hbody : forall c x, b (r c) x = Ok (Next (r (month_step md n c)))) end.
    { intros [[y m] d] x; subst r; cbv beta; clear Ht Hadd; destruct t' as [hh mm ss|hh mm|hh];
        cal4 md;
        destruct (month_step md n (y, m, d)) as [[y1' m1'] d1'] eqn:Estep;
        run4; repeat (step_code md; try lia; run4);
        unfold month_step, clamp_dom, year_months in Estep;
        repeat split_if; try discriminate; try lia;
        injection Estep as <- <- <-; first [reflexivity | repeat f_equal; lia]. }
    (* run to the loop: _copy, the observers, to_calendar_date *)
    rewrite ?copy_ok. cbn [ebind].
    assert (Hpre : forall P : exc pyTimePoint -> Prop,
              P (Ok (rep fl (with_date (mkTp dp t' zp) (Cal y0 m0 d0)))) ->
              P (py_TimePoint_to_calendar_date fuel (cal_of md) (rep fl (mkTp dp t' zp)))).
    { intros P HP. rewrite to_cal_ok. unfold to_calendar_date. cbn [tdate]. rewrite Ecal. exact HP. }
    destruct dp as [y1 m1 d1|y1 doy|y1 w1 d1];
      rewrite ?is_cal_rep, ?is_ord_rep, ?is_week_rep; cbn [tdate ebind negb andb orb];
      try (pattern (py_TimePoint_to_calendar_date fuel (cal_of md) (rep fl (mkTp (Ord y1 doy) t' zp)));
           apply Hpre; cbn [ebind]);
      try (pattern (py_TimePoint_to_calendar_date fuel (cal_of md) (rep fl (mkTp (Wk y1 w1 d1) t' zp)));
           apply Hpre; cbn [ebind]);
      clear Hpre.
    1: cbn [get_calendar_date] in Ecal; injection Ecal as -> -> ->.
    all: match goal with |- context [for_flow ?l ?b ?s0] =>
      rewrite (for_flow_iter b r (month_step md n) Hbody l (y0, m0, d0) s0 eq_refl) end.
    all: clear Hbody; cbn [ebind].
    all: assert (Eit : Nat.iter (length (py_range 0 (Z.abs n))) (month_step md n) (y0, m0, d0) =
                  Pos.iter (month_step md n) (y0, m0, d0) (Z.to_pos (Z.abs n)));
      [ rewrite Pos2Nat.inj_iter; unfold py_range; rewrite range_up_length;
        replace (Z.to_nat (Z.abs n - 0)) with (Pos.to_nat (Z.to_pos (Z.abs n))) by lia; reflexivity |].
    all: pose proof (nat_iter_month md n (length (py_range 0 (Z.abs n))) (y0, m0, d0) Hm0) as Hmi.
    all: rewrite Eit in *; clear Eit.
    all: destruct (Pos.iter (month_step md n) (y0, m0, d0) (Z.to_pos (Z.abs n))) as [[y m] d].
    all: unfold month_in in Hmi; cbn [fst snd] in Hmi.
    all: subst r; cbv beta; change (cal3 (y, m, d)) with (Cal y m d).
    (* _tick_over, then the conversion back *)
    all: match type of Hfuel with context [tick_bound _ ?P] =>
           apply stage_bind with (pk := tick_over md P);
           [ apply tick_ok; [split; [reflexivity | split; [exact Ht | reflexivity]] | exact Hmi | exact Hfuel] |]
         end.
    all: intros q1 Hq1; cbv beta; cbn [ebind]; pose proof Hq1 as (Hd1 & _).
    all: rewrite ?to_ord_ok, ?to_week_ok, ?Hd1.
    all: try match type of Hadd with match ?X with _ => _ end = _ => destruct X as [d'|]; [|discriminate] end.
    all: injection Hadd as <-; cbn [ebind].
    all: eapply returns_tp_intro; [reflexivity|].
    all: first [exact Hq1 | apply tp_equiv_with_date; exact Hq1].
  Qed.

  (* __add__(Duration): seconds, minutes, hours, days (each followed by _tick_over),
     months (add_months), years (with the day / week clamp) *)
  Theorem gen4_add_with : AddOk.
  Proof.
    intros md fl p p' od x fuel q Hpp (x' & -> & Hx) Hm Hadd Hfuel.
    unfold py_TimePoint___add____Duration. code4_helpers. cbv zeta.
    rewrite GenCode3Ok.gen3_get_is_in_weeks, GenCode3Ok.gen3_to_days. cbn [lift3].
    rewrite !ebind_ok.
    match goal with |- returns_tp _ (ebind ?u _) _ =>
      assert (Hu : u = Ok (GenCode3Ok.rep (to_days x'))) by (destruct x'; reflexivity) end.
    rewrite Hu, ebind_ok. clear Hu. cbv beta.
    rewrite copy_ok, ebind_ok. cbv beta.
    apply dur_equiv_to_days in Hx.
    destruct (to_days x') as [w'|ys' mos' ds' h' mi' s'], (to_days x) as [w|ys mos ds h mi s] eqn:Etd;
      cbn [GenCode3Ok.dur_equiv] in Hx; try contradiction.
    { unfold tp_add in Hadd. rewrite Etd in Hadd. discriminate. }
    destruct Hx as (-> & -> & -> & Hh & Hmi & Hs).
    cbn [GenCode3Ok.rep GenCode3.s_years GenCode3.s_months GenCode3.s_days GenCode3.s_hours
         GenCode3.s_minutes GenCode3.s_seconds].
    (* the model's intermediate points and the fuel of each stage *)
    pose (t1 := with_tod p (add_seconds (ttod p) s)).
    pose (p1 := if qeqb s 0 then p else tick_over md t1).
    pose (t2 := with_tod p1 (add_minutes (ttod p1) mi)).
    pose (p2 := if qeqb mi 0 then p1 else tick_over md t2).
    pose (t3 := with_tod p2 (add_hours (ttod p2) h)).
    pose (p3 := if qeqb h 0 then p2 else tick_over md t3).
    pose (t4 := with_date p3 (add_days_raw (tdate p3) ds)).
    pose (p4 := if ds =? 0 then p3 else tick_over md t4).
    assert (Hadd' : match (if mos =? 0 then Some p4 else add_months md p4 mos) with
                    | None => None
                    | Some p5 => Some (if ys =? 0 then p5 else with_date p5 (add_years md (tdate p5) ys))
                    end = Some q).
    { unfold tp_add in Hadd. rewrite Etd in Hadd. exact Hadd. }
    assert (Hfuel' : (Z.to_nat (Z.max (if qeqb s 0 then 0 else tick_bound md t1)
                       (Z.max (if qeqb mi 0 then 0 else tick_bound md t2)
                       (Z.max (if qeqb h 0 then 0 else tick_bound md t3)
                       (Z.max (if (ds =? 0)%Z then 0 else tick_bound md t4)
                              (if (mos =? 0)%Z then 0 else add_months_bound md p4 mos))))) <= fuel)%nat).
    { unfold tp_add_bound in Hfuel. rewrite Etd in Hfuel. exact Hfuel. }
    clear Hadd Hfuel Etd.
    assert (Hf1 : (Z.to_nat (if qeqb s 0 then 0 else tick_bound md t1) <= fuel)%nat) by lia.
    assert (Hf2 : (Z.to_nat (if qeqb mi 0 then 0 else tick_bound md t2) <= fuel)%nat) by lia.
    assert (Hf3 : (Z.to_nat (if qeqb h 0 then 0 else tick_bound md t3) <= fuel)%nat) by lia.
    assert (Hf4 : (Z.to_nat (if (ds =? 0)%Z then 0 else tick_bound md t4) <= fuel)%nat) by lia.
    assert (Hf5 : (Z.to_nat (if (mos =? 0)%Z then 0 else add_months_bound md p4 mos) <= fuel)%nat) by lia.
    clear Hfuel'.
    assert (Ep1 : p1 = if qeqb s 0 then p else tick_over md t1) by reflexivity.
    assert (Ep2 : p2 = if qeqb mi 0 then p1 else tick_over md t2) by reflexivity.
    assert (Ep3 : p3 = if qeqb h 0 then p2 else tick_over md t3) by reflexivity.
    assert (Ep4 : p4 = if ds =? 0 then p3 else tick_over md t4) by reflexivity.
    assert (Et1 : t1 = with_tod p (add_seconds (ttod p) s)) by reflexivity.
    assert (Et2 : t2 = with_tod p1 (add_minutes (ttod p1) mi)) by reflexivity.
    assert (Et3 : t3 = with_tod p2 (add_hours (ttod p2) h)) by reflexivity.
    assert (Et4 : t4 = with_date p3 (add_days_raw (tdate p3) ds)) by reflexivity.
    clearbody p4 t4. clearbody p3 t3. clearbody p2 t2. clearbody p1 t1.
    assert (Hm1 : month_ok p1).
    { rewrite Ep1. destruct (qeqb s 0); [exact Hm | apply month_ok_tick; rewrite Et1; exact Hm]. }
    assert (Hm2 : month_ok p2).
    { rewrite Ep2. destruct (qeqb mi 0); [exact Hm1 | apply month_ok_tick; rewrite Et2; exact Hm1]. }
    assert (Hm3 : month_ok p3).
    { rewrite Ep3. destruct (qeqb h 0); [exact Hm2 | apply month_ok_tick; rewrite Et3; exact Hm2]. }
    assert (Hm4 : month_ok p4).
    { rewrite Ep4. destruct (ds =? 0); [exact Hm3 | apply month_ok_tick; rewrite Et4; apply month_ok_add_days; exact Hm3]. }
    cbn [truthy_opt]. unfold truthy_Q, truthy_Z.
    rewrite (qeqb_comp s' s 0 0 Hs (Qeq_refl 0)), (qeqb_comp mi' mi 0 0 Hmi (Qeq_refl 0)),
            (qeqb_comp h' h 0 0 Hh (Qeq_refl 0)).
    change (Qeq_bool s 0) with (qeqb s 0). change (Qeq_bool mi 0) with (qeqb mi 0).
    change (Qeq_bool h 0) with (qeqb h 0).
    (* seconds *)
    apply stage_bind with (pk := p1).
    { rewrite Ep1. destruct (qeqb s 0); cbn [negb].
      - apply returns_tp_intro with p'; [reflexivity | exact Hpp].
      - destruct fl as [dg tpr tdf df], p' as [[?|?|?] [?|?|?] [? ?]];
          (eapply tick_finish with (fuel := fuel) (P := t1);
           [ stage_code md | reflexivity | reflexivity
           | rewrite Et1; equiv_solve Hpp | rewrite Et1; exact Hm | exact Hf1 ]). }
    intros q1 Hq1. cbv beta.
    (* minutes *)
    apply stage_bind with (pk := p2).
    { rewrite Ep2. destruct (qeqb mi 0); cbn [negb].
      - apply returns_tp_intro with q1; [reflexivity | exact Hq1].
      - destruct fl as [dg tpr tdf df], q1 as [[?|?|?] [?|?|?] [? ?]];
          (eapply tick_finish with (fuel := fuel) (P := t2);
           [ stage_code md | reflexivity | reflexivity
           | rewrite Et2; equiv_solve Hq1 | rewrite Et2; exact Hm1 | exact Hf2 ]). }
    intros q2 Hq2. cbv beta.
    (* hours *)
    apply stage_bind with (pk := p3).
    { rewrite Ep3. destruct (qeqb h 0); cbn [negb].
      - apply returns_tp_intro with q2; [reflexivity | exact Hq2].
      - destruct fl as [dg tpr tdf df], q2 as [[?|?|?] [?|?|?] [? ?]];
          (eapply tick_finish with (fuel := fuel) (P := t3);
           [ stage_code md | reflexivity | reflexivity
           | rewrite Et3; equiv_solve Hq2 | rewrite Et3; exact Hm2 | exact Hf3 ]). }
    intros q3 Hq3. cbv beta.
    (* days *)
    apply stage_bind with (pk := p4).
    { rewrite Ep4. destruct (ds =? 0); cbn [negb].
      - apply returns_tp_intro with q3; [reflexivity | exact Hq3].
      - destruct fl as [dg tpr tdf df], q3 as [[?|?|?] [?|?|?] [? ?]];
          (eapply tick_finish with (fuel := fuel) (P := t4);
           [ stage_code md | reflexivity | reflexivity
           | rewrite Et4; equiv_solve Hq3 | rewrite Et4; apply month_ok_add_days; exact Hm3 | exact Hf4 ]). }
    intros q4 Hq4. cbv beta.
    (* months *)
    destruct (if mos =? 0 then Some p4 else add_months md p4 mos) as [p5|] eqn:E5; [|discriminate].
    injection Hadd' as Hq.
    apply stage_bind with (pk := p5).
    { destruct (mos =? 0); cbn [negb need].
      - injection E5 as <-. apply returns_tp_intro with q4; [reflexivity | exact Hq4].
      - rewrite ebind_ok. cbv beta. apply returns_tp_ret.
        exact (gen4_add_months_with md fl p4 q4 mos fuel p5 Hq4 Hm4 E5 Hf5). }
    intros q5 Hq5. cbv beta.
    (* years *)
    apply returns_tp_ret. subst q.
    destruct (ys =? 0); cbn [negb].
    - apply returns_tp_intro with q5; [reflexivity | exact Hq5].
    - destruct Hq5 as (Hd5 & Ht5 & Hz5). rewrite <- Hd5.
      destruct fl as [dg tpr tdf df], q5 as [[y m d|y doy|y w d] [?|?|?] [? ?]]; cal4 md;
        cbn [tdate ttod tzone] in Ht5, Hz5;
        cbv beta iota delta [tdate add_years clamp_dom year_months]; run4;
        repeat (step_code md; try lia; run4);
        (eapply returns_tp_abs;
         [ reflexivity | reflexivity | reflexivity
         | split; [cbn [tdate]; first [reflexivity | f_equal; lia] | split; [exact Ht5 | exact Hz5]] ]).
  Qed.

  Theorem gen4_sub_dur_with : SubDurOk.
  Proof.
    intros md fl p p' od x fuel q Hpp (x' & -> & Hx) Hm Hsub Hfuel.
    unfold py_TimePoint___sub____Duration. cbv zeta.
    destruct (GenCode3Ok.returns_dur_rep _ _ (GenCode3Ok.gen3_mul x' (-1))) as (r & Er & Hr).
    rewrite Er. cbn [lift3]. rewrite ebind_ok. cbv beta.
    apply returns_tp_ret.
    apply (gen4_add_with md fl p p' (GenCode3Ok.rep r) (dur_mul x (-1)) fuel q Hpp); try assumption.
    exists r. split; [reflexivity|].
    eapply dur_equiv_trans; [exact Hr | apply dur_equiv_mul; exact Hx].
  Qed.
End WithParts.
Print Assumptions gen4_add_months_with.
Print Assumptions gen4_add_with.
Print Assumptions gen4_sub_dur_with.
