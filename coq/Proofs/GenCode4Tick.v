(* Proofs/GenCode4Tick.v -- TimePoint._tick_over as translated from data.py
   (gen/GenCode4.v, py_TimePoint__tick_over) computes the model's tick_over on
   every non-truncated time point, for every fuel >= the model's loop bounds. *)
From Coq Require Import QArith Qround Qabs Lqa Lia String Morphisms.
From Iso Require Import Proofs.Tac Spec.Cal Model.Num Model.Helpers Model.Duration Model.TimePoint
  gen.CalTables gen.GenCode gen.GenCode2 gen.GenCode4
  Proofs.TablesOk Proofs.GenCodeOk Proofs.GenCode2Ok Proofs.HelpersSpec Proofs.ConvSpec Proofs.DurSpec
  Proofs.TickSpec Proofs.GenCode4Base.
Open Scope Z_scope.

Definition set_cal (o : pyTimePoint) (y m d : Z) : pyTimePoint :=
  set_day_of_month (set_month_of_year (set_year o (Some y)) (Some m)) (Some d).

(* the largest of the model's loop bounds met by tick_over md p *)
Definition tick_bound (md : mode) (p : tp) : Z :=
  let '(_, nd) := tick_time (ttod p) in
  match add_days_raw (tdate p) nd with
  | Cal y m d => Z.abs d / 28 + 2
  | Ord y doy =>
    let c1 := loop (fun c => snd c <? 1) (fun c => (fst c - 1, snd c + get_days_in_year md (fst c - 1)))
                   (Z.abs doy / 360 + 2) (y, doy) in
    Z.max (Z.abs doy / 360 + 2) (Z.abs (snd c1) / 360 + 2)
  | Wk y w dd =>
    let w1 := w + (dd - 1) / 7 in
    let c1 := loop (fun c => snd c <? 1) (fun c => (fst c - 1, snd c + get_weeks_in_year md (fst c - 1)))
                   (Z.abs w1 / 51 + 2) (y, w1) in
    Z.max (Z.abs w1 / 51 + 2) (Z.abs (snd c1) / 51 + 2)
  end.

(* ---------- the model's year-carry loops stop inside their bounds ---------- *)
Lemma doy_back_done md y doy :
  snd (loop (fun c : Z * Z => snd c <? 1) (fun c => (fst c - 1, snd c + get_days_in_year md (fst c - 1)))
            (Z.abs doy / 360 + 2) (y, doy)) <? 1 = false.
Proof.
  apply (loop_spec (fun c : Z * Z => snd c <? 1) _ (fun _ => True) (fun c : Z * Z => (- snd c) / 360 + 1)).
  - intros [a b]; cbn [fst snd]; intros _ Hc. rewrite get_days_in_year_spec.
    pose proof (ylen_bounds md (a - 1)). split; [exact I | lia].
  - intros [a b]; cbn [fst snd]; intros _ Hc. lia.
  - exact I.
  - cbn [fst snd]. lia.
Qed.

Lemma doy_fwd_done md c1 : 1 <= snd c1 ->
  (fun c : Z * Z => get_days_in_year md (fst c) <? snd c)
    (loop (fun c : Z * Z => get_days_in_year md (fst c) <? snd c)
          (fun c => (fst c + 1, snd c - get_days_in_year md (fst c)))
          (Z.abs (snd c1) / 360 + 2) c1) = false.
Proof.
  intros H1.
  apply (loop_spec (fun c : Z * Z => get_days_in_year md (fst c) <? snd c) _
                   (fun c : Z * Z => 1 <= snd c) (fun c : Z * Z => snd c / 360)).
  - intros [a b]; cbn [fst snd]; intros H Hc. rewrite get_days_in_year_spec in *.
    pose proof (ylen_bounds md a). split; lia.
  - intros [a b]; cbn [fst snd]; intros _ Hc. rewrite get_days_in_year_spec in *.
    pose proof (ylen_bounds md a). lia.
  - exact H1.
  - lia.
Qed.

Lemma woy_back_done md y w :
  snd (loop (fun c : Z * Z => snd c <? 1) (fun c => (fst c - 1, snd c + get_weeks_in_year md (fst c - 1)))
            (Z.abs w / 51 + 2) (y, w)) <? 1 = false.
Proof.
  apply (loop_spec (fun c : Z * Z => snd c <? 1) _ (fun _ => True) (fun c : Z * Z => (- snd c) / 51 + 1)).
  - intros [a b]; cbn [fst snd]; intros _ Hc. rewrite gwiy.
    pose proof (weeks_in_bounds md (a - 1)). split; [exact I | lia].
  - intros [a b]; cbn [fst snd]; intros _ Hc. lia.
  - exact I.
  - cbn [fst snd]. lia.
Qed.

Lemma woy_fwd_done md c1 : 1 <= snd c1 ->
  (fun c : Z * Z => get_weeks_in_year md (fst c) <? snd c)
    (loop (fun c : Z * Z => get_weeks_in_year md (fst c) <? snd c)
          (fun c => (fst c + 1, snd c - get_weeks_in_year md (fst c)))
          (Z.abs (snd c1) / 51 + 2) c1) = false.
Proof.
  intros H1.
  apply (loop_spec (fun c : Z * Z => get_weeks_in_year md (fst c) <? snd c) _
                   (fun c : Z * Z => 1 <= snd c) (fun c : Z * Z => snd c / 51)).
  - intros [a b]; cbn [fst snd]; intros H Hc. rewrite gwiy in *.
    pose proof (weeks_in_bounds md a). split; lia.
  - intros [a b]; cbn [fst snd]; intros _ Hc. rewrite gwiy in *.
    pose proof (weeks_in_bounds md a). lia.
  - exact H1.
  - lia.
Qed.

(* ---------- the time carry ---------- *)
(* the five time steps of _tick_over on plain rationals (no Qred): what the code
   computes; equal to the model's tick_time up to the representation of rationals *)
Global Instance qtrunc_proper : Proper (Qeq ==> eq) qtrunc.
Proof. intros a b H. apply qtrunc_comp, H. Qed.

Global Instance inject_Z_proper : Proper (eq ==> Qeq) inject_Z.
Proof. intros a b ->. reflexivity. Qed.
Open Scope Q_scope.
Definition rdivmod (x : Q) (k : Z) : Z * Q :=
  let q := Qfloor (x / inject_Z k) in (q, x - inject_Z k * inject_Z q).

Definition tick_time_raw (t : tod) : tod * Z :=
  match t with
  | HMS h m s =>
    let hr := h - inject_Z (qtrunc h) in
    let h1 := h - hr in
    let m1 := m + hr * inject_Z 60 in
    let mr := m1 - inject_Z (qtrunc m1) in
    let m2 := m1 - mr in
    let s1 := s + mr * inject_Z 60 in
    let '(nm, s2) := rdivmod s1 60 in
    let m3 := m2 + inject_Z nm in
    let '(nh, m4) := rdivmod m3 60 in
    let h2 := h1 + inject_Z nh in
    let '(nd, h3) := rdivmod h2 24 in
    (HMS h3 m4 s2, nd)
  | HM h m =>
    let hr := h - inject_Z (qtrunc h) in
    let h1 := h - hr in
    let m1 := m + hr * inject_Z 60 in
    let '(nh, m4) := rdivmod m1 60 in
    let h2 := h1 + inject_Z nh in
    let '(nd, h3) := rdivmod h2 24 in
    (HM h3 m4, nd)
  | HH h => let '(nd, h3) := rdivmod h 24 in (HH h3, nd)
  end.

Ltac qstep := 
  unfold qadd, qsub, qmul, qz; rewrite ?Qred_correct;
  repeat match goal with H : _ == _ |- _ => rewrite H; clear H end;
  first [reflexivity | ring].

Lemma tick_time_raw_ok t' t : tod_equiv t' t ->
  snd (tick_time_raw t') = snd (tick_time t) /\ tod_equiv (fst (tick_time_raw t')) (fst (tick_time t)).
Proof.
  destruct t' as [h' m' s'|h' m'|h'], t as [h m s|h m|h]; cbn [tod_equiv]; try tauto.
  - intros (Hh & Hm & Hs).
    cbv beta iota zeta delta [tick_time tick_time_raw qdivmod rdivmod fst snd].
    set (hr := qsub h (qz (qtrunc h))). set (hr' := h' - inject_Z (qtrunc h')).
    assert (Ehr : hr' == hr) by (subst hr hr'; qstep).
    set (h1 := qsub h hr). set (h1' := h' - hr').
    assert (Eh1 : h1' == h1) by (subst h1 h1'; qstep).
    set (m1 := qadd m (qmul hr (qz 60))). set (m1' := m' + hr' * inject_Z 60).
    assert (Em1 : m1' == m1) by (subst m1 m1'; qstep).
    set (mr := qsub m1 (qz (qtrunc m1))). set (mr' := m1' - inject_Z (qtrunc m1')).
    assert (Emr : mr' == mr) by (subst mr mr'; qstep).
    set (m2 := qsub m1 mr). set (m2' := m1' - mr').
    assert (Em2 : m2' == m2) by (subst m2 m2'; qstep).
    set (s1 := qadd s (qmul mr (qz 60))). set (s1' := s' + mr' * inject_Z 60).
    assert (Es1 : s1' == s1) by (subst s1 s1'; qstep).
    set (nm := Qfloor (s1 / qz 60)). set (nm' := Qfloor (s1' / inject_Z 60)).
    assert (Enm : nm' = nm) by (subst nm nm'; unfold qz; rewrite Es1; reflexivity).
    set (m3 := qadd m2 (qz nm)). set (m3' := m2' + inject_Z nm').
    assert (Em3 : m3' == m3) by (subst m3 m3'; rewrite Enm; qstep).
    set (nh := Qfloor (m3 / qz 60)). set (nh' := Qfloor (m3' / inject_Z 60)).
    assert (Enh : nh' = nh) by (subst nh nh'; unfold qz; rewrite Em3; reflexivity).
    set (h2 := qadd h1 (qz nh)). set (h2' := h1' + inject_Z nh').
    assert (Eh2 : h2' == h2) by (subst h2 h2'; rewrite Enh; qstep).
    set (nd := Qfloor (h2 / qz 24)). set (nd' := Qfloor (h2' / inject_Z 24)).
    assert (End : nd' = nd) by (subst nd nd'; unfold qz; rewrite Eh2; reflexivity).
    split; [exact End|]. cbn [tod_equiv]. rewrite !Qred_correct, Enm, Enh, End. unfold qz.
    clearbody h2 h2' m3 m3' s1 s1'. repeat split.
    + rewrite Eh2. ring.
    + rewrite Em3. ring.
    + rewrite Es1. ring.
  - intros (Hh & Hm).
    cbv beta iota zeta delta [tick_time tick_time_raw qdivmod rdivmod fst snd].
    set (hr := qsub h (qz (qtrunc h))). set (hr' := h' - inject_Z (qtrunc h')).
    assert (Ehr : hr' == hr) by (subst hr hr'; qstep).
    set (h1 := qsub h hr). set (h1' := h' - hr').
    assert (Eh1 : h1' == h1) by (subst h1 h1'; qstep).
    set (m1 := qadd m (qmul hr (qz 60))). set (m1' := m' + hr' * inject_Z 60).
    assert (Em1 : m1' == m1) by (subst m1 m1'; qstep).
    set (nh := Qfloor (m1 / qz 60)). set (nh' := Qfloor (m1' / inject_Z 60)).
    assert (Enh : nh' = nh) by (subst nh nh'; unfold qz; rewrite Em1; reflexivity).
    set (h2 := qadd h1 (qz nh)). set (h2' := h1' + inject_Z nh').
    assert (Eh2 : h2' == h2) by (subst h2 h2'; rewrite Enh; qstep).
    set (nd := Qfloor (h2 / qz 24)). set (nd' := Qfloor (h2' / inject_Z 24)).
    assert (End : nd' = nd) by (subst nd nd'; unfold qz; rewrite Eh2; reflexivity).
    split; [exact End|]. cbn [tod_equiv]. rewrite !Qred_correct, Enh, End. unfold qz.
    clearbody h2 h2' m1 m1'. repeat split.
    + rewrite Eh2. ring.
    + rewrite Em1. ring.
  - intros Hh.
    cbv beta iota zeta delta [tick_time tick_time_raw qdivmod rdivmod fst snd].
    unfold qz. cbn [tod_equiv]. rewrite Qred_correct, Hh. split; [reflexivity|ring].
Qed.
Open Scope Z_scope.

(* ---------- symbolic execution of the generated code ---------- *)
Definition set_ord (o : pyTimePoint) (y doy : Z) : pyTimePoint :=
  set_day_of_year (set_year o (Some y)) (Some doy).
Definition set_wk (o : pyTimePoint) (y w : Z) : pyTimePoint :=
  set_week_of_year (set_year o (Some y)) (Some w).

(* the class constants, whichever way the source spells 60 *)
Ltac consts4 :=
  let K1 := fresh in let K2 := fresh in let K3 := fresh in
  let K4 := fresh in let K5 := fresh in let K6 := fresh in
  destruct unit_constants_ok as (K1 & K2 & K3 & K4 & K5 & K6);
  rewrite ?K1, ?K2, ?K3, ?K4, ?K5, ?K6; clear K1 K2 K3 K4 K5 K6.

(* run the generated code on constructor-headed states: the monad, the slots and
   their setters; never the arithmetic, the loops or the model *)
Ltac run4 :=
  cbv beta iota zeta delta [rep rep_zone tdate ttod tzone zh zm f_digits f_tprop f_tdump f_dump
    ebind need is_none negb andb orb lift2 set_cal set_ord set_wk
    s_num_expanded_year_digits s_year s_month_of_year s_day_of_year s_day_of_month s_day_of_week
    s_week_of_year s_hour_of_day s_minute_of_hour s_second_of_minute s_truncated s_truncated_property
    s_truncated_dump_format s_dump_format s_time_zone
    set_num_expanded_year_digits set_year set_month_of_year set_day_of_year set_day_of_month
    set_day_of_week set_week_of_year set_hour_of_day set_minute_of_hour set_second_of_minute
    set_truncated set_truncated_property set_truncated_dump_format set_dump_format set_time_zone].

Ltac start4 :=
  unfold py_TimePoint__tick_over; consts4;
  cbv beta iota delta [py_divmod_Q py_divmod_Z py_floordiv_Q py_mod_Q py_floordiv_Z py_mod_Z py_truediv];
  change (Qeq_bool (inject_Z 60) 0) with false;
  change (Qeq_bool (inject_Z 24) 0) with false;
  change (7 =? 0) with false;
  run4.

Ltac no_floor a :=
  lazymatch a with context [Qfloor _] => fail | context [qtrunc _] => fail | _ => idtac end.
Ltac q_solve :=
  change (inject_Z 60) with 60%Q; change (inject_Z 24) with 24%Q;
  first [reflexivity | ring | field | lra].
(* name the Qfloor / qtrunc subterms bottom-up, identifying those whose arguments are == *)
Ltac unify_floors :=
  repeat first
  [ match goal with |- context [Qfloor ?a] => no_floor a;
      repeat match goal with |- context [Qfloor ?b] => no_floor b;
        tryif constr_eq a b then fail else idtac;
        let E := fresh in
        assert (E : Qfloor b = Qfloor a) by (apply Qfloor_comp; q_solve); rewrite E; clear E end;
      let f := fresh "fl" in generalize (Qfloor a); intro f end
  | match goal with |- context [qtrunc ?a] => no_floor a;
      repeat match goal with |- context [qtrunc ?b] => no_floor b;
        tryif constr_eq a b then fail else idtac;
        let E := fresh in
        assert (E : qtrunc b = qtrunc a) by (apply qtrunc_comp; q_solve); rewrite E; clear E end;
      let f := fresh "tr" in generalize (qtrunc a); intro f end ].
(* equality of constructor-headed values down to the numbers *)
Ltac struct_eq :=
  repeat match goal with
  | |- @eq Z _ _ => fail 1
  | |- @eq bool _ _ => fail 1
  | |- @eq Q _ _ => fail 1
  | |- _ = _ => progress f_equal
  end.

(* the date slots after the day-of-week step (the week carry of a week date is
   taken before the year loops) *)
Definition pre_date (d : date) : date :=
  match d with Wk y w dd => Wk y (w + (dd - 1) / 7) ((dd - 1) mod 7 + 1) | _ => d end.

Ltac raw_unfold :=
  cbv beta iota zeta delta [tick_time_raw rdivmod fst snd add_days_raw pre_date]; change py_int_Q with qtrunc.

(* the model value of a constructor-headed object state *)
Ltac abs4_eval R :=
  eval cbv beta iota zeta delta [abs4 orb z_unknown z_hours z_minutes
    s_num_expanded_year_digits s_year s_month_of_year s_day_of_year s_day_of_month s_day_of_week
    s_week_of_year s_hour_of_day s_minute_of_hour s_second_of_minute s_truncated s_truncated_property
    s_truncated_dump_format s_dump_format s_time_zone] in (abs4 R).

(* replace the (large) expressions in the time / day slots by variables *)
Ltac gen_tod tt :=
  lazymatch tt with
  | HMS ?H ?M ?S =>
    let h3 := fresh "h3" in let m3 := fresh "m3" in let s3 := fresh "s3" in
    set (h3 := H) in *; set (m3 := M) in *; set (s3 := S) in *; clearbody h3 m3 s3
  | HM ?H ?M =>
    let h3 := fresh "h3" in let m3 := fresh "m3" in
    set (h3 := H) in *; set (m3 := M) in *; clearbody h3 m3
  | HH ?H => let h3 := fresh "h3" in set (h3 := H) in *; clearbody h3
  end.
Ltac gen_date dd :=
  lazymatch dd with
  | Cal _ _ ?D => let d3 := fresh "d3" in set (d3 := D) in *; clearbody d3
  | Ord _ ?D => let d3 := fresh "d3" in set (d3 := D) in *; clearbody d3
  | Wk _ ?W ?D =>
    let w3 := fresh "w3" in let d3 := fresh "d3" in
    set (w3 := W) in *; set (d3 := D) in *; clearbody w3 d3
  end.

(* after the time steps: the state is that of the time point with the model's
   carried days and (up to ==) the model's time of day *)
Ltac time_part_on R dt t' E1 E2 Hdd Htt :=
    let q := abs4_eval R in
    lazymatch q with Some (mkTp ?dd ?tt ?zz) =>
      assert (Hdd : dd = pre_date (add_days_raw dt (snd (tick_time_raw t'))));
      [ raw_unfold; first [reflexivity | struct_eq; unify_floors; lia] | ];
      assert (Htt : tod_equiv tt (fst (tick_time_raw t')));
      [ raw_unfold; cbn [tod_equiv]; repeat split; first [reflexivity | unify_floors; q_solve] | ];
      rewrite E1 in Hdd; apply (fun H => tod_equiv_trans _ _ _ H E2) in Htt; clear E1 E2;
      gen_date dd; gen_tod tt; cbn [add_days_raw pre_date] in Hdd
    end.
Ltac time_part dt t' E1 E2 Hdd Htt :=
  match goal with
  | |- context [py_TimePoint__tick_over_day_of_month _ _ ?R] => time_part_on R dt t' E1 E2 Hdd Htt
  | |- context [while_flow _ _ _ ?R] => time_part_on R dt t' E1 E2 Hdd Htt
  end.

(* steps 1-2: run the code up to the first loop (or the call of
   _tick_over_day_of_month) and bring the state to the model's terms *)
Ltac prelude Ht Hf :=
  start4;
  let E1 := fresh "E1" in let E2 := fresh "E2" in let Et := fresh "Et" in
  let r := fresh "r" in let nd := fresh "nd" in
  pose proof (tick_time_raw_ok _ _ Ht) as [E1 E2];
  unfold tick_over, tick_bound in *; cbn [tdate ttod tzone] in *;
  match goal with |- context [tick_time ?t] => destruct (tick_time t) as [r nd] eqn:Et end;
  cbn [fst snd] in E1, E2; clear Et;
  match type of E1 with snd (tick_time_raw ?t') = _ =>
    match goal with |- context [add_days_raw ?dt nd] =>
      let Hdd := fresh "Hdd" in let Htt := fresh "Htt" in
      time_part dt t' E1 E2 Hdd Htt;
      injection Hdd; clear Hdd; intros; subst;
      destruct r; cbn [tod_equiv] in Htt; try (exfalso; exact Htt)
    end
  end;
  cbn [add_days_raw tick_date] in *; cbv zeta in Hf.

Lemma while_flow_false {S R} fuel cond body (s : S) :
  cond s = Ok false -> while_flow (R := R) fuel cond body s = Ok (Next s).
Proof. intros H. destruct fuel; cbn [while_flow]; rewrite H; reflexivity. Qed.

(* one `while` loop of the code against one bounded loop of the model; the loop
   state is the pair of slots written by `setter` *)
Ltac sim_loop md mcond mstep setter afin Hdone :=
  match goal with |- context [while_flow ?fuel ?C ?B ?R] =>
    let HW := fresh "HW" in let s1 := fresh "s1" in
    assert (HW : exists s', while_flow fuel C B R = Ok (Next s') /\ s' = setter R (fst afin) (snd afin));
    [ apply (while_flow_loop C B mcond mstep (fun s a => s = setter R (fst a) (snd a)));
      [ intros ? ? ->; run4; cal4 md; rewrite ?gen_get_days_in_year_eq, ?gen_get_weeks_in_year_eq; run4;
        first [reflexivity | struct_eq; lia]
      | intros ? ? -> _; run4; cal4 md; rewrite ?gen_get_days_in_year_eq, ?gen_get_weeks_in_year_eq; run4;
        eexists; split; [reflexivity|]; run4; cbn [fst snd]; first [reflexivity | struct_eq; lia]
      | run4; cbn [fst snd]; first [reflexivity | struct_eq; lia]
      | lia
      | exact Hdone ]
    | destruct HW as (s1 & -> & ->); run4 ] end.

Lemma returns_tp_abs fl o q x :
  abs4 o = Some q -> flags_of o = fl -> tp_equiv q x -> returns_tp fl (Ok o) x.
Proof.
  intros H1 H2 H3. apply returns_tp_intro with q; [|exact H3].
  f_equal. rewrite <- H2. apply rep_abs4. exact H1.
Qed.

Section WithDom.
  Hypothesis dom_ok : forall md o y m d fuel,
    s_year o = Some y -> s_month_of_year o = Some m -> s_day_of_month o = Some d ->
    1 <= m <= 12 -> (Z.to_nat (Z.abs d / 28 + 2) <= fuel)%nat ->
    py_TimePoint__tick_over_day_of_month fuel (cal_of md) o =
    Ok (let '(y', m', d') := tick_dom md (y, m, d) in set_cal o y' m' d').

  Theorem gen4_tick_over_with md fl p p' fuel :
    tp_equiv p' p ->
    (match tdate p with Cal _ m _ => 1 <= m <= 12 | _ => True end) ->
    (Z.to_nat (tick_bound md p) <= fuel)%nat ->
    returns_tp fl (py_TimePoint__tick_over fuel (cal_of md) (rep fl p')) (tick_over md p).
  Proof.
    intros (Hd & Ht & Hz).
    destruct fl as [dg f1 f2 f3].
    destruct p as [dt t [z1 z2]], p' as [dt' t' z']. cbn [tdate ttod tzone] in Hd, Ht, Hz. subst dt' z'.
    intros Hm Hf.
    destruct dt as [y m d|y doy|y w d].
    - destruct t as [h mi s|h mi|h], t' as [h' mi' s'|h' mi'|h']; try (exfalso; exact Ht); prelude Ht Hf.
      all: match goal with |- context [py_TimePoint__tick_over_day_of_month _ _ ?R] =>
             rewrite (dom_ok md R _ _ _ fuel eq_refl eq_refl eq_refl Hm Hf) end.
      all: destruct (tick_dom md (y, m, d + nd)) as [[y1 m1] d1] eqn:Ed;
           destruct (tick_dom_spec md y m (d + nd) Hm _ _ _ Ed) as [V _];
           assert (Hm1 : 1 <= m1 <= 12) by (unfold valid_cal in V; lia);
           rewrite tick_month_id by exact Hm1; run4.
      all: repeat match goal with |- context [while_flow ?fuel ?C ?B ?R] =>
             rewrite (while_flow_false fuel C B R) by (run4; cal4 md; struct_eq; lia); run4 end.
      all: (eapply returns_tp_abs; [reflexivity | reflexivity | ]);
           repeat split; cbn [tdate ttod tzone tod_equiv]; tauto.
    - destruct t as [h mi s|h mi|h], t' as [h' mi' s'|h' mi'|h']; try (exfalso; exact Ht); prelude Ht Hf.
      all: unfold tick_doy;
          set (c1 := loop (fun c : Z * Z => snd c <? 1) _ _ (y, doy + nd)) in *;
          set (c2 := loop (fun c : Z * Z => get_days_in_year md (fst c) <? snd c) _ _ c1);
          pose proof (doy_back_done md y (doy + nd)) as D1; fold c1 in D1;
          pose proof (doy_fwd_done md c1 ltac:(lia)) as D2; fold c2 in D2; cbv beta in D2;
          sim_loop md (fun c : Z * Z => snd c <? 1)
                   (fun c : Z * Z => (fst c - 1, snd c + get_days_in_year md (fst c - 1))) set_ord c1 D1;
          sim_loop md (fun c : Z * Z => get_days_in_year md (fst c) <? snd c)
                   (fun c : Z * Z => (fst c + 1, snd c - get_days_in_year md (fst c))) set_ord c2 D2;
          (eapply returns_tp_abs; [reflexivity | reflexivity | ]);
          repeat split; cbn [tdate ttod tzone tod_equiv]; try tauto; destruct c2; reflexivity.
    - destruct t as [h mi s|h mi|h], t' as [h' mi' s'|h' mi'|h']; try (exfalso; exact Ht); prelude Ht Hf.
      all: unfold tick_woy;
          set (c1 := loop (fun c : Z * Z => snd c <? 1) _ _ (y, w + (d + nd - 1) / 7)) in *;
          set (c2 := loop (fun c : Z * Z => get_weeks_in_year md (fst c) <? snd c) _ _ c1);
          pose proof (woy_back_done md y (w + (d + nd - 1) / 7)) as D1; fold c1 in D1;
          pose proof (woy_fwd_done md c1 ltac:(lia)) as D2; fold c2 in D2; cbv beta in D2;
          sim_loop md (fun c : Z * Z => snd c <? 1)
                   (fun c : Z * Z => (fst c - 1, snd c + get_weeks_in_year md (fst c - 1))) set_wk c1 D1;
          sim_loop md (fun c : Z * Z => get_weeks_in_year md (fst c) <? snd c)
                   (fun c : Z * Z => (fst c + 1, snd c - get_weeks_in_year md (fst c))) set_wk c2 D2;
          (eapply returns_tp_abs; [reflexivity | reflexivity | ]);
          repeat split; cbn [tdate ttod tzone tod_equiv]; try tauto; destruct c2; reflexivity.
  Qed.
End WithDom.
Print Assumptions gen4_tick_over_with.
