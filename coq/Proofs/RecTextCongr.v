(* Proofs/RecTextCongr.v -- the model's arithmetic does not look at how a
   rational is written: time points that are the `same_point` (equal dates and
   zones, == time fields; the relation of property C08) and durations that are
   `dur_equiv` (equal ints, == rationals; the relation of property C10) are
   interchangeable in tp_add / tp_cmp / tp_sub / rec_make / iter_take.  Needed
   for the text round trip of recurrences: the parser returns the fields of a
   printed point as reduced fractions, which are == but not always identical
   to the fields of the point that was printed. *)
From Coq Require Import ZArith QArith Qround Qabs List Bool.
From Iso Require Import Proofs.Tac Spec.Cal Spec.Instant Model.Num Model.Helpers Model.Duration Model.TimePoint
  Model.Recurrence Proofs.RoundTripSpec Proofs.DurTextSpec.
Import ListNotations.
Open Scope Z_scope.

(* ---------- relations ---------- *)
Definition orel {A} (R : A -> A -> Prop) (a b : option A) : Prop :=
  match a, b with Some x, Some y => R x y | None, None => True | _, _ => False end.
Definition res_rel {A} (R : A -> A -> Prop) (a b : res A) : Prop :=
  match a, b with Ok x, Ok y => R x y | Err, Err => True | _, _ => False end.

Lemma tod_eq_refl t : tod_eq t t.
Proof. destruct t; cbn [tod_eq]; repeat split; reflexivity. Qed.
Lemma tod_eq_sym a b : tod_eq a b -> tod_eq b a.
Proof.
  destruct a, b; cbn [tod_eq]; try tauto; intros H; decompose [and] H; repeat split; symmetry; assumption.
Qed.
Lemma tod_eq_trans a b c : tod_eq a b -> tod_eq b c -> tod_eq a c.
Proof.
  destruct a, b, c; cbn [tod_eq]; try tauto; intros H1 H2; decompose [and] H1; decompose [and] H2;
    repeat split; etransitivity; eassumption.
Qed.
Lemma same_point_refl p : same_point p p.
Proof. repeat split. apply tod_eq_refl. Qed.
Lemma same_point_sym a b : same_point a b -> same_point b a.
Proof. intros (A & B & C). repeat split; [symmetry; exact A|apply tod_eq_sym; exact B|symmetry; exact C]. Qed.
Lemma same_point_trans a b c : same_point a b -> same_point b c -> same_point a c.
Proof.
  intros (A & B & C) (A' & B' & C'). repeat split; [congruence|eapply tod_eq_trans; eassumption|congruence].
Qed.
Lemma same_point_mk d t t' z : tod_eq t t' -> same_point (mkTp d t z) (mkTp d t' z).
Proof. intros H. repeat split. exact H. Qed.
Lemma orel_refl_sp o : orel same_point o o.
Proof. destruct o; cbn; [apply same_point_refl|exact I]. Qed.
Lemma orel_eq_sp a b : a = b -> orel same_point a b.
Proof. intros ->. apply orel_refl_sp. Qed.

Lemma dur_equiv_refl x : dur_equiv x x.
Proof. destruct x; cbn [dur_equiv]; repeat split; reflexivity. Qed.
Lemma dur_equiv_sym a b : dur_equiv a b -> dur_equiv b a.
Proof.
  destruct a, b; cbn [dur_equiv]; try tauto; [congruence|].
  intros H; decompose [and] H; repeat split; symmetry; assumption.
Qed.

(* ---------- rationals ---------- *)
Lemma qadd_c a a' b b' : (a == a')%Q -> (b == b')%Q -> qadd a b = qadd a' b'.
Proof. intros A B. unfold qadd. apply Qred_complete. rewrite A, B. reflexivity. Qed.
Lemma qsub_c a a' b b' : (a == a')%Q -> (b == b')%Q -> qsub a b = qsub a' b'.
Proof. intros A B. unfold qsub. apply Qred_complete. rewrite A, B. reflexivity. Qed.
Lemma qmul_c a a' b b' : (a == a')%Q -> (b == b')%Q -> qmul a b = qmul a' b'.
Proof. intros A B. unfold qmul. apply Qred_complete. rewrite A, B. reflexivity. Qed.
Lemma qdivz_c a a' k : (a == a')%Q -> qdivz a k = qdivz a' k.
Proof. intros A. unfold qdivz. apply Qred_complete. rewrite A. reflexivity. Qed.
Lemma qdivmod_c x x' k : (x == x')%Q -> qdivmod x k = qdivmod x' k.
Proof.
  intros A. unfold qdivmod.
  assert (F : Qfloor (x / qz k) = Qfloor (x' / qz k)) by (apply Qfloor_comp; rewrite A; reflexivity).
  rewrite F. f_equal. apply Qred_complete. rewrite A. reflexivity.
Qed.
Lemma qeqb_c a a' b b' : (a == a')%Q -> (b == b')%Q -> qeqb a b = qeqb a' b'.
Proof. intros A B. unfold qeqb. apply Qeqb_comp; assumption. Qed.
Lemma qleb_c a a' b b' : (a == a')%Q -> (b == b')%Q -> qleb a b = qleb a' b'.
Proof. intros A B. unfold qleb. apply Qleb_comp; assumption. Qed.
Lemma qltb_c a a' b b' : (a == a')%Q -> (b == b')%Q -> qltb a b = qltb a' b'.
Proof. intros A B. unfold qltb. f_equal. apply Qleb_comp; assumption. Qed.

(* ---------- time of day ---------- *)
Lemma tod_hour_c t t' : tod_eq t t' -> (tod_hour t == tod_hour t')%Q.
Proof. destruct t, t'; cbn [tod_eq tod_hour]; tauto. Qed.

Lemma tick_time_c t t' : tod_eq t t' -> tick_time t = tick_time t'.
Proof.
  destruct t as [h m s|h m|h], t' as [h' m' s'|h' m'|h']; cbn [tod_eq]; try tauto.
  - intros (Eh & Em & Es). unfold tick_time. rewrite (qtrunc_comp _ _ Eh).
    rewrite (qsub_c h h' _ _ Eh (Qeq_refl _)). set (hr := qsub h' _).
    rewrite (qsub_c h h' hr hr Eh (Qeq_refl _)).
    rewrite (qadd_c m m' _ _ Em (Qeq_refl _)). set (m1 := qadd m' _).
    rewrite (qadd_c s s' _ _ Es (Qeq_refl _)). reflexivity.
  - intros (Eh & Em). unfold tick_time. rewrite (qtrunc_comp _ _ Eh).
    rewrite (qsub_c h h' _ _ Eh (Qeq_refl _)). set (hr := qsub h' _).
    rewrite (qsub_c h h' hr hr Eh (Qeq_refl _)).
    rewrite (qadd_c m m' _ _ Em (Qeq_refl _)). reflexivity.
  - intros Eh. unfold tick_time. rewrite (qdivmod_c _ _ 24 Eh). reflexivity.
Qed.

Lemma add_seconds_c t t' s s' : tod_eq t t' -> (s == s')%Q -> tod_eq (add_seconds t s) (add_seconds t' s').
Proof.
  destruct t, t'; cbn [tod_eq add_seconds]; try tauto; intros H E; decompose [and] H; repeat split; try assumption.
  - rewrite (qadd_c _ _ _ _ H3 E). reflexivity.
  - rewrite (qdivz_c _ _ 60 E), (qadd_c _ _ _ _ H1 (Qeq_refl _)). reflexivity.
  - rewrite (qdivz_c _ _ 3600 E), (qadd_c _ _ _ _ H (Qeq_refl _)). reflexivity.
Qed.
Lemma add_minutes_c t t' s s' : tod_eq t t' -> (s == s')%Q -> tod_eq (add_minutes t s) (add_minutes t' s').
Proof.
  destruct t, t'; cbn [tod_eq add_minutes]; try tauto; intros H E; decompose [and] H; repeat split; try assumption.
  - rewrite (qadd_c _ _ _ _ H2 E). reflexivity.
  - rewrite (qadd_c _ _ _ _ H1 E). reflexivity.
  - rewrite (qdivz_c _ _ 60 E), (qadd_c _ _ _ _ H (Qeq_refl _)). reflexivity.
Qed.
Lemma add_hours_c t t' s s' : tod_eq t t' -> (s == s')%Q -> tod_eq (add_hours t s) (add_hours t' s').
Proof.
  destruct t, t'; cbn [tod_eq add_hours]; try tauto; intros H E; decompose [and] H; repeat split; try assumption.
  - rewrite (qadd_c _ _ _ _ H0 E). reflexivity.
  - rewrite (qadd_c _ _ _ _ H0 E). reflexivity.
  - rewrite (qadd_c _ _ _ _ H E). reflexivity.
Qed.

Definition hms_eq (a b : Q * Q * Q) : Prop :=
  let '(h, m, s) := a in let '(h', m', s') := b in (h == h' /\ m == m' /\ s == s')%Q.
Lemma get_hms_c t t' : tod_eq t t' -> hms_eq (get_hour_minute_second t) (get_hour_minute_second t').
Proof.
  destruct t as [h m s|h m|h], t' as [h' m' s'|h' m'|h']; cbn [tod_eq]; try tauto.
  - intros H. exact H.
  - intros (Eh & Em). cbn [get_hour_minute_second hms_eq]. rewrite (qtrunc_comp _ _ Em).
    rewrite (qsub_c m m' _ _ Em (Qeq_refl _)). repeat split; try reflexivity; exact Eh.
  - intros Eh. cbn [get_hour_minute_second hms_eq]. rewrite (qtrunc_comp _ _ Eh).
    rewrite (qsub_c h h' _ _ Eh (Qeq_refl _)). repeat split; reflexivity.
Qed.
Lemma get_second_of_day_c t t' : tod_eq t t' -> get_second_of_day t = get_second_of_day t'.
Proof.
  destruct t, t'; cbn [tod_eq get_second_of_day]; try tauto; intros H; decompose [and] H; apply Qred_complete.
  - rewrite H0, H2, H3. reflexivity.
  - rewrite H0, H1. reflexivity.
  - rewrite H. reflexivity.
Qed.

(* ---------- time points ---------- *)
Lemma tick_over_c md p p' : same_point p p' -> tick_over md p = tick_over md p'.
Proof.
  intros (A & B & C). unfold tick_over. rewrite (tick_time_c _ _ B), A, C. reflexivity.
Qed.
Lemma with_tod_c p p' t t' : same_point p p' -> tod_eq t t' -> same_point (with_tod p t) (with_tod p' t').
Proof. intros (A & B & C) E. repeat split; cbn [with_tod tdate ttod tzone]; assumption. Qed.
Lemma with_date_c p p' d : same_point p p' -> same_point (with_date p d) (with_date p' d).
Proof. intros (A & B & C). repeat split; cbn [with_date tdate ttod tzone]; assumption. Qed.

Lemma add_months_c md p p' n : same_point p p' -> orel same_point (add_months md p n) (add_months md p' n).
Proof.
  intros SP. unfold add_months. destruct (n =? 0); [exact SP|].
  destruct SP as (A & B & C). rewrite <- A.
  destruct (get_calendar_date md (tdate p)) as [[[y m] d]|]; [|exact I].
  destruct (Pos.iter (month_step md n) (y, m, d) (Z.to_pos (Z.abs n))) as [[y1 m1] d1].
  assert (T : tick_over md (with_date p (Cal y1 m1 d1)) = tick_over md (with_date p' (Cal y1 m1 d1))).
  { apply tick_over_c. apply with_date_c. repeat split; assumption. }
  rewrite T. apply orel_refl_sp.
Qed.

(* the unit-representation branch of __add__ *)
Definition tp_add_du (md : mode) (p : tp) (ys mos ds : Z) (h mi s : Q) : option tp :=
  let p1 := if qeqb s 0 then p else tick_over md (with_tod p (add_seconds (ttod p) s)) in
  let p2 := if qeqb mi 0 then p1 else tick_over md (with_tod p1 (add_minutes (ttod p1) mi)) in
  let p3 := if qeqb h 0 then p2 else tick_over md (with_tod p2 (add_hours (ttod p2) h)) in
  let p4 := if ds =? 0 then p3 else tick_over md (with_date p3 (add_days_raw (tdate p3) ds)) in
  match (if mos =? 0 then Some p4 else add_months md p4 mos) with
  | None => None
  | Some p5 => Some (if ys =? 0 then p5 else with_date p5 (add_years md (tdate p5) ys))
  end.
Lemma tp_add_unfold md p x :
  tp_add md p x = match to_days x with DW _ => None | DU ys mos ds h mi s => tp_add_du md p ys mos ds h mi s end.
Proof. reflexivity. Qed.

Lemma tp_add_du_c md p p' ys mos ds h h' mi mi' s s' :
  same_point p p' -> (h == h')%Q -> (mi == mi')%Q -> (s == s')%Q ->
  orel same_point (tp_add_du md p ys mos ds h mi s) (tp_add_du md p' ys mos ds h' mi' s').
Proof.
  intros SP Eh Em Es. unfold tp_add_du.
  rewrite (qeqb_c s s' 0 0 Es (Qeq_refl _)), (qeqb_c mi mi' 0 0 Em (Qeq_refl _)), (qeqb_c h h' 0 0 Eh (Qeq_refl _)).
  set (p1 := if qeqb s' 0 then p else _). set (p1' := if qeqb s' 0 then p' else _).
  assert (S1 : same_point p1 p1').
  { unfold p1, p1'. destruct (qeqb s' 0); [exact SP|].
    rewrite (tick_over_c md _ (with_tod p' (add_seconds (ttod p') s'))); [apply same_point_refl|].
    apply with_tod_c; [exact SP|]. apply add_seconds_c; [apply SP|exact Es]. }
  clearbody p1 p1'.
  set (p2 := if qeqb mi' 0 then p1 else _). set (p2' := if qeqb mi' 0 then p1' else _).
  assert (S2 : same_point p2 p2').
  { unfold p2, p2'. destruct (qeqb mi' 0); [exact S1|].
    rewrite (tick_over_c md _ (with_tod p1' (add_minutes (ttod p1') mi'))); [apply same_point_refl|].
    apply with_tod_c; [exact S1|]. apply add_minutes_c; [apply S1|exact Em]. }
  clearbody p2 p2'.
  set (p3 := if qeqb h' 0 then p2 else _). set (p3' := if qeqb h' 0 then p2' else _).
  assert (S3 : same_point p3 p3').
  { unfold p3, p3'. destruct (qeqb h' 0); [exact S2|].
    rewrite (tick_over_c md _ (with_tod p2' (add_hours (ttod p2') h'))); [apply same_point_refl|].
    apply with_tod_c; [exact S2|]. apply add_hours_c; [apply S2|exact Eh]. }
  clearbody p3 p3'.
  set (p4 := if ds =? 0 then p3 else _). set (p4' := if ds =? 0 then p3' else _).
  assert (S4 : same_point p4 p4').
  { unfold p4, p4'. destruct (ds =? 0); [exact S3|].
    destruct S3 as (A & B & C). rewrite A.
    rewrite (tick_over_c md _ (with_date p3' (add_days_raw (tdate p3') ds))); [apply same_point_refl|].
    apply with_date_c. repeat split; assumption. }
  clearbody p4 p4'.
  assert (S5 : orel same_point (if mos =? 0 then Some p4 else add_months md p4 mos)
                               (if mos =? 0 then Some p4' else add_months md p4' mos)).
  { destruct (mos =? 0); [exact S4|apply add_months_c; exact S4]. }
  destruct (if mos =? 0 then Some p4 else add_months md p4 mos) as [p5|];
    destruct (if mos =? 0 then Some p4' else add_months md p4' mos) as [p5'|]; cbn [orel] in *; try tauto.
  destruct (ys =? 0); [exact S5|].
  destruct S5 as (A & B & C). rewrite A. apply with_date_c. repeat split; assumption.
Qed.

Lemma tp_add_c md p p' x x' : same_point p p' -> dur_equiv x x' ->
  orel same_point (tp_add md p x) (tp_add md p' x').
Proof.
  intros SP E. rewrite !tp_add_unfold.
  destruct x as [w|y mo d h mi s], x' as [w'|y' mo' d' h' mi' s']; cbn [dur_equiv] in E; try contradiction.
  - subst w'. cbn [to_days]. apply tp_add_du_c; [exact SP|reflexivity|reflexivity|reflexivity].
  - destruct E as (-> & -> & -> & Eh & Em & Es). cbn [to_days]. apply tp_add_du_c; assumption.
Qed.

Lemma dur_mul_c x x' n : dur_equiv x x' -> dur_mul x n = dur_mul x' n.
Proof.
  destruct x, x'; cbn [dur_equiv dur_mul]; try tauto; [congruence|].
  intros (-> & -> & -> & Eh & Em & Es).
  rewrite (qmul_c _ _ _ _ Eh (Qeq_refl _)), (qmul_c _ _ _ _ Em (Qeq_refl _)), (qmul_c _ _ _ _ Es (Qeq_refl _)).
  reflexivity.
Qed.
Lemma tp_sub_dur_c md p p' x x' : same_point p p' -> dur_equiv x x' ->
  orel same_point (tp_sub_dur md p x) (tp_sub_dur md p' x').
Proof.
  intros SP E. unfold tp_sub_dur. rewrite (dur_mul_c x x' (-1) E). apply tp_add_c; [exact SP|apply dur_equiv_refl].
Qed.

Lemma to_time_zone_c md p p' z : same_point p p' ->
  orel same_point (to_time_zone md p z) (to_time_zone md p' z).
Proof.
  intros SP. unfold to_time_zone. destruct SP as (A & B & C). rewrite C.
  pose proof (tp_add_c md p p' (zone_diff z (tzone p')) _ (conj A (conj B C)) (dur_equiv_refl _)) as H.
  destruct (tp_add md p _) as [q|]; destruct (tp_add md p' _) as [q'|]; cbn [orel] in *; try tauto.
  destruct H as (A' & B' & C'). repeat split; cbn [tdate ttod tzone]; assumption.
Qed.
Lemma normalised_c md p p' : same_point p p' -> same_point (normalised md p) (normalised md p').
Proof.
  intros SP. unfold normalised.
  rewrite (qeqb_c _ _ 24 24 (tod_hour_c _ _ (proj1 (proj2 SP))) (Qeq_refl _)).
  destruct (qeqb (tod_hour (ttod p')) 24); [|exact SP].
  rewrite (tick_over_c md p p' SP). apply same_point_refl.
Qed.

Lemma tp_props_eqb_c a a' b b' : same_point a a' -> same_point b b' -> tp_props_eqb a b = tp_props_eqb a' b'.
Proof.
  intros (A1 & A2 & A3) (B1 & B2 & B3). unfold tp_props_eqb. rewrite A1, A3, B1, B3.
  f_equal. f_equal. f_equal.
  destruct (ttod a), (ttod a'); cbn [tod_eq] in A2; try contradiction;
    destruct (ttod b), (ttod b'); cbn [tod_eq] in B2; try contradiction; try reflexivity;
    decompose [and] A2; decompose [and] B2;
    repeat match goal with
           | X : (?u == ?v)%Q, Y : (?w == ?t)%Q |- context [qeqb ?u ?w] => rewrite (qeqb_c u v w t X Y)
           end; reflexivity.
Qed.
Lemma cmp_key_c md uc p p' : same_point p p' -> cmp_key md uc p = cmp_key md uc p'.
Proof.
  intros (A & B & C). unfold cmp_key. rewrite A, (get_second_of_day_c _ _ B). reflexivity.
Qed.

Lemma tp_cmp_c md a a' b b' : same_point a a' -> same_point b b' -> tp_cmp md a b = tp_cmp md a' b'.
Proof.
  intros SA SB. unfold tp_cmp. rewrite (tp_props_eqb_c a a' b b' SA SB).
  destruct (tp_props_eqb a' b'); [reflexivity|].
  destruct SA as (A1 & A2 & A3). rewrite A3.
  pose proof (to_time_zone_c md b b' (tzone a') SB) as H.
  destruct (to_time_zone md b (tzone a')) as [b1|]; destruct (to_time_zone md b' (tzone a')) as [b1'|];
    cbn [orel] in H; try tauto.
  pose proof (normalised_c md b1 b1' H) as NB.
  pose proof (normalised_c md a a' (conj A1 (conj A2 A3))) as NA.
  rewrite (proj1 NA).
  rewrite (cmp_key_c md _ _ _ NA), (cmp_key_c md _ _ _ NB). reflexivity.
Qed.

Lemma tp_sub_pos_c md a a' b b' : same_point a a' -> same_point b b' -> tp_sub_pos md a b = tp_sub_pos md a' b'.
Proof.
  intros SA SB. unfold tp_sub_pos.
  destruct SA as (A1 & A2 & A3). rewrite A3.
  pose proof (to_time_zone_c md b b' (tzone a') SB) as H.
  destruct (to_time_zone md b (tzone a')) as [b1|]; destruct (to_time_zone md b' (tzone a')) as [b1'|];
    cbn [orel] in H; try tauto.
  pose proof (normalised_c md b1 b1' H) as NB.
  pose proof (normalised_c md a a' (conj A1 (conj A2 A3))) as NA.
  rewrite (proj1 NA), (proj1 NB).
  destruct (get_ordinal_date md (tdate (normalised md a'))) as [[my mdoy]|]; [|reflexivity].
  destruct (get_ordinal_date md (tdate (normalised md b1'))) as [[oy odoy]|]; [|reflexivity].
  pose proof (get_hms_c _ _ (proj1 (proj2 NA))) as HA. pose proof (get_hms_c _ _ (proj1 (proj2 NB))) as HB.
  destruct (get_hour_minute_second (ttod (normalised md a))) as [[mh mm] ms].
  destruct (get_hour_minute_second (ttod (normalised md a'))) as [[mh' mm'] ms'].
  destruct (get_hour_minute_second (ttod (normalised md b1))) as [[oh om] os].
  destruct (get_hour_minute_second (ttod (normalised md b1'))) as [[oh' om'] os'].
  cbn [hms_eq] in HA, HB. destruct HA as (E1 & E2 & E3). destruct HB as (F1 & F2 & F3).
  rewrite (qsub_c _ _ _ _ E1 F1), (qsub_c _ _ _ _ E2 F2), (qsub_c _ _ _ _ E3 F3). reflexivity.
Qed.
Lemma tp_sub_c md a a' b b' : same_point a a' -> same_point b b' -> tp_sub md a b = tp_sub md a' b'.
Proof.
  intros SA SB. unfold tp_sub. rewrite (tp_cmp_c md b b' a a' SB SA).
  rewrite (tp_sub_pos_c md b b' a a' SB SA), (tp_sub_pos_c md a a' b b' SA SB). reflexivity.
Qed.

(* two spellings of one point compare equal (no validity needed) *)
Lemma same_point_props a b : same_point a b -> tp_props_eqb a b = true.
Proof.
  intros (A & B & C). unfold tp_props_eqb. rewrite A, C, !Z.eqb_refl.
  assert (D : match tdate b, tdate b with
              | Cal y m d, Cal y' m' d' => (y =? y') && (m =? m') && (d =? d')
              | Ord y d, Ord y' d' => (y =? y') && (d =? d')
              | Wk y w d, Wk y' w' d' => (y =? y') && (w =? w') && (d =? d')
              | _, _ => false end = true) by (destruct (tdate b); rewrite !Z.eqb_refl; reflexivity).
  rewrite D.
  assert (T : match ttod a, ttod b with
              | HMS h m s, HMS h' m' s' => qeqb h h' && qeqb m m' && qeqb s s'
              | HM h m, HM h' m' => qeqb h h' && qeqb m m'
              | HH h, HH h' => qeqb h h'
              | _, _ => false end = true).
  { destruct (ttod a), (ttod b); cbn [tod_eq] in B; try contradiction; decompose [and] B; unfold qeqb;
      repeat (apply andb_true_iff; split); apply Qeq_eq_bool; assumption. }
  rewrite T. reflexivity.
Qed.
Lemma same_point_cmp md a b : same_point a b -> tp_cmp md a b = Some Eq.
Proof. intros H. unfold tp_cmp. rewrite (same_point_props a b H). reflexivity. Qed.

(* ---------- durations ---------- *)
Lemma nns_c x x' : dur_equiv x x' -> non_nominal_seconds x = non_nominal_seconds x'.
Proof.
  destruct x, x'; cbn [dur_equiv non_nominal_seconds]; try tauto; [congruence|].
  intros (-> & -> & -> & Eh & Em & Es). apply Qred_complete. rewrite Eh, Em, Es. reflexivity.
Qed.
Lemma is_exact_c x x' : dur_equiv x x' -> is_exact x = is_exact x'.
Proof. destruct x, x'; cbn [dur_equiv is_exact]; try tauto. intros (-> & -> & _). reflexivity. Qed.
Lemma days_and_seconds_c md x x' : dur_equiv x x' -> days_and_seconds md x = days_and_seconds md x'.
Proof.
  destruct x, x'; cbn [dur_equiv days_and_seconds]; try tauto; [congruence|].
  intros (-> & -> & -> & Eh & Em & Es).
  assert (R : Qred (h * qz 3600 + mi * qz 60 + s) = Qred (h0 * qz 3600 + mi0 * qz 60 + s0))
    by (apply Qred_complete; rewrite Eh, Em, Es; reflexivity).
  rewrite R. reflexivity.
Qed.
Lemma dur_ltb_c md x x' y y' : dur_equiv x x' -> dur_equiv y y' -> dur_ltb md x y = dur_ltb md x' y'.
Proof. intros A B. unfold dur_ltb. rewrite (days_and_seconds_c md _ _ A), (days_and_seconds_c md _ _ B). reflexivity. Qed.
Lemma dur_eqb_c x x' y y' : dur_equiv x x' -> dur_equiv y y' -> dur_eqb x y = dur_eqb x' y'.
Proof.
  intros A B. unfold dur_eqb. rewrite (is_exact_c _ _ A), (is_exact_c _ _ B), (nns_c _ _ A), (nns_c _ _ B).
  destruct (is_exact x'); [reflexivity|].
  destruct x, x'; cbn [dur_equiv] in A; try contradiction; [reflexivity|].
  destruct A as (-> & -> & _).
  destruct y, y'; cbn [dur_equiv] in B; try contradiction; cbn [to_days get_is_in_weeks].
  - subst. reflexivity.
  - destruct B as (-> & -> & _). reflexivity.
Qed.
Lemma dur_bool_c x x' : dur_equiv x x' -> dur_bool x = dur_bool x'.
Proof.
  destruct x, x'; cbn [dur_equiv dur_bool]; try tauto; [congruence|].
  intros (-> & -> & -> & Eh & Em & Es).
  rewrite (qeqb_c _ _ 0 0 Eh (Qeq_refl _)), (qeqb_c _ _ 0 0 Em (Qeq_refl _)), (qeqb_c _ _ 0 0 Es (Qeq_refl _)).
  reflexivity.
Qed.

(* ---------- recurrences ---------- *)
Definition rec_equiv (a b : recur) : Prop :=
  r_reps a = r_reps b /\ orel same_point (r_start a) (r_start b) /\ orel dur_equiv (r_dur a) (r_dur b) /\
  orel same_point (r_end a) (r_end b) /\ orel same_point (r_second a) (r_second b) /\ r_fmt a = r_fmt b.

Lemma tp_ltb_c md a a' b b' : same_point a a' -> same_point b b' -> tp_ltb md a b = tp_ltb md a' b'.
Proof. intros A B. unfold tp_ltb. rewrite (tp_cmp_c md a a' b b' A B). reflexivity. Qed.
Lemma tp_gtb_c md a a' b b' : same_point a a' -> same_point b b' -> tp_gtb md a b = tp_gtb md a' b'.
Proof. intros A B. unfold tp_gtb. rewrite (tp_cmp_c md a a' b b' A B). reflexivity. Qed.

Lemma in_bounds_c md r r' p p' : rec_equiv r r' -> orel same_point p p' ->
  in_bounds md r p = in_bounds md r' p'.
Proof.
  intros (_ & S & _ & E & _) P. unfold in_bounds.
  destruct p as [t|], p' as [t'|]; cbn [orel] in P; try tauto.
  assert (A : match r_start r with Some s => tp_ltb md t s | None => Some false end =
              match r_start r' with Some s => tp_ltb md t' s | None => Some false end).
  { destruct (r_start r), (r_start r'); cbn [orel] in S; try tauto. apply tp_ltb_c; assumption. }
  assert (B : match r_end r with Some e => tp_gtb md t e | None => Some false end =
              match r_end r' with Some e => tp_gtb md t' e | None => Some false end).
  { destruct (r_end r), (r_end r'); cbn [orel] in E; try tauto. apply tp_gtb_c; assumption. }
  rewrite A, B. reflexivity.
Qed.

Lemma step_point_c md r r' fwd p p' : rec_equiv r r' -> orel same_point p p' ->
  orel same_point (step_point md r fwd p) (step_point md r' fwd p').
Proof.
  intros R P. unfold step_point. pose proof R as (N & S & D & E & X & F). rewrite N.
  destruct (zopt_eqb (r_reps r') 1); [exact I|].
  destruct p as [t|], p' as [t'|]; cbn [orel] in P; try tauto.
  destruct (r_dur r) as [d|], (r_dur r') as [d'|]; cbn [orel] in D; try tauto.
  assert (Q : orel same_point (if fwd then tp_add md t d else tp_sub_dur md t d)
                              (if fwd then tp_add md t' d' else tp_sub_dur md t' d')).
  { destruct fwd; [apply tp_add_c|apply tp_sub_dur_c]; assumption. }
  rewrite (in_bounds_c md r r' _ _ R Q).
  destruct (in_bounds md r' _) as [[|]|]; try exact I. exact Q.
Qed.

Lemma iter_from_c md r r' fwd : rec_equiv r r' -> forall k p p', orel same_point p p' ->
  Forall2 same_point (iter_from md r fwd k p) (iter_from md r' fwd k p').
Proof.
  intros R. induction k as [|k IH]; intros p p' P; cbn [iter_from]; [constructor|].
  destruct p as [t|], p' as [t'|]; cbn [orel] in P; try tauto; [|constructor].
  rewrite (in_bounds_c md r r' (Some t) (Some t') R P).
  destruct (in_bounds md r' (Some t')) as [[|]|]; try constructor; [exact P|].
  apply IH. apply step_point_c; [exact R|exact P].
Qed.

Lemma dur_falsy_c d d' : orel dur_equiv d d' -> dur_falsy d = dur_falsy d'.
Proof.
  destruct d, d'; cbn [orel dur_falsy]; try tauto. intros H. rewrite (dur_bool_c _ _ H). reflexivity.
Qed.

Lemma iter_take_c md r r' k : rec_equiv r r' -> Forall2 same_point (iter_take md r k) (iter_take md r' k).
Proof.
  intros R. pose proof R as (N & S & D & E & X & F). unfold iter_take.
  assert (PF : exists p p' fwd,
            (match r_start r with None => (r_end r, false) | Some _ => (r_start r, true) end) = (p, fwd) /\
            (match r_start r' with None => (r_end r', false) | Some _ => (r_start r', true) end) = (p', fwd) /\
            orel same_point p p').
  { destruct (r_start r) as [s|] eqn:Es, (r_start r') as [s'|] eqn:Es'; cbn [orel] in S; try tauto.
    - exists (Some s), (Some s'), true. auto.
    - exists (r_end r), (r_end r'), false. auto. }
  destruct PF as (p & p' & fwd & E1 & E2 & P). rewrite E1, E2, N, (dur_falsy_c _ _ D). cbv beta iota.
  destruct (zopt_eqb (r_reps r') 1 || dur_falsy (r_dur r')).
  - destruct k; [constructor|].
    destruct p as [t|], p' as [t'|]; cbn [orel] in P; try tauto; [|constructor].
    rewrite (in_bounds_c md r r' (Some t) (Some t') R P).
    destruct (in_bounds md r' (Some t')) as [[|]|]; constructor; [exact P|constructor].
  - apply iter_from_c; assumption.
Qed.

Ltac req :=
  refine (conj _ (conj _ (conj _ (conj _ (conj _ _))))); cbn [r_reps r_start r_dur r_end r_second r_fmt orel];
  try reflexivity; try exact I; try assumption; try apply dur_equiv_refl.

(* the constructor *)
Lemma rec_make_c md reps s s' d d' e e' :
  orel same_point s s' -> orel dur_equiv d d' -> orel same_point e e' ->
  res_rel rec_equiv (rec_make md reps s d e) (rec_make md reps s' d' e').
Proof.
  intros S D E. unfold rec_make.
  destruct (match reps with Some n => n <=? 0 | None => false end); [exact I|].
  assert (G : match d with Some x => dur_ltb md x dzero | None => false end =
              match d' with Some x => dur_ltb md x dzero | None => false end).
  { destruct d, d'; cbn [orel] in D; try tauto. apply dur_ltb_c; [exact D|apply dur_equiv_refl]. }
  rewrite G. destruct (match d' with Some x => dur_ltb md x dzero | None => false end); [exact I|].
  destruct d as [dd|], d' as [dd'|]; cbn [orel] in D; try tauto.
  - (* formats 3 and 4 *)
    rewrite (dur_eqb_c dd dd' dzero dzero D (dur_equiv_refl _)).
    destruct s as [sp|], s' as [sp'|]; cbn [orel] in S; try tauto;
      destruct e as [ep|], e' as [ep'|]; cbn [orel] in E; try tauto; try exact I.
    + destruct (zopt_eqb reps 1 || dur_eqb dd' dzero).
      * cbn [res_rel]. req.
      * destruct reps as [n|].
        -- rewrite (dur_mul_c dd dd' (n - 1) D).
           pose proof (tp_add_c md sp sp' (dur_mul dd' (n - 1)) _ S (dur_equiv_refl _)) as H.
           destruct (tp_add md sp _), (tp_add md sp' _); cbn [orel] in H; try tauto; cbn [res_rel]; try exact I.
           req.
        -- cbn [res_rel]. req.
    + destruct (zopt_eqb reps 1 || dur_eqb dd' dzero).
      * cbn [res_rel]. req.
      * destruct reps as [n|].
        -- rewrite (dur_mul_c dd dd' (n - 1) D).
           pose proof (tp_sub_dur_c md ep ep' (dur_mul dd' (n - 1)) _ E (dur_equiv_refl _)) as H.
           destruct (tp_sub_dur md ep _), (tp_sub_dur md ep' _); cbn [orel] in H; try tauto; cbn [res_rel]; try exact I.
           req.
        -- cbn [res_rel]. req.
  - (* format 1 *)
    destruct (zopt_eqb reps 1).
    { cbn [res_rel]. req. }
    destruct s as [sp|], s' as [sp'|]; cbn [orel] in S; try tauto;
      destruct e as [ep|], e' as [ep'|]; cbn [orel] in E; try tauto; try exact I.
    rewrite (tp_cmp_c md sp sp' ep ep' S E).
    destruct (tp_cmp md sp' ep') as [[| |]|]; try exact I.
    + cbn [res_rel]. req.
    + rewrite (tp_sub_c md ep ep' sp sp' E S).
      destruct (tp_sub md ep' sp') as [dd|]; [|exact I].
      destruct reps as [n|].
      * pose proof (tp_add_c md sp sp' (dur_mul dd (n - 1)) _ S (dur_equiv_refl _)) as H.
        destruct (tp_add md sp _), (tp_add md sp' _); cbn [orel] in H; try tauto; cbn [res_rel]; try exact I.
        req.
      * cbn [res_rel]. req.
Qed.

(* equivalent recurrences are == *)
Lemma rec_equiv_eqb md r r' : rec_equiv r r' -> rec_eqb md r r' = true.
Proof.
  intros (N & S & D & E & _). unfold rec_eqb. rewrite N.
  assert (A : opt_z_eqb (r_reps r') (r_reps r') = true) by (destruct (r_reps r'); cbn; [apply Z.eqb_refl|reflexivity]).
  assert (B : forall a b, orel same_point a b -> opt_tp_eqb md a b = true).
  { intros [a|] [b|] H; cbn [orel opt_tp_eqb] in *; try tauto. unfold tp_eqb. rewrite (same_point_cmp md a b H). reflexivity. }
  assert (C : opt_dur_eqb (r_dur r) (r_dur r') = true).
  { destruct (r_dur r), (r_dur r'); cbn [orel opt_dur_eqb] in *; try tauto. apply dur_equiv_eqb. exact D. }
  rewrite A, (B _ _ S), (B _ _ E), C. reflexivity.
Qed.
