(* Proofs/GenCode9Expr.v -- TimePointDumper._get_expression_and_properties as translated (gen/GenCode9.v)
   against Model/Dump.v expression_of, over the instantiation mops of Proofs/GenCode9Ok.v. *)
From Coq Require Import ZArith QArith String Ascii List Bool Lia.
From Iso Require Import Spec.Cal Model.Num Model.TimePoint Model.Forms Model.Parse Model.Dump Model.DriverText
  gen.Grammar gen.GenCode4 gen.GenCode9 Proofs.GenCode4Base Proofs.GenCode9Ok.
Import ListNotations.
Local Open Scope string_scope.
Local Open Scope Z_scope.

Definition expr_rel (c : exc (list dtok * list string * option (Z * Z)))
  (m : option (list dtok * list string * option (Z * Z)) + dres) : Prop :=
  match m with
  | inl (Some r) => c = Ok r
  | inl None => True
  | inr DUnmodelled => True
  | inr _ => exists e, c = Raise e
  end.

Lemma find_time_empty : find_expr TIME_FORMS "" = None.
Proof. vm_compute. reflexivity. Qed.

Lemma tp_date ned s : translate_part (mkDumper ned) "date" s =
  match date_template (date_forms_of ned) s with Some r => Ok r | None => Raise Unmodelled end.
Proof. reflexivity. Qed.
Lemma tp_time dd s : translate_part dd "time" s =
  if String.eqb s "" then Ok ([], [])
  else match find_expr TIME_FORMS s with Some f => Ok (Forms.f_dump f, f_props f) | None => Raise Unmodelled end.
Proof. reflexivity. Qed.
Lemma tp_zone dd s : translate_part dd "time_zone" s =
  if String.eqb s "" then Ok ([], [])
  else match zone_template ZONE_FORMS s with Some r => Ok r | None => Raise Unmodelled end.
Proof. reflexivity. Qed.

(* one leaf: the three translated parts are put together as the model does *)
Ltac leaf9 :=
  cbn [ebind]; rewrite ?tp_time, ?tp_zone;
  repeat match goal with
  | |- context [String.eqb ?x ""] =>
    let E := fresh "E" in destruct (String.eqb x "") eqn:E;
    [ apply String.eqb_eq in E; try discriminate E; try rewrite E in *; rewrite ?find_time_empty | ]
  end;
  cbn [ebind];
  repeat match goal with
  | |- context [find_expr TIME_FORMS ?x] => destruct (find_expr TIME_FORMS x)
  | |- context [zone_template ZONE_FORMS ?x] => destruct (zone_template ZONE_FORMS x) as [[? ?]|]
  end;
  cbn; try exact I; try (eexists; reflexivity);
  unfold TIME_DESIGNATOR;
  rewrite ?app_nil_r, <- ?app_assoc; cbn [app]; try reflexivity.

Lemma contains_sub_plus : forall t, contains_sub "+hh" t = true -> contains_char "+" t = true.
Proof.
  induction t as [|a r IH]; [discriminate|].
  cbn [contains_sub str_prefix contains_char]. rewrite (Ascii.eqb_sym a "+").
  destruct (Ascii.eqb "+" a); [reflexivity|]. cbn [orb]. exact IH.
Qed.

Theorem gen9_get_expression md fuel ned fmt :
  expr_rel (py_Dumper__get_expression_and_properties (mops md fuel) (mkDumper ned) fmt)
           (expression_of (date_forms_of ned) TIME_FORMS ZONE_FORMS zone_of_text fmt).
Proof.
  unfold py_Dumper__get_expression_and_properties, expression_of. code9_helpers.
  change (py_split TIME_DESIGNATOR fmt) with (Ok (split_str "T" fmt)). cbn [ebind].
  destruct (split_str "T" fmt) as [|d [|t rest]].
  - cbn. destruct (date_template (date_forms_of ned) ""); [destruct p|]; cbn; eauto.
  - cbn. destruct (date_template (date_forms_of ned) d) as [[dt dp]|]; cbn; [|exact I].
    rewrite !app_nil_r. reflexivity.
  - cbn [hd]. change (py_nth (d :: t :: rest) 0) with (Ok d). change (py_nth (d :: t :: rest) 1) with (Ok t).
    cbn [ebind]. assert (HT : (Z.of_nat (List.length (d :: t :: rest)) >? 1) = true) by (cbn [List.length]; lia).
    rewrite HT. rewrite endswith_Z.
    change (py_contains "+" t) with (py_contains (String "+" "") t). rewrite contains_one.
    change (py_lstrip "-" t) with (Ok (lstrip_char "-" t)). cbn [ebind].
    change (py_contains "-" (lstrip_char "-" t)) with (py_contains (String "-" "") (lstrip_char "-" t)).
    rewrite contains_one, lstrip_dash_eq. unfold py_contains.
    change (py_split "+" t) with (Ok (split_str "+" t)). change (py_split "-" t) with (Ok (split_str "-" t)).
    cbn [ebind]. ops9. rewrite !tp_date.
    destruct (date_template (date_forms_of ned) d) as [[dt dp]|] eqn:DT; [|cbn; exact I].
    cbn [ebind].
    destruct (py_endswith "Z" t); [leaf9|].
    pose proof (contains_sub_plus t) as SUB.
    destruct (contains_sub "+hh" t) eqn:C1; destruct (contains_char "+" t) eqn:C2;
      try (specialize (SUB eq_refl); discriminate SUB);
      destruct (contains_char "-" (lstrip_dash t)) eqn:C3; cbn [negb andb orb ebind];
      try (destruct (split_str "+" t) as [|a [|b [|c r]]]);
      try (destruct (split_str "-" t) as [|a' [|b' [|c' r'']]]);
      cbn [py_unpack2 ebind negb]; try (cbn; eauto; fail); leaf9.
Qed.
