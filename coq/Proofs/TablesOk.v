(* Proofs/TablesOk.v -- the tables the model and spec are written with are the
   ones the translator regenerated from /repo's class Calendar on this run. *)
From Coq Require Import ZArith List Bool String.
From Iso Require Import gen.CalTables Spec.Cal Model.Helpers.
Import ListNotations.
Open Scope Z_scope.

Lemma translator_accepted : translator_ok_cal = true.
Proof. reflexivity. Qed.

Lemma month_tables_ok :
  DAYS_IN_MONTHS_360 = m360 /\ DAYS_IN_MONTHS_365 = m365 /\ DAYS_IN_MONTHS_366 = m366.
Proof. repeat split; reflexivity. Qed.

Lemma leap_factors_ok : LEAP_YEAR_FACTOR_TRUTHS = leap_factors.
Proof. reflexivity. Qed.

Lemma unit_constants_ok :
  SECONDS_IN_MINUTE = 60 /\ MINUTES_IN_HOUR = 60 /\ HOURS_IN_DAY = 24 /\
  DAYS_IN_WEEK = 7 /\ ROUGH_DAYS_IN_MONTH = 30 /\ MAX_WEEKS_IN_YEAR = 53.
Proof. repeat split; reflexivity. Qed.

Lemma week_reference_ok :
  WEEK_REF_CALENDAR = (REF_YEAR, REF_MONTH, REF_DAY) /\ WEEK_REF_ORDINAL = (REF_YEAR, REF_ORD).
Proof. split; reflexivity. Qed.

Lemma unix_epoch_ok : UNIX_EPOCH_REF = (1970, 0, 0).
Proof. reflexivity. Qed.

(* the seven mode spellings select exactly the model's four table pairs *)
Definition mode_of_string (s : string) : option mode :=
  if String.eqb s "gregorian" then Some G
  else if String.eqb s "360day" || String.eqb s "360_day" then Some D360
  else if String.eqb s "365day" || String.eqb s "365_day" then Some D365
  else if String.eqb s "366day" || String.eqb s "366_day" then Some D366
  else None.

Definition mode_row_ok (row : string * (list Z * option (list Z))) : bool :=
  match mode_of_string (fst row) with
  | None => false
  | Some md =>
    let common := fst (snd row) in
    let leap := match snd (snd row) with Some l => l | None => common end in
    (if list_eq_dec Z.eq_dec common (months_common md) then true else false) &&
    (if list_eq_dec Z.eq_dec leap (months_leap md) then true else false)
  end.

Lemma modes_ok : forallb mode_row_ok MODES = true /\ List.length MODES = 7%nat /\
                 MODE_GREGORIAN = "gregorian"%string.
Proof. repeat split; reflexivity. Qed.

(* everything property C03 needs from the generated tables, in one statement *)
Lemma tables_all_ok : translator_ok_cal = true /\
  DAYS_IN_MONTHS_360 = m360 /\ DAYS_IN_MONTHS_365 = m365 /\
  DAYS_IN_MONTHS_366 = m366 /\ LEAP_YEAR_FACTOR_TRUTHS = leap_factors /\
  forallb mode_row_ok MODES = true.
Proof.
  destruct month_tables_ok as (H1 & H2 & H3).
  exact (conj translator_accepted (conj H1 (conj H2 (conj H3 (conj leap_factors_ok (proj1 modes_ok)))))).
Qed.

(* the integer attributes Calendar.set_mode derives (translated from its
   right-hand sides on this run), evaluated on the model's month tables, are the
   constants the model is written with *)
Lemma set_mode_derived_ok : forall md,
  let dim := DAYS_IN_MONTHS md in let diml := DAYS_IN_MONTHS_LEAP md in
  sm_DAYS_IN_YEAR dim diml = DAYS_IN_YEAR md /\
  sm_DAYS_IN_YEAR_LEAP dim diml = DAYS_IN_YEAR_LEAP md /\
  sm_ROUGH_DAYS_IN_YEAR dim diml = DAYS_IN_YEAR md /\
  sm_MAX_DAYS_IN_MONTH dim diml = MAX_DAYS_IN_MONTH md /\
  sm_MAX_WEEKS_IN_YEAR dim diml = max_weeks_in_year md /\
  sm_MONTHS_IN_YEAR dim diml = 12 /\
  sm_SECONDS_IN_HOUR dim diml = 3600 /\
  sm_SECONDS_IN_DAY dim diml = 86400.
Proof. intros md. destruct md; vm_compute; repeat split; reflexivity. Qed.

Lemma max_weeks_values :
  max_weeks_in_year G = 53 /\ max_weeks_in_year D360 = 52 /\
  max_weeks_in_year D365 = 53 /\ max_weeks_in_year D366 = 53.
Proof. vm_compute. repeat split; reflexivity. Qed.
