(* Proofs/TickSpec.v -- TimePoint._tick_over: the bounded carry loops terminate
   inside their bounds, the date carries keep the day number and end in range,
   the time carries keep the second count and end strictly inside the day. *)
From Coq Require Import QArith Qround Qabs Lqa.
From Iso Require Import Proofs.Tac Spec.Cal Spec.Instant Model.Num Model.Helpers Model.Duration
  Model.TimePoint Proofs.HelpersSpec Proofs.ConvSpec.
Open Scope Z_scope.

(* ---------- the bounded loop ---------- *)
Section Loop.
  Context {A : Type} (cond : A -> bool) (step : A -> A) (Inv : A -> Prop) (mu : A -> Z).
  Hypothesis Hstep : forall x, Inv x -> cond x = true -> Inv (step x) /\ mu (step x) <= mu x - 1.
  Hypothesis Hpos : forall x, Inv x -> cond x = true -> 1 <= mu x.

  Lemma iter_guarded_done p : forall x, cond x = false -> Pos.iter (guarded cond step) x p = x.
  Proof.
    induction p using Pos.peano_ind; intros x Hx.
    - cbn [Pos.iter]. unfold guarded. rewrite Hx. reflexivity.
    - rewrite Pos.iter_succ, IHp by exact Hx. unfold guarded. rewrite Hx. reflexivity.
  Qed.

  Lemma iter_guarded_spec p : forall a, Inv a -> mu a <= Z.pos p ->
    Inv (Pos.iter (guarded cond step) a p) /\ cond (Pos.iter (guarded cond step) a p) = false.
  Proof.
    induction p using Pos.peano_ind; intros a Ha Hm.
    - cbn [Pos.iter]. unfold guarded. destruct (cond a) eqn:Ec.
      + destruct (Hstep a Ha Ec) as [Hi Hd]. split; [exact Hi|].
        destruct (cond (step a)) eqn:Ec2; [|reflexivity].
        pose proof (Hpos _ Hi Ec2). lia.
      + split; assumption.
    - rewrite Pos.iter_succ_r. destruct (cond a) eqn:Ec.
      + replace (guarded cond step a) with (step a) by (unfold guarded; rewrite Ec; reflexivity).
        destruct (Hstep a Ha Ec) as [Hi Hd]. apply IHp; [exact Hi|lia].
      + replace (guarded cond step a) with a by (unfold guarded; rewrite Ec; reflexivity).
        rewrite iter_guarded_done by exact Ec. split; assumption.
  Qed.

  Lemma loop_spec n a : Inv a -> mu a <= n ->
    Inv (loop cond step n a) /\ cond (loop cond step n a) = false.
  Proof.
    intros Ha Hm. unfold loop. apply iter_guarded_spec; [exact Ha|].
    destruct n; cbn [Z.to_pos]; lia.
  Qed.
End Loop.

Lemma loop_done {A} (cond : A -> bool) step n a : cond a = false -> loop cond step n a = a.
Proof. intros H. unfold loop. apply iter_guarded_done. exact H. Qed.

Ltac run_loop a INV MU L :=
  match goal with |- context [loop ?c ?s ?nn a] =>
    assert (L : INV (loop c s nn a) /\ c (loop c s nn a) = false);
    [apply (loop_spec c s INV MU) | ] end.

(* ---------- day of year ---------- *)
Lemma tick_doy_spec md y doy : forall y' doy', tick_doy md (y, doy) = (y', doy') ->
  valid_ord md y' doy' = true /\ dn_ord md y' doy' = dn_ord md y doy.
Proof.
  intros y' doy'. unfold tick_doy.
  set (K := dby md y + doy).
  (* backward phase *)
  run_loop (y, doy)
      (fun c : Z * Z => dby md (fst c) + snd c = K /\ (snd c <= ylen md (fst c) \/ c = (y, doy)))
      (fun c : Z * Z => (- snd c) / 360 + 1) Lc1; [ | | | | set (c1 := loop _ _ _ (y, doy)) in *; cbv beta in Lc1; destruct Lc1 as [[I1 I2] C1] ].
  - intros [a b]; cbn [fst snd]; intros [H1 H2] Hc. rewrite get_days_in_year_spec.
    pose proof (dby_succ md (a - 1)) as S. replace (a - 1 + 1) with a in S by lia.
    pose proof (ylen_bounds md (a - 1)). repeat split; lia.
  - intros [a b]; cbn [fst snd]; intros _ Hc. lia.
  - cbn [fst snd]. split; [reflexivity | right; reflexivity].
  - cbn [fst snd]. lia.
  - (* forward phase *)
    run_loop c1
      (fun c : Z * Z => dby md (fst c) + snd c = K /\ 1 <= snd c)
      (fun c : Z * Z => snd c / 360) Lc2; [ | | | | set (c2 := loop _ _ _ c1) in *; cbv beta in Lc2; destruct Lc2 as [[J1 J2] C2] ].
    + intros [a b]; cbn [fst snd]; intros [H1 H2] Hc. rewrite get_days_in_year_spec in *.
      pose proof (dby_succ md a). pose proof (ylen_bounds md a). repeat split; lia.
    + intros [a b]; cbn [fst snd]; intros _ Hc. rewrite get_days_in_year_spec in *.
      pose proof (ylen_bounds md a). lia.
    + split; [exact I1 | lia].
    + lia.
    + intros E. rewrite E in *. cbn [fst snd] in *. rewrite get_days_in_year_spec in C2.
      unfold valid_ord, dn_ord. split; lia.
Qed.

(* ---------- week of year ---------- *)
Lemma wys_succ md y : wys md (y + 1) = wys md y + 7 * weeks_in md y.
Proof. apply weeks_in_spec. Qed.
Lemma weeks_in_bounds md y : 51 <= weeks_in md y <= 53.
Proof. apply weeks_in_spec. Qed.
Lemma gwiy md y : get_weeks_in_year md y = weeks_in md y.
Proof. apply get_weeks_in_year_spec. Qed.

Lemma tick_woy_spec md y w : forall y' w', tick_woy md (y, w) = (y', w') ->
  1 <= w' <= weeks_in md y' /\ wys md y' + 7 * w' = wys md y + 7 * w.
Proof.
  intros y' w'. unfold tick_woy.
  set (K := wys md y + 7 * w).
  run_loop (y, w)
      (fun c : Z * Z => wys md (fst c) + 7 * snd c = K /\ (snd c <= weeks_in md (fst c) \/ c = (y, w)))
      (fun c : Z * Z => (- snd c) / 51 + 1) Lc1; [ | | | | set (c1 := loop _ _ _ (y, w)) in *; cbv beta in Lc1; destruct Lc1 as [[I1 I2] C1] ].
  - intros [a b]; cbn [fst snd]; intros [H1 H2] Hc. rewrite gwiy.
    pose proof (wys_succ md (a - 1)) as S. replace (a - 1 + 1) with a in S by lia.
    pose proof (weeks_in_bounds md (a - 1)). repeat split; lia.
  - intros [a b]; cbn [fst snd]; intros _ Hc. lia.
  - cbn [fst snd]. split; [reflexivity | right; reflexivity].
  - cbn [fst snd]. lia.
  - run_loop c1
      (fun c : Z * Z => wys md (fst c) + 7 * snd c = K /\ 1 <= snd c)
      (fun c : Z * Z => snd c / 51) Lc2; [ | | | | set (c2 := loop _ _ _ c1) in *; cbv beta in Lc2; destruct Lc2 as [[J1 J2] C2] ].
    + intros [a b]; cbn [fst snd]; intros [H1 H2] Hc. rewrite gwiy in *.
      pose proof (wys_succ md a). pose proof (weeks_in_bounds md a). repeat split; lia.
    + intros [a b]; cbn [fst snd]; intros _ Hc. rewrite gwiy in *.
      pose proof (weeks_in_bounds md a). lia.
    + split; [exact I1 | lia].
    + lia.
    + intros E. rewrite E in *. cbn [fst snd] in *. rewrite gwiy in C2. split; lia.
Qed.

(* ---------- day of month ---------- *)
Lemma dn_cal_prev_month md y m d : 2 <= m <= 12 ->
  dn_cal md y (m - 1) (d + mlen md y (m - 1)) = dn_cal md y m d.
Proof.
  intros H. unfold dn_cal. pose proof (cum_step md y (m - 1) ltac:(lia)) as S.
  replace (m - 1 - 1) with (m - 2) in * by lia. lia.
Qed.
Lemma dn_cal_prev_year md y d :
  dn_cal md (y - 1) 12 (d + mlen md (y - 1) 12) = dn_cal md y 1 d.
Proof. rewrite jan_dn, dec_dn. lia. Qed.

Lemma tick_dom_spec md y m d : 1 <= m <= 12 -> forall y' m' d', tick_dom md (y, m, d) = (y', m', d') ->
  valid_cal md y' m' d' = true /\ dn_cal md y' m' d' = dn_cal md y m d.
Proof.
  intros Hm y' m' d'. unfold tick_dom.
  set (K := dn_cal md y m d).
  destruct (d <? 1) eqn:Ed.
  - run_loop (y, m, d)
      (fun c : Z * Z * Z => let '(a, b, e) := c in 1 <= b <= 12 /\ dn_cal md a b e = K /\ e <= mlen md a b)
      (fun c : Z * Z * Z => let '(_, _, e) := c in (- e) / 28 + 1) Lc1; [ | | | | set (c1 := loop _ _ _ (y, m, d)) in *; cbv beta in Lc1; destruct Lc1 as [I C] ].
    + intros [[a b] e] (H1 & H2 & H3) Hc. unfold dom_back_cond in Hc. unfold dom_back_step.
      destruct (1 <? b) eqn:Eb.
      * rewrite get_days_in_month_spec by lia. rewrite dn_cal_prev_month by lia.
        pose proof (mlen_bounds md a (b - 1) ltac:(lia)). repeat split; lia.
      * assert (b = 1) by lia; subst b.
        rewrite get_days_in_month_spec by lia. rewrite dn_cal_prev_year.
        pose proof (mlen_bounds md (a - 1) 12 ltac:(lia)). repeat split; lia.
    + intros [[a b] e] _ Hc. unfold dom_back_cond in Hc. lia.
    + pose proof (mlen_bounds md y m Hm). repeat split; lia.
    + lia.
    + intros E. rewrite E in *. unfold dom_back_cond in C. destruct I as (H1 & H2 & H3).
      unfold valid_cal. split; lia.
  - run_loop (y, m, d)
      (fun c : Z * Z * Z => let '(a, b, e) := c in 1 <= b <= 12 /\ dn_cal md a b e = K /\ 1 <= e)
      (fun c : Z * Z * Z => let '(_, _, e) := c in e / 28) Lc1; [ | | | | set (c1 := loop _ _ _ (y, m, d)) in *; cbv beta in Lc1; destruct Lc1 as [I C] ].
    + intros [[a b] e] (H1 & H2 & H3) Hc. unfold dom_fwd_cond in Hc. unfold dom_fwd_step.
      rewrite get_days_in_month_spec in * by lia.
      pose proof (mlen_bounds md a b H1).
      destruct (b <? 12) eqn:Eb.
      * pose proof (dn_cal_prev_month md a (b + 1) (e - mlen md a b) ltac:(lia)) as P.
        replace (b + 1 - 1) with b in P by lia.
        replace (e - mlen md a b + mlen md a b) with e in P by lia.
        repeat split; lia.
      * assert (b = 12) by lia; subst b.
        pose proof (dn_cal_prev_year md (a + 1) (e - mlen md a 12)) as P.
        replace (a + 1 - 1) with a in P by lia.
        replace (e - mlen md a 12 + mlen md a 12) with e in P by lia.
        repeat split; lia.
    + intros [[a b] e] (H1 & _) Hc. unfold dom_fwd_cond in Hc.
      rewrite get_days_in_month_spec in * by lia.
      pose proof (mlen_bounds md a b H1). lia.
    + repeat split; lia.
    + lia.
    + intros E. rewrite E in *. unfold dom_fwd_cond in C. destruct I as (H1 & H2 & H3).
      rewrite get_days_in_month_spec in C by lia.
      unfold valid_cal. split; lia.
Qed.

Lemma tick_month_id y m d : 1 <= m <= 12 -> tick_month (y, m, d) = (y, m, d).
Proof.
  intros H. unfold tick_month.
  rewrite loop_done by lia. rewrite loop_done by lia. reflexivity.
Qed.

(* ---------- the date carry ---------- *)
Lemma tick_date_spec md d :
  (match d with Cal _ m _ => 1 <= m <= 12 | _ => True end) ->
  valid_date md (tick_date md d) = true /\
  date_dn md (tick_date md d) = date_dn md d /\
  rep_kind (tick_date md d) = rep_kind d.
Proof.
  destruct d as [y m dd | y doy | y w dd]; intros H; cbn [tick_date].
  - destruct (tick_dom md (y, m, dd)) as [[y1 m1] d1] eqn:E.
    destruct (tick_dom_spec md y m dd H _ _ _ E) as [V N].
    assert (1 <= m1 <= 12) by (unfold valid_cal in V; lia).
    rewrite tick_month_id by assumption. cbn [valid_date date_dn rep_kind]. auto.
  - destruct (tick_doy md (y, doy)) as [y1 d1] eqn:E.
    destruct (tick_doy_spec md y doy _ _ E) as [V N]. cbn [valid_date date_dn rep_kind]. auto.
  - destruct (tick_woy md (y, w + (dd - 1) / 7)) as [y1 w1] eqn:E.
    destruct (tick_woy_spec md y _ _ _ E) as [V N]. cbn [valid_date date_dn rep_kind].
    unfold valid_week, dn_week. repeat split; lia.
Qed.

Lemma add_days_raw_dn md d n : date_dn md (add_days_raw d n) = date_dn md d + n.
Proof. destruct d; cbn [add_days_raw date_dn]; unfold dn_cal, dn_ord, dn_week; lia. Qed.
Lemma add_days_raw_kind d n : rep_kind (add_days_raw d n) = rep_kind d.
Proof. destruct d; reflexivity. Qed.

(* ---------- rationals ---------- *)
Open Scope Q_scope.

Lemma qadd_eq a b : qadd a b == a + b. Proof. apply Qred_correct. Qed.
Lemma qsub_eq a b : qsub a b == a - b. Proof. apply Qred_correct. Qed.
Lemma qmul_eq a b : qmul a b == a * b. Proof. apply Qred_correct. Qed.
Lemma qdivz_eq a k : qdivz a k == a / inject_Z k. Proof. apply Qred_correct. Qed.

Lemma inject_Z_pos k : (0 < k)%Z -> 0 < inject_Z k.
Proof. intros H. change 0 with (inject_Z 0). rewrite <- Zlt_Qlt. exact H. Qed.

Lemma qdivmod_spec x k : (0 < k)%Z -> forall q r, qdivmod x k = (q, r) ->
  x == inject_Z q * inject_Z k + r /\ 0 <= r /\ r < inject_Z k.
Proof.
  intros Hk q r E.
  assert (Eq : Qfloor (x / inject_Z k) = q) by exact (f_equal fst E).
  assert (Hr : r == x - inject_Z q * inject_Z k).
  { rewrite <- Eq. change r with (snd (q, r)). rewrite <- E. apply Qred_correct. }
  clear E.
  pose proof (inject_Z_pos k Hk) as Hk'.
  set (t := x / inject_Z k) in *.
  assert (Hx : x == t * inject_Z k) by (unfold t; field; lra).
  pose proof (Qfloor_le t) as F1. pose proof (Qlt_floor t) as F2. rewrite inject_Z_plus in F2.
  rewrite Eq in *.
  set (f := inject_Z q) in *. set (K := inject_Z k) in *. change (inject_Z 1) with 1 in F2.
  rewrite Hr. split; [ring|]. rewrite Hx. split; nra.
Qed.

Definition isint (x : Q) : Prop := exists z, x == inject_Z z.

Lemma qis_int_iff x : qis_int x = true <-> isint x.
Proof.
  unfold qis_int, isint, qz. rewrite Qeq_bool_iff. split.
  - intros H. exists (Qfloor x). exact H.
  - intros [z H]. rewrite H at 2. rewrite Qfloor_Z. exact H.
Qed.

Lemma isint_Z z : isint (inject_Z z). Proof. exists z. reflexivity. Qed.
Lemma isint_eq x y : x == y -> isint x -> isint y.
Proof. intros E [z H]. exists z. rewrite <- E. exact H. Qed.
Lemma isint_add x y : isint x -> isint y -> isint (x + y).
Proof. intros [a Ha] [b Hb]. exists (a + b)%Z. rewrite inject_Z_plus, Ha, Hb. reflexivity. Qed.
Lemma isint_sub x y : isint x -> isint y -> isint (x - y).
Proof.
  intros [a Ha] [b Hb]. exists (a - b)%Z. unfold Zminus. rewrite inject_Z_plus, inject_Z_opp, Ha, Hb. reflexivity.
Qed.
Lemma isint_mul x y : isint x -> isint y -> isint (x * y).
Proof. intros [a Ha] [b Hb]. exists (a * b)%Z. rewrite inject_Z_mult, Ha, Hb. reflexivity. Qed.

Lemma qdivmod_int x k q r : qdivmod x k = (q, r) -> isint x -> isint r.
Proof.
  intros E Hx.
  apply isint_eq with (x - qz (Qfloor (x / qz k)) * qz k).
  { change r with (snd (q, r)). rewrite <- E. symmetry. apply Qred_correct. }
  apply isint_sub; [exact Hx|]. apply isint_mul; apply isint_Z.
Qed.

Lemma qleb_true a b : a <= b -> qleb a b = true.
Proof. intros H. unfold qleb. apply Qle_bool_iff. exact H. Qed.
Lemma qltb_true a b : a < b -> qltb a b = true.
Proof.
  intros H. unfold qltb. destruct (Qle_bool b a) eqn:E; [|reflexivity].
  apply Qle_bool_iff in E. lra.
Qed.
Lemma qin_true lo x hi : inject_Z lo <= x -> x < inject_Z hi -> qin lo x hi = true.
Proof. intros A B. unfold qin, qz. rewrite qleb_true, qltb_true by assumption. reflexivity. Qed.

(* ---------- the time carry ---------- *)
Ltac qlit :=
  unfold qz in *;
  change (inject_Z 0) with 0 in *; change (inject_Z 60) with 60 in *; change (inject_Z 24) with 24 in *;
  change (inject_Z 3600) with 3600 in *; change (inject_Z 86400) with 86400 in *.

Lemma normal_hms h m s : isint h -> isint m -> 0 <= h -> h < 24 -> 0 <= m -> m < 60 -> 0 <= s -> s < 60 ->
  normal_tod (HMS h m s) = true.
Proof.
  intros Ih Im H1 H2 H3 H4 H5 H6. unfold normal_tod, valid_tod, tod_hour.
  apply qis_int_iff in Ih, Im. rewrite Ih, Im.
  rewrite !qin_true by assumption. rewrite qltb_true by assumption. reflexivity.
Qed.
Lemma normal_hm h m : isint h -> 0 <= h -> h < 24 -> 0 <= m -> m < 60 -> normal_tod (HM h m) = true.
Proof.
  intros Ih H1 H2 H3 H4. unfold normal_tod, valid_tod, tod_hour.
  apply qis_int_iff in Ih. rewrite Ih.
  rewrite !qin_true by assumption. rewrite qltb_true by assumption. reflexivity.
Qed.
Lemma normal_hh h : 0 <= h -> h < 24 -> normal_tod (HH h) = true.
Proof.
  intros H1 H2. unfold normal_tod, valid_tod, tod_hour.
  rewrite !qleb_true, qltb_true; try assumption; try reflexivity. lra.
Qed.

Lemma tick_time_spec t : forall t' nd, tick_time t = (t', nd) ->
  tod_secs t' + inject_Z (86400 * nd) == tod_secs t /\ normal_tod t' = true /\ tod_kind t' = tod_kind t.
Proof.
  destruct t as [h m s | h m | h]; intros t' nd; unfold tick_time; cbv zeta.
  - set (hr := qsub h (qz (qtrunc h))).
    set (h1 := qsub h hr). set (m1 := qadd m (qmul hr (qz 60))).
    set (mr := qsub m1 (qz (qtrunc m1))). set (m2 := qsub m1 mr).
    set (s1 := qadd s (qmul mr (qz 60))).
    destruct (qdivmod s1 60) as [nm s2] eqn:E1.
    set (m3 := qadd m2 (qz nm)).
    destruct (qdivmod m3 60) as [nh m4] eqn:E2.
    set (h2 := qadd h1 (qz nh)).
    destruct (qdivmod h2 24) as [nd' h3] eqn:E3.
    intros E; injection E as <- <-.
    assert (Hhr : hr == h - inject_Z (qtrunc h)) by apply qsub_eq.
    assert (Hh1 : h1 == h - hr) by apply qsub_eq.
    assert (Hm1 : m1 == m + hr * 60) by (unfold m1; rewrite qadd_eq, qmul_eq; reflexivity).
    assert (Hmr : mr == m1 - inject_Z (qtrunc m1)) by apply qsub_eq.
    assert (Hm2 : m2 == m1 - mr) by apply qsub_eq.
    assert (Hs1 : s1 == s + mr * 60) by (unfold s1; rewrite qadd_eq, qmul_eq; reflexivity).
    assert (Hm3 : m3 == m2 + inject_Z nm) by apply qadd_eq.
    assert (Hh2 : h2 == h1 + inject_Z nh) by apply qadd_eq.
    assert (Ih1 : isint h1) by (apply isint_eq with (inject_Z (qtrunc h)); [lra | apply isint_Z]).
    assert (Im2 : isint m2) by (apply isint_eq with (inject_Z (qtrunc m1)); [lra | apply isint_Z]).
    assert (Im3 : isint m3).
    { apply isint_eq with (m2 + inject_Z nm); [symmetry; exact Hm3|]. apply isint_add; [exact Im2 | apply isint_Z]. }
    pose proof (qdivmod_int _ _ _ _ E2 Im3) as Im4.
    assert (Ih2 : isint h2).
    { apply isint_eq with (h1 + inject_Z nh); [symmetry; exact Hh2|]. apply isint_add; [exact Ih1 | apply isint_Z]. }
    pose proof (qdivmod_int _ _ _ _ E3 Ih2) as Ih3.
    destruct (qdivmod_spec _ 60 ltac:(lia) _ _ E1) as (A1 & B1 & C1).
    destruct (qdivmod_spec _ 60 ltac:(lia) _ _ E2) as (A2 & B2 & C2).
    destruct (qdivmod_spec _ 24 ltac:(lia) _ _ E3) as (A3 & B3 & C3).
    clearbody hr h1 m1 mr m2 s1 m3 h2. clear E1 E2 E3.
    split; [|split; [|reflexivity]].
    + unfold tod_secs. rewrite inject_Z_mult. qlit. lra.
    + qlit. apply normal_hms; assumption.
  - set (hr := qsub h (qz (qtrunc h))).
    set (h1 := qsub h hr). set (m1 := qadd m (qmul hr (qz 60))).
    destruct (qdivmod m1 60) as [nh m4] eqn:E2.
    set (h2 := qadd h1 (qz nh)).
    destruct (qdivmod h2 24) as [nd' h3] eqn:E3.
    intros E; injection E as <- <-.
    assert (Hhr : hr == h - inject_Z (qtrunc h)) by apply qsub_eq.
    assert (Hh1 : h1 == h - hr) by apply qsub_eq.
    assert (Hm1 : m1 == m + hr * 60) by (unfold m1; rewrite qadd_eq, qmul_eq; reflexivity).
    assert (Hh2 : h2 == h1 + inject_Z nh) by apply qadd_eq.
    assert (Ih1 : isint h1) by (apply isint_eq with (inject_Z (qtrunc h)); [lra | apply isint_Z]).
    assert (Ih2 : isint h2).
    { apply isint_eq with (h1 + inject_Z nh); [symmetry; exact Hh2|]. apply isint_add; [exact Ih1 | apply isint_Z]. }
    pose proof (qdivmod_int _ _ _ _ E3 Ih2) as Ih3.
    destruct (qdivmod_spec _ 60 ltac:(lia) _ _ E2) as (A2 & B2 & C2).
    destruct (qdivmod_spec _ 24 ltac:(lia) _ _ E3) as (A3 & B3 & C3).
    clearbody hr h1 m1 h2. clear E2 E3.
    split; [|split; [|reflexivity]].
    + unfold tod_secs. rewrite inject_Z_mult. qlit. lra.
    + qlit. apply normal_hm; assumption.
  - destruct (qdivmod h 24) as [nd' h3] eqn:E3.
    intros E; injection E as <- <-.
    destruct (qdivmod_spec _ 24 ltac:(lia) _ _ E3) as (A3 & B3 & C3). clear E3.
    split; [|split; [|reflexivity]].
    + unfold tod_secs. rewrite inject_Z_mult. qlit. lra.
    + qlit. apply normal_hh; assumption.
Qed.

(* ---------- _tick_over ---------- *)
Lemma tick_over_spec : forall md p,
  (match tdate p with Cal _ m _ => (1 <= m <= 12)%Z | _ => True end) ->
  (instant md (tick_over md p) == instant md p) /\
  valid_date md (tdate (tick_over md p)) = true /\
  normal_tod (ttod (tick_over md p)) = true /\
  rep_kind (tdate (tick_over md p)) = rep_kind (tdate p) /\
  tod_kind (ttod (tick_over md p)) = tod_kind (ttod p) /\
  tzone (tick_over md p) = tzone p.
Proof.
  intros md [d t z] Hm. cbn [tdate ttod tzone] in *. unfold tick_over. cbn [tdate ttod tzone].
  destruct (tick_time t) as [t' nd] eqn:Et.
  destruct (tick_time_spec t _ _ Et) as (S1 & S2 & S3).
  destruct (tick_date_spec md (add_days_raw d nd)) as (D1 & D2 & D3).
  { destruct d; cbn [add_days_raw]; exact Hm. }
  cbn [tdate ttod tzone]. rewrite add_days_raw_dn in D2. rewrite add_days_raw_kind in D3.
  repeat split; try assumption.
  unfold instant. cbn [tdate ttod tzone]. rewrite D2. unfold qz.
  rewrite Z.mul_add_distr_l, inject_Z_plus. lra.
Qed.

Open Scope Z_scope.
