(* Proofs/ConvSpec.v -- weekdays, week years and the six date conversions of the
   model agree with the day numbers of Spec/Cal.v, for every mode and year. *)
From Iso Require Import Proofs.Tac Spec.Cal Model.Helpers Proofs.HelpersSpec.

(* ---------- weekdays ---------- *)
Lemma weekday_continuous md n :
  1 <= weekday md n <= 7 /\ weekday md (n + 1) = weekday md n mod 7 + 1.
Proof. unfold weekday; generalize (ref_monday md); intros r; lia. Qed.

Lemma wys_monday md wy :
  weekday md (wys md wy) = 1 /\ dn_cal md wy 1 4 - 6 <= wys md wy <= dn_cal md wy 1 4.
Proof.
  unfold wys, weekday; generalize (ref_monday md) (dn_cal md wy 1 4); intros r j; lia.
Qed.

Lemma week_date_weekday md wy w d : 1 <= d <= 7 -> weekday md (dn_week md wy w d) = d.
Proof.
  intros Hd. destruct (wys_monday md wy) as [H _]. revert H.
  unfold dn_week, weekday; generalize (ref_monday md) (wys md wy); intros r j; lia.
Qed.

(* ---------- years ---------- *)
Lemma ylen_bounds md y : 360 <= ylen md y <= 366.
Proof. destruct md; cbn [ylen]; try destruct (is_leap y); lia. Qed.

Lemma dby_mono md a b : a <= b -> dby md a <= dby md b.
Proof. destruct md; cbn [dby]; lia. Qed.

Lemma dby_lt md a b : a < b -> dby md a + 360 <= dby md b.
Proof.
  intros H. pose proof (dby_mono md (a + 1) b ltac:(lia)).
  pose proof (dby_succ md a). pose proof (ylen_bounds md a). lia.
Qed.

(* ---------- months ---------- *)
(* evaluate a closed table lookup *)
Ltac vm_nth :=
  repeat match goal with |- context [nth ?a ?b ?c] =>
    let v := eval vm_compute in (nth a b c) in change (nth a b c) with v end.

Lemma mlen_bounds md y m : 1 <= m <= 12 -> 28 <= mlen md y m <= 31.
Proof.
  intros Hm. unfold mlen, months.
  cases12 m; destruct md; destruct (is_leap y); vm_nth; lia.
Qed.

Lemma cum365_mono a b : a <= b -> cum365 a <= cum365 b.
Proof.
  intros H. unfold cum365.
  repeat match goal with |- context [if ?b then _ else _] => destruct b eqn:? end; lia.
Qed.

Lemma cum_mono md y a b : a <= b -> cum md y a <= cum md y b.
Proof.
  intros H. pose proof (cum365_mono a b H).
  destruct md; cbn [cum]; try lia; try destruct (is_leap y);
    destruct (2 <=? a) eqn:?, (2 <=? b) eqn:?; cbn [andb]; lia.
Qed.

Lemma cum_0 md y : cum md y 0 = 0.
Proof. apply year_is_sum_of_months. Qed.
Lemma cum_12 md y : cum md y 12 = ylen md y.
Proof. symmetry; apply year_is_sum_of_months. Qed.
Lemma cum_step md y m : 1 <= m <= 12 -> cum md y m = cum md y (m - 1) + mlen md y m.
Proof.
  intros H. destruct (year_is_sum_of_months md y) as (_ & S & _).
  specialize (S (m - 1) ltac:(lia)). replace (m - 1 + 1) with m in S by lia. exact S.
Qed.

(* what validity of a calendar date means in numbers *)
Lemma cal_range md y m d : valid_cal md y m d = true ->
  1 <= m <= 12 /\ 1 <= d <= mlen md y m /\
  1 <= cum md y (m - 1) + d <= ylen md y /\
  dby md y <= dn_cal md y m d < dby md (y + 1).
Proof.
  unfold valid_cal, dn_cal; intros H.
  assert (Hm : 1 <= m <= 12) by lia.
  pose proof (cum_step md y m Hm). pose proof (cum_mono md y 0 (m - 1) ltac:(lia)).
  pose proof (cum_mono md y m 12 ltac:(lia)).
  rewrite cum_0 in *. rewrite cum_12 in *. rewrite dby_succ. lia.
Qed.

Lemma ord_range md y doy : valid_ord md y doy = true ->
  1 <= doy <= ylen md y /\ dby md y <= dn_ord md y doy < dby md (y + 1).
Proof. unfold valid_ord, dn_ord; intros H. rewrite dby_succ. lia. Qed.

(* day numbers order calendar dates lexicographically *)
Lemma dn_cal_lex md y m d y' m' d' :
  valid_cal md y m d = true -> valid_cal md y' m' d' = true ->
  (y < y' \/ y = y' /\ (m < m' \/ m = m' /\ d < d')) ->
  dn_cal md y m d < dn_cal md y' m' d'.
Proof.
  intros V V' H. pose proof (cal_range _ _ _ _ V) as (Hm & Hd & Hc & Hn).
  pose proof (cal_range _ _ _ _ V') as (Hm' & Hd' & Hc' & Hn').
  destruct H as [H | [-> [H | [-> H]]]].
  - pose proof (dby_mono md (y + 1) y' ltac:(lia)). lia.
  - pose proof (cum_step md y' m Hm). pose proof (cum_mono md y' m (m' - 1) ltac:(lia)).
    unfold dn_cal. lia.
  - unfold dn_cal. lia.
Qed.

Lemma dn_cal_inj md y m d y' m' d' :
  valid_cal md y m d = true -> valid_cal md y' m' d' = true ->
  dn_cal md y m d = dn_cal md y' m' d' -> (y, m, d) = (y', m', d').
Proof.
  intros V V' E.
  assert (L := dn_cal_lex md y m d y' m' d' V V').
  assert (L' := dn_cal_lex md y' m' d' y m d V' V).
  assert (y = y') by lia. subst y'.
  assert (m = m') by lia. subst m'.
  assert (d = d') by lia. subst d'. reflexivity.
Qed.

Lemma dn_ord_inj md y doy y' doy' :
  valid_ord md y doy = true -> valid_ord md y' doy' = true ->
  dn_ord md y doy = dn_ord md y' doy' -> (y, doy) = (y', doy').
Proof.
  intros V V' E. pose proof (ord_range _ _ _ V) as (Hd & Hn).
  pose proof (ord_range _ _ _ V') as (Hd' & Hn').
  assert (y = y').
  { destruct (Z.lt_trichotomy y y') as [L | [L | L]]; [|exact L|].
    - pose proof (dby_mono md (y + 1) y' ltac:(lia)). lia.
    - pose proof (dby_mono md (y' + 1) y ltac:(lia)). lia. }
  subst y'. unfold dn_ord in E. assert (doy = doy') by lia. subst; reflexivity.
Qed.

Lemma triple_ltb_spec md y m d y' m' d' :
  valid_cal md y m d = true -> valid_cal md y' m' d' = true ->
  triple_ltb (y, m, d) (y', m', d') = (dn_cal md y m d <? dn_cal md y' m' d').
Proof.
  intros V V'.
  assert (L := dn_cal_lex md y m d y' m' d' V V').
  assert (L' := dn_cal_lex md y' m' d' y m d V' V).
  unfold triple_ltb.
  destruct (dn_cal md y m d <? dn_cal md y' m' d') eqn:E.
  - lia.
  - assert (D : (y, m, d) = (y', m', d') \/ dn_cal md y' m' d' < dn_cal md y m d).
    { destruct (Z.eq_dec (dn_cal md y m d) (dn_cal md y' m' d')) as [Q | Q].
      - left; eapply dn_cal_inj; eauto.
      - right; lia. }
    destruct D as [D | D]; [injection D as -> -> ->; lia|].
    assert (~ (y < y' \/ y = y' /\ (m < m' \/ m = m' /\ d < d'))) by lia. lia.
Qed.

Lemma triple_leb_spec md y m d y' m' d' :
  valid_cal md y m d = true -> valid_cal md y' m' d' = true ->
  triple_leb (y, m, d) (y', m', d') = (dn_cal md y m d <=? dn_cal md y' m' d').
Proof.
  intros V V'. unfold triple_leb. rewrite (triple_ltb_spec md) by assumption. lia.
Qed.
