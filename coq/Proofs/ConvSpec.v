(* Proofs/ConvSpec.v -- weekdays, week years and the six date conversions of the
   model agree with the day numbers of Spec/Cal.v, for every mode and year. *)
From Iso Require Import Proofs.Tac Spec.Cal Model.Helpers Proofs.HelpersSpec.

(* ---------- weekdays ---------- *)
Lemma weekday_continuous md n :
  1 <= weekday md n <= 7 /\ weekday md (n + 1) = weekday md n mod 7 + 1.
Proof. unfold weekday; generalize (ref_monday md); intros r; lia. Qed.

Lemma wys_monday md wy :
  weekday md (wys md wy) = 1 /\ dn_cal md wy 1 4 - 6 <= wys md wy <= dn_cal md wy 1 4.
Proof.
  unfold wys, weekday; generalize (ref_monday md) (dn_cal md wy 1 4); intros r j; lia.
Qed.

Lemma week_date_weekday md wy w d : 1 <= d <= 7 -> weekday md (dn_week md wy w d) = d.
Proof.
  intros Hd. destruct (wys_monday md wy) as [H _]. revert H.
  unfold dn_week, weekday; generalize (ref_monday md) (wys md wy); intros r j; lia.
Qed.

(* ---------- years ---------- *)
Lemma ylen_bounds md y : 360 <= ylen md y <= 366.
Proof. destruct md; cbn [ylen]; try destruct (is_leap y); lia. Qed.

Lemma dby_mono md a b : a <= b -> dby md a <= dby md b.
Proof. destruct md; cbn [dby]; lia. Qed.

Lemma dby_lt md a b : a < b -> dby md a + 360 <= dby md b.
Proof.
  intros H. pose proof (dby_mono md (a + 1) b ltac:(lia)).
  pose proof (dby_succ md a). pose proof (ylen_bounds md a). lia.
Qed.

(* ---------- months ---------- *)
(* evaluate a closed table lookup *)
Ltac vm_nth :=
  repeat match goal with |- context [nth ?a ?b ?c] =>
    let v := eval vm_compute in (nth a b c) in change (nth a b c) with v end.

Lemma mlen_bounds md y m : 1 <= m <= 12 -> 28 <= mlen md y m <= 31.
Proof.
  intros Hm. unfold mlen, months.
  cases12 m; destruct md; destruct (is_leap y); vm_nth; lia.
Qed.

Lemma cum365_mono a b : a <= b -> cum365 a <= cum365 b.
Proof.
  intros H. unfold cum365.
  repeat match goal with |- context [if ?b then _ else _] => destruct b eqn:? end; lia.
Qed.

Lemma cum_mono md y a b : a <= b -> cum md y a <= cum md y b.
Proof.
  intros H. pose proof (cum365_mono a b H).
  destruct md; cbn [cum]; try lia; try destruct (is_leap y);
    destruct (2 <=? a) eqn:?, (2 <=? b) eqn:?; cbn [andb]; lia.
Qed.

Lemma cum_0 md y : cum md y 0 = 0.
Proof. apply year_is_sum_of_months. Qed.
Lemma cum_12 md y : cum md y 12 = ylen md y.
Proof. symmetry; apply year_is_sum_of_months. Qed.
Lemma cum_step md y m : 1 <= m <= 12 -> cum md y m = cum md y (m - 1) + mlen md y m.
Proof.
  intros H. destruct (year_is_sum_of_months md y) as (_ & S & _).
  specialize (S (m - 1) ltac:(lia)). replace (m - 1 + 1) with m in S by lia. exact S.
Qed.

(* what validity of a calendar date means in numbers *)
Lemma cal_range md y m d : valid_cal md y m d = true ->
  1 <= m <= 12 /\ 1 <= d <= mlen md y m /\
  1 <= cum md y (m - 1) + d <= ylen md y /\
  dby md y <= dn_cal md y m d < dby md (y + 1).
Proof.
  unfold valid_cal, dn_cal; intros H.
  assert (Hm : 1 <= m <= 12) by lia.
  pose proof (cum_step md y m Hm). pose proof (cum_mono md y 0 (m - 1) ltac:(lia)).
  pose proof (cum_mono md y m 12 ltac:(lia)).
  rewrite cum_0 in *. rewrite cum_12 in *. rewrite dby_succ. lia.
Qed.

Lemma ord_range md y doy : valid_ord md y doy = true ->
  1 <= doy <= ylen md y /\ dby md y <= dn_ord md y doy < dby md (y + 1).
Proof. unfold valid_ord, dn_ord; intros H. rewrite dby_succ. lia. Qed.

(* day numbers order calendar dates lexicographically *)
Lemma dn_cal_lex md y m d y' m' d' :
  valid_cal md y m d = true -> valid_cal md y' m' d' = true ->
  (y < y' \/ y = y' /\ (m < m' \/ m = m' /\ d < d')) ->
  dn_cal md y m d < dn_cal md y' m' d'.
Proof.
  intros V V' H. pose proof (cal_range _ _ _ _ V) as (Hm & Hd & Hc & Hn).
  pose proof (cal_range _ _ _ _ V') as (Hm' & Hd' & Hc' & Hn').
  destruct H as [H | [-> [H | [-> H]]]].
  - pose proof (dby_mono md (y + 1) y' ltac:(lia)). lia.
  - pose proof (cum_step md y' m Hm). pose proof (cum_mono md y' m (m' - 1) ltac:(lia)).
    unfold dn_cal. lia.
  - unfold dn_cal. lia.
Qed.

Lemma dn_cal_inj md y m d y' m' d' :
  valid_cal md y m d = true -> valid_cal md y' m' d' = true ->
  dn_cal md y m d = dn_cal md y' m' d' -> (y, m, d) = (y', m', d').
Proof.
  intros V V' E.
  assert (L := dn_cal_lex md y m d y' m' d' V V').
  assert (L' := dn_cal_lex md y' m' d' y m d V' V).
  assert (y = y') by lia. subst y'.
  assert (m = m') by lia. subst m'.
  assert (d = d') by lia. subst d'. reflexivity.
Qed.

Lemma dn_ord_inj md y doy y' doy' :
  valid_ord md y doy = true -> valid_ord md y' doy' = true ->
  dn_ord md y doy = dn_ord md y' doy' -> (y, doy) = (y', doy').
Proof.
  intros V V' E. pose proof (ord_range _ _ _ V) as (Hd & Hn).
  pose proof (ord_range _ _ _ V') as (Hd' & Hn').
  assert (y = y').
  { destruct (Z.lt_trichotomy y y') as [L | [L | L]]; [|exact L|].
    - pose proof (dby_mono md (y + 1) y' ltac:(lia)). lia.
    - pose proof (dby_mono md (y' + 1) y ltac:(lia)). lia. }
  subst y'. unfold dn_ord in E. assert (doy = doy') by lia. subst; reflexivity.
Qed.

Lemma triple_ltb_spec md y m d y' m' d' :
  valid_cal md y m d = true -> valid_cal md y' m' d' = true ->
  triple_ltb (y, m, d) (y', m', d') = (dn_cal md y m d <? dn_cal md y' m' d').
Proof.
  intros V V'.
  assert (L := dn_cal_lex md y m d y' m' d' V V').
  assert (L' := dn_cal_lex md y' m' d' y m d V' V).
  assert (C : (y < y' \/ y = y' /\ (m < m' \/ m = m' /\ d < d')) \/
              (y = y' /\ m = m' /\ d = d') \/
              (y' < y \/ y' = y /\ (m' < m \/ m' = m /\ d' < d))) by lia.
  unfold triple_ltb.
  destruct C as [C | [(-> & -> & ->) | C]].
  - specialize (L C). lia.
  - lia.
  - specialize (L' C). lia.
Qed.

Lemma triple_leb_spec md y m d y' m' d' :
  valid_cal md y m d = true -> valid_cal md y' m' d' = true ->
  triple_leb (y, m, d) (y', m', d') = (dn_cal md y m d <=? dn_cal md y' m' d').
Proof.
  intros V V'. unfold triple_leb. rewrite (triple_ltb_spec md) by assumption. lia.
Qed.

(* ---------- calendar <-> ordinal ---------- *)
Lemma cum_months_spec md y m : 1 <= m <= 12 ->
  cum_months (year_months md y) (m - 1) = cum md y (m - 1).
Proof.
  intros Hm. rewrite year_months_spec. unfold months.
  cases12 m; destruct md; cbn [cum]; destruct (is_leap y); reflexivity.
Qed.

Lemma ord_from_cal_eq md y m d :
  ord_from_cal md y m d =
  if valid_cal md y m d then Some (y, cum md y (m - 1) + d) else None.
Proof.
  unfold ord_from_cal.
  change (znth (year_months md y) (m - 1)) with (get_days_in_month md m y).
  destruct (valid_cal md y m d) eqn:V; unfold valid_cal in V.
  - assert (Hm : 1 <= m <= 12) by lia.
    rewrite (get_days_in_month_spec md y m Hm), V, (cum_months_spec md y m Hm). reflexivity.
  - destruct ((1 <=? m) && (m <=? 12)) eqn:Hm.
    + rewrite (get_days_in_month_spec md y m ltac:(lia)), V. reflexivity.
    + cbn [andb]. reflexivity.
Qed.

Lemma ord_from_cal_spec md y m d :
  (valid_cal md y m d = true ->
     exists doy, ord_from_cal md y m d = Some (y, doy) /\ valid_ord md y doy = true /\
                 dn_ord md y doy = dn_cal md y m d) /\
  (valid_cal md y m d = false -> ord_from_cal md y m d = None).
Proof.
  rewrite ord_from_cal_eq. split; intros V; rewrite V; [|reflexivity].
  exists (cum md y (m - 1) + d). pose proof (cal_range _ _ _ _ V) as (Hm & Hd & Hc & Hn).
  split; [reflexivity|]. unfold valid_ord, dn_ord, dn_cal. split; lia.
Qed.

(* prefix sums of a month table, indexed structurally *)
Fixpoint pre (ms : list Z) (n : nat) : Z :=
  match n, ms with S n', a :: r => a + pre r n' | _, _ => 0 end.

Lemma walk_spec ms : forall m0 k, 1 <= k ->
  match walk_months ms m0 k with
  | Some (m, d) => exists j : nat, (j < length ms)%nat /\ m = m0 + Z.of_nat j /\
                                   1 <= d <= nth j ms 0 /\ k = pre ms j + d
  | None => pre ms (length ms) < k
  end.
Proof.
  induction ms as [|a r IH]; intros m0 k Hk; cbn [walk_months].
  - cbn. lia.
  - destruct (k <=? a) eqn:E.
    + exists 0%nat. cbn [length nth pre]. repeat split; lia.
    + specialize (IH (m0 + 1) (k - a) ltac:(lia)).
      destruct (walk_months r (m0 + 1) (k - a)) as [[m d]|].
      * destruct IH as (j & Hj & Hm & Hd & Hp). exists (S j).
        cbn [length nth pre]. repeat split; lia.
      * cbn [length pre]. lia.
Qed.

Lemma months_length md y : length (months md y) = 12%nat.
Proof. unfold months; destruct md; destruct (is_leap y); reflexivity. Qed.

Lemma pre_cum md y j : (j <= 12)%nat -> pre (months md y) j = cum md y (Z.of_nat j).
Proof.
  intros Hj. unfold months.
  do 13 (destruct j as [|j]; [destruct md; cbn [cum]; destruct (is_leap y); reflexivity|]). lia.
Qed.

Lemma nth_mlen md y j : nth j (months md y) 0 = mlen md y (Z.of_nat j + 1).
Proof.
  unfold mlen. replace (Z.of_nat j + 1 - 1) with (Z.of_nat j) by lia.
  rewrite Nat2Z.id. reflexivity.
Qed.

Lemma cal_from_ord_spec md y doy :
  (valid_ord md y doy = true ->
     exists m d, cal_from_ord md y doy = Some (y, m, d) /\ valid_cal md y m d = true /\
                 dn_cal md y m d = dn_ord md y doy) /\
  (valid_ord md y doy = false -> cal_from_ord md y doy = None).
Proof.
  unfold cal_from_ord. rewrite year_months_spec.
  destruct (doy <? 1) eqn:E1.
  - split; intros V; [unfold valid_ord in V; lia | reflexivity].
  - pose proof (walk_spec (months md y) 1 doy ltac:(lia)) as W.
    rewrite months_length in W.
    destruct (walk_months (months md y) 1 doy) as [[m d]|].
    + destruct W as (j & Hj & Hm & Hd & Hp).
      rewrite pre_cum in Hp by lia. rewrite nth_mlen in Hd.
      replace (Z.of_nat j) with (m - 1) in Hp by lia.
      replace (Z.of_nat j + 1) with m in Hd by lia.
      assert (Hm12 : 1 <= m <= 12) by lia.
      assert (V : valid_cal md y m d = true) by (unfold valid_cal; lia).
      pose proof (cal_range _ _ _ _ V) as (_ & _ & Hc & _).
      split; intros Vo; unfold valid_ord in Vo.
      * exists m, d. split; [reflexivity|]. split; [exact V|]. unfold dn_cal, dn_ord. lia.
      * lia.
    + rewrite (pre_cum md y 12 ltac:(lia)) in W. change (Z.of_nat 12) with 12 in W.
      rewrite cum_12 in W. split; intros Vo; unfold valid_ord in Vo; [lia | reflexivity].
Qed.

(* ---------- week years ---------- *)
Lemma ref_monday_eq md : ref_monday md = dby md 2000 + 2.
Proof. destruct md; reflexivity. Qed.

Lemma jan_dn md y d : dn_cal md y 1 d = dby md y + (d - 1).
Proof. unfold dn_cal. change (1 - 1) with 0. rewrite cum_0. lia. Qed.

Lemma dec_dn md y d : dn_cal md (y - 1) 12 d = dby md y - mlen md (y - 1) 12 + (d - 1).
Proof.
  unfold dn_cal. pose proof (cum_step md (y - 1) 12 ltac:(lia)) as S.
  rewrite cum_12 in S. pose proof (dby_succ md (y - 1)) as D.
  replace (y - 1 + 1) with y in D by lia. lia.
Qed.

Lemma wys_eq md y : wys md y = dby md y + 3 - (dby md y + 3 - (dby md 2000 + 2)) mod 7.
Proof. unfold wys, weekday. rewrite ref_monday_eq, jan_dn. lia. Qed.

Lemma triple_eq (a b c a' b' c' : Z) : (a, b, c) = (a', b', c') -> a' = a /\ b' = b /\ c' = c.
Proof. intros H; repeat split; congruence. Qed.

Lemma week_date_start_full md y sy sm sd :
  week_date_start md y = (sy, sm, sd) ->
  valid_cal md sy sm sd = true /\ dn_cal md sy sm sd = wys md y /\ y - 1 <= sy <= y.
Proof.
  unfold week_date_start, REF_YEAR, REF_MONTH, REF_DAY, REF_ORD.
  destruct (y =? 2000) eqn:E0.
  - intros Heq; apply triple_eq in Heq; destruct Heq as (-> & -> & ->). assert (y = 2000) by lia; subst y.
    repeat split; try lia; destruct md; reflexivity.
  - rewrite !range_spec. change (2000 - 1 + 1) with 2000.
    replace (y - 1 + 1) with y by lia.
    rewrite year_months_spec.
    change (znth (months md (y - 1)) 11) with (mlen md (y - 1) 12).
    pose proof (mlen_bounds md (y - 1) 12 ltac:(lia)) as HB.
    rewrite wys_eq.
    destruct (2000 <? y) eqn:E1.
    + destruct (2000 <=? y - 1) eqn:E2; [|lia].
      match goal with |- context [?a =? 1] => remember a as dow eqn:Hdow end.
      destruct (dow =? 1) eqn:E3; [|destruct (4 <? dow) eqn:E4];
        intros Heq; apply triple_eq in Heq; destruct Heq as (-> & -> & ->);
        unfold valid_cal; rewrite ?jan_dn, ?dec_dn;
        pose proof (mlen_bounds md y 1 ltac:(lia)); repeat split; lia.
    + destruct (y <=? 2000 - 1) eqn:E2; [|lia].
      match goal with |- context [?a =? 1] => remember a as dow eqn:Hdow end.
      destruct (dow =? 1) eqn:E3; [|destruct (4 <? dow) eqn:E4];
        intros Heq; apply triple_eq in Heq; destruct Heq as (-> & -> & ->);
        unfold valid_cal; rewrite ?jan_dn, ?dec_dn;
        pose proof (mlen_bounds md y 1 ltac:(lia)); repeat split; lia.
Qed.

Lemma week_date_start_spec md y sy sm sd :
  week_date_start md y = (sy, sm, sd) ->
  valid_cal md sy sm sd = true /\ dn_cal md sy sm sd = wys md y.
Proof. intros H. destruct (week_date_start_full _ _ _ _ _ H) as (A & B & _). split; assumption. Qed.

Lemma wys_bounds md y : dby md y - 3 <= wys md y <= dby md y + 3.
Proof. rewrite wys_eq. lia. Qed.

Lemma weeks_in_spec md y :
  wys md (y + 1) = wys md y + 7 * weeks_in md y /\ 51 <= weeks_in md y <= 53.
Proof.
  unfold weeks_in. rewrite !wys_eq, dby_succ.
  pose proof (ylen_bounds md y) as HL.
  assert (HM : md = D360 /\ ylen md y = 360 \/ 365 <= ylen md y).
  { destruct md; cbn [ylen]; try destruct (is_leap y); auto; right; lia. }
  destruct HM as [[-> HM] | HM].
  - rewrite HM; cbn [dby]; lia.
  - generalize (dby md y) (ylen md y) (dby md 2000) HL HM; intros; lia.
Qed.

Lemma wys_mono md a b : a <= b -> wys md a <= wys md b.
Proof.
  intros H. destruct (Z.eq_dec a b) as [-> | N]; [lia|].
  pose proof (wys_bounds md a). pose proof (wys_bounds md b).
  pose proof (dby_lt md a b ltac:(lia)). lia.
Qed.

Lemma sum_ylen_spec md n : forall a, sum_ylen md a n = dby md (a + Z.of_nat n) - dby md a.
Proof.
  induction n as [|n IH]; intros a; cbn [sum_ylen].
  - replace (a + Z.of_nat 0) with a by lia. lia.
  - rewrite IH, get_days_in_year_spec, Nat2Z.inj_succ.
    replace (a + Z.succ (Z.of_nat n)) with (a + 1 + Z.of_nat n) by lia.
    rewrite dby_succ. lia.
Qed.

Lemma get_weeks_in_year_spec md y :
  get_weeks_in_year md y = weeks_in md y /\ 51 <= weeks_in md y <= 53.
Proof.
  destruct (weeks_in_spec md y) as (HW & HB). split; [|exact HB].
  unfold get_weeks_in_year, ord_week_date_start.
  destruct (week_date_start md y) as [[cy cm] cd] eqn:E1.
  destruct (week_date_start md (y + 1)) as [[cyn cmn] cdn] eqn:E2.
  destruct (week_date_start_full _ _ _ _ _ E1) as (V1 & D1 & R1).
  destruct (week_date_start_full _ _ _ _ _ E2) as (V2 & D2 & R2).
  rewrite !ord_from_cal_eq, V1, V2, sum_ylen_spec.
  rewrite Z2Nat.id by lia. replace (cy + (cyn - cy)) with cyn by lia.
  unfold dn_cal in D1, D2. lia.
Qed.

(* ---------- calendar <-> week ---------- *)
Lemma week_range md wy w d : valid_week md wy w d = true ->
  1 <= w <= weeks_in md wy /\ 1 <= d <= 7 /\
  wys md wy <= dn_week md wy w d < wys md (wy + 1).
Proof.
  unfold valid_week, dn_week; intros V. destruct (weeks_in_spec md wy) as (HW & HB). lia.
Qed.

Lemma dn_week_inj md wy w d wy' w' d' :
  valid_week md wy w d = true -> valid_week md wy' w' d' = true ->
  dn_week md wy w d = dn_week md wy' w' d' -> (wy, w, d) = (wy', w', d').
Proof.
  intros V V' E. pose proof (week_range _ _ _ _ V) as (Hw & Hd & Hn).
  pose proof (week_range _ _ _ _ V') as (Hw' & Hd' & Hn').
  assert (wy = wy').
  { destruct (Z.lt_trichotomy wy wy') as [L | [L | L]]; [|exact L|].
    - pose proof (wys_mono md (wy + 1) wy' ltac:(lia)). lia.
    - pose proof (wys_mono md (wy' + 1) wy ltac:(lia)). lia. }
  subst wy'. unfold dn_week in E.
  assert (w = w') by lia. subst w'. assert (d = d') by lia. subst d'. reflexivity.
Qed.

Lemma week_from_cal_spec md y m d : valid_cal md y m d = true ->
  exists wy w wd, week_from_cal md y m d = Some (wy, w, wd) /\ valid_week md wy w wd = true /\
                  dn_week md wy w wd = dn_cal md y m d.
Proof.
  intros V. unfold week_from_cal.
  destruct (week_date_start md (y - 1)) as [[py pm] pd] eqn:E1.
  destruct (week_date_start md y) as [[ty tm] td] eqn:E2.
  destruct (week_date_start md (y + 1)) as [[ny nm] nd] eqn:E3.
  destruct (week_date_start_full _ _ _ _ _ E1) as (V1 & D1 & R1).
  destruct (week_date_start_full _ _ _ _ _ E2) as (V2 & D2 & R2).
  destruct (week_date_start_full _ _ _ _ _ E3) as (V3 & D3 & R3).
  cbv zeta.
  rewrite !(triple_leb_spec md), !(triple_ltb_spec md) by assumption.
  rewrite D1, D2, D3.
  assert (T : forall sy sm sd wy, valid_cal md sy sm sd = true ->
     dn_cal md sy sm sd = wys md wy -> wy - 1 <= sy <= wy -> y - 1 <= wy <= y + 1 ->
     wys md wy <= dn_cal md y m d < wys md (wy + 1) ->
     exists w wd,
      match ord_from_cal md y m d with
      | Some (_, o) =>
          match ord_from_cal md sy sm sd with
          | Some (_, so) =>
              match
                (if sy =? y
                 then if so <=? o then Some (o - so) else None
                 else
                  if sy + 1 =? y
                  then Some (get_days_in_year md sy - so + o)
                  else
                   if sy + 2 =? y
                   then
                    Some
                      (get_days_in_year md sy - so +
                       get_days_in_year md (sy + 1) + o)
                   else None)
              with
              | Some t => Some (wy, t / 7 + 1, t mod 7 + 1)
              | None => None
              end
          | None => None
          end
      | None => None
      end = Some (wy, w, wd) /\
    valid_week md wy w wd = true /\ dn_week md wy w wd = dn_cal md y m d).
  { clear - V. intros sy sm sd wy Vs Ds Rs Rw Hn.
    rewrite !ord_from_cal_eq, V, Vs, !get_days_in_year_spec.
    destruct (weeks_in_spec md wy) as (HW & HB).
    pose proof (cal_range _ _ _ _ V) as (_ & _ & _ & Hy).
    pose proof (cal_range _ _ _ _ Vs) as (_ & _ & _ & Hs).
    assert (Ht : exists t, t = dn_cal md y m d - wys md wy /\
      (if sy =? y
       then if cum md sy (sm - 1) + sd <=? cum md y (m - 1) + d
            then Some (cum md y (m - 1) + d - (cum md sy (sm - 1) + sd)) else None
       else if sy + 1 =? y
            then Some (ylen md sy - (cum md sy (sm - 1) + sd) + (cum md y (m - 1) + d))
            else if sy + 2 =? y
                 then Some (ylen md sy - (cum md sy (sm - 1) + sd) + ylen md (sy + 1) +
                            (cum md y (m - 1) + d))
                 else None) = Some t).
    { unfold dn_cal in *. destruct (sy =? y) eqn:Q1.
      - assert (sy = y) by lia; subst sy.
        destruct (cum md y (sm - 1) + sd <=? cum md y (m - 1) + d) eqn:Q; [|lia].
        eexists; split; [|reflexivity]. lia.
      - destruct (sy + 1 =? y) eqn:Q2.
        + assert (y = sy + 1) by lia; subst y. rewrite dby_succ in *.
          eexists; split; [|reflexivity]. lia.
        + destruct (sy + 2 =? y) eqn:Q3.
          * assert (y = sy + 1 + 1) by lia; subst y. rewrite !dby_succ in *.
            replace (sy + 2) with (sy + 1 + 1) in * by lia.
            eexists; split; [|reflexivity]. lia.
          * exfalso. assert (sy = y + 1) by lia. subst sy. lia. }
    destruct Ht as (t & Et & ->).
    exists (t / 7 + 1), (t mod 7 + 1). split; [reflexivity|].
    unfold valid_week, dn_week. split; lia. }
  destruct ((wys md (y - 1) <=? dn_cal md y m d) && (dn_cal md y m d <? wys md y)) eqn:C1;
    [|destruct ((wys md y <=? dn_cal md y m d) && (dn_cal md y m d <? wys md (y + 1))) eqn:C2];
    cbv beta iota.
  - exists (y - 1). apply T; try assumption; try lia. replace (y - 1 + 1) with y by lia. lia.
  - exists y. apply T; try assumption; lia.
  - exists (y + 1). apply T; try assumption; try lia.
    pose proof (cal_range _ _ _ _ V) as (_ & _ & _ & Hy).
    pose proof (wys_bounds md (y - 1)). pose proof (wys_bounds md y).
    pose proof (wys_bounds md (y + 1)).
    destruct (weeks_in_spec md (y + 1)) as (HW & HB).
    pose proof (dby_lt md (y - 1) y ltac:(lia)). lia.
Qed.

(* finish a branch of cal_from_week that ends in cal_from_ord of year Y *)
Ltac fin Y :=
    match goal with |- context [cal_from_ord ?md Y ?doy] =>
      let m' := fresh "m" in let d' := fresh "d" in let Vc := fresh in let Dc := fresh in
      destruct (proj1 (cal_from_ord_spec md Y doy)) as (m' & d' & -> & Vc & Dc);
      [unfold valid_ord; lia
      | exists Y, m', d'; split; [reflexivity|]; split; [exact Vc|]; rewrite Dc; unfold dn_ord; lia]
    end.

Lemma cal_from_week_spec md wy w wd : valid_week md wy w wd = true ->
  exists y m d, cal_from_week md wy w wd = Some (y, m, d) /\ valid_cal md y m d = true /\
                dn_cal md y m d = dn_week md wy w wd.
Proof.
  intros V. pose proof (week_range _ _ _ _ V) as (Hw & Hd & Hn).
  unfold cal_from_week. cbv zeta.
  destruct (week_date_start md wy) as [[sy sm] sd] eqn:E.
  destruct (week_date_start_full _ _ _ _ _ E) as (Vs & Ds & Rs).
  unfold dn_week in *.
  remember ((w - 1) * 7 + wd - 1) as n eqn:En.
  replace (wys md wy + 7 * (w - 1) + (wd - 1)) with (wys md wy + n) in * by lia.
  assert (Hn0 : 0 <= n) by lia. clear En V Hw Hd.
  destruct (n =? 0) eqn:Q0.
  { exists sy, sm, sd. repeat split; try assumption. lia. }
  destruct (n <? 0) eqn:Q1; [lia|].
  rewrite ord_from_cal_eq, Vs, !get_days_in_year_spec.
  pose proof (cal_range _ _ _ _ Vs) as (_ & _ & Hc & _).
  unfold dn_cal in Ds.
  pose proof (dby_succ md sy) as S1.
  destruct (n <=? ylen md sy - (cum md sy (sm - 1) + sd)) eqn:Q2.
  { fin sy. }
  destruct (sy <? wy) eqn:Q3.
  - assert (wy = sy + 1) by lia; subst wy.
    pose proof (dby_succ md (sy + 1)) as S2. pose proof (dby_succ md (sy + 1 + 1)) as S3.
    pose proof (wys_bounds md (sy + 1 + 1)) as B.
    pose proof (ylen_bounds md (sy + 1 + 1)).
    destruct (n - (ylen md sy - (cum md sy (sm - 1) + sd)) <=? ylen md (sy + 1)) eqn:Q4.
    { fin (sy + 1). }
    destruct (n - (ylen md sy - (cum md sy (sm - 1) + sd)) - ylen md (sy + 1) <=? ylen md (sy + 1 + 1)) eqn:Q5.
    { fin (sy + 1 + 1). }
    exfalso. lia.
  - assert (wy = sy) by lia; subst wy.
    pose proof (wys_bounds md (sy + 1)) as B.
    pose proof (ylen_bounds md (sy + 1)).
    destruct (n - (ylen md sy - (cum md sy (sm - 1) + sd)) <=? ylen md (sy + 1)) eqn:Q4.
    { fin (sy + 1). }
    exfalso. lia.
Qed.

(* ---------- ordinal <-> week: compositions ---------- *)
Lemma week_from_ord_spec md y doy : valid_ord md y doy = true ->
  exists wy w wd, week_from_ord md y doy = Some (wy, w, wd) /\ valid_week md wy w wd = true /\
                  dn_week md wy w wd = dn_ord md y doy.
Proof.
  intros V. unfold week_from_ord.
  destruct (proj1 (cal_from_ord_spec md y doy) V) as (m & d & -> & Vc & Dc).
  rewrite <- Dc. apply week_from_cal_spec; exact Vc.
Qed.

Lemma ord_from_week_spec md wy w wd : valid_week md wy w wd = true ->
  exists y doy, ord_from_week md wy w wd = Some (y, doy) /\ valid_ord md y doy = true /\
                dn_ord md y doy = dn_week md wy w wd.
Proof.
  intros V. unfold ord_from_week.
  destruct (cal_from_week_spec md wy w wd V) as (y & m & d & -> & Vc & Dc).
  destruct (proj1 (ord_from_cal_spec md y m d) Vc) as (doy & E & Vo & Do).
  exists y, doy. rewrite <- Dc. auto.
Qed.

(* ---------- the conversions are mutually inverse ---------- *)
Lemma conversions_mutually_inverse md :
  (forall y m d, valid_cal md y m d = true ->
     (exists doy, ord_from_cal md y m d = Some (y, doy) /\ cal_from_ord md y doy = Some (y, m, d)) /\
     (exists wy w wd, week_from_cal md y m d = Some (wy, w, wd) /\ cal_from_week md wy w wd = Some (y, m, d))) /\
  (forall y doy, valid_ord md y doy = true ->
     (exists m d, cal_from_ord md y doy = Some (y, m, d) /\ ord_from_cal md y m d = Some (y, doy)) /\
     (exists wy w wd, week_from_ord md y doy = Some (wy, w, wd) /\ ord_from_week md wy w wd = Some (y, doy))) /\
  (forall wy w wd, valid_week md wy w wd = true ->
     (exists y m d, cal_from_week md wy w wd = Some (y, m, d) /\ week_from_cal md y m d = Some (wy, w, wd)) /\
     (exists y doy, ord_from_week md wy w wd = Some (y, doy) /\ week_from_ord md y doy = Some (wy, w, wd))).
Proof.
  split; [|split].
  - intros y m d V. split.
    + destruct (proj1 (ord_from_cal_spec md y m d) V) as (doy & E & Vo & Do).
      exists doy. split; [exact E|].
      destruct (proj1 (cal_from_ord_spec md y doy) Vo) as (m' & d' & E' & Vc & Dc).
      rewrite E'. f_equal. eapply dn_cal_inj; eauto. congruence.
    + destruct (week_from_cal_spec md y m d V) as (wy & w & wd & E & Vw & Dw).
      exists wy, w, wd. split; [exact E|].
      destruct (cal_from_week_spec md wy w wd Vw) as (y' & m' & d' & E' & Vc & Dc).
      rewrite E'. f_equal. eapply dn_cal_inj; eauto. congruence.
  - intros y doy V. split.
    + destruct (proj1 (cal_from_ord_spec md y doy) V) as (m & d & E & Vc & Dc).
      exists m, d. split; [exact E|].
      destruct (proj1 (ord_from_cal_spec md y m d) Vc) as (doy' & E' & Vo & Do).
      rewrite E'. f_equal. eapply dn_ord_inj; eauto. congruence.
    + destruct (week_from_ord_spec md y doy V) as (wy & w & wd & E & Vw & Dw).
      exists wy, w, wd. split; [exact E|].
      destruct (ord_from_week_spec md wy w wd Vw) as (y' & doy' & E' & Vo & Do).
      rewrite E'. f_equal. eapply dn_ord_inj; eauto. congruence.
  - intros wy w wd V. split.
    + destruct (cal_from_week_spec md wy w wd V) as (y & m & d & E & Vc & Dc).
      exists y, m, d. split; [exact E|].
      destruct (week_from_cal_spec md y m d Vc) as (wy' & w' & wd' & E' & Vw & Dw).
      rewrite E'. f_equal. eapply dn_week_inj; eauto. congruence.
    + destruct (ord_from_week_spec md wy w wd V) as (y & doy & E & Vo & Do).
      exists y, doy. split; [exact E|].
      destruct (week_from_ord_spec md y doy Vo) as (wy' & w' & wd' & E' & Vw & Dw).
      rewrite E'. f_equal. eapply dn_week_inj; eauto. congruence.
Qed.
