(* Proofs/RoundTripSpec.v -- property C08: writing a time point out and reading
   it back.  (1) digit strings: the dumper's zero padding of any width is read
   back exactly, a padded year splits into the parser's digit groups, trailing
   zeros and six-digit decimal fractions; (2) the shape of str(p): the default
   dump format, its template over the generated tables, the rendered text;
   (3) the forms that text is read back with and the numbers the parser
   extracts; (4) str -> parse gives back the same date representation, UTC
   offset and (==) time fields, and str is a fixpoint; (5)-(8) custom formats
   "complete date T hh[:]mm[:]ss zone": the zone Z, a literal numeric zone, the
   point's own zone; dumped, parsed back, compared with the original. *)
From Coq Require Import ZArith NArith Nnat QArith Qround Lqa List Bool String Ascii Lia.
From Iso Require Import Proofs.Tac Spec.Cal Spec.Instant Model.Num Model.Helpers Model.Duration Model.TimePoint
  Model.Forms Model.Parse Model.Dump Spec.FormText Proofs.MatchSpec gen.Grammar Model.DriverText
  Proofs.HelpersSpec Proofs.ConvSpec Proofs.TickSpec Proofs.AddSpec Proofs.ZoneSpec Proofs.CmpSpec Proofs.ConstructSpec.
From Coq Require Import Decimal DecimalFacts DecimalPos DecimalN DecimalZ DecimalString.
Import ListNotations.
Close Scope Z_scope.
Local Open Scope string_scope.

(* ------------------------------------------------------------------ *)
(* 1. digit strings and the numbers they denote                        *)
(* ------------------------------------------------------------------ *)

(* ---- part P1b ---- *)
Lemma uint_of_string_cons : forall c s,
  NilEmpty.uint_of_string (String c s) = uint_of_char c (NilEmpty.uint_of_string s).
Proof. reflexivity. Qed.

Lemma app_D : forall (D : uint -> uint) k u ub,
  (forall x, to_list (D x) = k :: to_list x) ->
  app (D u) ub = D (app u ub).
Proof. intros D k u ub HD. apply to_list_inj. rewrite app_spec, !HD, app_spec. reflexivity. Qed.

Lemma uoc_app : forall c u d ub, uint_of_char c (Some u) = Some d ->
  uint_of_char c (Some (app u ub)) = Some (app d ub).
Proof.
  intros c u d ub H. apply uint_of_char_spec in H.
  destruct H as [[-> ->]|[[-> ->]|[[-> ->]|[[-> ->]|[[-> ->]|[[-> ->]|[[-> ->]|[[-> ->]|[[-> ->]|[-> ->]]]]]]]]]].
  - rewrite (app_D D0 _ _ _ (fun x => eq_refl)). reflexivity.
  - rewrite (app_D D1 _ _ _ (fun x => eq_refl)). reflexivity.
  - rewrite (app_D D2 _ _ _ (fun x => eq_refl)). reflexivity.
  - rewrite (app_D D3 _ _ _ (fun x => eq_refl)). reflexivity.
  - rewrite (app_D D4 _ _ _ (fun x => eq_refl)). reflexivity.
  - rewrite (app_D D5 _ _ _ (fun x => eq_refl)). reflexivity.
  - rewrite (app_D D6 _ _ _ (fun x => eq_refl)). reflexivity.
  - rewrite (app_D D7 _ _ _ (fun x => eq_refl)). reflexivity.
  - rewrite (app_D D8 _ _ _ (fun x => eq_refl)). reflexivity.
  - rewrite (app_D D9 _ _ _ (fun x => eq_refl)). reflexivity.
Qed.

Definition uval (s : string) : Z :=
  match NilEmpty.uint_of_string s with Some u => Z.of_N (Pos.of_uint u) | None => 0%Z end.

Lemma dnum_uval : forall s, all_digits s = true -> dnum s = uval s.
Proof.
  intros s A. unfold dnum, uval, read_Z, NilZero.int_of_string.
  destruct s as [|c s]; [reflexivity|].
  assert (M : Ascii.eqb c "-" = false).
  { destruct (Ascii.eqb c "-") eqn:X; [|reflexivity]. apply Ascii.eqb_eq in X. subst c. simpl in A. discriminate. }
  rewrite M. unfold NilZero.uint_of_string.
  destruct (NilEmpty.uint_of_string (String c s)) as [u|]; reflexivity.
Qed.

Lemma uoc_none : forall c, uint_of_char c None = None.
Proof. reflexivity. Qed.

Lemma uint_of_string_app : forall a b ua ub,
  NilEmpty.uint_of_string a = Some ua -> NilEmpty.uint_of_string b = Some ub ->
  NilEmpty.uint_of_string (a ++ b) = Some (app ua ub).
Proof.
  induction a as [|c a IH]; intros b ua ub Ha Hb.
  - inversion Ha; subst ua. rewrite app_nil_l. exact Hb.
  - rewrite uint_of_string_cons in Ha. destruct (NilEmpty.uint_of_string a) as [u|] eqn:E.
    2:{ rewrite uoc_none in Ha. discriminate Ha. }
    change (String c a ++ b) with (String c (a ++ b)). rewrite uint_of_string_cons.
    rewrite (IH b u ub eq_refl Hb). apply uoc_app. exact Ha.
Qed.

Lemma rev_app_uint : forall a b, rev (app a b) = revapp b (rev a).
Proof.
  intros. apply to_list_inj. rewrite rev_spec, app_spec, revapp_spec, rev_spec, rev_app_distr, rev_append_rev. reflexivity.
Qed.

Lemma of_uint_app : forall a b,
  (Pos.of_uint (app a b) = Pos.of_uint b + Pos.of_uint a * 10 ^ Unsigned.usize b)%N.
Proof.
  intros. rewrite Unsigned.of_uint_alt, rev_app_uint, Unsigned.of_lu_revapp, <- !Unsigned.of_uint_alt. reflexivity.
Qed.

Lemma usize_length : forall s u, NilEmpty.uint_of_string s = Some u -> Unsigned.usize u = N.of_nat (String.length s).
Proof.
  induction s as [|c s IH]; intros u H.
  - inversion H. reflexivity.
  - rewrite uint_of_string_cons in H. destruct (NilEmpty.uint_of_string s) as [v|] eqn:E.
    2:{ rewrite uoc_none in H. discriminate H. }
    apply uint_of_char_spec in H. cbn [String.length]. rewrite Nat2N.inj_succ, <- (IH v eq_refl).
    destruct H as [[_ ->]|[[_ ->]|[[_ ->]|[[_ ->]|[[_ ->]|[[_ ->]|[[_ ->]|[[_ ->]|[[_ ->]|[_ ->]]]]]]]]]]; reflexivity.
Qed.

Theorem dnum_app : forall a b, all_digits a = true -> all_digits b = true ->
  dnum (a ++ b) = (dnum a * 10 ^ Z.of_nat (String.length b) + dnum b)%Z.
Proof.
  intros a b Aa Ab. rewrite !dnum_uval by (try assumption; rewrite all_digits_app, Aa, Ab; reflexivity).
  destruct (uint_digits a Aa) as [ua Ha]. destruct (uint_digits b Ab) as [ub Hb].
  unfold uval. rewrite (uint_of_string_app a b ua ub Ha Hb), Ha, Hb, of_uint_app, (usize_length b ub Hb).
  rewrite N2Z.inj_add, N2Z.inj_mul, N2Z.inj_pow, nat_N_Z. change (Z.of_N 10) with 10%Z. lia.
Qed.

(* printing the number a digit string denotes gives the string back *)
Lemma sou_length : forall u, String.length (NilEmpty.string_of_uint u) = nb_digits u.
Proof. induction u; simpl; congruence. Qed.

Lemma unorm_Dk : forall u, match u with Nil | D0 _ => True | _ => unorm u = u end.
Proof. destruct u; exact I || reflexivity. Qed.

Lemma zeros_unorm : forall u, u <> Nil ->
  zeros (nb_digits u - nb_digits (unorm u)) ++ NilEmpty.string_of_uint (unorm u) = NilEmpty.string_of_uint u.
Proof.
  induction u; intros NN; try (exfalso; apply NN; reflexivity);
    try (cbn [unorm nzhead nb_digits]; rewrite Nat.sub_diag; reflexivity).
  rewrite unorm_D0. destruct u as [| | | | | | | | | |] eqn:EU;
   [reflexivity | ..];
   (rewrite <- EU in *; assert (NU : u <> Nil) by (rewrite EU; discriminate);
    specialize (IHu NU); pose proof (nb_digits_unorm u NU) as LE;
    cbn [nb_digits]; fold (nb_digits u);
    replace (S (nb_digits u) - nb_digits (unorm u))%nat with (S (nb_digits u - nb_digits (unorm u))) by lia;
    cbn [zeros NilEmpty.string_of_uint]; cbn [append]; rewrite IHu; reflexivity).
Qed.

Lemma dnum_of_uint : forall s u, digits_plus s = true -> NilEmpty.uint_of_string s = Some u ->
  dnum s = Z.of_int (Pos u).
Proof.
  intros s u D H. unfold digits_plus in D. apply andb_true_iff in D. destruct D as [_ A].
  rewrite dnum_uval by assumption. unfold uval. rewrite H. reflexivity.
Qed.

Lemma show_dnum : forall s u, digits_plus s = true -> NilEmpty.uint_of_string s = Some u ->
  show_Z (dnum s) = NilEmpty.string_of_uint (unorm u).
Proof.
  intros s u D H. rewrite (dnum_of_uint s u D H). unfold show_Z. rewrite DecimalZ.to_of.
  assert (N : norm (Pos u) = Pos (unorm u)).
  { unfold norm, unorm. destruct (nzhead u); reflexivity. }
  rewrite N. cbn [NilZero.string_of_int]. unfold NilZero.string_of_uint.
  pose proof (unorm_nonnil u) as NN. destruct (unorm u); try reflexivity. exfalso; apply NN; reflexivity.
Qed.

Lemma dnum_nonneg : forall s, all_digits s = true -> (0 <= dnum s)%Z.
Proof. intros s A. rewrite dnum_uval by assumption. unfold uval. destruct (NilEmpty.uint_of_string s); lia. Qed.

Theorem pad_dnum : forall w s, digits_n w s = true -> (1 <= w)%nat -> pad_num w (dnum s) = s.
Proof.
  intros w s D W. pose proof D as D'. apply digits_n_inv in D'. destruct D' as [L A].
  assert (DP : digits_plus s = true).
  { unfold digits_plus. rewrite A. destruct s; [simpl in L; lia|reflexivity]. }
  destruct (uint_digits s A) as [u H].
  pose proof (dnum_nonneg s A) as NN.
  unfold pad_num. rewrite Z.abs_eq by assumption.
  assert (LT : (dnum s <? 0)%Z = false) by (apply Z.ltb_ge; assumption). rewrite LT.
  rewrite (show_dnum s u DP H). cbn [append]. rewrite Nat.add_0_r, sou_length.
  pose proof (NilEmpty.sus s u H) as SU.
  assert (NB : nb_digits u = w) by (rewrite <- sou_length, SU; exact L).
  rewrite <- NB. rewrite zeros_unorm; [exact SU|].
  intros ->. simpl in NB. lia.
Qed.

Lemma sou_digits : forall u, all_digits (NilEmpty.string_of_uint u) = true.
Proof. induction u; simpl; auto. Qed.
Lemma show_Z_digits : forall n, (0 <= n)%Z -> all_digits (show_Z n) = true.
Proof.
  intros n H. unfold show_Z. destruct n as [|p|p]; [reflexivity| |lia].
  cbn [Z.to_int NilZero.string_of_int]. unfold NilZero.string_of_uint.
  pose proof (sou_digits (Pos.to_uint p)). destruct (Pos.to_uint p); try assumption.
Qed.
Lemma zeros_digits : forall k, all_digits (zeros k) = true.
Proof. induction k; simpl; auto. Qed.
Lemma pad_num_digits : forall w n, (0 <= n)%Z -> all_digits (pad_num w n) = true.
Proof.
  intros w n H. unfold pad_num. assert (LT : (n <? 0)%Z = false) by (apply Z.ltb_ge; assumption). rewrite LT.
  cbn [append]. rewrite all_digits_app, zeros_digits, Z.abs_eq, show_Z_digits by assumption. reflexivity.
Qed.
Lemma show_Z_nonempty : forall n, String.eqb (show_Z n) "" = false.
Proof.
  intros n. unfold show_Z. destruct n as [|p|p]; [reflexivity| |reflexivity].
  cbn [Z.to_int NilZero.string_of_int]. unfold NilZero.string_of_uint.
  destruct (Pos.to_uint p); reflexivity.
Qed.

Lemma slen_app : forall a b : string, String.length (a ++ b) = (String.length a + String.length b)%nat.
Proof. induction a; simpl; intros; [reflexivity|]. rewrite IHa. reflexivity. Qed.

(* the year digits: a (k+4)-digit padding splits into expanded digits, century, year of century *)
Theorem pad_year_split : forall k y, In k [2; 3]%nat -> (0 <= y < 10 ^ Z.of_nat (k + 4))%Z ->
  pad_num (k + 4) y = pad_num k (y / 10000) ++ pad_num 2 (y / 100 mod 100) ++ pad_num 2 (y mod 100).
Proof.
  intros k y K R.
  assert (P2a : (0 <= y / 100 mod 100 < 100)%Z) by (apply Z.mod_pos_bound; lia).
  assert (P2b : (0 <= y mod 100 < 100)%Z) by (apply Z.mod_pos_bound; lia).
  destruct (pad_num_2 _ P2a) as [Dc Nc]. destruct (pad_num_2 _ P2b) as [Dy Ny].
  assert (X : digits_n k (pad_num k (y / 10000)) = true /\ dnum (pad_num k (y / 10000)) = (y / 10000)%Z).
  { destruct K as [<-|[<-|[]]].
    - apply pad_num_2. change (Z.of_nat (2 + 4)) with 6%Z in R. change (10 ^ 6)%Z with 1000000%Z in R.
      split; [apply Z.div_pos; lia|apply Z.div_lt_upper_bound; lia].
    - apply pad_num_3. change (Z.of_nat (3 + 4)) with 7%Z in R. change (10 ^ 7)%Z with 10000000%Z in R.
      split; [apply Z.div_pos; lia|apply Z.div_lt_upper_bound; lia]. }
  destruct X as [Dx Nx].
  set (xx := pad_num k (y / 10000)) in *. set (cc := pad_num 2 (y / 100 mod 100)) in *. set (yy := pad_num 2 (y mod 100)) in *.
  destruct (digits_n_inv _ _ Dx) as [Lx Ax]. destruct (digits_n_inv _ _ Dc) as [Lc Ac]. destruct (digits_n_inv _ _ Dy) as [Ly Ay].
  assert (DD : digits_n (k + 4) (xx ++ cc ++ yy) = true).
  { unfold digits_n. rewrite !all_digits_app, Ax, Ac, Ay. rewrite andb_true_r. apply Nat.eqb_eq.
    rewrite !slen_app, Lx, Lc, Ly. lia. }
  rewrite <- (pad_dnum (k + 4) (xx ++ cc ++ yy) DD) by lia. f_equal.
  rewrite dnum_app by (try assumption; rewrite all_digits_app, Ac, Ay; reflexivity).
  rewrite (dnum_app cc yy) by assumption. rewrite slen_app, Lc, Ly, Nx, Nc, Ny.
  change (Z.of_nat (2 + 2)) with 4%Z. change (Z.of_nat 2) with 2%Z. change (10 ^ 4)%Z with 10000%Z. change (10 ^ 2)%Z with 100%Z.
  pose proof (Z.div_mod y 10000 ltac:(lia)). pose proof (Z.div_mod y 100 ltac:(lia)).
  pose proof (Z.div_mod (y / 100) 100 ltac:(lia)). rewrite Z.div_div in H1 by lia. change (100 * 100)%Z with 10000%Z in H1. lia.
Qed.

Theorem pad_year4_split : forall y, (0 <= y < 10000)%Z ->
  pad_num 4 y = pad_num 2 (y / 100) ++ pad_num 2 (y mod 100).
Proof.
  intros y R.
  assert (P2a : (0 <= y / 100 < 100)%Z) by (split; [apply Z.div_pos; lia|apply Z.div_lt_upper_bound; lia]).
  assert (P2b : (0 <= y mod 100 < 100)%Z) by (apply Z.mod_pos_bound; lia).
  destruct (pad_num_2 _ P2a) as [Dc Nc]. destruct (pad_num_2 _ P2b) as [Dy Ny].
  set (cc := pad_num 2 (y / 100)) in *. set (yy := pad_num 2 (y mod 100)) in *.
  destruct (digits_n_inv _ _ Dc) as [Lc Ac]. destruct (digits_n_inv _ _ Dy) as [Ly Ay].
  assert (DD : digits_n 4 (cc ++ yy) = true).
  { unfold digits_n. rewrite !all_digits_app, Ac, Ay. rewrite andb_true_r. apply Nat.eqb_eq.
    rewrite !slen_app, Lc, Ly. reflexivity. }
  rewrite <- (pad_dnum 4 (cc ++ yy) DD) by lia. f_equal.
  rewrite (dnum_app cc yy) by assumption. rewrite Ly, Nc, Ny.
  change (Z.of_nat 2) with 2%Z. change (10 ^ 2)%Z with 100%Z.
  pose proof (Z.div_mod y 100 ltac:(lia)). lia.
Qed.

(* ---- part P2 ---- *)
(* ------------------------------------------------------------------ *)
(* 2. the shape of str(p)                                              *)
(* ------------------------------------------------------------------ *)
Definition year_text (ned y : Z) : string :=
  let digits := Z.to_nat (4 + ned) in
  if negb (ned =? 0)%Z then (if (y <? 0)%Z then "-" else "+") ++ pad_num digits (Z.abs y) else pad_num digits y.
Definition date_suffix (d : date) : string :=
  match d with Cal _ _ _ => "-MM-DD" | Ord _ _ => "-DDD" | Wk _ _ _ => "-Www-D" end.
Definition time_fmt (t : tod) : string :=
  match t with HH _ => "Thh,ii" | HM _ _ => "Thh:mm,nn" | HMS _ _ s => if qis_int s then "Thh:mm:ss" else "Thh:mm:ss,tt" end.
Definition zone_fmt (z : zone) : string := if (zh z =? 0)%Z && (zm z =? 0)%Z then "Z" else "+hh:mm".

Lemma get_dump_format_eq : forall ned p, (ned = 0%Z -> (0 <= date_year (tdate p))%Z) ->
  get_dump_format ned p =
  DOk ((year_text ned (date_year (tdate p)) ++ date_suffix (tdate p)) ++ time_fmt (ttod p) ++ zone_fmt (tzone p)).
Proof.
  intros ned p H. unfold get_dump_format, year_text. cbv zeta.
  destruct (ned =? 0)%Z eqn:E; cbn [negb].
  - apply Z.eqb_eq in E. specialize (H E).
    assert (L : (date_year (tdate p) <? 0)%Z = false) by (apply Z.ltb_ge; exact H). rewrite L.
    destruct (tdate p); reflexivity.
  - destruct (tdate p); reflexivity.
Qed.

(* the year text: an optional sign and a non-empty digit run *)
Definition sign_ok (sg : string) : Prop := sg = "" \/ sg = "+" \/ sg = "-".
Lemma pad_num_plus : forall w n, (0 <= n)%Z -> digits_plus (pad_num w n) = true.
Proof.
  intros w n H. unfold digits_plus. rewrite pad_num_digits by assumption. rewrite andb_true_r.
  unfold pad_num. assert (L : (n <? 0)%Z = false) by (apply Z.ltb_ge; exact H). rewrite L. cbn [append].
  pose proof (show_Z_nonempty (Z.abs n)) as NE. destruct (zeros _); [cbn [append]; rewrite NE; reflexivity|reflexivity].
Qed.
Lemma year_text_cases : forall ned y, (ned = 0%Z -> (0 <= y)%Z) ->
  exists sg body, year_text ned y = sg ++ body /\ sign_ok sg /\ digits_plus body = true.
Proof.
  intros ned y H. unfold year_text. cbv zeta. destruct (ned =? 0)%Z eqn:E; cbn [negb].
  - apply Z.eqb_eq in E. exists "", (pad_num (Z.to_nat (4 + ned)) y). split; [reflexivity|]. split; [left; reflexivity|].
    apply pad_num_plus. auto.
  - exists (if (y <? 0)%Z then "-" else "+"), (pad_num (Z.to_nat (4 + ned)) (Z.abs y)). split; [reflexivity|].
    split; [destruct (y <? 0)%Z; unfold sign_ok; auto|]. apply pad_num_plus. lia.
Qed.

(* no table expression looks like a year text *)
Definition yr_lead (s : string) : bool :=
  match s with
  | String c r => is_digit c || ((Ascii.eqb c "+" || Ascii.eqb c "-") && match r with String d _ => is_digit d | _ => false end)
  | EmptyString => false
  end.
Lemma find_expr_none : forall fs s, yr_lead s = true ->
  forallb (fun f => negb (yr_lead (f_expr f))) fs = true -> find_expr fs s = None.
Proof.
  induction fs as [|f fs IH]; intros s L A; [reflexivity|].
  cbn [forallb] in A. apply andb_true_iff in A. destruct A as [A1 A2]. cbn [find_expr].
  destruct (String.eqb (f_expr f) s) eqn:E.
  - apply String.eqb_eq in E. rewrite E, L in A1. discriminate.
  - apply IH; assumption.
Qed.
Theorem tables_no_year_lead :
  forallb (fun L => forallb (fun f => negb (yr_lead (f_expr f))) L) [DATE_FORMS_0; DATE_FORMS_2; DATE_FORMS_3] = true.
Proof. vm_compute. reflexivity. Qed.
Lemma date_forms_no_lead : forall ned, forallb (fun f => negb (yr_lead (f_expr f))) (date_forms_of ned) = true.
Proof.
  intros ned. pose proof tables_no_year_lead as T. cbn [forallb] in T.
  apply andb_true_iff in T. destruct T as [T0 T]. apply andb_true_iff in T. destruct T as [T2 T].
  apply andb_true_iff in T. destruct T as [T3 _].
  unfold date_forms_of. destruct (ned =? 0)%Z; [exact T0|]. destruct (ned =? 3)%Z; assumption.
Qed.

Lemma yr_lead_text : forall sg body rest, sign_ok sg -> digits_plus body = true -> yr_lead (sg ++ body ++ rest) = true.
Proof.
  intros sg body rest S D. unfold digits_plus in D. apply andb_true_iff in D. destruct D as [N A].
  destruct body as [|c body]; [discriminate|]. simpl in A. apply andb_true_iff in A. destruct A as [A1 A2].
  destruct S as [-> | [-> | ->]]; simpl; rewrite A1; reflexivity.
Qed.

Definition strip_sign (s : string) : string * string :=
  match s with String "-" r => ("-", r) | _ => ("", s) end.
Lemma strip_sign_other : forall c r, Ascii.eqb c "-" = false -> strip_sign (String c r) = ("", String c r).
Proof.
  intros c r H. destruct c as [b0 b1 b2 b3 b4 b5 b6 b7].
  destruct b0, b1, b2, b3, b4, b5, b6, b7; try reflexivity. discriminate H.
Qed.
Lemma date_template_unfold : forall dfs s,
  date_template dfs s =
  match find_expr dfs s with
  | Some f => Some (f_dump f, f_props f)
  | None =>
    let '(sign, rest) := strip_sign s in
    let '(yr, suffix) := split_year rest in
    if String.eqb yr "" then None
    else if String.eqb suffix "-MM-DD" then Some ([DLit (sign ++ yr ++ "-"); DNum "month_of_year" 2; DLit "-"; DNum "day_of_month" 2], ["month_of_year"; "day_of_month"])
    else if String.eqb suffix "-DDD" then Some ([DLit (sign ++ yr ++ "-"); DNum "day_of_year" 3], ["day_of_year"])
    else if String.eqb suffix "-Www-D" then Some ([DLit (sign ++ yr ++ "-W"); DNum "week_of_year" 2; DLit "-"; DNum "day_of_week" 1], ["week_of_year"; "day_of_week"])
    else None
  end.
Proof. reflexivity. Qed.

Definition yr_char (c : ascii) : bool := is_digit c || Ascii.eqb c "+".
Lemma split_year_app : forall d c r, forallb yr_char (list_ascii_of_string d) = true -> yr_char c = false ->
  split_year (d ++ String c r) = (d, String c r).
Proof.
  induction d as [|x d IH]; intros c r A C.
  - cbn [append split_year]. fold (yr_char c). rewrite C. reflexivity.
  - cbn [list_ascii_of_string forallb] in A. apply andb_true_iff in A. destruct A as [A1 A2].
    change (String x d ++ String c r) with (String x (d ++ String c r)). cbn [split_year]. fold (yr_char x).
    rewrite A1, IH by assumption. reflexivity.
Qed.
Lemma digits_yr_chars : forall d, all_digits d = true -> forallb yr_char (list_ascii_of_string d) = true.
Proof. induction d; simpl; intros H; [reflexivity|]. apply andb_true_iff in H. destruct H as [H1 H2].
  unfold yr_char at 1. rewrite H1, IHd by assumption. reflexivity. Qed.
Lemma is_digit_not_minus : forall c, is_digit c = true -> Ascii.eqb c "-" = false.
Proof. intros c H. destruct (Ascii.eqb c "-") eqn:E; [|reflexivity]. apply Ascii.eqb_eq in E. subst c. discriminate. Qed.

(* the template of a default-dump-format date: the year text stays a literal *)
Definition date_tmpl (ytext : string) (d : date) : list dtok * list string :=
  match d with
  | Cal _ _ _ => ([DLit (ytext ++ "-"); DNum "month_of_year" 2; DLit "-"; DNum "day_of_month" 2], ["month_of_year"; "day_of_month"])
  | Ord _ _ => ([DLit (ytext ++ "-"); DNum "day_of_year" 3], ["day_of_year"])
  | Wk _ _ _ => ([DLit (ytext ++ "-W"); DNum "week_of_year" 2; DLit "-"; DNum "day_of_week" 1], ["week_of_year"; "day_of_week"])
  end.
Lemma date_template_year : forall dfs sg body d,
  forallb (fun f => negb (yr_lead (f_expr f))) dfs = true -> sign_ok sg -> digits_plus body = true ->
  date_template dfs ((sg ++ body) ++ date_suffix d) = Some (date_tmpl (sg ++ body) d).
Proof.
  intros dfs sg body d T S D. rewrite date_template_unfold, sapp_assoc.
  rewrite find_expr_none by (try assumption; apply yr_lead_text; assumption).
  pose proof D as D'. unfold digits_plus in D'. apply andb_true_iff in D'. destruct D' as [N A].
  assert (SUF : exists r, date_suffix d = String "-" r) by (destruct d; eexists; reflexivity).
  destruct SUF as [r SUF].
  assert (C : yr_char "-" = false) by reflexivity.
  destruct body as [|c body]; [discriminate|]. pose proof A as A'. simpl in A'. apply andb_true_iff in A'. destruct A' as [A1 A2].
  destruct S as [-> | [-> | ->]].
  - cbn [append]. rewrite strip_sign_other by (apply is_digit_not_minus; assumption).
    change (String c (body ++ date_suffix d)) with (String c body ++ date_suffix d). rewrite SUF.
    rewrite split_year_app by (try assumption; apply digits_yr_chars; assumption). rewrite <- SUF.
    destruct d; reflexivity.
  - change ("+" ++ String c body ++ date_suffix d) with (String "+" (String c body ++ date_suffix d)).
    rewrite strip_sign_other by reflexivity.
    change (String "+" (String c body ++ date_suffix d)) with (String "+" (String c body) ++ date_suffix d). rewrite SUF.
    rewrite split_year_app. 2:{ cbn [list_ascii_of_string forallb]. rewrite (digits_yr_chars _ A2). unfold yr_char. rewrite A1. reflexivity. }
    2: assumption. rewrite <- SUF. destruct d; reflexivity.
  - change ("-" ++ String c body ++ date_suffix d) with (String "-" (String c body ++ date_suffix d)).
    change (strip_sign (String "-" (String c body ++ date_suffix d))) with ("-", String c body ++ date_suffix d).
    rewrite SUF. rewrite split_year_app by (try assumption; apply digits_yr_chars; assumption). rewrite <- SUF.
    destruct d; reflexivity.
Qed.

(* ---- part P3 ---- *)
(* the time/zone half of _get_expression_and_properties *)
Definition expr_tail (tfs zfs : list form) (zot : string -> option (Z * Z)) (tstr : string)
           (dt : list dtok) (dp : list string) : option (list dtok * list string * option (Z * Z)) + dres :=
  let split : option (string * string * option (option (Z * Z))) :=
    match ends_with_Z tstr with
    | Some t => Some (t, "Z", Some (Some (0, 0)%Z))
    | None =>
      if contains_sub "+hh" tstr then
        match split_str "+" tstr with [t; z] => Some (t, "+" ++ z, Some None) | _ => None end
      else if contains_char "+" tstr then
        match split_str "+" tstr with [t; z] => Some (t, "+" ++ z, Some (zot ("+" ++ z))) | _ => None end
      else if contains_char "-" (lstrip_dash tstr) then
        match split_str "-" tstr with [t; z] => Some (t, "-" ++ z, Some (zot ("-" ++ z))) | _ => None end
      else Some (tstr, "", Some None)
    end in
  match split with
  | None => inr DErr
  | Some (t, z, Some cz) =>
    match find_expr tfs t, (if String.eqb z "" then Some ([], []) else zone_template zfs z) with
    | Some tf, Some (zt, zp) =>
      inl (Some (dt ++ [DLit "T"] ++ f_dump tf ++ zt, dp ++ f_props tf ++ zp, cz))%list
    | _, _ => inr DUnmodelled
    end
  | Some (_, _, None) => inr DErr
  end.

Lemma expression_of_two : forall dfs tfs zfs zot d tz dt dp,
  contains_char "T" d = false -> contains_char "T" tz = false ->
  date_template dfs d = Some (dt, dp) ->
  expression_of dfs tfs zfs zot (d ++ String "T" tz) = expr_tail tfs zfs zot tz dt dp.
Proof.
  intros dfs tfs zfs zot d tz dt dp Cd Ct DT. unfold expression_of. rewrite split_two by assumption.
  cbn [hd]. rewrite DT. reflexivity.
Qed.

(* the eight time/zone tails of the default dump formats, over the generated tables *)
Definition time_dump (t : tod) : list dtok :=
  match t with
  | HMS _ _ s => if qis_int s then [DNum "hour_of_day" 2; DLit ":"; DNum "minute_of_hour" 2; DLit ":"; DNum "second_of_minute" 2]
                 else [DNum "hour_of_day" 2; DLit ":"; DNum "minute_of_hour" 2; DLit ":"; DNum "second_of_minute" 2; DLit ","; DStr "second_of_minute_decimal_string"]
  | HM _ _ => [DNum "hour_of_day" 2; DLit ":"; DNum "minute_of_hour" 2; DLit ","; DStr "minute_of_hour_decimal_string"]
  | HH _ => [DNum "hour_of_day" 2; DLit ","; DStr "hour_of_day_decimal_string"]
  end.
Definition time_props (t : tod) : list string :=
  match t with
  | HMS _ _ s => if qis_int s then ["minute_of_hour"; "hour_of_day"; "second_of_minute"]
                 else ["minute_of_hour"; "hour_of_day"; "second_of_minute"; "second_of_minute_decimal_string"]
  | HM _ _ => ["minute_of_hour"; "hour_of_day"; "minute_of_hour_decimal_string"]
  | HH _ => ["hour_of_day"; "hour_of_day_decimal_string"]
  end.
Definition zone_dump (z : zone) : list dtok :=
  if (zh z =? 0)%Z && (zm z =? 0)%Z then [DLit "Z"]
  else [DStr "time_zone_sign"; DNum "time_zone_hour_abs" 2; DLit ":"; DNum "time_zone_minute_abs" 2].
Definition zone_props (z : zone) : list string :=
  if (zh z =? 0)%Z && (zm z =? 0)%Z then [] else ["time_zone_minute_abs"; "time_zone_hour_abs"; "time_zone_sign"].
Definition zone_cz (z : zone) : option (Z * Z) := if (zh z =? 0)%Z && (zm z =? 0)%Z then Some (0, 0)%Z else None.

Definition tail_fmt (t : tod) (z : zone) : string :=
  match time_fmt t with String _ r => r ++ zone_fmt z | EmptyString => "" end.
Lemma time_fmt_T : forall t z, time_fmt t ++ zone_fmt z = String "T" (tail_fmt t z).
Proof. intros. unfold tail_fmt. destruct t; try reflexivity. cbn [time_fmt]. destruct (qis_int s); reflexivity. Qed.

Theorem expr_tail_tables : forall t z dt dp,
  expr_tail TIME_FORMS ZONE_FORMS zone_of_text (tail_fmt t z) dt dp =
  inl (Some (dt ++ [DLit "T"] ++ time_dump t ++ zone_dump z, dp ++ time_props t ++ zone_props z, zone_cz z))%list.
Proof.
  intros t z dt dp. unfold tail_fmt, zone_fmt, zone_dump, zone_props, zone_cz.
  destruct ((zh z =? 0)%Z && (zm z =? 0)%Z); destruct t as [h m s|h m|h]; cbn [time_fmt time_dump time_props];
    try (destruct (qis_int s)); vm_compute; reflexivity.
Qed.
Lemma tail_fmt_noT : forall t z, contains_char "T" (tail_fmt t z) = false /\ contains_char "%" (tail_fmt t z) = false.
Proof.
  intros t z. unfold tail_fmt, zone_fmt.
  destruct ((zh z =? 0)%Z && (zm z =? 0)%Z); destruct t as [h m s|h m|h]; cbn [time_fmt];
    try (destruct (qis_int s)); split; reflexivity.
Qed.

Lemma year_text_nochar : forall sg body c, sign_ok sg -> digits_plus body = true ->
  is_digit c = false -> Ascii.eqb c "+" = false -> Ascii.eqb c "-" = false -> contains_char c (sg ++ body) = false.
Proof.
  intros sg body c S D N P M. unfold digits_plus in D. apply andb_true_iff in D. destruct D as [_ A].
  rewrite contains_char_app, (digits_no_char c body N A), orb_false_r.
  destruct S as [-> | [-> | ->]]; cbn [contains_char]; rewrite ?orb_false_r; [reflexivity| |];
    rewrite Ascii.eqb_sym; assumption.
Qed.
Lemma date_suffix_nochar : forall d, contains_char "T" (date_suffix d) = false /\ contains_char "%" (date_suffix d) = false.
Proof. destruct d; split; reflexivity. Qed.

Theorem expression_of_default : forall ned p, (ned = 0%Z -> (0 <= date_year (tdate p))%Z) ->
  let ytext := year_text ned (date_year (tdate p)) in
  let fmt := (ytext ++ date_suffix (tdate p)) ++ time_fmt (ttod p) ++ zone_fmt (tzone p) in
  contains_char "%" fmt = false /\
  expression_of (date_forms_of ned) TIME_FORMS ZONE_FORMS zone_of_text fmt =
  inl (Some (fst (date_tmpl ytext (tdate p)) ++ [DLit "T"] ++ time_dump (ttod p) ++ zone_dump (tzone p),
             snd (date_tmpl ytext (tdate p)) ++ time_props (ttod p) ++ zone_props (tzone p), zone_cz (tzone p)))%list.
Proof.
  intros ned p H ytext fmt. subst fmt.
  destruct (year_text_cases ned (date_year (tdate p)) H) as (sg & body & E & S & D). fold ytext in E.
  rewrite time_fmt_T. destruct (tail_fmt_noT (ttod p) (tzone p)) as [NT NP].
  destruct (date_suffix_nochar (tdate p)) as [ST SP].
  split.
  - rewrite contains_char_app, contains_char_app, E, year_text_nochar, SP by (try assumption; reflexivity).
    cbn [contains_char orb]. rewrite NP. reflexivity.
  - erewrite expression_of_two; [apply expr_tail_tables | | assumption | ].
    + rewrite contains_char_app, E, year_text_nochar, ST by (try assumption; reflexivity). reflexivity.
    + rewrite E, date_template_year by (try assumption; apply date_forms_no_lead).
      destruct (date_tmpl (sg ++ body) (tdate p)); reflexivity.
Qed.

(* ---- part P4 ---- *)
(* ---------- rendering ---------- *)
Lemma render_app : forall md p a b,
  render md p (a ++ b)%list =
  match render md p a, render md p b with Some x, Some y => Some (x ++ y) | _, _ => None end.
Proof.
  induction a as [|t a IH]; intros b.
  - cbn [List.app render]. destruct (render md p b); reflexivity.
  - cbn [List.app]. destruct t as [s|nm w|nm]; cbn [render]; rewrite IH.
    + destruct (render md p a), (render md p b); try reflexivity. rewrite sapp_assoc. reflexivity.
    + destruct (prop_value md p nm); try reflexivity; destruct (render md p a), (render md p b); try reflexivity.
      rewrite sapp_assoc. reflexivity.
    + destruct (prop_value md p nm); try reflexivity; destruct (render md p a), (render md p b); try reflexivity.
      rewrite sapp_assoc. reflexivity.
Qed.

Definition date_text (ytext : string) (d : date) : string :=
  match d with
  | Cal _ m dd => ytext ++ "-" ++ pad_num 2 m ++ "-" ++ pad_num 2 dd
  | Ord _ doy => ytext ++ "-" ++ pad_num 3 doy
  | Wk _ w dd => ytext ++ "-W" ++ pad_num 2 w ++ "-" ++ pad_num 1 dd
  end.
Definition time_text (t : tod) : string :=
  match t with
  | HMS h m s => pad_num 2 (qtrunc h) ++ ":" ++ pad_num 2 (qtrunc m) ++ ":" ++ pad_num 2 (qtrunc s) ++
                 (if qis_int s then "" else "," ++ decimal_string s)
  | HM h m => pad_num 2 (qtrunc h) ++ ":" ++ pad_num 2 (qtrunc m) ++ "," ++ decimal_string m
  | HH h => pad_num 2 (qtrunc h) ++ "," ++ decimal_string h
  end.
Definition zone_sign (z : zone) : string := if (zh z <? 0)%Z || (zm z <? 0)%Z then "-" else "+".
Definition zone_text (z : zone) : string :=
  if (zh z =? 0)%Z && (zm z =? 0)%Z then "Z"
  else zone_sign z ++ pad_num 2 (Z.abs (zh z)) ++ ":" ++ pad_num 2 (Z.abs (zm z)).

Lemma render_date : forall md ytext d t z,
  render md (mkTp d t z) (fst (date_tmpl ytext d)) = Some (date_text ytext d).
Proof.
  intros md ytext d t z. destruct d as [y m dd|y doy|y w dd]; destruct t as [h mi s|h mi|h];
    cbn [date_tmpl fst render date_text]; 
    repeat match goal with |- context [prop_value ?a ?b ?c] =>
      let v := eval lazy in (prop_value a b c) in change (prop_value a b c) with v end;
    cbv iota beta; rewrite ?sapp_nil_r, ?sapp_assoc; reflexivity.
Qed.

Lemma pv_hour : forall md d t z, prop_value md (mkTp d t z) "hour_of_day" = VInt (qtrunc (tod_hour t)).
Proof. intros. destruct t; reflexivity. Qed.
Lemma pv_min_hms : forall md d h m s z, prop_value md (mkTp d (HMS h m s) z) "minute_of_hour" = VInt (qtrunc m).
Proof. reflexivity. Qed.
Lemma pv_min_hm : forall md d h m z, prop_value md (mkTp d (HM h m) z) "minute_of_hour" = VInt (qtrunc m).
Proof. reflexivity. Qed.
Lemma pv_sec_hms : forall md d h m s z, prop_value md (mkTp d (HMS h m s) z) "second_of_minute" = VInt (qtrunc s).
Proof. reflexivity. Qed.
Lemma pv_secdec_hms : forall md d h m s z,
  prop_value md (mkTp d (HMS h m s) z) "second_of_minute_decimal_string" = VStr (decimal_string s).
Proof. reflexivity. Qed.
Lemma pv_mindec_hm : forall md d h m z,
  prop_value md (mkTp d (HM h m) z) "minute_of_hour_decimal_string" = VStr (decimal_string m).
Proof. reflexivity. Qed.
Lemma pv_hourdec : forall md d t z,
  prop_value md (mkTp d t z) "hour_of_day_decimal_string" = VStr (decimal_string (tod_hour t)).
Proof. intros. destruct t; reflexivity. Qed.
Lemma pv_zsign : forall md d t z, prop_value md (mkTp d t z) "time_zone_sign" = VStr (zone_sign z).
Proof. intros. destruct t; reflexivity. Qed.
Lemma pv_zh : forall md d t z, prop_value md (mkTp d t z) "time_zone_hour_abs" = VInt (Z.abs (zh z)).
Proof. intros. destruct t; reflexivity. Qed.
Lemma pv_zm : forall md d t z, prop_value md (mkTp d t z) "time_zone_minute_abs" = VInt (Z.abs (zm z)).
Proof. intros. destruct t; reflexivity. Qed.

Lemma render_time : forall md d t z, render md (mkTp d t z) (time_dump t) = Some (time_text t).
Proof.
  intros md d t z. destruct t as [h m s|h m|h]; cbn [time_dump time_text].
  - destruct (qis_int s); cbn [render];
      rewrite ?pv_hour, ?pv_min_hms, ?pv_sec_hms, ?pv_secdec_hms; cbn [tod_hour]; rewrite ?sapp_nil_r; reflexivity.
  - cbn [render]. rewrite pv_hour, pv_min_hm, pv_mindec_hm. cbn [tod_hour]. rewrite ?sapp_nil_r. reflexivity.
  - cbn [render]. rewrite pv_hour, pv_hourdec. cbn [tod_hour]. rewrite ?sapp_nil_r. reflexivity.
Qed.
Lemma render_zone : forall md d t z, render md (mkTp d t z) (zone_dump z) = Some (zone_text z).
Proof.
  intros md d t z. unfold zone_dump, zone_text. destruct ((zh z =? 0)%Z && (zm z =? 0)%Z); [reflexivity|].
  cbn [render]. rewrite pv_zsign, pv_zh, pv_zm. rewrite ?sapp_nil_r. reflexivity.
Qed.

Lemma render_default : forall md ytext p,
  render md p (fst (date_tmpl ytext (tdate p)) ++ [DLit "T"] ++ time_dump (ttod p) ++ zone_dump (tzone p))%list =
  Some (date_text ytext (tdate p) ++ "T" ++ time_text (ttod p) ++ zone_text (tzone p)).
Proof.
  intros md ytext [d t z]. cbn [tdate ttod tzone].
  rewrite render_app, render_date, render_app. cbn [render]. rewrite render_app, render_time, render_zone.
  reflexivity.
Qed.

(* ---------- _dump_expression_with_properties on the default template ---------- *)
Lemma dump_with_flags : forall ned md p tmpl props cz wk cal cen ex,
  mem "week_of_year" props || mem "day_of_week" props = wk ->
  mem "month_of_year" props || mem "day_of_month" props || mem "day_of_year" props = cal ->
  mem "century" props = cen -> mem "expanded_year_digits" props = ex ->
  dump_with ned md p tmpl props cz =
  let p1 : option tp :=
    if wk then
      if negb cal
      then match to_week_date md (tdate p) with Some d => Some (with_date p d) | None => None end
      else Some p
    else if (match tdate p with Wk _ _ _ => true | _ => false end) && cal
    then match to_calendar_date md (tdate p) with Some d => Some (with_date p d) | None => None end
    else Some p in
  match p1 with
  | None => DErr
  | Some q =>
    if match cz with Some (h, m) => negb (valid_zone (mkZone h m)) | None => false end then DBadInput else
    let p2 := match cz with
              | None => Some q
              | Some (h, m) => to_time_zone md q (mkZone h m)
              end in
    match p2 with
    | None => DErr
    | Some r =>
      let y := date_year (tdate r) in
      let bad :=
        (cen && (negb ex || (ned =? 0)%Z) && negb ((0 <=? y)%Z && (y <=? 9999)%Z)) ||
        (ex && negb (Z.abs y <=? 10 ^ (ned + 4) - 1)%Z) in
      if bad then DBounds
      else match render md r tmpl with Some s => DOk s | None => DErr end
    end
  end.
Proof. intros. subst. reflexivity. Qed.

Lemma to_time_zone_same_utc : forall md d t,
  to_time_zone md (mkTp d t (mkZone 0 0)) (mkZone 0 0) = Some (mkTp d t (mkZone 0 0)).
Proof. intros. reflexivity. Qed.

Lemma zone_utc_inv : forall z, (zh z =? 0)%Z && (zm z =? 0)%Z = true -> z = mkZone 0 0.
Proof. intros [a b] H. cbn [zh zm] in H. apply andb_true_iff in H. destruct H as [A B].
  apply Z.eqb_eq in A. apply Z.eqb_eq in B. subst. reflexivity. Qed.

Theorem dump_with_default : forall ned md ytext p,
  dump_with ned md p
    (fst (date_tmpl ytext (tdate p)) ++ [DLit "T"] ++ time_dump (ttod p) ++ zone_dump (tzone p))%list
    (snd (date_tmpl ytext (tdate p)) ++ time_props (ttod p) ++ zone_props (tzone p))%list (zone_cz (tzone p)) =
  DOk (date_text ytext (tdate p) ++ "T" ++ time_text (ttod p) ++ zone_text (tzone p)).
Proof.
  intros ned md ytext p.
  rewrite (dump_with_flags ned md p _ _ _
             (match tdate p with Wk _ _ _ => true | _ => false end)
             (match tdate p with Wk _ _ _ => false | _ => true end) false false).
  2-5: destruct p as [d t z]; cbn [tdate ttod tzone]; unfold zone_props;
       destruct ((zh z =? 0)%Z && (zm z =? 0)%Z); destruct d; destruct t as [h mi s|h mi|h];
       cbn [date_tmpl snd time_props]; try (destruct (qis_int s)); reflexivity.
  cbv zeta.
  assert (P1 : (if match tdate p with Wk _ _ _ => true | _ => false end
      then if negb match tdate p with Wk _ _ _ => false | _ => true end
           then match to_week_date md (tdate p) with Some d => Some (with_date p d) | None => None end
           else Some p
      else if match tdate p with Wk _ _ _ => true | _ => false end && match tdate p with Wk _ _ _ => false | _ => true end
           then match to_calendar_date md (tdate p) with Some d => Some (with_date p d) | None => None end
           else Some p) = Some p).
  { destruct p as [d t z]. destruct d; reflexivity. }
  rewrite P1.
  assert (P0 : match zone_cz (tzone p) with Some (h, m) => negb (valid_zone (mkZone h m)) | None => false end = false).
  { unfold zone_cz. destruct ((zh (tzone p) =? 0)%Z && (zm (tzone p) =? 0)%Z); reflexivity. }
  rewrite P0.
  assert (P2 : match zone_cz (tzone p) with None => Some p | Some (h, m) => to_time_zone md p (mkZone h m) end = Some p).
  { unfold zone_cz. destruct ((zh (tzone p) =? 0)%Z && (zm (tzone p) =? 0)%Z) eqn:E; [|reflexivity].
    apply zone_utc_inv in E. destruct p as [d t z]. cbn [tzone] in E. subst z. apply to_time_zone_same_utc. }
  rewrite P2. cbn [andb orb]. rewrite render_default. reflexivity.
Qed.

Definition str_text (ned : Z) (p : tp) : string :=
  date_text (year_text ned (date_year (tdate p))) (tdate p) ++ "T" ++ time_text (ttod p) ++ zone_text (tzone p).

Theorem str_shape : forall md ned p, (ned = 0%Z -> (0 <= date_year (tdate p))%Z) ->
  do_str md ned p = DOk (str_text ned p).
Proof.
  intros md ned p H. unfold do_str, tp_str. rewrite get_dump_format_eq by assumption.
  destruct (expression_of_default ned p H) as [NP EX]. unfold dump. rewrite NP, EX.
  apply dump_with_default.
Qed.
Theorem str_overflow : forall md p, (date_year (tdate p) < 0)%Z -> do_str md 0 p = DOverflow.
Proof.
  intros md p H. unfold do_str, tp_str, get_dump_format. cbn [Z.eqb negb].
  assert (L : (date_year (tdate p) <? 0)%Z = true) by (apply Z.ltb_lt; exact H). rewrite L. reflexivity.
Qed.

(* ---- part P5 ---- *)
(* ---------- padding of any width is read back exactly ---------- *)
Theorem pad_num_w : forall w n, (1 <= w)%nat -> (0 <= n < 10 ^ Z.of_nat w)%Z ->
  digits_n w (pad_num w n) = true /\ dnum (pad_num w n) = n.
Proof.
  induction w as [|w IH]; intros n W R; [lia|].
  destruct w as [|w'].
  - apply pad_num_1. change (10 ^ Z.of_nat 1)%Z with 10%Z in R. exact R.
  - set (w := S w') in *.
    assert (R10 : (10 ^ Z.of_nat (S w) = 10 ^ Z.of_nat w * 10)%Z).
    { rewrite Nat2Z.inj_succ, Z.pow_succ_r by lia. lia. }
    assert (Ra : (0 <= n / 10 < 10 ^ Z.of_nat w)%Z).
    { split; [apply Z.div_pos; lia|apply Z.div_lt_upper_bound; lia]. }
    assert (Rb : (0 <= n mod 10 < 10)%Z) by (apply Z.mod_pos_bound; lia).
    destruct (IH (n / 10)%Z ltac:(unfold w; lia) Ra) as [Da Na]. destruct (pad_num_1 _ Rb) as [Db Nb].
    set (a := pad_num w (n / 10)) in *. set (b := pad_num 1 (n mod 10)) in *.
    destruct (digits_n_inv _ _ Da) as [La Aa]. destruct (digits_n_inv _ _ Db) as [Lb Ab].
    assert (DD : digits_n (S w) (a ++ b) = true).
    { unfold digits_n. rewrite all_digits_app, Aa, Ab, andb_true_r. apply Nat.eqb_eq. rewrite slen_app, La, Lb. lia. }
    assert (NN : dnum (a ++ b) = n).
    { rewrite dnum_app by assumption. rewrite Lb, Na, Nb. change (10 ^ Z.of_nat 1)%Z with 10%Z.
      pose proof (Z.div_mod n 10 ltac:(lia)). lia. }
    rewrite <- NN. rewrite (pad_dnum (S w) (a ++ b) DD) by lia. split; [exact DD|reflexivity].
Qed.

(* ---------- trailing zeros ---------- *)
Fixpoint sgo (l : list ascii) : list ascii :=
  match l with [] => [] | c :: r => match sgo r with
                                    | [] => if Ascii.eqb c "0" then [] else [c]
                                    | x => c :: x end end.
Lemma strip_zeros_sgo : forall s, strip_zeros s = string_of_list_ascii (sgo (list_ascii_of_string s)).
Proof. reflexivity. Qed.
Lemma sgo_spec : forall l, exists k, l = (sgo l ++ repeat "0"%char k)%list.
Proof.
  induction l as [|c r [k IH]]; [exists O; reflexivity|].
  cbn [sgo]. destruct (sgo r) as [|x xs] eqn:E.
  - cbn [List.app] in IH. destruct (Ascii.eqb c "0") eqn:C.
    + apply Ascii.eqb_eq in C. subst c. exists (S k). cbn [List.app repeat]. rewrite IH at 1. reflexivity.
    + exists k. cbn [List.app]. rewrite IH at 1. reflexivity.
  - exists k. rewrite IH at 1. reflexivity.
Qed.
Lemma sola_app : forall a b, string_of_list_ascii (a ++ b) = string_of_list_ascii a ++ string_of_list_ascii b.
Proof. induction a; simpl; intros; [reflexivity|]. rewrite IHa. reflexivity. Qed.
Lemma sola_zeros : forall k, string_of_list_ascii (repeat "0"%char k) = zeros k.
Proof. induction k; simpl; [reflexivity|]. rewrite IHk. reflexivity. Qed.
Lemma strip_zeros_spec : forall s, exists k, s = strip_zeros s ++ zeros k.
Proof.
  intros s. destruct (sgo_spec (list_ascii_of_string s)) as [k E]. exists k.
  rewrite strip_zeros_sgo, <- sola_zeros, <- sola_app, <- E, string_of_list_ascii_of_string. reflexivity.
Qed.
Lemma zeros_length : forall k, String.length (zeros k) = k.
Proof. induction k; simpl; congruence. Qed.
Lemma dnum_zeros : forall k, dnum (zeros k) = 0%Z.
Proof.
  induction k; [reflexivity|]. change (zeros (S k)) with ("0" ++ zeros k).
  rewrite dnum_app by (try reflexivity; apply zeros_digits). rewrite IHk. reflexivity.
Qed.

(* ---------- decimal fractions of at most six digits ---------- *)
Local Open Scope Q_scope.
Definition fits6 (x : Q) : bool := qis_int (x * 1000000).

Lemma floor_unique : forall x n, inject_Z n <= x -> x < inject_Z (n + 1) -> Qfloor x = n.
Proof. intros x n A B. pose proof (floor_range x n (n + 1) A B). lia. Qed.

Lemma pow10_pos : forall k, (0 < k)%nat -> Zpos (Pos.pow 10 (Pos.of_nat k)) = (10 ^ Z.of_nat k)%Z.
Proof.
  intros k H. rewrite Pos2Z.inj_pow. f_equal. rewrite <- positive_nat_Z, Nat2Pos.id by lia. reflexivity.
Qed.

Lemma frac_of_scaled : forall s k, digits_plus s = true ->
  frac_of s * inject_Z (10 ^ Z.of_nat (String.length s + k)) == inject_Z (dnum s * 10 ^ Z.of_nat k).
Proof.
  intros s k D. unfold frac_of. rewrite Qred_correct.
  assert (L : (0 < String.length s)%nat).
  { unfold digits_plus in D. apply andb_true_iff in D. destruct D as [D _]. destruct s; [discriminate|simpl; lia]. }
  unfold Qeq, Qmult, inject_Z. cbn [Qnum Qden]. rewrite Pos.mul_1_r, pow10_pos by assumption.
  rewrite Nat2Z.inj_add, Z.pow_add_r by lia. lia.
Qed.

Theorem decimal_roundtrip : forall x, 0 <= x -> fits6 x = true ->
  digits_plus (decimal_string x) = true /\
  frac_of (decimal_string x) == x - inject_Z (Qfloor x).
Proof.
  intros x X0 F. unfold fits6 in F. apply qis_int_iff in F. destruct F as [N HN].
  unfold decimal_string. rewrite (qtrunc_nonneg x X0).
  set (fr := Qred (x - qz (Qfloor x))).
  assert (FR : fr == x - inject_Z (Qfloor x)) by (unfold fr, qz; apply Qred_correct).
  destruct (frac_range x) as [F0 F1].
  set (n := (N - Qfloor x * 1000000)%Z).
  assert (FN : fr * 1000000 == inject_Z n).
  { unfold n. rewrite FR. unfold Z.sub. rewrite inject_Z_plus, inject_Z_opp, inject_Z_mult, <- HN.
    change (inject_Z 1000000) with 1000000. ring. }
  assert (RN : (0 <= n < 1000000)%Z).
  { apply (int_range (fr * 1000000) n 0 1000000 FN); change (inject_Z 0) with 0; change (inject_Z 1000000) with 1000000; lra. }
  assert (T : qleb (9999995 # 10000000) fr = false).
  { destruct (qleb (9999995 # 10000000) fr) eqn:E; [|reflexivity]. apply qleb_iff in E.
    assert (inject_Z n <= 999999) by (change 999999 with (inject_Z 999999); apply le_inj; lia). lra. }
  rewrite T.
  assert (FL : Qfloor (fr * qz 1000000 + (1 # 2)) = n).
  { apply floor_unique; unfold qz; change (inject_Z 1000000) with 1000000.
    - lra.
    - rewrite inject_Z_plus. change (inject_Z 1) with 1. lra. }
  rewrite FL.
  destruct (pad_num_w 6 n ltac:(lia) RN) as [D6 N6].
  destruct (digits_n_inv _ _ D6) as [L6 A6].
  destruct (strip_zeros_spec (pad_num 6 n)) as [k E].
  set (s' := strip_zeros (pad_num 6 n)) in *.
  assert (A' : all_digits s' = true).
  { rewrite E, all_digits_app in A6. apply andb_true_iff in A6. tauto. }
  assert (LEN : (String.length s' + k = 6)%nat) by (rewrite E, slen_app, zeros_length in L6; exact L6).
  assert (NUM : (dnum s' * 10 ^ Z.of_nat k = n)%Z).
  { rewrite <- N6, E, dnum_app by (try assumption; apply zeros_digits). rewrite zeros_length, dnum_zeros. lia. }
  destruct (String.eqb s' "") eqn:SE.
  - apply String.eqb_eq in SE. rewrite SE in NUM. change (dnum "") with 0%Z in NUM.
    split; [reflexivity|]. rewrite <- FR.
    assert (n = 0%Z) by lia. subst n. rewrite H in FN. change (inject_Z 0) with 0 in FN.
    change (frac_of "0") with 0. lra.
  - assert (DP : digits_plus s' = true) by (unfold digits_plus; rewrite SE, A'; reflexivity).
    split; [exact DP|]. rewrite <- FR.
    pose proof (frac_of_scaled s' k DP) as FS. rewrite LEN, NUM in FS.
    change (inject_Z (10 ^ Z.of_nat 6)) with 1000000 in FS. lra.
Qed.

Close Scope Q_scope.
(* ---- part P6 ---- *)
Local Open Scope Z_scope.


(* ------------------------------------------------------------------ *)
(* 3. the forms a default dump format is read back with                *)
(* ------------------------------------------------------------------ *)
Definition F_ORD_EXT : form := Eval vm_compute in pick "extended" "CCYY-DDD" DATE_FORMS_2.
Definition F_CALX_2 : form := Eval vm_compute in pick "extended" "+XCCYY-MM-DD" DATE_FORMS_2.
Definition F_ORDX_2 : form := Eval vm_compute in pick "extended" "+XCCYY-DDD" DATE_FORMS_2.
Definition F_WEEKX_2 : form := Eval vm_compute in pick "extended" "+XCCYY-Www-D" DATE_FORMS_2.
Definition F_CALX_3 : form := Eval vm_compute in pick "extended" "+XCCYY-MM-DD" DATE_FORMS_3.
Definition F_ORDX_3 : form := Eval vm_compute in pick "extended" "+XCCYY-DDD" DATE_FORMS_3.
Definition F_WEEKX_3 : form := Eval vm_compute in pick "extended" "+XCCYY-Www-D" DATE_FORMS_3.
Definition F_HMD_EXT : form := Eval vm_compute in pick "extended" "hh:mm,nn" TIME_FORMS.
Definition F_HD_EXT : form := Eval vm_compute in pick "extended" "hh,ii" TIME_FORMS.

Definition pcfg_ned (ned : Z) : Z := if ned =? 0 then 2 else ned.
Definition date_form (ned : Z) (d : date) : form :=
  match d with
  | Cal _ _ _ => if ned =? 0 then F_CAL_EXT else if ned =? 3 then F_CALX_3 else F_CALX_2
  | Ord _ _ => if ned =? 0 then F_ORD_EXT else if ned =? 3 then F_ORDX_3 else F_ORDX_2
  | Wk _ _ _ => if ned =? 0 then F_WEEK_EXT else if ned =? 3 then F_WEEKX_3 else F_WEEKX_2
  end.
Definition time_form (t : tod) : form :=
  match t with
  | HMS _ _ s => if qis_int s then F_HMS_EXT else F_HMSD_EXT
  | HM _ _ => F_HMD_EXT
  | HH _ => F_HD_EXT
  end.
Definition zone_form (z : zone) : form := if (zh z =? 0) && (zm z =? 0) then F_Z_EXT else F_ZHM_EXT.

Definition year_env (ned y : Z) : env :=
  if ned =? 0 then [("century", pad_num 2 (y / 100)); ("year_of_century", pad_num 2 (y mod 100))]
  else [("year_sign", if y <? 0 then "-" else "+");
        ("expanded_year", pad_num (Z.to_nat ned) (Z.abs y / 10000));
        ("century", pad_num 2 (Z.abs y / 100 mod 100)); ("year_of_century", pad_num 2 (Z.abs y mod 100))].
Definition date_env (ned : Z) (d : date) : env :=
  (year_env ned (date_year d) ++
   match d with
   | Cal _ m dd => [("month_of_year", pad_num 2 m); ("day_of_month", pad_num 2 dd)]
   | Ord _ doy => [("day_of_year", pad_num 3 doy)]
   | Wk _ w dd => [("week_of_year", pad_num 2 w); ("day_of_week", pad_num 1 dd)]
   end)%list.
Definition time_env (t : tod) : env :=
  match t with
  | HMS h m s => [("hour_of_day", pad_num 2 (qtrunc h)); ("minute_of_hour", pad_num 2 (qtrunc m));
                  ("second_of_minute", pad_num 2 (qtrunc s)); ("second_of_minute_decimal", decimal_string s)]
  | HM h m => [("hour_of_day", pad_num 2 (qtrunc h)); ("minute_of_hour", pad_num 2 (qtrunc m));
               ("minute_of_hour_decimal", decimal_string m)]
  | HH h => [("hour_of_day", pad_num 2 (qtrunc h)); ("hour_of_day_decimal", decimal_string h)]
  end.
Definition zone_env (z : zone) : env :=
  [("time_zone_sign", zone_sign z); ("time_zone_hour", pad_num 2 (Z.abs (zh z))); ("time_zone_minute", pad_num 2 (Z.abs (zm z)))].

(* reflection: every combination is decoded by a default parser with 2 or 3 expanded digits *)
Definition rt_date_forms (nedc : Z) : list form :=
  [F_CAL_EXT; F_ORD_EXT; F_WEEK_EXT] ++ (if nedc =? 3 then [F_CALX_3; F_ORDX_3; F_WEEKX_3] else [F_CALX_2; F_ORDX_2; F_WEEKX_2]).
Definition rt_time_forms : list form := [F_HMS_EXT; F_HMSD_EXT; F_HMD_EXT; F_HD_EXT].
Definition rt_zone_forms : list form := [F_Z_EXT; F_ZHM_EXT].
Theorem rt_triples_ok :
  forallb (fun nedc =>
    forallb (fun fd => num_keys_ok DATE_KEYS (f_parse fd) &&
      forallb (fun ft => num_keys_ok TIME_KEYS (f_parse ft) &&
        forallb (fun fz => num_keys_ok ZONE_KEYS (f_parse fz) &&
           triple_ok (date_forms_of nedc) TIME_FORMS ZONE_FORMS (default_cfg nedc) fd ft (Some fz))
          rt_zone_forms) rt_time_forms) (rt_date_forms nedc)) [2; 3] = true.
Proof. vm_compute. reflexivity. Qed.

Lemma date_form_in : forall ned d, In ned [0; 2; 3] -> In (date_form ned d) (rt_date_forms (pcfg_ned ned)).
Proof.
  intros ned d [<-|[<-|[<-|[]]]]; destruct d; cbn; auto 10.
Qed.
Lemma time_form_in : forall t, In (time_form t) rt_time_forms.
Proof. intros [h m s|h m|h]; cbn [time_form]; try destruct (qis_int s); cbn; auto. Qed.
Lemma zone_form_in : forall z, In (zone_form z) rt_zone_forms.
Proof. intros z. unfold zone_form. destruct ((zh z =? 0) && (zm z =? 0)); cbn; auto. Qed.

Lemma rt_triple : forall ned d t z, In ned [0; 2; 3] ->
  let nedc := pcfg_ned ned in
  triple_ok (date_forms_of nedc) TIME_FORMS ZONE_FORMS (default_cfg nedc) (date_form ned d) (time_form t) (Some (zone_form z)) = true /\
  num_keys_ok DATE_KEYS (f_parse (date_form ned d)) = true /\ num_keys_ok TIME_KEYS (f_parse (time_form t)) = true /\
  num_keys_ok ZONE_KEYS (f_parse (zone_form z)) = true.
Proof.
  intros ned d t z N nedc. pose proof rt_triples_ok as T. rewrite forallb_forall in T.
  assert (IC : In nedc [2; 3]) by (unfold nedc; destruct N as [<-|[<-|[<-|[]]]]; cbn; auto).
  specialize (T nedc IC). rewrite forallb_forall in T. specialize (T _ (date_form_in ned d N)).
  apply andb_true_iff in T. destruct T as [K1 T]. rewrite forallb_forall in T. specialize (T _ (time_form_in t)).
  apply andb_true_iff in T. destruct T as [K2 T]. rewrite forallb_forall in T. specialize (T _ (zone_form_in z)).
  apply andb_true_iff in T. destruct T as [K3 T]. auto.
Qed.

(* ---- part P7 ---- *)

(* ---------- the date ---------- *)
Definition year_ok (ned y : Z) : Prop :=
  if ned =? 0 then 0 <= y <= 9999 else Z.abs y < 10 ^ (4 + ned).
Definition date_ranges (d : date) : Prop :=
  match d with
  | Cal _ m dd => 0 <= m < 100 /\ m <> 0 /\ 0 <= dd < 100
  | Ord _ doy => 0 <= doy < 1000
  | Wk _ w dd => 0 <= w < 100 /\ w <> 0 /\ 0 <= dd < 10
  end.
Lemma valid_date_ranges : forall md d, valid_date md d = true -> date_ranges d.
Proof.
  intros md d V. destruct d as [y m dd|y doy|y w dd]; cbn [valid_date date_ranges] in *.
  - destruct (cal_range md y m dd V) as (A & B & _). pose proof (mlen_bounds md y m A). lia.
  - destruct (ord_range md y doy V) as (A & _). pose proof (ylen_bounds md y). lia.
  - destruct (week_range md y w dd V) as (A & B & _). destruct (weeks_in_spec md y) as [_ C]. lia.
Qed.

Ltac date_cbn := cbn [date_form date_env year_env Z.eqb Pos.eqb date_year List.app
                      F_CAL_EXT F_ORD_EXT F_WEEK_EXT F_CALX_2 F_ORDX_2 F_WEEKX_2 F_CALX_3 F_ORDX_3 F_WEEKX_3
                      wf_assign render_toks bindings f_parse f_expr fld lookup_env has_key String.eqb Ascii.eqb Bool.eqb
                      nz nq ndec option_map od negb orb andb].

Lemma year_render : forall ned y, In ned [0; 2; 3] -> year_ok ned y ->
  year_text ned y =
  if ned =? 0 then pad_num 2 (y / 100) ++ pad_num 2 (y mod 100)
  else (if y <? 0 then "-" else "+") ++ pad_num (Z.to_nat ned) (Z.abs y / 10000) ++
       pad_num 2 (Z.abs y / 100 mod 100) ++ pad_num 2 (Z.abs y mod 100).
Proof.
  intros ned y [<-|[<-|[<-|[]]]] Y; unfold year_ok in Y; cbn [Z.eqb Pos.eqb] in Y; unfold year_text; cbn [Z.eqb Pos.eqb negb].
  - apply pad_year4_split. lia.
  - f_equal. apply (pad_year_split 2); [simpl; auto|]. change (10 ^ Z.of_nat (2 + 4)) with (10 ^ (4 + 2)). lia.
  - f_equal. apply (pad_year_split 3); [simpl; auto|]. change (10 ^ Z.of_nat (3 + 4)) with (10 ^ (4 + 3)). lia.
Qed.

Lemma date_render : forall ned d, In ned [0; 2; 3] -> year_ok ned (date_year d) ->
  render_toks (f_parse (date_form ned d)) (date_env ned d) = date_text (year_text ned (date_year d)) d.
Proof.
  intros ned d N Y. rewrite (year_render ned _ N Y).
  destruct N as [<-|[<-|[<-|[]]]]; destruct d as [y m dd|y doy|y w dd]; date_cbn; cbn [date_text Z.eqb Pos.eqb];
    rewrite ?sapp_nil_r, ?sapp_assoc; reflexivity.
Qed.

(* point_num as a constructor call on functions of the two binding lists *)
Definition pn_trunc (d : env) : bool :=
  let has := fun k => has_key k d in
  has "truncated" || (negb (has "truncated") && negb (has "century") && has "year_of_century").
Definition pn_year_present (d : env) : bool :=
  let has := fun k => has_key k d in
  negb (pn_trunc d) || has "year_of_decade" || has "century" || has "year_of_century" || has "expanded_year" || has "year_sign".
Definition pn_year (d : env) : option Z :=
  if pn_year_present d then
    let y := od (nz d "year_of_decade") + od (nz d "year_of_century") + 100 * od (nz d "century") + 10000 * od (nz d "expanded_year") in
    let neg := match lookup_env "year_sign" d with Some s => String.eqb s "-" | None => false end in
    Some (if neg then - y else y)
  else None.
Definition pn_tprop (d : env) : string :=
  let has := fun k => has_key k d in
  let tprop0 := if has "truncated" then (if has "year_of_century" then "year_of_century"
                                         else if has "year_of_decade" then "year_of_decade" else "")
                else if negb (has "century") && has "year_of_century" then "year_of_century" else "" in
  if has "year_of_decade" && pn_year_present d then "year_of_decade" else tprop0.
Definition pn_ned (cfg : pcfg) (d : env) : Z :=
  match lookup_env "expanded_year" d with Some s => if String.eqb s "" then 0 else c_ned cfg | None => 0 end.
Lemma point_num_eq : forall md cfg d t zn fmt dur,
  point_num md cfg d t zn fmt dur =
  construct md (pn_year d) (nz d "month_of_year") (nz d "day_of_month") (nz d "day_of_year")
            (nz d "week_of_year") (nz d "day_of_week")
            (nq t "hour_of_day") (ndec t "hour_of_day_decimal")
            (nq t "minute_of_hour") (ndec t "minute_of_hour_decimal")
            (nq t "second_of_minute") (ndec t "second_of_minute_decimal")
            zn (pn_trunc d || has_key "truncated" t) (pn_tprop d) (pn_ned cfg d) fmt dur.
Proof. reflexivity. Qed.

Definition d_month (d : date) : option Z := match d with Cal _ m _ => Some m | _ => None end.
Definition d_dom (d : date) : option Z := match d with Cal _ _ dd => Some dd | _ => None end.
Definition d_doy (d : date) : option Z := match d with Ord _ doy => Some doy | _ => None end.
Definition d_week (d : date) : option Z := match d with Wk _ w _ => Some w | _ => None end.
Definition d_dow (d : date) : option Z := match d with Wk _ _ dd => Some dd | _ => None end.

Ltac pad_facts :=
  repeat match goal with
  | |- context [pad_num ?w ?v] =>
    lazymatch goal with
    | _ : dnum (pad_num w v) = v |- _ => fail
    | _ => let D := fresh "D" in let N := fresh "N" in
           assert (D : digits_n w (pad_num w v) = true /\ dnum (pad_num w v) = v)
             by (apply pad_num_w; [lia | change (10 ^ Z.of_nat w) with (10 ^ Z.of_nat w); cbn [Z.of_nat Pos.of_succ_nat Pos.succ]; lia]);
           destruct D as [D N]; generalize dependent (pad_num w v); intros
    end
  end.

Ltac close_vals :=
  repeat match goal with H : digits_n (S ?n) ?s = true |- _ => rewrite ?(digits_n_nonempty n s H); rewrite H; clear H end;
  repeat match goal with H : dnum _ = _ |- _ => rewrite H; clear H end;
  repeat split; try reflexivity; try (f_equal; lia).

Lemma date_vals : forall ned d, In ned [0; 2; 3] -> year_ok ned (date_year d) -> date_ranges d ->
  let de := bindings (f_parse (date_form ned d)) (date_env ned d) in
  wf_assign (f_parse (date_form ned d)) (date_env ned d) = true /\
  pn_year de = Some (date_year d) /\ pn_trunc de = false /\ pn_tprop de = "" /\
  (forall cfg, pn_ned cfg de = if ned =? 0 then 0 else c_ned cfg) /\
  nz de "month_of_year" = d_month d /\ nz de "day_of_month" = d_dom d /\ nz de "day_of_year" = d_doy d /\
  nz de "week_of_year" = d_week d /\ nz de "day_of_week" = d_dow d.
Proof.
  intros ned d N Y R de. subst de. unfold year_ok in Y.
  destruct N as [<-|[<-|[<-|[]]]]; cbn [Z.eqb Pos.eqb] in Y; change (Z.to_nat 2) with 2%nat; change (Z.to_nat 3) with 3%nat.
  - assert (Y1 : 0 <= date_year d / 100 < 100) by (split; [apply Z.div_pos; lia|apply Z.div_lt_upper_bound; lia]).
    assert (Y2 : 0 <= date_year d mod 100 < 100) by (apply Z.mod_pos_bound; lia).
    assert (YY : date_year d mod 100 + 100 * (date_year d / 100) = date_year d) by (pose proof (Z.div_mod (date_year d) 100 ltac:(lia)); lia).
    destruct d as [y m dd|y doy|y w dd]; cbn [date_ranges date_year] in *;
      unfold pn_year, pn_tprop, pn_year_present, pn_trunc, pn_ned; date_cbn; cbn [d_month d_dom d_doy d_week d_dow];
      pad_facts.
    all: close_vals.
  - assert (A0 : 0 <= Z.abs (date_year d)) by lia.
    assert (Y0 : 0 <= Z.abs (date_year d) / 10000 < 100) by (split; [apply Z.div_pos; lia|apply Z.div_lt_upper_bound; lia]).
    assert (Y1 : 0 <= Z.abs (date_year d) / 100 mod 100 < 100) by (apply Z.mod_pos_bound; lia).
    assert (Y2 : 0 <= Z.abs (date_year d) mod 100 < 100) by (apply Z.mod_pos_bound; lia).
    assert (YY : Z.abs (date_year d) mod 100 + 100 * (Z.abs (date_year d) / 100 mod 100) + 10000 * (Z.abs (date_year d) / 10000) = Z.abs (date_year d)) by lia.
    destruct d as [y m dd|y doy|y w dd]; cbn [date_ranges date_year] in *;
      unfold pn_year, pn_tprop, pn_year_present, pn_trunc, pn_ned; date_cbn; cbn [d_month d_dom d_doy d_week d_dow];
      change (Z.to_nat 2) with 2%nat; pad_facts;
      destruct (y <? 0) eqn:SG; cbn [is_sign String.eqb Ascii.eqb Bool.eqb orb andb]; close_vals.
  - assert (A0 : 0 <= Z.abs (date_year d)) by lia.
    assert (Y0 : 0 <= Z.abs (date_year d) / 10000 < 1000) by (split; [apply Z.div_pos; lia|apply Z.div_lt_upper_bound; lia]).
    assert (Y1 : 0 <= Z.abs (date_year d) / 100 mod 100 < 100) by (apply Z.mod_pos_bound; lia).
    assert (Y2 : 0 <= Z.abs (date_year d) mod 100 < 100) by (apply Z.mod_pos_bound; lia).
    assert (YY : Z.abs (date_year d) mod 100 + 100 * (Z.abs (date_year d) / 100 mod 100) + 10000 * (Z.abs (date_year d) / 10000) = Z.abs (date_year d)) by lia.
    destruct d as [y m dd|y doy|y w dd]; cbn [date_ranges date_year] in *;
      unfold pn_year, pn_tprop, pn_year_present, pn_trunc, pn_ned; date_cbn; cbn [d_month d_dom d_doy d_week d_dow];
      change (Z.to_nat 3) with 3%nat; pad_facts;
      destruct (y <? 0) eqn:SG; cbn [is_sign String.eqb Ascii.eqb Bool.eqb orb andb]; close_vals.
Qed.

(* ---- part P8 ---- *)

(* ---------- the time of day ---------- *)
Definition tod_fits6 (t : tod) : bool :=
  match t with HMS _ _ s => fits6 s | HM _ m => fits6 m | HH h => fits6 h end.
Definition tod_eq (a b : tod) : Prop :=
  match a, b with
  | HMS h m s, HMS h' m' s' => (h == h' /\ m == m' /\ s == s')%Q
  | HM h m, HM h' m' => (h == h' /\ m == m')%Q
  | HH h, HH h' => (h == h')%Q
  | _, _ => False
  end.
Definition t_hour (t : tod) : option Q := Some (qz (qtrunc (tod_hour t))).
Definition t_hdec (t : tod) : option Q := match t with HH h => Some (frac_of (decimal_string h)) | _ => None end.
Definition t_min (t : tod) : option Q := match t with HMS _ m _ | HM _ m => Some (qz (qtrunc m)) | HH _ => None end.
Definition t_mdec (t : tod) : option Q := match t with HM _ m => Some (frac_of (decimal_string m)) | _ => None end.
Definition t_sec (t : tod) : option Q := match t with HMS _ _ s => Some (qz (qtrunc s)) | _ => None end.
Definition t_sdec (t : tod) : option Q :=
  match t with HMS _ _ s => if qis_int s then None else Some (frac_of (decimal_string s)) | _ => None end.

Ltac time_cbn := cbn [time_form time_env F_HMS_EXT F_HMSD_EXT F_HMD_EXT F_HD_EXT tod_hour
                      wf_assign render_toks bindings f_parse f_expr fld lookup_env has_key String.eqb Ascii.eqb Bool.eqb
                      nz nq ndec option_map od negb orb andb].

Lemma time_render : forall t, render_toks (f_parse (time_form t)) (time_env t) = time_text t.
Proof.
  intros [h m s|h m|h]; cbn [time_form time_text]; try destruct (qis_int s); time_cbn;
    rewrite ?sapp_nil_r, ?sapp_assoc; reflexivity.
Qed.

(* what validity gives about the three fields *)
Definition tod_small (t : tod) : Prop :=
  match t with
  | HMS h m s => (0 <= h /\ h < 100 /\ 0 <= m /\ m < 100 /\ 0 <= s /\ s < 100)%Q
  | HM h m => (0 <= h /\ h < 100 /\ 0 <= m /\ m < 100)%Q
  | HH h => (0 <= h /\ h < 100)%Q
  end.
Lemma valid_tod_small : forall t, valid_tod t = true -> tod_small t.
Proof.
  intros [h m s|h m|h] V; unfold valid_tod in V; b2p V; cbn [tod_small]; unfold inject_Z in *.
  - destruct V as [_ [V|V]]; [|destruct V as [[A B] C]]; lra.
  - destruct V as [_ [V|V]]; lra.
  - lra.
Qed.
Lemma qtrunc_small : forall x, (0 <= x)%Q -> (x < 100)%Q -> 0 <= qtrunc x < 10 ^ Z.of_nat 2.
Proof.
  intros x A B. rewrite qtrunc_nonneg by assumption. change (10 ^ Z.of_nat 2) with 100.
  apply floor_range; assumption.
Qed.

Lemma time_vals : forall t, valid_tod t = true -> tod_fits6 t = true ->
  let te := bindings (f_parse (time_form t)) (time_env t) in
  wf_assign (f_parse (time_form t)) (time_env t) = true /\ has_key "truncated" te = false /\
  nq te "hour_of_day" = t_hour t /\ ndec te "hour_of_day_decimal" = t_hdec t /\
  nq te "minute_of_hour" = t_min t /\ ndec te "minute_of_hour_decimal" = t_mdec t /\
  nq te "second_of_minute" = t_sec t /\ ndec te "second_of_minute_decimal" = t_sdec t.
Proof.
  intros t V F te. subst te. pose proof (valid_tod_small t V) as S.
  destruct t as [h m s|h m|h]; cbn [tod_small tod_fits6] in *; unfold t_hour, t_hdec, t_min, t_mdec, t_sec, t_sdec.
  - destruct S as (H0 & H1 & M0 & M1 & S0 & S1).
    pose proof (qtrunc_small h H0 H1). pose proof (qtrunc_small m M0 M1). pose proof (qtrunc_small s S0 S1).
    cbn [time_form]. destruct (qis_int s) eqn:IS; time_cbn.
    + destruct (pad_num_w 2 (qtrunc h) ltac:(lia) H) as [D1 N1]. destruct (pad_num_w 2 (qtrunc m) ltac:(lia) H2) as [D2 N2].
      destruct (pad_num_w 2 (qtrunc s) ltac:(lia) H3) as [D3 N3]. rewrite D1, D2, D3, N1, N2, N3. repeat split; reflexivity.
    + destruct (pad_num_w 2 (qtrunc h) ltac:(lia) H) as [D1 N1]. destruct (pad_num_w 2 (qtrunc m) ltac:(lia) H2) as [D2 N2].
      destruct (pad_num_w 2 (qtrunc s) ltac:(lia) H3) as [D3 N3]. destruct (decimal_roundtrip s S0 F) as [DP _].
      rewrite D1, D2, D3, N1, N2, N3, DP. repeat split; reflexivity.
  - destruct S as (H0 & H1 & M0 & M1).
    pose proof (qtrunc_small h H0 H1). pose proof (qtrunc_small m M0 M1). time_cbn.
    destruct (pad_num_w 2 (qtrunc h) ltac:(lia) H) as [D1 N1]. destruct (pad_num_w 2 (qtrunc m) ltac:(lia) H2) as [D2 N2].
    destruct (decimal_roundtrip m M0 F) as [DP _]. rewrite D1, D2, N1, N2, DP. repeat split; reflexivity.
  - destruct S as (H0 & H1). pose proof (qtrunc_small h H0 H1). time_cbn.
    destruct (pad_num_w 2 (qtrunc h) ltac:(lia) H) as [D1 N1]. destruct (decimal_roundtrip h H0 F) as [DP _].
    rewrite D1, N1, DP. repeat split; reflexivity.
Qed.

Lemma in_rngq_true : forall x lo hi, (inject_Z lo <= x)%Q -> (x <= inject_Z hi)%Q -> in_rngq (Some x) lo hi = true.
Proof. intros. unfold in_rngq, qz. apply andb_true_iff. split; apply qleb_iff; assumption. Qed.
Lemma below_q_true : forall x lo hi, (inject_Z lo <= x)%Q -> (x < inject_Z hi)%Q -> below_q (Some x) lo hi = true.
Proof. intros. unfold below_q, qz. apply andb_true_iff. split; [apply qleb_iff|apply qltb_iff]; assumption. Qed.

Definition tod_h (t : tod) : option Q := Some (tod_hour t).
Definition tod_m (t : tod) : option Q := match t with HMS _ m _ | HM _ m => Some m | HH _ => None end.
Definition tod_s (t : tod) : option Q := match t with HMS _ _ s => Some s | _ => None end.

Lemma tod_fields_ok_valid : forall t t', valid_tod t = true -> tod_eq t' t ->
  tod_fields_ok (tod_h t') (tod_m t') (tod_s t') = true.
Proof.
  intros t t' V E. unfold tod_fields_ok.
  destruct t as [h m s|h m|h]; destruct t' as [h' m' s'|h' m'|h']; cbn [tod_eq] in E; try contradiction;
    unfold tod_h, tod_m, tod_s; cbn [tod_hour]; unfold valid_tod in V; b2p V; unfold inject_Z in *.
  - destruct E as (Eh & Em & Es). destruct V as [_ V].
    rewrite in_rngq_true by (unfold inject_Z; destruct V as [[[A B] C]|[[A B] C]]; lra). cbn [andb].
    destruct (qeqb h' 24) eqn:Q24.
    + apply qeqb_iff in Q24. destruct V as [[[A B] C]|[[A B] C]]; [lra|].
      rewrite !in_rngq_true by (unfold inject_Z; lra). reflexivity.
    + apply qeqb_false in Q24. destruct V as [[[A B] C]|[[A B] C]]; [|exfalso; apply Q24; lra].
      rewrite !below_q_true by (unfold inject_Z; lra). reflexivity.
  - destruct E as (Eh & Em). destruct V as [_ V].
    rewrite in_rngq_true by (unfold inject_Z; destruct V as [[A B]|[A B]]; lra). cbn [andb].
    destruct (qeqb h' 24) eqn:Q24.
    + apply qeqb_iff in Q24. destruct V as [[A B]|[A B]]; [lra|].
      rewrite !in_rngq_true by (unfold inject_Z; lra). reflexivity.
    + apply qeqb_false in Q24. destruct V as [[A B]|[A B]]; [|exfalso; apply Q24; lra].
      rewrite !below_q_true by (unfold inject_Z; lra). reflexivity.
  - rewrite in_rngq_true by (unfold inject_Z; lra). cbn [andb in_rngq below_q]. destruct (qeqb h' 24); reflexivity.
Qed.

Lemma qz_trunc_int : forall x, qis_int x = true -> (qz (qtrunc x) == x)%Q.
Proof.
  intros x H. apply qis_int_iff in H. destruct H as [z H]. unfold qz, qtrunc. destruct (Qle_bool 0 x).
  - rewrite (Qfloor_comp _ _ H), Qfloor_Z. symmetry; exact H.
  - rewrite (Qceiling_comp _ _ H), Qceiling_Z. symmetry; exact H.
Qed.

Lemma frac_ok : forall x, (0 <= x)%Q -> fits6 x = true ->
  qleb 0 (frac_of (decimal_string x)) && qltb (frac_of (decimal_string x)) 1 = true /\
  (qadd (qz (qtrunc x)) (frac_of (decimal_string x)) == x)%Q.
Proof.
  intros x X F. destruct (decimal_roundtrip x X F) as [_ E]. destruct (frac_range x) as [A B].
  split.
  - apply andb_true_iff. split; [apply qleb_iff|apply qltb_iff]; lra.
  - unfold qadd. rewrite Qred_correct, (qtrunc_nonneg x X). unfold qz. lra.
Qed.

(* the decimal and default stages of the constructor give back the time of day *)
Theorem time_stage : forall t, valid_tod t = true -> tod_fits6 t = true ->
  exists h1 m1 s1 t',
    dec_h (t_hour t) (t_hdec t) (t_min t) (t_sec t) = POk h1 /\
    dec_m (t_min t) (t_mdec t) (t_sec t) = POk m1 /\
    dec_s (t_sec t) (t_sdec t) = POk s1 /\
    dfl_h h1 = tod_h t' /\ dfl_m (t_hdec t) m1 = tod_m t' /\ dfl_s (t_hdec t) (t_mdec t) s1 = tod_s t' /\
    tod_eq t' t.
Proof.
  intros t V F. pose proof (valid_tod_small t V) as S.
  destruct t as [h m s|h m|h]; cbn [tod_small tod_fits6] in *; unfold t_hour, t_hdec, t_min, t_mdec, t_sec, t_sdec; cbn [tod_hour].
  - destruct S as (H0 & H1 & M0 & M1 & S0 & S1).
    assert (Ih : qis_int h = true /\ qis_int m = true).
    { unfold valid_tod in V. apply andb_true_iff in V. destruct V as [V _]. apply andb_true_iff in V. exact V. }
    destruct Ih as [Ih Im].
    destruct (qis_int s) eqn:IS.
    + exists (Some (qz (qtrunc h))), (Some (qz (qtrunc m))), (Some (qz (qtrunc s))),
             (HMS (qz (qtrunc h)) (qz (qtrunc m)) (qz (qtrunc s))).
      repeat split; try reflexivity; apply qz_trunc_int; assumption.
    + destruct (frac_ok s S0 F) as [FR FE].
      exists (Some (qz (qtrunc h))), (Some (qz (qtrunc m))), (Some (qadd (qz (qtrunc s)) (frac_of (decimal_string s)))),
             (HMS (qz (qtrunc h)) (qz (qtrunc m)) (qadd (qz (qtrunc s)) (frac_of (decimal_string s)))).
      cbn [dec_h dec_m dec_s]. rewrite FR. cbn [negb].
      repeat split; try reflexivity; try (apply qz_trunc_int; assumption). exact FE.
  - destruct S as (H0 & H1 & M0 & M1).
    assert (Ih : qis_int h = true).
    { unfold valid_tod in V. apply andb_true_iff in V. destruct V as [V _]. exact V. }
    destruct (frac_ok m M0 F) as [FR FE].
    exists (Some (qz (qtrunc h))), (Some (qadd (qz (qtrunc m)) (frac_of (decimal_string m)))), None,
           (HM (qz (qtrunc h)) (qadd (qz (qtrunc m)) (frac_of (decimal_string m)))).
    cbn [dec_h dec_m dec_s]. rewrite FR. cbn [negb].
    repeat split; try reflexivity; try (apply qz_trunc_int; assumption). exact FE.
  - destruct S as (H0 & H1). destruct (frac_ok h H0 F) as [FR FE].
    exists (Some (qadd (qz (qtrunc h)) (frac_of (decimal_string h)))), None, None,
           (HH (qadd (qz (qtrunc h)) (frac_of (decimal_string h)))).
    cbn [dec_h dec_m dec_s]. rewrite FR. cbn [negb].
    repeat split; try reflexivity. exact FE.
Qed.

(* ---- part P9 ---- *)

(* ---------- the zone ---------- *)
Ltac zone_cbn := cbn [F_Z_EXT F_ZHM_EXT zone_env zo_text zo_bind zo_wf
                      wf_assign render_toks bindings f_parse f_expr fld lookup_env has_key String.eqb Ascii.eqb Bool.eqb
                      nz nq ndec option_map od negb orb andb].
Lemma zone_render : forall z, zo_text (Some (zone_form z)) (zone_env z) = zone_text z.
Proof.
  intros z. unfold zone_form, zone_text. destruct ((zh z =? 0) && (zm z =? 0)); zone_cbn;
    rewrite ?sapp_nil_r, ?sapp_assoc; reflexivity.
Qed.
Lemma zone_sign_is : forall z, is_sign (zone_sign z) = true.
Proof. intros z. unfold zone_sign. destruct ((zh z <? 0) || (zm z <? 0)); reflexivity. Qed.
Lemma zone_vals : forall cfg z, valid_zone z = true ->
  zo_wf (Some (zone_form z)) (zone_env z) = true /\
  zone_num cfg (zo_bind (Some (zone_form z)) (zone_env z)) = POk (Some (zh z, Some (zm z))).
Proof.
  intros cfg z V. unfold zone_form. destruct ((zh z =? 0) && (zm z =? 0)) eqn:E.
  - apply zone_utc_inv in E. subst z. split; reflexivity.
  - unfold valid_zone in V.
    assert (RH : 0 <= Z.abs (zh z) < 10 ^ Z.of_nat 2) by (change (10 ^ Z.of_nat 2) with 100; lia).
    assert (RM : 0 <= Z.abs (zm z) < 10 ^ Z.of_nat 2) by (change (10 ^ Z.of_nat 2) with 100; lia).
    destruct (pad_num_w 2 _ ltac:(lia) RH) as [D1 N1]. destruct (pad_num_w 2 _ ltac:(lia) RM) as [D2 N2].
    unfold zone_num. zone_cbn. rewrite zone_sign_is, D1, D2, N1, N2. split; [reflexivity|].
    unfold zone_sign. destruct ((zh z <? 0) || (zm z <? 0)) eqn:S; cbn [String.eqb Ascii.eqb Bool.eqb].
    + assert (E1 : - Z.abs (zh z) = zh z) by (destruct (0 <? zh z) eqn:P; destruct (zh z <? 0) eqn:Q; lia).
      assert (E2 : - Z.abs (zm z) = zm z) by (destruct (0 <? zh z) eqn:P; destruct (zh z <? 0) eqn:Q; lia).
      rewrite E1, E2. reflexivity.
    + assert (E1 : Z.abs (zh z) = zh z) by lia. assert (E2 : Z.abs (zm z) = zm z) by lia.
      rewrite E1, E2. reflexivity.
Qed.
Lemma zone_stage_val : forall z, valid_zone z = true -> zone_stage (Some (zh z, Some (zm z))) = POk (Some z).
Proof.
  intros [a b] V. unfold valid_zone in V. cbn [zh zm] in *. unfold zone_stage. cbv zeta.
  assert (A : negb ((-99 <=? a) && (a <=? 99)) = false) by lia. rewrite A.
  assert (B : negb (((if 0 <? a then 0 else -59) <=? b) && (b <=? (if a <? 0 then 0 else 59))) = false).
  { destruct (0 <? a) eqn:P; destruct (a <? 0) eqn:Q; lia. }
  rewrite B. reflexivity.
Qed.

(* ---------- the date stage of the constructor ---------- *)
Lemma date_stage : forall md d, valid_date md d = true ->
  conflict (d_month d) (d_dom d) (d_doy d) (d_week d) (d_dow d) = false /\
  date_dfl (d_month d) (d_dom d) (d_doy d) (d_week d) (d_dow d) = (d_month d, d_dom d, d_week d, d_dow d) /\
  date_chk md (date_year d) (d_month d) (d_dom d) (d_doy d) (d_week d) (d_dow d) = true /\
  ptp_date (date_year d) (d_month d) (d_dom d) (d_doy d) (d_week d) (d_dow d) = Some d.
Proof.
  intros md d V. pose proof (valid_date_ranges md d V) as R.
  destruct d as [y m dd|y doy|y w dd]; cbn [d_month d_dom d_doy d_week d_dow date_ranges date_year valid_date] in *;
    unfold conflict, date_dfl; cbn [truthy is_some].
  - assert (M : negb (m =? 0) = true) by lia. rewrite M. cbn [orb andb negb].
    rewrite date_chk_cal. auto.
  - cbn [orb andb negb]. rewrite date_chk_ord. auto.
  - assert (M : negb (w =? 0) = true) by lia. rewrite M. cbn [orb andb negb].
    rewrite date_chk_week. auto.
Qed.
Lemma ptp_tod_fields : forall t, ptp_tod (tod_hour t) (tod_m t) (tod_s t) = Some t.
Proof. intros [h m s|h m|h]; reflexivity. Qed.

(* ------------------------------------------------------------------ *)
(* 4. writing out and reading back                                     *)
(* ------------------------------------------------------------------ *)
Definition same_point (q p : tp) : Prop :=
  tdate q = tdate p /\ tod_eq (ttod q) (ttod p) /\ tzone q = tzone p.

Theorem parse_str_text : forall md ned p, In ned [0; 2; 3] ->
  valid_tp md p = true -> year_ok ned (date_year (tdate p)) -> tod_fits6 (ttod p) = true ->
  exists t', tod_eq t' (ttod p) /\
    parse_text md (default_cfg (pcfg_ned ned)) (str_text ned p) false =
    POk (mkPtp (Some (date_year (tdate p))) (d_month (tdate p)) (d_dom (tdate p)) (d_doy (tdate p))
               (d_week (tdate p)) (d_dow (tdate p)) (tod_h t') (tod_m t') (tod_s t') (Some (tzone p))
               false "" ned "").
Proof.
  intros md ned [d t z] N V Y F. cbn [tdate ttod tzone] in *.
  destruct (valid_tp_parts md _ V) as (Vd & Vt & Vz). cbn [tdate ttod tzone] in *.
  pose proof (valid_date_ranges md d Vd) as R.
  destruct (rt_triple ned d t z N) as (OK & K1 & K2 & K3). cbv zeta in OK.
  destruct (date_vals ned d N Y R) as (Wd & PY & PT & PP & PN & Mo & Do & Oy & Wk & Dw).
  destruct (time_vals t Vt F) as (Wt & HT & TH & THD & TM & TMD & TS & TSD).
  destruct (zone_vals (default_cfg (pcfg_ned ned)) z Vz) as (Wz & ZN).
  destruct (time_stage t Vt F) as (h1 & m1 & s1 & t' & Hh & Hm & Hs & Dh & Dm & Ds & TE).
  exists t'. split; [exact TE|].
  unfold str_text. cbn [tdate ttod tzone].
  rewrite <- (date_render ned d N Y), <- (time_render t), <- (zone_render z).
  assert (CN : c_ned (default_cfg (pcfg_ned ned)) = pcfg_ned ned) by reflexivity.
  rewrite <- CN in OK at 1.
  rewrite (parse_text_num md (default_cfg (pcfg_ned ned)) _ _ _ _ _ _ false OK K1 K2 K3 Wd Wt Wz).
  rewrite ZN. cbn [pbind]. rewrite point_num_eq.
  rewrite PY, PT, PP, PN, Mo, Do, Oy, Wk, Dw, HT, TH, THD, TM, TMD, TS, TSD. cbn [orb].
  rewrite construct_eq, Hh, Hm, Hs. cbn [pbind]. unfold tail.
  rewrite (zone_stage_val z Vz).
  destruct (date_stage md d Vd) as (CF & DF & DC & _). rewrite CF, DF.
  rewrite check_bounds_eq, DC, Dh, Dm, Ds, (tod_fields_ok_valid t t' Vt TE). cbn [andb].
  do 2 f_equal. unfold pcfg_ned. destruct N as [<-|[<-|[<-|[]]]]; reflexivity.
Qed.

Lemma year_ok_nonneg : forall ned y, year_ok ned y -> ned = 0 -> 0 <= y.
Proof. intros ned y Y E. unfold year_ok in Y. rewrite E in Y. cbn [Z.eqb] in Y. lia. Qed.

Theorem roundtrip : forall md ned p, In ned [0; 2; 3] ->
  valid_tp md p = true -> year_ok ned (date_year (tdate p)) -> tod_fits6 (ttod p) = true ->
  exists p' q,
    do_str md ned p = DOk (str_text ned p) /\
    parse_text md (default_cfg (pcfg_ned ned)) (str_text ned p) false = POk p' /\
    ptp_to_tp p' = Some q /\ same_point q p /\ p_ned p' = ned /\ p_trunc p' = false.
Proof.
  intros md ned p N V Y F. destruct (parse_str_text md ned p N V Y F) as (t' & TE & P).
  eexists. exists (mkTp (tdate p) t' (tzone p)).
  split; [apply str_shape; apply year_ok_nonneg; exact Y|]. split; [exact P|].
  split.
  - rewrite ptp_to_tp_eq. cbn [p_trunc p_year p_hour p_zone p_month p_dom p_doy p_week p_dow p_min p_sec]. unfold tod_h.
    destruct (valid_tp_parts md p V) as (Vd & _ & _). destruct (date_stage md (tdate p) Vd) as (_ & _ & _ & PD).
    rewrite PD, ptp_tod_fields. reflexivity.
  - split; [|split; reflexivity]. unfold same_point. cbn [tdate ttod tzone]. auto.
Qed.

(* ---------- str is a fixpoint ---------- *)
Lemma qtrunc_comp : forall a b, (a == b)%Q -> qtrunc a = qtrunc b.
Proof.
  intros a b E. unfold qtrunc.
  assert (L : Qle_bool 0 a = Qle_bool 0 b).
  { destruct (Qle_bool 0 a) eqn:A; destruct (Qle_bool 0 b) eqn:B; try reflexivity.
    - apply Qle_bool_iff in A. rewrite E in A. apply Qle_bool_iff in A. congruence.
    - apply Qle_bool_iff in B. rewrite <- E in B. apply Qle_bool_iff in B. congruence. }
  rewrite L. destruct (Qle_bool 0 b); [apply Qfloor_comp|apply Qceiling_comp]; exact E.
Qed.
Lemma qis_int_comp : forall a b, (a == b)%Q -> qis_int a = qis_int b.
Proof.
  intros a b E. destruct (qis_int a) eqn:A; destruct (qis_int b) eqn:B; try reflexivity.
  - apply qis_int_iff in A. apply (isint_eq a b E) in A. apply qis_int_iff in A. congruence.
  - apply qis_int_iff in B. symmetry in E. apply (isint_eq b a E) in B. apply qis_int_iff in B. congruence.
Qed.
Lemma decimal_string_comp : forall a b, (a == b)%Q -> decimal_string a = decimal_string b.
Proof.
  intros a b E. unfold decimal_string. rewrite (qtrunc_comp a b E).
  assert (R : Qred (a - qz (qtrunc b)) = Qred (b - qz (qtrunc b))) by (apply Qred_complete; rewrite E; reflexivity).
  rewrite R. reflexivity.
Qed.
Lemma time_text_comp : forall a b, tod_eq a b -> time_text a = time_text b.
Proof.
  intros [h m s|h m|h] [h' m' s'|h' m'|h'] E; cbn [tod_eq] in E; try contradiction; cbn [time_text].
  - destruct E as (Eh & Em & Es).
    rewrite (qtrunc_comp _ _ Eh), (qtrunc_comp _ _ Em), (qtrunc_comp _ _ Es), (qis_int_comp _ _ Es), (decimal_string_comp _ _ Es).
    reflexivity.
  - destruct E as (Eh & Em). rewrite (qtrunc_comp _ _ Eh), (qtrunc_comp _ _ Em), (decimal_string_comp _ _ Em). reflexivity.
  - rewrite (qtrunc_comp _ _ E), (decimal_string_comp _ _ E). reflexivity.
Qed.
Lemma str_text_comp : forall ned q p, same_point q p -> str_text ned q = str_text ned p.
Proof.
  intros ned q p (Ed & Et & Ez). unfold str_text. rewrite Ed, Ez, (time_text_comp _ _ Et). reflexivity.
Qed.

Theorem str_fixpoint : forall md ned p, In ned [0; 2; 3] ->
  valid_tp md p = true -> year_ok ned (date_year (tdate p)) -> tod_fits6 (ttod p) = true ->
  exists s p' q,
    do_str md ned p = DOk s /\
    parse_text md (default_cfg (pcfg_ned ned)) s false = POk p' /\ ptp_to_tp p' = Some q /\
    do_str md (p_ned p') q = DOk s.
Proof.
  intros md ned p N V Y F. destruct (roundtrip md ned p N V Y F) as (p' & q & S & P & Q & SP & NE & _).
  exists (str_text ned p), p', q. repeat split; try assumption.
  rewrite NE, <- (str_text_comp ned q p SP). apply str_shape.
  destruct SP as (Ed & _). rewrite Ed. apply year_ok_nonneg. exact Y.
Qed.

(* ---------- 24:00:00 ---------- *)
Theorem roundtrip_24 : forall md ned d z, In ned [0; 2; 3] ->
  valid_date md d = true -> valid_zone z = true -> year_ok ned (date_year d) ->
  let p := mkTp d (HMS 24 0 0) z in
  exists p' q,
    do_str md ned p = DOk (date_text (year_text ned (date_year d)) d ++ "T24:00:00" ++ zone_text z) /\
    parse_text md (default_cfg (pcfg_ned ned)) (date_text (year_text ned (date_year d)) d ++ "T24:00:00" ++ zone_text z) false = POk p' /\
    ptp_to_tp p' = Some q /\ same_point q p.
Proof.
  intros md ned d z N Vd Vz Y p.
  assert (V : valid_tp md p = true).
  { unfold valid_tp, p. cbn [tdate ttod tzone]. rewrite Vd, Vz. reflexivity. }
  destruct (roundtrip md ned p N V Y eq_refl) as (p' & q & S & P & Q & SP & _).
  exists p', q. change (str_text ned p) with (date_text (year_text ned (date_year d)) d ++ "T" ++ "24:00:00" ++ zone_text z) in *.
  auto.
Qed.

(* ---- part P10 (custom formats) ---- *)
(* ------------------------------------------------------------------ *)
(* 5. custom formats: complete date "T" time to the second "Z"         *)
(* ------------------------------------------------------------------ *)
Definition F_HMS_BASIC : form := Eval vm_compute in pick "basic" "hhmmss" TIME_FORMS.
Definition cdate_expr (ext xp : bool) (k : Z) : string :=
  (if xp then "+XCCYY" else "CCYY") ++
  (if ext then (if k =? 0 then "-MM-DD" else if k =? 1 then "-DDD" else "-Www-D")
   else (if k =? 0 then "MMDD" else if k =? 1 then "DDD" else "WwwD")).
Definition CF (nedc : Z) (ext xp : bool) (k : Z) : form :=
  pick (if ext then "extended" else "basic") (cdate_expr ext xp k) (date_forms_of nedc).
Definition CT (ext : bool) : form := if ext then F_HMS_EXT else F_HMS_BASIC.
Definition cust_fmt (ext xp : bool) (k : Z) : string := cdate_expr ext xp k ++ "T" ++ f_expr (CT ext) ++ "Z".

Definition dtoks_eqb (a b : list dtok) : bool := if list_eq_dec dtok_eq_dec a b then true else false.
Definition strs_eqb (a b : list string) : bool := if list_eq_dec string_dec a b then true else false.
Definition cust_case_ok (c : Z * bool * bool * Z) : bool :=
  let '(ned, ext, xp, k) := c in
  let nedc := pcfg_ned ned in let fd := CF nedc ext xp k in let ft := CT ext in
  let props := (f_props fd ++ f_props ft)%list in
  negb (contains_char "%" (cust_fmt ext xp k)) &&
  match expression_of (date_forms_of ned) TIME_FORMS ZONE_FORMS zone_of_text (cust_fmt ext xp k) with
  | inl (Some (tmpl, props', Some (0, 0))) =>
    dtoks_eqb tmpl (f_dump fd ++ [DLit "T"] ++ f_dump ft ++ [DLit "Z"]) && strs_eqb props' props
  | _ => false end &&
  Bool.eqb (mem "week_of_year" props || mem "day_of_week" props) (k =? 2) &&
  Bool.eqb (mem "month_of_year" props || mem "day_of_month" props || mem "day_of_year" props) (negb (k =? 2)) &&
  mem "century" props && Bool.eqb (mem "expanded_year_digits" props) xp &&
  triple_ok (date_forms_of nedc) TIME_FORMS ZONE_FORMS (default_cfg nedc) fd ft (Some F_Z_EXT) &&
  num_keys_ok DATE_KEYS (f_parse fd) && num_keys_ok TIME_KEYS (f_parse ft).
Definition cust_cases : list (Z * bool * bool * Z) :=
  flat_map (fun ned => flat_map (fun ext => flat_map (fun xp => map (fun k => (ned, ext, xp, k)) [0; 1; 2])
     (if ned =? 0 then [false] else [false; true])) [false; true]) [0; 2; 3].
Theorem cust_tables : forallb cust_case_ok cust_cases = true.
Proof. vm_compute. reflexivity. Qed.

Lemma dtoks_eqb_eq : forall a b, dtoks_eqb a b = true -> a = b.
Proof. unfold dtoks_eqb. intros a b H. destruct (list_eq_dec dtok_eq_dec a b); [assumption|discriminate]. Qed.
Lemma strs_eqb_eq : forall a b, strs_eqb a b = true -> a = b.
Proof. unfold strs_eqb. intros a b H. destruct (list_eq_dec string_dec a b); [assumption|discriminate]. Qed.

(* date conversions keep the day *)
Lemma to_week_date_ok : forall md d0, valid_date md d0 = true ->
  exists d', to_week_date md d0 = Some d' /\ valid_date md d' = true /\ date_dn md d' = date_dn md d0 /\ rep_kind d' = 2.
Proof.
  intros md d0 V. unfold to_week_date.
  assert (H : exists wy w wd, get_week_date md d0 = Some (wy, w, wd) /\ valid_week md wy w wd = true /\
                              dn_week md wy w wd = date_dn md d0).
  { destruct d0 as [y m d | y doy | y w d]; cbn [valid_date get_week_date date_dn] in *.
    - apply week_from_cal_spec; exact V.
    - apply week_from_ord_spec; exact V.
    - exists y, w, d. auto. }
  destruct H as (wy & w & wd & -> & Vw & Dw). exists (Wk wy w wd). auto.
Qed.
Lemma to_calendar_date_ok : forall md d0, valid_date md d0 = true ->
  exists d', to_calendar_date md d0 = Some d' /\ valid_date md d' = true /\ date_dn md d' = date_dn md d0 /\ rep_kind d' = 0.
Proof.
  intros md d0 V. unfold to_calendar_date.
  destruct (get_calendar_date_spec md d0 V) as (y & m & d & -> & Vc & Dc). exists (Cal y m d). auto.
Qed.

Lemma instant_with_date : forall md p d, date_dn md d = date_dn md (tdate p) ->
  (instant md (with_date p d) == instant md p)%Q.
Proof. intros md p d E. unfold instant, with_date. cbn [tdate ttod tzone]. rewrite E. reflexivity. Qed.

(* the date the template's fields are those of *)
Definition tgt_rel (md : mode) (k : Z) (d d' : date) : Prop :=
  match d' with
  | Cal y m dd => k = 0 /\ get_calendar_date md d = Some (y, m, dd)
  | Ord y doy => k = 1 /\ get_ordinal_date md d = Some (y, doy)
  | Wk y w dd => k = 2 /\ get_week_date md d = Some (y, w, dd)
  end.
Lemma tgt_spec : forall md k d, valid_date md d = true -> In k [0; 1; 2] ->
  (if k =? 2 then rep_kind d = 2 else rep_kind d <> 2) ->
  exists d', tgt_rel md k d d' /\ valid_date md d' = true /\ date_dn md d' = date_dn md d /\ date_year d' = date_year d.
Proof.
  intros md k d V K R. destruct K as [<-|[<-|[<-|[]]]]; cbn [Z.eqb Pos.eqb] in R.
  - destruct d as [y m dd|y doy|y w dd]; cbn [rep_kind] in R; try lia.
    + exists (Cal y m dd). cbn. auto.
    + cbn [valid_date] in V. destruct (proj1 (cal_from_ord_spec md y doy) V) as (m & dd & E & Vc & Dc).
      exists (Cal y m dd). cbn [tgt_rel get_calendar_date valid_date date_dn date_year]. auto.
  - destruct d as [y m dd|y doy|y w dd]; cbn [rep_kind] in R; try lia.
    + cbn [valid_date] in V. destruct (proj1 (ord_from_cal_spec md y m dd) V) as (doy & E & Vo & Do).
      exists (Ord y doy). cbn [tgt_rel get_ordinal_date valid_date date_dn date_year]. auto.
    + exists (Ord y doy). cbn. auto.
  - destruct d as [y m dd|y doy|y w dd]; cbn [rep_kind] in R; try lia.
    exists (Wk y w dd). cbn. auto.
Qed.

Lemma pv_century : forall md d t z, prop_value md (mkTp d t z) "century" = VInt ((Z.abs (date_year d) mod 10000) / 100).
Proof. intros. destruct t; reflexivity. Qed.
Lemma pv_yoc : forall md d t z, prop_value md (mkTp d t z) "year_of_century" = VInt (Z.abs (date_year d) mod 100).
Proof. intros. destruct t; reflexivity. Qed.
Lemma pv_xyd : forall md d t z, prop_value md (mkTp d t z) "expanded_year_digits" = VInt (Z.abs (date_year d) / 10000).
Proof. intros. destruct t; reflexivity. Qed.
Lemma pv_ysign : forall md d t z, prop_value md (mkTp d t z) "year_sign" = VStr (if 0 <=? date_year d then "+" else "-").
Proof. intros. destruct t; reflexivity. Qed.
Lemma pv_moy : forall md d t z, prop_value md (mkTp d t z) "month_of_year" =
  match get_calendar_date md d with Some (_, m, _) => VInt m | None => VNone end.
Proof. intros. destruct t; reflexivity. Qed.
Lemma pv_dom : forall md d t z, prop_value md (mkTp d t z) "day_of_month" =
  match get_calendar_date md d with Some (_, _, dd) => VInt dd | None => VNone end.
Proof. intros. destruct t; reflexivity. Qed.
Lemma pv_doy : forall md d t z, prop_value md (mkTp d t z) "day_of_year" =
  match get_ordinal_date md d with Some (_, dd) => VInt dd | None => VNone end.
Proof. intros. destruct t; reflexivity. Qed.
Lemma pv_woy : forall md d t z, prop_value md (mkTp d t z) "week_of_year" =
  match get_week_date md d with Some (_, w, _) => VInt w | None => VNone end.
Proof. intros. destruct t; reflexivity. Qed.
Lemma pv_dow : forall md d t z, prop_value md (mkTp d t z) "day_of_week" =
  match get_week_date md d with Some (_, _, dd) => VInt dd | None => VNone end.
Proof. intros. destruct t; reflexivity. Qed.

Ltac eval_cf :=
  repeat match goal with
  | |- context [CF ?a ?b ?c ?d] => let f := eval vm_compute in (CF a b c d) in change (CF a b c d) with f
  end.
Ltac in_cases H :=
  repeat (destruct H as [H|H]; [inversion H; subst; clear H|]); try contradiction.

Lemma render_cdate : forall md ned ext xp k d d' t z, In (ned, ext, xp, k) cust_cases ->
  tgt_rel md k d d' -> date_year d' = date_year d -> year_ok (if xp then ned else 0) (date_year d) ->
  render md (mkTp d t z) (f_dump (CF (pcfg_ned ned) ext xp k)) =
  Some (render_toks (f_parse (CF (pcfg_ned ned) ext xp k)) (date_env (if xp then ned else 0) d')).
Proof.
  intros md ned ext xp k d d' t z C T Y YO.
  assert (A1 : forall y, 0 <= y <= 9999 -> (Z.abs y mod 10000) / 100 = y / 100) by (intros; lia).
  assert (A2 : forall y, 0 <= y <= 9999 -> Z.abs y mod 100 = y mod 100) by (intros; lia).
  assert (A3 : forall y, (Z.abs y mod 10000) / 100 = Z.abs y / 100 mod 100) by (intros; lia).
  assert (A4 : forall y, (if 0 <=? y then "+" else "-") = (if y <? 0 then "-" else "+")).
  { intros y. destruct (0 <=? y) eqn:P; destruct (y <? 0) eqn:Q; try reflexivity; lia. }
  unfold cust_cases in C. cbn in C. in_cases C; unfold year_ok in YO; cbn [Z.eqb Pos.eqb] in YO;
    change (pcfg_ned 0) with 2; change (pcfg_ned 2) with 2; change (pcfg_ned 3) with 3; eval_cf;
    destruct d' as [y' m' dd'|y' doy'|y' w' dd']; cbn [tgt_rel date_year] in T, Y; destruct T as [T0 T]; try discriminate T0;
    cbn [f_dump f_parse render]; rewrite ?pv_century, ?pv_yoc, ?pv_xyd, ?pv_ysign, ?pv_moy, ?pv_dom, ?pv_doy, ?pv_woy, ?pv_dow, ?T;
    date_cbn; rewrite Y; change (Z.to_nat 2) with 2%nat; change (Z.to_nat 3) with 3%nat;
    rewrite ?A1, ?A2 by exact YO; rewrite ?A4, ?A3; rewrite ?sapp_nil_r, ?sapp_assoc; reflexivity.
Qed.

Lemma cdate_vals : forall ned ext xp k d', In (ned, ext, xp, k) cust_cases -> rep_kind d' = k ->
  year_ok (if xp then ned else 0) (date_year d') -> date_ranges d' ->
  let fd := CF (pcfg_ned ned) ext xp k in
  let de := bindings (f_parse fd) (date_env (if xp then ned else 0) d') in
  wf_assign (f_parse fd) (date_env (if xp then ned else 0) d') = true /\
  pn_year de = Some (date_year d') /\ pn_trunc de = false /\ pn_tprop de = "" /\
  nz de "month_of_year" = d_month d' /\ nz de "day_of_month" = d_dom d' /\ nz de "day_of_year" = d_doy d' /\
  nz de "week_of_year" = d_week d' /\ nz de "day_of_week" = d_dow d'.
Proof.
  intros ned ext xp k d' C K Y R fd de. subst fd de. unfold year_ok in Y.
  unfold cust_cases in C. cbn in C. revert K Y.
  in_cases C; intros K Y; cbn [Z.eqb Pos.eqb] in Y;
    change (pcfg_ned 0) with 2; change (pcfg_ned 2) with 2; change (pcfg_ned 3) with 3; eval_cf;
    destruct d' as [y m dd|y doy|y w dd]; cbn [rep_kind] in K; try discriminate K; cbn [date_ranges date_year] in *;
    (assert (A0 : 0 <= Z.abs y) by lia);
    (assert (Y0 : Z.abs y < 10 ^ 6 -> 0 <= Z.abs y / 10000 < 100) by (intros; split; [apply Z.div_pos; lia|apply Z.div_lt_upper_bound; lia]));
    (assert (Y0' : Z.abs y < 10 ^ 7 -> 0 <= Z.abs y / 10000 < 1000) by (intros; split; [apply Z.div_pos; lia|apply Z.div_lt_upper_bound; lia]));
    (assert (Y1 : 0 <= Z.abs y / 100 mod 100 < 100) by (apply Z.mod_pos_bound; lia));
    (assert (Y2 : 0 <= Z.abs y mod 100 < 100) by (apply Z.mod_pos_bound; lia));
    (assert (Y3 : 0 <= y <= 9999 -> 0 <= y / 100 < 100) by (intros; split; [apply Z.div_pos; lia|apply Z.div_lt_upper_bound; lia]));
    (assert (Y4 : 0 <= y mod 100 < 100) by (apply Z.mod_pos_bound; lia));
    (assert (YY : Z.abs y mod 100 + 100 * (Z.abs y / 100 mod 100) + 10000 * (Z.abs y / 10000) = Z.abs y) by lia);
    (assert (YY' : y mod 100 + 100 * (y / 100) = y) by lia);
    try specialize (Y3 Y); try specialize (Y0 Y); try specialize (Y0' Y);
    unfold pn_year, pn_tprop, pn_year_present, pn_trunc; date_cbn; cbn [f_parse wf_assign bindings d_month d_dom d_doy d_week d_dow];
    date_cbn; change (Z.to_nat 2) with 2%nat; change (Z.to_nat 3) with 3%nat; pad_facts;
    try (destruct (y <? 0) eqn:SG); cbn [is_sign String.eqb Ascii.eqb Bool.eqb orb andb]; close_vals.
Qed.

(* ---- part P11 (custom formats: the end-to-end theorems) ---- *)

(* ---------- the point whose fields a custom format prints ---------- *)
Definition cust_date (md : mode) (k : Z) (d : date) : option date :=
  if k =? 2 then to_week_date md d
  else match d with Wk _ _ _ => to_calendar_date md d | _ => Some d end.
Definition cust_point (md : mode) (k : Z) (p : tp) (z : zone) : option tp :=
  match cust_date md k (tdate p) with
  | Some d => to_time_zone md (with_date p d) z
  | None => None
  end.
Definition year_bad (ned : Z) (xp : bool) (y : Z) : bool :=
  (true && (negb xp || (ned =? 0)) && negb ((0 <=? y) && (y <=? 9999))) ||
  (xp && negb (Z.abs y <=? 10 ^ (ned + 4) - 1)).

Lemma dump_with_cust : forall ned md p tmpl props h m k xp,
  mem "week_of_year" props || mem "day_of_week" props = (k =? 2) ->
  mem "month_of_year" props || mem "day_of_month" props || mem "day_of_year" props = negb (k =? 2) ->
  mem "century" props = true -> mem "expanded_year_digits" props = xp ->
  valid_zone (mkZone h m) = true ->
  dump_with ned md p tmpl props (Some (h, m)) =
  match cust_point md k p (mkZone h m) with
  | None => DErr
  | Some r => if year_bad ned xp (date_year (tdate r)) then DBounds
              else match render md r tmpl with Some s => DOk s | None => DErr end
  end.
Proof.
  intros ned md p tmpl props h m k xp F1 F2 F3 F4 VZ.
  rewrite (dump_with_flags ned md p tmpl props _ _ _ _ _ F1 F2 F3 F4). cbv zeta. rewrite VZ. cbn [negb].
  unfold cust_point, cust_date, year_bad. destruct p as [d t z]. cbn [tdate].
  destruct (k =? 2); cbn [negb andb].
  - destruct (to_week_date md d); reflexivity.
  - destruct d; cbn [andb]; try reflexivity. destruct (to_calendar_date md _); reflexivity.
Qed.

Lemma cust_date_spec : forall md k d, valid_date md d = true ->
  exists d', cust_date md k d = Some d' /\ valid_date md d' = true /\ date_dn md d' = date_dn md d /\
             (if k =? 2 then rep_kind d' = 2 else rep_kind d' <> 2).
Proof.
  intros md k d Vd. unfold cust_date. destruct (k =? 2) eqn:K.
  - destruct (to_week_date_ok md _ Vd) as (d' & E & V' & D' & K'). exists d'. auto.
  - destruct d as [y m dd|y doy|y w dd].
    + eexists. split; [reflexivity|]. repeat split; try assumption. cbn. lia.
    + eexists. split; [reflexivity|]. repeat split; try assumption. cbn. lia.
    + destruct (to_calendar_date_ok md _ Vd) as (d' & E & V' & D' & K'). exists d'.
      repeat split; try assumption. lia.
Qed.
Lemma cust_point_spec : forall md k p z, valid_tp md p = true -> valid_zone z = true ->
  exists r, cust_point md k p z = Some r /\ valid_tp md r = true /\ (instant md r == instant md p)%Q /\
            tzone r = z /\ tod_kind (ttod r) = tod_kind (ttod p) /\
            (if k =? 2 then rep_kind (tdate r) = 2 else rep_kind (tdate r) <> 2).
Proof.
  intros md k p z V VZ. destruct (valid_tp_parts md p V) as (Vd & Vt & Vz).
  destruct (cust_date_spec md k (tdate p) Vd) as (d' & E1 & V1 & D1 & R1). unfold cust_point. rewrite E1.
  assert (Vq : valid_tp md (with_date p d') = true).
  { unfold valid_tp, with_date. cbn [tdate ttod tzone]. rewrite V1, Vt, Vz. reflexivity. }
  destruct (to_time_zone_spec md (with_date p d') z Vq VZ) as (r & E2 & I2 & Z2 & K2 & T2 & V2).
  exists r. split; [exact E2|]. split; [exact V2|].
  split; [rewrite I2; apply instant_with_date; exact D1|]. split; [exact Z2|].
  split; [exact T2|]. rewrite K2. exact R1.
Qed.

(* the dumper's bounds test on the printed year is year_ok *)
Lemma cust_cases_facts : forall ned ext xp k, In (ned, ext, xp, k) cust_cases ->
  In ned [0; 2; 3] /\ In k [0; 1; 2] /\ (xp = true -> In ned [2; 3]).
Proof.
  intros ned ext xp k C. unfold cust_cases in C. cbn in C.
  in_cases C; (split; [cbn; tauto|]); (split; [cbn; tauto|]); intros X; try discriminate X; cbn; tauto.
Qed.
Lemma year_bad_ok : forall ned xp y, (xp = true -> In ned [2; 3]) ->
  year_bad ned xp y = false <-> year_ok (if xp then ned else 0) y.
Proof.
  intros ned xp y H. unfold year_bad, year_ok. destruct xp.
  - destruct (H eq_refl) as [<-|[<-|[]]]; cbn [Z.eqb negb andb orb];
      [change (10 ^ (2 + 4)) with 1000000; change (10 ^ (4 + 2)) with 1000000
      |change (10 ^ (3 + 4)) with 10000000; change (10 ^ (4 + 3)) with 10000000]; lia.
  - cbn [Z.eqb negb andb orb]. lia.
Qed.

(* ---------- whole seconds survive the change of zone ---------- *)
Definition hms_whole (t : tod) : bool := match t with HMS _ _ s => qis_int s | _ => false end.
Lemma hms_whole_instant : forall md r p, valid_tp md r = true -> valid_tp md p = true ->
  tod_kind (ttod r) = tod_kind (ttod p) -> (instant md r == instant md p)%Q ->
  hms_whole (ttod p) = true -> hms_whole (ttod r) = true.
Proof.
  intros md [dr tr zr] [dp tp_ zp] Vr Vp K I W. cbn [ttod] in *.
  destruct (valid_tp_parts md _ Vr) as (_ & Tr & _). destruct (valid_tp_parts md _ Vp) as (_ & Tp & _).
  cbn [ttod] in *.
  destruct tp_ as [h m s| |]; try discriminate W. destruct tr as [h' m' s'| |]; try discriminate K.
  cbn [hms_whole] in *. unfold valid_tod in Tr, Tp.
  apply andb_true_iff in Tr. destruct Tr as [Tr _]. apply andb_true_iff in Tr. destruct Tr as [Ih' Im'].
  apply andb_true_iff in Tp. destruct Tp as [Tp _]. apply andb_true_iff in Tp. destruct Tp as [Ih Im].
  apply qis_int_iff in Ih, Im, Ih', Im', W. apply qis_int_iff.
  unfold instant in I. cbn [tdate ttod tzone tod_secs] in I. unfold qz in I.
  apply (isint_eq (inject_Z (86400 * date_dn md dp) + (h * inject_Z 3600 + m * inject_Z 60 + s) - inject_Z (zone_secs zp)
                   - inject_Z (86400 * date_dn md dr) - h' * inject_Z 3600 - m' * inject_Z 60 + inject_Z (zone_secs zr))%Q).
  - lra.
  - repeat first [apply isint_sub | apply isint_add | apply isint_mul | apply isint_Z | assumption].
Qed.
Lemma fits6_int : forall x, qis_int x = true -> fits6 x = true.
Proof.
  intros x H. unfold fits6. apply qis_int_iff in H. apply qis_int_iff.
  apply isint_mul; [exact H|exact (isint_Z 1000000)].
Qed.

(* ---------- the time of day, basic or extended ---------- *)
Ltac ctime_cbn := cbn [CT time_env F_HMS_EXT F_HMS_BASIC tod_hour
                      wf_assign render_toks bindings f_parse f_expr f_dump fld lookup_env has_key String.eqb Ascii.eqb Bool.eqb
                      nz nq ndec option_map od negb orb andb].
Lemma render_ctime : forall md ext d h m s z,
  render md (mkTp d (HMS h m s) z) (f_dump (CT ext)) = Some (render_toks (f_parse (CT ext)) (time_env (HMS h m s))).
Proof.
  intros md ext d h m s z. destruct ext; ctime_cbn; cbn [render];
    rewrite ?pv_hour, ?pv_min_hms, ?pv_sec_hms; cbn [tod_hour]; rewrite ?sapp_nil_r; reflexivity.
Qed.
Lemma ctime_vals : forall ext t, valid_tod t = true -> hms_whole t = true ->
  let te := bindings (f_parse (CT ext)) (time_env t) in
  wf_assign (f_parse (CT ext)) (time_env t) = true /\ has_key "truncated" te = false /\
  nq te "hour_of_day" = t_hour t /\ ndec te "hour_of_day_decimal" = t_hdec t /\
  nq te "minute_of_hour" = t_min t /\ ndec te "minute_of_hour_decimal" = t_mdec t /\
  nq te "second_of_minute" = t_sec t /\ ndec te "second_of_minute_decimal" = t_sdec t.
Proof.
  intros ext t V W te. subst te. pose proof (valid_tod_small t V) as S.
  destruct t as [h m s| |]; try discriminate W. cbn [hms_whole tod_small] in *.
  unfold t_hour, t_hdec, t_min, t_mdec, t_sec, t_sdec. rewrite W.
  destruct S as (H0 & H1 & M0 & M1 & S0 & S1).
  pose proof (qtrunc_small h H0 H1) as Rh. pose proof (qtrunc_small m M0 M1) as Rm. pose proof (qtrunc_small s S0 S1) as Rs.
  destruct (pad_num_w 2 (qtrunc h) ltac:(lia) Rh) as [D1 N1]. destruct (pad_num_w 2 (qtrunc m) ltac:(lia) Rm) as [D2 N2].
  destruct (pad_num_w 2 (qtrunc s) ltac:(lia) Rs) as [D3 N3].
  destruct ext; ctime_cbn; rewrite D1, D2, D3, N1, N2, N3; repeat split; reflexivity.
Qed.

(* ---------- what the reflection over the thirty combinations gives for one of them ---------- *)
Lemma cust_case : forall ned ext xp k, In (ned, ext, xp, k) cust_cases ->
  let nedc := pcfg_ned ned in let fd := CF nedc ext xp k in let ft := CT ext in
  let props := (f_props fd ++ f_props ft)%list in
  contains_char "%" (cust_fmt ext xp k) = false /\
  expression_of (date_forms_of ned) TIME_FORMS ZONE_FORMS zone_of_text (cust_fmt ext xp k) =
    inl (Some (f_dump fd ++ [DLit "T"] ++ f_dump ft ++ [DLit "Z"], props, Some (0, 0)))%list /\
  mem "week_of_year" props || mem "day_of_week" props = (k =? 2) /\
  mem "month_of_year" props || mem "day_of_month" props || mem "day_of_year" props = negb (k =? 2) /\
  mem "century" props = true /\ mem "expanded_year_digits" props = xp /\
  triple_ok (date_forms_of nedc) TIME_FORMS ZONE_FORMS (default_cfg nedc) fd ft (Some F_Z_EXT) = true /\
  num_keys_ok DATE_KEYS (f_parse fd) = true /\ num_keys_ok TIME_KEYS (f_parse ft) = true.
Proof.
  intros ned ext xp k C nedc fd ft props. pose proof cust_tables as T. rewrite forallb_forall in T.
  specialize (T _ C). unfold cust_case_ok in T. cbv beta iota zeta in T.
  fold nedc in T. fold fd in T. fold ft in T. fold props in T.
  repeat match goal with X : _ && _ = true |- _ => apply andb_true_iff in X; destruct X end.
  destruct (expression_of _ _ _ _ _) as [[[[tmpl props'] [[a b]|]]|]|e]; try discriminate.
  destruct a; try discriminate. destruct b; try discriminate.
  repeat match goal with X : _ && _ = true |- _ => apply andb_true_iff in X; destruct X end.
  repeat match goal with X : Bool.eqb _ _ = true |- _ => apply eqb_prop in X end.
  match goal with X : dtoks_eqb _ _ = true |- _ => apply dtoks_eqb_eq in X; subst tmpl end.
  match goal with X : strs_eqb _ _ = true |- _ => apply strs_eqb_eq in X; subst props' end.
  match goal with X : negb _ = true |- _ => apply negb_true_iff in X end.
  repeat split; assumption.
Qed.

Definition cust_tmpl (ned : Z) (ext xp : bool) (k : Z) : list dtok :=
  (f_dump (CF (pcfg_ned ned) ext xp k) ++ [DLit "T"] ++ f_dump (CT ext) ++ [DLit "Z"])%list.

Theorem do_dump_custom : forall md ned ext xp k p, In (ned, ext, xp, k) cust_cases ->
  do_dump md ned p (cust_fmt ext xp k) =
  match cust_point md k p (mkZone 0 0) with
  | None => DErr
  | Some r => if year_bad ned xp (date_year (tdate r)) then DBounds
              else match render md r (cust_tmpl ned ext xp k) with Some s => DOk s | None => DErr end
  end.
Proof.
  intros md ned ext xp k p C. destruct (cust_case ned ext xp k C) as (NP & EX & F1 & F2 & F3 & F4 & _).
  unfold do_dump. rewrite NP. unfold dump. rewrite NP, EX.
  apply (dump_with_cust ned md p _ _ 0 0 k xp F1 F2 F3 F4 eq_refl).
Qed.

(* ---------- reading the text back ---------- *)
Lemma tgt_rel_kind : forall md k d d', tgt_rel md k d d' -> rep_kind d' = k.
Proof. intros md k d d' T. destruct d'; cbn [tgt_rel] in T; destruct T as [-> _]; reflexivity. Qed.
Lemma tod_secs_eq : forall a b, tod_eq a b -> (tod_secs a == tod_secs b)%Q.
Proof.
  intros [h m s|h m|h] [h' m' s'|h' m'|h'] E; cbn [tod_eq] in E; try contradiction; cbn [tod_secs].
  - destruct E as (-> & -> & ->). reflexivity.
  - destruct E as (-> & ->). reflexivity.
  - rewrite E. reflexivity.
Qed.

(* any zone form fz whose bindings denote the zone of r *)
Lemma custom_parse : forall md ned ext xp k fz az zn r d',
  In (ned, ext, xp, k) cust_cases ->
  valid_tp md r = true -> hms_whole (ttod r) = true ->
  tgt_rel md k (tdate r) d' -> valid_date md d' = true -> date_dn md d' = date_dn md (tdate r) ->
  year_ok (if xp then ned else 0) (date_year d') ->
  let nedc := pcfg_ned ned in let cfg := default_cfg nedc in
  let fd := CF nedc ext xp k in let ft := CT ext in
  triple_ok (date_forms_of (c_ned cfg)) TIME_FORMS ZONE_FORMS cfg fd ft (Some fz) = true ->
  num_keys_ok DATE_KEYS (f_parse fd) = true -> num_keys_ok TIME_KEYS (f_parse ft) = true ->
  num_keys_ok ZONE_KEYS (f_parse fz) = true -> wf_assign (f_parse fz) az = true ->
  zone_num cfg (bindings (f_parse fz) az) = POk zn -> zone_stage zn = POk (Some (tzone r)) ->
  exists p' q,
    parse_text md cfg (render_toks (f_parse fd) (date_env (if xp then ned else 0) d') ++ "T" ++
                       render_toks (f_parse ft) (time_env (ttod r)) ++ render_toks (f_parse fz) az) false = POk p' /\
    ptp_to_tp p' = Some q /\ valid_tp md q = true /\ (instant md q == instant md r)%Q /\ tzone q = tzone r.
Proof.
  intros md ned ext xp k fz az zn [d t z] d' C V W T Vd' DN Y nedc cfg fd ft OK K1 K2 K3 Wz ZN ZS.
  subst fd ft nedc. cbn [tdate ttod tzone] in *.
  destruct (valid_tp_parts md _ V) as (Vd & Vt & Vz). cbn [tdate ttod tzone] in *.
  pose proof (valid_date_ranges md d' Vd') as R.
  destruct (cdate_vals ned ext xp k d' C (tgt_rel_kind _ _ _ _ T) Y R) as (Wd & PY & PT & PP & Mo & Do & Oy & Wk & Dw).
  destruct (ctime_vals ext t Vt W) as (Wt & HT & TH & THD & TM & TMD & TS & TSD).
  assert (F6 : tod_fits6 t = true).
  { destruct t as [h m s| |]; try discriminate W. apply fits6_int. exact W. }
  destruct (time_stage t Vt F6) as (h1 & m1 & s1 & t' & Hh & Hm & Hs & Dh & Dm & Ds & TE).
  set (fd := CF (pcfg_ned ned) ext xp k) in *. set (ft := CT ext) in *.
  assert (P : parse_text md cfg (render_toks (f_parse fd) (date_env (if xp then ned else 0) d') ++ "T" ++
                       render_toks (f_parse ft) (time_env t) ++ render_toks (f_parse fz) az) false =
              POk (mkPtp (Some (date_year d')) (d_month d') (d_dom d') (d_doy d') (d_week d') (d_dow d')
                         (tod_h t') (tod_m t') (tod_s t') (Some z) false "" (pn_ned cfg (bindings (f_parse fd) (date_env (if xp then ned else 0) d'))) "")).
  { change (render_toks (f_parse fz) az) with (zo_text (Some fz) az).
    rewrite (parse_text_num md cfg fd ft (Some fz) _ _ az false OK K1 K2 K3 Wd Wt Wz).
    cbn [zo_bind]. rewrite ZN. cbn [pbind]. rewrite point_num_eq.
    rewrite PY, PT, PP, Mo, Do, Oy, Wk, Dw. rewrite HT, TH, THD, TM, TMD, TS, TSD. cbn [orb].
    rewrite construct_eq, Hh, Hm, Hs. cbn [pbind]. unfold tail.
    rewrite ZS.
    destruct (date_stage md d' Vd') as (CFL & DF & DC & _). rewrite CFL, DF.
    rewrite check_bounds_eq, DC, Dh, Dm, Ds, (tod_fields_ok_valid t t' Vt TE). reflexivity. }
  destruct (parse_text_valid md cfg _ false _ P eq_refl) as (q & Q & VQ).
  eexists. exists q. split; [exact P|]. split; [exact Q|]. split; [exact VQ|].
  rewrite ptp_to_tp_eq in Q. cbn [p_trunc p_year p_hour p_zone p_month p_dom p_doy p_week p_dow p_min p_sec] in Q.
  unfold tod_h in Q. destruct (date_stage md d' Vd') as (_ & _ & _ & PD). rewrite PD, ptp_tod_fields in Q.
  inversion Q; subst q. split; [|reflexivity]. unfold instant. cbn [tdate ttod tzone]. rewrite DN, (tod_secs_eq _ _ TE). reflexivity.
Qed.

(* ---------- the custom-format round trip ---------- *)
Theorem custom_roundtrip : forall md ned ext xp k p r,
  In (ned, ext, xp, k) cust_cases -> valid_tp md p = true -> hms_whole (ttod p) = true ->
  cust_point md k p (mkZone 0 0) = Some r -> year_ok (if xp then ned else 0) (date_year (tdate r)) ->
  exists s p' q,
    do_dump md ned p (cust_fmt ext xp k) = DOk s /\
    parse_text md (default_cfg (pcfg_ned ned)) s false = POk p' /\
    ptp_to_tp p' = Some q /\ tzone q = mkZone 0 0 /\ tp_cmp md q p = Some Eq.
Proof.
  intros md ned ext xp k p r C V W CP Y.
  destruct (cust_cases_facts ned ext xp k C) as (Nn & Kk & Xn).
  destruct (cust_point_spec md k p (mkZone 0 0) V eq_refl) as (r' & CP' & Vr & Ir & Zr & Tr & Rr).
  rewrite CP in CP'. inversion CP'; subst r'. clear CP'.
  pose proof (hms_whole_instant md r p Vr V Tr Ir W) as Wr.
  destruct (valid_tp_parts md r Vr) as (Vdr & Vtr & _).
  destruct (tgt_spec md k (tdate r) Vdr Kk Rr) as (d' & TG & Vd' & DN & YE).
  destruct (cust_case ned ext xp k C) as (_ & _ & _ & _ & _ & _ & OK & K1 & K2).
  assert (Y' : year_ok (if xp then ned else 0) (date_year d')) by (rewrite YE; exact Y).
  destruct (custom_parse md ned ext xp k F_Z_EXT [] (Some (0, Some 0)) r d' C Vr Wr TG Vd' DN Y' OK K1 K2 eq_refl eq_refl eq_refl)
    as (p' & q & P & Q & VQ & IQ & ZQ).
  { rewrite Zr. reflexivity. }
  exists (render_toks (f_parse (CF (pcfg_ned ned) ext xp k)) (date_env (if xp then ned else 0) d') ++ "T" ++
          render_toks (f_parse (CT ext)) (time_env (ttod r)) ++ "Z"), p', q.
  split.
  - rewrite (do_dump_custom md ned ext xp k p C), CP.
    rewrite (proj2 (year_bad_ok ned xp _ Xn) Y). unfold cust_tmpl.
    destruct r as [d t z]. cbn [tdate ttod tzone] in *.
    destruct t as [h m s| |]; try discriminate Wr.
    rewrite render_app, (render_cdate md ned ext xp k d d' _ z C TG YE Y), render_app. cbn [render].
    rewrite render_app, render_ctime. cbn [render]. reflexivity.
  - split; [exact P|]. split; [exact Q|]. split; [rewrite ZQ; exact Zr|].
    rewrite (tp_cmp_spec md q p VQ V). f_equal. rewrite <- Qeq_alt. rewrite IQ. exact Ir.
Qed.

Theorem custom_roundtrip_ok : forall md ned ext xp k p s,
  In (ned, ext, xp, k) cust_cases -> valid_tp md p = true -> hms_whole (ttod p) = true ->
  do_dump md ned p (cust_fmt ext xp k) = DOk s ->
  exists p' q,
    parse_text md (default_cfg (pcfg_ned ned)) s false = POk p' /\
    ptp_to_tp p' = Some q /\ tzone q = mkZone 0 0 /\ tp_cmp md q p = Some Eq.
Proof.
  intros md ned ext xp k p s C V W D.
  destruct (cust_cases_facts ned ext xp k C) as (_ & _ & Xn).
  pose proof D as D'. rewrite (do_dump_custom md ned ext xp k p C) in D'.
  destruct (cust_point md k p (mkZone 0 0)) as [r|] eqn:CP; [|discriminate].
  destruct (year_bad ned xp (date_year (tdate r))) eqn:B; [discriminate|].
  apply (year_bad_ok ned xp _ Xn) in B.
  destruct (custom_roundtrip md ned ext xp k p r C V W CP B) as (s' & p' & q & D2 & P & Q & ZQ & E).
  rewrite D in D2. inversion D2; subst s'. exists p', q. auto.
Qed.

(* outside the year bounds the dumper refuses; it never fails otherwise *)
Theorem custom_bounds : forall md ned ext xp k p, In (ned, ext, xp, k) cust_cases -> valid_tp md p = true ->
  exists r, cust_point md k p (mkZone 0 0) = Some r /\ valid_tp md r = true /\ (instant md r == instant md p)%Q /\
            tzone r = mkZone 0 0 /\
            (~ year_ok (if xp then ned else 0) (date_year (tdate r)) -> do_dump md ned p (cust_fmt ext xp k) = DBounds).
Proof.
  intros md ned ext xp k p C V.
  destruct (cust_cases_facts ned ext xp k C) as (_ & _ & Xn).
  destruct (cust_point_spec md k p (mkZone 0 0) V eq_refl) as (r & CP & Vr & Ir & Zr & _).
  exists r. repeat split; try assumption. intros NY.
  rewrite (do_dump_custom md ned ext xp k p C), CP.
  destruct (year_bad ned xp (date_year (tdate r))) eqn:B; [reflexivity|].
  apply (year_bad_ok ned xp _ Xn) in B. contradiction.
Qed.

(* ------------------------------------------------------------------ *)
(* 6. custom formats with a literal numeric zone                       *)
(* ------------------------------------------------------------------ *)
Definition F_ZHM_BASIC : form := Eval vm_compute in pick "basic" "+hhmm" ZONE_FORMS.
Definition F_ZH_BASIC : form := Eval vm_compute in pick "basic" "+hh" ZONE_FORMS.
Definition F_ZH_EXT : form := Eval vm_compute in pick "extended" "+hh" ZONE_FORMS.
(* zk: the literal has minutes *)
Definition CZ (ext zk : bool) : form :=
  if zk then (if ext then F_ZHM_EXT else F_ZHM_BASIC) else (if ext then F_ZH_EXT else F_ZH_BASIC).
Definition sgn (neg : bool) (v : Z) : Z := if neg then - v else v.
Definition zlit_env (neg : bool) (a b : Z) : env :=
  [("time_zone_sign", if neg then "-" else "+"); ("time_zone_hour", pad_num 2 a); ("time_zone_minute", pad_num 2 b)].
Definition zlit (ext zk neg : bool) (a b : Z) : string := render_toks (f_parse (CZ ext zk)) (zlit_env neg a b).
Definition zlit_zone (zk neg : bool) (a b : Z) : zone := mkZone (sgn neg a) (if zk then sgn neg b else 0).
Definition str_tail (s : string) : string := match s with String _ r => r | EmptyString => "" end.
Definition zlit_tmpl (ext zk neg : bool) (a b : Z) : list dtok :=
  if neg then [DLit (zlit ext zk neg a b)] else [DStr "time_zone_sign"; DLit (str_tail (zlit ext zk neg a b))].
Definition zlit_props (neg : bool) : list string := if neg then [] else ["time_zone_sign"].

Lemma zlit_text : forall ext zk neg a b,
  zlit ext zk neg a b = (if neg then "-" else "+") ++ pad_num 2 a ++
                        (if zk then (if ext then ":" else "") ++ pad_num 2 b else "").
Proof.
  intros. unfold zlit, zlit_env. destruct ext, zk;
    cbn [CZ F_ZHM_EXT F_ZHM_BASIC F_ZH_BASIC F_ZH_EXT f_parse render_toks fld lookup_env String.eqb Ascii.eqb Bool.eqb];
    rewrite ?sapp_nil_r; reflexivity.
Qed.

Definition zlit_ok (ext zk neg : bool) (a b : Z) : bool :=
  let tz := f_expr (CT ext) ++ zlit ext zk neg a b in
  negb (contains_char "T" tz) && negb (contains_char "%" tz) &&
  match expr_tail TIME_FORMS ZONE_FORMS zone_of_text tz [] [] with
  | inl (Some (tmpl, props, Some (h, m))) =>
    dtoks_eqb tmpl ([DLit "T"] ++ f_dump (CT ext) ++ zlit_tmpl ext zk neg a b) &&
    strs_eqb props (f_props (CT ext) ++ zlit_props neg) &&
    (h =? zh (zlit_zone zk neg a b)) && (m =? zm (zlit_zone zk neg a b))
  | _ => false
  end.
Theorem zlit_tables :
  forallb (fun ext => forallb (fun zk => forallb (fun neg =>
    forallb (fun a => forallb (fun b => zlit_ok ext zk neg (Z.of_nat a) (Z.of_nat b)) (if zk then seq 0 60 else [O])) (seq 0 100))
    bools) bools) bools = true.
Proof. vm_cast_no_check (@eq_refl bool true). Qed.

Lemma in_bools : forall b, In b bools.
Proof. intros []; cbn; auto. Qed.
Lemma zlit_case : forall ext zk neg a b, 0 <= a <= 99 -> 0 <= b <= 59 -> zlit_ok ext zk neg a b = true.
Proof.
  intros ext zk neg a b A B. pose proof zlit_tables as T.
  rewrite forallb_forall in T. specialize (T ext (in_bools ext)).
  rewrite forallb_forall in T. specialize (T zk (in_bools zk)).
  rewrite forallb_forall in T. specialize (T neg (in_bools neg)).
  rewrite forallb_forall in T. specialize (T (Z.to_nat a) ltac:(apply in_seq; lia)). rewrite forallb_forall in T.
  destruct zk.
  - specialize (T (Z.to_nat b) ltac:(apply in_seq; lia)). rewrite !Z2Nat.id in T by lia. exact T.
  - specialize (T O ltac:(left; reflexivity)). rewrite Z2Nat.id in T by lia.
    destruct ext; exact T.
Qed.

(* the date/time templates are put in front of what the time/zone tail alone gives *)
Lemma expr_tail_front : forall tfs zfs zot tz dt dp,
  expr_tail tfs zfs zot tz dt dp =
  match expr_tail tfs zfs zot tz [] [] with
  | inl (Some (t, p, cz)) => inl (Some (dt ++ t, dp ++ p, cz))%list
  | x => x
  end.
Proof.
  intros. unfold expr_tail. cbv zeta.
  destruct (match ends_with_Z tz with Some t => _ | None => _ end) as [[[t z] [cz|]]|]; try reflexivity.
  destruct (find_expr tfs t); try reflexivity.
  destruct (if String.eqb z "" then _ else _) as [[zt zp]|]; reflexivity.
Qed.

Definition cust_zcase_ok (c : Z * bool * bool * Z) : bool :=
  let '(ned, ext, xp, k) := c in
  let nedc := pcfg_ned ned in let fd := CF nedc ext xp k in
  negb (contains_char "T" (cdate_expr ext xp k)) && negb (contains_char "%" (cdate_expr ext xp k)) &&
  match date_template (date_forms_of ned) (cdate_expr ext xp k) with
  | Some (dt, dp) => dtoks_eqb dt (f_dump fd) && strs_eqb dp (f_props fd)
  | None => false end &&
  forallb (fun zk => triple_ok (date_forms_of nedc) TIME_FORMS ZONE_FORMS (default_cfg nedc) fd (CT ext) (Some (CZ ext zk)) &&
                     num_keys_ok ZONE_KEYS (f_parse (CZ ext zk))) bools.
Theorem cust_ztables : forallb cust_zcase_ok cust_cases = true.
Proof. vm_compute. reflexivity. Qed.

Lemma cust_zcase : forall ned ext xp k zk, In (ned, ext, xp, k) cust_cases ->
  let nedc := pcfg_ned ned in let fd := CF nedc ext xp k in
  contains_char "T" (cdate_expr ext xp k) = false /\ contains_char "%" (cdate_expr ext xp k) = false /\
  date_template (date_forms_of ned) (cdate_expr ext xp k) = Some (f_dump fd, f_props fd) /\
  triple_ok (date_forms_of nedc) TIME_FORMS ZONE_FORMS (default_cfg nedc) fd (CT ext) (Some (CZ ext zk)) = true /\
  num_keys_ok ZONE_KEYS (f_parse (CZ ext zk)) = true.
Proof.
  intros ned ext xp k zk C nedc fd. pose proof cust_ztables as T. rewrite forallb_forall in T.
  specialize (T _ C). unfold cust_zcase_ok in T. cbv beta iota zeta in T. fold nedc in T. fold fd in T.
  repeat match goal with X : _ && _ = true |- _ => apply andb_true_iff in X; destruct X end.
  match goal with X : forallb _ bools = true |- _ => rewrite forallb_forall in X; specialize (X zk (in_bools zk));
    apply andb_true_iff in X; destruct X end.
  destruct (date_template _ _) as [[dt dp]|]; [|discriminate].
  repeat match goal with X : _ && _ = true |- _ => apply andb_true_iff in X; destruct X end.
  match goal with X : dtoks_eqb _ _ = true |- _ => apply dtoks_eqb_eq in X; subst dt end.
  match goal with X : strs_eqb _ _ = true |- _ => apply strs_eqb_eq in X; subst dp end.
  repeat match goal with X : negb _ = true |- _ => apply negb_true_iff in X end.
  repeat split; assumption.
Qed.

Lemma mem_zlit_props : forall x a b neg, String.eqb x "time_zone_sign" = false ->
  mem x (a ++ b ++ zlit_props neg)%list = mem x (a ++ b)%list.
Proof.
  intros x a b neg H. destruct neg; cbn [zlit_props]; [rewrite List.app_nil_r; reflexivity|].
  unfold mem. rewrite List.app_assoc, existsb_app. cbn [existsb]. rewrite H, !orb_false_r. reflexivity.
Qed.

Definition cust_zfmt (ext xp : bool) (k : Z) (zk neg : bool) (a b : Z) : string :=
  cdate_expr ext xp k ++ "T" ++ f_expr (CT ext) ++ zlit ext zk neg a b.
Definition cust_ztmpl (ned : Z) (ext xp : bool) (k : Z) (zk neg : bool) (a b : Z) : list dtok :=
  (f_dump (CF (pcfg_ned ned) ext xp k) ++ [DLit "T"] ++ f_dump (CT ext) ++ zlit_tmpl ext zk neg a b)%list.

Theorem do_dump_zlit : forall md ned ext xp k zk neg a b p, In (ned, ext, xp, k) cust_cases ->
  0 <= a <= 99 -> 0 <= b <= 59 ->
  do_dump md ned p (cust_zfmt ext xp k zk neg a b) =
  match cust_point md k p (zlit_zone zk neg a b) with
  | None => DErr
  | Some r => if year_bad ned xp (date_year (tdate r)) then DBounds
              else match render md r (cust_ztmpl ned ext xp k zk neg a b) with Some s => DOk s | None => DErr end
  end.
Proof.
  intros md ned ext xp k zk neg a b p C A B.
  destruct (cust_case ned ext xp k C) as (_ & _ & F1 & F2 & F3 & F4 & _).
  destruct (cust_zcase ned ext xp k zk C) as (DT & DP & TM & _).
  pose proof (zlit_case ext zk neg a b A B) as Z. unfold zlit_ok in Z. cbv zeta in Z.
  set (tz := f_expr (CT ext) ++ zlit ext zk neg a b) in *.
  apply andb_true_iff in Z. destruct Z as [Z ET]. apply andb_true_iff in Z. destruct Z as [ZT ZP].
  apply negb_true_iff in ZT. apply negb_true_iff in ZP.
  unfold cust_zfmt. fold tz. change ("T" ++ tz) with (String "T" tz).
  assert (NP : contains_char "%" (cdate_expr ext xp k ++ String "T" tz) = false).
  { rewrite contains_char_app, DP. cbn [contains_char]. rewrite ZP. reflexivity. }
  unfold do_dump. rewrite NP. unfold dump. rewrite NP.
  rewrite (expression_of_two _ _ _ _ _ _ _ _ DT ZT TM), expr_tail_front.
  destruct (expr_tail TIME_FORMS ZONE_FORMS zone_of_text tz [] []) as [[[[tmpl props] [[h m]|]]|]|e]; try discriminate.
  repeat match goal with X : _ && _ = true |- _ => apply andb_true_iff in X; destruct X end.
  match goal with X : dtoks_eqb _ _ = true |- _ => apply dtoks_eqb_eq in X; subst tmpl end.
  match goal with X : strs_eqb _ _ = true |- _ => apply strs_eqb_eq in X; subst props end.
  repeat match goal with X : (_ =? _) = true |- _ => apply Z.eqb_eq in X end. subst h m.
  rewrite (dump_with_cust ned md p _ _ _ _ k xp); [reflexivity| | | | |];
    try (rewrite !mem_zlit_props by reflexivity; assumption).
  unfold valid_zone, zlit_zone, sgn. cbn [zh zm]. destruct zk, neg; repeat split_if; lia.
Qed.

(* the literal zone: printed as written, read back as the zone it denotes *)
Lemma render_zlit : forall md ext zk neg a b r, 0 <= a -> 0 <= b -> tzone r = zlit_zone zk neg a b ->
  render md r (zlit_tmpl ext zk neg a b) = Some (zlit ext zk neg a b).
Proof.
  intros md ext zk neg a b [d t z] A B Z. cbn [tzone] in Z. subst z. unfold zlit_tmpl. destruct neg.
  - cbn [render]. rewrite sapp_nil_r. reflexivity.
  - cbn [render]. rewrite pv_zsign. unfold zone_sign, zlit_zone, sgn. cbn [zh zm].
    assert (E : (a <? 0) || ((if zk then b else 0) <? 0) = false) by (destruct zk; lia). rewrite E.
    rewrite sapp_nil_r, zlit_text. reflexivity.
Qed.

Ltac czone_cbn := cbn [CZ F_ZHM_EXT F_ZHM_BASIC F_ZH_BASIC F_ZH_EXT zlit_env
                       wf_assign render_toks bindings f_parse f_expr fld lookup_env has_key String.eqb Ascii.eqb Bool.eqb
                       nz nq ndec option_map od negb orb andb].
Lemma zlit_vals : forall cfg ext zk neg a b, 0 <= a <= 99 -> 0 <= b <= 59 ->
  wf_assign (f_parse (CZ ext zk)) (zlit_env neg a b) = true /\
  exists zn, zone_num cfg (bindings (f_parse (CZ ext zk)) (zlit_env neg a b)) = POk zn /\
             zone_stage zn = POk (Some (zlit_zone zk neg a b)) /\ valid_zone (zlit_zone zk neg a b) = true.
Proof.
  intros cfg ext zk neg a b A B.
  assert (RA : 0 <= a < 10 ^ Z.of_nat 2) by (change (10 ^ Z.of_nat 2) with 100; lia).
  assert (RB : 0 <= b < 10 ^ Z.of_nat 2) by (change (10 ^ Z.of_nat 2) with 100; lia).
  destruct (pad_num_w 2 a ltac:(lia) RA) as [D1 N1]. destruct (pad_num_w 2 b ltac:(lia) RB) as [D2 N2].
  assert (SG : is_sign (if neg then "-" else "+") = true) by (destruct neg; reflexivity).
  assert (VZ : valid_zone (zlit_zone zk neg a b) = true).
  { unfold valid_zone, zlit_zone, sgn. cbn [zh zm]. destruct zk, neg; repeat split_if; lia. }
  split.
  - destruct ext, zk; czone_cbn; rewrite ?SG, ?D1, ?D2; reflexivity.
  - exists (Some (sgn neg a, if zk then Some (sgn neg b) else None)). split; [|split; [|exact VZ]].
    + unfold zone_num, sgn. destruct ext, zk, neg; czone_cbn; rewrite ?N1, ?N2; reflexivity.
    + unfold zone_stage, zlit_zone. cbv zeta. unfold valid_zone, zlit_zone in VZ. cbn [zh zm] in VZ.
      set (x := sgn neg a) in *.
      set (y := match (if zk then Some (sgn neg b) else None) with Some v => v | None => 0 end).
      assert (Y : y = (if zk then sgn neg b else 0)) by (unfold y; destruct zk; reflexivity).
      rewrite <- Y in *. clearbody x y.
      assert (E1 : negb ((-99 <=? x) && (x <=? 99)) = false) by lia. rewrite E1.
      assert (E2 : negb (((if 0 <? x then 0 else -59) <=? y) && (y <=? (if x <? 0 then 0 else 59))) = false).
      { destruct (0 <? x) eqn:P; destruct (x <? 0) eqn:Q; lia. }
      rewrite E2. reflexivity.
Qed.

Theorem custom_zone_roundtrip : forall md ned ext xp k zk neg a b p r,
  In (ned, ext, xp, k) cust_cases -> 0 <= a <= 99 -> 0 <= b <= 59 ->
  valid_tp md p = true -> hms_whole (ttod p) = true ->
  cust_point md k p (zlit_zone zk neg a b) = Some r -> year_ok (if xp then ned else 0) (date_year (tdate r)) ->
  exists s p' q,
    do_dump md ned p (cust_zfmt ext xp k zk neg a b) = DOk s /\
    parse_text md (default_cfg (pcfg_ned ned)) s false = POk p' /\
    ptp_to_tp p' = Some q /\ tzone q = zlit_zone zk neg a b /\ tp_cmp md q p = Some Eq.
Proof.
  intros md ned ext xp k zk neg a b p r C A B V W CP Y.
  destruct (cust_cases_facts ned ext xp k C) as (Nn & Kk & Xn).
  destruct (zlit_vals (default_cfg (pcfg_ned ned)) ext zk neg a b A B) as (Wz & zn & ZN & ZS & VZ).
  destruct (cust_point_spec md k p _ V VZ) as (r' & CP' & Vr & Ir & Zr & Tr & Rr).
  rewrite CP in CP'. inversion CP'; subst r'. clear CP'.
  pose proof (hms_whole_instant md r p Vr V Tr Ir W) as Wr.
  destruct (valid_tp_parts md r Vr) as (Vdr & Vtr & _).
  destruct (tgt_spec md k (tdate r) Vdr Kk Rr) as (d' & TG & Vd' & DN & YE).
  destruct (cust_case ned ext xp k C) as (_ & _ & _ & _ & _ & _ & _ & K1 & K2).
  destruct (cust_zcase ned ext xp k zk C) as (_ & _ & _ & OK & K3).
  assert (Y' : year_ok (if xp then ned else 0) (date_year d')) by (rewrite YE; exact Y).
  rewrite <- Zr in ZS.
  destruct (custom_parse md ned ext xp k (CZ ext zk) (zlit_env neg a b) zn r d' C Vr Wr TG Vd' DN Y' OK K1 K2 K3 Wz ZN ZS)
    as (p' & q & P & Q & VQ & IQ & ZQ).
  exists (render_toks (f_parse (CF (pcfg_ned ned) ext xp k)) (date_env (if xp then ned else 0) d') ++ "T" ++
          render_toks (f_parse (CT ext)) (time_env (ttod r)) ++ zlit ext zk neg a b), p', q.
  split.
  - rewrite (do_dump_zlit md ned ext xp k zk neg a b p C A B), CP.
    rewrite (proj2 (year_bad_ok ned xp _ Xn) Y). unfold cust_ztmpl.
    rewrite render_app, render_app. cbn [render]. rewrite render_app.
    rewrite (render_zlit md ext zk neg a b r) by (try lia; exact Zr).
    destruct r as [d t z]. cbn [tdate ttod tzone] in *.
    destruct t as [h m s| |]; try discriminate Wr.
    rewrite (render_cdate md ned ext xp k d d' _ z C TG YE Y), render_ctime. reflexivity.
  - split; [exact P|]. split; [exact Q|]. split; [rewrite ZQ; exact Zr|].
    rewrite (tp_cmp_spec md q p VQ V). f_equal. rewrite <- Qeq_alt. rewrite IQ. exact Ir.
Qed.

(* ------------------------------------------------------------------ *)
(* 7. custom formats printing the point's own zone: +hhmm / +hh:mm     *)
(* ------------------------------------------------------------------ *)
Definition cust_pfmt (ext xp : bool) (k : Z) : string :=
  cdate_expr ext xp k ++ "T" ++ f_expr (CT ext) ++ f_expr (CZ ext true).
Definition cust_ptmpl (ned : Z) (ext xp : bool) (k : Z) : list dtok :=
  (f_dump (CF (pcfg_ned ned) ext xp k) ++ [DLit "T"] ++ f_dump (CT ext) ++ f_dump (CZ ext true))%list.
Definition cust_pcase_ok (c : Z * bool * bool * Z) : bool :=
  let '(ned, ext, xp, k) := c in
  let props := (f_props (CF (pcfg_ned ned) ext xp k) ++ f_props (CT ext) ++ f_props (CZ ext true))%list in
  negb (contains_char "%" (cust_pfmt ext xp k)) &&
  match expression_of (date_forms_of ned) TIME_FORMS ZONE_FORMS zone_of_text (cust_pfmt ext xp k) with
  | inl (Some (tmpl, props', None)) => dtoks_eqb tmpl (cust_ptmpl ned ext xp k) && strs_eqb props' props
  | _ => false end &&
  Bool.eqb (mem "week_of_year" props || mem "day_of_week" props) (k =? 2) &&
  Bool.eqb (mem "month_of_year" props || mem "day_of_month" props || mem "day_of_year" props) (negb (k =? 2)) &&
  mem "century" props && Bool.eqb (mem "expanded_year_digits" props) xp.
Theorem cust_ptables : forallb cust_pcase_ok cust_cases = true.
Proof. vm_compute. reflexivity. Qed.

Lemma dump_with_own : forall ned md p tmpl props k xp,
  mem "week_of_year" props || mem "day_of_week" props = (k =? 2) ->
  mem "month_of_year" props || mem "day_of_month" props || mem "day_of_year" props = negb (k =? 2) ->
  mem "century" props = true -> mem "expanded_year_digits" props = xp ->
  dump_with ned md p tmpl props None =
  match cust_date md k (tdate p) with
  | None => DErr
  | Some d => if year_bad ned xp (date_year d) then DBounds
              else match render md (with_date p d) tmpl with Some s => DOk s | None => DErr end
  end.
Proof.
  intros ned md p tmpl props k xp F1 F2 F3 F4.
  rewrite (dump_with_flags ned md p tmpl props _ _ _ _ _ F1 F2 F3 F4). cbv zeta.
  unfold cust_date, year_bad. destruct p as [d t z]. cbn [tdate].
  destruct (k =? 2); cbn [negb andb].
  - destruct (to_week_date md d); reflexivity.
  - destruct d; cbn [andb]; try reflexivity. destruct (to_calendar_date md _); reflexivity.
Qed.

Theorem do_dump_own : forall md ned ext xp k p, In (ned, ext, xp, k) cust_cases ->
  do_dump md ned p (cust_pfmt ext xp k) =
  match cust_date md k (tdate p) with
  | None => DErr
  | Some d => if year_bad ned xp (date_year d) then DBounds
              else match render md (with_date p d) (cust_ptmpl ned ext xp k) with Some s => DOk s | None => DErr end
  end.
Proof.
  intros md ned ext xp k p C. pose proof cust_ptables as T. rewrite forallb_forall in T.
  specialize (T _ C). unfold cust_pcase_ok in T. cbv beta iota zeta in T.
  repeat match goal with X : _ && _ = true |- _ => apply andb_true_iff in X; destruct X end.
  destruct (expression_of _ _ _ _ _) as [[[[tmpl props'] [|]]|]|e] eqn:EX; try discriminate.
  repeat match goal with X : _ && _ = true |- _ => apply andb_true_iff in X; destruct X end.
  repeat match goal with X : Bool.eqb _ _ = true |- _ => apply eqb_prop in X end.
  match goal with X : dtoks_eqb _ _ = true |- _ => apply dtoks_eqb_eq in X; subst tmpl end.
  match goal with X : strs_eqb _ _ = true |- _ => apply strs_eqb_eq in X; subst props' end.
  match goal with X : negb _ = true |- _ => apply negb_true_iff in X; rename X into NP end.
  unfold do_dump. rewrite NP. unfold dump. rewrite NP, EX.
  apply (dump_with_own ned md p _ _ k xp); assumption.
Qed.

Definition zneg (z : zone) : bool := (zh z <? 0) || (zm z <? 0).
Lemma render_own_zone : forall md ext d t z,
  render md (mkTp d t z) (f_dump (CZ ext true)) = Some (zlit ext true (zneg z) (Z.abs (zh z)) (Z.abs (zm z))).
Proof.
  intros md ext d t z. rewrite zlit_text.
  destruct ext; cbn [CZ F_ZHM_EXT F_ZHM_BASIC f_dump render]; rewrite pv_zsign, pv_zh, pv_zm;
    unfold zone_sign, zneg; rewrite ?sapp_nil_r, ?sapp_assoc; reflexivity.
Qed.
Lemma zone_own : forall z, valid_zone z = true -> zlit_zone true (zneg z) (Z.abs (zh z)) (Z.abs (zm z)) = z.
Proof.
  intros [a b] V. unfold valid_zone in V. unfold zlit_zone, zneg, sgn. cbn [zh zm] in *.
  destruct ((a <? 0) || (b <? 0)) eqn:N; f_equal; repeat split_if; lia.
Qed.

Theorem custom_own_zone_roundtrip : forall md ned ext xp k p d,
  In (ned, ext, xp, k) cust_cases -> valid_tp md p = true -> hms_whole (ttod p) = true ->
  cust_date md k (tdate p) = Some d -> year_ok (if xp then ned else 0) (date_year d) ->
  exists s p' q,
    do_dump md ned p (cust_pfmt ext xp k) = DOk s /\
    parse_text md (default_cfg (pcfg_ned ned)) s false = POk p' /\
    ptp_to_tp p' = Some q /\ tzone q = tzone p /\ tp_cmp md q p = Some Eq.
Proof.
  intros md ned ext xp k p d C V W CD Y.
  destruct (cust_cases_facts ned ext xp k C) as (Nn & Kk & Xn).
  destruct (valid_tp_parts md p V) as (Vd & Vt & Vz).
  destruct (cust_date_spec md k (tdate p) Vd) as (d0 & CD' & Vd0 & DN0 & Rr).
  rewrite CD in CD'. inversion CD'; subst d0. clear CD'.
  set (r := with_date p d).
  assert (Vr : valid_tp md r = true).
  { unfold valid_tp, r, with_date. cbn [tdate ttod tzone]. rewrite Vd0, Vt, Vz. reflexivity. }
  assert (Ir : (instant md r == instant md p)%Q) by (apply instant_with_date; exact DN0).
  destruct (tgt_spec md k d Vd0 Kk Rr) as (d' & TG & Vd' & DN & YE).
  destruct (cust_case ned ext xp k C) as (_ & _ & _ & _ & _ & _ & _ & K1 & K2).
  destruct (cust_zcase ned ext xp k true C) as (_ & _ & _ & OK & K3).
  assert (Y' : year_ok (if xp then ned else 0) (date_year d')) by (rewrite YE; exact Y).
  assert (A : 0 <= Z.abs (zh (tzone p)) <= 99 /\ 0 <= Z.abs (zm (tzone p)) <= 59) by (unfold valid_zone in Vz; lia).
  destruct A as [A B].
  destruct (zlit_vals (default_cfg (pcfg_ned ned)) ext true (zneg (tzone p)) _ _ A B) as (Wz & zn & ZN & ZS & _).
  rewrite (zone_own _ Vz) in ZS.
  destruct (custom_parse md ned ext xp k (CZ ext true) _ zn r d' C Vr W TG Vd' DN Y' OK K1 K2 K3 Wz ZN ZS)
    as (p' & q & P & Q & VQ & IQ & ZQ).
  exists (render_toks (f_parse (CF (pcfg_ned ned) ext xp k)) (date_env (if xp then ned else 0) d') ++ "T" ++
          render_toks (f_parse (CT ext)) (time_env (ttod p)) ++
          zlit ext true (zneg (tzone p)) (Z.abs (zh (tzone p))) (Z.abs (zm (tzone p)))), p', q.
  split.
  - rewrite (do_dump_own md ned ext xp k p C), CD.
    rewrite (proj2 (year_bad_ok ned xp _ Xn) Y). unfold cust_ptmpl. fold r.
    subst r. destruct p as [d0 t z]. unfold with_date in *. cbn [tdate ttod tzone] in *.
    destruct t as [h m s| |]; try discriminate W.
    rewrite render_app, (render_cdate md ned ext xp k d d' _ z C TG YE Y), render_app. cbn [render].
    rewrite render_app, render_ctime, render_own_zone. reflexivity.
  - split; [exact P|]. split; [exact Q|]. split; [rewrite ZQ; reflexivity|].
    rewrite (tp_cmp_spec md q p VQ V). f_equal. rewrite <- Qeq_alt. rewrite IQ. exact Ir.
Qed.

(* ------------------------------------------------------------------ *)
(* 8. the statements of Props/C08.v, with explicit hypotheses          *)
(* ------------------------------------------------------------------ *)
Definition ctime_expr (ext : bool) : string := if ext then "hh:mm:ss" else "hhmmss".
Definition czone_expr (ext : bool) : string := if ext then "+hh:mm" else "+hhmm".
Lemma ctime_expr_eq : forall ext, f_expr (CT ext) = ctime_expr ext.
Proof. intros []; reflexivity. Qed.
Lemma czone_expr_eq : forall ext, f_expr (CZ ext true) = czone_expr ext.
Proof. intros []; reflexivity. Qed.
Lemma cust_cases_intro : forall ned ext xp k,
  In ned [0; 2; 3] -> In k [0; 1; 2] -> (xp = true -> ned <> 0) -> In (ned, ext, xp, k) cust_cases.
Proof.
  intros ned ext xp k [<-|[<-|[<-|[]]]] [<-|[<-|[<-|[]]]] X; destruct ext, xp;
    try (exfalso; apply (X eq_refl); reflexivity); cbn; repeat (first [left; reflexivity | right]).
Qed.

Theorem custom_utc : forall md ned ext xp k p r,
  In ned [0; 2; 3] -> In k [0; 1; 2] -> (xp = true -> ned <> 0) ->
  valid_tp md p = true -> hms_whole (ttod p) = true ->
  cust_point md k p (mkZone 0 0) = Some r -> year_ok (if xp then ned else 0) (date_year (tdate r)) ->
  exists s p' q,
    do_dump md ned p (cdate_expr ext xp k ++ "T" ++ ctime_expr ext ++ "Z") = DOk s /\
    parse_text md (default_cfg (pcfg_ned ned)) s false = POk p' /\
    ptp_to_tp p' = Some q /\ tzone q = mkZone 0 0 /\ tp_cmp md q p = Some Eq.
Proof.
  intros md ned ext xp k p r N K X. rewrite <- ctime_expr_eq.
  apply custom_roundtrip. apply cust_cases_intro; assumption.
Qed.
Theorem custom_utc_dumped : forall md ned ext xp k p s,
  In ned [0; 2; 3] -> In k [0; 1; 2] -> (xp = true -> ned <> 0) ->
  valid_tp md p = true -> hms_whole (ttod p) = true ->
  do_dump md ned p (cdate_expr ext xp k ++ "T" ++ ctime_expr ext ++ "Z") = DOk s ->
  exists p' q,
    parse_text md (default_cfg (pcfg_ned ned)) s false = POk p' /\
    ptp_to_tp p' = Some q /\ tzone q = mkZone 0 0 /\ tp_cmp md q p = Some Eq.
Proof.
  intros md ned ext xp k p s N K X. rewrite <- ctime_expr_eq.
  apply custom_roundtrip_ok. apply cust_cases_intro; assumption.
Qed.
Theorem custom_utc_point : forall md ned ext xp k p,
  In ned [0; 2; 3] -> In k [0; 1; 2] -> (xp = true -> ned <> 0) -> valid_tp md p = true ->
  exists r, cust_point md k p (mkZone 0 0) = Some r /\ valid_tp md r = true /\ (instant md r == instant md p)%Q /\
            tzone r = mkZone 0 0 /\
            (~ year_ok (if xp then ned else 0) (date_year (tdate r)) ->
             do_dump md ned p (cdate_expr ext xp k ++ "T" ++ ctime_expr ext ++ "Z") = DBounds).
Proof.
  intros md ned ext xp k p N K X. rewrite <- ctime_expr_eq.
  apply custom_bounds. apply cust_cases_intro; assumption.
Qed.
Theorem custom_literal_zone : forall md ned ext xp k zk neg a b p r,
  In ned [0; 2; 3] -> In k [0; 1; 2] -> (xp = true -> ned <> 0) -> 0 <= a <= 99 -> 0 <= b <= 59 ->
  valid_tp md p = true -> hms_whole (ttod p) = true ->
  cust_point md k p (zlit_zone zk neg a b) = Some r -> year_ok (if xp then ned else 0) (date_year (tdate r)) ->
  exists s p' q,
    do_dump md ned p (cdate_expr ext xp k ++ "T" ++ ctime_expr ext ++ zlit ext zk neg a b) = DOk s /\
    parse_text md (default_cfg (pcfg_ned ned)) s false = POk p' /\
    ptp_to_tp p' = Some q /\ tzone q = zlit_zone zk neg a b /\ tp_cmp md q p = Some Eq.
Proof.
  intros md ned ext xp k zk neg a b p r N K X. rewrite <- ctime_expr_eq.
  apply custom_zone_roundtrip. apply cust_cases_intro; assumption.
Qed.
Theorem custom_own_zone : forall md ned ext xp k p d,
  In ned [0; 2; 3] -> In k [0; 1; 2] -> (xp = true -> ned <> 0) ->
  valid_tp md p = true -> hms_whole (ttod p) = true ->
  cust_date md k (tdate p) = Some d -> year_ok (if xp then ned else 0) (date_year d) ->
  exists s p' q,
    do_dump md ned p (cdate_expr ext xp k ++ "T" ++ ctime_expr ext ++ czone_expr ext) = DOk s /\
    parse_text md (default_cfg (pcfg_ned ned)) s false = POk p' /\
    ptp_to_tp p' = Some q /\ tzone q = tzone p /\ tp_cmp md q p = Some Eq.
Proof.
  intros md ned ext xp k p d N K X. rewrite <- ctime_expr_eq, <- czone_expr_eq.
  apply custom_own_zone_roundtrip. apply cust_cases_intro; assumption.
Qed.
