(* Proofs/GenCode4Conv.v -- gen/GenCode4.v: TimePoint._copy, the three observers
   get_is_calendar_date / get_is_ordinal_date / get_is_week_date, the three
   get_*_date conversions and the three to_*_date conversions, against the model
   (Model/TimePoint.v).  Statements: Proofs/GenCode4Stmt.v.  Exact equalities (no
   rational arithmetic is involved); the module-level helpers the methods call
   were proved equal to the model's for all integer arguments in Proofs/GenCode2Ok.v.

   The proofs are by evaluation of the method on the object state `rep fl p`
   (one case per date representation and time-of-day shape) up to the calls of
   the helpers, which are then replaced by the model's functions: nothing depends
   on the names of the temporaries of the generated code. *)
From Coq Require Import QArith String.
From Iso Require Import Proofs.Tac Spec.Cal Model.Num Model.Helpers Model.Duration Model.TimePoint
  gen.GenCode2 gen.GenCode4 Proofs.GenCode2Ok Proofs.GenCode4Base Proofs.GenCode4Stmt.
Open Scope Z_scope.

(* evaluate the object-state plumbing; the helpers py_get_* and the model's
   cal_from_ord ... stay folded *)
Ltac ev4 :=
  cbv beta iota zeta delta
    [rep rep_zone tdate ttod tzone zh zm ebind need is_none negb andb orb
     s_num_expanded_year_digits s_year s_month_of_year s_day_of_year s_day_of_month
     s_day_of_week s_week_of_year s_hour_of_day s_minute_of_hour s_second_of_minute
     s_truncated s_truncated_property s_truncated_dump_format s_dump_format s_time_zone
     set_num_expanded_year_digits set_year set_month_of_year set_day_of_year set_day_of_month
     set_day_of_week set_week_of_year set_hour_of_day set_minute_of_hour set_second_of_minute
     set_truncated set_truncated_property set_truncated_dump_format set_dump_format set_time_zone
     py_empty_instance py_TimeZone__copy with_date opt3 opt2
     f_digits f_tprop f_tdump f_dump
     get_calendar_date get_ordinal_date get_week_date
     to_calendar_date to_ordinal_date to_week_date
     py_TimePoint_get_is_calendar_date py_TimePoint_get_is_ordinal_date py_TimePoint_get_is_week_date].

(* the six module-level conversions: the code's helper = the model's function *)
Ltac helpers4 md :=
  cal4 md;
  rewrite ?gen_get_calendar_date_from_ordinal_date_eq, ?gen_get_ordinal_date_from_calendar_date_eq,
          ?gen_get_calendar_date_from_week_date_eq, ?gen_get_week_date_from_calendar_date_eq,
          ?gen_get_ordinal_date_from_week_date_eq, ?gen_get_week_date_from_ordinal_date_eq.

(* case analysis on the (folded) model conversion left in the goal *)
Ltac split_model :=
  match goal with
  | |- context [cal_from_ord ?md ?y ?d] => destruct (cal_from_ord md y d) as [[[? ?] ?]|]
  | |- context [cal_from_week ?md ?y ?w ?d] => destruct (cal_from_week md y w d) as [[[? ?] ?]|]
  | |- context [ord_from_cal ?md ?y ?m ?d] => destruct (ord_from_cal md y m d) as [[? ?]|]
  | |- context [ord_from_week ?md ?y ?w ?d] => destruct (ord_from_week md y w d) as [[? ?]|]
  | |- context [week_from_cal ?md ?y ?m ?d] => destruct (week_from_cal md y m d) as [[[? ?] ?]|]
  | |- context [week_from_ord ?md ?y ?d] => destruct (week_from_ord md y d) as [[[? ?] ?]|]
  | _ => idtac
  end.

(* ---------- _copy: the identity on every object state ---------- *)
Lemma gen4_copy : CopyOk.
Proof.
  intros fuel cal o. unfold py_TimePoint__copy. ev4. destruct o. reflexivity.
Qed.
Print Assumptions gen4_copy.

(* ---------- the observers ---------- *)
Lemma gen4_get_is_calendar_date fl p fuel cal :
  py_TimePoint_get_is_calendar_date fuel cal (rep fl p) =
  Ok (match tdate p with Cal _ _ _ => true | _ => false end).
Proof. destruct p as [[y m d|y doy|y w d] [h mi s|h mi|h] z]; reflexivity. Qed.
Print Assumptions gen4_get_is_calendar_date.

Lemma gen4_get_is_ordinal_date fl p fuel cal :
  py_TimePoint_get_is_ordinal_date fuel cal (rep fl p) =
  Ok (match tdate p with Ord _ _ => true | _ => false end).
Proof. destruct p as [[y m d|y doy|y w d] [h mi s|h mi|h] z]; reflexivity. Qed.
Print Assumptions gen4_get_is_ordinal_date.

Lemma gen4_get_is_week_date fl p fuel cal :
  py_TimePoint_get_is_week_date fuel cal (rep fl p) =
  Ok (match tdate p with Wk _ _ _ => true | _ => false end).
Proof. destruct p as [[y m d|y doy|y w d] [h mi s|h mi|h] z]; reflexivity. Qed.
Print Assumptions gen4_get_is_week_date.

(* ---------- get_calendar_date / get_ordinal_date / get_week_date ---------- *)
Lemma gen4_get_calendar_date : GetCalOk.
Proof.
  intros md fl p fuel.
  destruct p as [[y m d|y doy|y w d] [h mi s|h mi|h] z];
    unfold py_TimePoint_get_calendar_date; ev4; helpers4 md; split_model; reflexivity.
Qed.
Print Assumptions gen4_get_calendar_date.

Lemma gen4_get_ordinal_date : GetOrdOk.
Proof.
  intros md fl p fuel.
  destruct p as [[y m d|y doy|y w d] [h mi s|h mi|h] z];
    unfold py_TimePoint_get_ordinal_date; ev4; helpers4 md; split_model; reflexivity.
Qed.
Print Assumptions gen4_get_ordinal_date.

Lemma gen4_get_week_date : GetWeekOk.
Proof.
  intros md fl p fuel.
  destruct p as [[y m d|y doy|y w d] [h mi s|h mi|h] z];
    unfold py_TimePoint_get_week_date; ev4; helpers4 md; split_model; reflexivity.
Qed.
Print Assumptions gen4_get_week_date.

(* ---------- to_calendar_date / to_ordinal_date / to_week_date ---------- *)
(* the calls of _copy and get_*_date are replaced by the lemmas above, then the
   slot assignments are evaluated *)
Lemma gen4_to_calendar_date : ToCalOk.
Proof.
  intros md fl p fuel. unfold py_TimePoint_to_calendar_date.
  rewrite gen4_copy, gen4_get_calendar_date.
  destruct p as [[y m d|y doy|y w d] [h mi s|h mi|h] z];
    ev4; split_model; reflexivity.
Qed.
Print Assumptions gen4_to_calendar_date.

Lemma gen4_to_ordinal_date : ToOrdOk.
Proof.
  intros md fl p fuel. unfold py_TimePoint_to_ordinal_date.
  rewrite gen4_copy, gen4_get_ordinal_date.
  destruct p as [[y m d|y doy|y w d] [h mi s|h mi|h] z];
    ev4; split_model; reflexivity.
Qed.
Print Assumptions gen4_to_ordinal_date.

Lemma gen4_to_week_date : ToWeekOk.
Proof.
  intros md fl p fuel. unfold py_TimePoint_to_week_date.
  rewrite gen4_copy, gen4_get_week_date.
  destruct p as [[y m d|y doy|y w d] [h mi s|h mi|h] z];
    ev4; split_model; reflexivity.
Qed.
Print Assumptions gen4_to_week_date.
