(* Proofs/StrftimeSpec.v -- property C17: strftime prints the POSIX text of the
   civil date-time (Spec/Posix.v) for the supported directives, refuses every
   other %-letter directive, and strptime reads the text back.
   The generated STRFTIME_TABLE is used only through the closed reflection
   lemma table_lookup (and C17_table): every theorem is re-checked against
   whatever the table contains on the run. *)
From Coq Require Import QArith Qround Qabs Lqa String Ascii.
From Iso Require Import Proofs.Tac Spec.Cal Spec.Instant Spec.NextMatch Spec.FormText Spec.Posix
  Model.Num Model.Helpers Model.Duration Model.TimePoint Model.Forms Model.Parse Model.LocalZone
  Model.Dump Model.Strftime Model.DriverText gen.Grammar
  Proofs.HelpersSpec Proofs.ConvSpec Proofs.TickSpec Proofs.AddSpec Proofs.CmpSpec Proofs.MonthSpec
  Proofs.NextMatchSpec Proofs.EpochSpec Proofs.MatchSpec Proofs.ConstructSpec.
Import ListNotations.
Local Open Scope string_scope.
Open Scope Z_scope.

(* ================================================================== *)
(* 1. numerals: the dumper's %0Wd padding is the spec's digit string   *)
(* ================================================================== *)
Lemma digit_char_is_digit k : 0 <= k <= 9 -> is_digit (digit_char k) = true.
Proof.
  intros H.
  assert (C : k = 0 \/ k = 1 \/ k = 2 \/ k = 3 \/ k = 4 \/ k = 5 \/ k = 6 \/ k = 7 \/ k = 8 \/ k = 9) by lia.
  repeat (destruct C as [C|C]; [subst k; reflexivity|]). subst k. reflexivity.
Qed.

Lemma length_app (a b : string) : String.length (a ++ b) = (String.length a + String.length b)%nat.
Proof. induction a; simpl; congruence. Qed.

(* any w, any n: exactly w digits *)
Lemma digs_digits : forall w n, digits_n w (digs w n) = true.
Proof.
  unfold digits_n. induction w as [|w IH]; intros n; [reflexivity|].
  cbn [digs]. specialize (IH (n / 10)). apply andb_true_iff in IH. destruct IH as [L A].
  apply Nat.eqb_eq in L. rewrite length_app, all_digits_app, A, L. cbn [String.length all_digits].
  rewrite digit_char_is_digit by lia. rewrite Nat.add_1_r, Nat.eqb_refl. reflexivity.
Qed.

Definition pad_digs_check (w N : nat) : bool :=
  forallb (fun k => String.eqb (pad_num w (Z.of_nat k)) (digs w (Z.of_nat k))) (seq 0 N).
Lemma pad_digs_aux : forall w N n, pad_digs_check w N = true -> 0 <= n < Z.of_nat N -> pad_num w n = digs w n.
Proof.
  intros w N n C R. unfold pad_digs_check in C. rewrite forallb_forall in C.
  specialize (C (Z.to_nat n)). rewrite Z2Nat.id in C by lia.
  apply String.eqb_eq. apply C. apply in_seq. lia.
Qed.
Lemma pad_digs_2 : forall n, 0 <= n < 100 -> pad_num 2 n = digs 2 n.
Proof. intros. apply (pad_digs_aux 2 100); [vm_compute; reflexivity|lia]. Qed.
Lemma pad_digs_3 : forall n, 0 <= n < 1000 -> pad_num 3 n = digs 3 n.
Proof. intros. apply (pad_digs_aux 3 1000); [vm_compute; reflexivity|lia]. Qed.

Lemma dnum_digs_2 : forall n, 0 <= n < 100 -> dnum (digs 2 n) = n.
Proof. intros n H. rewrite <- pad_digs_2 by assumption. apply pad_num_2. assumption. Qed.
Lemma dnum_digs_3 : forall n, 0 <= n < 1000 -> dnum (digs 3 n) = n.
Proof. intros n H. rewrite <- pad_digs_3 by assumption. apply pad_num_3. assumption. Qed.

(* the four-digit year is century then year of century *)
Lemma digs4_split : forall y, digs 4 y = digs 2 (y / 100) ++ digs 2 (y mod 100).
Proof.
  intros y. cbn [digs append].
  replace (y / 10 / 10 / 10) with (y / 100 / 10) by lia.
  replace (y / 10 / 10 mod 10) with ((y / 100) mod 10) by lia.
  replace (y / 10 mod 10) with ((y mod 100) / 10 mod 10) by lia.
  replace (y mod 100 mod 10) with (y mod 10) by lia.
  reflexivity.
Qed.

(* ================================================================== *)
(* 2. the generated table, by reflection                               *)
(* ================================================================== *)
(* the POSIX shape of each supported directive in the package's own template
   language: dump template, the properties it reads, the regex it parses with *)
Definition POSIX_SHAPES : list (string * (list dtok * list string * list ptok)) :=
  [ ("%Y", ([DNum "century" 2; DNum "year_of_century" 2], ["century"; "year_of_century"],
            [PDig "century" 2; PDig "year_of_century" 2]));
    ("%m", ([DNum "month_of_year" 2], ["month_of_year"], [PDig "month_of_year" 2]));
    ("%d", ([DNum "day_of_month" 2], ["day_of_month"], [PDig "day_of_month" 2]));
    ("%j", ([DNum "day_of_year" 3], ["day_of_year"], [PDig "day_of_year" 3]));
    ("%H", ([DNum "hour_of_day" 2], ["hour_of_day"], [PDig "hour_of_day" 2]));
    ("%M", ([DNum "minute_of_hour" 2], ["minute_of_hour"], [PDig "minute_of_hour" 2]));
    ("%S", ([DNum "second_of_minute" 2], ["second_of_minute"], [PDig "second_of_minute" 2]));
    ("%F", ([DNum "century" 2; DNum "year_of_century" 2; DLit "-"; DNum "month_of_year" 2; DLit "-"; DNum "day_of_month" 2],
            ["century"; "year_of_century"; "month_of_year"; "day_of_month"],
            [PDig "century" 2; PDig "year_of_century" 2; PLit "-"; PDig "month_of_year" 2; PLit "-"; PDig "day_of_month" 2]));
    ("%X", ([DNum "hour_of_day" 2; DLit ":"; DNum "minute_of_hour" 2; DLit ":"; DNum "second_of_minute" 2],
            ["hour_of_day"; "minute_of_hour"; "second_of_minute"],
            [PDig "hour_of_day" 2; PLit ":"; PDig "minute_of_hour" 2; PLit ":"; PDig "second_of_minute" 2]));
    ("%z", ([DStr "time_zone_sign"; DNum "time_zone_hour_abs" 2; DNum "time_zone_minute_abs" 2],
            ["time_zone_sign"; "time_zone_hour_abs"; "time_zone_minute_abs"],
            [PSign "time_zone_sign"; PDig "time_zone_hour" 2; PDig "time_zone_minute" 2]));
    ("%s", ([DStr "seconds_since_unix_epoch"], ["seconds_since_unix_epoch"], [PUnix "seconds_since_unix_epoch"])) ].
Definition SUPPORTED : list string := map fst POSIX_SHAPES.

Definition row_eqb (a b : list dtok * list string * list ptok) : bool :=
  let '(d1, p1, t1) := a in let '(d2, p2, t2) := b in
  (if list_eq_dec dtok_eq_dec d1 d2 then true else false) &&
  (if list_eq_dec string_dec p1 p2 then true else false) &&
  (if list_eq_dec ptok_eq_dec t1 t2 then true else false).
Lemma row_eqb_eq a b : row_eqb a b = true -> a = b.
Proof.
  destruct a as [[d1 p1] t1], b as [[d2 p2] t2]. unfold row_eqb.
  destruct (list_eq_dec dtok_eq_dec d1 d2); [|discriminate].
  destruct (list_eq_dec string_dec p1 p2); [|discriminate].
  destruct (list_eq_dec ptok_eq_dec t1 t2); [|discriminate]. intros _. congruence.
Qed.

(* lookup_dir does not mention the section variables it is defined under *)
Definition lk := lookup_dir.
Definition has_dir (d : string) (t : list (string * (list dtok * list string * list ptok))) : bool :=
  match lk d t with Some _ => true | None => false end.

(* every row of the table has the POSIX shape of its directive, and every
   supported directive has a row *)
Definition table_ok (t : list (string * (list dtok * list string * list ptok))) : bool :=
  forallb (fun row => match lk (fst row) POSIX_SHAPES with
                      | Some v => row_eqb v (snd row) | None => false end) t &&
  forallb (fun row => has_dir (fst row) t) POSIX_SHAPES.

Theorem table_reflect : table_ok STRFTIME_TABLE = true /\ translator_ok_grammar = true.
Proof. vm_compute. split; reflexivity. Qed.

Lemma lk_In : forall d t v, lk d t = Some v -> In (d, v) t.
Proof.
  induction t as [|[k w] t IH]; intros v H; [discriminate|]. cbn [lk lookup_dir] in H.
  destruct (String.eqb k d) eqn:E.
  - apply String.eqb_eq in E. inversion H; subst. left. reflexivity.
  - right. apply IH. exact H.
Qed.
Lemma lk_None : forall d t, lk d t = None -> forall v, ~ In (d, v) t.
Proof.
  induction t as [|[k w] t IH]; intros H v I; [destruct I|]. cbn [lk lookup_dir] in H.
  destruct (String.eqb k d) eqn:E; [discriminate|].
  destruct I as [I|I]; [inversion I; subst; rewrite String.eqb_refl in E; discriminate|].
  exact (IH H v I).
Qed.

(* THE reflection lemma everything below goes through *)
Theorem table_lookup : forall d, lk d STRFTIME_TABLE = lk d POSIX_SHAPES.
Proof.
  intros d. pose proof (proj1 table_reflect) as T. unfold table_ok in T.
  apply andb_true_iff in T. destruct T as [T1 T2]. rewrite forallb_forall in T1, T2.
  destruct (lk d STRFTIME_TABLE) as [v|] eqn:E.
  - specialize (T1 _ (lk_In _ _ _ E)). cbn [fst snd] in T1.
    destruct (lk d POSIX_SHAPES) as [w|]; [|discriminate]. apply row_eqb_eq in T1. congruence.
  - destruct (lk d POSIX_SHAPES) as [w|] eqn:F; [|reflexivity]. exfalso.
    specialize (T2 _ (lk_In _ _ _ F)). cbn [fst] in T2. unfold has_dir in T2. rewrite E in T2. discriminate.
Qed.

(* a directive is a key of the table exactly when it is one of the eleven *)
Lemma lk_mem : forall d t, (match lk d t with Some _ => true | None => false end) = mem d (map fst t).
Proof.
  induction t as [|[k w] t IH]; [reflexivity|]. cbn [lk lookup_dir map fst mem existsb].
  rewrite String.eqb_sym. destruct (String.eqb d k); [reflexivity|]. exact IH.
Qed.
Theorem table_keys : forall d, mem d (map fst STRFTIME_TABLE) = mem d SUPPORTED.
Proof. intros d. unfold SUPPORTED. rewrite <- !lk_mem. rewrite table_lookup. reflexivity. Qed.

(* ================================================================== *)
(* 3. the format: splitting, the two template builders, refusal        *)
(* ================================================================== *)
Definition dtable := list (string * (list dtok * list string * list ptok)).

(* the local `build` functions of Model/Strftime.v, named *)
Fixpoint build_d (T : dtable) (items : list fitem) : option (list dtok * list string) :=
  match items with
  | [] => Some ([], [])
  | FLit s :: r => match build_d T r with Some (t, ps) => Some (DLit s :: t, ps) | None => None end
  | FDir d :: r =>
    match lookup_dir d T, build_d T r with
    | Some (dt, dp, _), Some (t, ps) => Some (dt ++ t, dp ++ ps)%list
    | _, _ => None
    end
  end.
Fixpoint build_p (T : dtable) (items : list fitem) : option (list ptok) :=
  match items with
  | [] => Some []
  | FLit s :: r => match build_p T r with Some t => Some (PLit s :: t) | None => None end
  | FDir d :: r =>
    match lookup_dir d T, build_p T r with
    | Some (_, _, pt), Some t => Some (pt ++ t)%list
    | _, _ => None
    end
  end.

Definition stray_pct (items : list fitem) : bool :=
  existsb (fun it => match it with FLit l => contains_char "%" l | FDir _ => false end) items.

Lemma strftime_unfold ned T md p fmt :
  strftime ned T md p fmt =
  match build_d T (split_format fmt "") with
  | None => DSyntax
  | Some (tmpl, props) =>
    match (match tdate p with
           | Wk _ _ _ => match to_calendar_date md (tdate p) with Some d => Some (with_date p d) | None => None end
           | _ => Some p end) with
    | Some q => if stray_pct (split_format fmt "") then DUnmodelled
                else dump_with ned md (normalised md q) tmpl props None
    | None => DErr
    end
  end.
Proof. reflexivity. Qed.

Definition is_date_key (k : string) : bool :=
  mem k ["year_sign"; "century"; "year_of_century"; "month_of_year"; "day_of_year";
         "day_of_month"; "week_of_year"; "day_of_week"; "year_of_decade"; "expanded_year_digits"].
Definition is_time_key (k : string) : bool :=
  mem k ["minute_of_hour"; "hour_of_day"; "hour_of_day_decimal_string";
         "minute_of_hour_decimal_string"; "second_of_minute"; "second_of_minute_decimal_string"].

Lemma strptime_unfold T md cfg text fmt :
  strptime T md cfg text fmt =
  match build_p T (split_format fmt "") with
  | None => PErr ESyntax
  | Some toks =>
    match pmatch toks text [] with
    | None => PErr ESyntax
    | Some e =>
      match lookup_env "seconds_since_unix_epoch" e with
      | Some _ => PErr EUnmodelled
      | None =>
        let de := filter (fun kv => is_date_key (fst kv)) e in
        let te := filter (fun kv => is_time_key (fst kv)) e in
        let ze := filter (fun kv => negb (is_date_key (fst kv)) && negb (is_time_key (fst kv))) e in
        match process_zone cfg ze with
        | PErr x => PErr x
        | POk z => create_timepoint md cfg (mkInfo de te z "") "" false
        end
      end
    end
  end.
Proof. reflexivity. Qed.

(* a '%' followed by a word character is always a directive item *)
Lemma split_fmt_dir : forall a c b cur pct, is_word c = true ->
  In (FDir (String "%" (String c ""))) (split_fmt (a ++ String "%" (String c b)) cur pct).
Proof.
  induction a as [|x a IH]; intros c b cur pct W.
  - cbn [append split_fmt]. change (is_word "%") with false. rewrite Ascii.eqb_refl.
    destruct pct; cbn [split_fmt]; rewrite W; apply in_or_app; right; left; reflexivity.
  - cbn [append split_fmt]. destruct pct.
    + destruct (is_word x).
      * apply in_or_app. right. right. apply IH. exact W.
      * destruct (Ascii.eqb x "%"); apply IH; exact W.
    + destruct (Ascii.eqb x "%"); apply IH; exact W.
Qed.

Lemma build_d_refuses : forall T items d, In (FDir d) items -> lookup_dir d T = None -> build_d T items = None.
Proof.
  induction items as [|it items IH]; intros d I L; [destruct I|].
  destruct I as [I|I].
  - subst it. cbn [build_d]. rewrite L. reflexivity.
  - destruct it as [s|d']; cbn [build_d]; rewrite (IH d I L); [reflexivity|].
    destruct (lookup_dir d' T) as [[[? ?] ?]|]; reflexivity.
Qed.
Lemma build_p_refuses : forall T items d, In (FDir d) items -> lookup_dir d T = None -> build_p T items = None.
Proof.
  induction items as [|it items IH]; intros d I L; [destruct I|].
  destruct I as [I|I].
  - subst it. cbn [build_p]. rewrite L. reflexivity.
  - destruct it as [s|d']; cbn [build_p]; rewrite (IH d I L); [reflexivity|].
    destruct (lookup_dir d' T) as [[[? ?] ?]|]; reflexivity.
Qed.

(* C17, last sentence: any %-letter directive outside the table is refused by
   both functions with StrftimeSyntaxError (a ValueError) *)
Theorem unsupported_refused : forall ned md cfg p text a c b,
  is_word c = true -> mem (String "%" (String c "")) SUPPORTED = false ->
  let fmt := a ++ String "%" (String c b) in
  strftime ned STRFTIME_TABLE md p fmt = DSyntax /\
  strptime STRFTIME_TABLE md cfg text fmt = PErr ESyntax.
Proof.
  intros ned md cfg p text a c b W M fmt.
  assert (L : lookup_dir (String "%" (String c "")) STRFTIME_TABLE = None).
  { rewrite <- table_keys, <- lk_mem in M. unfold lk in M.
    destruct (lookup_dir (String "%" (String c "")) STRFTIME_TABLE); [discriminate|reflexivity]. }
  pose proof (split_fmt_dir a c b "" false W) as I. fold (split_format (a ++ String "%" (String c b)) "") in I.
  split.
  - rewrite strftime_unfold. unfold fmt. rewrite (build_d_refuses _ _ _ I L). reflexivity.
  - rewrite strptime_unfold. unfold fmt. rewrite (build_p_refuses _ _ _ I L). reflexivity.
Qed.
