(* Proofs/StrftimeSpec.v -- property C17: strftime prints the POSIX text of the
   civil date-time (Spec/Posix.v) for the supported directives, refuses every
   other %-letter directive, and strptime reads the text back.
   The generated STRFTIME_TABLE is used only through the closed reflection
   lemma table_lookup (and C17_table): every theorem is re-checked against
   whatever the table contains on the run. *)
From Coq Require Import QArith Qround Qabs Lqa String Ascii.
From Iso Require Import Proofs.Tac Spec.Cal Spec.Instant Spec.NextMatch Spec.FormText Spec.Posix
  Model.Num Model.Helpers Model.Duration Model.TimePoint Model.Forms Model.Parse Model.LocalZone
  Model.Dump Model.Strftime Model.DriverText gen.Grammar
  Proofs.HelpersSpec Proofs.ConvSpec Proofs.TickSpec Proofs.AddSpec Proofs.CmpSpec Proofs.MonthSpec
  Proofs.NextMatchSpec Proofs.EpochSpec Proofs.MatchSpec Proofs.ConstructSpec.
Import ListNotations.
Local Open Scope string_scope.
Open Scope Z_scope.

(* ================================================================== *)
(* 1. numerals: the dumper's %0Wd padding is the spec's digit string   *)
(* ================================================================== *)
Lemma digit_char_is_digit k : 0 <= k <= 9 -> is_digit (digit_char k) = true.
Proof.
  intros H.
  assert (C : k = 0 \/ k = 1 \/ k = 2 \/ k = 3 \/ k = 4 \/ k = 5 \/ k = 6 \/ k = 7 \/ k = 8 \/ k = 9) by lia.
  repeat (destruct C as [C|C]; [subst k; reflexivity|]). subst k. reflexivity.
Qed.

Lemma length_app (a b : string) : String.length (a ++ b) = (String.length a + String.length b)%nat.
Proof. induction a; simpl; congruence. Qed.

(* any w, any n: exactly w digits *)
Lemma digs_digits : forall w n, digits_n w (digs w n) = true.
Proof.
  unfold digits_n. induction w as [|w IH]; intros n; [reflexivity|].
  cbn [digs]. specialize (IH (n / 10)). apply andb_true_iff in IH. destruct IH as [L A].
  apply Nat.eqb_eq in L. rewrite length_app, all_digits_app, A, L. cbn [String.length all_digits].
  rewrite digit_char_is_digit by lia. rewrite Nat.add_1_r, Nat.eqb_refl. reflexivity.
Qed.

Definition pad_digs_check (w N : nat) : bool :=
  forallb (fun k => String.eqb (pad_num w (Z.of_nat k)) (digs w (Z.of_nat k))) (seq 0 N).
Lemma pad_digs_aux : forall w N n, pad_digs_check w N = true -> 0 <= n < Z.of_nat N -> pad_num w n = digs w n.
Proof.
  intros w N n C R. unfold pad_digs_check in C. rewrite forallb_forall in C.
  specialize (C (Z.to_nat n)). rewrite Z2Nat.id in C by lia.
  apply String.eqb_eq. apply C. apply in_seq. lia.
Qed.
Lemma pad_digs_2 : forall n, 0 <= n < 100 -> pad_num 2 n = digs 2 n.
Proof. intros. apply (pad_digs_aux 2 100); [vm_compute; reflexivity|lia]. Qed.
Lemma pad_digs_3 : forall n, 0 <= n < 1000 -> pad_num 3 n = digs 3 n.
Proof. intros. apply (pad_digs_aux 3 1000); [vm_compute; reflexivity|lia]. Qed.

Lemma dnum_digs_2 : forall n, 0 <= n < 100 -> dnum (digs 2 n) = n.
Proof. intros n H. rewrite <- pad_digs_2 by assumption. apply pad_num_2. assumption. Qed.
Lemma dnum_digs_3 : forall n, 0 <= n < 1000 -> dnum (digs 3 n) = n.
Proof. intros n H. rewrite <- pad_digs_3 by assumption. apply pad_num_3. assumption. Qed.

(* the four-digit year is century then year of century *)
Lemma digs4_split : forall y, digs 4 y = digs 2 (y / 100) ++ digs 2 (y mod 100).
Proof.
  intros y. cbn [digs append].
  replace (y / 10 / 10 / 10) with (y / 100 / 10) by lia.
  replace (y / 10 / 10 mod 10) with ((y / 100) mod 10) by lia.
  replace (y / 10 mod 10) with ((y mod 100) / 10 mod 10) by lia.
  replace (y mod 100 mod 10) with (y mod 10) by lia.
  reflexivity.
Qed.

(* ================================================================== *)
(* 2. the generated table, by reflection                               *)
(* ================================================================== *)
(* the POSIX shape of each supported directive in the package's own template
   language: dump template, the properties it reads, the regex it parses with *)
Definition POSIX_SHAPES : list (string * (list dtok * list string * list ptok)) :=
  [ ("%Y", ([DNum "century" 2; DNum "year_of_century" 2], ["century"; "year_of_century"],
            [PDig "century" 2; PDig "year_of_century" 2]));
    ("%m", ([DNum "month_of_year" 2], ["month_of_year"], [PDig "month_of_year" 2]));
    ("%d", ([DNum "day_of_month" 2], ["day_of_month"], [PDig "day_of_month" 2]));
    ("%j", ([DNum "day_of_year" 3], ["day_of_year"], [PDig "day_of_year" 3]));
    ("%H", ([DNum "hour_of_day" 2], ["hour_of_day"], [PDig "hour_of_day" 2]));
    ("%M", ([DNum "minute_of_hour" 2], ["minute_of_hour"], [PDig "minute_of_hour" 2]));
    ("%S", ([DNum "second_of_minute" 2], ["second_of_minute"], [PDig "second_of_minute" 2]));
    ("%F", ([DNum "century" 2; DNum "year_of_century" 2; DLit "-"; DNum "month_of_year" 2; DLit "-"; DNum "day_of_month" 2],
            ["century"; "year_of_century"; "month_of_year"; "day_of_month"],
            [PDig "century" 2; PDig "year_of_century" 2; PLit "-"; PDig "month_of_year" 2; PLit "-"; PDig "day_of_month" 2]));
    ("%X", ([DNum "hour_of_day" 2; DLit ":"; DNum "minute_of_hour" 2; DLit ":"; DNum "second_of_minute" 2],
            ["hour_of_day"; "minute_of_hour"; "second_of_minute"],
            [PDig "hour_of_day" 2; PLit ":"; PDig "minute_of_hour" 2; PLit ":"; PDig "second_of_minute" 2]));
    ("%z", ([DStr "time_zone_sign"; DNum "time_zone_hour_abs" 2; DNum "time_zone_minute_abs" 2],
            ["time_zone_sign"; "time_zone_hour_abs"; "time_zone_minute_abs"],
            [PSign "time_zone_sign"; PDig "time_zone_hour" 2; PDig "time_zone_minute" 2]));
    ("%s", ([DStr "seconds_since_unix_epoch"], ["seconds_since_unix_epoch"], [PUnix "seconds_since_unix_epoch"])) ].
Definition SUPPORTED : list string := map fst POSIX_SHAPES.

Definition row_eqb (a b : list dtok * list string * list ptok) : bool :=
  let '(d1, p1, t1) := a in let '(d2, p2, t2) := b in
  (if list_eq_dec dtok_eq_dec d1 d2 then true else false) &&
  (if list_eq_dec string_dec p1 p2 then true else false) &&
  (if list_eq_dec ptok_eq_dec t1 t2 then true else false).
Lemma row_eqb_eq a b : row_eqb a b = true -> a = b.
Proof.
  destruct a as [[d1 p1] t1], b as [[d2 p2] t2]. unfold row_eqb.
  destruct (list_eq_dec dtok_eq_dec d1 d2); [|discriminate].
  destruct (list_eq_dec string_dec p1 p2); [|discriminate].
  destruct (list_eq_dec ptok_eq_dec t1 t2); [|discriminate]. intros _. congruence.
Qed.

(* lookup_dir does not mention the section variables it is defined under *)
Definition lk := lookup_dir.
Definition has_dir (d : string) (t : list (string * (list dtok * list string * list ptok))) : bool :=
  match lk d t with Some _ => true | None => false end.

(* every row of the table has the POSIX shape of its directive, and every
   supported directive has a row *)
Definition table_ok (t : list (string * (list dtok * list string * list ptok))) : bool :=
  forallb (fun row => match lk (fst row) POSIX_SHAPES with
                      | Some v => row_eqb v (snd row) | None => false end) t &&
  forallb (fun row => has_dir (fst row) t) POSIX_SHAPES.

Theorem table_reflect : table_ok STRFTIME_TABLE = true /\ translator_ok_grammar = true.
Proof. vm_compute. split; reflexivity. Qed.

Lemma lk_In : forall d t v, lk d t = Some v -> In (d, v) t.
Proof.
  induction t as [|[k w] t IH]; intros v H; [discriminate|]. cbn [lk lookup_dir] in H.
  destruct (String.eqb k d) eqn:E.
  - apply String.eqb_eq in E. inversion H; subst. left. reflexivity.
  - right. apply IH. exact H.
Qed.
Lemma lk_None : forall d t, lk d t = None -> forall v, ~ In (d, v) t.
Proof.
  induction t as [|[k w] t IH]; intros H v I; [destruct I|]. cbn [lk lookup_dir] in H.
  destruct (String.eqb k d) eqn:E; [discriminate|].
  destruct I as [I|I]; [inversion I; subst; rewrite String.eqb_refl in E; discriminate|].
  exact (IH H v I).
Qed.

(* THE reflection lemma everything below goes through *)
Theorem table_lookup : forall d, lk d STRFTIME_TABLE = lk d POSIX_SHAPES.
Proof.
  intros d. pose proof (proj1 table_reflect) as T. unfold table_ok in T.
  apply andb_true_iff in T. destruct T as [T1 T2]. rewrite forallb_forall in T1, T2.
  destruct (lk d STRFTIME_TABLE) as [v|] eqn:E.
  - specialize (T1 _ (lk_In _ _ _ E)). cbn [fst snd] in T1.
    destruct (lk d POSIX_SHAPES) as [w|]; [|discriminate]. apply row_eqb_eq in T1. congruence.
  - destruct (lk d POSIX_SHAPES) as [w|] eqn:F; [|reflexivity]. exfalso.
    specialize (T2 _ (lk_In _ _ _ F)). cbn [fst] in T2. unfold has_dir in T2. rewrite E in T2. discriminate.
Qed.

(* a directive is a key of the table exactly when it is one of the eleven *)
Lemma lk_mem : forall d t, (match lk d t with Some _ => true | None => false end) = mem d (map fst t).
Proof.
  induction t as [|[k w] t IH]; [reflexivity|]. cbn [lk lookup_dir map fst mem existsb].
  rewrite String.eqb_sym. destruct (String.eqb d k); [reflexivity|]. exact IH.
Qed.
Theorem table_keys : forall d, mem d (map fst STRFTIME_TABLE) = mem d SUPPORTED.
Proof. intros d. unfold SUPPORTED. rewrite <- !lk_mem. rewrite table_lookup. reflexivity. Qed.

(* ================================================================== *)
(* 3. the format: splitting, the two template builders, refusal        *)
(* ================================================================== *)
Definition dtable := list (string * (list dtok * list string * list ptok)).

(* the local `build` functions of Model/Strftime.v, named *)
Section Build.
Variable T : dtable.
Fixpoint build_d (items : list fitem) : option (list dtok * list string) :=
  match items with
  | [] => Some ([], [])
  | FLit s :: r => match build_d r with Some (t, ps) => Some (DLit s :: t, ps) | None => None end
  | FDir d :: r =>
    match lookup_dir d T, build_d r with
    | Some (dt, dp, _), Some (t, ps) => Some (dt ++ t, dp ++ ps)%list
    | _, _ => None
    end
  end.
Fixpoint build_p (items : list fitem) : option (list ptok) :=
  match items with
  | [] => Some []
  | FLit s :: r => match build_p r with Some t => Some (PLit s :: t) | None => None end
  | FDir d :: r =>
    match lookup_dir d T, build_p r with
    | Some (_, _, pt), Some t => Some (pt ++ t)%list
    | _, _ => None
    end
  end.
End Build.

Definition stray_pct (items : list fitem) : bool :=
  existsb (fun it => match it with FLit l => contains_char "%" l | FDir _ => false end) items.

Lemma strftime_unfold ned T md p fmt :
  strftime ned T md p fmt =
  match build_d T (split_format fmt "") with
  | None => DSyntax
  | Some (tmpl, props) =>
    match (match tdate p with
           | Wk _ _ _ => match to_calendar_date md (tdate p) with Some d => Some (with_date p d) | None => None end
           | _ => Some p end) with
    | Some q => if stray_pct (split_format fmt "") then DUnmodelled
                else dump_with ned md (normalised md q) tmpl props None
    | None => DErr
    end
  end.
Proof. reflexivity. Qed.

Definition is_date_key (k : string) : bool :=
  mem k ["year_sign"; "century"; "year_of_century"; "month_of_year"; "day_of_year";
         "day_of_month"; "week_of_year"; "day_of_week"; "year_of_decade"; "expanded_year_digits"].
Definition is_time_key (k : string) : bool :=
  mem k ["minute_of_hour"; "hour_of_day"; "hour_of_day_decimal_string";
         "minute_of_hour_decimal_string"; "second_of_minute"; "second_of_minute_decimal_string"].

Definition is_zone_key (k : string) : bool := negb (is_date_key k) && negb (is_time_key k).

(* the body of strptime once the regex is built *)
Definition after_build (md : mode) (cfg : pcfg) (toks : list ptok) (text : string) : pres ptp :=
  match pmatch toks text [] with
  | None => PErr ESyntax
  | Some e =>
    match lookup_env "seconds_since_unix_epoch" e with
    | Some _ => PErr EUnmodelled
    | None =>
      let de := filter (fun kv => is_date_key (fst kv)) e in
      let te := filter (fun kv => is_time_key (fst kv)) e in
      let ze := filter (fun kv => is_zone_key (fst kv)) e in
      match process_zone cfg ze with
      | PErr x => PErr x
      | POk z => create_timepoint md cfg (mkInfo de te z "") "" false
      end
    end
  end.
Lemma strptime_unfold T md cfg text fmt :
  strptime T md cfg text fmt =
  match build_p T (split_format fmt "") with
  | None => PErr ESyntax
  | Some toks => after_build md cfg toks text
  end.
Proof. reflexivity. Qed.

(* a '%' followed by a word character is always a directive item *)
Lemma split_fmt_dir : forall a c b cur pct, is_word c = true ->
  In (FDir (String "%" (String c ""))) (split_fmt (a ++ String "%" (String c b)) cur pct).
Proof.
  induction a as [|x a IH]; intros c b cur pct W.
  - cbn [append split_fmt]. change (is_word "%") with false. rewrite Ascii.eqb_refl.
    destruct pct; cbn [split_fmt]; rewrite W; apply in_or_app; right; left; reflexivity.
  - cbn [append split_fmt]. destruct pct.
    + destruct (is_word x).
      * apply in_or_app. right. right. apply IH. exact W.
      * destruct (Ascii.eqb x "%"); apply IH; exact W.
    + destruct (Ascii.eqb x "%"); apply IH; exact W.
Qed.

Lemma build_d_refuses : forall T items d, In (FDir d) items -> lookup_dir d T = None -> build_d T items = None.
Proof.
  induction items as [|it items IH]; intros d I L; [destruct I|].
  destruct I as [I|I].
  - subst it. cbn [build_d]. rewrite L. reflexivity.
  - destruct it as [s|d']; cbn [build_d]; rewrite (IH d I L); [reflexivity|].
    destruct (lookup_dir d' T) as [[[? ?] ?]|]; reflexivity.
Qed.
Lemma build_p_refuses : forall T items d, In (FDir d) items -> lookup_dir d T = None -> build_p T items = None.
Proof.
  induction items as [|it items IH]; intros d I L; [destruct I|].
  destruct I as [I|I].
  - subst it. cbn [build_p]. rewrite L. reflexivity.
  - destruct it as [s|d']; cbn [build_p]; rewrite (IH d I L); [reflexivity|].
    destruct (lookup_dir d' T) as [[[? ?] ?]|]; reflexivity.
Qed.

(* C17, last sentence: any %-letter directive outside the table is refused by
   both functions with StrftimeSyntaxError (a ValueError) *)
Theorem unsupported_refused : forall ned md cfg p text a c b,
  is_word c = true -> mem (String "%" (String c "")) SUPPORTED = false ->
  let fmt := a ++ String "%" (String c b) in
  strftime ned STRFTIME_TABLE md p fmt = DSyntax /\
  strptime STRFTIME_TABLE md cfg text fmt = PErr ESyntax.
Proof.
  intros ned md cfg p text a c b W M fmt.
  assert (L : lookup_dir (String "%" (String c "")) STRFTIME_TABLE = None).
  { rewrite <- table_keys, <- lk_mem in M. unfold lk in M.
    destruct (lookup_dir (String "%" (String c "")) STRFTIME_TABLE); [discriminate|reflexivity]. }
  pose proof (split_fmt_dir a c b "" false W) as I. fold (split_format (a ++ String "%" (String c b)) "") in I.
  split.
  - rewrite strftime_unfold. unfold fmt. rewrite (build_d_refuses _ _ _ I L). reflexivity.
  - rewrite strptime_unfold. unfold fmt. rewrite (build_p_refuses _ _ _ I L). reflexivity.
Qed.

(* ================================================================== *)
(* 4. the civil fields of a normal calendar/ordinal point              *)
(* ================================================================== *)
Lemma floor_unique x n : (inject_Z n <= x)%Q -> (x < inject_Z (n + 1))%Q -> Qfloor x = n.
Proof. intros A B. pose proof (floor_range x n (n + 1) A B). lia. Qed.

Lemma floor_add_int k s : Qfloor (inject_Z k + s) = k + Qfloor s.
Proof.
  apply floor_unique.
  - rewrite inject_Z_plus. pose proof (Qfloor_le s). lra.
  - replace (k + Qfloor s + 1) with (k + (Qfloor s + 1)) by lia. rewrite inject_Z_plus.
    pose proof (Qlt_floor s). lra.
Qed.

Lemma local_secs_eq md r :
  (local_secs md r == inject_Z (86400 * date_dn md (tdate r)) + tod_secs (ttod r))%Q.
Proof. unfold local_secs, instant, qz. ring. Qed.

Lemma local_day md r : normal_tod (ttod r) = true ->
  Qfloor (local_secs md r / qz 86400) = date_dn md (tdate r).
Proof.
  intros N. destruct (tod_secs_range _ N) as [A B].
  set (n := date_dn md (tdate r)).
  assert (E : (local_secs md r == 86400 * inject_Z n + tod_secs (ttod r))%Q).
  { rewrite local_secs_eq. fold n. rewrite inject_Z_mult. reflexivity. }
  apply floor_unique; rewrite E, ?inject_Z_plus; unfold qz;
    change (inject_Z 86400) with 86400%Q; change (inject_Z 1) with 1%Q.
  - apply Qle_shift_div_l; lra.
  - apply Qlt_shift_div_r; lra.
Qed.

Lemma local_sod md r : normal_tod (ttod r) = true ->
  Qfloor (local_secs md r - qz (86400 * Qfloor (local_secs md r / qz 86400))) = Qfloor (tod_secs (ttod r)).
Proof.
  intros N. rewrite (local_day md r N). apply Qfloor_comp. rewrite local_secs_eq. unfold qz. ring.
Qed.

(* the minute the dumper prints *)
Definition pv_min (t : tod) : Q :=
  match t with HMS _ m _ | HM _ m => m | HH _ => snd (fst (get_hour_minute_second t)) end.

Lemma tod_fields t : normal_tod t = true ->
  let T := Qfloor (tod_secs t) in
  qtrunc (tod_hour t) = T / 3600 /\ qtrunc (pv_min t) = (T / 60) mod 60 /\
  qtrunc (snd (get_hour_minute_second t)) = T mod 60 /\ 0 <= T < 86400.
Proof.
  intros N T. pose proof (hms_spec t N) as H.
  destruct (get_hour_minute_second t) as [[h m] s] eqn:E.
  destruct H as (hz & mz & Hh & Hm & Rh & Rm & S1 & S2 & ET).
  assert (FT : T = 3600 * hz + 60 * mz + Qfloor s).
  { unfold T. rewrite <- floor_add_int. apply Qfloor_comp. rewrite <- ET, Hh, Hm.
    rewrite !inject_Z_plus, !inject_Z_mult. change (inject_Z 3600) with 3600%Q. change (inject_Z 60) with 60%Q. ring. }
  pose proof (floor_range s 0 60 S1 S2) as Fs.
  assert (Qs : qtrunc s = Qfloor s) by (apply qtrunc_nonneg; exact S1).
  assert (QH : qtrunc (tod_hour t) = hz /\ qtrunc (pv_min t) = mz).
  { destruct t as [h0 m0 s0 | h0 m0 | h0]; cbn [get_hour_minute_second tod_hour pv_min] in *.
    - inversion E; subst. split; apply qtrunc_int; assumption.
    - inversion E; subst. split; [apply qtrunc_int; assumption|].
      apply inject_Z_injective. exact Hm.
    - inversion E; subst. cbn [fst snd]. split; [apply inject_Z_injective; exact Hh|].
      apply qtrunc_int. exact Hm. }
  destruct QH as [Q1 Q2]. cbn [snd]. rewrite Q1, Q2, Qs. clearbody T. subst T. repeat split; lia.
Qed.

Lemma cal_of_dn_year md n : fst (fst (cal_of_dn md n)) = fst (ord_of_dn md n).
Proof.
  unfold cal_of_dn. destruct (ord_of_dn md n) as [y doy].
  destruct (month_of_doy md y 11 1 doy) as [m d]. reflexivity.
Qed.

(* what the dumper reads from a normal, non-week point: exactly the civil fields *)
Lemma civil_normal md r : normal_tp md r = true -> rep_kind (tdate r) <> 2 ->
  let c := civil_at md r in
  get_calendar_date md (tdate r) = Some (cy c, cm c, cd c) /\
  get_ordinal_date md (tdate r) = Some (cy c, cdoy c) /\
  date_year (tdate r) = cy c /\
  qtrunc (tod_hour (ttod r)) = ch c /\ qtrunc (pv_min (ttod r)) = cmi c /\
  qtrunc (snd (get_hour_minute_second (ttod r))) = cs c /\
  valid_cal md (cy c) (cm c) (cd c) = true /\ valid_ord md (cy c) (cdoy c) = true /\
  0 <= ch c < 24 /\ 0 <= cmi c < 60 /\ 0 <= cs c < 60 /\
  dn_cal md (cy c) (cm c) (cd c) = date_dn md (tdate r) /\
  Qfloor (tod_secs (ttod r)) = 3600 * ch c + 60 * cmi c + cs c.
Proof.
  intros N K c. destruct (normal_tp_parts md r N) as (VD & NT & VZ).
  unfold c, civil_at. cbn [cy cm cd cdoy ch cmi cs].
  rewrite (local_sod md r NT), (local_day md r NT).
  set (n := date_dn md (tdate r)).
  destruct (tod_fields _ NT) as (F1 & F2 & F3 & F4). cbv zeta in F1, F2, F3, F4.
  set (T := Qfloor (tod_secs (ttod r))) in *.
  pose proof (cal_of_dn_spec md n) as CS. pose proof (ord_of_dn_spec md n) as OS.
  pose proof (cal_of_dn_year md n) as CY.
  destruct (cal_of_dn md n) as [[y m] d]. destruct (ord_of_dn md n) as [y' doy]. cbn [fst snd] in *. subst y'.
  destruct CS as [CV CD]. destruct OS as [OV OD].
  destruct (CmpSpec.get_calendar_date_spec md _ VD) as (y1 & m1 & d1 & E1 & V1 & D1).
  destruct (get_ordinal_date_spec md _ VD) as (y2 & doy2 & E2 & V2 & D2).
  fold n in D1, D2.
  pose proof (dn_cal_inj md y1 m1 d1 y m d V1 CV ltac:(congruence)) as I1. inversion I1; subst y1 m1 d1.
  pose proof (dn_ord_inj md y2 doy2 y doy V2 OV ltac:(congruence)) as I2. inversion I2; subst y2 doy2.
  assert (DY : date_year (tdate r) = y).
  { destruct (tdate r) as [a b e | a b | a b e]; cbn [date_year get_calendar_date get_ordinal_date rep_kind] in *.
    - congruence.
    - congruence.
    - exfalso. apply K. reflexivity. }
  repeat split; try assumption; try lia.
Qed.

(* the civil date-time depends on the instant and the zone only *)
Lemma civil_at_ext md p r : (instant md p == instant md r)%Q -> tzone p = tzone r -> civil_at md p = civil_at md r.
Proof.
  intros I Z. unfold civil_at.
  assert (L : (local_secs md p == local_secs md r)%Q) by (unfold local_secs; rewrite I, Z; reflexivity).
  assert (E1 : Qfloor (local_secs md p / qz 86400) = Qfloor (local_secs md r / qz 86400))
    by (apply Qfloor_comp; rewrite L; reflexivity).
  rewrite E1.
  assert (E2 : Qfloor (local_secs md p - qz (86400 * Qfloor (local_secs md r / qz 86400))) =
               Qfloor (local_secs md r - qz (86400 * Qfloor (local_secs md r / qz 86400))))
    by (apply Qfloor_comp; rewrite L; reflexivity).
  rewrite E2.
  assert (E3 : Qfloor (instant md p - epoch_instant md) = Qfloor (instant md r - epoch_instant md))
    by (apply Qfloor_comp; rewrite I; reflexivity).
  rewrite E3, Z. reflexivity.
Qed.

(* ================================================================== *)
(* 5. what the dumper prints for each template                         *)
(* ================================================================== *)
Ltac pv_tac p := unfold prop_value; destruct (get_hour_minute_second (ttod p)) as [[?h ?mi] ?s]; reflexivity.
Lemma pv_century md p : prop_value md p "century" = VInt ((Z.abs (date_year (tdate p)) mod 10000) / 100).
Proof. pv_tac p. Qed.
Lemma pv_yoc md p : prop_value md p "year_of_century" = VInt (Z.abs (date_year (tdate p)) mod 100).
Proof. pv_tac p. Qed.
Lemma pv_month md p : prop_value md p "month_of_year" =
  match get_calendar_date md (tdate p) with Some (_, m, _) => VInt m | None => VNone end.
Proof. pv_tac p. Qed.
Lemma pv_dom md p : prop_value md p "day_of_month" =
  match get_calendar_date md (tdate p) with Some (_, _, d) => VInt d | None => VNone end.
Proof. pv_tac p. Qed.
Lemma pv_doy md p : prop_value md p "day_of_year" =
  match get_ordinal_date md (tdate p) with Some (_, d) => VInt d | None => VNone end.
Proof. pv_tac p. Qed.
Lemma pv_hour md p : prop_value md p "hour_of_day" = VInt (qtrunc (tod_hour (ttod p))).
Proof. pv_tac p. Qed.
Lemma pv_minute md p : prop_value md p "minute_of_hour" = VInt (qtrunc (pv_min (ttod p))).
Proof. unfold prop_value, pv_min. destruct (ttod p); reflexivity. Qed.
Lemma pv_second md p : prop_value md p "second_of_minute" = VInt (qtrunc (snd (get_hour_minute_second (ttod p)))).
Proof. unfold prop_value. destruct (get_hour_minute_second (ttod p)) as [[h mi] s]. reflexivity. Qed.
Lemma pv_zsign md p : prop_value md p "time_zone_sign" =
  VStr (if (zh (tzone p) <? 0) || (zm (tzone p) <? 0) then "-" else "+").
Proof. pv_tac p. Qed.
Lemma pv_zhour md p : prop_value md p "time_zone_hour_abs" = VInt (Z.abs (zh (tzone p))).
Proof. pv_tac p. Qed.
Lemma pv_zmin md p : prop_value md p "time_zone_minute_abs" = VInt (Z.abs (zm (tzone p))).
Proof. pv_tac p. Qed.
Lemma pv_unix md p : prop_value md p "seconds_since_unix_epoch" =
  match seconds_since_unix_epoch md p with Some k => VStr (show_Z k) | None => VNone end.
Proof. pv_tac p. Qed.

Lemma render_app md r : forall a b,
  render md r (a ++ b) = match render md r a, render md r b with
                         | Some x, Some y => Some (x ++ y) | _, _ => None end.
Proof.
  induction a as [|t a IH]; intros b.
  - cbn [List.app render]. destruct (render md r b); reflexivity.
  - cbn [List.app]. destruct t as [s|nm w|nm]; cbn [render]; rewrite IH.
    + destruct (render md r a), (render md r b); try reflexivity. rewrite sapp_assoc. reflexivity.
    + destruct (prop_value md r nm); try reflexivity; try (destruct (render md r a); reflexivity).
      destruct (render md r a), (render md r b); try reflexivity. rewrite sapp_assoc. reflexivity.
    + destruct (prop_value md r nm); try reflexivity; try (destruct (render md r a); reflexivity).
      destruct (render md r a), (render md r b); try reflexivity. rewrite sapp_assoc. reflexivity.
Qed.

(* the posix_dir equations, one per directive *)
Lemma pd_Y c : posix_dir c "%Y" = posix_year c. Proof. reflexivity. Qed.
Lemma pd_m c : posix_dir c "%m" = Some (digs 2 (cm c)). Proof. reflexivity. Qed.
Lemma pd_d c : posix_dir c "%d" = Some (digs 2 (cd c)). Proof. reflexivity. Qed.
Lemma pd_j c : posix_dir c "%j" = Some (digs 3 (cdoy c)). Proof. reflexivity. Qed.
Lemma pd_H c : posix_dir c "%H" = Some (digs 2 (ch c)). Proof. reflexivity. Qed.
Lemma pd_M c : posix_dir c "%M" = Some (digs 2 (cmi c)). Proof. reflexivity. Qed.
Lemma pd_S c : posix_dir c "%S" = Some (digs 2 (cs c)). Proof. reflexivity. Qed.
Lemma pd_F c : posix_dir c "%F" =
  match posix_year c with Some y => Some (y ++ "-" ++ digs 2 (cm c) ++ "-" ++ digs 2 (cd c)) | None => None end.
Proof. reflexivity. Qed.
Lemma pd_X c : posix_dir c "%X" = Some (digs 2 (ch c) ++ ":" ++ digs 2 (cmi c) ++ ":" ++ digs 2 (cs c)).
Proof. reflexivity. Qed.
Lemma pd_z c : posix_dir c "%z" =
  Some ((if 60 * czh c + czm c <? 0 then "-" else "+") ++
        digs 2 (Z.abs (60 * czh c + czm c) / 60) ++ digs 2 (Z.abs (60 * czh c + czm c) mod 60)).
Proof. reflexivity. Qed.
Lemma pd_s c : posix_dir c "%s" = Some (decimal (cunix c)). Proof. reflexivity. Qed.

(* the fields of a civil date-time are in the ranges POSIX prints them in *)
Record civil_ranges (md : mode) (c : civil) : Prop := {
  cr_year : 0 <= cy c <= 9999;
  cr_cal : valid_cal md (cy c) (cm c) (cd c) = true;
  cr_ord : valid_ord md (cy c) (cdoy c) = true;
  cr_h : 0 <= ch c < 24; cr_mi : 0 <= cmi c < 60; cr_s : 0 <= cs c < 60;
  cr_zone : valid_zone (mkZone (czh c) (czm c)) = true }.

Lemma civil_small md c : civil_ranges md c ->
  1 <= cm c <= 12 /\ 1 <= cd c <= 31 /\ 1 <= cdoy c <= 366.
Proof.
  intros R. destruct (cal_range _ _ _ _ (cr_cal _ _ R)) as (A & B & _).
  pose proof (mlen_bounds md (cy c) (cm c) A). pose proof (ord_range _ _ _ (cr_ord _ _ R)) as (C & _).
  pose proof (ylen_bounds md (cy c)). lia.
Qed.

Lemma zone_sign_abs a b : valid_zone (mkZone a b) = true ->
  ((a <? 0) || (b <? 0)) = (60 * a + b <? 0) /\
  Z.abs (60 * a + b) / 60 = Z.abs a /\ Z.abs (60 * a + b) mod 60 = Z.abs b.
Proof.
  unfold valid_zone. cbn [zh zm]. intros V.
  destruct (0 <? a) eqn:E1; [|destruct (a <? 0) eqn:E2]; repeat split; lia.
Qed.

Section Render.
Variables (md : mode) (r : tp) (c : civil).
Hypothesis HC : get_calendar_date md (tdate r) = Some (cy c, cm c, cd c).
Hypothesis HO : get_ordinal_date md (tdate r) = Some (cy c, cdoy c).
Hypothesis HY : date_year (tdate r) = cy c.
Hypothesis HH : qtrunc (tod_hour (ttod r)) = ch c.
Hypothesis HM : qtrunc (pv_min (ttod r)) = cmi c.
Hypothesis HS : qtrunc (snd (get_hour_minute_second (ttod r))) = cs c.
Hypothesis HZ : tzone r = mkZone (czh c) (czm c).
Hypothesis R : civil_ranges md c.

Lemma render_shape : forall d v, In (d, v) POSIX_SHAPES ->
  (d = "%s" -> seconds_since_unix_epoch md r = Some (cunix c)) ->
  exists s, render md r (fst (fst v)) = Some s /\ posix_dir c d = Some s.
Proof.
  intros d v I HU.
  destruct (civil_small md c R) as (Rm & Rd & Rj).
  pose proof (cr_year _ _ R) as Ry. pose proof (cr_h _ _ R) as Rh. pose proof (cr_mi _ _ R) as Rmi.
  pose proof (cr_s _ _ R) as Rs.
  destruct (zone_sign_abs _ _ (cr_zone _ _ R)) as (Z1 & Z2 & Z3).
  assert (PY : posix_year c = Some (digs 4 (cy c))).
  { unfold posix_year. replace ((0 <=? cy c) && (cy c <=? 9999)) with true by lia. reflexivity. }
  assert (Ecen : Z.abs (cy c) mod 10000 / 100 = cy c / 100) by lia.
  assert (Eyoc : Z.abs (cy c) mod 100 = cy c mod 100) by lia.
  unfold POSIX_SHAPES in I. cbn [In] in I.
  repeat (destruct I as [I|I]; [inversion I; subst d v; clear I; cbn [fst snd render]|]); [..|destruct I];
    rewrite ?pv_century, ?pv_yoc, ?pv_month, ?pv_dom, ?pv_doy, ?pv_hour, ?pv_minute, ?pv_second,
            ?pv_zsign, ?pv_zhour, ?pv_zmin, ?pv_unix, ?HC, ?HO, ?HY, ?HH, ?HM, ?HS, ?HZ, ?Ecen, ?Eyoc;
    cbn [zh zm].
  - (* %Y *) rewrite pd_Y, PY, digs4_split, !pad_digs_2 by lia. eexists; split; [reflexivity|].
    rewrite sapp_nil_r. reflexivity.
  - rewrite pd_m, pad_digs_2 by lia. eexists; split; [reflexivity|]. rewrite sapp_nil_r. reflexivity.
  - rewrite pd_d, pad_digs_2 by lia. eexists; split; [reflexivity|]. rewrite sapp_nil_r. reflexivity.
  - rewrite pd_j, pad_digs_3 by lia. eexists; split; [reflexivity|]. rewrite sapp_nil_r. reflexivity.
  - rewrite pd_H, pad_digs_2 by lia. eexists; split; [reflexivity|]. rewrite sapp_nil_r. reflexivity.
  - rewrite pd_M, pad_digs_2 by lia. eexists; split; [reflexivity|]. rewrite sapp_nil_r. reflexivity.
  - rewrite pd_S, pad_digs_2 by lia. eexists; split; [reflexivity|]. rewrite sapp_nil_r. reflexivity.
  - (* %F *) rewrite pd_F, PY, digs4_split, !pad_digs_2 by lia. eexists; split; [reflexivity|].
    rewrite ?sapp_assoc, ?sapp_nil_r. reflexivity.
  - (* %X *) rewrite pd_X, !pad_digs_2 by lia. eexists; split; [reflexivity|].
    rewrite ?sapp_assoc, ?sapp_nil_r. reflexivity.
  - (* %z *) rewrite pd_z, Z1, Z2, Z3, !pad_digs_2 by (unfold valid_zone in R; pose proof (cr_zone _ _ R) as V;
                                                        unfold valid_zone in V; cbn [zh zm] in V; lia).
    eexists; split; [reflexivity|]. rewrite sapp_nil_r. reflexivity.
  - (* %s *) rewrite pd_s, (HU eq_refl). eexists; split; [reflexivity|]. rewrite sapp_nil_r. reflexivity.
Qed.

Definition supported_fmt (items : list fitem) : bool :=
  forallb (fun it => match it with FDir d => mem d SUPPORTED | FLit _ => true end) items.
(* some item is one of the directives ds *)
Definition uses (ds : list string) (items : list fitem) : bool :=
  existsb (fun it => match it with FDir d => mem d ds | FLit _ => false end) items.

Definition clean (props : list string) : bool :=
  negb (mem "week_of_year" props) && negb (mem "day_of_week" props) && negb (mem "expanded_year_digits" props).
Lemma shapes_clean : forallb (fun row => clean (snd (fst (snd row)))) POSIX_SHAPES = true.
Proof. vm_compute. reflexivity. Qed.
Lemma mem_app k a b : mem k (a ++ b) = mem k a || mem k b.
Proof. unfold mem. apply existsb_app. Qed.
Lemma clean_app a b : clean a = true -> clean b = true -> clean (a ++ b) = true.
Proof. unfold clean. rewrite !mem_app. intros A B. destruct (mem "week_of_year" a), (mem "day_of_week" a),
  (mem "expanded_year_digits" a); try discriminate A. exact B. Qed.

Lemma supported_lk d : mem d SUPPORTED = true -> exists v, lk d POSIX_SHAPES = Some v /\ lookup_dir d STRFTIME_TABLE = Some v.
Proof.
  intros M. unfold SUPPORTED in M. rewrite <- lk_mem in M.
  destruct (lk d POSIX_SHAPES) as [v|] eqn:E; [|discriminate]. exists v. split; [reflexivity|].
  rewrite <- E. apply table_lookup.
Qed.

Lemma build_render : forall items, supported_fmt items = true ->
  (uses ["%s"] items = true -> seconds_since_unix_epoch md r = Some (cunix c)) ->
  exists tmpl props s, build_d STRFTIME_TABLE items = Some (tmpl, props) /\ clean props = true /\
                       render md r tmpl = Some s /\ posix c items = Some s.
Proof.
  induction items as [|it items IH]; intros S HU.
  - exists [], [], "". repeat split; reflexivity.
  - cbn [supported_fmt forallb] in S. apply andb_true_iff in S. destruct S as [S1 S2].
    fold (supported_fmt items) in S2.
    destruct it as [l|d].
    + destruct (IH S2 HU) as (t & ps & s & B & C & Rn & P).
      exists (DLit l :: t), ps, (l ++ s). cbn [build_d render posix]. rewrite B, Rn, P. auto.
    + destruct (IH S2) as (t & ps & s & B & C & Rn & P).
      { intros U. apply HU. cbn [uses existsb]. fold (uses ["%s"] items). rewrite U. apply orb_true_r. }
      destruct (supported_lk d S1) as (v & L1 & L2). destruct v as [[dt dp] pt].
      pose proof (lk_In _ _ _ L1) as I.
      destruct (render_shape d _ I) as (s1 & R1 & P1).
      { intros ->. apply HU. reflexivity. }
      cbn [fst] in R1.
      exists (dt ++ t)%list, (dp ++ ps)%list, (s1 ++ s). cbn [build_d posix]. rewrite L2, B, render_app, R1, Rn, P1, P.
      repeat split; try reflexivity. apply clean_app; [|exact C].
      pose proof shapes_clean as SC. rewrite forallb_forall in SC. exact (SC _ I).
Qed.

Lemma dump_with_clean ned tmpl props s : clean props = true -> rep_kind (tdate r) <> 2 ->
  render md r tmpl = Some s -> dump_with ned md r tmpl props None = DOk s.
Proof.
  intros C K Rn. unfold clean in C. apply andb_true_iff in C. destruct C as [C C3].
  apply andb_true_iff in C. destruct C as [C1 C2]. apply negb_true_iff in C1, C2, C3.
  unfold dump_with. rewrite C1, C2, C3. cbn [orb andb].
  assert (W : (match tdate r with Wk _ _ _ => true | _ => false end) = false).
  { destruct (tdate r); try reflexivity. exfalso. apply K. reflexivity. }
  rewrite W. cbn [andb]. rewrite HY.
  pose proof (cr_year _ _ R) as Ry. replace ((0 <=? cy c) && (cy c <=? 9999)) with true by lia.
  cbn [negb]. rewrite andb_false_r. cbn [orb]. rewrite Rn. reflexivity.
Qed.
End Render.

(* ---------- the point strftime actually dumps ---------- *)
Lemma calendarised md p : valid_tp md p = true ->
  exists q, (match tdate p with
             | Wk _ _ _ => match to_calendar_date md (tdate p) with Some d => Some (with_date p d) | None => None end
             | _ => Some p end) = Some q /\
            valid_tp md q = true /\ (instant md q == instant md p)%Q /\ rep_kind (tdate q) <> 2 /\ tzone q = tzone p.
Proof.
  intros V. destruct (valid_tp_parts md p V) as (VD & VT & VZ).
  destruct (tdate p) as [y m d | y doy | y w d] eqn:E.
  - exists p. rewrite E. repeat split; try assumption; try reflexivity. discriminate.
  - exists p. rewrite E. repeat split; try assumption; try reflexivity. discriminate.
  - destruct (CmpSpec.get_calendar_date_spec md _ VD) as (y1 & m1 & d1 & E1 & V1 & D1).
    unfold to_calendar_date. rewrite E1. exists (with_date p (Cal y1 m1 d1)). split; [reflexivity|].
    unfold with_date. split; [|split; [|split; [discriminate|reflexivity]]].
    + unfold valid_tp. cbn [tdate ttod tzone valid_date]. rewrite V1, VT, VZ. reflexivity.
    + unfold instant. cbn [tdate ttod tzone date_dn]. rewrite E, D1. reflexivity.
Qed.

Lemma epoch_instant_eq md : (instant md unix_ref == epoch_instant md)%Q.
Proof.
  unfold instant, unix_ref, epoch_instant, zone_secs. cbn [tdate ttod tzone date_dn tod_secs zh zm].
  change (0 * 3600 + 0 * 60) with 0. unfold qz. change (inject_Z 0) with 0%Q. ring.
Qed.

(* %s: the package prints floor(seconds since the epoch), POSIX time_t is the
   same rounding down -- for every valid point, before the epoch included *)
Lemma unix_value md r : valid_tp md r = true ->
  seconds_since_unix_epoch md r = Some (cunix (civil_at md r)).
Proof.
  intros V. destruct (seconds_since_unix_epoch_spec md r V) as (k & E & K1 & _).
  rewrite E. f_equal. unfold civil_at. cbn [cunix]. pose proof (epoch_instant_eq md) as EE.
  rewrite K1. apply Qfloor_comp. rewrite EE. reflexivity.
Qed.

(* ================================================================== *)
(* 6. C17, first sentence                                              *)
(* ================================================================== *)
Theorem strftime_posix : forall ned md p fmt c,
  valid_tp md p = true -> civil_of md p = Some c -> 0 <= cy c <= 9999 ->
  supported_fmt (split_format fmt "") = true -> stray_pct (split_format fmt "") = false ->
  exists s, strftime ned STRFTIME_TABLE md p fmt = DOk s /\ posix c (split_format fmt "") = Some s.
Proof.
  intros ned md p fmt c V CO Ry S NS.
  unfold civil_of in CO. rewrite V in CO. inversion CO as [CE]. clear CO.
  destruct (calendarised md p V) as (q & Eq & Vq & Iq & Kq & Zq).
  destruct (normalised_spec md q Vq) as (Nr & Ir & Kr & _ & Zr).
  set (r := normalised md q) in *.
  assert (CE' : civil_at md p = civil_at md r).
  { apply civil_at_ext; [rewrite Ir, Iq; reflexivity | congruence]. }
  assert (Kr' : rep_kind (tdate r) <> 2) by congruence.
  destruct (civil_normal md r Nr Kr') as (HC & HO & HY & HH & HM & HS & VC & VO & Rh & Rm & Rs & _).
  destruct (normal_tp_parts md r Nr) as (_ & _ & VZ).
  assert (CR : civil_at md r = c) by congruence.
  rewrite CR in HC, HO, HY, HH, HM, HS, VC, VO, Rh, Rm, Rs.
  assert (HZ : tzone r = mkZone (czh c) (czm c)).
  { rewrite <- CR. unfold civil_at. cbn [czh czm]. destruct (tzone r); reflexivity. }
  assert (R : civil_ranges md c).
  { constructor; try assumption. rewrite <- HZ. exact VZ. }
  assert (HU' : uses ["%s"] (split_format fmt "") = true -> seconds_since_unix_epoch md r = Some (cunix c)).
  { intros _. rewrite <- CR. apply unix_value. apply normal_valid. exact Nr. }
  destruct (build_render md r c HC HO HY HH HM HS HZ R _ S HU') as (tmpl & props & s & B & C & Rn & P).
  exists s. split; [|rewrite ?CE; exact P].
  rewrite strftime_unfold, B, Eq, NS. fold r.
  eapply (dump_with_clean md r c); eassumption.
Qed.

(* ================================================================== *)
(* 7. strptime on the POSIX text                                       *)
(* ================================================================== *)
(* the regex of a supported format, and the text of each group *)
Definition toks_of (items : list fitem) : list ptok :=
  flat_map (fun it => match it with
                      | FLit l => [PLit l]
                      | FDir d => match lk d POSIX_SHAPES with Some v => snd v | None => [] end
                      end) items.

Lemma build_p_toks : forall items, supported_fmt items = true -> build_p STRFTIME_TABLE items = Some (toks_of items).
Proof.
  induction items as [|it items IH]; intros S; [reflexivity|].
  cbn [supported_fmt forallb] in S. apply andb_true_iff in S. destruct S as [S1 S2].
  fold (supported_fmt items) in S2. specialize (IH S2).
  destruct it as [l|d]; cbn [build_p toks_of flat_map]; fold (toks_of items); rewrite IH; [reflexivity|].
  destruct (supported_lk d S1) as (v & L1 & L2). rewrite L1, L2. destruct v as [[dt dp] pt]. reflexivity.
Qed.

Definition zsign (c : civil) : string := if 60 * czh c + czm c <? 0 then "-" else "+".
Definition zabs (c : civil) : Z := Z.abs (60 * czh c + czm c).
Definition asg (c : civil) : env :=
  [("century", digs 2 (cy c / 100)); ("year_of_century", digs 2 (cy c mod 100));
   ("month_of_year", digs 2 (cm c)); ("day_of_month", digs 2 (cd c)); ("day_of_year", digs 3 (cdoy c));
   ("hour_of_day", digs 2 (ch c)); ("minute_of_hour", digs 2 (cmi c)); ("second_of_minute", digs 2 (cs c));
   ("time_zone_sign", zsign c); ("time_zone_hour", digs 2 (zabs c / 60)); ("time_zone_minute", digs 2 (zabs c mod 60))].

Lemma fld_century c : fld "century" (asg c) = digs 2 (cy c / 100). Proof. reflexivity. Qed.
Lemma fld_yoc c : fld "year_of_century" (asg c) = digs 2 (cy c mod 100). Proof. reflexivity. Qed.
Lemma fld_month c : fld "month_of_year" (asg c) = digs 2 (cm c). Proof. reflexivity. Qed.
Lemma fld_dom c : fld "day_of_month" (asg c) = digs 2 (cd c). Proof. reflexivity. Qed.
Lemma fld_doy c : fld "day_of_year" (asg c) = digs 3 (cdoy c). Proof. reflexivity. Qed.
Lemma fld_hour c : fld "hour_of_day" (asg c) = digs 2 (ch c). Proof. reflexivity. Qed.
Lemma fld_minute c : fld "minute_of_hour" (asg c) = digs 2 (cmi c). Proof. reflexivity. Qed.
Lemma fld_second c : fld "second_of_minute" (asg c) = digs 2 (cs c). Proof. reflexivity. Qed.
Lemma fld_zsign c : fld "time_zone_sign" (asg c) = zsign c. Proof. reflexivity. Qed.
Lemma fld_zhour c : fld "time_zone_hour" (asg c) = digs 2 (zabs c / 60). Proof. reflexivity. Qed.
Lemma fld_zmin c : fld "time_zone_minute" (asg c) = digs 2 (zabs c mod 60). Proof. reflexivity. Qed.

Lemma is_sign_zsign c : is_sign (zsign c) = true.
Proof. unfold zsign. destruct (60 * czh c + czm c <? 0); reflexivity. Qed.

(* each directive's regex, on the assignment of the civil fields, denotes the
   POSIX text of the directive *)
Lemma shape_text c : 0 <= cy c <= 9999 -> forall d v, In (d, v) POSIX_SHAPES -> d <> "%s" ->
  exists s, posix_dir c d = Some s /\ render_toks (snd v) (asg c) = s /\ wf_assign (snd v) (asg c) = true.
Proof.
  intros Ry d v I NS.
  assert (PY : posix_year c = Some (digs 4 (cy c))).
  { unfold posix_year. replace ((0 <=? cy c) && (cy c <=? 9999)) with true by lia. reflexivity. }
  unfold POSIX_SHAPES in I. cbn [In] in I.
  repeat (destruct I as [I|I]; [inversion I; subst d v; clear I; cbn [fst snd render_toks wf_assign]|]); [..|destruct I];
    rewrite ?fld_century, ?fld_yoc, ?fld_month, ?fld_dom, ?fld_doy, ?fld_hour, ?fld_minute, ?fld_second,
            ?fld_zsign, ?fld_zhour, ?fld_zmin, ?digs_digits, ?is_sign_zsign; cbn [andb].
  - rewrite pd_Y, PY, digs4_split. eexists; split; [reflexivity|]. rewrite ?sapp_assoc, ?sapp_nil_r. auto.
  - rewrite pd_m. eexists; split; [reflexivity|]. rewrite ?sapp_assoc, ?sapp_nil_r. auto.
  - rewrite pd_d. eexists; split; [reflexivity|]. rewrite ?sapp_assoc, ?sapp_nil_r. auto.
  - rewrite pd_j. eexists; split; [reflexivity|]. rewrite ?sapp_assoc, ?sapp_nil_r. auto.
  - rewrite pd_H. eexists; split; [reflexivity|]. rewrite ?sapp_assoc, ?sapp_nil_r. auto.
  - rewrite pd_M. eexists; split; [reflexivity|]. rewrite ?sapp_assoc, ?sapp_nil_r. auto.
  - rewrite pd_S. eexists; split; [reflexivity|]. rewrite ?sapp_assoc, ?sapp_nil_r. auto.
  - rewrite pd_F, PY, digs4_split. eexists; split; [reflexivity|]. rewrite ?sapp_assoc, ?sapp_nil_r. auto.
  - rewrite pd_X. eexists; split; [reflexivity|]. rewrite ?sapp_assoc, ?sapp_nil_r. auto.
  - rewrite pd_z. eexists; split; [reflexivity|]. rewrite ?sapp_assoc, ?sapp_nil_r. auto.
  - exfalso. apply NS. reflexivity.
Qed.

Lemma render_toks_app a : forall x y, render_toks (x ++ y) a = render_toks x a ++ render_toks y a.
Proof. induction x as [|t x IH]; intros y; [reflexivity|]. destruct t; cbn [List.app render_toks]; rewrite IH, ?sapp_assoc; reflexivity. Qed.
Lemma wf_assign_app a : forall x y, wf_assign (x ++ y) a = wf_assign x a && wf_assign y a.
Proof. induction x as [|t x IH]; intros y; [reflexivity|]. destruct t; cbn [List.app wf_assign]; rewrite IH, ?andb_assoc; reflexivity. Qed.

(* fixed-width tokens only: no unbounded digit run, no %s group, no literal group *)
Definition fixedw (ts : list ptok) : bool :=
  forallb (fun t => match t with PLit _ | PDig _ _ | PSign _ => true | _ => false end) ts.
Lemma fixedw_simple : forall ts, fixedw ts = true -> simple ts = true.
Proof.
  induction ts as [|t ts IH]; intros F; [reflexivity|]. cbn [fixedw forallb] in F.
  apply andb_true_iff in F. destruct F as [F1 F2]. destruct t; try discriminate F1; cbn [simple]; apply IH; exact F2.
Qed.

(* what every parseable row satisfies: checked on the shapes *)
Definition row_parse_ok (pt : list ptok) : bool :=
  fixedw pt && num_keys_ok DATE_KEYS pt && num_keys_ok TIME_KEYS pt && num_keys_ok ZONE_KEYS pt.
Lemma shapes_parse_ok :
  forallb (fun row => String.eqb (fst row) "%s" || row_parse_ok (snd (snd row))) POSIX_SHAPES = true.
Proof. vm_compute. reflexivity. Qed.
Lemma row_parse_ok_app x y : row_parse_ok x = true -> row_parse_ok y = true -> row_parse_ok (x ++ y) = true.
Proof.
  unfold row_parse_ok, fixedw, num_keys_ok. rewrite !forallb_app. intros A B.
  repeat (apply andb_true_iff in A; destruct A as [A ?]). repeat (apply andb_true_iff in B; destruct B as [B ?]).
  repeat (apply andb_true_iff; split); assumption.
Qed.

Definition parse_fmt (items : list fitem) : bool := supported_fmt items && negb (uses ["%s"] items).

Lemma parse_fmt_cons it items : parse_fmt (it :: items) = true ->
  parse_fmt items = true /\
  match it with FLit _ => True | FDir d => mem d SUPPORTED = true /\ d <> "%s" end.
Proof.
  unfold parse_fmt. cbn [supported_fmt forallb uses existsb]. fold (supported_fmt items). fold (uses ["%s"] items).
  intros H. apply andb_true_iff in H. destruct H as [H1 H2]. apply andb_true_iff in H1. destruct H1 as [H0 H1].
  apply negb_true_iff in H2. apply orb_false_iff in H2. destruct H2 as [H2 H3].
  rewrite H1, H3. split; [reflexivity|]. destruct it as [l|d]; [exact I|]. split; [exact H0|].
  intros ->. discriminate H2.
Qed.

Lemma toks_text c : 0 <= cy c <= 9999 -> forall items, parse_fmt items = true ->
  exists s, posix c items = Some s /\ render_toks (toks_of items) (asg c) = s /\
            wf_assign (toks_of items) (asg c) = true /\ row_parse_ok (toks_of items) = true.
Proof.
  intros Ry. induction items as [|it items IH]; intros P.
  - exists "". repeat split; reflexivity.
  - destruct (parse_fmt_cons _ _ P) as [P' Hit]. destruct (IH P') as (s & E1 & E2 & E3 & E4).
    destruct it as [l|d]; cbn [toks_of flat_map posix]; fold (toks_of items).
    + exists (l ++ s). rewrite E1. cbn [List.app render_toks wf_assign]. rewrite E2, E3. repeat split; try reflexivity. exact E4.
    + destruct Hit as [M NS]. destruct (supported_lk d M) as (v & L1 & _). rewrite L1.
      pose proof (lk_In _ _ _ L1) as I. destruct (shape_text c Ry d v I NS) as (s1 & F1 & F2 & F3).
      exists (s1 ++ s). rewrite F1, E1, render_toks_app, wf_assign_app, F2, E2, F3, E3.
      repeat split; try reflexivity. apply row_parse_ok_app; [|exact E4].
      pose proof shapes_parse_ok as SP. rewrite forallb_forall in SP. specialize (SP _ I). cbn [fst snd] in SP.
      apply orb_true_iff in SP. destruct SP as [SP|SP]; [|exact SP]. apply String.eqb_eq in SP. contradiction.
Qed.

(* which groups a format binds *)
Lemma binds_app k x y : binds k (x ++ y) = binds k x || binds k y.
Proof. unfold binds. apply existsb_app. Qed.
Lemma binds_toks k ds :
  forallb (fun row => Bool.eqb (binds k (snd (snd row))) (mem (fst row) ds)) POSIX_SHAPES = true ->
  forall items, supported_fmt items = true -> binds k (toks_of items) = uses ds items.
Proof.
  intros C. rewrite forallb_forall in C. induction items as [|it items IH]; intros S; [reflexivity|].
  cbn [supported_fmt forallb] in S. apply andb_true_iff in S. destruct S as [S1 S2].
  fold (supported_fmt items) in S2. specialize (IH S2).
  destruct it as [l|d]; cbn [toks_of flat_map uses existsb]; fold (toks_of items); fold (uses ds items).
  - cbn [List.app binds existsb tok_name]. fold (binds k (toks_of items)). exact IH.
  - destruct (supported_lk d S1) as (v & L1 & _). rewrite L1, binds_app, IH. f_equal.
    specialize (C _ (lk_In _ _ _ L1)). cbn [fst snd] in C. apply Bool.eqb_prop in C. exact C.
Qed.

Definition nogrp (ts : list ptok) : bool := forallb (fun t => match t with PGrp _ _ => false | _ => true end) ts.
Lemma fixedw_nogrp ts : fixedw ts = true -> nogrp ts = true.
Proof.
  unfold fixedw, nogrp. rewrite !forallb_forall. intros F t I. specialize (F t I). destruct t; try discriminate F; reflexivity.
Qed.
Lemma lookup_bindings k a : forall ts, nogrp ts = true ->
  lookup_env k (bindings ts a) = if binds k ts then Some (fld k a) else None.
Proof.
  induction ts as [|t ts IH]; intros N; [reflexivity|]. cbn [nogrp forallb] in N.
  apply andb_true_iff in N. destruct N as [N1 N2]. specialize (IH N2).
  destruct t; try discriminate N1; cbn [bindings binds existsb tok_name lookup_env]; fold (binds k ts);
    try exact IH;
    (destruct (String.eqb k name) eqn:E; [apply String.eqb_eq in E; subst; reflexivity | exact IH]).
Qed.
Lemma lookup_filter (f : string -> bool) k : forall e : env,
  lookup_env k (filter (fun kv => f (fst kv)) e) = if f k then lookup_env k e else None.
Proof.
  induction e as [|[k' v] e IH]; [destruct (f k); reflexivity|].
  cbn [filter fst lookup_env]. destruct (f k') eqn:F.
  - cbn [lookup_env]. destruct (String.eqb k k') eqn:E.
    + apply String.eqb_eq in E. subst. rewrite F. reflexivity.
    + exact IH.
  - destruct (String.eqb k k') eqn:E; [|exact IH].
    apply String.eqb_eq in E. subst. rewrite F in *. exact IH.
Qed.

Definition opt {A} (b : bool) (x : A) : option A := if b then Some x else None.
Lemma has_opt {A} (b : bool) (x : A) : (match opt b x with Some _ => true | None => false end) = b.
Proof. destruct b; reflexivity. Qed.
Lemma map_opt {A B} (f : A -> B) b x : option_map f (opt b x) = opt b (f x).
Proof. destruct b; reflexivity. Qed.
Lemma od_opt b x : od (opt b x) = if b then x else 0.
Proof. destruct b; reflexivity. Qed.
Lemma uses_nil items : uses [] items = false.
Proof. induction items as [|[l|d] items IH]; [reflexivity| |]; cbn [uses existsb mem]; exact IH. Qed.

Lemma bindings_app a : forall x y, bindings (x ++ y) a = (bindings x a ++ bindings y a)%list.
Proof. induction x as [|t x IH]; intros y; [reflexivity|]. destruct t; cbn [List.app bindings]; rewrite IH; reflexivity. Qed.

(* without %z (and %s) no group is a zone group *)
Definition no_zone_toks (pt : list ptok) : bool :=
  forallb (fun t => match tok_name t with Some nm => negb (is_zone_key nm) | None => true end) pt.
Lemma shapes_no_zone :
  forallb (fun row => mem (fst row) ["%z"; "%s"] || no_zone_toks (snd (snd row))) POSIX_SHAPES = true.
Proof. vm_compute. reflexivity. Qed.
Lemma no_zone_filter a : forall pt, no_zone_toks pt = true ->
  filter (fun kv : string * string => is_zone_key (fst kv)) (bindings pt a) = [].
Proof.
  induction pt as [|t pt IH]; intros N; [reflexivity|]. cbn [no_zone_toks forallb] in N.
  apply andb_true_iff in N. destruct N as [N1 N2]. specialize (IH N2).
  destruct t; cbn [bindings filter fst tok_name] in *; try exact IH;
    apply negb_true_iff in N1; rewrite N1; exact IH.
Qed.
Lemma ze_empty a : forall items, parse_fmt items = true -> uses ["%z"] items = false ->
  filter (fun kv : string * string => is_zone_key (fst kv)) (bindings (toks_of items) a) = [].
Proof.
  induction items as [|it items IH]; intros P U; [reflexivity|].
  destruct (parse_fmt_cons _ _ P) as [P' Hit].
  cbn [uses existsb] in U. fold (uses ["%z"] items) in U. apply orb_false_iff in U. destruct U as [U1 U2].
  specialize (IH P' U2). destruct it as [l|d]; cbn [toks_of flat_map]; fold (toks_of items).
  - cbn [List.app bindings]. exact IH.
  - destruct Hit as [M NS]. destruct (supported_lk d M) as (v & L1 & _). rewrite L1, bindings_app, filter_app, IH, app_nil_r.
    apply no_zone_filter. pose proof shapes_no_zone as SZ. rewrite forallb_forall in SZ.
    specialize (SZ _ (lk_In _ _ _ L1)). cbn [fst snd] in SZ. apply orb_true_iff in SZ. destruct SZ as [SZ|SZ]; [|exact SZ].
    exfalso. cbn [mem existsb] in SZ, U1. rewrite orb_false_r in U1.
    apply orb_true_iff in SZ. destruct SZ as [SZ|SZ]; [congruence|]. rewrite orb_false_r in SZ.
    apply String.eqb_eq in SZ. contradiction.
Qed.

Lemma digit_env_filter keys (f : string -> bool) (e : env) :
  digit_env keys e -> digit_env keys (filter (fun kv => f (fst kv)) e).
Proof.
  intros D k s K L. rewrite lookup_filter in L. destruct (f k); [|discriminate]. exact (D k s K L).
Qed.

(* the constructor call strptime makes on the POSIX text of a civil date-time *)
Definition parsed_call (md : mode) (cfg : pcfg) (c : civil) (items : list fitem) : pres ptp :=
  zn <-- (if uses ["%z"] items then POk (Some (czh c, Some (czm c))) else zone_num cfg []) ;;;
  construct md (Some (if uses ["%Y"; "%F"] items then cy c else 0))
            (opt (uses ["%m"; "%F"] items) (cm c)) (opt (uses ["%d"; "%F"] items) (cd c))
            (opt (uses ["%j"] items) (cdoy c)) None None
            (opt (uses ["%H"; "%X"] items) (qz (ch c))) None
            (opt (uses ["%M"; "%X"] items) (qz (cmi c))) None
            (opt (uses ["%S"; "%X"] items) (qz (cs c))) None
            zn false "" 0 "" false.

Section Strp.
Variables (md : mode) (cfg : pcfg) (c : civil) (items : list fitem).
Hypothesis R : civil_ranges md c.
Hypothesis P : parse_fmt items = true.

Let S : supported_fmt items = true.
Proof. unfold parse_fmt in P. apply andb_true_iff in P. tauto. Qed.
Let e := bindings (toks_of items) (asg c).
Let NG : nogrp (toks_of items) = true.
Proof.
  destruct (toks_text c (cr_year _ _ R) items P) as (s & _ & _ & _ & OK).
  unfold row_parse_ok in OK. repeat (apply andb_true_iff in OK; destruct OK as [OK ?]). apply fixedw_nogrp. exact OK.
Qed.

Ltac ev_key :=
  repeat match goal with
         | |- context [is_date_key ?k] => let b := eval vm_compute in (is_date_key k) in change (is_date_key k) with b
         | |- context [is_time_key ?k] => let b := eval vm_compute in (is_time_key k) in change (is_time_key k) with b
         | |- context [is_zone_key ?k] => let b := eval vm_compute in (is_zone_key k) in change (is_zone_key k) with b
         end.
Ltac lk_key ds := rewrite lookup_filter; ev_key; try reflexivity; unfold e; rewrite (lookup_bindings _ _ _ NG);
  match goal with |- context [binds ?k (toks_of items)] => rewrite (binds_toks k ds eq_refl items S) end;
  rewrite ?uses_nil; reflexivity.

Let de := filter (fun kv : string * string => is_date_key (fst kv)) e.
Let te := filter (fun kv : string * string => is_time_key (fst kv)) e.
Let ze := filter (fun kv : string * string => is_zone_key (fst kv)) e.
Let uY := uses ["%Y"; "%F"] items. Let uM := uses ["%m"; "%F"] items. Let uD := uses ["%d"; "%F"] items.
Let uJ := uses ["%j"] items. Let uH := uses ["%H"; "%X"] items. Let uMi := uses ["%M"; "%X"] items.
Let uS := uses ["%S"; "%X"] items. Let uZ := uses ["%z"] items.

Lemma L_trunc_d : lookup_env "truncated" de = None. Proof. unfold de. lk_key (@nil string). Qed.
Lemma L_exp : lookup_env "expanded_year" de = None. Proof. unfold de. lk_key (@nil string). Qed.
Lemma L_sign : lookup_env "year_sign" de = None. Proof. unfold de. lk_key (@nil string). Qed.
Lemma L_yod : lookup_env "year_of_decade" de = None. Proof. unfold de. lk_key (@nil string). Qed.
Lemma L_week : lookup_env "week_of_year" de = None. Proof. unfold de. lk_key (@nil string). Qed.
Lemma L_dow : lookup_env "day_of_week" de = None. Proof. unfold de. lk_key (@nil string). Qed.
Lemma L_cen : lookup_env "century" de = opt uY (digs 2 (cy c / 100)). Proof. unfold de. lk_key ["%Y"; "%F"]. Qed.
Lemma L_yoc : lookup_env "year_of_century" de = opt uY (digs 2 (cy c mod 100)). Proof. unfold de. lk_key ["%Y"; "%F"]. Qed.
Lemma L_month : lookup_env "month_of_year" de = opt uM (digs 2 (cm c)). Proof. unfold de. lk_key ["%m"; "%F"]. Qed.
Lemma L_dom : lookup_env "day_of_month" de = opt uD (digs 2 (cd c)). Proof. unfold de. lk_key ["%d"; "%F"]. Qed.
Lemma L_doy : lookup_env "day_of_year" de = opt uJ (digs 3 (cdoy c)). Proof. unfold de. lk_key ["%j"]. Qed.
Lemma L_trunc_t : lookup_env "truncated" te = None. Proof. unfold te. lk_key (@nil string). Qed.
Lemma L_hdec : lookup_env "hour_of_day_decimal" te = None. Proof. unfold te. lk_key (@nil string). Qed.
Lemma L_mdec : lookup_env "minute_of_hour_decimal" te = None. Proof. unfold te. lk_key (@nil string). Qed.
Lemma L_sdec : lookup_env "second_of_minute_decimal" te = None. Proof. unfold te. lk_key (@nil string). Qed.
Lemma L_hour : lookup_env "hour_of_day" te = opt uH (digs 2 (ch c)). Proof. unfold te. lk_key ["%H"; "%X"]. Qed.
Lemma L_min : lookup_env "minute_of_hour" te = opt uMi (digs 2 (cmi c)). Proof. unfold te. lk_key ["%M"; "%X"]. Qed.
Lemma L_sec : lookup_env "second_of_minute" te = opt uS (digs 2 (cs c)). Proof. unfold te. lk_key ["%S"; "%X"]. Qed.
Lemma L_utc : lookup_env "time_zone_utc" ze = None. Proof. unfold ze. lk_key (@nil string). Qed.
Lemma L_zs : lookup_env "time_zone_sign" ze = opt uZ (zsign c). Proof. unfold ze. lk_key ["%z"]. Qed.
Lemma L_zh : lookup_env "time_zone_hour" ze = opt uZ (digs 2 (zabs c / 60)). Proof. unfold ze. lk_key ["%z"]. Qed.
Lemma L_zm : lookup_env "time_zone_minute" ze = opt uZ (digs 2 (zabs c mod 60)). Proof. unfold ze. lk_key ["%z"]. Qed.

Lemma zone_num_cons ze0 : ze0 <> [] ->
  zone_num cfg ze0 =
  if has_key "time_zone_utc" ze0 then POk (Some (0, Some 0))
  else match nz ze0 "time_zone_hour" with
       | None => PErr EValue
       | Some h =>
         let neg := match lookup_env "time_zone_sign" ze0 with Some s => String.eqb s "-" | None => false end in
         let sg := fun v : Z => if neg then (- v) else v in
         POk (Some (sg h, option_map sg (nz ze0 "time_zone_minute")))
       end.
Proof. destruct ze0; [congruence|reflexivity]. Qed.

Lemma zone_part :
  zone_num cfg ze = (if uses ["%z"] items then POk (Some (czh c, Some (czm c))) else zone_num cfg []).
Proof.
  pose proof L_zs as A1. pose proof L_zh as A2. pose proof L_zm as A3. pose proof L_utc as A0.
  unfold uZ in A1, A2, A3. destruct (uses ["%z"] items) eqn:U.
  - cbn [opt] in A1, A2, A3. rewrite zone_num_cons by (intros E0; rewrite E0 in A2; discriminate).
    unfold has_key, nz. rewrite A0, A1, A2, A3. cbn [option_map].
    destruct (zone_sign_abs _ _ (cr_zone _ _ R)) as (Z1 & Z2 & Z3).
    pose proof (cr_zone _ _ R) as VZ. unfold valid_zone in VZ. cbn [zh zm] in VZ.
    unfold zabs. rewrite Z2, Z3, !dnum_digs_2 by lia. unfold zsign. cbv zeta.
    destruct (60 * czh c + czm c <? 0) eqn:E0; cbn [String.eqb Ascii.eqb Bool.eqb];
      (repeat f_equal; destruct (0 <? czh c) eqn:E1; destruct (czh c <? 0) eqn:E2; lia).
  - unfold ze, e. rewrite (ze_empty _ _ P U). reflexivity.
Qed.

Lemma parse_call s : posix c items = Some s -> after_build md cfg (toks_of items) s = parsed_call md cfg c items.
Proof.
  intros PS. destruct (toks_text c (cr_year _ _ R) items P) as (s' & E1 & E2 & E3 & OK).
  assert (Es : s = render_toks (toks_of items) (asg c)) by congruence.
  unfold row_parse_ok in OK. apply andb_true_iff in OK. destruct OK as [OK KZ].
  apply andb_true_iff in OK. destruct OK as [OK KT]. apply andb_true_iff in OK. destruct OK as [FW KD].
  unfold after_build. rewrite Es. rewrite (pmatch_render _ _ [] (fixedw_simple _ FW) E3). cbn [List.app].
  fold e.
  assert (LU : lookup_env "seconds_since_unix_epoch" e = None).
  { unfold e. rewrite (lookup_bindings _ _ _ NG). rewrite (binds_toks "seconds_since_unix_epoch" ["%s"] eq_refl items S).
    unfold parse_fmt in P. apply andb_true_iff in P. destruct P as [_ P2]. apply negb_true_iff in P2. rewrite P2. reflexivity. }
  rewrite LU. cbv zeta. fold de te ze.
  assert (DD : digit_env DATE_KEYS de) by (apply digit_env_filter, bindings_digit_env; assumption).
  assert (DT : digit_env TIME_KEYS te) by (apply digit_env_filter, bindings_digit_env; assumption).
  assert (DZ : digit_env ZONE_KEYS ze) by (apply digit_env_filter, bindings_digit_env; assumption).
  transitivity (zn <-- zone_num cfg ze ;;; point_num md cfg de te zn "" false).
  { rewrite <- (zone_num_ok cfg ze DZ). destruct (process_zone cfg ze) as [z|x]; [|reflexivity]. cbn [pbind].
    rewrite create_timepoint_num by (cbn [i_date i_time]; assumption). reflexivity. }
  rewrite zone_part. unfold parsed_call.
  match goal with |- pbind ?z _ = pbind ?z _ => destruct z as [zn|x]; [|reflexivity] end. cbn [pbind].
  unfold point_num, has_key, nz, nq, ndec.
  rewrite L_trunc_d, L_exp, L_sign, L_yod, L_week, L_dow, L_cen, L_yoc, L_month, L_dom, L_doy,
          L_trunc_t, L_hdec, L_mdec, L_sdec, L_hour, L_min, L_sec.
  rewrite !has_opt, !map_opt. cbv beta zeta.
  cbn [option_map od negb andb orb]. rewrite ?andb_negb_l. cbn [negb andb orb].
  destruct (civil_small md c R) as (Rm & Rd & Rj).
  pose proof (cr_year _ _ R) as Ry. pose proof (cr_h _ _ R) as Rh. pose proof (cr_mi _ _ R) as Rmi.
  pose proof (cr_s _ _ R) as Rs.
  rewrite !od_opt, !dnum_digs_2, dnum_digs_3 by lia.
  replace (0 + (if uY then cy c mod 100 else 0) + 100 * (if uY then cy c / 100 else 0) + 10000 * 0)
    with (if uY then cy c else 0) by (destruct uY; lia).
  reflexivity.
Qed.
End Strp.

Theorem strptime_posix : forall md cfg c fmt s,
  civil_ranges md c -> parse_fmt (split_format fmt "") = true -> posix c (split_format fmt "") = Some s ->
  strptime STRFTIME_TABLE md cfg s fmt = parsed_call md cfg c (split_format fmt "").
Proof.
  intros md cfg c fmt s R P PS. rewrite strptime_unfold.
  assert (S : supported_fmt (split_format fmt "") = true) by (unfold parse_fmt in P; apply andb_true_iff in P; tauto).
  rewrite (build_p_toks _ S). apply parse_call; assumption.
Qed.

(* ---------- the value of that constructor call (formats without %j) ---------- *)
(* the zone a parser falls back on: assumed_time_zone, else UTC when
   default_to_unknown_time_zone (the constructor's default), else the local zone *)
Definition cfg_zone (cfg : pcfg) : zone :=
  match c_assumed cfg with
  | Some (h, m) => mkZone h m
  | None => if c_unknown cfg then mkZone 0 0 else mkZone (fst (c_local cfg)) (snd (c_local cfg))
  end.

Definition parsed_point (cfg : pcfg) (c : civil) (items : list fitem) : tp :=
  mkTp (if uses ["%j"] items
        then Ord (if uses ["%Y"; "%F"] items then cy c else 0) (cdoy c)
        else Cal (if uses ["%Y"; "%F"] items then cy c else 0)
                 (if uses ["%m"; "%F"] items then cm c else 1)
                 (if uses ["%d"; "%F"] items then cd c else 1))
       (HMS (qz (if uses ["%H"; "%X"] items then ch c else 0))
            (qz (if uses ["%M"; "%X"] items then cmi c else 0))
            (qz (if uses ["%S"; "%X"] items then cs c else 0)))
       (if uses ["%z"] items then mkZone (czh c) (czm c) else cfg_zone cfg).

Lemma zone_stage_valid a b : valid_zone (mkZone a b) = true -> zone_stage (Some (a, Some b)) = POk (Some (mkZone a b)).
Proof.
  unfold valid_zone, zone_stage. cbn [zh zm]. intros V.
  replace (negb ((-99 <=? a) && (a <=? 99))) with false by lia.
  destruct (0 <? a) eqn:E1; destruct (a <? 0) eqn:E2;
    match goal with |- context [if negb ?x then _ else _] => replace (negb x) with false by lia end; reflexivity.
Qed.

Lemma cfg_zone_stage cfg : valid_zone (cfg_zone cfg) = true ->
  exists zn, zone_num cfg [] = POk zn /\ zone_stage zn = POk (Some (cfg_zone cfg)).
Proof.
  unfold cfg_zone, zone_num. destruct (c_assumed cfg) as [[h m]|].
  - intros V. eexists. split; [reflexivity|]. apply zone_stage_valid. exact V.
  - destruct (c_unknown cfg).
    + intros _. eexists. split; reflexivity.
    + intros V. eexists. split; [reflexivity|]. apply zone_stage_valid. exact V.
Qed.

Lemma mlen_jan md y y' m : 1 <= m <= 12 -> mlen md y m <= mlen md y' 1.
Proof.
  intros H. unfold mlen, months. cases12 m; destruct md, (is_leap y), (is_leap y'); vm_compute; discriminate.
Qed.
Lemma mlen_year0 md y m : 1 <= m <= 12 -> mlen md y m <= mlen md 0 m.
Proof.
  intros H. unfold mlen, months. change (is_leap 0) with true.
  cases12 m; destruct md, (is_leap y); vm_compute; discriminate.
Qed.
Lemma valid_cal_default md y m d (uY uM uD : bool) : valid_cal md y m d = true ->
  valid_cal md (if uY then y else 0) (if uM then m else 1) (if uD then d else 1) = true.
Proof.
  intros V. destruct (cal_range _ _ _ _ V) as (A & B & _).
  pose proof (mlen_jan md y y m A). pose proof (mlen_jan md y 0 m A). pose proof (mlen_year0 md y m A).
  pose proof (mlen_bounds md y 1 ltac:(lia)). pose proof (mlen_bounds md 0 1 ltac:(lia)).
  pose proof (mlen_bounds md 0 m A). pose proof (mlen_bounds md y m A).
  unfold valid_cal. destruct uY, uM, uD; lia.
Qed.

Lemma tod_ok_int h m s : 0 <= h < 24 -> 0 <= m < 60 -> 0 <= s < 60 ->
  tod_fields_ok (Some (qz h)) (Some (qz m)) (Some (qz s)) = true.
Proof.
  intros Hh Hm Hs. unfold tod_fields_ok, in_rngq, below_q.
  assert (E : qeqb (qz h) 24 = false).
  { apply qeqb_false. intros X. unfold qz in X. change 24%Q with (inject_Z 24) in X. rewrite inject_Z_injective in X. lia. }
  rewrite E. unfold qz.
  rewrite !qleb_true by (apply le_inj; lia). rewrite !qltb_true by (apply lt_inj; lia). reflexivity.
Qed.

Lemma valid_ord_default md y doy (uY : bool) : valid_ord md y doy = true ->
  valid_ord md (if uY then y else 0) doy = true.
Proof.
  intros V. assert (L : ylen md y <= ylen md 0).
  { unfold ylen. change (is_leap 0) with true. destruct md, (is_leap y); lia. }
  unfold valid_ord in *. destruct uY; lia.
Qed.

(* a day of the year excludes month and day of month (the constructor refuses the mix) *)
Definition date_dirs_ok (items : list fitem) : bool :=
  negb (uses ["%j"] items) || (negb (uses ["%m"; "%F"] items) && negb (uses ["%d"; "%F"] items)).

Theorem parsed_call_value : forall md cfg c items,
  civil_ranges md c -> date_dirs_ok items = true ->
  (uses ["%z"] items = false -> valid_zone (cfg_zone cfg) = true) ->
  exists pp, parsed_call md cfg c items = POk pp /\
             ptp_to_tp pp = Some (parsed_point cfg c items) /\ valid_tp md (parsed_point cfg c items) = true.
Proof.
  intros md cfg c items R DJ VZ. unfold parsed_call, parsed_point.
  set (uY := uses ["%Y"; "%F"] items).
  set (uH := uses ["%H"; "%X"] items). set (uMi := uses ["%M"; "%X"] items). set (uS := uses ["%S"; "%X"] items).
  assert (ZS : exists zn, (if uses ["%z"] items then POk (Some (czh c, Some (czm c))) else zone_num cfg []) = POk zn /\
                          zone_stage zn = POk (Some (if uses ["%z"] items then mkZone (czh c) (czm c) else cfg_zone cfg))).
  { destruct (uses ["%z"] items).
    - eexists. split; [reflexivity|]. apply zone_stage_valid. exact (cr_zone _ _ R).
    - apply cfg_zone_stage. apply VZ. reflexivity. }
  destruct ZS as (zn & Z1 & Z2). rewrite Z1. cbn [pbind].
  set (Z := if uses ["%z"] items then mkZone (czh c) (czm c) else cfg_zone cfg) in *.
  set (Y := if uY then cy c else 0).
  set (H := if uH then ch c else 0). set (MI := if uMi then cmi c else 0). set (SS := if uS then cs c else 0).
  assert (VT : tod_fields_ok (Some (qz H)) (Some (qz MI)) (Some (qz SS)) = true).
  { pose proof (cr_h _ _ R). pose proof (cr_mi _ _ R). pose proof (cr_s _ _ R).
    apply tod_ok_int; unfold H, MI, SS; [destruct uH | destruct uMi | destruct uS]; lia. }
  assert (EH : dfl_h (opt uH (qz (ch c))) = Some (qz H)) by (unfold H; destruct uH; reflexivity).
  assert (EM : dfl_m None (opt uMi (qz (cmi c))) = Some (qz MI)) by (unfold MI; destruct uMi; reflexivity).
  assert (ES : dfl_s None None (opt uS (qz (cs c))) = Some (qz SS)) by (unfold SS; destruct uS; reflexivity).
  assert (OH : oint (opt uH (qz (ch c)))).
  { unfold opt. destruct uH; cbn [oint]; [apply qis_int_iff, isint_Z | exact I]. }
  assert (OM : oint (opt uMi (qz (cmi c)))).
  { unfold opt. destruct uMi; cbn [oint]; [apply qis_int_iff, isint_Z | exact I]. }
  unfold date_dirs_ok in DJ. destruct (uses ["%j"] items) eqn:UJ.
  - (* ordinal date *)
    cbn [negb orb] in DJ. apply andb_true_iff in DJ. destruct DJ as [UM UD].
    apply negb_true_iff in UM, UD. rewrite UM, UD.
    assert (VO : valid_ord md Y (cdoy c) = true) by (apply valid_ord_default; exact (cr_ord _ _ R)).
    assert (EQ : construct md (Some Y) (opt false (cm c)) (opt false (cd c)) (opt true (cdoy c)) None None
                   (opt uH (qz (ch c))) None (opt uMi (qz (cmi c))) None (opt uS (qz (cs c))) None zn false "" 0 "" false =
                 POk (mkPtp (Some Y) None None (Some (cdoy c)) None None (Some (qz H)) (Some (qz MI)) (Some (qz SS)) (Some Z) false "" 0 "")).
    { rewrite construct_eq. cbn [dec_h dec_m dec_s pbind opt]. unfold tail. rewrite Z2.
      cbn [conflict truthy is_some orb andb date_dfl].
      rewrite EH, EM, ES, check_bounds_eq, date_chk_ord, VO, VT. reflexivity. }
    rewrite EQ. eexists. split; [reflexivity|]. split; [reflexivity|].
    destruct (construct_valid _ _ _ _ _ _ _ _ _ _ _ _ _ _ _ _ _ _ OH OM EQ) as (q & Eq & Vq).
    change (Some (mkTp (Ord Y (cdoy c)) (HMS (qz H) (qz MI) (qz SS)) Z) = Some q) in Eq.
    inversion Eq as [Eq']. rewrite Eq'. exact Vq.
  - (* calendar date *)
    set (uM := uses ["%m"; "%F"] items). set (uD := uses ["%d"; "%F"] items).
    set (M := if uM then cm c else 1). set (D := if uD then cd c else 1).
    assert (VC : valid_cal md Y M D = true) by (apply valid_cal_default; exact (cr_cal _ _ R)).
    assert (EQ : construct md (Some Y) (opt uM (cm c)) (opt uD (cd c)) (opt false (cdoy c)) None None
                   (opt uH (qz (ch c))) None (opt uMi (qz (cmi c))) None (opt uS (qz (cs c))) None zn false "" 0 "" false =
                 POk (mkPtp (Some Y) (Some M) (Some D) None None None (Some (qz H)) (Some (qz MI)) (Some (qz SS)) (Some Z) false "" 0 "")).
    { rewrite construct_eq. cbn [dec_h dec_m dec_s pbind opt]. unfold tail. rewrite Z2.
      assert (CF : conflict (opt uM (cm c)) (opt uD (cd c)) None None None = false).
      { unfold conflict. cbn [truthy is_some orb]. rewrite !andb_false_r. reflexivity. }
      rewrite CF.
      assert (DF : date_dfl (opt uM (cm c)) (opt uD (cd c)) None None None = (Some M, Some D, None, None)).
      { unfold M, D. destruct uM, uD; reflexivity. }
      rewrite DF, EH, EM, ES, check_bounds_eq, date_chk_cal, VC, VT. reflexivity. }
    rewrite EQ. eexists. split; [reflexivity|]. split; [reflexivity|].
    destruct (construct_valid _ _ _ _ _ _ _ _ _ _ _ _ _ _ _ _ _ _ OH OM EQ) as (q & Eq & Vq).
    change (Some (mkTp (Cal Y M D) (HMS (qz H) (qz MI) (qz SS)) Z) = Some q) in Eq.
    inversion Eq as [Eq']. rewrite Eq'. exact Vq.
Qed.

Theorem strptime_defaults : forall md cfg c fmt s,
  civil_ranges md c -> parse_fmt (split_format fmt "") = true -> date_dirs_ok (split_format fmt "") = true ->
  (uses ["%z"] (split_format fmt "") = false -> valid_zone (cfg_zone cfg) = true) ->
  posix c (split_format fmt "") = Some s ->
  exists pp, strptime STRFTIME_TABLE md cfg s fmt = POk pp /\
             ptp_to_tp pp = Some (parsed_point cfg c (split_format fmt "")) /\
             valid_tp md (parsed_point cfg c (split_format fmt "")) = true.
Proof.
  intros md cfg c fmt s R P DJ VZ PS. rewrite (strptime_posix md cfg c fmt s R P PS).
  apply parsed_call_value; assumption.
Qed.

(* ================================================================== *)
(* 8. the civil reading characterised; the round trip                  *)
(* ================================================================== *)
Lemma civil_point md p : valid_tp md p = true ->
  exists r, normal_tp md r = true /\ rep_kind (tdate r) <> 2 /\ (instant md r == instant md p)%Q /\ tzone r = tzone p.
Proof.
  intros V. destruct (calendarised md p V) as (q & _ & Vq & Iq & Kq & Zq).
  destruct (normalised_spec md q Vq) as (Nr & Ir & Kr & _ & Zr).
  exists (normalised md q). repeat split; try assumption; try congruence. rewrite Ir. exact Iq.
Qed.

(* civil_of is the unique reading: a valid calendar date, the same day as an
   ordinal date, a time of day, and together they are the whole local second *)
Theorem civil_of_spec : forall md p c, civil_of md p = Some c ->
  valid_cal md (cy c) (cm c) (cd c) = true /\ valid_ord md (cy c) (cdoy c) = true /\
  dn_ord md (cy c) (cdoy c) = dn_cal md (cy c) (cm c) (cd c) /\
  0 <= ch c < 24 /\ 0 <= cmi c < 60 /\ 0 <= cs c < 60 /\
  czh c = zh (tzone p) /\ czm c = zm (tzone p) /\ valid_zone (mkZone (czh c) (czm c)) = true /\
  Qfloor (local_secs md p) = 86400 * dn_cal md (cy c) (cm c) (cd c) + 3600 * ch c + 60 * cmi c + cs c /\
  cunix c = Qfloor (instant md p - epoch_instant md).
Proof.
  intros md p c CO. unfold civil_of in CO. destruct (valid_tp md p) eqn:V; [|discriminate]. inversion CO as [CE]. clear CO. subst c.
  destruct (civil_point md p V) as (r & Nr & Kr & Ir & Zr).
  assert (CR : civil_at md p = civil_at md r) by (apply civil_at_ext; [symmetry; exact Ir | congruence]).
  destruct (civil_normal md r Nr Kr) as (HC & HO & HY & HH & HM & HS & VC & VO & Rh & Rm & Rs & DN & FT).
  destruct (normal_tp_parts md r Nr) as (VD & NT & VZ).
  rewrite <- CR in *. clear CR.
  assert (DO : dn_ord md (cy (civil_at md p)) (cdoy (civil_at md p)) = date_dn md (tdate r)).
  { destruct (get_ordinal_date_spec md _ VD) as (y2 & doy2 & E2 & V2 & D2). rewrite HO in E2. inversion E2; subst. exact D2. }
  repeat split; try assumption; try lia; try reflexivity.
  - unfold civil_at. cbn [czh czm]. rewrite <- Zr. destruct (tzone p); exact VZ.
  - rewrite DN. transitivity (86400 * date_dn md (tdate r) + Qfloor (tod_secs (ttod r))); [|lia].
    assert (L : (local_secs md p == inject_Z (86400 * date_dn md (tdate r)) + tod_secs (ttod r))%Q).
    { rewrite <- local_secs_eq. unfold local_secs. rewrite Ir, Zr. reflexivity. }
    rewrite (Qfloor_comp _ _ L). apply floor_add_int.
Qed.

Lemma civil_of_ranges md p c : civil_of md p = Some c -> 0 <= cy c <= 9999 -> civil_ranges md c.
Proof.
  intros CO Ry. destruct (civil_of_spec md p c CO) as (A1 & A2 & _ & A3 & A4 & A5 & _ & _ & A6 & _).
  constructor; assumption.
Qed.

Definition whole_second (md : mode) (p : tp) : Prop := qis_int (instant md p) = true.

(* a format that determines date, time and zone, one way only *)
Definition full_fmt (items : list fitem) : bool :=
  parse_fmt items && uses ["%Y"; "%F"] items &&
  (if uses ["%j"] items then negb (uses ["%m"; "%F"] items) && negb (uses ["%d"; "%F"] items)
   else uses ["%m"; "%F"] items && uses ["%d"; "%F"] items) &&
  uses ["%H"; "%X"] items && uses ["%M"; "%X"] items && uses ["%S"; "%X"] items && uses ["%z"] items.

Theorem strftime_strptime_roundtrip : forall ned md cfg p fmt c,
  valid_tp md p = true -> civil_of md p = Some c -> 0 <= cy c <= 9999 -> whole_second md p ->
  full_fmt (split_format fmt "") = true -> stray_pct (split_format fmt "") = false ->
  exists s pp q, strftime ned STRFTIME_TABLE md p fmt = DOk s /\
                 strptime STRFTIME_TABLE md cfg s fmt = POk pp /\
                 ptp_to_tp pp = Some q /\ tp_cmp md q p = Some Eq.
Proof.
  intros ned md cfg p fmt c V CO Ry W F NS. set (items := split_format fmt "") in *.
  unfold full_fmt in F. do 6 (apply andb_true_iff in F; destruct F as [F ?]).
  match goal with H : (if _ then _ else _) = true |- _ => rename H into FD end.
  assert (DJ : date_dirs_ok items = true).
  { unfold date_dirs_ok. destruct (uses ["%j"] items); [exact FD | reflexivity]. }
  assert (S : supported_fmt items = true) by (unfold parse_fmt in F; apply andb_true_iff in F; tauto).
  destruct (strftime_posix ned md p fmt c V CO Ry S NS) as (s & E1 & E2).
  pose proof (civil_of_ranges md p c CO Ry) as R.
  destruct (strptime_defaults md cfg c fmt s R F DJ ltac:(fold items; congruence) E2) as (pp & E3 & E4 & Vq).
  exists s, pp, (parsed_point cfg c items). repeat split; try assumption.
  rewrite (tp_cmp_spec md (parsed_point cfg c items) p Vq V). f_equal. apply Qeq_alt.
  destruct (civil_of_spec md p c CO) as (_ & _ & DO & _ & _ & _ & Zh & Zm & _ & FL & _).
  unfold parsed_point. fold items.
  assert (ED : date_dn md (if uses ["%j"] items
                           then Ord (if uses ["%Y"; "%F"] items then cy c else 0) (cdoy c)
                           else Cal (if uses ["%Y"; "%F"] items then cy c else 0)
                                    (if uses ["%m"; "%F"] items then cm c else 1)
                                    (if uses ["%d"; "%F"] items then cd c else 1)) =
               dn_cal md (cy c) (cm c) (cd c)).
  { repeat match goal with H : uses _ items = true |- _ => rewrite H end.
    destruct (uses ["%j"] items); cbn [date_dn]; [exact DO|].
    apply andb_true_iff in FD. destruct FD as [F1 F2]. rewrite F1, F2. reflexivity. }
  unfold instant at 1. cbn [tdate ttod tzone tod_secs]. rewrite ED.
  repeat match goal with H : uses _ items = true |- _ => rewrite H; clear H end.
  unfold whole_second in W.
  assert (LI : (local_secs md p == inject_Z (Qfloor (local_secs md p)))%Q).
  { assert (I : isint (local_secs md p)).
    { unfold local_secs, qz. apply isint_add; [apply qis_int_iff; exact W | apply isint_Z]. }
    destruct I as [z Hz]. rewrite (Qfloor_comp _ _ Hz), Qfloor_Z. exact Hz. }
  rewrite FL in LI. unfold local_secs in LI.
  unfold zone_secs in *. cbn [zh zm]. rewrite Zh, Zm.
  unfold qz in *. rewrite !inject_Z_plus, !inject_Z_mult in *.
  change (inject_Z 3600) with 3600%Q in *. change (inject_Z 60) with 60%Q in *. change (inject_Z 86400) with 86400%Q in *.
  lra.
Qed.

(* ================================================================== *)
(* 9. the table is exactly the eleven; %s before the epoch             *)
(* ================================================================== *)
Theorem table_exact :
  length STRFTIME_TABLE = 11%nat /\
  SUPPORTED = ["%Y"; "%m"; "%d"; "%j"; "%H"; "%M"; "%S"; "%F"; "%X"; "%z"; "%s"] /\
  forallb (fun row => mem (fst row) SUPPORTED) STRFTIME_TABLE = true /\
  forallb (fun d => mem d (map fst STRFTIME_TABLE)) SUPPORTED = true.
Proof. vm_compute. repeat split; reflexivity. Qed.

(* an instance of strftime_posix that a truncating %s (str(int(...)), "59 0")
   would fail: half a second before the epoch, %S prints 59 and %s prints -1,
   the POSIX time_t of that instant *)
Definition p_before_epoch : tp := mkTp (Cal 1969 12 31) (HMS 23 59 (119 # 2)) (mkZone 0 0).
Lemma strftime_before_epoch :
  valid_tp G p_before_epoch = true /\
  strftime 2 STRFTIME_TABLE G p_before_epoch "%S %s" = DOk "59 -1" /\
  (match civil_of G p_before_epoch with
   | Some c => posix c (split_format "%S %s" "") | None => None end) = Some "59 -1".
Proof. vm_compute. repeat split; reflexivity. Qed.
