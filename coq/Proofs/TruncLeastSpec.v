(* Proofs/TruncLeastSpec.v -- adding a truncated time point (Model/Truncated.v):
   the two shapes with a day designator for which the result IS the least match
   of Spec/NextMatch.v: (1) one day designator and no time field, (2) one day
   designator together with an hour (minute, second optional).  The day loop
   advances one day at a time and no day it passes matches; with the hour given
   the time loops fix the time of day before the day loop starts. *)
From Coq Require Import QArith Qround Qabs Lqa List.
From Iso Require Import Proofs.Tac Spec.Cal Spec.Instant Spec.NextMatch Model.Num Model.Helpers Model.Duration
  Model.TimePoint Model.Truncated Proofs.HelpersSpec Proofs.ConvSpec Proofs.TickSpec Proofs.AddSpec
  Proofs.MonthSpec Proofs.ZoneSpec Proofs.CmpSpec Proofs.NextMatchSpec Proofs.TruncSpec.
Import ListNotations.
Open Scope Z_scope.

(* ---------- the day designator number k (0 weekday, 1 day of month, 2 day of year) ---------- *)
Definition dspec (k d : Z) : dayspec :=
  if k =? 0 then mkDay (Some d) None None None
  else if k =? 1 then mkDay None (Some d) None None else mkDay None None (Some d) None.
Definition conv_k (md : mode) (k : Z) (d0 : date) : option date :=
  if k =? 0 then to_week_date md d0 else if k =? 1 then to_calendar_date md d0 else to_ordinal_date md d0.
Definition bnd (k : Z) : Z := if k =? 0 then 8 else if k =? 1 then 63 else 2929.
Definition one_day (t : trunc) (k d : Z) : Prop :=
  (k = 0 /\ 1 <= d <= 7 /\ t_dow t = Some d /\ t_dom t = None /\ t_doy t = None /\ t_week t = None) \/
  (k = 1 /\ 1 <= d <= 28 /\ t_dom t = Some d /\ t_dow t = None /\ t_doy t = None /\ t_week t = None) \/
  (k = 2 /\ 1 <= d <= 360 /\ t_doy t = Some d /\ t_dow t = None /\ t_dom t = None /\ t_week t = None).
Definition hms_int (t : tod) : Prop := match t with HMS _ _ s => isint s | _ => False end.

(* the designator of a valid date is the one the specification computes for its day number *)
Lemma day_matches_field md k d x : 0 <= k <= 2 -> valid_date md (tdate x) = true ->
  rep_kind (tdate x) = kind_of k ->
  day_matches md (dspec k d) (date_dn md (tdate x)) = (d =? field_of x).
Proof.
  intros Hk V K. assert (C : k = 0 \/ k = 1 \/ k = 2) by lia.
  unfold day_matches, field_of.
  destruct (date_of_dn_spec md (date_dn md (tdate x))) as (Wo & Wc & Ww).
  destruct (cal_of_dn md _) as [[yc mc] dc]. destruct (ord_of_dn md _) as [yo doo].
  destruct (week_of_dn md _) as [[yw ww] dw].
  destruct C as [-> | [-> | ->]]; destruct (tdate x) as [y m dd | y dd | y w dd]; try discriminate K;
    cbn [valid_date date_dn] in *; unfold dspec; cbn [Z.eqb Pos.eqb ds_dow ds_dom ds_doy ds_week opt_match andb].
  - destruct Ww as [V' E]. pose proof (dn_week_inj md _ _ _ _ _ _ V' V E) as I. injection I as -> -> ->.
    rewrite !andb_true_r. reflexivity.
  - destruct Wc as [V' E]. pose proof (dn_cal_inj md _ _ _ _ _ _ V' V E) as I. injection I as -> -> ->.
    rewrite !andb_true_r. reflexivity.
  - destruct Wo as [V' E]. pose proof (dn_ord_inj md _ _ _ _ V' V E) as I. injection I as -> ->.
    rewrite !andb_true_r. reflexivity.
Qed.

Lemma hms_int_red t : hms_int t -> hms_int (tod_red t).
Proof. destruct t; cbn [tod_red hms_int]; try tauto. apply isint_red. Qed.

(* ---------- the day loop passes no matching day ---------- *)
Lemma day_loop_least md k d bound x0 : 0 <= k <= 2 -> trange k d -> dgood md (kind_of k) x0 ->
  (if k =? 0 then 6 else if k =? 1 then 30 else 365) <= bound ->
  exists r, step_until md (date_field k) (bump_date k) (qz d) bound x0 = TOk r /\
    dgood md (kind_of k) r /\ tzone r = tzone x0 /\ (tod_secs (ttod r) == tod_secs (ttod x0))%Q /\
    (hms_int (ttod x0) -> hms_int (ttod r)) /\
    date_dn md (tdate x0) <= date_dn md (tdate r) <= date_dn md (tdate x0) + 365 /\ field_of r = d /\
    (forall n', date_dn md (tdate x0) <= n' < date_dn md (tdate r) -> day_matches md (dspec k d) n' = false).
Proof.
  intros Hk T G0 B. unfold step_until. cbv zeta.
  set (cond := fun x : tp => match date_field k x with Some v => negb (qeqb v (qz d)) | None => false end).
  set (step := fun x : tp => tick_over md (bump_date k x)).
  set (Inv := fun x : tp => dgood md (kind_of k) x /\ tzone x = tzone x0 /\
                 (tod_secs (ttod x) == tod_secs (ttod x0))%Q /\ (hms_int (ttod x0) -> hms_int (ttod x)) /\
                 exists j, 0 <= j /\ date_dn md (tdate x) = date_dn md (tdate x0) + j /\
                   j + mu_day md d x <= mu_day md d x0 /\ (j = 0 \/ j <= mu_day md d x0) /\
                   forall n', date_dn md (tdate x0) <= n' < date_dn md (tdate x) ->
                              day_matches md (dspec k d) n' = false).
  assert (Hc : forall x, dgood md (kind_of k) x -> cond x = negb (field_of x =? d)).
  { intros x (_ & K & _). unfold cond. destruct (date_field_kind k x Hk K) as [-> _].
    unfold qz. rewrite qeqb_Z. reflexivity. }
  destruct (loop_spec cond step Inv (mu_day md d)) with (n := bound) (a := x0)
    as [(G & Z & S & HI & j & J0 & J1 & J2 & J3 & J4) C].
  - intros x (G & Z & S & HI & j & J0 & J1 & J2 & J3 & J4) Cx. rewrite (Hc x G) in Cx.
    assert (F : field_of x <> d) by lia. clear Cx.
    destruct (day_step md k x Hk G) as (G' & D' & S' & Z'). fold (step x) in *.
    destruct (mu_day_step md k d x (step x) Hk T G G' D' F) as [M1 M2].
    split; [|exact M1].
    unfold Inv. split; [exact G'|]. split; [congruence|]. split; [rewrite S', tod_secs_red; exact S|].
    split; [intros H0; rewrite S'; apply hms_int_red; auto|].
    exists (j + 1). split; [lia|]. split; [lia|]. split; [lia|]. split; [lia|].
    intros n' Hn. destruct (Z.eq_dec n' (date_dn md (tdate x))) as [->|Ne]; [|apply J4; lia].
    destruct G as (V & K & _). rewrite (day_matches_field md k d x Hk V K). lia.
  - intros x (G & Z & S & HI & _) Cx. rewrite (Hc x G) in Cx.
    destruct (day_step md k x Hk G) as (G' & D' & S' & Z').
    apply (mu_day_step md k d x _ Hk T G G' D'). lia.
  - unfold Inv. split; [exact G0|]. split; [reflexivity|]. split; [reflexivity|]. split; [auto|].
    exists 0. split; [lia|]. split; [lia|]. split; [lia|]. split; [left; reflexivity|]. intros n' Hn. lia.
  - pose proof (mu_day_bound md k d x0 Hk T G0). lia.
  - match goal with |- context [if ?b then THang else _] => change b with (cond (loop cond step bound x0)) end.
    rewrite C. eexists. split; [reflexivity|]. rewrite (Hc _ G) in C.
    pose proof (mu_day_bound md k d x0 Hk T G0) as MB.
    assert (MB' : mu_day md d x0 <= 365) by (destruct (k =? 0); [lia|]; destruct (k =? 1); lia).
    split; [exact G|]. split; [exact Z|]. split; [exact S|]. split; [exact HI|].
    split; [lia|]. split; [lia|]. exact J4.
Qed.

Lemma conv_k_spec md k d0 : 0 <= k <= 2 -> valid_date md d0 = true ->
  exists d', conv_k md k d0 = Some d' /\ valid_date md d' = true /\
             date_dn md d' = date_dn md d0 /\ rep_kind d' = kind_of k.
Proof.
  intros Hk V. assert (C : k = 0 \/ k = 1 \/ k = 2) by lia. unfold conv_k, kind_of.
  destruct C as [-> | [-> | ->]]; cbn [Z.eqb Pos.eqb].
  - apply to_week_date_spec; exact V.
  - apply to_calendar_date_spec; exact V.
  - apply to_ordinal_date_spec; exact V.
Qed.

(* a date already in the designator's representation is kept *)
Lemma conv_k_same md k d0 : 0 <= k <= 2 -> rep_kind d0 = kind_of k -> conv_k md k d0 = Some d0.
Proof.
  intros Hk K. assert (C : k = 0 \/ k = 1 \/ k = 2) by lia. unfold conv_k.
  destruct C as [-> | [-> | ->]]; destruct d0; try discriminate K; reflexivity.
Qed.

(* the part of add_truncated after the time loops *)
Definition day_part (md : mode) (t : trunc) (p3 : tp) : tres :=
  tbind (match t_dow t with
         | Some d => tbind (conv (to_week_date md (tdate p3)) p3) (step_until md (date_field 0) (bump_date 0) (qz d) 8)
         | None => TOk p3 end) (fun p4 =>
  tbind (match t_dom t with
         | Some d => tbind (conv (to_calendar_date md (tdate p4)) p4) (step_until md (date_field 1) (bump_date 1) (qz d) 63)
         | None => TOk p4 end) (fun p5 =>
  tbind (match t_doy t with
         | Some d => tbind (conv (to_ordinal_date md (tdate p5)) p5) (step_until md (date_field 2) (bump_date 2) (qz d) 2929)
         | None => TOk p5 end) (fun p6 =>
  match t_week t with
  | Some w => tbind (conv (to_week_date md (tdate p6)) p6) (step_until md (date_field 3) (bump_date 3) (qz w) 1500)
  | None => TOk p6
  end))).

Lemma tbind_ret r : tbind r (fun p => TOk p) = r.
Proof. destruct r; reflexivity. Qed.

Lemma day_part_one md t k d x : one_day t k d ->
  day_part md t x = tbind (conv (conv_k md k (tdate x)) x) (step_until md (date_field k) (bump_date k) (qz d) (bnd k)).
Proof.
  intros O. unfold day_part, conv_k, bnd.
  destruct O as [(-> & _ & -> & -> & -> & ->) | [(-> & _ & -> & -> & -> & ->) | (-> & _ & -> & -> & -> & ->)]];
    cbn [Z.eqb Pos.eqb tbind].
  - apply tbind_ret.
  - apply tbind_ret.
  - apply tbind_ret.
Qed.

Lemma one_day_facts t k d : one_day t k d ->
  0 <= k <= 2 /\ trange k d /\ mkDay (t_dow t) (t_dom t) (t_doy t) None = dspec k d /\
  (if k =? 0 then 6 else if k =? 1 then 30 else 365) <= bnd k.
Proof.
  unfold trange, dspec, bnd.
  intros [(-> & B & -> & -> & -> & _) | [(-> & B & -> & -> & -> & _) | (-> & B & -> & -> & -> & _)]];
    cbn [Z.eqb Pos.eqb]; (split; [lia|]); (split; [lia|]); (split; [reflexivity|lia]).
Qed.

(* conversion into the designator's representation, then the day loop *)
Lemma day_part_spec md t k d x : one_day t k d ->
  valid_date md (tdate x) = true -> normal_tod (ttod x) = true ->
  exists r, day_part md t x = TOk r /\
    dgood md (kind_of k) r /\ tzone r = tzone x /\ (tod_secs (ttod r) == tod_secs (ttod x))%Q /\
    (hms_int (ttod x) -> hms_int (ttod r)) /\
    date_dn md (tdate x) <= date_dn md (tdate r) <= date_dn md (tdate x) + 365 /\ field_of r = d /\
    (forall n', date_dn md (tdate x) <= n' < date_dn md (tdate r) -> day_matches md (dspec k d) n' = false).
Proof.
  intros O V N. destruct (one_day_facts t k d O) as (Hk & T & _ & B).
  rewrite (day_part_one md t k d x O).
  destruct (conv_k_spec md k (tdate x) Hk V) as (d' & -> & V' & D' & K'). cbn [conv tbind].
  destruct (day_loop_least md k d (bnd k) (with_date x d') Hk T) as (r & E & H).
  { unfold dgood. cbn [with_date tdate ttod]. auto. }
  { exact B. }
  cbn [with_date tdate ttod tzone] in H. rewrite D' in H. exists r. split; [exact E|exact H].
Qed.

(* a point already on a matching day is left alone *)
Lemma day_part_done md t k d r : one_day t k d -> rep_kind (tdate r) = kind_of k -> field_of r = d ->
  day_part md t r = TOk r.
Proof.
  intros O K F. destruct (one_day_facts t k d O) as (Hk & _).
  rewrite (day_part_one md t k d r O), (conv_k_same md k _ Hk K). cbn [conv tbind].
  replace (with_date r (tdate r)) with r by (destruct r; reflexivity).
  assert (C : match date_field k r with Some v => negb (qeqb v (qz d)) | None => false end = false).
  { destruct (date_field_kind k r Hk K) as [-> _]. unfold qz. rewrite qeqb_Z, F, Z.eqb_refl. reflexivity. }
  unfold step_until. cbv zeta. rewrite loop_done by exact C. rewrite C. reflexivity.
Qed.

Lemma dgood_valid md K r : dgood md K r -> valid_zone (tzone r) = true -> normal_tp md r = true.
Proof. intros (V & _ & N) Z. unfold normal_tp. rewrite V, N, Z. reflexivity. Qed.

Lemma local_ds_snd_normal md r : normal_tod (ttod r) = true ->
  (snd (local_ds md r (tzone r)) == tod_secs (ttod r))%Q.
Proof.
  intros N. pose proof (local_ds_normal md r N) as F. unfold local_ds in *. cbv zeta in *. cbn [fst snd] in *.
  rewrite F, Qred_correct. unfold instant, qz. ring.
Qed.

(* ====================================================================== *)
(* one day designator, no time field: the least matching day               *)
(* ====================================================================== *)
Lemma add_truncated_notime md p t : t_hour t = None -> t_min t = None -> t_sec t = None ->
  add_truncated md p t = day_part md t (normalised md p).
Proof.
  intros H1 H2 H3. unfold add_truncated, day_part. rewrite H1, H2, H3. reflexivity.
Qed.

Lemma day_only_one md t : day_only md t -> exists k d, one_day t k d.
Proof.
  intros (_ & _ & _ & _ & [(d & H) | [(d & H) | (d & H)]]).
  - exists 0, d. left. tauto.
  - exists 1, d. right. left. tauto.
  - exists 2, d. right. right. tauto.
Qed.

Lemma next_day_intro md s n0 h n : 0 < h -> n0 <= n < n0 + h -> day_matches md s n = true ->
  (forall k, n0 <= k < n -> day_matches md s k = false) -> next_day md s n0 h = Some n.
Proof.
  intros Hh B M L. pose proof (next_day_spec md s n0 h Hh) as D. revert D.
  generalize (next_day md s n0 h). intros nd D. destruct nd as [n1|].
  - destruct D as (A & M1 & L1). f_equal.
    destruct (Z_lt_le_dec n1 n) as [G|G]; [rewrite L in M1 by lia; discriminate M1|].
    destruct (Z_lt_le_dec n n1) as [G'|G']; [rewrite L1 in M by lia; discriminate M|]. lia.
  - rewrite D in M by lia. discriminate M.
Qed.

Lemma add_trunc_day_least : forall md p t, normal_tp md p = true -> day_only md t ->
  exists r, tp_add_trunc md t p = TOk r /\ valid_tp md r = true /\ tzone r = tzone p /\
    (let '(n0, s0) := local_ds md p (tzone p) in let '(n, s) := local_ds md r (tzone p) in
     next_match md (mkDay (t_dow t) (t_dom t) (t_doy t) None) (mkTod None None None) n0 (Qfloor s0) 3000
       = Some (n, Qfloor s)).
Proof.
  intros md p t N DO. destruct (day_only_one md t DO) as (k & d & O).
  destruct DO as (Hh & Hm & Hs & Hz & _).
  destruct (normal_tp_parts md p N) as (Vd & Nt & Vz).
  destruct (one_day_facts t k d O) as (Hk & T & -> & _).
  destruct (day_part_spec md t k d p O Vd Nt) as (r & E & G & Zr & Sr & _ & Dr & Fr & Lr).
  exists r. unfold tp_add_trunc. rewrite Hz, (add_truncated_notime md p t Hh Hm Hs), (normalised_normal md p Nt), E.
  cbn [tbind]. rewrite <- Zr, to_time_zone_same. split; [reflexivity|].
  split; [apply normal_valid; apply (dgood_valid md _ r G); rewrite Zr; exact Vz|]. split; [reflexivity|].
  assert (Nr : normal_tod (ttod r) = true) by apply G.
  pose proof (local_ds_normal md p Nt) as A0. pose proof (local_ds_snd_normal md p Nt) as B0.
  pose proof (local_ds_normal md r Nr) as A1. pose proof (local_ds_snd_normal md r Nr) as B1.
  rewrite Zr in *.
  destruct (local_ds md p (tzone p)) as [n0 s0]. destruct (local_ds md r (tzone p)) as [n1 s1].
  cbn [fst snd] in *. subst n0 n1.
  assert (ES : Qfloor s1 = Qfloor s0) by (apply Qfloor_comp; rewrite B0, B1; exact Sr).
  rewrite ES. unfold next_match. cbn [has_time ts_h ts_m ts_s].
  rewrite (next_day_intro md (dspec k d) (date_dn md (tdate p)) 3000 (date_dn md (tdate r))); try lia; try assumption.
  - reflexivity.
  - destruct G as (V & K & _). rewrite (day_matches_field md k d r Hk V K). lia.
Qed.
Print Assumptions add_trunc_day_least.

(* ====================================================================== *)
(* one day designator together with an hour                                *)
(* ====================================================================== *)
Definition day_time (md : mode) (t : trunc) : Prop :=
  t_hour t <> None /\ field_ok (t_hour t) 24 /\ field_ok (t_min t) 60 /\ field_ok (t_sec t) 60 /\ t_zone t = None /\
  ((exists d, 1 <= d <= 7 /\ t_dow t = Some d /\ t_dom t = None /\ t_doy t = None /\ t_week t = None) \/
   (exists d, 1 <= d <= 28 /\ t_dom t = Some d /\ t_dow t = None /\ t_doy t = None /\ t_week t = None) \/
   (exists d, 1 <= d <= 360 /\ t_doy t = Some d /\ t_dow t = None /\ t_dom t = None /\ t_week t = None)).

(* the three time loops followed by a continuation *)
Definition time_chain_k (md : mode) (sQ : Q) (mQ hQ : option Q) (x : tp) (f : tp -> tres) : tres :=
  tbind (step_until md tod_sec bump_sec sQ 61 x) (fun p1 =>
  tbind (match mQ with Some m => step_until md tod_min bump_min m 61 p1 | None => TOk p1 end) (fun p2 =>
  tbind (match hQ with Some h => step_until md tod_hr bump_hr h 25 p2 | None => TOk p2 end) f)).

Lemma time_chain_k_spec md x sQ mQ hQ sT mo ho f : good md x -> (sQ == inject_Z sT)%Q -> 0 <= sT < 60 ->
  opt_rel mQ mo 60 -> opt_rel hQ ho 24 -> (mo = None -> ho = None) ->
  exists r, time_chain_k md sQ mQ hQ x f = f r /\ good md r /\ tzone r = tzone x /\
    rep_kind (tdate r) = rep_kind (tdate x) /\ least sT mo ho (TT md x) (TT md r).
Proof.
  intros G Es Bs Rm Rh MH. unfold time_chain_k.
  destruct (sec_loop md sQ sT x Es Bs G) as (r1 & j1 & -> & G1 & Z1 & K1 & B1 & T1 & F1 & L1).
  cbn [tbind].
  destruct (opt_min_loop md mQ mo r1 Rm G1) as (r2 & j2 & -> & G2 & Z2 & K2 & B2 & T2 & F2 & L2).
  cbn [tbind].
  destruct (opt_hr_loop md hQ ho r2 Rh G2) as (r3 & j3 & -> & G3 & Z3 & K3 & B3 & T3 & F3 & L3).
  cbn [tbind].
  exists r3. split; [reflexivity|]. split; [exact G3|]. split; [congruence|]. split; [congruence|].
  rewrite T3, T2, T1 in *. apply combine; assumption.
Qed.

Lemma time_chain_k_done md r sQ mQ hQ sT mo ho f : good md r -> (sQ == inject_Z sT)%Q ->
  opt_rel mQ mo 60 -> opt_rel hQ ho 24 -> pm sT mo ho (TT md r) ->
  time_chain_k md sQ mQ hQ r f = f r.
Proof.
  intros G Es Rm Rh (P1 & P2 & P3). unfold time_chain_k.
  rewrite (tloop_done md tod_sec bump_sec fs sT (get_sec md) sQ 61 r Es G P1). cbn [tbind].
  assert (E2 : match mQ with Some m => step_until md tod_min bump_min m 61 r | None => TOk r end = TOk r).
  { destruct mQ as [q|], mo as [z|]; cbn [opt_rel] in Rm; try contradiction; [|reflexivity].
    destruct Rm as [E _]. apply (tloop_done md tod_min bump_min fm z (get_min md) q 61 r E G P2). }
  rewrite E2. cbn [tbind].
  assert (E3 : match hQ with Some h => step_until md tod_hr bump_hr h 25 r | None => TOk r end = TOk r).
  { destruct hQ as [q|], ho as [z|]; cbn [opt_rel] in Rh; try contradiction; [|reflexivity].
    destruct Rh as [E _]. apply (tloop_done md tod_hr bump_hr fh z (get_hr md) q 25 r E G P3). }
  rewrite E3. reflexivity.
Qed.

Lemma add_truncated_hour md p t h m s : t_hour t <> None -> ttod (normalised md p) = HMS h m s ->
  add_truncated md p t = time_chain_k md (eff_sec t) (eff_min t) (t_hour t) (normalised md p) (day_part md t).
Proof.
  intros Hh Et. destruct t as [th tm ts tdow tdom tdoy twk tzn].
  cbn [t_hour] in Hh.
  unfold add_truncated, time_chain_k, eff_sec, eff_min, day_part.
  cbn [t_hour t_min t_sec t_dow t_dom t_doy t_week t_zone].
  destruct th as [a|]; [|exfalso; apply Hh; reflexivity].
  destruct tm as [b|], ts as [c|]; cbv beta iota zeta;
    rewrite ?(to_hms_hms _ _ _ _ Et); reflexivity.
Qed.

Lemma day_time_rels t : field_ok (t_hour t) 24 -> field_ok (t_min t) 60 -> field_ok (t_sec t) 60 ->
  t_hour t <> None ->
  (eff_sec t == inject_Z (eff_sT (qfl (t_sec t))))%Q /\ 0 <= eff_sT (qfl (t_sec t)) < 60 /\
  opt_rel (eff_min t) (eff_mo (qfl (t_hour t)) (qfl (t_min t))) 60 /\
  opt_rel (t_hour t) (qfl (t_hour t)) 24 /\
  (eff_mo (qfl (t_hour t)) (qfl (t_min t)) = None -> qfl (t_hour t) = None) /\
  has_time (mkTod (qfl (t_hour t)) (qfl (t_min t)) (qfl (t_sec t))) = true.
Proof.
  intros Fh Fm Fs Hh.
  assert (TO : time_only (mkTrunc (t_hour t) (t_min t) (t_sec t) None None None None None)).
  { unfold time_only. cbn [t_hour t_min t_sec t_dow t_dom t_doy t_week]. auto 10. }
  exact (eff_rels _ TO).
Qed.

Lemma tod_unique T T' : T mod 60 = T' mod 60 -> T mod 3600 / 60 = T' mod 3600 / 60 ->
  T mod 86400 / 3600 = T' mod 86400 / 3600 -> T mod 86400 = T' mod 86400.
Proof. lia. Qed.

Lemma pm_shift sT mo ho T T' : T mod 86400 = T' mod 86400 -> pm sT mo ho T -> pm sT mo ho T'.
Proof.
  unfold pm, fs, fm, fh. intros E (A & B & C).
  replace (T' mod 60) with (T mod 60) by lia.
  replace (T' mod 3600 / 60) with (T mod 3600 / 60) by lia.
  rewrite <- E. auto.
Qed.

Lemma pm_unique sT b a T T' : pm sT (Some b) (Some a) T -> pm sT (Some b) (Some a) T' ->
  T mod 86400 = T' mod 86400.
Proof.
  unfold pm, fs, fm, fh. cbn [omatch]. intros (A & B & C) (A' & B' & C').
  apply tod_unique; congruence.
Qed.

(* the least instant with the time of day, then the least matching day from there *)
Lemma least_day_next_match md ds th tm ts T0 T3 n : th <> None ->
  least (eff_sT ts) (eff_mo th tm) th T0 T3 ->
  T3 / 86400 <= n <= T3 / 86400 + 365 -> day_matches md ds n = true ->
  (forall n', T3 / 86400 <= n' < n -> day_matches md ds n' = false) ->
  next_match md ds (mkTod th tm ts) (T0 / 86400) (T0 mod 86400) 3000 = Some (n, T3 mod 86400).
Proof.
  intros Hh (B & P & L) Bn Dm Ln.
  destruct th as [a|]; [clear Hh|exfalso; apply Hh; reflexivity].
  assert (HT : has_time (mkTod (Some a) tm ts) = true) by (destruct tm, ts; reflexivity).
  assert (exists b, eff_mo (Some a) tm = Some b) as [b Eb] by (destruct tm; cbn [eff_mo]; eauto).
  rewrite Eb in *.
  apply next_match_intro; try assumption; try lia.
  - unfold lex_le. cbn [fst snd]. lia.
  - apply (sod_pm (Some a) tm ts T3 HT). rewrite Eb. exact P.
  - intros n' x' Le Hn Hx Dm' Sm. unfold lex_le in *. cbn [fst snd] in *.
    assert (E1 : (86400 * n' + x') mod 86400 = x') by lia.
    rewrite <- E1 in Sm. apply (sod_pm (Some a) tm ts _ HT) in Sm. rewrite Eb in Sm.
    pose proof (L (86400 * n' + x') ltac:(lia) Sm) as L3.
    pose proof (pm_unique _ _ _ _ _ P Sm) as U. rewrite E1 in U.
    destruct (Z_lt_le_dec n' n) as [G|G].
    + rewrite Ln in Dm' by lia. discriminate Dm'.
    + lia.
Qed.

Lemma add_trunc_day_time_least : forall md p t, valid_tp md p = true -> whole_second p -> day_time md t ->
  exists r, tp_add_trunc md t p = TOk r /\ valid_tp md r = true /\ tzone r = tzone p /\
    (let '(n0, s0) := local_ds md p (tzone p) in let '(n, s) := local_ds md r (tzone p) in
     next_match md (mkDay (t_dow t) (t_dom t) (t_doy t) None)
                (mkTod (qfl (t_hour t)) (qfl (t_min t)) (qfl (t_sec t)))
                n0 (Qfloor s0) 3000 = Some (n, Qfloor s) /\ qis_int s = true) /\
    tp_add_trunc md t r = TOk r.
Proof.
  intros md p t V W (Hh & Fh & Fm & Fs & Hz & D).
  assert (exists k d, one_day t k d) as (k & d & O).
  { destruct D as [(d & H) | [(d & H) | (d & H)]].
    - exists 0, d. left. tauto.
    - exists 1, d. right. left. tauto.
    - exists 2, d. right. right. tauto. }
  destruct (one_day_facts t k d O) as (Hk & T & -> & _).
  destruct (valid_whole md p V W) as [T0 W0].
  destruct (normalised_spec md p V) as (Nx & Ix & Kx & Ktx & Zx).
  assert (Ktx' : tod_kind (ttod (normalised md p)) = 0).
  { rewrite Ktx. unfold whole_second in W. destruct (ttod p); try contradiction. reflexivity. }
  destruct (good_after md p T0 (normalised md p) 0 W0 Nx Ktx' Zx) as [Gx Tx].
  { rewrite Ix. change (inject_Z 0) with 0%Q. ring. }
  rewrite Z.add_0_r in Tx.
  destruct (good_fields md _ Gx) as (h & m & s & Et & _).
  destruct (day_time_rels t Fh Fm Fs Hh) as (Es & Bs & Rm & Rh & MH & HT).
  destruct (time_chain_k_spec md _ _ _ _ _ _ _ (day_part md t) Gx Es Bs Rm Rh MH) as (p3 & E3 & G3 & Z3 & K3 & L).
  rewrite Tx in L.
  destruct (good_fields md p3 G3) as (h3 & m3 & s3 & Et3 & W3 & _).
  destruct G3 as [N3 I3]. destruct (normal_tp_parts md p3 N3) as (Vd3 & Nt3 & Vz3).
  destruct (day_part_spec md t k d p3 O Vd3 Nt3) as (r & E & G & Zr & Sr & HI & Dr & Fr & Lr).
  specialize (HI I3).
  assert (Zr' : tzone r = tzone p) by congruence.
  assert (Nr : normal_tp md r = true) by (apply (dgood_valid md _ r G); rewrite Zr; exact Vz3).
  assert (Gr : good md r) by (split; [exact Nr | exact HI]).
  (* whole seconds of p3 and r *)
  set (T3 := TT md p3) in *. set (d3 := date_dn md (tdate p3)) in *. set (dr := date_dn md (tdate r)) in *.
  destruct (normal_tod_secs _ Nt3) as [S0 S1].
  assert (X3 : (tod_secs (ttod p3) == inject_Z (T3 - 86400 * d3))%Q).
  { unfold wholeT in W3. fold d3 in W3. unfold Z.sub. rewrite inject_Z_plus, inject_Z_opp, W3. unfold qz. ring. }
  assert (BX : 0 <= T3 - 86400 * d3 < 86400).
  { rewrite X3 in S0, S1. change 0%Q with (inject_Z 0) in S0. change 86400%Q with (inject_Z 86400) in S1.
    rewrite <- Zle_Qle in S0. rewrite <- Zlt_Qlt in S1. lia. }
  assert (D3 : T3 / 86400 = d3) by lia.
  assert (Wr : wholeT md r (86400 * dr + (T3 - 86400 * d3))).
  { unfold wholeT. fold dr. rewrite Sr, X3. unfold qz. rewrite inject_Z_plus. reflexivity. }
  assert (Mr : (86400 * dr + (T3 - 86400 * d3)) mod 86400 = T3 mod 86400) by lia.
  assert (Qr : (86400 * dr + (T3 - 86400 * d3)) / 86400 = dr) by lia.
  assert (Pr : pm (eff_sT (qfl (t_sec t))) (eff_mo (qfl (t_hour t)) (qfl (t_min t))) (qfl (t_hour t)) (TT md r)).
  { rewrite (wholeT_TT md r _ Wr). apply (pm_shift _ _ _ T3); [lia | apply L]. }
  assert (Nmr : normalised md r = r) by (apply normalised_normal; apply G).
  exists r. unfold tp_add_trunc. rewrite Hz.
  rewrite (add_truncated_hour md p t h m s Hh Et), E3, E. cbn [tbind].
  rewrite <- Zr', to_time_zone_same.
  split; [reflexivity|]. split; [apply normal_valid; exact Nr|]. split; [reflexivity|].
  split.
  - rewrite Zr'.
    destruct (local_ds_whole md p T0 W0) as [A0 B0]. destruct (local_ds_whole md r _ Wr) as [A1 B1].
    rewrite Zr' in A1, B1.
    destruct (local_ds md p (tzone p)) as [n0 s0]. destruct (local_ds md r (tzone p)) as [n1 s1].
    cbn [fst snd] in *. subst n0 n1.
    rewrite (Qfloor_comp _ _ B0), (Qfloor_comp _ _ B1), !Qfloor_Z, Mr, Qr.
    split; [|apply qis_int_iff; eexists; exact B1].
    apply least_day_next_match.
    + destruct (t_hour t); [discriminate | exfalso; apply Hh; reflexivity].
    + exact L.
    + rewrite D3. exact Dr.
    + destruct G as (Vr & Kr & _). unfold dr. rewrite (day_matches_field md k d r Hk Vr Kr). lia.
    + rewrite D3. exact Lr.
  - destruct (good_fields md r Gr) as (h' & m' & s' & Et' & _).
    rewrite (add_truncated_hour md r t h' m' s' Hh); [|rewrite Nmr; exact Et'].
    rewrite Nmr. rewrite (time_chain_k_done md r _ _ _ _ _ _ _ Gr Es Rm Rh Pr).
    destruct G as (_ & Kr & _). rewrite (day_part_done md t k d r O Kr Fr). cbn [tbind].
    rewrite to_time_zone_same. reflexivity.
Qed.
Print Assumptions add_trunc_day_time_least.
