(* Proofs/TruncExtLimits.v -- closed witnesses for Props/C20Ext.v: designator
   values the constructor refuses (the model's loop would not end) -- among them
   week 53 of the 360-day calendar, accepted before the fix "bound truncated
   week_of_year by the calendar's longest week-year" (then a genuine hang of the
   package) and refused since; a bare week number keeps the weekday; and the
   operand dispatch of TimePoint.__add__. *)
From Coq Require Import QArith Qround List String.
From Iso Require Import Proofs.Tac Spec.Cal Spec.Instant Spec.NextMatch Model.Num Model.Duration Model.TimePoint
  Model.Truncated Model.TruncOrder Model.Parse Proofs.TruncSpec Proofs.TruncExtCtor Proofs.TruncExtSpec.
Open Scope Z_scope.

Definition tr (h : option Q) dow dom doy wk z : trunc := mkTrunc h None None dow dom doy wk z.
Definition at12 (d : date) : tp := mkTp d (HMS 12 0 0) (mkZone 0 0).

Lemma ext_limits :
  tp_add_trunc D360 (tr None None (Some 31) None None None) (at12 (Cal 2000 1 1)) = THang /\
  check_bounds D360 (trunc_ptp (Some 31) None None None) = false /\
  tp_add_trunc D360 (tr None None None (Some 361) None None) (at12 (Cal 2000 1 1)) = THang /\
  check_bounds D360 (trunc_ptp None (Some 361) None None) = false /\
  tp_add_trunc D365 (tr None None None (Some 366) None None) (at12 (Cal 2000 1 1)) = THang /\
  check_bounds D365 (trunc_ptp None (Some 366) None None) = false /\
  tp_add_trunc D360 (tr None (Some 1) None None (Some 53) None) (at12 (Cal 2000 1 1)) = THang /\
  check_bounds D360 (trunc_ptp None None (Some 53) (Some 1)) = false /\
  tp_add_trunc G (tr None None None None (Some 10) None) (at12 (Cal 2000 1 1)) = TOk (at12 (Wk 2000 10 6)) /\
  next_match G (mkDay None None None (Some 10)) (mkTod None None None) 730485 43200 3000 = Some (730550, 43200) /\
  next_match G (mkDay (Some 6) None None (Some 10)) (mkTod None None None) 730485 43200 3000 = Some (730555, 43200).
Proof. vm_compute. repeat split; reflexivity. Qed.
Print Assumptions ext_limits.

(* week 53 with a weekday in the 360-day calendar: refused by the constructor for
   every weekday; were it passed to add_truncated all the same, the week loop
   would never meet its target, for EVERY valid p (no 360-day year has more than
   52 weeks) -- this is what the package did before the fix *)
Lemma week53_360_unreachable :
  (forall d, check_bounds D360 (trunc_ptp None None (Some 53) (Some d)) = false) /\
  (forall p t d, valid_tp D360 p = true -> no_time t -> t_zone t = None ->
     1 <= d <= 7 -> t_dow t = Some d /\ t_week t = Some 53 /\ t_dom t = None /\ t_doy t = None ->
     tp_add_trunc D360 t p = THang).
Proof.
  split; [|exact week53_360_hang].
  intros d. rewrite trunc_ctor_bounds. cbn [in_rng andb]. reflexivity.
Qed.
Print Assumptions week53_360_unreachable.

Lemma operand_order : forall md t p,
  tp_add_points md (Full p) (Trunc t) = tp_add_points md (Trunc t) (Full p) /\
  tp_add_points md (Trunc t) (Full p) = Some (tp_add_trunc md t p).
Proof. intros md t p. split; reflexivity. Qed.
Print Assumptions operand_order.
