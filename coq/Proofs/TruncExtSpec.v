(* Proofs/TruncExtSpec.v -- adding a truncated time point (Model/Truncated.v),
   the shapes Proofs/TruncLeastSpec.v leaves open: week number with weekday
   (incl. week 53), day of month 29-31, day of year 361-366, and truncated
   points that carry their own UTC offset.

   One loop lemma serves all four date designators: the loop reaches the first
   day (stepping 1 day, or 7 for the week number) whose designator has the
   value sought, provided one exists within the model's loop bound -- which
   Proofs/TruncExtCal.v shows for every value the constructor accepts.  A
   "stage" abstracts the day part of add_truncated; the theorems about
   add_truncated (no time field / with an hour / time only) are proved once for
   any stage and then wrapped for an unknown and for a given zone of t. *)
From Coq Require Import QArith Qround Qabs Lqa List.
From Iso Require Import Proofs.Tac Spec.Cal Spec.Instant Spec.NextMatch Model.Num Model.Helpers Model.Duration
  Model.TimePoint Model.Truncated Proofs.HelpersSpec Proofs.ConvSpec Proofs.TickSpec Proofs.AddSpec
  Proofs.MonthSpec Proofs.ZoneSpec Proofs.CmpSpec Proofs.NextMatchSpec Proofs.TruncSpec Proofs.TruncLeastSpec
  Proofs.TruncExtCal.
Import ListNotations.
Open Scope Z_scope.

(* ====================================================================== *)
(* one date designator stepped up to its target                            *)
(* ====================================================================== *)
(* designator number k: 0 weekday, 1 day of month, 2 day of year, 3 week of year *)
Definition fieldk (md : mode) (k n : Z) : Z :=
  if k =? 0 then dowf md n else if k =? 1 then domf md n else if k =? 2 then doyf md n else wkf md n.
Definition stride (k : Z) : Z := if k =? 3 then 7 else 1.
Definition convk (md : mode) (k : Z) (d0 : date) : option date :=
  if k =? 3 then to_week_date md d0 else conv_k md k d0.
Definition bndk (k : Z) : Z := if k =? 3 then 1500 else bnd k.

Lemma stride_pos k : 0 < stride k.
Proof. unfold stride. destruct (k =? 3); lia. Qed.

Lemma field_of_date md k x : 0 <= k <= 3 -> valid_date md (tdate x) = true -> rep_kind (tdate x) = kind_of k ->
  date_field k x = Some (qz (fieldk md k (date_dn md (tdate x)))).
Proof.
  intros Hk V K. assert (C : k = 0 \/ k = 1 \/ k = 2 \/ k = 3) by lia.
  unfold date_field, fieldk.
  destruct C as [-> | [-> | [-> | ->]]]; destruct (tdate x) as [y m dd | y dd | y w dd]; try discriminate K;
    cbn [valid_date date_dn Z.eqb Pos.eqb] in *.
  - rewrite (proj2 (week_fields md _ _ _ V)). reflexivity.
  - rewrite (cal_field md _ _ _ V). reflexivity.
  - rewrite (ord_field md _ _ V). reflexivity.
  - rewrite (proj1 (week_fields md _ _ _ V)). reflexivity.
Qed.

Lemma gstep md k x : 0 <= k <= 3 -> dgood md (kind_of k) x ->
  let r := tick_over md (bump_date k x) in
  dgood md (kind_of k) r /\ date_dn md (tdate r) = date_dn md (tdate x) + stride k /\
  ttod r = tod_red (ttod x) /\ tzone r = tzone x.
Proof.
  intros Hk G. destruct (Z.eq_dec k 3) as [->|N].
  - destruct G as (V & K & Nn). cbv zeta. unfold bump_date.
    destruct (tdate x) as [? ? ?|? ?|y w d] eqn:Ed; try discriminate K.
    destruct (tick_over_normal md (with_date x (Wk y (w + 1) d))) as (A & B & C & D & E & F); [exact Nn | exact I |].
    cbn [with_date tdate ttod tzone] in *. unfold dgood. repeat split; try assumption.
    rewrite B. cbn [date_dn]. unfold dn_week, stride. cbn [Z.eqb Pos.eqb]. lia.
  - pose proof (day_step md k x ltac:(lia) G) as S. cbv zeta in *. unfold stride.
    replace (k =? 3) with false by lia. exact S.
Qed.

Lemma div_stride s a b i : 0 < s -> b = a + s * i -> (b - a) / s = i.
Proof. intros Hs ->. replace (a + s * i - a) with (i * s) by ring. apply Z.div_mul. lia. Qed.

Lemma gloop md k v bound x0 J0 : 0 <= k <= 3 -> dgood md (kind_of k) x0 -> 0 <= J0 <= bound ->
  fieldk md k (date_dn md (tdate x0) + stride k * J0) = v ->
  exists r J, step_until md (date_field k) (bump_date k) (qz v) bound x0 = TOk r /\
    dgood md (kind_of k) r /\ tzone r = tzone x0 /\ (tod_secs (ttod r) == tod_secs (ttod x0))%Q /\
    (hms_int (ttod x0) -> hms_int (ttod r)) /\ 0 <= J <= J0 /\
    date_dn md (tdate r) = date_dn md (tdate x0) + stride k * J /\ fieldk md k (date_dn md (tdate r)) = v /\
    (forall i, 0 <= i < J -> fieldk md k (date_dn md (tdate x0) + stride k * i) <> v).
Proof.
  intros Hk G0 BJ F0. set (n0 := date_dn md (tdate x0)) in *. pose proof (stride_pos k) as Hs.
  set (s := stride k) in *.
  destruct (least_witness (fun i => fieldk md k (n0 + s * i) =? v) J0 (proj1 BJ)) as (J & JB & JP & JL).
  { cbv beta. lia. }
  cbv beta in JP, JL.
  unfold step_until. cbv zeta.
  set (cond := fun x : tp => match date_field k x with Some u => negb (qeqb u (qz v)) | None => false end).
  set (step := fun x : tp => tick_over md (bump_date k x)).
  set (Inv := fun x : tp => dgood md (kind_of k) x /\ tzone x = tzone x0 /\
                 (tod_secs (ttod x) == tod_secs (ttod x0))%Q /\ (hms_int (ttod x0) -> hms_int (ttod x)) /\
                 exists i, 0 <= i <= J /\ date_dn md (tdate x) = n0 + s * i).
  set (mu := fun x : tp => J - (date_dn md (tdate x) - n0) / s).
  assert (Hc : forall x, dgood md (kind_of k) x -> cond x = negb (fieldk md k (date_dn md (tdate x)) =? v)).
  { intros x (V & K & _). unfold cond. rewrite (field_of_date md k x Hk V K). unfold qz. rewrite qeqb_Z. reflexivity. }
  assert (Hstep : forall x, Inv x -> cond x = true -> Inv (step x) /\ mu (step x) <= mu x - 1).
  { intros x (G & Z & S & HI & i & Bi & Di) Cx. rewrite (Hc x G) in Cx.
    assert (Li : i < J).
    { destruct (Z.eq_dec i J) as [->|Ne]; [|lia]. rewrite Di in Cx. lia. }
    destruct (gstep md k x Hk G) as (G' & D' & S' & Z'). fold (step x) in *. fold s in D'.
    split.
    - unfold Inv. split; [exact G'|]. split; [congruence|]. split; [rewrite S', tod_secs_red; exact S|].
      split; [intros H0; rewrite S'; apply hms_int_red; auto|].
      exists (i + 1). split; [lia|]. rewrite D', Di. ring.
    - unfold mu. rewrite (div_stride s n0 _ (i + 1) Hs) by (rewrite D', Di; ring).
      rewrite (div_stride s n0 _ i Hs Di). lia. }
  destruct (loop_spec cond step Inv mu) with (n := bound) (a := x0) as [(G & Z & S & HI & i & Bi & Di) C].
  - exact Hstep.
  - intros x (G & Z & S & HI & i & Bi & Di) Cx. rewrite (Hc x G) in Cx.
    assert (Li : i < J).
    { destruct (Z.eq_dec i J) as [->|Ne]; [|lia]. rewrite Di in Cx. lia. }
    unfold mu. rewrite (div_stride s n0 _ i Hs Di). lia.
  - unfold Inv. split; [exact G0|]. split; [reflexivity|]. split; [reflexivity|]. split; [auto|].
    exists 0. split; [lia|]. fold n0. ring.
  - unfold mu. fold n0. rewrite (div_stride s n0 n0 0 Hs) by ring. lia.
  - match goal with |- context [if ?b then THang else _] => change b with (cond (loop cond step bound x0)) end.
    rewrite C. rewrite (Hc _ G) in C.
    assert (i = J).
    { destruct (Z_lt_le_dec i J) as [L|L]; [|lia]. specialize (JL i ltac:(lia)). rewrite Di in C. lia. }
    subst i. exists (loop cond step bound x0), J. split; [reflexivity|].
    split; [exact G|]. split; [exact Z|]. split; [exact S|]. split; [exact HI|]. split; [lia|].
    split; [exact Di|]. split; [lia|]. intros j Hj. specialize (JL j Hj). lia.
Qed.

Lemma convk_spec md k d0 : 0 <= k <= 3 -> valid_date md d0 = true ->
  exists d', convk md k d0 = Some d' /\ valid_date md d' = true /\
             date_dn md d' = date_dn md d0 /\ rep_kind d' = kind_of k.
Proof.
  intros Hk V. unfold convk. destruct (k =? 3) eqn:E.
  - assert (k = 3) by lia. subst k. apply to_week_date_spec; exact V.
  - apply conv_k_spec; [lia | exact V].
Qed.
Lemma convk_same md k d0 : 0 <= k <= 3 -> rep_kind d0 = kind_of k -> convk md k d0 = Some d0.
Proof.
  intros Hk K. unfold convk. destruct (k =? 3) eqn:E.
  - assert (k = 3) by lia. subst k. destruct d0; try discriminate K. reflexivity.
  - apply conv_k_same; [lia | exact K].
Qed.

(* conversion into the designator's representation, then the loop *)
Definition one_stage (md : mode) (k v bound : Z) (x : tp) : tres :=
  tbind (conv (convk md k (tdate x)) x) (step_until md (date_field k) (bump_date k) (qz v) bound).

Lemma one_stage_spec md k v bound x J0 : 0 <= k <= 3 ->
  valid_date md (tdate x) = true -> normal_tod (ttod x) = true -> 0 <= J0 <= bound ->
  fieldk md k (date_dn md (tdate x) + stride k * J0) = v ->
  exists r J, one_stage md k v bound x = TOk r /\
    dgood md (kind_of k) r /\ tzone r = tzone x /\ (tod_secs (ttod r) == tod_secs (ttod x))%Q /\
    (hms_int (ttod x) -> hms_int (ttod r)) /\ 0 <= J <= J0 /\
    date_dn md (tdate r) = date_dn md (tdate x) + stride k * J /\ fieldk md k (date_dn md (tdate r)) = v /\
    (forall i, 0 <= i < J -> fieldk md k (date_dn md (tdate x) + stride k * i) <> v).
Proof.
  intros Hk V N BJ F0. unfold one_stage.
  destruct (convk_spec md k (tdate x) Hk V) as (d' & -> & V' & D' & K'). cbn [conv tbind].
  destruct (gloop md k v bound (with_date x d') J0 Hk) as (r & J & E & H).
  { unfold dgood. cbn [with_date tdate ttod]. auto. }
  { exact BJ. }
  { cbn [with_date tdate]. rewrite D'. exact F0. }
  cbn [with_date tdate ttod tzone] in H. rewrite D' in H. exists r, J. split; [exact E | exact H].
Qed.

Lemma one_stage_done md k v bound r : 0 <= k <= 3 -> dgood md (kind_of k) r ->
  fieldk md k (date_dn md (tdate r)) = v -> one_stage md k v bound r = TOk r.
Proof.
  intros Hk (V & K & N) F. unfold one_stage. rewrite (convk_same md k _ Hk K). cbn [conv tbind].
  replace (with_date r (tdate r)) with r by (destruct r; reflexivity).
  assert (C : match date_field k r with Some u => negb (qeqb u (qz v)) | None => false end = false).
  { rewrite (field_of_date md k r Hk V K). unfold qz. rewrite qeqb_Z, F, Z.eqb_refl. reflexivity. }
  unfold step_until. cbv zeta. rewrite loop_done by exact C. rewrite C. reflexivity.
Qed.

(* ====================================================================== *)
(* stages: what the day part of add_truncated has to deliver               *)
(* ====================================================================== *)
Definition stage_at (md : mode) (ds : dayspec) (H : Z) (f : tp -> tres) (x : tp) : Prop :=
  valid_date md (tdate x) = true -> normal_tod (ttod x) = true ->
  exists r, f x = TOk r /\ valid_date md (tdate r) = true /\ normal_tod (ttod r) = true /\
    tzone r = tzone x /\ (tod_secs (ttod r) == tod_secs (ttod x))%Q /\
    (hms_int (ttod x) -> hms_int (ttod r)) /\
    date_dn md (tdate x) <= date_dn md (tdate r) <= date_dn md (tdate x) + H /\
    day_matches md ds (date_dn md (tdate r)) = true /\
    (forall n', date_dn md (tdate x) <= n' < date_dn md (tdate r) -> day_matches md ds n' = false) /\
    (* stable: any point on the same day in the same representation is left alone *)
    (forall r', valid_date md (tdate r') = true -> normal_tod (ttod r') = true ->
       rep_kind (tdate r') = rep_kind (tdate r) -> date_dn md (tdate r') = date_dn md (tdate r) -> f r' = TOk r').
Definition stage_ok (md : mode) (ds : dayspec) (H : Z) (f : tp -> tres) : Prop := forall x, stage_at md ds H f x.

(* the single-designator day specification *)
Definition dspec4 (k v : Z) : dayspec :=
  if k =? 0 then mkDay (Some v) None None None else if k =? 1 then mkDay None (Some v) None None
  else if k =? 2 then mkDay None None (Some v) None else mkDay None None None (Some v).

Lemma day_matches_dspec4 md k v n : 0 <= k <= 3 -> day_matches md (dspec4 k v) n = (v =? fieldk md k n).
Proof.
  intros Hk. assert (C : k = 0 \/ k = 1 \/ k = 2 \/ k = 3) by lia. rewrite day_matches_fields.
  unfold dspec4, fieldk.
  destruct C as [-> | [-> | [-> | ->]]]; cbn [Z.eqb Pos.eqb ds_dow ds_dom ds_doy ds_week opt_match andb];
    rewrite ?andb_true_r; reflexivity.
Qed.

Lemma stage_single md k v Jmax : 0 <= k <= 2 -> 0 <= Jmax <= bndk k ->
  (forall n, exists J0, 0 <= J0 <= Jmax /\ fieldk md k (n + J0) = v) ->
  stage_ok md (dspec4 k v) Jmax (one_stage md k v (bndk k)).
Proof.
  intros Hk BJ Ex x V N. assert (Hk3 : 0 <= k <= 3) by lia.
  assert (St : stride k = 1) by (unfold stride; replace (k =? 3) with false by lia; reflexivity).
  destruct (Ex (date_dn md (tdate x))) as (J0 & B0 & F0).
  destruct (one_stage_spec md k v (bndk k) x J0 Hk3 V N ltac:(lia)) as (r & J & E & G & Z & S & HI & BJ' & D & F & L).
  { rewrite St, Z.mul_1_l. exact F0. }
  rewrite St, Z.mul_1_l in D.
  exists r. split; [exact E|]. destruct G as (Vr & Kr & Nr).
  split; [exact Vr|]. split; [exact Nr|]. split; [exact Z|]. split; [exact S|]. split; [exact HI|].
  split; [lia|]. split; [rewrite (day_matches_dspec4 md k v _ Hk3); lia|]. split.
  - intros n' Hn. rewrite (day_matches_dspec4 md k v _ Hk3).
    specialize (L (n' - date_dn md (tdate x)) ltac:(lia)). rewrite St, Z.mul_1_l in L.
    replace (date_dn md (tdate x) + (n' - date_dn md (tdate x))) with n' in L by lia. lia.
  - intros r' V' N' K' D'. apply one_stage_done; [exact Hk3 | unfold dgood; split; [exact V'|split; [congruence|exact N']] |].
    rewrite D'. exact F.
Qed.

(* weekday first, then week number: the stage for "week w, weekday d" *)
Definition wd_stage (md : mode) (d w : Z) (x : tp) : tres :=
  tbind (one_stage md 0 d 8 x) (one_stage md 3 w 1500).

Lemma stage_wd md d w : 1 <= d <= 7 -> 1 <= w <= wmax md ->
  stage_ok md (mkDay (Some d) None None (Some w)) 2967 (wd_stage md d w).
Proof.
  intros Hd Hw x V N. unfold wd_stage.
  destruct (next_dow md (date_dn md (tdate x)) d Hd) as (J0 & B0 & F0).
  destruct (one_stage_spec md 0 d 8 x J0 ltac:(lia) V N ltac:(lia)) as (p4 & J1 & E1 & G1 & Z1 & S1 & HI1 & BJ1 & D1 & F1 & L1).
  { unfold stride, fieldk. cbn [Z.eqb]. rewrite Z.mul_1_l. exact F0. }
  rewrite E1. cbn [tbind]. destruct G1 as (V4 & K4 & N4).
  unfold stride in D1, L1. cbn [Z.eqb] in D1, L1. rewrite Z.mul_1_l in D1.
  unfold fieldk in F1, L1. cbn [Z.eqb] in F1, L1.
  destruct (next_week md w (date_dn md (tdate p4)) Hw) as (K0 & C0 & H0).
  destruct (one_stage_spec md 3 w 1500 p4 K0 ltac:(lia) V4 N4 ltac:(lia)) as (r & J2 & E2 & G2 & Z2 & S2 & HI2 & BJ2 & D2 & F2 & L2).
  { unfold stride, fieldk. cbn [Z.eqb Pos.eqb]. exact H0. }
  unfold stride in D2, L2. cbn [Z.eqb Pos.eqb] in D2, L2.
  unfold fieldk in F2, L2. cbn [Z.eqb Pos.eqb] in F2, L2.
  exists r. split; [exact E2|]. destruct G2 as (Vr & Kr & Nr).
  assert (Fd : dowf md (date_dn md (tdate r)) = d) by (rewrite D2, dowf_shift; exact F1).
  split; [exact Vr|]. split; [exact Nr|]. split; [congruence|]. split; [rewrite S2; exact S1|].
  split; [auto|]. split; [lia|].
  split; [rewrite day_matches_fields; cbn [ds_dow ds_dom ds_doy ds_week opt_match andb]; rewrite Fd, F2; lia|].
  split.
  - intros n' Hn. rewrite day_matches_fields. cbn [ds_dow ds_dom ds_doy ds_week opt_match andb].
    rewrite !andb_true_r.
    destruct (d =? dowf md n') eqn:Ed; [|reflexivity]. cbn [andb].
    destruct (Z_lt_le_dec n' (date_dn md (tdate p4))) as [Lt|Ge].
    + exfalso. specialize (L1 (n' - date_dn md (tdate x)) ltac:(lia)).
      rewrite Z.mul_1_l in L1. replace (date_dn md (tdate x) + (n' - date_dn md (tdate x))) with n' in L1 by lia. lia.
    + assert (Em : (n' - date_dn md (tdate p4)) mod 7 = 0) by (apply (dowf_eq md); lia).
      specialize (L2 ((n' - date_dn md (tdate p4)) / 7) ltac:(lia)).
      replace (date_dn md (tdate p4) + 7 * ((n' - date_dn md (tdate p4)) / 7)) with n' in L2 by lia. lia.
  - intros r' V' N' K' D'.
    assert (G' : dgood md 2 r') by (unfold dgood; split; [exact V'|split; [rewrite K'; exact Kr|exact N']]).
    rewrite (one_stage_done md 0 d 8 r' ltac:(lia) G') by (unfold fieldk; cbn [Z.eqb]; rewrite D'; exact Fd).
    cbn [tbind]. apply (one_stage_done md 3 w 1500 r' ltac:(lia) G').
    unfold fieldk. cbn [Z.eqb Pos.eqb]. rewrite D'. exact F2.
Qed.

Lemma stage_ok_weaken md ds H H' f : H <= H' -> stage_ok md ds H f -> stage_ok md ds H' f.
Proof.
  intros Le St x V N. destruct (St x V N) as (r & A1 & A2 & A3 & A4 & A5 & A6 & A7 & A8).
  exists r. repeat (split; [assumption|]). split; [lia | exact A8].
Qed.
Lemma stage_ok_ext md ds H f g : (forall x, g x = f x) -> stage_ok md ds H f -> stage_ok md ds H g.
Proof.
  intros Ex St x V N. destruct (St x V N) as (r & A1 & A2 & A3 & A4 & A5 & A6 & A7 & A8 & A9 & A10).
  exists r. rewrite Ex. repeat (split; [assumption|]). intros r' B1 B2 B3 B4. rewrite Ex. auto.
Qed.

(* ---------- the day designators of a truncated point ---------- *)
Definition sh_single (t : trunc) (k v : Z) : Prop :=
  (k = 0 /\ t_dow t = Some v /\ t_dom t = None /\ t_doy t = None /\ t_week t = None) \/
  (k = 1 /\ t_dom t = Some v /\ t_dow t = None /\ t_doy t = None /\ t_week t = None) \/
  (k = 2 /\ t_doy t = Some v /\ t_dow t = None /\ t_dom t = None /\ t_week t = None).
Definition sh_wd (t : trunc) (w d : Z) : Prop :=
  t_dow t = Some d /\ t_week t = Some w /\ t_dom t = None /\ t_doy t = None.
(* the greatest value the constructor of a truncated point accepts (TimePoint._check_bounds
   without a year: 7; MAX_DAYS_IN_MONTH; DAYS_IN_YEAR_LEAP) *)
Definition vmax (md : mode) (k : Z) : Z := if k =? 0 then 7 else if k =? 1 then mmax md else dmax md.
Definition desig (md : mode) (t : trunc) : Prop :=
  (exists k v, sh_single t k v /\ 1 <= v <= vmax md k) \/
  (exists w d, sh_wd t w d /\ 1 <= d <= 7 /\ 1 <= w <= wmax md).
Definition tday (t : trunc) : dayspec := mkDay (t_dow t) (t_dom t) (t_doy t) (t_week t).

Lemma day_part_single md t k v x : sh_single t k v -> day_part md t x = one_stage md k v (bndk k) x.
Proof.
  intros O. unfold day_part, one_stage, convk, conv_k, bndk, bnd.
  destruct O as [(-> & -> & -> & -> & ->) | [(-> & -> & -> & -> & ->) | (-> & -> & -> & -> & ->)]];
    cbn [Z.eqb Pos.eqb tbind]; apply tbind_ret.
Qed.
Lemma day_part_wd md t w d x : sh_wd t w d -> day_part md t x = wd_stage md d w x.
Proof.
  intros (A & B & C & D). unfold day_part, wd_stage, one_stage, convk, conv_k. rewrite A, B, C, D.
  cbn [Z.eqb Pos.eqb tbind]. reflexivity.
Qed.

Lemma desig_stage md t : desig md t -> stage_ok md (tday t) 2967 (day_part md t).
Proof.
  intros [(k & v & O & Bv) | (w & d & O & Bd & Bw)].
  - assert (Hk : 0 <= k <= 2) by (destruct O as [H | [H | H]]; destruct H as [-> _]; lia).
    assert (Ed : tday t = dspec4 k v).
    { unfold tday, dspec4.
      destruct O as [(-> & -> & -> & -> & ->) | [(-> & -> & -> & -> & ->) | (-> & -> & -> & -> & ->)]]; reflexivity. }
    rewrite Ed. apply (stage_ok_ext md _ _ (one_stage md k v (bndk k))); [intros x; apply day_part_single; exact O|].
    assert (C : k = 0 \/ k = 1 \/ k = 2) by lia. unfold vmax in Bv.
    destruct C as [-> | [-> | ->]]; cbn [Z.eqb Pos.eqb] in Bv.
    + apply (stage_ok_weaken md _ 6); [lia|]. apply stage_single; [lia | unfold bndk, bnd; cbn [Z.eqb Pos.eqb]; lia |].
      intros n. unfold fieldk. cbn [Z.eqb]. apply next_dow. exact Bv.
    + apply (stage_ok_weaken md _ 61); [lia|]. apply stage_single; [lia | unfold bndk, bnd; cbn [Z.eqb Pos.eqb]; lia |].
      intros n. unfold fieldk. cbn [Z.eqb Pos.eqb]. apply next_dom. exact Bv.
    + apply (stage_ok_weaken md _ 2927); [lia|]. apply stage_single; [lia | unfold bndk, bnd; cbn [Z.eqb Pos.eqb]; lia |].
      intros n. unfold fieldk. cbn [Z.eqb Pos.eqb]. apply next_doy. exact Bv.
  - assert (Ed : tday t = mkDay (Some d) None None (Some w)).
    { unfold tday. destruct O as (-> & -> & -> & ->). reflexivity. }
    rewrite Ed. apply (stage_ok_ext md _ _ (wd_stage md d w)); [intros x; apply day_part_wd; exact O|].
    apply stage_wd; assumption.
Qed.

(* no day designator at all: the day part does nothing *)
Definition no_desig (t : trunc) : Prop := t_dow t = None /\ t_dom t = None /\ t_doy t = None /\ t_week t = None.
Lemma no_desig_stage md t : no_desig t -> stage_ok md (tday t) 0 (day_part md t).
Proof.
  intros (A & B & C & D) x V N. unfold tday, day_part. rewrite A, B, C, D. cbn [tbind].
  exists x. split; [reflexivity|]. split; [exact V|]. split; [exact N|]. split; [reflexivity|].
  split; [reflexivity|]. split; [auto|]. split; [lia|]. split; [apply day_matches_any|].
  split; [intros; lia|]. intros; reflexivity.
Qed.

(* ====================================================================== *)
(* add_truncated against the specification, for any stage                  *)
(* ====================================================================== *)
Lemma local_ds_inst md a b z : (instant md a == instant md b)%Q -> local_ds md a z = local_ds md b z.
Proof.
  intros E. unfold local_ds. cbv zeta.
  assert (F : Qfloor ((instant md a + inject_Z (zone_secs z)) / inject_Z 86400) =
              Qfloor ((instant md b + inject_Z (zone_secs z)) / inject_Z 86400))
    by (apply Qfloor_comp; rewrite E; reflexivity).
  rewrite F. f_equal. apply Qred_complete. rewrite E. reflexivity.
Qed.

Lemma same_day md a b : normal_tod (ttod a) = true -> normal_tod (ttod b) = true ->
  tzone a = tzone b -> (instant md a == instant md b)%Q -> date_dn md (tdate a) = date_dn md (tdate b).
Proof.
  intros Na Nb Z E. rewrite <- (local_ds_normal md a Na), <- (local_ds_normal md b Nb), Z.
  rewrite (local_ds_inst md a b _ E). reflexivity.
Qed.

(* what a call of add_truncated on p1 delivers *)
Definition core_res (md : mode) (t : trunc) (ds : dayspec) (tods : todspec) (hz : Z) (p1 r1 : tp) : Prop :=
  add_truncated md p1 t = TOk r1 /\ normal_tp md r1 = true /\ tzone r1 = tzone p1 /\
  (let '(n0, s0) := local_ds md p1 (tzone p1) in let '(n, s) := local_ds md r1 (tzone p1) in
     next_match md ds tods n0 (Qfloor s0) hz = Some (n, Qfloor s) /\ (qis_int s0 = true -> qis_int s = true)) /\
  (forall r', normal_tp md r' = true -> tzone r' = tzone r1 -> (instant md r' == instant md r1)%Q ->
     rep_kind (tdate r') = rep_kind (tdate r1) -> tod_kind (ttod r') = tod_kind (ttod r1) ->
     add_truncated md r' t = TOk r').

Definition no_time (t : trunc) : Prop := t_hour t = None /\ t_min t = None /\ t_sec t = None.
Definition with_hour (t : trunc) : Prop :=
  t_hour t <> None /\ field_ok (t_hour t) 24 /\ field_ok (t_min t) 60 /\ field_ok (t_sec t) 60.
Definition ttod_spec (t : trunc) : todspec := mkTod (qfl (t_hour t)) (qfl (t_min t)) (qfl (t_sec t)).

Lemma qis_int_comp a b : (a == b)%Q -> qis_int a = true -> qis_int b = true.
Proof. intros E H. apply qis_int_iff. apply qis_int_iff in H. apply (isint_eq _ _ E H). Qed.

Lemma core_notime md t ds H p1 : stage_at md ds H (day_part md t) (normalised md p1) -> H < 3000 -> no_time t ->
  valid_tp md p1 = true -> exists r1, core_res md t ds (mkTod None None None) 3000 p1 r1.
Proof.
  intros St HH (Hh & Hm & Hs) V.
  destruct (normalised_spec md p1 V) as (Nx & Ix & Kx & Ktx & Zx).
  set (x := normalised md p1) in *.
  destruct (normal_tp_parts md x Nx) as (Vd & Nt & Vz).
  destruct (St Vd Nt) as (r & E & Vr & Nr & Zr & Sr & HI & Dr & Mr & Lr & Stb).
  assert (NTr : normal_tp md r = true) by (unfold normal_tp; rewrite Vr, Nr, Zr, Vz; reflexivity).
  exists r. split; [rewrite (add_truncated_notime md p1 t Hh Hm Hs); exact E|].
  split; [exact NTr|]. split; [congruence|]. split.
  - rewrite <- (local_ds_inst md x p1 (tzone p1) Ix).
    pose proof (local_ds_normal md x Nt) as A0. pose proof (local_ds_snd_normal md x Nt) as B0.
    pose proof (local_ds_normal md r Nr) as A1. pose proof (local_ds_snd_normal md r Nr) as B1.
    rewrite Zr in A1, B1. rewrite Zx in A0, B0, A1, B1.
    destruct (local_ds md x (tzone p1)) as [n0 s0]. destruct (local_ds md r (tzone p1)) as [n1 s1].
    cbn [fst snd] in *. subst n0 n1.
    assert (ES : (s1 == s0)%Q) by (rewrite B0, B1; exact Sr).
    rewrite (Qfloor_comp _ _ ES). split; [|intros Q0; apply (qis_int_comp s0 s1); [symmetry; exact ES | exact Q0]].
    unfold next_match. cbn [has_time ts_h ts_m ts_s].
    rewrite (next_day_intro md ds (date_dn md (tdate x)) 3000 (date_dn md (tdate r))); try lia; try assumption.
    reflexivity.
  - intros r' N' Z' I' K' _. destruct (normal_tp_parts md r' N') as (Vd' & Nt' & Vz').
    rewrite (add_truncated_notime md r' t Hh Hm Hs), (normalised_normal md r' Nt').
    apply Stb; try assumption. apply same_day; assumption.
Qed.

(* the least instant with the time of day, then the least matching day from there *)
Lemma least_day_next_match_h md ds th tm ts T0 T3 n : th <> None ->
  least (eff_sT ts) (eff_mo th tm) th T0 T3 ->
  T3 / 86400 <= n <= T3 / 86400 + 2998 -> day_matches md ds n = true ->
  (forall n', T3 / 86400 <= n' < n -> day_matches md ds n' = false) ->
  next_match md ds (mkTod th tm ts) (T0 / 86400) (T0 mod 86400) 3000 = Some (n, T3 mod 86400).
Proof.
  intros Hh (B & P & L) Bn Dm Ln.
  destruct th as [a|]; [clear Hh|exfalso; apply Hh; reflexivity].
  assert (HT : has_time (mkTod (Some a) tm ts) = true) by (destruct tm, ts; reflexivity).
  assert (exists b, eff_mo (Some a) tm = Some b) as [b Eb] by (destruct tm; cbn [eff_mo]; eauto).
  rewrite Eb in *.
  apply next_match_intro; try assumption; try lia.
  - unfold lex_le. cbn [fst snd]. lia.
  - apply (sod_pm (Some a) tm ts T3 HT). rewrite Eb. exact P.
  - intros n' x' Le Hn Hx Dm' Sm. unfold lex_le in *. cbn [fst snd] in *.
    assert (E1 : (86400 * n' + x') mod 86400 = x') by lia.
    rewrite <- E1 in Sm. apply (sod_pm (Some a) tm ts _ HT) in Sm. rewrite Eb in Sm.
    pose proof (L (86400 * n' + x') ltac:(lia) Sm) as L3.
    pose proof (pm_unique _ _ _ _ _ P Sm) as U. rewrite E1 in U.
    destruct (Z_lt_le_dec n' n) as [G|G].
    + rewrite Ln in Dm' by lia. discriminate Dm'.
    + lia.
Qed.

Lemma core_hour md t ds H p1 : stage_ok md ds H (day_part md t) -> H <= 2998 -> with_hour t ->
  valid_tp md p1 = true -> whole_second p1 -> exists r1, core_res md t ds (ttod_spec t) 3000 p1 r1.
Proof.
  intros St HH (Hh & Fh & Fm & Fs) V W.
  destruct (valid_whole md p1 V W) as [T0 W0].
  destruct (normalised_spec md p1 V) as (Nx & Ix & Kx & Ktx & Zx).
  assert (Ktx' : tod_kind (ttod (normalised md p1)) = 0).
  { rewrite Ktx. unfold whole_second in W. destruct (ttod p1); try contradiction. reflexivity. }
  destruct (good_after md p1 T0 (normalised md p1) 0 W0 Nx Ktx' Zx) as [Gx Tx].
  { rewrite Ix. change (inject_Z 0) with 0%Q. ring. }
  rewrite Z.add_0_r in Tx.
  destruct (good_fields md _ Gx) as (h & m & s & Et & _).
  destruct (day_time_rels t Fh Fm Fs Hh) as (Es & Bs & Rm & Rh & MH & HT).
  destruct (time_chain_k_spec md _ _ _ _ _ _ _ (day_part md t) Gx Es Bs Rm Rh MH) as (p3 & E3 & G3 & Z3 & K3 & L).
  rewrite Tx in L.
  destruct (good_fields md p3 G3) as (h3 & m3 & s3 & Et3 & W3 & _).
  destruct G3 as [N3 I3]. destruct (normal_tp_parts md p3 N3) as (Vd3 & Nt3 & Vz3).
  destruct (St p3 Vd3 Nt3) as (r & E & Vr & Nr0 & Zr & Sr & HI & Dr & Mr0 & Lr & Stb).
  specialize (HI I3).
  assert (Zr' : tzone r = tzone p1) by congruence.
  assert (Nr : normal_tp md r = true) by (unfold normal_tp; rewrite Vr, Nr0, Zr, Vz3; reflexivity).
  assert (Gr : good md r) by (split; [exact Nr | exact HI]).
  set (T3 := TT md p3) in *. set (d3 := date_dn md (tdate p3)) in *. set (dr := date_dn md (tdate r)) in *.
  destruct (normal_tod_secs _ Nt3) as [S0 S1].
  assert (X3 : (tod_secs (ttod p3) == inject_Z (T3 - 86400 * d3))%Q).
  { unfold wholeT in W3. fold d3 in W3. unfold Z.sub. rewrite inject_Z_plus, inject_Z_opp, W3. unfold qz. ring. }
  assert (BX : 0 <= T3 - 86400 * d3 < 86400).
  { rewrite X3 in S0, S1. change 0%Q with (inject_Z 0) in S0. change 86400%Q with (inject_Z 86400) in S1.
    rewrite <- Zle_Qle in S0. rewrite <- Zlt_Qlt in S1. lia. }
  assert (D3 : T3 / 86400 = d3) by lia.
  assert (Wr : wholeT md r (86400 * dr + (T3 - 86400 * d3))).
  { unfold wholeT. fold dr. rewrite Sr, X3. unfold qz. rewrite inject_Z_plus. reflexivity. }
  assert (Mr : (86400 * dr + (T3 - 86400 * d3)) mod 86400 = T3 mod 86400) by lia.
  assert (Qr : (86400 * dr + (T3 - 86400 * d3)) / 86400 = dr) by lia.
  assert (Pr : pm (eff_sT (qfl (t_sec t))) (eff_mo (qfl (t_hour t)) (qfl (t_min t))) (qfl (t_hour t)) (TT md r)).
  { rewrite (wholeT_TT md r _ Wr). apply (pm_shift _ _ _ T3); [lia | apply L]. }
  exists r. split; [rewrite (add_truncated_hour md p1 t h m s Hh Et), E3; exact E|].
  split; [exact Nr|]. split; [exact Zr'|]. split.
  - destruct (local_ds_whole md p1 T0 W0) as [A0 B0]. destruct (local_ds_whole md r _ Wr) as [A1 B1].
    rewrite Zr' in A1, B1.
    destruct (local_ds md p1 (tzone p1)) as [n0 s0]. destruct (local_ds md r (tzone p1)) as [n1 s1].
    cbn [fst snd] in *. subst n0 n1.
    rewrite (Qfloor_comp _ _ B0), (Qfloor_comp _ _ B1), !Qfloor_Z, Mr, Qr.
    split; [|intros _; apply qis_int_iff; eexists; exact B1].
    unfold ttod_spec. apply least_day_next_match_h.
    + destruct (t_hour t); [discriminate | exfalso; apply Hh; reflexivity].
    + exact L.
    + rewrite D3. fold d3 dr in Dr. lia.
    + exact Mr0.
    + rewrite D3. exact Lr.
  - intros r' N' Z' I' K' KT'.
    assert (KT0 : tod_kind (ttod r') = 0).
    { rewrite KT'. destruct Gr as [_ GI]. destruct (ttod r); try contradiction. reflexivity. }
    destruct (good_fields md r Gr) as (hr & mr & sr & _ & WTr & _).
    destruct (good_after md r _ r' 0 WTr N' KT0 Z') as [Gr' Tr'].
    { rewrite I'. change (inject_Z 0) with 0%Q. ring. }
    rewrite Z.add_0_r in Tr'.
    destruct (normal_tp_parts md r' N') as (Vd' & Nt' & Vz').
    destruct (good_fields md r' Gr') as (h' & m' & s' & Et' & _).
    assert (Nmr : normalised md r' = r') by (apply normalised_normal; exact Nt').
    rewrite (add_truncated_hour md r' t h' m' s' Hh); [|rewrite Nmr; exact Et'].
    rewrite Nmr. rewrite (time_chain_k_done md r' _ _ _ _ _ _ _ Gr' Es Rm Rh); [|rewrite Tr'; exact Pr].
    apply Stb; try assumption. apply same_day; assumption.
Qed.

(* time fields only (any of the seven shapes), horizon 2 as in C20_time_only *)
Lemma core_time md t p1 : time_only t -> valid_tp md p1 = true -> whole_second p1 ->
  exists r1, core_res md t (mkDay None None None None) (ttod_spec t) 2 p1 r1.
Proof.
  intros TO V W.
  destruct (valid_whole md p1 V W) as [T0 W0].
  destruct (normalised_spec md p1 V) as (Nx & Ix & Kx & Ktx & Zx).
  assert (Ktx' : tod_kind (ttod (normalised md p1)) = 0).
  { rewrite Ktx. unfold whole_second in W. destruct (ttod p1); try contradiction. reflexivity. }
  destruct (good_after md p1 T0 (normalised md p1) 0 W0 Nx Ktx' Zx) as [Gx Tx].
  { rewrite Ix. change (inject_Z 0) with 0%Q. ring. }
  rewrite Z.add_0_r in Tx.
  destruct (good_fields md _ Gx) as (h & m & s & Et & _).
  destruct (eff_rels t TO) as (Es & Bs & Rm & Rh & MH & HT).
  destruct (time_chain_spec md _ _ _ _ _ _ _ Gx Es Bs Rm Rh MH) as (r & Er & Gr & Zr & Kr & L).
  rewrite Tx in L.
  assert (Zr' : tzone r = tzone p1) by congruence.
  exists r. split; [rewrite (add_truncated_chain md p1 t h m s TO Et); exact Er|].
  split; [apply Gr|]. split; [exact Zr'|].
  destruct (good_fields md r Gr) as (h' & m' & s' & Et' & Wr & _).
  split.
  - destruct (local_ds_whole md p1 T0 W0) as [A0 B0]. destruct (local_ds_whole md r _ Wr) as [A1 B1].
    rewrite Zr' in A1, B1.
    destruct (local_ds md p1 (tzone p1)) as [n0 s0]. destruct (local_ds md r (tzone p1)) as [n1 s1].
    cbn [fst snd] in *. subst n0 n1.
    rewrite (Qfloor_comp _ _ B0), (Qfloor_comp _ _ B1), !Qfloor_Z.
    split; [apply least_next_match; assumption|].
    intros _. apply qis_int_iff. eexists. exact B1.
  - intros r' N' Z' I' K' KT'.
    assert (KT0 : tod_kind (ttod r') = 0) by (rewrite KT', Et'; reflexivity).
    destruct (good_after md r _ r' 0 Wr N' KT0 Z') as [Gr' Tr'].
    { rewrite I'. change (inject_Z 0) with 0%Q. ring. }
    rewrite Z.add_0_r in Tr'.
    destruct (normal_tp_parts md r' N') as (Vd' & Nt' & Vz').
    destruct (good_fields md r' Gr') as (h2 & m2 & s2 & Et2 & _).
    assert (Nmr : normalised md r' = r') by (apply normalised_normal; exact Nt').
    rewrite (add_truncated_chain md r' t h2 m2 s2 TO); [|rewrite Nmr; exact Et2].
    rewrite Nmr. apply (time_chain_done md r' _ _ _ _ _ _ Gr' Es Rm Rh). rewrite Tr'. apply L.
Qed.

(* ====================================================================== *)
(* from add_truncated to TimePoint.__add__: zone of t unknown or given      *)
(* ====================================================================== *)
Lemma to_time_zone_normal md p z r : valid_zone z = true -> normal_tp md p = true ->
  to_time_zone md p z = Some r -> normal_tp md r = true.
Proof.
  intros VZ N E. pose proof (normal_valid md p N) as V. unfold to_time_zone in E.
  destruct (dur_bool (zone_diff z (tzone p))) eqn:B.
  - destruct (tp_add md p (zone_diff z (tzone p))) as [q|] eqn:Eq; [|discriminate]. injection E as <-.
    pose proof (tp_add_exact_normal md p _ q V (zone_diff_exact _ _) B Eq) as Nq.
    destruct (normal_tp_parts md q Nq) as (A & B' & _).
    unfold normal_tp. cbn [tdate ttod tzone]. rewrite A, B', VZ. reflexivity.
  - rewrite (tp_add_zero md p _ (zone_diff_exact _ _) B) in E. injection E as <-.
    destruct (normal_tp_parts md p N) as (A & B' & _).
    unfold normal_tp. cbn [tdate ttod tzone]. rewrite A, B', VZ. reflexivity.
Qed.

Lemma whole_second_inst md p p1 : valid_tp md p = true -> whole_second p -> valid_tp md p1 = true ->
  (instant md p1 == instant md p)%Q -> tod_kind (ttod p1) = tod_kind (ttod p) -> whole_second p1.
Proof.
  intros V W V1 I K. destruct (valid_whole md p V W) as [T W0].
  unfold whole_second in *. destruct (ttod p) as [h m s| |] eqn:Et; try contradiction.
  destruct (ttod p1) as [h1 m1 s1| |] eqn:Et1; try discriminate K.
  destruct (valid_tp_parts md p1 V1) as (_ & Vt & _). rewrite Et1 in Vt. unfold valid_tod in Vt.
  apply andb_prop in Vt. destruct Vt as [Vt _]. apply andb_prop in Vt. destruct Vt as [Ih Im].
  apply qis_int_iff in Ih, Im. apply qis_int_iff.
  unfold wholeT in W0. rewrite Et in W0. unfold instant in I. rewrite Et, Et1 in I. cbn [tod_secs] in *.
  apply isint_eq with (inject_Z T - qz (zone_secs (tzone p)) + qz (zone_secs (tzone p1))
                       - qz (86400 * date_dn md (tdate p1)) - h1 * qz 3600 - m1 * qz 60)%Q.
  - rewrite W0. qlit. lra.
  - repeat first [apply isint_sub | apply isint_add | apply isint_mul | apply isint_Z | assumption].
Qed.

Lemma whole_local_int md p z : valid_tp md p = true -> whole_second p -> qis_int (snd (local_ds md p z)) = true.
Proof.
  intros V W. destruct (valid_whole md p V W) as [T W0]. unfold local_ds. cbv zeta. cbn [snd]. apply qis_int_iff.
  eapply isint_eq; [symmetry; apply Qred_correct|]. apply isint_sub; [|apply isint_Z].
  exists (T - zone_secs (tzone p) + zone_secs z). unfold instant. unfold wholeT in W0.
  unfold Z.sub. rewrite !inject_Z_plus, inject_Z_opp, W0. unfold qz. ring.
Qed.


(* ---------- canonical forms: re-zoning there and back is the identity ---------- *)
Lemma qred_idem y : Qred (Qred y) = Qred y.
Proof. apply Qred_complete. apply Qred_correct. Qed.
Lemma qdivmod_red x k q r : qdivmod x k = (q, r) -> Qred r = r.
Proof.
  intros E. assert (Er : r = snd (qdivmod x k)) by (rewrite E; reflexivity). subst r.
  change (snd (qdivmod x k)) with (Qred (x - qz (Qfloor (x / qz k)) * qz k)). apply qred_idem.
Qed.

Lemma tick_time_reduced t : tod_reduced (fst (tick_time t)).
Proof.
  destruct t as [h m s | h m | h]; unfold tick_time; cbv zeta.
  - set (hr := qsub h (qz (qtrunc h))).
    set (h1 := qsub h hr). set (m1 := qadd m (qmul hr (qz 60))).
    set (mr := qsub m1 (qz (qtrunc m1))). set (m2 := qsub m1 mr).
    set (s1 := qadd s (qmul mr (qz 60))).
    destruct (qdivmod s1 60) as [nm s2] eqn:E1.
    set (m3 := qadd m2 (qz nm)).
    destruct (qdivmod m3 60) as [nh m4] eqn:E2.
    set (h2 := qadd h1 (qz nh)).
    destruct (qdivmod h2 24) as [nd' h3] eqn:E3.
    cbn [fst]. unfold tod_reduced. cbn [tod_red].
    rewrite (qdivmod_red _ _ _ _ E1), (qdivmod_red _ _ _ _ E2), (qdivmod_red _ _ _ _ E3). reflexivity.
  - set (hr := qsub h (qz (qtrunc h))).
    set (h1 := qsub h hr). set (m1 := qadd m (qmul hr (qz 60))).
    destruct (qdivmod m1 60) as [nh m4] eqn:E2.
    set (h2 := qadd h1 (qz nh)).
    destruct (qdivmod h2 24) as [nd' h3] eqn:E3.
    cbn [fst]. unfold tod_reduced. cbn [tod_red].
    rewrite (qdivmod_red _ _ _ _ E2), (qdivmod_red _ _ _ _ E3). reflexivity.
  - destruct (qdivmod h 24) as [nd' h3] eqn:E3. cbn [fst]. unfold tod_reduced. cbn [tod_red].
    rewrite (qdivmod_red _ _ _ _ E3). reflexivity.
Qed.
Lemma tick_over_reduced md x : tod_reduced (ttod (tick_over md x)).
Proof.
  unfold tick_over. pose proof (tick_time_reduced (ttod x)) as R.
  destruct (tick_time (ttod x)) as [t' nd]. exact R.
Qed.

Lemma zone_diff_zero z zp : dur_bool (zone_diff z zp) = false -> z = zp.
Proof.
  unfold zone_diff, dur_bool. change (0 =? 0) with true. change (qeqb 0 0) with true. cbn [andb].
  rewrite andb_true_r. intros B. apply negb_false_iff in B. apply andb_prop in B. destruct B as [Bh Bm].
  unfold qz in Bh, Bm. change 0%Q with (inject_Z 0) in Bh, Bm. rewrite qeqb_Z in Bh, Bm.
  destruct z as [a b], zp as [c d]. cbn [zh zm] in *. f_equal; lia.
Qed.

Lemma to_time_zone_reduced md p z r : to_time_zone md p z = Some r ->
  dur_bool (zone_diff z (tzone p)) = true -> tod_reduced (ttod r).
Proof.
  unfold to_time_zone, zone_diff. rewrite tp_add_add4. intros E B. injection E as <-. cbn [ttod].
  unfold dur_bool in B. change (0 =? 0) with true in B. change (qeqb 0 0) with true in B. cbn [andb] in B.
  rewrite andb_true_r in B. apply negb_true_iff in B.
  unfold add4. change (qeqb 0 0) with true. change (0 =? 0) with true. cbv iota.
  destruct (qeqb (qz (zh z - zh (tzone p))) 0) eqn:Eh.
  - destruct (qeqb (qz (zm z - zm (tzone p))) 0) eqn:Em; [discriminate B|]. apply tick_over_reduced.
  - apply tick_over_reduced.
Qed.

Lemma date_inj md d1 d2 : valid_date md d1 = true -> valid_date md d2 = true ->
  rep_kind d1 = rep_kind d2 -> date_dn md d1 = date_dn md d2 -> d1 = d2.
Proof.
  intros V1 V2 K E. destruct d1, d2; try discriminate K; cbn [valid_date date_dn] in *.
  - pose proof (dn_cal_inj md _ _ _ _ _ _ V1 V2 E) as I0. injection I0 as -> -> ->. reflexivity.
  - pose proof (dn_ord_inj md _ _ _ _ V1 V2 E) as I0. injection I0 as -> ->. reflexivity.
  - pose proof (dn_week_inj md _ _ _ _ _ _ V1 V2 E) as I0. injection I0 as -> -> ->. reflexivity.
Qed.

Lemma tod_inj t1 t2 : normal_tod t1 = true -> normal_tod t2 = true -> tod_kind t1 = tod_kind t2 ->
  (tod_secs t1 == tod_secs t2)%Q -> tod_eqv t1 t2.
Proof.
  intros N1 N2 K E. destruct t1 as [h m s | h m | h], t2 as [h' m' s' | h' m' | h']; try discriminate K;
    cbn [tod_eqv].
  - pose proof (hms_spec _ N1) as S1. pose proof (hms_spec _ N2) as S2.
    cbn [get_hour_minute_second] in S1, S2. apply (hms_unique _ _ _ _ _ _ _ _ S1 S2 E).
  - destruct (normal_hm_inv _ _ N1) as ([a Ha] & A1 & A2 & A3 & A4).
    destruct (normal_hm_inv _ _ N2) as ([b Hb] & B1 & B2 & B3 & B4).
    cbn [tod_secs] in E. rewrite Ha, Hb in *. qlit.
    assert (Kk : (inject_Z (60 * (b - a)) == m - m')%Q).
    { unfold Z.sub. rewrite inject_Z_mult, inject_Z_plus, inject_Z_opp. change (inject_Z 60) with 60%Q. lra. }
    assert (R : -60 < 60 * (b - a) < 60).
    { split; apply inj_lt; rewrite Kk; [change (inject_Z (-60)) with (-60)%Q | change (inject_Z 60) with 60%Q]; lra. }
    assert (a = b) by lia. subst b. split; [reflexivity|]. lra.
  - cbn [tod_secs] in E. qlit. lra.
Qed.

Lemma tod_eqv_reduced t1 t2 : tod_eqv t1 t2 -> tod_reduced t1 -> tod_reduced t2 -> t1 = t2.
Proof.
  unfold tod_reduced. destruct t1, t2; cbn [tod_eqv tod_red]; try contradiction; intros E R1 R2.
  - destruct E as (A & B & C). rewrite <- R1, <- R2. f_equal; apply Qred_complete; assumption.
  - destruct E as (A & B). rewrite <- R1, <- R2. f_equal; apply Qred_complete; assumption.
  - rewrite <- R1, <- R2. f_equal. apply Qred_complete. assumption.
Qed.

Lemma canon_unique md a b : normal_tp md a = true -> normal_tp md b = true ->
  tod_reduced (ttod a) -> tod_reduced (ttod b) -> tzone a = tzone b ->
  (instant md a == instant md b)%Q -> rep_kind (tdate a) = rep_kind (tdate b) ->
  tod_kind (ttod a) = tod_kind (ttod b) -> a = b.
Proof.
  intros Na Nb Ra Rb Z E K KT.
  destruct (normal_tp_parts md a Na) as (Va & Ta & _). destruct (normal_tp_parts md b Nb) as (Vb & Tb & _).
  pose proof (same_day md a b Ta Tb Z E) as D.
  pose proof (date_inj md _ _ Va Vb K D) as Ed.
  assert (Es : (tod_secs (ttod a) == tod_secs (ttod b))%Q).
  { unfold instant in E. rewrite D, Z in E. lra. }
  pose proof (tod_eqv_reduced _ _ (tod_inj _ _ Ta Tb KT Es) Ra Rb) as Et.
  destruct a as [da ta za], b as [db tb zb]. cbn [tdate ttod tzone] in *. subst. reflexivity.
Qed.

(* a normalised point in reduced form survives re-zoning there and back *)
Lemma rezone_round_trip md q z a : normal_tp md q = true -> tod_reduced (ttod q) -> valid_zone z = true ->
  to_time_zone md q z = Some a -> to_time_zone md a (tzone q) = Some q.
Proof.
  intros Nq Rq VZ E. pose proof (normal_valid md q Nq) as Vq.
  destruct (valid_tp_parts md q Vq) as (_ & _ & VZq).
  destruct (dur_bool (zone_diff z (tzone q))) eqn:B.
  - pose proof (to_time_zone_normal md q z a VZ Nq E) as Na.
    destruct (to_time_zone_spec md q z Vq VZ) as (a' & E' & I1 & Z1 & K1 & KT1 & V1).
    rewrite E in E'. injection E' as <-.
    destruct (to_time_zone_spec md a (tzone q) V1 VZq) as (c & E2 & I2 & Z2 & K2 & KT2 & V2).
    pose proof (to_time_zone_normal md a (tzone q) c VZq Na E2) as Nc.
    assert (B2 : dur_bool (zone_diff (tzone q) (tzone a)) = true).
    { destruct (dur_bool (zone_diff (tzone q) (tzone a))) eqn:B2; [reflexivity|].
      apply zone_diff_zero in B2. rewrite Z1 in B2. rewrite <- B2 in B.
      unfold zone_diff, dur_bool in B. rewrite !Z.sub_diag in B. discriminate B. }
    pose proof (to_time_zone_reduced md a (tzone q) c E2 B2) as Rc.
    rewrite E2. f_equal. apply (canon_unique md c q Nc Nq Rc Rq Z2); [rewrite I2; exact I1 | congruence | congruence].
  - apply zone_diff_zero in B. subst z.
    assert (a = q).
    { rewrite to_time_zone_same in E. injection E as <-. reflexivity. }
    subst a. apply to_time_zone_same.
Qed.

(* the result r of t + p, fields read in zone z *)
Definition res_ok (md : mode) (p : tp) (ds : dayspec) (tods : todspec) (hz : Z) (z : zone) (r : tp) : Prop :=
  valid_tp md r = true /\ tzone r = tzone p /\
  (let '(n0, s0) := local_ds md p z in let '(n, s) := local_ds md r z in
     next_match md ds tods n0 (Qfloor s0) hz = Some (n, Qfloor s) /\ (qis_int s0 = true -> qis_int s = true)).
Lemma wrap_none md t p ds tods hz r1 : t_zone t = None -> core_res md t ds tods hz p r1 ->
  tp_add_trunc md t p = TOk r1 /\ res_ok md p ds tods hz (tzone p) r1 /\ tp_add_trunc md t r1 = TOk r1.
Proof.
  intros Hz (A & N & Z & M & S).
  assert (E : tp_add_trunc md t p = TOk r1).
  { unfold tp_add_trunc. rewrite Hz, A. cbn [tbind]. rewrite <- Z, to_time_zone_same. reflexivity. }
  assert (E2 : tp_add_trunc md t r1 = TOk r1).
  { unfold tp_add_trunc. rewrite Hz, (S r1 N eq_refl ltac:(reflexivity) eq_refl eq_refl). cbn [tbind].
    rewrite to_time_zone_same. reflexivity. }
  split; [exact E|]. split; [|exact E2].
  unfold res_ok. split; [apply normal_valid; exact N|]. split; [exact Z | exact M].
Qed.

Lemma wrap_zone md t p z ds tods hz : t_zone t = Some z -> valid_zone z = true -> valid_tp md p = true ->
  (forall p1, valid_tp md p1 = true -> tzone p1 = z -> (instant md p1 == instant md p)%Q ->
              tod_kind (ttod p1) = tod_kind (ttod p) -> exists r1, core_res md t ds tods hz p1 r1) ->
  exists r, tp_add_trunc md t p = TOk r /\ res_ok md p ds tods hz z r /\ tp_add_trunc md t r = TOk r.
Proof.
  intros Hz VZ V Core. destruct (valid_tp_parts md p V) as (_ & _ & VZp).
  destruct (to_time_zone_spec md p z V VZ) as (p1 & E1 & I1 & Z1 & K1 & KT1 & V1).
  destruct (Core p1 V1 Z1 I1 KT1) as (r1 & A & N & ZR & M & S).
  destruct (to_time_zone_spec md r1 (tzone p) (normal_valid md r1 N) VZp) as (q & E2 & I2 & Z2 & K2 & KT2 & V2).
  pose proof (to_time_zone_normal md r1 (tzone p) q VZp N E2) as Nq.
  exists q. split; [unfold tp_add_trunc; rewrite Hz, E1, A; cbn [tbind]; rewrite E2; reflexivity|].
  split.
  - unfold res_ok. split; [exact V2|]. split; [exact Z2|].
    rewrite <- (local_ds_inst md p1 p z I1), (local_ds_inst md q r1 z I2). rewrite Z1 in M. exact M.
  - destruct (to_time_zone_spec md q z V2 VZ) as (p1' & E3 & I3 & Z3 & K3 & KT3 & V3).
    pose proof (to_time_zone_normal md q z p1' VZ Nq E3) as N3.
    assert (A' : add_truncated md p1' t = TOk p1').
    { apply S; [exact N3 | congruence | rewrite I3; exact I2 | congruence | congruence]. }
    unfold tp_add_trunc. rewrite Hz, E3, A'. cbn [tbind].
    destruct (dur_bool (zone_diff (tzone p) (tzone r1))) eqn:B.
    + pose proof (to_time_zone_reduced md r1 (tzone p) q E2 B) as Rq.
      rewrite (rezone_round_trip md q z p1' Nq Rq VZ E3). reflexivity.
    + apply zone_diff_zero in B. assert (Ezz : tzone q = z) by congruence.
      rewrite <- Ezz in E3. rewrite to_time_zone_same in E3. injection E3 as <-.
      rewrite to_time_zone_same. reflexivity.
Qed.

(* ---------- the general statements ---------- *)
Definition zone_ok (t : trunc) : Prop := match t_zone t with Some z => valid_zone z = true | None => True end.
Definition ref_zone (t : trunc) (p : tp) : zone := match t_zone t with Some z => z | None => tzone p end.

Lemma add_trunc_day_general : forall md p t, valid_tp md p = true -> no_time t -> desig md t -> zone_ok t ->
  exists r, tp_add_trunc md t p = TOk r /\ res_ok md p (tday t) (mkTod None None None) 3000 (ref_zone t p) r /\
            tp_add_trunc md t r = TOk r.
Proof.
  intros md p t V NT D ZO. pose proof (desig_stage md t D) as St. unfold zone_ok, ref_zone in *.
  destruct (t_zone t) as [z|] eqn:Hz.
  - apply (wrap_zone md t p z (tday t) (mkTod None None None) 3000 Hz ZO V).
    intros p1 V1 _ _ _. apply (core_notime md t (tday t) 2967 p1 (St _) ltac:(lia) NT V1).
  - destruct (core_notime md t (tday t) 2967 p (St _) ltac:(lia) NT V) as (r1 & C).
    exists r1. apply (wrap_none md t p _ _ _ r1 Hz C).
Qed.
Print Assumptions add_trunc_day_general.

Lemma add_trunc_day_time_general : forall md p t, valid_tp md p = true -> whole_second p -> with_hour t ->
  desig md t \/ no_desig t -> zone_ok t ->
  exists r, tp_add_trunc md t p = TOk r /\ res_ok md p (tday t) (ttod_spec t) 3000 (ref_zone t p) r /\
            tp_add_trunc md t r = TOk r.
Proof.
  intros md p t V W WH D ZO.
  assert (St : stage_ok md (tday t) 2967 (day_part md t)).
  { destruct D as [D|D]; [apply desig_stage; exact D|].
    apply (stage_ok_weaken md _ 0); [lia | apply no_desig_stage; exact D]. }
  unfold zone_ok, ref_zone in *.
  destruct (t_zone t) as [z|] eqn:Hz.
  - apply (wrap_zone md t p z (tday t) (ttod_spec t) 3000 Hz ZO V).
    intros p1 V1 _ I1 K1. apply (core_hour md t (tday t) 2967 p1 St ltac:(lia) WH V1).
    apply (whole_second_inst md p p1 V W V1 I1 K1).
  - destruct (core_hour md t (tday t) 2967 p St ltac:(lia) WH V W) as (r1 & C).
    exists r1. apply (wrap_none md t p _ _ _ r1 Hz C).
Qed.
Print Assumptions add_trunc_day_time_general.

Lemma add_trunc_time_general : forall md p t, valid_tp md p = true -> whole_second p -> time_only t -> zone_ok t ->
  exists r, tp_add_trunc md t p = TOk r /\
            res_ok md p (mkDay None None None None) (ttod_spec t) 2 (ref_zone t p) r /\
            tp_add_trunc md t r = TOk r.
Proof.
  intros md p t V W TO ZO. unfold zone_ok, ref_zone in *.
  destruct (t_zone t) as [z|] eqn:Hz.
  - apply (wrap_zone md t p z (mkDay None None None None) (ttod_spec t) 2 Hz ZO V).
    intros p1 V1 _ I1 K1. apply (core_time md t p1 TO V1). apply (whole_second_inst md p p1 V W V1 I1 K1).
  - destruct (core_time md t p TO V W) as (r1 & C).
    exists r1. apply (wrap_none md t p _ _ _ r1 Hz C).
Qed.
Print Assumptions add_trunc_time_general.

(* ====================================================================== *)
(* the statements of Props/C20Ext.v                                         *)
(* ====================================================================== *)
(* week w with weekday d; w up to the greatest week number of the calendar *)
Definition week_weekday (md : mode) (t : trunc) (w d : Z) : Prop :=
  1 <= d <= 7 /\ 1 <= w <= (match md with D360 => 52 | _ => 53 end) /\
  t_dow t = Some d /\ t_week t = Some w /\ t_dom t = None /\ t_doy t = None.
(* one day designator, every value the constructor of a truncated point accepts *)
Definition one_day_full (md : mode) (t : trunc) : Prop :=
  (exists d, 1 <= d <= 7 /\ t_dow t = Some d /\ t_dom t = None /\ t_doy t = None /\ t_week t = None) \/
  (exists d, 1 <= d <= (match md with D360 => 30 | _ => 31 end) /\
             t_dom t = Some d /\ t_dow t = None /\ t_doy t = None /\ t_week t = None) \/
  (exists d, 1 <= d <= (match md with D360 => 360 | D365 => 365 | _ => 366 end) /\
             t_doy t = Some d /\ t_dow t = None /\ t_dom t = None /\ t_week t = None).
Definition day_designator (md : mode) (t : trunc) : Prop :=
  one_day_full md t \/ exists w d, week_weekday md t w d.

Lemma week_weekday_desig md t w d : week_weekday md t w d ->
  desig md t /\ tday t = mkDay (Some d) None None (Some w).
Proof.
  intros (Bd & Bw & A & B & C & D). split.
  - right. exists w, d. unfold sh_wd. auto.
  - unfold tday. rewrite A, B, C, D. reflexivity.
Qed.
Lemma one_day_full_desig md t : one_day_full md t ->
  desig md t /\ tday t = mkDay (t_dow t) (t_dom t) (t_doy t) None.
Proof.
  intros [(d & B & A1 & A2 & A3 & A4) | [(d & B & A1 & A2 & A3 & A4) | (d & B & A1 & A2 & A3 & A4)]];
    (split; [left | unfold tday; rewrite A4; reflexivity]).
  - exists 0, d. split; [left; auto | exact B].
  - exists 1, d. split; [right; left; auto | exact B].
  - exists 2, d. split; [right; right; auto | exact B].
Qed.
Lemma day_designator_desig md t : day_designator md t -> desig md t.
Proof.
  intros [O | (w & d & W)]; [apply (one_day_full_desig md t O) | apply (week_weekday_desig md t w d W)].
Qed.

Lemma zone_ok_none t : t_zone t = None -> zone_ok t.
Proof. intros H. unfold zone_ok. rewrite H. exact I. Qed.
Lemma zone_ok_some t z : t_zone t = Some z -> valid_zone z = true -> zone_ok t.
Proof. intros H V. unfold zone_ok. rewrite H. exact V. Qed.

(* --- 1. week number with weekday --- *)
Lemma add_trunc_week_weekday_least : forall md p t w d,
  valid_tp md p = true -> no_time t -> t_zone t = None -> week_weekday md t w d ->
  exists r, tp_add_trunc md t p = TOk r /\ valid_tp md r = true /\ tzone r = tzone p /\
    (let '(n0, s0) := local_ds md p (tzone p) in let '(n, s) := local_ds md r (tzone p) in
     next_match md (mkDay (Some d) None None (Some w)) (mkTod None None None) n0 (Qfloor s0) 3000
       = Some (n, Qfloor s)) /\
    tp_add_trunc md t r = TOk r.
Proof.
  intros md p t w d V NT Hz WW. destruct (week_weekday_desig md t w d WW) as [D Ed].
  destruct (add_trunc_day_general md p t V NT D (zone_ok_none t Hz)) as (r & A & (Vr & Zr & M) & Idm).
  unfold ref_zone in M. rewrite Hz, Ed in M.
  exists r. split; [exact A|]. split; [exact Vr|]. split; [exact Zr|]. split; [|exact Idm].
  destruct (local_ds md p (tzone p)) as [n0 s0]. destruct (local_ds md r (tzone p)) as [n s]. apply M.
Qed.
Print Assumptions add_trunc_week_weekday_least.

Lemma add_trunc_week_weekday_time_least : forall md p t w d,
  valid_tp md p = true -> whole_second p -> with_hour t -> t_zone t = None -> week_weekday md t w d ->
  exists r, tp_add_trunc md t p = TOk r /\ valid_tp md r = true /\ tzone r = tzone p /\
    (let '(n0, s0) := local_ds md p (tzone p) in let '(n, s) := local_ds md r (tzone p) in
     next_match md (mkDay (Some d) None None (Some w)) (mkTod (qfl (t_hour t)) (qfl (t_min t)) (qfl (t_sec t)))
                n0 (Qfloor s0) 3000 = Some (n, Qfloor s) /\ qis_int s = true) /\
    tp_add_trunc md t r = TOk r.
Proof.
  intros md p t w d V W WH Hz WW. destruct (week_weekday_desig md t w d WW) as [D Ed].
  destruct (add_trunc_day_time_general md p t V W WH (or_introl D) (zone_ok_none t Hz))
    as (r & A & (Vr & Zr & M) & Idm).
  unfold ref_zone in M. rewrite Hz, Ed in M. pose proof (whole_local_int md p (tzone p) V W) as Q0.
  exists r. split; [exact A|]. split; [exact Vr|]. split; [exact Zr|]. split; [|exact Idm].
  destruct (local_ds md p (tzone p)) as [n0 s0]. destruct (local_ds md r (tzone p)) as [n s].
  cbn [snd] in Q0. destruct M as [M1 M2]. split; [exact M1 | exact (M2 Q0)].
Qed.
Print Assumptions add_trunc_week_weekday_time_least.

(* --- 2. one day designator over its full range (incl. 29-31, 361-366) --- *)
Lemma add_trunc_full_day_least : forall md p t,
  valid_tp md p = true -> no_time t -> t_zone t = None -> one_day_full md t ->
  exists r, tp_add_trunc md t p = TOk r /\ valid_tp md r = true /\ tzone r = tzone p /\
    (let '(n0, s0) := local_ds md p (tzone p) in let '(n, s) := local_ds md r (tzone p) in
     next_match md (mkDay (t_dow t) (t_dom t) (t_doy t) None) (mkTod None None None) n0 (Qfloor s0) 3000
       = Some (n, Qfloor s)) /\
    tp_add_trunc md t r = TOk r.
Proof.
  intros md p t V NT Hz O. destruct (one_day_full_desig md t O) as [D Ed].
  destruct (add_trunc_day_general md p t V NT D (zone_ok_none t Hz)) as (r & A & (Vr & Zr & M) & Idm).
  unfold ref_zone in M. rewrite Hz, Ed in M.
  exists r. split; [exact A|]. split; [exact Vr|]. split; [exact Zr|]. split; [|exact Idm].
  destruct (local_ds md p (tzone p)) as [n0 s0]. destruct (local_ds md r (tzone p)) as [n s]. apply M.
Qed.
Print Assumptions add_trunc_full_day_least.

Lemma add_trunc_full_day_time_least : forall md p t,
  valid_tp md p = true -> whole_second p -> with_hour t -> t_zone t = None -> one_day_full md t ->
  exists r, tp_add_trunc md t p = TOk r /\ valid_tp md r = true /\ tzone r = tzone p /\
    (let '(n0, s0) := local_ds md p (tzone p) in let '(n, s) := local_ds md r (tzone p) in
     next_match md (mkDay (t_dow t) (t_dom t) (t_doy t) None) (mkTod (qfl (t_hour t)) (qfl (t_min t)) (qfl (t_sec t)))
                n0 (Qfloor s0) 3000 = Some (n, Qfloor s) /\ qis_int s = true) /\
    tp_add_trunc md t r = TOk r.
Proof.
  intros md p t V W WH Hz O. destruct (one_day_full_desig md t O) as [D Ed].
  destruct (add_trunc_day_time_general md p t V W WH (or_introl D) (zone_ok_none t Hz))
    as (r & A & (Vr & Zr & M) & Idm).
  unfold ref_zone in M. rewrite Hz, Ed in M. pose proof (whole_local_int md p (tzone p) V W) as Q0.
  exists r. split; [exact A|]. split; [exact Vr|]. split; [exact Zr|]. split; [|exact Idm].
  destruct (local_ds md p (tzone p)) as [n0 s0]. destruct (local_ds md r (tzone p)) as [n s].
  cbn [snd] in Q0. destruct M as [M1 M2]. split; [exact M1 | exact (M2 Q0)].
Qed.
Print Assumptions add_trunc_full_day_time_least.

(* --- 3. the truncated point carries its own UTC offset z: fields are read in z --- *)
Lemma add_trunc_own_zone_time : forall md p t z,
  valid_tp md p = true -> whole_second p -> time_only t -> t_zone t = Some z -> valid_zone z = true ->
  exists r, tp_add_trunc md t p = TOk r /\ valid_tp md r = true /\ tzone r = tzone p /\
    (let '(n0, s0) := local_ds md p z in let '(n, s) := local_ds md r z in
     next_match md (mkDay None None None None) (mkTod (qfl (t_hour t)) (qfl (t_min t)) (qfl (t_sec t)))
                n0 (Qfloor s0) 2 = Some (n, Qfloor s) /\ qis_int s = true) /\
    tp_add_trunc md t r = TOk r.
Proof.
  intros md p t z V W TO Hz VZ.
  destruct (add_trunc_time_general md p t V W TO (zone_ok_some t z Hz VZ)) as (r & A & (Vr & Zr & M) & Ag).
  unfold ref_zone in M. rewrite Hz in M. pose proof (whole_local_int md p z V W) as Q0.
  exists r. split; [exact A|]. split; [exact Vr|]. split; [exact Zr|]. split; [|exact Ag].
  destruct (local_ds md p z) as [n0 s0]. destruct (local_ds md r z) as [n s].
  cbn [snd] in Q0. destruct M as [M1 M2]. split; [exact M1 | exact (M2 Q0)].
Qed.
Print Assumptions add_trunc_own_zone_time.

Lemma add_trunc_own_zone_day : forall md p t z,
  valid_tp md p = true -> no_time t -> day_designator md t -> t_zone t = Some z -> valid_zone z = true ->
  exists r, tp_add_trunc md t p = TOk r /\ valid_tp md r = true /\ tzone r = tzone p /\
    (let '(n0, s0) := local_ds md p z in let '(n, s) := local_ds md r z in
     next_match md (mkDay (t_dow t) (t_dom t) (t_doy t) (t_week t)) (mkTod None None None) n0 (Qfloor s0) 3000
       = Some (n, Qfloor s)) /\
    tp_add_trunc md t r = TOk r.
Proof.
  intros md p t z V NT DD Hz VZ.
  destruct (add_trunc_day_general md p t V NT (day_designator_desig md t DD) (zone_ok_some t z Hz VZ))
    as (r & A & (Vr & Zr & M) & Ag).
  unfold ref_zone in M. rewrite Hz in M.
  exists r. split; [exact A|]. split; [exact Vr|]. split; [exact Zr|]. split; [|exact Ag].
  destruct (local_ds md p z) as [n0 s0]. destruct (local_ds md r z) as [n s]. apply M.
Qed.
Print Assumptions add_trunc_own_zone_day.

Lemma add_trunc_own_zone_day_time : forall md p t z,
  valid_tp md p = true -> whole_second p -> with_hour t -> day_designator md t ->
  t_zone t = Some z -> valid_zone z = true ->
  exists r, tp_add_trunc md t p = TOk r /\ valid_tp md r = true /\ tzone r = tzone p /\
    (let '(n0, s0) := local_ds md p z in let '(n, s) := local_ds md r z in
     next_match md (mkDay (t_dow t) (t_dom t) (t_doy t) (t_week t))
                (mkTod (qfl (t_hour t)) (qfl (t_min t)) (qfl (t_sec t)))
                n0 (Qfloor s0) 3000 = Some (n, Qfloor s) /\ qis_int s = true) /\
    tp_add_trunc md t r = TOk r.
Proof.
  intros md p t z V W WH DD Hz VZ.
  destruct (add_trunc_day_time_general md p t V W WH (or_introl (day_designator_desig md t DD))
              (zone_ok_some t z Hz VZ)) as (r & A & (Vr & Zr & M) & Ag).
  unfold ref_zone in M. rewrite Hz in M. pose proof (whole_local_int md p z V W) as Q0.
  exists r. split; [exact A|]. split; [exact Vr|]. split; [exact Zr|]. split; [|exact Ag].
  destruct (local_ds md p z) as [n0 s0]. destruct (local_ds md r z) as [n s].
  cbn [snd] in Q0. destruct M as [M1 M2]. split; [exact M1 | exact (M2 Q0)].
Qed.
Print Assumptions add_trunc_own_zone_day_time.

(* --- a week number alone: the code keeps the weekday of the full point --- *)
Lemma stage_at_ext md ds H f g x : (forall y, g y = f y) -> stage_at md ds H f x -> stage_at md ds H g x.
Proof.
  intros Ex St V N. destruct (St V N) as (r & A1 & A2 & A3 & A4 & A5 & A6 & A7 & A8 & A9 & A10).
  exists r. rewrite Ex. repeat (split; [assumption|]). intros r' B1 B2 B3 B4. rewrite Ex. auto.
Qed.

Lemma day_part_week md t w x : t_week t = Some w -> t_dow t = None -> t_dom t = None -> t_doy t = None ->
  day_part md t x = one_stage md 3 w 1500 x.
Proof.
  intros A B C D. unfold day_part, one_stage, convk. rewrite A, B, C, D. cbn [Z.eqb Pos.eqb tbind]. reflexivity.
Qed.

Lemma one_stage_conv md k v b x d' : 0 <= k <= 3 -> convk md k (tdate x) = Some d' -> rep_kind d' = kind_of k ->
  one_stage md k v b x = one_stage md k v b (with_date x d').
Proof.
  intros Hk E K. unfold one_stage. rewrite E. cbn [with_date tdate]. rewrite (convk_same md k d' Hk K). reflexivity.
Qed.

Lemma week_as_wd md w x : valid_date md (tdate x) = true -> normal_tod (ttod x) = true ->
  one_stage md 3 w 1500 x = wd_stage md (dowf md (date_dn md (tdate x))) w x.
Proof.
  intros V N. destruct (convk_spec md 0 (tdate x) ltac:(lia) V) as (d' & E0 & V' & D' & K').
  assert (E3 : convk md 3 (tdate x) = Some d') by exact E0.
  set (d0 := dowf md (date_dn md (tdate x))).
  assert (E1 : one_stage md 0 d0 8 x = TOk (with_date x d')).
  { rewrite (one_stage_conv md 0 d0 8 x d' ltac:(lia) E0 K').
    apply one_stage_done; [lia | unfold dgood; cbn [with_date tdate ttod]; auto |].
    unfold fieldk. cbn [Z.eqb with_date tdate]. rewrite D'. reflexivity. }
  unfold wd_stage. rewrite E1. cbn [tbind].
  apply (one_stage_conv md 3 w 1500 x d' ltac:(lia) E3 K').
Qed.

Lemma stage_week_only md w x : 1 <= w <= wmax md ->
  stage_at md (mkDay (Some (dowf md (date_dn md (tdate x)))) None None (Some w)) 2967 (one_stage md 3 w 1500) x.
Proof.
  intros Hw V N. set (d0 := dowf md (date_dn md (tdate x))).
  assert (Hd : 1 <= d0 <= 7) by (unfold d0; rewrite dowf_weekday; apply weekday_continuous).
  destruct (stage_wd md d0 w Hd Hw x V N) as (r & E & Vr & Nr & Zr & Sr & HI & Dr & Mr & Lr & Stb).
  exists r. split; [rewrite (week_as_wd md w x V N); exact E|].
  split; [exact Vr|]. split; [exact Nr|]. split; [exact Zr|]. split; [exact Sr|]. split; [exact HI|].
  split; [exact Dr|]. split; [exact Mr|]. split; [exact Lr|].
  intros r' V' N' K' D'. rewrite (week_as_wd md w r' V' N'), D'.
  replace (dowf md (date_dn md (tdate r))) with d0; [apply Stb; assumption|].
  rewrite day_matches_fields in Mr. cbn [ds_dow ds_dom ds_doy ds_week opt_match andb] in Mr. lia.
Qed.

Lemma add_trunc_week_only : forall md p t w,
  valid_tp md p = true -> no_time t -> t_zone t = None ->
  t_week t = Some w -> t_dow t = None -> t_dom t = None -> t_doy t = None ->
  1 <= w <= (match md with D360 => 52 | _ => 53 end) ->
  exists r, tp_add_trunc md t p = TOk r /\ valid_tp md r = true /\ tzone r = tzone p /\
    (let '(n0, s0) := local_ds md p (tzone p) in let '(n, s) := local_ds md r (tzone p) in
     next_match md (mkDay (Some (weekday md n0)) None None (Some w)) (mkTod None None None) n0 (Qfloor s0) 3000
       = Some (n, Qfloor s)) /\
    tp_add_trunc md t r = TOk r.
Proof.
  intros md p t w V NT Hz A B C D Hw.
  destruct (normalised_spec md p V) as (Nx & Ix & _ & _ & Zx).
  destruct (normal_tp_parts md _ Nx) as (_ & Nt & _).
  assert (En : fst (local_ds md p (tzone p)) = date_dn md (tdate (normalised md p))).
  { rewrite <- (local_ds_inst md _ p (tzone p) Ix), <- Zx. apply local_ds_normal. exact Nt. }
  destruct (core_notime md t (mkDay (Some (dowf md (date_dn md (tdate (normalised md p))))) None None (Some w)) 2967 p)
    as (r1 & Cr); [| lia | exact NT | exact V |].
  { apply (stage_at_ext md _ _ (one_stage md 3 w 1500)); [intros y; apply day_part_week; assumption|].
    apply stage_week_only. exact Hw. }
  destruct (wrap_none md t p _ _ _ r1 Hz Cr) as (E & (Vr & Zr & M) & Idm).
  exists r1. split; [exact E|]. split; [exact Vr|]. split; [exact Zr|]. split; [|exact Idm].
  rewrite <- En, dowf_weekday in M.
  destruct (local_ds md p (tzone p)) as [n0 s0]. destruct (local_ds md r1 (tzone p)) as [n s].
  cbn [fst] in M. apply M.
Qed.
Print Assumptions add_trunc_week_only.

(* --- known limit: week 53 never exists in the 360-day calendar; the constructor
       accepts it (MAX_WEEKS_IN_YEAR = 53 in every calendar) and the loop never ends --- *)
Lemma wkf_le_360 n : wkf D360 n <= 52.
Proof.
  unfold wkf. pose proof (week_of_dn_spec D360 n) as H. destruct (week_of_dn D360 n) as [[wy w] d].
  destruct H as [V _]. destruct (week_range _ _ _ _ V) as (R & _). pose proof (weeks_max360 wy). lia.
Qed.

Lemma loop_stuck {A} (cond : A -> bool) (step : A -> A) (Inv : A -> Prop) n a :
  (forall x, Inv x -> cond x = true /\ Inv (step x)) -> Inv a -> Inv (loop cond step n a).
Proof.
  intros H Ha. unfold loop. apply Pos.iter_invariant; [|exact Ha].
  intros x Hx. unfold guarded. destruct (H x Hx) as [-> Hs]. exact Hs.
Qed.

Lemma week53_360_hang : forall p t d, valid_tp D360 p = true -> no_time t -> t_zone t = None ->
  1 <= d <= 7 -> t_dow t = Some d /\ t_week t = Some 53 /\ t_dom t = None /\ t_doy t = None ->
  tp_add_trunc D360 t p = THang.
Proof.
  intros p t d V (Hh & Hm & Hs) Hz Hd O.
  destruct (normalised_spec D360 p V) as (Nx & _).
  destruct (normal_tp_parts D360 _ Nx) as (Vd & Nt & _).
  unfold tp_add_trunc. rewrite Hz, (add_truncated_notime D360 p t Hh Hm Hs), (day_part_wd D360 t 53 d _ O).
  unfold wd_stage. set (x := normalised D360 p) in *.
  destruct (next_dow D360 (date_dn D360 (tdate x)) d Hd) as (J0 & B0 & F0).
  destruct (one_stage_spec D360 0 d 8 x J0 ltac:(lia) Vd Nt ltac:(lia)) as (p4 & J1 & E1 & G1 & _).
  { unfold stride, fieldk. cbn [Z.eqb]. rewrite Z.mul_1_l. exact F0. }
  rewrite E1. cbn [tbind]. unfold one_stage. destruct G1 as (V4 & K4 & N4).
  rewrite (convk_same D360 3 _ ltac:(lia) K4). cbn [conv tbind].
  replace (with_date p4 (tdate p4)) with p4 by (destruct p4; reflexivity).
  unfold step_until. cbv zeta.
  set (cond := fun x : tp => match date_field 3 x with Some u => negb (qeqb u (qz 53)) | None => false end).
  set (step := fun x : tp => tick_over D360 (bump_date 3 x)).
  assert (S : dgood D360 2 (loop cond step 1500 p4)).
  { apply (loop_stuck cond step (dgood D360 2)); [|unfold dgood; auto].
    intros y Gy. split; [|apply (gstep D360 3 y ltac:(lia) Gy)].
    destruct Gy as (Vy & Ky & _). unfold cond. rewrite (field_of_date D360 3 y ltac:(lia) Vy Ky).
    unfold qz. rewrite qeqb_Z. unfold fieldk. cbn [Z.eqb Pos.eqb].
    pose proof (wkf_le_360 (date_dn D360 (tdate y))). lia. }
  match goal with |- context [if ?b then THang else _] => change b with (cond (loop cond step 1500 p4)) end.
  destruct S as (Vy & Ky & _). unfold cond at 1. rewrite (field_of_date D360 3 _ ltac:(lia) Vy Ky).
  unfold qz. rewrite qeqb_Z. unfold fieldk. cbn [Z.eqb Pos.eqb].
  pose proof (wkf_le_360 (date_dn D360 (tdate (loop cond step 1500 p4)))).
  replace (wkf D360 (date_dn D360 (tdate (loop cond step 1500 p4))) =? 53) with false by lia. reflexivity.
Qed.
Print Assumptions week53_360_hang.
