(* Proofs/GenCode7Ok.v -- gen/GenCode7.v (TimePoint.__init__, TimePoint._check_bounds,
   TimeZone.__init__ and the helpers _bounds_checker / _int_caster, translated from
   data.py on every run) against the hand-written model of the constructor
   (Model/Parse.v: check_bounds, construct; Spec/Instant.v: valid_zone).

   The proofs run the generated code symbolically: helpers that have a lemma here
   are rewritten when they reach the head of the monadic sequence, every other
   generated function is unfolded (code7_unfold lists them, so a helper that a
   refactor extracts is seen through), guards are case-split, and final states
   are compared field by field -- never syntactically as whole terms. *)
From Coq Require Import QArith Qround Qabs Lqa Lia String.
Set Warnings "-notation-overridden".
From Iso Require Import Proofs.Tac Spec.Cal Spec.Instant Model.Num Model.Helpers Model.Duration Model.TimePoint
  Model.Parse Model.DriverText
  gen.CalTables gen.GenCode gen.GenCode2 gen.GenCode4 gen.GenCode7
  Proofs.TablesOk Proofs.GenCodeOk Proofs.GenCode2Ok Proofs.GenCode4Base Proofs.ConstructSpec.
From Iso Require Model.Truncated Model.Driver.
Set Warnings "+notation-overridden".
Open Scope Z_scope.

Lemma gen_code7_accepted : translator_ok_code7 = true.
Proof. reflexivity. Qed.

(* ---------- the CALENDAR attributes of a mode, as Calendar.set_mode computes them ---------- *)
Definition cal7_of (md : mode) : pyCalendar7 :=
  let dim := DAYS_IN_MONTHS md in let diml := DAYS_IN_MONTHS_LEAP md in
  mkCalendar7 (sm_DAYS_IN_YEAR dim diml) (sm_DAYS_IN_YEAR_LEAP dim diml) dim diml
    (idx_months md) (idx_months_leap md) (sm_MONTHS_IN_YEAR dim diml)
    (sm_SECONDS_IN_HOUR dim diml) (sm_SECONDS_IN_DAY dim diml) (sm_ROUGH_DAYS_IN_YEAR dim diml)
    (sm_MAX_DAYS_IN_MONTH dim diml) (sm_MAX_WEEKS_IN_YEAR dim diml).

Lemma cal7_values md :
  c7_DAYS_IN_YEAR (cal7_of md) = DAYS_IN_YEAR md /\
  c7_DAYS_IN_YEAR_LEAP (cal7_of md) = DAYS_IN_YEAR_LEAP md /\
  c7_DAYS_IN_MONTHS (cal7_of md) = DAYS_IN_MONTHS md /\
  c7_DAYS_IN_MONTHS_LEAP (cal7_of md) = DAYS_IN_MONTHS_LEAP md /\
  c7_INDEXED_DAYS_IN_MONTHS (cal7_of md) = idx_months md /\
  c7_INDEXED_DAYS_IN_MONTHS_LEAP (cal7_of md) = idx_months_leap md /\
  c7_MONTHS_IN_YEAR (cal7_of md) = 12 /\
  c7_SECONDS_IN_HOUR (cal7_of md) = 3600 /\
  c7_SECONDS_IN_DAY (cal7_of md) = 86400 /\
  c7_ROUGH_DAYS_IN_YEAR (cal7_of md) = DAYS_IN_YEAR md /\
  c7_MAX_DAYS_IN_MONTH (cal7_of md) = MAX_DAYS_IN_MONTH md /\
  c7_MAX_WEEKS_IN_YEAR (cal7_of md) = max_weeks_in_year md.
Proof.
  destruct (set_mode_derived_ok md) as (H1 & H2 & H3 & H4 & H5 & H6 & H7 & H8).
  unfold cal7_of. cbn [c7_DAYS_IN_YEAR c7_DAYS_IN_YEAR_LEAP c7_DAYS_IN_MONTHS c7_DAYS_IN_MONTHS_LEAP
    c7_INDEXED_DAYS_IN_MONTHS c7_INDEXED_DAYS_IN_MONTHS_LEAP c7_MONTHS_IN_YEAR c7_SECONDS_IN_HOUR
    c7_SECONDS_IN_DAY c7_ROUGH_DAYS_IN_YEAR c7_MAX_DAYS_IN_MONTH c7_MAX_WEEKS_IN_YEAR].
  repeat split; assumption.
Qed.

(* rewrite every c7_X (cal7_of md) to the model's value *)
Ltac cal7 md :=
  let H := fresh in
  pose proof (cal7_values md) as H;
  destruct H as (?C1 & ?C2 & ?C3 & ?C4 & ?C5 & ?C6 & ?C7 & ?C8 & ?C9 & ?C10 & ?C11 & ?C12);
  rewrite ?C1, ?C2, ?C3, ?C4, ?C5, ?C6, ?C7, ?C8, ?C9, ?C10, ?C11, ?C12.

(* ---------- the helpers: _bounds_checker and _int_caster at the signatures in use ---------- *)
(* stated with the model's own range predicates, so that code and model branch on the same atoms *)
Definition in_q (v : Q) (lo hi : Z) : bool := qleb (qz lo) v && qltb v (qz hi).
Definition oq_int (v : option Q) : bool := match v with Some x => qis_int x | None => true end.

Lemma Zrng_neg v lo hi : (v <? lo) || (hi <? v) = negb ((lo <=? v) && (v <=? hi)).
Proof. destruct (v <? lo) eqn:A, (hi <? v) eqn:B, (lo <=? v) eqn:C, (v <=? hi) eqn:D; try reflexivity; lia. Qed.

Lemma bc_oz cal v nm lo hi :
  py_fn__bounds_checker__oz_s_z_z_n cal v nm lo hi = if in_rng v lo hi then Ok tt else Raise BadInputError.
Proof.
  unfold in_rng. code7_unfold. destruct v as [x|]; cbn [negb]; [|reflexivity].
  destruct (x <? lo) eqn:A, (hi <? x) eqn:B, (lo <=? x) eqn:C, (x <=? hi) eqn:D; try reflexivity; lia.
Qed.

Lemma bc_z cal v nm lo hi :
  py_fn__bounds_checker__z_s_z_z_n cal v nm lo hi =
  if (lo <=? v) && (v <=? hi) then Ok tt else Raise BadInputError.
Proof.
  code7_unfold.
  destruct (v <? lo) eqn:A, (hi <? v) eqn:B, (lo <=? v) eqn:C, (v <=? hi) eqn:D; try reflexivity; lia.
Qed.

Lemma bc_oq_max cal v nm lo hi :
  py_fn__bounds_checker__oq_s_z_z_n cal v nm lo hi = if in_rngq v lo hi then Ok tt else Raise BadInputError.
Proof.
  unfold in_rngq, qleb, qz. code7_unfold. unfold Qlt_bool. destruct v as [x|]; cbn [negb]; [|reflexivity].
  destruct (Qle_bool (inject_Z lo) x), (Qle_bool x (inject_Z hi)); reflexivity.
Qed.

Lemma bc_oq_upper cal v nm lo hi :
  py_fn__bounds_checker__oq_s_z_n_z cal v nm lo hi = if below_q v lo hi then Ok tt else Raise BadInputError.
Proof.
  unfold below_q, qleb, qltb, qz. code7_unfold. unfold Qlt_bool. destruct v as [x|]; cbn [negb]; [|reflexivity].
  destruct (Qle_bool (inject_Z lo) x), (Qle_bool (inject_Z hi) x); reflexivity.
Qed.

Lemma bc_q_upper cal v nm lo hi :
  py_fn__bounds_checker__q_s_z_n_z cal v nm lo hi = if in_q v lo hi then Ok tt else Raise BadInputError.
Proof.
  unfold in_q, qleb, qltb, qz. code7_unfold. unfold Qlt_bool.
  destruct (Qle_bool (inject_Z lo) v), (Qle_bool (inject_Z hi) v); reflexivity.
Qed.

Lemma Qeq_bool_refl x : Qeq_bool x x = true.
Proof. apply Qeq_bool_iff. reflexivity. Qed.

Lemma ic_z cal v nm : py_fn__int_caster__z_s_F cal v nm = Ok v.
Proof. code7_unfold. rewrite Qeq_bool_refl. reflexivity. Qed.

Lemma ic_oz_T cal v nm : py_fn__int_caster__oz_s_T cal v nm = Ok v.
Proof. code7_unfold. destruct v; [|reflexivity]. cbn [negb]. rewrite Qeq_bool_refl. reflexivity. Qed.

Lemma ic_oz_F cal v nm :
  py_fn__int_caster__oz_s_F cal v nm = match v with Some x => Ok x | None => Raise BadInputError end.
Proof. code7_unfold. destruct v; [|reflexivity]. rewrite Qeq_bool_refl. reflexivity. Qed.

(* int(x) of a whole number is that number *)
Lemma py_int_Q_int x : qis_int x = true -> (inject_Z (py_int_Q x) == x)%Q.
Proof.
  unfold qis_int, qz, py_int_Q. intros H. apply Qeq_bool_iff in H.
  destruct (Qle_bool 0 x); [symmetry; exact H|].
  remember (Qfloor x) as n eqn:En.
  assert (E : Qceiling x = n).
  { unfold Qceiling. rewrite (Qfloor_comp (- x) (inject_Z (- n))).
    - rewrite Qfloor_Z. lia.
    - rewrite H, inject_Z_opp. reflexivity. }
  rewrite E. symmetry. exact H.
Qed.

Lemma int_roundtrip x : Qeq_bool (inject_Z (py_int_Q x)) x = qis_int x.
Proof.
  destruct (qis_int x) eqn:E.
  - apply Qeq_bool_iff. apply py_int_Q_int. exact E.
  - destruct (Qeq_bool (inject_Z (py_int_Q x)) x) eqn:F; [|reflexivity].
    apply Qeq_bool_iff in F. unfold qis_int, qz in E.
    assert (G : Qeq_bool x (inject_Z (Qfloor x)) = true).
    { apply Qeq_bool_iff. rewrite <- F at 2. rewrite Qfloor_Z. symmetry. exact F. }
    congruence.
Qed.

Lemma ic_oq_T cal v nm :
  py_fn__int_caster__oq_s_T cal v nm =
  match v with
  | None => Ok None
  | Some x => if qis_int x then Ok (Some (py_int_Q x)) else Raise BadInputError
  end.
Proof.
  code7_unfold. destruct v as [x|]; [|reflexivity]. rewrite int_roundtrip.
  destruct (qis_int x); reflexivity.
Qed.

Lemma ic_oq_F cal v nm :
  py_fn__int_caster__oq_s_F cal v nm =
  match v with
  | None => Raise BadInputError
  | Some x => if qis_int x then Ok (py_int_Q x) else Raise BadInputError
  end.
Proof.
  code7_unfold. destruct v as [x|]; [|reflexivity]. rewrite int_roundtrip.
  destruct (qis_int x); reflexivity.
Qed.

(* the calendar helpers of phases 1-2 at the variants this phase calls *)
Lemma dim_int md m y :
  py_get_days_in_month (DAYS_IN_MONTHS md) (DAYS_IN_MONTHS_LEAP md) m y = get_days_in_month md m y.
Proof. exact (gen__get_days_in_month_eq md m y). Qed.
Lemma dim_leap md m : py_get_days_in_month__zsleap (DAYS_IN_MONTHS_LEAP md) m = get_days_in_month_leap md m.
Proof. reflexivity. Qed.

(* ---------- case analysis on whatever the code branches on, innermost scrutinee first ---------- *)
Ltac strict_sub x :=
  match goal with |- context [match ?y with _ => _ end] =>
    lazymatch x with y => fail | context [y] => idtac end end.
Ltac crunch_step :=
  match goal with
  | |- context [match ?x with _ => _ end] =>
      tryif strict_sub x then fail else (first [is_var x; destruct x | destruct x eqn:?])
  end.
(* the helpers that have a lemma, when they reach the head (their arguments are closed then) *)
Ltac helper_step :=
  first [ rewrite bc_oz | rewrite bc_z | rewrite bc_oq_max | rewrite bc_oq_upper | rewrite bc_q_upper
        | rewrite ic_z | rewrite ic_oz_T | rewrite ic_oz_F | rewrite ic_oq_T | rewrite ic_oq_F ].
Ltac mstep := cbv beta iota zeta delta [ebind need is_none lift2].
(* the class constants of Calendar (gen/CalTables.v) by value: 60 is 60 however it is spelled *)
Ltac consts7 := unfold SECONDS_IN_MINUTE, MINUTES_IN_HOUR, HOURS_IN_DAY, DAYS_IN_WEEK, ROUGH_DAYS_IN_MONTH in *.

(* ---------- priority 1: TimePoint._check_bounds ---------- *)
(* the parsed time point an object state denotes (total: every slot combination) *)
Definition abs_zone (z : pyTimeZone) : option zone :=
  if z_unknown z then None else Some (mkZone (z_hours z) (z_minutes z)).
Definition ostr (s : option string) : string := match s with Some x => x | None => EmptyString end.
Definition abs7 (o : pyTimePoint) : ptp :=
  mkPtp (s_year o) (s_month_of_year o) (s_day_of_month o) (s_day_of_year o) (s_week_of_year o)
        (s_day_of_week o) (s_hour_of_day o) (s_minute_of_hour o) (s_second_of_minute o)
        (abs_zone (s_time_zone o)) (s_truncated o) (ostr (s_truncated_property o))
        (s_num_expanded_year_digits o) (ostr (s_dump_format o)).

Lemma Qeq_bool_sym a b : Qeq_bool a b = Qeq_bool b a.
Proof.
  destruct (Qeq_bool a b) eqn:E, (Qeq_bool b a) eqn:F; try reflexivity.
  - apply Qeq_bool_iff in E. symmetry in E. apply Qeq_bool_iff in E. congruence.
  - apply Qeq_bool_iff in F. symmetry in F. apply Qeq_bool_iff in F. congruence.
Qed.
(* `x == number` on a None-able slot, whichever side the slot is written on *)
Lemma oqeq_some_r h q :
  opt_eqb Qeq_bool h (Some q) = match h with Some h0 => qeqb h0 q | None => false end.
Proof. destruct h; reflexivity. Qed.
Lemma oqeq_some_l h q :
  opt_eqb Qeq_bool (Some q) h = match h with Some h0 => qeqb h0 q | None => false end.
Proof. destruct h; [apply Qeq_bool_sym|reflexivity]. Qed.

Lemma gen7_check_bounds md o :
  py_TimePoint__check_bounds (cal7_of md) o =
  if check_bounds md (abs7 o) then Ok tt else Raise BadInputError.
Proof.
  destruct o as [ned y mo doy dom dow woy h mi s tr tprop tdf fmt tz].
  remember (if check_bounds md _ then Ok tt else Raise BadInputError) as R eqn:ER.
  unfold check_bounds, abs7 in ER.
  cbn [p_year p_month p_dom p_doy p_week p_dow p_hour p_min p_sec s_year s_month_of_year s_day_of_month
       s_day_of_year s_week_of_year s_day_of_week s_hour_of_day s_minute_of_hour s_second_of_minute] in ER.
  unfold py_TimePoint__check_bounds.
  cbn [s_year s_month_of_year s_day_of_month s_day_of_year s_week_of_year s_day_of_week s_hour_of_day
       s_minute_of_hour s_second_of_minute].
  cbv zeta. cal7 md. consts7.
  rewrite ?oqeq_some_r, ?oqeq_some_l. change (inject_Z 24) with 24%Q.
  destruct mo as [mo|], y as [y|]; mstep; cbn [negb];
    rewrite ?dim_int, ?dim_leap, ?gen_get_weeks_in_year_eq, ?gen_get_days_in_year_eq;
    repeat (first [helper_step | crunch_step]; mstep);
    subst R;
    repeat match goal with H : _ = true |- _ => rewrite H | H : _ = false |- _ => rewrite H end;
    rewrite ?Bool.andb_false_r; cbn [andb];
    repeat (crunch_step; rewrite ?Bool.andb_false_r; cbn [andb]); reflexivity.
Qed.

(* ---------- priority 2: TimeZone.__init__ ---------- *)
(* hours / minutes None = 0 (TimeZone.__init__'s own defaulting) *)
Definition tz_args (zho zmo : option Z) : zone :=
  mkZone (match zho with Some h => h | None => 0 end) (match zmo with Some m => m | None => 0 end).

Lemma gen7_tz_init md zho zmo u :
  py_TimeZone___init__ (cal7_of md) zho zmo u =
  if valid_zone (tz_args zho zmo)
  then Ok (mkTimeZone (zh (tz_args zho zmo)) (zm (tz_args zho zmo)) u)
  else Raise BadInputError.
Proof.
  unfold py_TimeZone___init__, valid_zone, tz_args. cbn [zh zm]. consts7.
  destruct zho as [h|], zmo as [m|]; mstep;
    repeat (first [helper_step | crunch_step]; mstep);
    cbv beta iota zeta delta [py_empty_tz setz_hours setz_minutes setz_unknown z_hours z_minutes z_unknown];
    try reflexivity; try lia.
Qed.

(* ---------- the statement about __init__ ---------- *)
(* the model's zone argument for the keyword pair (time_zone_hour, time_zone_minute): the model is
   written for the parser, which always supplies the hour; TimeZone.__init__ reads a missing hour as 0 *)
Definition zn_of (zho zmo : option Z) : option (Z * option Z) :=
  match zho, zmo with
  | None, None => None
  | Some h, m => Some (h, m)
  | None, Some m => Some (0, Some m)
  end.
(* truncated_property is None or one of the two names the constructor accepts *)
Definition tprop_ok (t : option string) : bool :=
  is_none t || py_ostr_in t ["year_of_decade"; "year_of_century"]%string.
(* the model reduces fractions (qadd = Qred of the sum), the code does not: time slots up to == *)
Definition oq_equiv (a b : option Q) : Prop :=
  match a, b with Some x, Some y => (x == y)%Q | None, None => True | _, _ => False end.
(* the object state o is the parsed time point p (the three format arguments are carried verbatim;
   an unknown zone is TimeZone(0, 0, unknown=True)) *)
Definition holds7 (o : pyTimePoint) (p : ptp) (ned : Z) (tprop tdf fmt : option string) : Prop :=
  s_num_expanded_year_digits o = ned /\ p_ned p = ned /\ s_year o = p_year p /\ s_month_of_year o = p_month p /\
  s_day_of_year o = p_doy p /\ s_day_of_month o = p_dom p /\ s_day_of_week o = p_dow p /\
  s_week_of_year o = p_week p /\
  oq_equiv (s_hour_of_day o) (p_hour p) /\ oq_equiv (s_minute_of_hour o) (p_min p) /\
  oq_equiv (s_second_of_minute o) (p_sec p) /\
  s_truncated o = p_trunc p /\ s_truncated_property o = tprop /\ s_truncated_dump_format o = tdf /\
  s_dump_format o = fmt /\
  s_time_zone o = match p_zone p with Some z => mkTimeZone (zh z) (zm z) false | None => mkTimeZone 0 0 true end.

(* the constructor's outcome c against the model's m: the state left is m's point, BadInputError
   exactly where the model says EBadInput, and nothing else ever *)
Definition init_rel (c : exc pyTimePoint) (m : pres ptp) (ned : Z) (tprop tdf fmt : option string) : Prop :=
  match m with
  | POk p => exists o, c = Ok o /\ holds7 o p ned tprop tdf fmt
  | PErr EBadInput => c = Raise BadInputError
  | PErr _ => False
  end.


Definition ptp_num_equiv (a b : ptp) : Prop :=
  p_year a = p_year b /\ p_month a = p_month b /\ p_dom a = p_dom b /\ p_doy a = p_doy b /\
  p_week a = p_week b /\ p_dow a = p_dow b /\
  oq_equiv (p_hour a) (p_hour b) /\ oq_equiv (p_min a) (p_min b) /\ oq_equiv (p_sec a) (p_sec b).

Lemma in_rngq_equiv a b lo hi : oq_equiv a b -> in_rngq a lo hi = in_rngq b lo hi.
Proof.
  destruct a as [x|], b as [y|]; cbn; try tauto. intros E. unfold qleb. rewrite E. reflexivity.
Qed.
Lemma below_q_equiv a b lo hi : oq_equiv a b -> below_q a lo hi = below_q b lo hi.
Proof.
  destruct a as [x|], b as [y|]; cbn; try tauto. intros E. unfold qleb, qltb. rewrite E. reflexivity.
Qed.
Lemma is24_equiv a b : oq_equiv a b ->
  match a with Some h => qeqb h 24 | None => false end = match b with Some h => qeqb h 24 | None => false end.
Proof.
  destruct a as [x|], b as [y|]; cbn; try tauto. intros E. unfold qeqb. rewrite E. reflexivity.
Qed.

Lemma check_bounds_ext md a b : ptp_num_equiv a b -> check_bounds md a = check_bounds md b.
Proof.
  intros (E1 & E2 & E3 & E4 & E5 & E6 & E7 & E8 & E9). unfold check_bounds.
  rewrite E1, E2, E3, E4, E5, E6.
  rewrite (in_rngq_equiv _ _ 0 24 E7), (is24_equiv _ _ E7).
  rewrite (in_rngq_equiv _ _ 0 0 E8), (in_rngq_equiv _ _ 0 0 E9).
  rewrite (below_q_equiv _ _ 0 60 E8), (below_q_equiv _ _ 0 60 E9).
  reflexivity.
Qed.


(* ---------- the model's constructor with its time-zone and defaulting stages named ---------- *)
Definition zone7 (zn : option (Z * option Z)) (truncated : bool) : pres (option zone) :=
  match zn with
  | None => if truncated then POk None else POk (Some (mkZone 0 0))
  | Some (zh, zmo) =>
    let zmv := match zmo with Some x => x | None => 0 end in
    if negb ((-99 <=? zh) && (zh <=? 99)) then PErr EBadInput
    else
      let lo := if 0 <? zh then 0 else -59 in
      let hi := if zh <? 0 then 0 else 59 in
      if negb ((lo <=? zmv) && (zmv <=? hi)) then PErr EBadInput
      else POk (Some (mkZone zh zmv))
  end.
Definition dfl_tail (md : mode) (year month dom doy week dow : option Z) (h2 m2 s2 : option Q)
    (z : option zone) (truncated : bool) (tprop : string) (ned : Z) (fmt : string) (week_spec : bool) : pres ptp :=
  let '(month', dom', week', dow') :=
    if negb truncated && match doy with None => true | Some _ => false end then
      if negb week_spec then
        (match month with None => Some 1 | x => x end, match dom with None => Some 1 | x => x end, week, dow)
      else
        (month, dom, match week with None => Some 1 | x => x end, match dow with None => Some 1 | x => x end)
    else (month, dom, week, dow) in
  let p := mkPtp year month' dom' doy week' dow' h2 m2 s2 z truncated tprop ned fmt in
  if check_bounds md p then POk p else PErr EBadInput.
Definition dflt1 (v : option Z) : option Z := match v with None => Some 1 | x => x end.
Lemma dfl_tail_eq md year month dom doy week dow h2 m2 s2 z truncated tprop ned fmt week_spec :
  dfl_tail md year month dom doy week dow h2 m2 s2 z truncated tprop ned fmt week_spec =
  let on := negb truncated && match doy with None => true | Some _ => false end in
  let p := mkPtp year (if on && negb week_spec then dflt1 month else month)
                 (if on && negb week_spec then dflt1 dom else dom) doy
                 (if on && week_spec then dflt1 week else week)
                 (if on && week_spec then dflt1 dow else dow) h2 m2 s2 z truncated tprop ned fmt in
  if check_bounds md p then POk p else PErr EBadInput.
Proof. unfold dfl_tail. destruct truncated, doy, week_spec; reflexivity. Qed.

Definition construct7 (md : mode) (year month dom doy week dow : option Z)
           (hour hdec minute mdec sec sdec : option Q) (zn : option (Z * option Z))
           (truncated : bool) (tprop : string) (ned : Z) (fmt : string) (is_duration : bool) : pres ptp :=
  h1 <-- dec_h hour hdec minute sec ;;;
  m1 <-- dec_m minute mdec sec ;;;
  s1 <-- dec_s sec sdec ;;;
  if negb truncated && match year with None => true | Some _ => false end then PErr EBadInput
  else
    let '(h2, m2, s2) :=
      if truncated then (h1, m1, s1)
      else (dfl_h h1, dfl_m hdec m1, dfl_s hdec mdec s1) in
    z <-- zone7 zn truncated ;;;
    let month_spec := truthy month || truthy dom in
    let week_spec := truthy week || truthy dow in
    if month_spec && week_spec then PErr EBadInput
    else if month_spec && match doy with Some _ => true | None => false end then PErr EBadInput
    else if week_spec && match doy with Some _ => true | None => false end then PErr EBadInput
    else
      if is_duration then POk (mkPtp year month dom doy week dow h2 m2 s2 z truncated tprop ned fmt)
      else dfl_tail md year month dom doy week dow h2 m2 s2 z truncated tprop ned fmt week_spec.

Lemma construct7_eq md year month dom doy week dow hour hdec minute mdec sec sdec zn truncated tprop ned fmt dur :
  construct md year month dom doy week dow hour hdec minute mdec sec sdec zn truncated tprop ned fmt dur =
  construct7 md year month dom doy week dow hour hdec minute mdec sec sdec zn truncated tprop ned fmt dur.
Proof. reflexivity. Qed.

Lemma zone7_spec zho zmo tr :
  zone7 (zn_of zho zmo) tr =
  if valid_zone (tz_args zho zmo)
  then POk (if tr && (is_none zho && is_none zmo) then None else Some (tz_args zho zmo))
  else PErr EBadInput.
Proof.
  unfold zone7, zn_of, valid_zone, tz_args. cbn [zh zm].
  destruct zho as [h|], zmo as [m|], tr; cbn [is_none andb negb];
    repeat crunch_step; try reflexivity; lia.
Qed.

Lemma ic_oq_T_int cal v nm : oq_int v = true ->
  py_fn__int_caster__oq_s_T cal v nm = Ok (option_map py_int_Q v).
Proof. intros H. rewrite ic_oq_T. destruct v as [x|]; [|reflexivity]. cbn in H. rewrite H. reflexivity. Qed.
Lemma ic_oq_F_int cal v nm : oq_int v = true ->
  py_fn__int_caster__oq_s_F cal v nm = match v with Some x => Ok (py_int_Q x) | None => Raise BadInputError end.
Proof. intros H. rewrite ic_oq_F. destruct v as [x|]; [|reflexivity]. cbn in H. rewrite H. reflexivity. Qed.

(* the stuck atom on the spine of a term *)
Ltac spine t k :=
  lazymatch t with
  | match ?m with _ => _ end => spine m k
  | negb ?c => spine c k
  | andb ?a _ => spine a k
  | _ => k t
  end.
Ltac simp7 :=
  rewrite ?Bool.andb_negb_r, ?Bool.orb_negb_r, <- ?Bool.negb_orb;
  repeat match goal with H : tprop_ok _ = _ |- _ => unfold tprop_ok in H; rewrite ?H end;
  repeat match goal with |- context [truthy_opt truthy_Z ?x] => change (truthy_opt truthy_Z x) with (truthy x) end;
  cbv beta iota zeta delta [ebind need is_none lift2 pbind negb andb option_map
    py_ostr_in in_q fst snd dec_h dec_m dec_s
    s_num_expanded_year_digits s_year s_month_of_year s_day_of_year s_day_of_month s_day_of_week
    s_week_of_year s_hour_of_day s_minute_of_hour s_second_of_minute s_truncated s_truncated_property
    s_truncated_dump_format s_dump_format s_time_zone];
  change (qz 0) with 0%Q; change (qz 1) with 1%Q; change (inject_Z 0) with 0%Q;
  rewrite ?dfl_tail_eq.
Ltac helper7 :=
  first [ rewrite ic_oq_T_int by assumption | rewrite ic_oq_F_int by assumption
        | helper_step | rewrite gen7_tz_init | rewrite gen7_check_bounds ].
Ltac cb_step md st :=
  lazymatch goal with
  | |- init_rel _ ?m _ _ _ _ =>
    lazymatch m with
    | context [check_bounds md ?p] =>
      replace (check_bounds md (abs7 st)) with (check_bounds md p);
      [ destruct (check_bounds md p) eqn:? | ]
    end
  end.
Ltac on_atom x :=
  first
  [ is_var x; destruct x
  | match goal with H : x = _ |- _ => rewrite H end
  | lazymatch x with
    | check_bounds ?md (abs7 ?st) => cb_step md st
    | _ => helper7
    end
  | lazymatch x with
    | check_bounds ?md (abs7 ?st) => fail
    | _ => destruct x eqn:?
    end ].
Ltac code_step :=
  lazymatch goal with
  | |- init_rel (Ok _) _ _ _ _ _ => fail
  | |- init_rel (Raise _) _ _ _ _ _ => fail
  | |- init_rel ?c _ _ _ _ _ => spine c on_atom
  end.


Ltac q_tac :=
  cbv beta iota delta [oq_equiv dfl_h dfl_m dfl_s qadd]; rewrite ?Qred_correct;
  repeat match goal with H : qis_int ?x = true |- context [inject_Z (py_int_Q ?x)] =>
           rewrite (py_int_Q_int x H) end;
  try reflexivity; try lra.
Ltac field_tac :=
  cbv beta iota delta [dfl_h dfl_m dfl_s];
  repeat (crunch_step; cbn [is_none andb negb orb]); try reflexivity; try q_tac; try exact Logic.I.
Ltac fields7 :=
  cbv beta iota delta [holds7 ptp_num_equiv abs7];
  cbn [p_year p_month p_dom p_doy p_week p_dow p_hour p_min p_sec p_zone p_trunc p_tprop p_ned p_fmt
       s_num_expanded_year_digits s_year s_month_of_year s_day_of_year s_day_of_month s_day_of_week
       s_week_of_year s_hour_of_day s_minute_of_hour s_second_of_minute s_truncated s_truncated_property
       s_truncated_dump_format s_dump_format s_time_zone];
  repeat split; field_tac.
(* a leaf of the symbolic run: the code is a value.  When the model is still undecided (the code did
   not need a test the model makes) the model's own spine is case-split until it is a value too *)
Ltac on_model_atom x :=
  first [ is_var x; destruct x
        | match goal with H : x = _ |- _ => rewrite H end
        | destruct x eqn:? ].
Ltac leaf7 :=
  cbv beta iota delta [oq_int] in *;
  lazymatch goal with
  | |- init_rel (Ok _) (POk _) _ _ _ _ => cbn [init_rel]; eexists; split; [reflexivity|]; fields7
  | |- init_rel (Raise BadInputError) (PErr EBadInput) _ _ _ _ => reflexivity
  | |- init_rel _ (POk _) _ _ _ _ => fail "the code refuses what the model accepts"
  | |- init_rel _ (PErr _) _ _ _ _ => fail "the code accepts what the model refuses"
  | |- init_rel _ ?m _ _ _ _ => spine m on_model_atom; simp7; leaf7
  | |- check_bounds _ _ = check_bounds _ _ => apply check_bounds_ext; fields7
  end.

(* ---------- priority 3: TimePoint.__init__ ---------- *)
Theorem gen7_init md ned yr mo wk doy dom dow hour hdec minute mdec sec sdec zho zmo fmt tr tdf tprop dur :
  oq_int hour = true -> oq_int minute = true -> oq_int sec = true -> tprop_ok tprop = true ->
  init_rel (py_TimePoint___init__ (cal7_of md) ned yr mo wk doy dom dow hour hdec minute mdec sec sdec zho zmo
              fmt tr tdf tprop dur)
           (construct md yr mo dom doy wk dow hour hdec minute mdec sec sdec (zn_of zho zmo) tr (ostr tprop) ned
              (ostr fmt) dur) ned tprop tdf fmt.
Proof.
  intros Hh Hm Hs Ht.
  rewrite construct7_eq. unfold construct7. rewrite zone7_spec.
  unfold py_TimePoint___init__, qleb, qltb in *. code7_open. consts7. simp7.
  repeat (code_step; simp7).
  all: leaf7.
Qed.

(* ---------- what the typed entry point leaves out of the model: the code's own answer ---------- *)
(* a time field that is not a whole number: _int_caster refuses it (the model's `construct` is only
   ever called with whole numbers: C09's tod_ints) *)
Lemma gen7_init_nonint md ned yr mo wk doy dom dow hour hdec minute mdec sec sdec zho zmo fmt tr tdf tprop dur :
  oq_int hour && oq_int minute && oq_int sec = false -> tprop_ok tprop = true ->
  py_TimePoint___init__ (cal7_of md) ned yr mo wk doy dom dow hour hdec minute mdec sec sdec zho zmo
    fmt tr tdf tprop dur = Raise BadInputError.
Proof.
  intros H Ht.
  change (init_rel (py_TimePoint___init__ (cal7_of md) ned yr mo wk doy dom dow hour hdec minute mdec sec sdec
                      zho zmo fmt tr tdf tprop dur) (PErr EBadInput) ned tprop tdf fmt).
  apply Bool.andb_false_iff in H. destruct H as [H|H]; [apply Bool.andb_false_iff in H; destruct H as [H|H]|];
    match type of H with oq_int ?v = false => destruct v as [x|]; cbn [oq_int] in H; [|discriminate H] end;
    unfold py_TimePoint___init__; code7_open; simp7;
    repeat (code_step; simp7); try reflexivity.
Qed.

(* a truncated_property other than the two names *)
Lemma gen7_init_bad_tprop md ned yr mo wk doy dom dow hour hdec minute mdec sec sdec zho zmo fmt tr tdf tprop dur :
  tprop_ok tprop = false ->
  py_TimePoint___init__ (cal7_of md) ned yr mo wk doy dom dow hour hdec minute mdec sec sdec zho zmo
    fmt tr tdf tprop dur = Raise BadInputError.
Proof.
  intros Ht.
  change (init_rel (py_TimePoint___init__ (cal7_of md) ned yr mo wk doy dom dow hour hdec minute mdec sec sdec
                      zho zmo fmt tr tdf tprop dur) (PErr EBadInput) ned tprop tdf fmt).
  unfold py_TimePoint___init__; code7_open; simp7. reflexivity.
Qed.

(* ---------- consequences ---------- *)
(* accepted or BadInputError, never anything else; accepted exactly where the model accepts *)
Lemma gen7_init_dichotomy md ned yr mo wk doy dom dow hour hdec minute mdec sec sdec zho zmo fmt tr tdf tprop dur :
  oq_int hour = true -> oq_int minute = true -> oq_int sec = true -> tprop_ok tprop = true ->
  let c := py_TimePoint___init__ (cal7_of md) ned yr mo wk doy dom dow hour hdec minute mdec sec sdec zho zmo
             fmt tr tdf tprop dur in
  let m := construct md yr mo dom doy wk dow hour hdec minute mdec sec sdec (zn_of zho zmo) tr (ostr tprop) ned
             (ostr fmt) dur in
  (exists o p, c = Ok o /\ m = POk p /\ holds7 o p ned tprop tdf fmt) \/
  (c = Raise BadInputError /\ m = PErr EBadInput).
Proof.
  intros Hh Hm Hs Ht c m.
  pose proof (gen7_init md ned yr mo wk doy dom dow hour hdec minute mdec sec sdec zho zmo fmt tr tdf tprop dur
                Hh Hm Hs Ht) as G.
  fold c m in G. unfold init_rel in G. destruct m as [p|[| | |]]; try contradiction.
  - destruct G as (o & E & Ho). left. exists o, p. auto.
  - right. auto.
Qed.

(* a state that denotes a full time point is phase 4's `rep` of it (up to the representation of the
   rationals): what Proofs/GenCode4*.v take for granted about "the state __init__ leaves" *)
Lemma holds7_rep4 o p ned0 tprop tdf fmt q :
  holds7 o p ned0 tprop tdf fmt -> ptp_to_tp p = Some q ->
  exists q', tp_equiv q' q /\ o = rep (mkFlags ned0 tprop tdf fmt) q'.
Proof.
  destruct o as [ned y mo doy dom dow woy h mi s tr tp' tdf' fmt' tz].
  destruct p as [py pmo pdom pdoy pwk pdow ph pmi ps pz ptr ptp' pned pfmt].
  unfold holds7, ptp_to_tp.
  cbn [s_num_expanded_year_digits s_year s_month_of_year s_day_of_year s_day_of_month s_day_of_week
       s_week_of_year s_hour_of_day s_minute_of_hour s_second_of_minute s_truncated s_truncated_property
       s_truncated_dump_format s_dump_format s_time_zone
       p_year p_month p_dom p_doy p_week p_dow p_hour p_min p_sec p_zone p_trunc p_tprop p_ned p_fmt].
  intros (-> & -> & -> & -> & -> & -> & -> & -> & Eh & Em & Es & -> & -> & -> & -> & ->) H.
  destruct ptr; [discriminate|].
  destruct py as [y|], ph as [ph|], pz as [z|]; try discriminate.
  destruct h as [h|]; cbn [oq_equiv] in Eh; [|contradiction].
  assert (D : forall d t, (match pmi, ps with
                           | Some m, Some s => Some (HMS ph m s) | Some m, None => Some (HM ph m)
                           | None, None => Some (HH ph) | None, Some _ => None end) = Some t ->
            exists t', tod_equiv t' t /\
              mkTimePoint ned0 (Some y)
                (match d with Cal _ m _ => Some m | _ => None end)
                (match d with Ord _ doy => Some doy | _ => None end)
                (match d with Cal _ _ dd => Some dd | _ => None end)
                (match d with Wk _ _ dd => Some dd | _ => None end)
                (match d with Wk _ w _ => Some w | _ => None end)
                (Some h) mi s false tprop tdf fmt (mkTimeZone (zh z) (zm z) false) =
              rep (mkFlags ned0 tprop tdf fmt) (mkTp (match d with Cal _ m dd => Cal y m dd | Ord _ doy => Ord y doy
                                                            | Wk _ w dd => Wk y w dd end) t' z)).
  { intros d t Ht.
    destruct pmi as [pm|], ps as [pss|], mi as [m|], s as [ss|]; cbn [oq_equiv] in Em, Es;
      try contradiction; try discriminate; injection Ht as <-.
    - exists (HMS h m ss). split; [cbn; auto|]. destruct d; reflexivity.
    - exists (HM h m). split; [cbn; auto|]. destruct d; reflexivity.
    - exists (HH h). split; [cbn; auto|]. destruct d; reflexivity. }
  destruct pmo as [m|], pdom as [d|], pdoy as [dy|], pwk as [w|], pdow as [dw|]; try discriminate;
    match type of H with
    | match ?tt with Some _ => _ | None => _ end = _ => destruct tt as [t|] eqn:Et; [|discriminate]
    end; injection H as <-.
  - destruct (D (Cal y m d) t eq_refl) as (t' & T1 & T2). exists (mkTp (Cal y m d) t' z).
    split; [repeat split; auto|exact T2].
  - destruct (D (Ord y dy) t eq_refl) as (t' & T1 & T2). exists (mkTp (Ord y dy) t' z).
    split; [repeat split; auto|exact T2].
  - destruct (D (Wk y w dw) t eq_refl) as (t' & T1 & T2). exists (mkTp (Wk y w dw) t' z).
    split; [repeat split; auto|exact T2].
Qed.

(* a full (non-truncated, non-duration) constructor call that returns leaves rep of a VALID time point *)
Theorem gen7_init_rep md ned yr mo wk doy dom dow hour hdec minute mdec sec sdec zho zmo fmt tdf tprop o :
  oq_int hour = true -> oq_int minute = true -> oq_int sec = true -> tprop_ok tprop = true ->
  py_TimePoint___init__ (cal7_of md) ned yr mo wk doy dom dow hour hdec minute mdec sec sdec zho zmo
    fmt false tdf tprop false = Ok o ->
  exists q q', valid_tp md q = true /\ tp_equiv q' q /\ o = rep (mkFlags ned tprop tdf fmt) q'.
Proof.
  intros Hh Hm Hs Ht E.
  destruct (gen7_init_dichotomy md ned yr mo wk doy dom dow hour hdec minute mdec sec sdec zho zmo fmt false tdf
              tprop false Hh Hm Hs Ht) as [(o' & p & E1 & E2 & Ho)|[E1 _]]; cbv zeta in *; [|congruence].
  assert (o' = o) by congruence. subst o'.
  assert (Ih : oint hour) by (destruct hour; cbn in *; auto).
  assert (Im : oint minute) by (destruct minute; cbn in *; auto).
  destruct (construct_valid _ _ _ _ _ _ _ _ _ _ _ _ _ _ _ _ _ _ Ih Im E2) as (q & Q1 & Q2).
  destruct (holds7_rep4 _ _ _ _ _ _ _ Ho Q1) as (q' & T1 & T2).
  exists q, q'. auto.
Qed.

(* ---------- property C09 of the translated constructor ---------- *)
Lemma tod_ints_split h mi s : tod_ints h mi s = true ->
  oq_int h = true /\ oq_int mi = true /\ oq_int s = true.
Proof.
  unfold tod_ints. intros H. apply andb_prop in H. destruct H as [H H3]. apply andb_prop in H.
  destruct H as [H1 H2]. repeat split; assumption.
Qed.

(* accepted exactly when the fields are Spec-valid, BadInputError otherwise: from the three `iff`s of
   Proofs/ConstructSpec.v (property C09) through gen7_init *)
Lemma accept_iff (c : exc pyTimePoint) (m : pres ptp) (v : bool) :
  ((exists o p, c = Ok o /\ m = POk p /\ True) \/ (c = Raise BadInputError /\ m = PErr EBadInput)) ->
  ((exists p, m = POk p) <-> v = true) ->
  if v then exists o, c = Ok o else c = Raise BadInputError.
Proof.
  intros [(o & p & E1 & E2 & _)|[E1 E2]] I.
  - assert (V : v = true) by (apply I; exists p; exact E2). rewrite V. exists o. exact E1.
  - destruct v; [|exact E1]. destruct (proj2 I eq_refl) as (p & E). congruence.
Qed.

Theorem gen7_calendar md y m d h mi s zho zmo tdf :
  tod_ints h mi s = true ->
  let c := py_TimePoint___init__ (cal7_of md) 0 (Some y) (Some m) None None (Some d) None h None mi None s None
             zho zmo None false tdf None false in
  if valid_cal md y m d && tod_fields_ok h mi s && zone_fields_ok (zn_of zho zmo)
  then exists o, c = Ok o else c = Raise BadInputError.
Proof.
  intros T c. destruct (tod_ints_split _ _ _ T) as (H1 & H2 & H3).
  apply (accept_iff c (construct md (Some y) (Some m) (Some d) None None None h None mi None s None (zn_of zho zmo)
                         false "" 0 "" false)).
  - destruct (gen7_init_dichotomy md 0 (Some y) (Some m) None None (Some d) None h None mi None s None zho zmo None
                false tdf None false H1 H2 H3 eq_refl) as [(o & p & E1 & E2 & _)|E]; [left; exists o, p; auto|right; exact E].
  - rewrite (construct_calendar_iff md y m d h mi s (zn_of zho zmo) T).
    rewrite !Bool.andb_true_iff. tauto.
Qed.

Theorem gen7_ordinal md y doy h mi s zho zmo tdf :
  tod_ints h mi s = true ->
  let c := py_TimePoint___init__ (cal7_of md) 0 (Some y) None None (Some doy) None None h None mi None s None
             zho zmo None false tdf None false in
  if valid_ord md y doy && tod_fields_ok h mi s && zone_fields_ok (zn_of zho zmo)
  then exists o, c = Ok o else c = Raise BadInputError.
Proof.
  intros T c. destruct (tod_ints_split _ _ _ T) as (H1 & H2 & H3).
  apply (accept_iff c (construct md (Some y) None None (Some doy) None None h None mi None s None (zn_of zho zmo)
                         false "" 0 "" false)).
  - destruct (gen7_init_dichotomy md 0 (Some y) None None (Some doy) None None h None mi None s None zho zmo None
                false tdf None false H1 H2 H3 eq_refl) as [(o & p & E1 & E2 & _)|E]; [left; exists o, p; auto|right; exact E].
  - rewrite (construct_ordinal_iff md y doy h mi s (zn_of zho zmo) T).
    rewrite !Bool.andb_true_iff. tauto.
Qed.

Theorem gen7_week md y w dw h mi s zho zmo tdf :
  tod_ints h mi s = true ->
  let c := py_TimePoint___init__ (cal7_of md) 0 (Some y) None (Some w) None None (Some dw) h None mi None s None
             zho zmo None false tdf None false in
  if valid_week md y w dw && tod_fields_ok h mi s && zone_fields_ok (zn_of zho zmo)
  then exists o, c = Ok o else c = Raise BadInputError.
Proof.
  intros T c. destruct (tod_ints_split _ _ _ T) as (H1 & H2 & H3).
  apply (accept_iff c (construct md (Some y) None None None (Some w) (Some dw) h None mi None s None (zn_of zho zmo)
                         false "" 0 "" false)).
  - destruct (gen7_init_dichotomy md 0 (Some y) None (Some w) None None (Some dw) h None mi None s None zho zmo None
                false tdf None false H1 H2 H3 eq_refl) as [(o & p & E1 & E2 & _)|E]; [left; exists o, p; auto|right; exact E].
  - rewrite (construct_week_iff md y w dw h mi s (zn_of zho zmo) T).
    rewrite !Bool.andb_true_iff. tauto.
Qed.

(* ---------- _check_bounds on a truncated point without year and month: the Driver's trunc_bounds_ok ---------- *)
Definition trunc_of (o : pyTimePoint) : Truncated.trunc :=
  Truncated.mkTrunc (s_hour_of_day o) (s_minute_of_hour o) (s_second_of_minute o) (s_day_of_week o)
    (s_day_of_month o) (s_day_of_year o) (s_week_of_year o) (abs_zone (s_time_zone o)).

Lemma gen7_check_bounds_trunc md o : s_year o = None -> s_month_of_year o = None ->
  py_TimePoint__check_bounds (cal7_of md) o =
  if Driver.trunc_bounds_ok md (trunc_of o) then Ok tt else Raise BadInputError.
Proof.
  intros Hy Hm. rewrite gen7_check_bounds.
  replace (check_bounds md (abs7 o)) with (Driver.trunc_bounds_ok md (trunc_of o)); [reflexivity|].
  destruct o as [ned y mo doy dom dow woy h mi s tr tprop tdf fmt tz]. cbn in Hy, Hm. subst y mo.
  unfold Driver.trunc_bounds_ok, check_bounds, trunc_of, abs7, Driver.in_rng_o, Driver.in_rng_q,
    in_rng, in_rngq, below_q.
  cbn [Truncated.t_hour Truncated.t_min Truncated.t_sec Truncated.t_dow Truncated.t_dom Truncated.t_doy
       Truncated.t_week p_year p_month p_dom p_doy p_week p_dow p_hour p_min p_sec
       s_year s_month_of_year s_day_of_month s_day_of_year s_week_of_year s_day_of_week s_hour_of_day
       s_minute_of_hour s_second_of_minute].
  cbn [andb]. change (qz 24) with 24%Q.
  destruct dom, woy, doy, dow, h, mi, s; cbn [andb]; rewrite ?Bool.andb_true_r, <- ?Bool.andb_assoc;
    reflexivity.
Qed.

(* ---------- checkers for the closed examples (Props/C09Code.v) and tools/gencode7_diff.py ---------- *)
Definition oz_eqb (a b : option Z) : bool := opt_eqb Z.eqb a b.
Definition oq_eqb (a b : option Q) : bool := opt_eqb Qeq_bool a b.
Definition os_eqb (a b : option string) : bool := opt_eqb String.eqb a b.
Definition tz_eqb (a b : pyTimeZone) : bool :=
  (z_hours a =? z_hours b) && (z_minutes a =? z_minutes b) && Bool.eqb (z_unknown a) (z_unknown b).
(* slot by slot; the three time slots as numbers (==) *)
Definition state_eqb (a b : pyTimePoint) : bool :=
  (s_num_expanded_year_digits a =? s_num_expanded_year_digits b) &&
  oz_eqb (s_year a) (s_year b) && oz_eqb (s_month_of_year a) (s_month_of_year b) &&
  oz_eqb (s_day_of_year a) (s_day_of_year b) && oz_eqb (s_day_of_month a) (s_day_of_month b) &&
  oz_eqb (s_day_of_week a) (s_day_of_week b) && oz_eqb (s_week_of_year a) (s_week_of_year b) &&
  oq_eqb (s_hour_of_day a) (s_hour_of_day b) && oq_eqb (s_minute_of_hour a) (s_minute_of_hour b) &&
  oq_eqb (s_second_of_minute a) (s_second_of_minute b) && Bool.eqb (s_truncated a) (s_truncated b) &&
  os_eqb (s_truncated_property a) (s_truncated_property b) &&
  os_eqb (s_truncated_dump_format a) (s_truncated_dump_format b) &&
  os_eqb (s_dump_format a) (s_dump_format b) && tz_eqb (s_time_zone a) (s_time_zone b).
Definition leaves7 (c : exc pyTimePoint) (o : pyTimePoint) : bool :=
  match c with Ok x => state_eqb x o | Raise _ => false end.
Definition leaves_tz (c : exc pyTimeZone) (z : pyTimeZone) : bool :=
  match c with Ok x => tz_eqb x z | Raise _ => false end.
Definition returns_none (c : exc unit) : bool := match c with Ok _ => true | Raise _ => false end.
Definition raises_bad {A} (c : exc A) : bool := match c with Raise BadInputError => true | _ => false end.

(* the whole-number premise of gen7_init is needed: the model's `construct` (written for the parser,
   which only supplies whole numbers) accepts hour_of_day = 3/2, the code refuses it (_int_caster) *)
Lemma gen7_init_needs_ints :
  match construct G (Some 2000) (Some 1) (Some 1) None None None (Some (3 # 2)%Q) None None None None None None
          false "" 0 "" false with POk _ => True | PErr _ => False end /\
  py_TimePoint___init__ (cal7_of G) 0 (Some 2000) (Some 1) None None (Some 1) None (Some (3 # 2)%Q) None None None
    None None None None None false None None false = Raise BadInputError.
Proof. split; vm_compute; [exact Logic.I|reflexivity]. Qed.
