(* Proofs/SubSpec.v -- TimePoint.__sub__(TimePoint): the difference is an exact
   days/hours/minutes/seconds duration whose length is the signed distance of
   the instants, with one sign throughout (property C04), plus the corollaries
   used by C02 and C06. *)
From Coq Require Import QArith Qround Qabs Lqa.
From Iso Require Import Proofs.Tac Spec.Cal Spec.Instant Model.Num Model.Helpers Model.Duration
  Model.TimePoint Proofs.HelpersSpec Proofs.ConvSpec Proofs.DurSpec Proofs.TickSpec Proofs.AddSpec
  Proofs.ZoneSpec Proofs.CmpSpec.
Open Scope Z_scope.
Open Scope Q_scope.

Lemma isint_qadd x y : isint x -> isint y -> isint (qadd x y).
Proof. intros A B. apply isint_eq with (x + y); [symmetry; apply qadd_eq | apply isint_add; assumption]. Qed.
Lemma isint_qsub x y : isint x -> isint y -> isint (qsub x y).
Proof. intros A B. apply isint_eq with (x - y); [symmetry; apply qsub_eq | apply isint_sub; assumption]. Qed.
Lemma isint_1 : isint 1. Proof. exact (isint_Z 1). Qed.
Lemma isint_24 : isint 24. Proof. exact (isint_Z 24). Qed.
Lemma isint_60 : isint 60. Proof. exact (isint_Z 60). Qed.

Lemma isint_lt_le x k : isint x -> x < inject_Z k -> x <= inject_Z (k - 1).
Proof.
  intros [z E] H. rewrite E in *. apply le_inj. apply inj_lt in H. lia.
Qed.

Ltac isint_tac :=
  match goal with
  | |- isint (qadd _ _) => apply isint_qadd; isint_tac
  | |- isint (qsub _ _) => apply isint_qsub; isint_tac
  | |- isint _ => solve [auto using isint_1, isint_24, isint_60]
  end.

Ltac zq := unfold Z.sub; repeat first [rewrite inject_Z_plus | rewrite inject_Z_mult | rewrite inject_Z_opp];
  change (inject_Z 86400) with 86400; change (inject_Z 1) with 1.

Lemma tp_sub_pos_spec md a b : valid_tp md a = true -> valid_tp md b = true ->
  exists dd h m s, tp_sub_pos md a b = Some (DU 0 0 dd h m s) /\
    dur_len (DU 0 0 dd h m s) == instant md a - instant md b /\
    0 <= h /\ h < 24 /\ 0 <= m /\ m < 60 /\ 0 <= s /\ s < 60 /\ isint h /\ isint m.
Proof.
  intros Va Vb. unfold tp_sub_pos.
  destruct (valid_tp_parts md a Va) as (_ & _ & Za).
  destruct (to_time_zone_spec md b (tzone a) Vb Za) as (b1 & E & I1 & Z1 & _ & _ & V1). rewrite E.
  destruct (normalised_spec md a Va) as (Na & Ia & _ & _ & Zna).
  destruct (normalised_spec md b1 V1) as (Nb & Ib & _ & _ & Znb).
  set (a2 := normalised md a) in *. set (b2 := normalised md b1) in *.
  destruct (normal_tp_parts md a2 Na) as (Da & Ta & _).
  destruct (normal_tp_parts md b2 Nb) as (Db & Tb & _).
  destruct (get_ordinal_date_spec md _ Da) as (my & mdoy & Ea & Voa & Noa).
  destruct (get_ordinal_date_spec md _ Db) as (oy & odoy & Eb & Vob & Nob).
  rewrite Ea, Eb.
  pose proof (hms_spec _ Ta) as Ha. pose proof (hms_spec _ Tb) as Hb.
  destruct (get_hour_minute_second (ttod a2)) as [[mh mm] ms].
  destruct (get_hour_minute_second (ttod b2)) as [[oh om] os].
  destruct Ha as (mhz & mmz & Hmh & Hmm & Rmh & Rmm & Sm1 & Sm2 & ETa).
  destruct Hb as (ohz & omz & Hoh & Hom & Roh & Rom & So1 & So2 & ETb).
  cbv beta iota zeta.
  set (dd := if (oy <? my)%Z then _ else _).
  assert (Hdd : dd = (date_dn md (tdate a2) - date_dn md (tdate b2))%Z).
  { unfold dd. rewrite !range_spec. rewrite <- Noa, <- Nob. unfold dn_ord.
    destruct (oy <? my)%Z eqn:C1.
    - destruct (oy <=? my - 1)%Z eqn:C2; [|lia]. replace (my - 1 + 1)%Z with my by lia. lia.
    - destruct (my <=? oy - 1)%Z eqn:C2.
      + replace (oy - 1 + 1)%Z with oy by lia. lia.
      + assert (my = oy) by lia. subst. lia. }
  assert (Idiff : instant md a - instant md b ==
                  86400 * inject_Z dd + (3600 * mh + 60 * mm + ms) - (3600 * oh + 60 * om + os)).
  { rewrite <- Ia, <- I1, <- Ib. unfold instant, qz. rewrite Zna, Znb, Z1, ETa, ETb, Hdd. zq. ring. }
  clearbody dd. clear Hdd.
  assert (Imh : isint mh) by (exists mhz; exact Hmh). assert (Imm : isint mm) by (exists mmz; exact Hmm).
  assert (Ioh : isint oh) by (exists ohz; exact Hoh). assert (Iom : isint om) by (exists omz; exact Hom).
  destruct (range_inj _ _ _ Rmh) as [A1 A2]. destruct (range_inj _ _ _ Rmm) as [A3 A4].
  destruct (range_inj _ _ _ Roh) as [B1 B2]. destruct (range_inj _ _ _ Rom) as [B3 B4].
  rewrite <- Hmh in A1, A2. rewrite <- Hmm in A3, A4. rewrite <- Hoh in B1, B2. rewrite <- Hom in B3, B4.
  change (inject_Z 0) with 0 in *. change (inject_Z (24 - 1)) with 23 in *.
  change (inject_Z (60 - 1)) with 59 in *.
  clear Hmh Hmm Hoh Hom Rmh Rmm Roh Rom ETa ETb.
  set (dh := qsub mh oh). set (dm := qsub mm om). set (dsx := qsub ms os).
  assert (Hdh : dh == mh - oh) by apply qsub_eq.
  assert (Hdm : dm == mm - om) by apply qsub_eq.
  assert (Hds : dsx == ms - os) by apply qsub_eq.
  assert (Idh : isint dh) by (apply isint_qsub; assumption).
  assert (Idm : isint dm) by (apply isint_qsub; assumption).
  clearbody dh dm dsx.
  repeat (match goal with |- context [if qltb ?x 0 then _ else _] =>
            let L := fresh "L" in destruct (qltb x 0) eqn:L end; cbv beta iota);
  repeat match goal with
         | H : qltb _ _ = true |- _ => apply qltb_iff in H
         | H : qltb _ _ = false |- _ => apply qltb_false in H end;
  (eexists; eexists; eexists; eexists; split; [reflexivity|]);
  rewrite dur_len_units;
  (split; [|split; [|split; [|split; [|split; [|split; [|split; [|split]]]]]]]);
  try (isint_tac; fail);
  rewrite ?qadd_eq, ?qsub_eq in *; zq; lra.
Qed.

(* the hours/minutes/seconds part of a difference is less than a day *)
Lemma hms_part_bounds h m s : isint h -> isint m ->
  0 <= h -> h < 24 -> 0 <= m -> m < 60 -> 0 <= s -> s < 60 ->
  0 <= h * 3600 + m * 60 + s /\ h * 3600 + m * 60 + s < 86400.
Proof.
  intros Ih Im H1 H2 H3 H4 H5 H6.
  pose proof (isint_lt_le h 24 Ih H2) as A. pose proof (isint_lt_le m 60 Im H4) as B.
  change (inject_Z (24 - 1)) with 23 in A. change (inject_Z (60 - 1)) with 59 in B. split; lra.
Qed.

Lemma qmul_m1 x : qmul x (qz (-1)) == - x.
Proof. rewrite qmul_eq. unfold qz. change (inject_Z (-1)) with (-1#1). ring. Qed.

Lemma isint_opp x : isint x -> isint (- x).
Proof. intros [z E]. exists (- z)%Z. rewrite inject_Z_opp, E. reflexivity. Qed.

Lemma tp_sub_spec : forall md a b, valid_tp md a = true -> valid_tp md b = true ->
  exists dd h m s, tp_sub md a b = Some (DU 0 0 dd h m s) /\
    (dur_len (DU 0 0 dd h m s) == instant md a - instant md b)%Q /\
    ((instant md b <= instant md a)%Q ->
       (0 <= dd)%Z /\ (0 <= h /\ h < 24 /\ 0 <= m /\ m < 60 /\ 0 <= s /\ s < 60)%Q) /\
    ((instant md a < instant md b)%Q ->
       (dd <= 0)%Z /\ (-(24) < h /\ h <= 0 /\ -(60) < m /\ m <= 0 /\ -(60) < s /\ s <= 0)%Q) /\
    qis_int h = true /\ qis_int m = true.
Proof.
  intros md a b Va Vb. unfold tp_sub. rewrite (tp_cmp_spec md b a Vb Va).
  assert (POS : forall x y, valid_tp md x = true -> valid_tp md y = true ->
            instant md y <= instant md x ->
            exists dd h m s, tp_sub_pos md x y = Some (DU 0 0 dd h m s) /\
              dur_len (DU 0 0 dd h m s) == instant md x - instant md y /\
              (0 <= dd)%Z /\ 0 <= h /\ h < 24 /\ 0 <= m /\ m < 60 /\ 0 <= s /\ s < 60 /\
              isint h /\ isint m).
  { intros x y Vx Vy L.
    destruct (tp_sub_pos_spec md x y Vx Vy) as (dd & h & m & s & E & Len & H1 & H2 & H3 & H4 & H5 & H6 & Ih & Im).
    exists dd, h, m, s. repeat split; try assumption.
    rewrite dur_len_units in Len.
    destruct (hms_part_bounds h m s Ih Im H1 H2 H3 H4 H5 H6) as [P1 P2].
    assert (-1 < dd)%Z; [|lia]. apply inj_lt. revert Len. zq. change (inject_Z (-1)) with (-(1)). intros Len. lra. }
  destruct (Qcompare_spec (instant md b) (instant md a)) as [C | C | C].
  - destruct (POS a b Va Vb ltac:(lra)) as (dd & h & m & s & E & Len & Hd & H1 & H2 & H3 & H4 & H5 & H6 & Ih & Im).
    exists dd, h, m, s. split; [exact E|]. split; [exact Len|].
    split; [intros _; repeat split; assumption|]. split; [intros F; exfalso; lra|].
    split; apply qis_int_iff; assumption.
  - destruct (POS a b Va Vb ltac:(lra)) as (dd & h & m & s & E & Len & Hd & H1 & H2 & H3 & H4 & H5 & H6 & Ih & Im).
    exists dd, h, m, s. split; [exact E|]. split; [exact Len|].
    split; [intros _; repeat split; assumption|]. split; [intros F; exfalso; lra|].
    split; apply qis_int_iff; assumption.
  - destruct (POS b a Vb Va ltac:(lra)) as (dd & h & m & s & E & Len & Hd & H1 & H2 & H3 & H4 & H5 & H6 & Ih & Im).
    rewrite E.
    exists (dd * -1)%Z, (qmul h (qz (-1))), (qmul m (qz (-1))), (qmul s (qz (-1))).
    split; [reflexivity|].
    split.
    { rewrite dur_len_units in *. rewrite !qmul_m1. revert Len. zq. change (inject_Z (-1)) with (-(1)).
      intros Len. lra. }
    split; [intros F; exfalso; lra|].
    split; [intros _; rewrite !qmul_m1; split; [lia|repeat split; lra]|].
    split; apply qis_int_iff.
    + apply isint_eq with (- h); [symmetry; apply qmul_m1 | apply isint_opp; exact Ih].
    + apply isint_eq with (- m); [symmetry; apply qmul_m1 | apply isint_opp; exact Im].
Qed.

(* ---------- corollaries ---------- *)
Lemma tp_sub_exact md a b d : valid_tp md a = true -> valid_tp md b = true ->
  tp_sub md a b = Some d -> is_exact d = true /\ dur_len d == instant md a - instant md b.
Proof.
  intros Va Vb H. destruct (tp_sub_spec md a b Va Vb) as (dd & h & m & s & E & Len & _).
  rewrite E in H. injection H as <-. split; [reflexivity | exact Len].
Qed.

Lemma tp_sub_anti : forall md a b d1 d2, valid_tp md a = true -> valid_tp md b = true ->
  tp_sub md a b = Some d1 -> tp_sub md b a = Some d2 -> dur_eqb d1 (dur_mul d2 (-1)) = true.
Proof.
  intros md a b d1 d2 Va Vb H1 H2.
  destruct (tp_sub_exact md a b d1 Va Vb H1) as [E1 L1].
  destruct (tp_sub_exact md b a d2 Vb Va H2) as [E2 L2].
  apply dur_eqb_exact; [exact E1 | |].
  - rewrite is_exact_ym in *. rewrite dur_mul_years, dur_mul_months. lia.
  - rewrite (dur_len_neg d2 E2), L1, L2. ring.
Qed.

Lemma tp_sub_add_back : forall md a b d, valid_tp md a = true -> valid_tp md b = true ->
  tp_sub md a b = Some d ->
  exists r, tp_add md b d = Some r /\ tp_cmp md r a = Some Eq /\
            rep_kind (tdate r) = rep_kind (tdate b) /\ tzone r = tzone b.
Proof.
  intros md a b d Va Vb H.
  destruct (tp_sub_exact md a b d Va Vb H) as [Ex L].
  destruct (tp_add_exact_spec md b d Vb Ex) as (r & E & I & K1 & _ & Z & Vr).
  exists r. split; [exact E|]. split; [|split; assumption].
  rewrite (tp_cmp_spec md r a Vr Va). f_equal. rewrite <- Qeq_alt. rewrite I, L. ring.
Qed.

Lemma tp_add_sub : forall md p d r, valid_tp md p = true -> is_exact d = true ->
  tp_add md p d = Some r -> exists d', tp_sub md r p = Some d' /\ dur_eqb d' d = true.
Proof.
  intros md p d r V Ex H.
  destruct (tp_add_exact_spec md p d V Ex) as (r' & E & I & _ & _ & _ & Vr).
  assert (r' = r) by congruence. subst r'.
  destruct (tp_sub_spec md r p Vr V) as (dd & h & m & s & Es & Len & _).
  exists (DU 0 0 dd h m s). split; [exact Es|].
  apply dur_eqb_exact; [reflexivity | exact Ex |]. rewrite Len, I. ring.
Qed.

Lemma tp_sub_sign : forall md a b, valid_tp md a = true -> valid_tp md b = true ->
  exists d, tp_sub md a b = Some d /\ (dur_len d ?= 0)%Q = (instant md a ?= instant md b)%Q.
Proof.
  intros md a b Va Vb.
  destruct (tp_sub_spec md a b Va Vb) as (dd & h & m & s & E & Len & _).
  exists (DU 0 0 dd h m s). split; [exact E|]. rewrite Len.
  destruct (Qcompare_spec (instant md a) (instant md b)) as [C | C | C].
  - rewrite <- Qeq_alt. lra.
  - rewrite <- Qlt_alt. lra.
  - rewrite <- Qgt_alt. lra.
Qed.

Lemma rezone_equal_hash_diff : forall md p z r,
  valid_tp md p = true -> valid_zone z = true -> to_time_zone md p z = Some r ->
  tp_cmp md p r = Some Eq /\ tp_cmp md r p = Some Eq /\
  (exists k1 k2, tp_hash_key md p = Some k1 /\ tp_hash_key md r = Some k2 /\ hash_key_equiv k1 k2) /\
  (exists d, tp_sub md p r = Some d /\ dur_bool d = false).
Proof.
  intros md p z r V VZ H.
  destruct (to_time_zone_spec md p z V VZ) as (r' & E & I & _ & _ & _ & Vr).
  assert (r' = r) by congruence. subst r'.
  assert (C1 : tp_cmp md p r = Some Eq).
  { rewrite (tp_cmp_spec md p r V Vr). f_equal. rewrite <- Qeq_alt. rewrite I. reflexivity. }
  assert (C2 : tp_cmp md r p = Some Eq).
  { rewrite (tp_cmp_spec md r p Vr V). f_equal. rewrite <- Qeq_alt. exact I. }
  split; [exact C1|]. split; [exact C2|]. split; [exact (tp_eq_hash md p r V Vr C1)|].
  destruct (tp_sub_spec md p r V Vr) as (dd & h & m & s & Es & Len & Pos & _ & Ih & Im).
  exists (DU 0 0 dd h m s). split; [exact Es|].
  destruct (Pos ltac:(lra)) as (Hd & H1 & H2 & H3 & H4 & H5 & H6).
  rewrite dur_len_units in Len.
  assert (Dq : 0 <= inject_Z dd) by (change 0 with (inject_Z 0); apply le_inj; exact Hd).
  revert Len. zq. intros Len.
  assert (dd = 0)%Z.
  { assert (dd <= 0)%Z; [|lia]. apply inj_le. change (inject_Z 0) with 0. lra. }
  subst dd. cbn [dur_bool].
  rewrite (proj2 (qeqb_iff h 0)) by lra. rewrite (proj2 (qeqb_iff m 0)) by lra.
  rewrite (proj2 (qeqb_iff s 0)) by lra. reflexivity.
Qed.

Open Scope Z_scope.
