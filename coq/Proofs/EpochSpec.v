(* Proofs/EpochSpec.v -- the Unix-epoch conversions of data.py: the time point
   built from n seconds is the epoch plus n; seconds_since_unix_epoch is the
   whole number of seconds from the epoch (property C18, second half). *)
From Coq Require Import QArith Qabs Lqa.
(* exported: the statements in Props/C18.v mention Qfloor *)
From Coq Require Export Qround.
From Iso Require Import Proofs.Tac Spec.Cal Spec.Instant Model.Num Model.Helpers Model.Duration
  Model.TimePoint Model.LocalZone Proofs.HelpersSpec Proofs.ConvSpec Proofs.DurSpec Proofs.TickSpec
  Proofs.AddSpec Proofs.ZoneSpec Proofs.CmpSpec Proofs.SubSpec.
Open Scope Z_scope.
Open Scope Q_scope.

Lemma unix_ref_valid md : valid_tp md unix_ref = true.
Proof. destruct md; reflexivity. Qed.

Lemma from_unix_spec : forall md n local,
  (match local with Some (h, m) => valid_zone (mkZone h m) = true | None => True end) ->
  exists r, from_unix md n local = Some r /\
            (instant md r == instant md unix_ref + n)%Q /\
            tzone r = (match local with Some (h, m) => mkZone h m | None => mkZone 0 0 end) /\
            valid_tp md r = true.
Proof.
  intros md n local HL. unfold from_unix.
  assert (R : exists r0,
    (match local with None => Some unix_ref | Some (h, m) => to_time_zone md unix_ref (mkZone h m) end)
      = Some r0 /\ instant md r0 == instant md unix_ref /\
    tzone r0 = (match local with Some (h, m) => mkZone h m | None => mkZone 0 0 end) /\
    valid_tp md r0 = true).
  { destruct local as [[h m]|].
    - destruct (to_time_zone_spec md unix_ref (mkZone h m) (unix_ref_valid md) HL)
        as (r0 & E & I & Z & _ & _ & V).
      exists r0. auto.
    - exists unix_ref. repeat split; try reflexivity. apply unix_ref_valid. }
  destruct R as (r0 & E & I & Z & V). rewrite E.
  destruct (qeqb n 0) eqn:En.
  - apply qeqb_iff in En. exists r0. split; [reflexivity|]. split; [rewrite I, En; ring|]. auto.
  - destruct (tp_add_exact_spec md r0 (DU 0 0 0 0 0 n) V eq_refl) as (r & Ea & Ia & _ & _ & Zr & Vr).
    exists r. split; [exact Ea|]. split; [|split; [congruence | exact Vr]].
    rewrite Ia, I, dur_len_units. change (inject_Z (0 * 86400)) with 0. ring.
Qed.

Lemma qtrunc_int x z : x == inject_Z z -> qtrunc x = z.
Proof.
  intros E. unfold qtrunc. destruct (Qle_bool 0 x).
  - rewrite E. apply Qfloor_Z.
  - rewrite E. apply Qceiling_Z.
Qed.

Lemma seconds_since_unix_epoch_spec : forall md p, valid_tp md p = true ->
  exists k, seconds_since_unix_epoch md p = Some k /\
    k = Qfloor (instant md p - instant md unix_ref) /\
    (qis_int (instant md p - instant md unix_ref) = true ->
       (inject_Z k == instant md p - instant md unix_ref)%Q).
Proof.
  intros md p V. unfold seconds_since_unix_epoch.
  destruct (tp_sub_spec md p unix_ref V (unix_ref_valid md)) as (dd & h & m & s & E & Len & _).
  rewrite E.
  pose proof (days_and_seconds_spec md (DU 0 0 dd h m s)) as DS.
  destruct (days_and_seconds md (DU 0 0 dd h m s)) as [days secs].
  destruct DS as (S1 & S2 & S3).
  rewrite (rough_len_exact md (DU 0 0 dd h m s) eq_refl), Len in S3.
  eexists. split; [reflexivity|]. unfold qz. split.
  - rewrite S3. reflexivity.
  - intros Hi. apply qis_int_iff in Hi. destruct Hi as [z Hz].
    assert (F : Qfloor (inject_Z (86400 * days) + secs) = z).
    { rewrite S3. rewrite Hz. apply Qfloor_Z. }
    rewrite F. symmetry. exact Hz.
Qed.

Open Scope Z_scope.
