(* Proofs/GenCode2Ok.v -- the day-walking calendar helpers of data.py, as
   translated from their source bodies on this run (gen/GenCode2.v: loops over
   iter_months_days with a `return` inside), are equal to the month-granularity
   model functions of Model/Helpers.v.

   The proofs are semantic: (1) a loop `for .. in L: [counter update]; if P:
   return r` is characterised by the first element of L at which P holds
   (first_hit; lemmas for_ret_counter / for_ret_enum, whichever shape the source
   has); (2) the list iter_months_days yields is, by evaluation for each mode and
   leap status, the enumeration days_from 1 (month table); (3) positions in that
   enumeration are ordinal days (nth_days_walk, nth_days_iff).  Conditions are
   compared by case analysis + lia, never syntactically. *)
From Coq Require Import String.
From Iso Require Import Proofs.Tac Spec.Cal Model.Helpers gen.CalTables gen.GenCode gen.GenCode2
  Proofs.TablesOk Proofs.GenCodeOk Proofs.HelpersSpec Proofs.ConvSpec.
Open Scope Z_scope.

Lemma gen_code2_accepted : translator_ok_code2 = true.
Proof. reflexivity. Qed.

(* ====================================================================== *)
(* 1. loops with a return inside                                           *)
(* ====================================================================== *)
Lemma for_ret_nil {R S E} (body : S -> E -> R + S) s : for_ret [] body s = inr s.
Proof. reflexivity. Qed.

Lemma for_ret_stuck {R S E} (body : S -> E -> R + S) l r :
  fold_left (fun acc it => match acc with inl r => inl r | inr s => body s it end) l (inl r) = inl r.
Proof. induction l as [|x l IH]; cbn [fold_left]; [reflexivity | exact IH]. Qed.

(* the loop's defining equation: run the body on the first item; a `return`
   ends the loop, otherwise continue with the new state *)
Lemma for_ret_cons {R S E} (body : S -> E -> R + S) x l s :
  for_ret (x :: l) body s = match body s x with inl r => inl r | inr s' => for_ret l body s' end.
Proof.
  unfold for_ret; cbn [fold_left]. destruct (body s x) as [r | s']; [apply for_ret_stuck | reflexivity].
Qed.

(* first item at which the test P fires; the running index starts at i and
   moves by d before each test *)
Fixpoint first_hit {E R} (P : Z -> E -> bool) (r : Z -> E -> R) (d : Z) (l : list E) (i : Z) : option R :=
  match l with
  | [] => None
  | x :: l' => let i' := i + d in if P i' x then Some (r i' x) else first_hit P r d l' i'
  end.

(* manual counter: `n += d` (d = 1 or -1 in the source) then `if P: return r` *)
Lemma for_ret_counter {E R} (d : Z) (P : Z -> E -> bool) (r : Z -> E -> R) (body : Z -> E -> R + Z) :
  (forall s x, body s x = if P (s + d) x then inl (r (s + d) x) else inr (s + d)) ->
  forall l s, for_ret l body s =
    match first_hit P r d l s with Some v => inl v | None => inr (s + d * Z.of_nat (length l)) end.
Proof.
  intros Hb. induction l as [|x l IH]; intros s.
  - rewrite for_ret_nil. cbn [first_hit length]. f_equal. lia.
  - rewrite for_ret_cons, Hb. cbn [first_hit]. cbv zeta.
    destruct (P (s + d) x); [reflexivity|]. rewrite IH.
    destruct (first_hit P r d l (s + d)); [reflexivity|]. f_equal. cbn [length]. lia.
Qed.

(* manual counter tested first and moved afterwards: `if P: return r` then `n += d` *)
Lemma for_ret_counter_post {E R} (d : Z) (P : Z -> E -> bool) (r : Z -> E -> R) (body : Z -> E -> R + Z) :
  (forall s x, body s x = if P s x then inl (r s x) else inr (s + d)) ->
  forall l s, for_ret l body s =
    match first_hit P r d l (s - d) with Some v => inl v | None => inr (s + d * Z.of_nat (length l)) end.
Proof.
  intros Hb. induction l as [|x l IH]; intros s.
  - rewrite for_ret_nil. cbn [first_hit length]. f_equal. lia.
  - rewrite for_ret_cons, Hb. cbn [first_hit]. cbv zeta. replace (s - d + d) with s by lia.
    destruct (P s x); [reflexivity|]. rewrite IH. replace (s + d - d) with s by lia.
    destruct (first_hit P r d l s); [reflexivity|]. f_equal. cbn [length]. lia.
Qed.

(* enumerate(L, k): no state, the index comes with the item *)
Lemma for_ret_enum {E R} (P : Z -> E -> bool) (r : Z -> E -> R) (body : unit -> Z * E -> R + unit) :
  (forall u i x, body u (i, x) = if P i x then inl (r i x) else inr tt) ->
  forall l k, for_ret (py_enumerate k l) body tt =
    match first_hit P r 1 l (k - 1) with Some v => inl v | None => inr tt end.
Proof.
  intros Hb. induction l as [|x l IH]; intros k.
  - reflexivity.
  - cbn [py_enumerate]. rewrite for_ret_cons, Hb. cbn [first_hit]. cbv zeta.
    replace (k - 1 + 1) with k by lia.
    destruct (P k x); [reflexivity|]. rewrite IH. replace (k + 1 - 1) with k by lia. reflexivity.
Qed.

Lemma first_hit_ext {E R} (P P' : Z -> E -> bool) (r r' : Z -> E -> R) d l :
  (forall i x, P i x = P' i x) -> (forall i x, P i x = true -> r i x = r' i x) ->
  forall i, first_hit P r d l i = first_hit P' r' d l i.
Proof.
  intros HP Hr. induction l as [|x l IH]; intros i; cbn [first_hit]; [reflexivity|]. cbv zeta.
  rewrite <- HP. destruct (P (i + d) x) eqn:EP; [rewrite (Hr _ _ EP); reflexivity | apply IH].
Qed.

(* the test fires first at position j *)
Lemma first_hit_at {E R} (P : Z -> E -> bool) (r : Z -> E -> R) d : forall l s j x,
  nth_error l j = Some x ->
  (forall j' x', (j' < j)%nat -> nth_error l j' = Some x' -> P (s + d * (Z.of_nat j' + 1)) x' = false) ->
  P (s + d * (Z.of_nat j + 1)) x = true ->
  first_hit P r d l s = Some (r (s + d * (Z.of_nat j + 1)) x).
Proof.
  induction l as [|a l IH]; intros s j x Hn Hb Hh.
  - destruct j; discriminate.
  - cbn [first_hit]. cbv zeta. destruct j as [|j].
    + cbn in Hn. injection Hn as ->. replace (s + d * (Z.of_nat 0 + 1)) with (s + d) in * by lia.
      rewrite Hh. reflexivity.
    + pose proof (Hb 0%nat a ltac:(lia) eq_refl) as H0.
      replace (s + d * (Z.of_nat 0 + 1)) with (s + d) in H0 by lia. rewrite H0.
      rewrite (IH (s + d) j x Hn).
      * f_equal. f_equal. lia.
      * intros j' x' Hj Hn'. specialize (Hb (S j') x' ltac:(lia) Hn').
        replace (s + d + d * (Z.of_nat j' + 1)) with (s + d * (Z.of_nat (S j') + 1)) by lia. exact Hb.
      * replace (s + d + d * (Z.of_nat j + 1)) with (s + d * (Z.of_nat (S j) + 1)) by lia. exact Hh.
Qed.

(* the test never fires *)
Lemma first_hit_none {E R} (P : Z -> E -> bool) (r : Z -> E -> R) d : forall l s,
  (forall j x, nth_error l j = Some x -> P (s + d * (Z.of_nat j + 1)) x = false) ->
  first_hit P r d l s = None.
Proof.
  induction l as [|a l IH]; intros s Hb; [reflexivity|].
  cbn [first_hit]. cbv zeta. pose proof (Hb 0%nat a eq_refl) as H0.
  replace (s + d * (Z.of_nat 0 + 1)) with (s + d) in H0 by lia. rewrite H0.
  apply IH. intros j x Hn. specialize (Hb (S j) x Hn).
  replace (s + d + d * (Z.of_nat j + 1)) with (s + d * (Z.of_nat (S j) + 1)) by lia. exact Hb.
Qed.

(* discharging `body s x = if P .. then inl (r ..) else inr ..`: destructure the
   item, reduce the lets, compare the two tests by cases + lia *)
Ltac destruct_items :=
  repeat match goal with
         | x : (_ * _)%type |- _ => destruct x
         | u : unit |- _ => destruct u
         end.
(* equal heads, arguments equal by arithmetic *)
Ltac eq_args := try reflexivity; try lia; repeat (f_equal; try lia).
Ltac solve_body :=
  intros; destruct_items; autounfold with gencode2_helpers; cbv beta iota zeta; cbn [fst snd];
  unfold DAYS_IN_WEEK in *;
  repeat split_if; try reflexivity; try (exfalso; lia);
  solve [eq_args].

(* rewrite the (first) for_ret loop of the goal by its first_hit form, whichever
   of the source shapes (manual counter moving by d before or after the test / enumerate) it has *)
Ltac loop_first d P r :=
  first [ rewrite (for_ret_counter d P r) by solve_body
        | rewrite (for_ret_counter_post d P r) by solve_body
        | rewrite (for_ret_enum P r) by solve_body ];
  try change (1 - 1) with 0; try change (0 - 1) with (-1).

(* ====================================================================== *)
(* 2. ranges, sums                                                         *)
(* ====================================================================== *)
Lemma range_up_length a n : length (range_up a n) = n.
Proof. revert a; induction n as [|n IH]; intros a; cbn [range_up length]; [|rewrite IH]; reflexivity. Qed.

Lemma range_up_nth n : forall a j, (j < n)%nat -> nth_error (range_up a n) j = Some (a + Z.of_nat j).
Proof.
  induction n as [|n IH]; intros a j Hj; [lia|]. cbn [range_up]. destruct j as [|j].
  - cbn. f_equal. lia.
  - cbn [nth_error]. rewrite IH by lia. f_equal. lia.
Qed.

Lemma zsum_cons a l : zsum (a :: l) = a + zsum l.
Proof.
  unfold zsum. cbn [fold_left]. change (0 + a) with a.
  assert (H : forall l x, fold_left Z.add l x = x + fold_left Z.add l 0).
  { clear. induction l as [|b l IH]; intros x; cbn [fold_left]; [lia|].
    rewrite (IH (x + b)), (IH (0 + b)). lia. }
  apply H.
Qed.

(* accumulating `acc += g y` over range(a, a+n), and sum(g y for y in range) *)
Fixpoint sum_range (g : Z -> Z) (a : Z) (n : nat) : Z :=
  match n with O => 0 | S k => g a + sum_range g (a + 1) k end.

Lemma fold_add_range (f : Z -> Z -> Z) g : (forall acc y, f acc y = acc + g y) ->
  forall n a init, fold_left f (range_up a n) init = init + sum_range g a n.
Proof.
  intros Hf. induction n as [|n IH]; intros a init; cbn [range_up fold_left sum_range]; [lia|].
  rewrite Hf, IH. lia.
Qed.

Lemma py_sum_map_range g : forall n a, py_sum (map g (range_up a n)) = sum_range g a n.
Proof.
  unfold py_sum. fold (zsum (map g (range_up 0 0))). intros n.
  induction n as [|n IH]; intros a; [reflexivity|].
  cbn [range_up map sum_range]. change (fold_left Z.add (g a :: map g (range_up (a + 1) n)) 0)
    with (zsum (g a :: map g (range_up (a + 1) n))). rewrite zsum_cons. unfold zsum. rewrite IH. reflexivity.
Qed.

Lemma sum_range_ext g g' : (forall y, g y = g' y) -> forall n a, sum_range g a n = sum_range g' a n.
Proof. intros H. induction n as [|n IH]; intros a; cbn [sum_range]; [|rewrite H, IH]; reflexivity. Qed.

Lemma sum_range_ylen md : forall n a, sum_range (get_days_in_year md) a n = sum_ylen md a n.
Proof. induction n as [|n IH]; intros a; cbn [sum_range sum_ylen]; [|rewrite IH]; reflexivity. Qed.

(* ====================================================================== *)
(* 3. the enumeration of the days of a year                                *)
(* ====================================================================== *)
(* (month, day) for every day of the months ms, numbered from m *)
Fixpoint days_from (m : Z) (ms : list Z) : list (Z * Z) :=
  match ms with
  | [] => []
  | n :: r => map (pair m) (range_up 1 (Z.to_nat n)) ++ days_from (m + 1) r
  end.

Definition nonneg (ms : list Z) : Prop := forall n, In n ms -> 0 <= n.

Lemma nonneg_cons n r : nonneg (n :: r) -> 0 <= n /\ nonneg r.
Proof. intros H. split; [apply H; left; reflexivity | intros x Hx; apply H; right; exact Hx]. Qed.

Lemma days_from_length ms : nonneg ms -> forall m, Z.of_nat (length (days_from m ms)) = zsum ms.
Proof.
  induction ms as [|n r IH]; intros Hn m; [reflexivity|].
  apply nonneg_cons in Hn. destruct Hn as [Hn Hr].
  cbn [days_from]. rewrite app_length, map_length, range_up_length, zsum_cons, Nat2Z.inj_add, (IH Hr). lia.
Qed.

Lemma nth_map_pair (m : Z) (l : list Z) j :
  nth_error (map (pair m) l) j = option_map (pair m) (nth_error l j).
Proof. revert j; induction l as [|a l IH]; intros [|j]; cbn; try reflexivity. apply IH. Qed.

(* the k-th day of the enumeration is where the model's month walk stops *)
Lemma nth_days_walk ms : nonneg ms -> forall m0 k, 1 <= k ->
  nth_error (days_from m0 ms) (Z.to_nat (k - 1)) = walk_months ms m0 k.
Proof.
  induction ms as [|n r IH]; intros Hn m0 k Hk.
  - cbn. destruct (Z.to_nat (k - 1)); reflexivity.
  - apply nonneg_cons in Hn. destruct Hn as [Hn Hr]. cbn [days_from walk_months].
    destruct (k <=? n) eqn:E.
    + rewrite nth_error_app1 by (rewrite map_length, range_up_length; lia).
      rewrite nth_map_pair, range_up_nth by lia. cbn [option_map]. f_equal. f_equal. lia.
    + rewrite nth_error_app2 by (rewrite map_length, range_up_length; lia).
      rewrite map_length, range_up_length.
      replace (Z.to_nat (k - 1) - Z.to_nat n)%nat with (Z.to_nat (k - n - 1)) by lia.
      apply IH; [exact Hr | lia].
Qed.

Lemma cum_months_0 ms : cum_months ms 0 = 0.
Proof. reflexivity. Qed.

Lemma cum_months_cons n r k : 0 <= k -> cum_months (n :: r) (k + 1) = n + cum_months r k.
Proof.
  intros Hk. unfold cum_months. replace (Z.to_nat (k + 1)) with (S (Z.to_nat k)) by lia.
  cbn [firstn]. apply zsum_cons.
Qed.

(* (m, d) is at position j of the enumeration iff it is a date of the table and
   j + 1 is its ordinal day *)
Lemma nth_days_iff ms : nonneg ms -> forall m0 j m d,
  nth_error (days_from m0 ms) j = Some (m, d) <->
  (m0 <= m < m0 + Z.of_nat (length ms) /\ 1 <= d <= znth ms (m - m0) /\
   Z.of_nat j = cum_months ms (m - m0) + d - 1).
Proof.
  induction ms as [|n r IH]; intros Hn m0 j m d.
  - cbn [days_from length]. split; [destruct j; discriminate | lia].
  - apply nonneg_cons in Hn. destruct Hn as [Hn Hr]. cbn [days_from].
    destruct (Nat.ltb j (Z.to_nat n)) eqn:Ej.
    + apply Nat.ltb_lt in Ej.
      rewrite nth_error_app1 by (rewrite map_length, range_up_length; lia).
      rewrite nth_map_pair, range_up_nth by lia. cbn [option_map]. split.
      * intros H. assert (Hm : m0 = m) by congruence.
        assert (Hd : 1 + Z.of_nat j = d) by congruence. clear H. subst m d.
        replace (m0 - m0) with 0 by lia.
        unfold znth. cbn [Z.to_nat nth length]. rewrite cum_months_0. lia.
      * intros (Hm & Hd & Hj). destruct (Z.eq_dec m m0) as [-> | Hne].
        -- replace (m0 - m0) with 0 in * by lia. rewrite cum_months_0 in Hj. f_equal. f_equal. lia.
        -- exfalso. replace (m - m0) with ((m - m0 - 1) + 1) in Hj by lia.
           rewrite cum_months_cons in Hj by lia.
           assert (0 <= cum_months r (m - m0 - 1)).
           { unfold cum_months. generalize (Z.to_nat (m - m0 - 1)). clear - Hr.
             induction r as [|a r IH]; intros [|k]; cbn [firstn]; try (cbn; lia).
             apply nonneg_cons in Hr. destruct Hr as [Ha Hr]. rewrite zsum_cons.
             specialize (IH Hr k). lia. }
           lia.
    + apply Nat.ltb_ge in Ej.
      rewrite nth_error_app2 by (rewrite map_length, range_up_length; lia).
      rewrite map_length, range_up_length, (IH Hr). cbn [length]. split.
      * intros (Hm & Hd & Hj). replace (m - m0) with ((m - (m0 + 1)) + 1) by lia.
        rewrite cum_months_cons by lia. unfold znth in *.
        replace (Z.to_nat (m - (m0 + 1) + 1)) with (S (Z.to_nat (m - (m0 + 1)))) by lia.
        cbn [nth]. lia.
      * intros (Hm & Hd & Hj). destruct (Z.eq_dec m m0) as [-> | Hne].
        -- exfalso. replace (m0 - m0) with 0 in * by lia. rewrite cum_months_0 in Hj.
           unfold znth in Hd. cbn [Z.to_nat nth] in Hd. lia.
        -- replace (m - m0) with ((m - (m0 + 1)) + 1) in Hd, Hj by lia.
           rewrite cum_months_cons in Hj by lia. unfold znth in *.
           replace (Z.to_nat (m - (m0 + 1) + 1)) with (S (Z.to_nat (m - (m0 + 1)))) in Hd by lia.
           cbn [nth] in Hd. lia.
Qed.

(* ====================================================================== *)
(* 4. the generated code                                                   *)
(* ====================================================================== *)
(* CALENDAR.INDEXED_DAYS_IN_MONTHS[_LEAP] as Calendar.set_mode builds them (the
   right-hand sides translated from the source) from the mode's month tables *)
Definition idx_months (md : mode) : list (Z * Z) :=
  sm_INDEXED_DAYS_IN_MONTHS (DAYS_IN_MONTHS md) (DAYS_IN_MONTHS_LEAP md).
Definition idx_months_leap (md : mode) : list (Z * Z) :=
  sm_INDEXED_DAYS_IN_MONTHS_LEAP (DAYS_IN_MONTHS md) (DAYS_IN_MONTHS_LEAP md).

Lemma gen_set_mode_indexed_eq md :
  idx_months md = py_enumerate 1 (DAYS_IN_MONTHS md) /\
  idx_months_leap md = py_enumerate 1 (DAYS_IN_MONTHS_LEAP md).
Proof. destruct md; split; reflexivity. Qed.

(* month tables: facts by evaluation, per mode and leap status *)
Lemma year_months_nonneg md y : nonneg (year_months md y).
Proof.
  unfold year_months. destruct (get_is_leap_year y); destruct md; intros n Hn; cbn in Hn;
    repeat (destruct Hn as [<- | Hn]; [lia|]); destruct Hn.
Qed.

Lemma year_months_length md y : length (year_months md y) = 12%nat.
Proof. unfold year_months. destruct (get_is_leap_year y); destruct md; reflexivity. Qed.

(* iter_months_days(year) and iter_months_days(year, in_reverse=True): the source
   functions evaluated on every (mode, leap status) *)
Lemma gen_iter_months_days_eq md y :
  py_iter_months_days__zNNF (idx_months md) (idx_months_leap md) y = days_from 1 (year_months md y).
Proof.
  unfold py_iter_months_days__zNNF. cbv zeta. rewrite gen_get_is_leap_year_eq. unfold year_months.
  destruct (get_is_leap_year y); destruct md; vm_compute; reflexivity.
Qed.

Lemma gen_iter_months_days_rev_eq md y :
  py_iter_months_days__zNNT (idx_months md) (idx_months_leap md) y = rev (days_from 1 (year_months md y)).
Proof.
  unfold py_iter_months_days__zNNT. cbv zeta. rewrite gen_get_is_leap_year_eq. unfold year_months.
  destruct (get_is_leap_year y); destruct md; vm_compute; reflexivity.
Qed.

(* ---- loops whose test is `counter == k` ---- *)
Lemma first_hit_eqb {E R} (r : Z -> E -> R) d k l s j x : d <> 0 ->
  nth_error l j = Some x -> s + d * (Z.of_nat j + 1) = k ->
  first_hit (fun i _ => i =? k) r d l s = Some (r k x).
Proof.
  intros Hd Hn Hk. rewrite (first_hit_at _ r d l s j x Hn).
  - rewrite Hk. reflexivity.
  - intros j' x' Hj _. apply Z.eqb_neq. intros Hc. rewrite <- Hk in Hc.
    assert (d * (Z.of_nat j' + 1) = d * (Z.of_nat j + 1)) as Hm by lia.
    apply Z.mul_reg_l in Hm; [lia | exact Hd].
  - apply Z.eqb_eq. exact Hk.
Qed.

Lemma first_hit_eqb_none {E R} (r : Z -> E -> R) d k (l : list E) s :
  (forall j, (j < length l)%nat -> s + d * (Z.of_nat j + 1) <> k) ->
  first_hit (fun i _ => i =? k) r d l s = None.
Proof.
  intros H. apply first_hit_none. intros j x Hn. apply Z.eqb_neq. apply H.
  apply nth_error_Some. rewrite Hn. discriminate.
Qed.

(* ---- loops whose test is `(month, day) == (m, d)` over a whole year ---- *)
Lemma first_hit_date {R} (r : Z -> Z * Z -> R) ms m d s : nonneg ms ->
  first_hit (fun _ x => (fst x =? m) && (snd x =? d)) r 1 (days_from 1 ms) s =
  if (1 <=? m) && (m <=? Z.of_nat (length ms)) && (1 <=? d) && (d <=? znth ms (m - 1))
  then Some (r (s + (cum_months ms (m - 1) + d)) (m, d)) else None.
Proof.
  intros Hn. pose proof (nth_days_iff ms Hn 1) as I.
  destruct ((1 <=? m) && (m <=? Z.of_nat (length ms)) && (1 <=? d) && (d <=? znth ms (m - 1))) eqn:V.
  - assert (Hc : 0 <= cum_months ms (m - 1) + d - 1).
    { destruct (I (Z.to_nat (cum_months ms (m - 1) + d - 1)) m d) as [_ _].
      assert (0 <= cum_months ms (m - 1)); [|lia].
      unfold cum_months. generalize (Z.to_nat (m - 1)). clear - Hn.
      induction ms as [|a ms IH]; intros [|k]; cbn [firstn]; try (cbn; lia).
      apply nonneg_cons in Hn. destruct Hn as [Ha Hr]. rewrite zsum_cons. specialize (IH Hr k). lia. }
    rewrite (first_hit_at _ r 1 _ s (Z.to_nat (cum_months ms (m - 1) + d - 1)) (m, d)).
    + f_equal. f_equal. lia.
    + apply I. lia.
    + intros j' [m' d'] Hj Hx. apply I in Hx. cbn [fst snd].
      destruct ((m' =? m) && (d' =? d)) eqn:Eq; [|reflexivity].
      assert (m' = m /\ d' = d) as [-> ->] by lia. lia.
    + cbn [fst snd]. lia.
  - apply first_hit_none. intros j [m' d'] Hx. apply I in Hx. cbn [fst snd].
    destruct ((m' =? m) && (d' =? d)) eqn:Eq; [|reflexivity].
    assert (m' = m /\ d' = d) as [-> ->] by lia. lia.
Qed.

(* ---------- get_calendar_date_from_ordinal_date ---------- *)
(* for every year and day-of-year: the source returns what the model returns,
   and raises ValueError exactly when the model says None *)
Lemma gen_get_calendar_date_from_ordinal_date_eq md y doy :
  py_get_calendar_date_from_ordinal_date (idx_months md) (idx_months_leap md) y doy =
  match cal_from_ord md y doy with Some r => Ret r | None => Abn RaiseValueError end.
Proof.
  unfold py_get_calendar_date_from_ordinal_date. cbv zeta. rewrite gen_iter_months_days_eq.
  loop_first 1 (fun (i : Z) (_ : Z * Z) => i =? doy) (fun (_ : Z) (x : Z * Z) => Ret (y, fst x, snd x)).
  try change (1 - 1) with 0.
  pose proof (year_months_nonneg md y) as Hn.
  unfold cal_from_ord. destruct (doy <? 1) eqn:E1.
  - rewrite first_hit_eqb_none by (intros; lia). reflexivity.
  - rewrite <- (nth_days_walk _ Hn) by lia.
    destruct (nth_error (days_from 1 (year_months md y)) (Z.to_nat (doy - 1))) as [[m d]|] eqn:En.
    + rewrite (first_hit_eqb _ 1 doy _ 0 _ _ ltac:(lia) En) by lia. reflexivity.
    + apply nth_error_None in En. rewrite first_hit_eqb_none by (intros; lia). reflexivity.
Qed.

(* ---------- get_ordinal_date_from_calendar_date ---------- *)
Lemma gen_get_ordinal_date_from_calendar_date_eq md y m d :
  py_get_ordinal_date_from_calendar_date (idx_months md) (idx_months_leap md) y m d =
  match ord_from_cal md y m d with Some r => Ret r | None => Abn RaiseValueError end.
Proof.
  unfold py_get_ordinal_date_from_calendar_date. cbv zeta. rewrite gen_iter_months_days_eq.
  loop_first 1 (fun (_ : Z) (x : Z * Z) => (fst x =? m) && (snd x =? d))
               (fun (i : Z) (_ : Z * Z) => Ret (y, i)).
  try change (1 - 1) with 0.
  rewrite (first_hit_date _ _ _ _ _ (year_months_nonneg md y)), year_months_length.
  unfold ord_from_cal. change (Z.of_nat 12) with 12.
  destruct ((1 <=? m) && (m <=? 12) && (1 <=? d) && (d <=? znth (year_months md y) (m - 1)));
    reflexivity.
Qed.

(* ---------- _get_calendar_date_week_date_start (whole body) ---------- *)
(* the final loop: walking back from 31 December of the previous year, the
   counter reaches 1 on the Monday (s - 1) days before 1 January *)
Lemma week_start_loop {R} (r : Z -> Z * Z -> R) md y s : 1 < s <= 4 ->
  first_hit (fun i _ => i =? 1) r (-1) (rev (days_from 1 (year_months md y))) s =
  Some (r 1 (12, znth (year_months md y) 11 - (s - 2))).
Proof.
  intros Hs.
  assert (Hn : nth_error (rev (days_from 1 (year_months md y))) (Z.to_nat (s - 2)) =
               Some (12, znth (year_months md y) 11 - (s - 2))).
  { assert (Hc : s = 2 \/ s = 3 \/ s = 4) by lia. unfold year_months.
    destruct Hc as [-> | [-> | ->]]; destruct (get_is_leap_year y); destruct md; reflexivity. }
  apply (first_hit_eqb r (-1) 1 _ s _ _ ltac:(lia) Hn). lia.
Qed.

Lemma gen__get_calendar_date_week_date_start_eq md y :
  py__get_calendar_date_week_date_start (DAYS_IN_YEAR md) (DAYS_IN_YEAR_LEAP md)
    (idx_months md) (idx_months_leap md) y = Ret (week_date_start md y).
Proof.
  unfold py__get_calendar_date_week_date_start, week_date_start,
    WEEK_REF_CALENDAR, WEEK_REF_ORDINAL, DAYS_IN_WEEK, REF_YEAR, REF_MONTH, REF_DAY, REF_ORD.
  cbv beta iota zeta. rewrite ?gen_get_days_in_year_range_eq, ?gen_iter_months_days_rev_eq.
  set (R1 := get_days_in_year_range md 2000 (y - 1)).
  set (R2 := get_days_in_year_range md y (2000 - 1)).
  repeat split_if; try reflexivity; try (exfalso; lia);
    loop_first (-1) (fun (i : Z) (_ : Z * Z) => i =? 1)
                    (fun (_ : Z) (x : Z * Z) => Ret (y - 1, fst x, snd x));
    rewrite week_start_loop by lia; cbn [fst snd]; eq_args.
Qed.

Lemma gen_get_calendar_date_week_date_start_eq md y :
  py_get_calendar_date_week_date_start (DAYS_IN_YEAR md) (DAYS_IN_YEAR_LEAP md)
    (idx_months md) (idx_months_leap md) y = Ret (week_date_start md y).
Proof. exact (gen__get_calendar_date_week_date_start_eq md y). Qed.

(* ---------- _get_ordinal_date_week_date_start ---------- *)
Lemma ord_week_date_start_some md y : exists r, ord_week_date_start md y = Some r.
Proof.
  unfold ord_week_date_start. destruct (week_date_start md y) as [[cy cm] cd] eqn:E.
  destruct (week_date_start_full _ _ _ _ _ E) as (V & _ & _).
  rewrite ord_from_cal_eq, V. eexists; reflexivity.
Qed.

Lemma gen__get_ordinal_date_week_date_start_opt md y :
  py__get_ordinal_date_week_date_start (DAYS_IN_YEAR md) (DAYS_IN_YEAR_LEAP md)
    (idx_months md) (idx_months_leap md) y =
  match ord_week_date_start md y with Some r => Ret r | None => Abn RetNone end.
Proof.
  unfold py__get_ordinal_date_week_date_start, ord_week_date_start.
  rewrite gen_get_calendar_date_week_date_start_eq.
  destruct (week_date_start md y) as [[cy cm] cd]. cbv beta iota zeta.
  rewrite gen_iter_months_days_eq.
  loop_first 1 (fun (_ : Z) (x : Z * Z) => (fst x =? cm) && (snd x =? cd))
               (fun (i : Z) (_ : Z * Z) => Ret (cy, i)).
  try change (1 - 1) with 0.
  rewrite (first_hit_date _ _ _ _ _ (year_months_nonneg md cy)), year_months_length.
  unfold ord_from_cal. change (Z.of_nat 12) with 12.
  destruct ((1 <=? cm) && (cm <=? 12) && (1 <=? cd) && (cd <=? znth (year_months md cy) (cm - 1)));
    reflexivity.
Qed.

(* the week-year start is always a date of its year: the loop always returns *)
Lemma gen__get_ordinal_date_week_date_start_eq md y :
  exists r, ord_week_date_start md y = Some r /\
  py__get_ordinal_date_week_date_start (DAYS_IN_YEAR md) (DAYS_IN_YEAR_LEAP md)
    (idx_months md) (idx_months_leap md) y = Ret r.
Proof.
  destruct (ord_week_date_start_some md y) as [r Hr]. exists r. split; [exact Hr|].
  rewrite gen__get_ordinal_date_week_date_start_opt, Hr. reflexivity.
Qed.

Lemma gen_get_ordinal_date_week_date_start_eq md y :
  exists r, ord_week_date_start md y = Some r /\
  py_get_ordinal_date_week_date_start (DAYS_IN_YEAR md) (DAYS_IN_YEAR_LEAP md)
    (idx_months md) (idx_months_leap md) y = Ret r.
Proof. exact (gen__get_ordinal_date_week_date_start_eq md y). Qed.

(* ---------- _get_weeks_in_year ---------- *)
(* the accumulation over range(cal_year, cal_year_next), as a loop or as sum() *)
Ltac years_sum md :=
  first [ rewrite (fold_add_range _ (get_days_in_year md))
            by (intros; cbv beta zeta; rewrite ?gen_get_days_in_year_eq; lia)
        | rewrite (sum_range_ext _ (get_days_in_year md))
            by (intros; cbv beta zeta; rewrite ?gen_get_days_in_year_eq; lia) ].

Lemma gen__get_weeks_in_year_eq md y :
  py__get_weeks_in_year (DAYS_IN_YEAR md) (DAYS_IN_YEAR_LEAP md)
    (idx_months md) (idx_months_leap md) y = Ret (get_weeks_in_year md y).
Proof.
  unfold py__get_weeks_in_year, get_weeks_in_year.
  destruct (gen_get_ordinal_date_week_date_start_eq md y) as ([cy co] & M1 & ->).
  destruct (gen_get_ordinal_date_week_date_start_eq md (y + 1)) as ([cyn con] & M2 & ->).
  rewrite M1, M2. cbv beta iota zeta. unfold py_range, DAYS_IN_WEEK.
  rewrite ?py_sum_map_range. years_sum md. rewrite sum_range_ylen.
  eq_args.
Qed.

Lemma gen_get_weeks_in_year_eq md y :
  py_get_weeks_in_year (DAYS_IN_YEAR md) (DAYS_IN_YEAR_LEAP md)
    (idx_months md) (idx_months_leap md) y = Ret (get_weeks_in_year md y).
Proof. exact (gen__get_weeks_in_year_eq md y). Qed.

(* ---------- the two conversions on their domains (Spec/Cal.v day numbers) ---------- *)
Lemma gen_get_calendar_date_from_ordinal_date_domain md y doy :
  valid_ord md y doy = true -> exists m d,
  py_get_calendar_date_from_ordinal_date (idx_months md) (idx_months_leap md) y doy = Ret (y, m, d) /\
  valid_cal md y m d = true /\ dn_cal md y m d = dn_ord md y doy.
Proof.
  intros V. destruct (proj1 (cal_from_ord_spec md y doy) V) as (m & d & H1 & H2 & H3).
  exists m, d. rewrite gen_get_calendar_date_from_ordinal_date_eq, H1. auto.
Qed.

Lemma gen_get_ordinal_date_from_calendar_date_domain md y m d :
  valid_cal md y m d = true -> exists doy,
  py_get_ordinal_date_from_calendar_date (idx_months md) (idx_months_leap md) y m d = Ret (y, doy) /\
  valid_ord md y doy = true /\ dn_ord md y doy = dn_cal md y m d.
Proof.
  intros V. destruct (proj1 (ord_from_cal_spec md y m d) V) as (doy & H1 & H2 & H3).
  exists doy. rewrite gen_get_ordinal_date_from_calendar_date_eq, H1. auto.
Qed.

(* ====================================================================== *)
(* 5. the week-date conversions                                            *)
(* ====================================================================== *)
Lemma nth_error_skipn_add {A} k : forall (l : list A) j, nth_error (skipn k l) j = nth_error l (k + j).
Proof.
  induction k as [|k IH]; intros l j; [reflexivity|].
  destruct l as [|a l]; [destruct j; reflexivity | apply IH].
Qed.

Lemma cum_months_nonneg ms : nonneg ms -> forall k, 0 <= cum_months ms k.
Proof.
  intros Hn k. unfold cum_months. generalize (Z.to_nat k). clear k.
  induction ms as [|a ms IH]; intros [|k]; cbn [firstn]; try (cbn; lia).
  apply nonneg_cons in Hn. destruct Hn as [Ha Hr]. rewrite zsum_cons. specialize (IH Hr k). lia.
Qed.

(* counting loop `n == counter` over the days of a year from position k on *)
Lemma first_hit_count {R} (r : Z -> Z * Z -> R) ms k s n : nonneg ms ->
  first_hit (fun i _ => i =? n) r 1 (skipn k (days_from 1 ms)) s =
  if (s <? n) && (n - s + Z.of_nat k <=? zsum ms)
  then match walk_months ms 1 (n - s + Z.of_nat k) with Some x => Some (r n x) | None => None end
  else None.
Proof.
  intros Hn. pose proof (days_from_length ms Hn 1) as HL.
  destruct ((s <? n) && (n - s + Z.of_nat k <=? zsum ms)) eqn:C.
  - rewrite <- (nth_days_walk ms Hn) by lia.
    destruct (nth_error (days_from 1 ms) (Z.to_nat (n - s + Z.of_nat k - 1))) as [x|] eqn:En.
    + apply (first_hit_eqb r 1 n _ s (Z.to_nat (n - s - 1)) x ltac:(lia)); [|lia].
      rewrite nth_error_skipn_add. rewrite <- En. f_equal. lia.
    + apply nth_error_None in En. lia.
  - apply first_hit_eqb_none. intros j Hj. rewrite skipn_length in Hj. lia.
Qed.

(* date-matching loop, guarded by a loop-invariant condition c, over the days
   of a year from position k on *)
Lemma first_hit_date_from {R} (r : Z -> Z * Z -> R) ms k (c : bool) m d s : nonneg ms ->
  first_hit (fun _ x => c && (fst x =? m) && (snd x =? d)) r 1 (skipn k (days_from 1 ms)) s =
  if c && (1 <=? m) && (m <=? Z.of_nat (length ms)) && (1 <=? d) && (d <=? znth ms (m - 1))
       && (Z.of_nat k <? cum_months ms (m - 1) + d)
  then Some (r (s + (cum_months ms (m - 1) + d - Z.of_nat k)) (m, d)) else None.
Proof.
  intros Hn. pose proof (nth_days_iff ms Hn 1) as I. pose proof (cum_months_nonneg ms Hn (m - 1)) as Hc.
  destruct (c && (1 <=? m) && (m <=? Z.of_nat (length ms)) && (1 <=? d) && (d <=? znth ms (m - 1))
            && (Z.of_nat k <? cum_months ms (m - 1) + d)) eqn:V.
  - assert (c = true) as -> by (destruct c; [reflexivity | discriminate]).
    rewrite (first_hit_at _ r 1 _ s (Z.to_nat (cum_months ms (m - 1) + d - 1 - Z.of_nat k)) (m, d)).
    + f_equal. f_equal. lia.
    + rewrite nth_error_skipn_add. apply I. lia.
    + intros j' [m' d'] Hj Hx. rewrite nth_error_skipn_add in Hx. apply I in Hx. cbn [fst snd andb].
      destruct ((m' =? m) && (d' =? d)) eqn:Eq; [|reflexivity].
      assert (m' = m /\ d' = d) as [-> ->] by lia. lia.
    + cbn [fst snd andb]. lia.
  - apply first_hit_none. intros j [m' d'] Hx. rewrite nth_error_skipn_add in Hx. apply I in Hx.
    cbn [fst snd]. destruct c; [|reflexivity]. cbn [andb] in *.
    destruct ((m' =? m) && (d' =? d)) eqn:Eq; [|reflexivity].
    assert (m' = m /\ d' = d) as [-> ->] by lia. lia.
Qed.

(* a week-year starts in the first four days of January or the last three of
   the previous December *)
Definition start_shape (md : mode) (y sm sd : Z) : Prop :=
  (sm = 1 /\ 1 <= sd <= 4) \/
  (sm = 12 /\ znth (year_months md y) 11 - 2 <= sd <= znth (year_months md y) 11).

Lemma week_date_start_shape md y : let '(sy, sm, sd) := week_date_start md y in
  (sy = y \/ sy = y - 1) /\ start_shape md sy sm sd.
Proof.
  unfold week_date_start, start_shape, REF_YEAR, REF_MONTH, REF_DAY, REF_ORD.
  repeat split_if; try (exfalso; lia); split; try lia; first [left; lia | right; lia].
Qed.

(* the ordinal day of a week-year start *)
Lemma start_shape_ord md y sm sd : start_shape md y sm sd ->
  ord_from_cal md y sm sd = Some (y, cum_months (year_months md y) (sm - 1) + sd).
Proof.
  unfold start_shape, ord_from_cal, year_months.
  destruct (get_is_leap_year y); destruct md; intros [[-> H] | [-> H]];
    repeat match goal with
           | H : context [znth ?l ?k] |- _ =>
             let v := eval vm_compute in (znth l k) in change (znth l k) with v in *
           | |- context [znth ?l ?k] =>
             let v := eval vm_compute in (znth l k) in change (znth l k) with v in *
           end;
    match goal with |- (if ?c then _ else _) = _ => replace c with true by lia end; reflexivity.
Qed.

(* iter_months_days(year, month_of_year=sm, day_of_month=sd) from a week-year
   start (or the day after it): the days of the year from that date on; by
   evaluation of the source function on every such start, mode and leap status *)
Ltac eval_znth :=
  repeat match goal with
         | H : context [znth ?l ?k] |- _ =>
           let v := eval vm_compute in (znth l k) in change (znth l k) with v in *
         | |- context [znth ?l ?k] =>
           let v := eval vm_compute in (znth l k) in change (znth l k) with v in *
         end.

Lemma gen_iter_months_days_from_eq md y sm sd :
  start_shape md y sm sd \/ start_shape md y sm (sd - 1) ->
  py_iter_months_days__zzzF (idx_months md) (idx_months_leap md) y sm sd =
  skipn (Z.to_nat (cum_months (year_months md y) (sm - 1) + sd - 1)) (days_from 1 (year_months md y)).
Proof.
  unfold py_iter_months_days__zzzF, start_shape. cbv zeta. rewrite gen_get_is_leap_year_eq.
  unfold year_months. intros H.
  destruct (get_is_leap_year y); destruct md; eval_znth;
    (assert (C : sm = 1 /\ (sd = 1 \/ sd = 2 \/ sd = 3 \/ sd = 4 \/ sd = 5) \/
                 sm = 12 /\ (sd = 28 \/ sd = 29 \/ sd = 30 \/ sd = 31 \/ sd = 32)) by lia);
    clear H; destruct C as [[-> C] | [-> C]];
    repeat (destruct C as [-> | C]; [vm_compute; reflexivity|]); subst sd; vm_compute; reflexivity.
Qed.

Lemma zsum_year md y : zsum (year_months md y) = get_days_in_year md y.
Proof. unfold year_months, get_days_in_year. destruct (get_is_leap_year y); reflexivity. Qed.

(* the k-th day of year y (1-based), total *)
Definition day_at (md : mode) (y k : Z) : Z * Z :=
  match walk_months (year_months md y) 1 k with Some x => x | None => (0, 0) end.

Lemma walk_day_at md y k : 1 <= k <= get_days_in_year md y ->
  walk_months (year_months md y) 1 k = Some (day_at md y k).
Proof.
  intros Hk. unfold day_at. pose proof (year_months_nonneg md y) as Hn.
  rewrite <- (nth_days_walk _ Hn) by lia.
  destruct (nth_error (days_from 1 (year_months md y)) (Z.to_nat (k - 1))) eqn:En; [reflexivity|].
  apply nth_error_None in En. pose proof (days_from_length _ Hn 1). rewrite zsum_year in *. lia.
Qed.

Lemma walk_none md y k : get_days_in_year md y < k -> walk_months (year_months md y) 1 k = None.
Proof.
  intros Hk. pose proof (year_months_nonneg md y) as Hn.
  rewrite <- (nth_days_walk _ Hn) by (pose proof (days_from_length _ Hn 1); rewrite zsum_year in *; lia).
  apply nth_error_None. pose proof (days_from_length _ Hn 1). rewrite zsum_year in *. lia.
Qed.

Lemma cal_from_ord_day_at md y k :
  cal_from_ord md y k =
  if (1 <=? k) && (k <=? get_days_in_year md y)
  then Some (y, fst (day_at md y k), snd (day_at md y k)) else None.
Proof.
  unfold cal_from_ord. destruct (k <? 1) eqn:E1; [replace (1 <=? k) with false by lia; reflexivity|].
  destruct (k <=? get_days_in_year md y) eqn:E2; cbn [andb];
    replace (1 <=? k) with true by lia; cbn [andb].
  - rewrite walk_day_at by lia. destruct (day_at md y k). reflexivity.
  - rewrite walk_none by lia. reflexivity.
Qed.

(* counting loop over the days of year y from position k (0-based) on *)
Lemma count_loop_from {R} (r : Z -> Z * Z -> R) md y k s n : 0 <= k ->
  first_hit (fun i _ => i =? n) r 1 (skipn (Z.to_nat k) (days_from 1 (year_months md y))) s =
  if (s <? n) && (n - s + k <=? get_days_in_year md y) then Some (r n (day_at md y (n - s + k))) else None.
Proof.
  intros Hk. rewrite (first_hit_count _ _ _ _ _ (year_months_nonneg md y)), zsum_year, Z2Nat.id by lia.
  destruct ((s <? n) && (n - s + k <=? get_days_in_year md y)) eqn:C; [|reflexivity].
  rewrite walk_day_at by lia. reflexivity.
Qed.

Lemma count_loop_year {R} (r : Z -> Z * Z -> R) md y s n :
  first_hit (fun i _ => i =? n) r 1 (days_from 1 (year_months md y)) s =
  if (s <? n) && (n - s <=? get_days_in_year md y) then Some (r n (day_at md y (n - s))) else None.
Proof.
  pose proof (count_loop_from r md y 0 s n ltac:(lia)) as H. cbn [Z.to_nat skipn] in H.
  rewrite H. replace (n - s + 0) with (n - s) by lia. reflexivity.
Qed.

Lemma year_days_length md y : Z.of_nat (length (days_from 1 (year_months md y))) = get_days_in_year md y.
Proof. rewrite (days_from_length _ (year_months_nonneg md y)). apply zsum_year. Qed.

Lemma year_days_from_length md y k : 0 <= k <= get_days_in_year md y ->
  Z.of_nat (length (skipn (Z.to_nat k) (days_from 1 (year_months md y)))) = get_days_in_year md y - k.
Proof. intros Hk. pose proof (year_days_length md y). rewrite skipn_length. lia. Qed.

Lemma start_shape_bounds md y sm sd : start_shape md y sm sd ->
  1 <= cum_months (year_months md y) (sm - 1) + sd <= get_days_in_year md y.
Proof.
  unfold start_shape, year_months, get_days_in_year.
  destruct (get_is_leap_year y); destruct md; intros [[-> H] | [-> H]]; eval_znth;
    match goal with |- context [cum_months ?l ?k] =>
      let v := eval vm_compute in (cum_months l k) in change (cum_months l k) with v end;
    match goal with |- context [DAYS_IN_YEAR ?m] =>
      let v := eval vm_compute in (DAYS_IN_YEAR m) in change (DAYS_IN_YEAR m) with v
    | |- context [DAYS_IN_YEAR_LEAP ?m] =>
      let v := eval vm_compute in (DAYS_IN_YEAR_LEAP m) in change (DAYS_IN_YEAR_LEAP m) with v end; lia.
Qed.

Lemma year_len_bounds md y : 360 <= get_days_in_year md y <= 366.
Proof. unfold get_days_in_year. destruct (get_is_leap_year y); destruct md; vm_compute; split; discriminate. Qed.

Ltac finish_if := cbv iota; repeat split_if; try (exfalso; lia); eq_args.
Ltac count_step n y' :=
  loop_first 1 (fun (i : Z) (_ : Z * Z) => i =? n) (fun (_ : Z) (x : Z * Z) => Ret (y', fst x, snd x)).

(* ---------- get_calendar_date_from_week_date ---------- *)
(* for every year, week and day-of-week (also week 0, day 9, week 200 ...) *)
Lemma gen_get_calendar_date_from_week_date_eq md y w d :
  py_get_calendar_date_from_week_date (DAYS_IN_YEAR md) (DAYS_IN_YEAR_LEAP md)
    (idx_months md) (idx_months_leap md) y w d =
  match cal_from_week md y w d with Some r => Ret r | None => Abn RaiseValueError end.
Proof.
  unfold py_get_calendar_date_from_week_date, cal_from_week, DAYS_IN_WEEK. cbv zeta.
  rewrite gen_get_calendar_date_week_date_start_eq.
  pose proof (week_date_start_shape md y) as HS.
  destruct (week_date_start md y) as [[sy sm] sd]. destruct HS as [Hy HS].
  cbv beta iota.
  set (n := (w - 1) * 7 + d - 1).
  pose proof (year_len_bounds md sy). pose proof (year_len_bounds md y). pose proof (year_len_bounds md (y + 1)).
  destruct (n =? 0) eqn:E0; [reflexivity|].
  rewrite (start_shape_ord md sy sm sd HS).
  pose proof (start_shape_bounds md sy sm sd HS) as Hso.
  rewrite gen_iter_months_days_from_eq by (right; replace (sd + 1 - 1) with sd by lia; exact HS).
  rewrite ?gen_iter_months_days_eq.
  replace (cum_months (year_months md sy) (sm - 1) + (sd + 1) - 1)
    with (cum_months (year_months md sy) (sm - 1) + sd) by lia.
  set (so := cum_months (year_months md sy) (sm - 1) + sd) in *.
  rewrite !cal_from_ord_day_at.
  loop_first 1 (fun (i : Z) (_ : Z * Z) => i =? n) (fun (_ : Z) (x : Z * Z) => Ret (sy, fst x, snd x)).
  rewrite count_loop_from, year_days_from_length by lia.
  destruct ((0 <? n) && (n - 0 + so <=? get_days_in_year md sy)) eqn:C1.
  { finish_if. }
  cbv iota.
  destruct (sy <? y) eqn:Ey.
  - count_step n y. rewrite count_loop_year, year_days_length.
    match goal with |- context [if ((?s <? n) && ?c2) then Some _ else None] =>
      destruct ((s <? n) && c2) eqn:C2 end.
    { finish_if. }
    cbv iota. count_step n (y + 1). rewrite count_loop_year.
    finish_if.
  - count_step n (y + 1). rewrite count_loop_year.
    finish_if.
Qed.

(* date-matching loop over a whole year *)
Lemma first_hit_date_year {R} (r : Z -> Z * Z -> R) md y (c : bool) m d s :
  first_hit (fun _ x => c && (fst x =? m) && (snd x =? d)) r 1 (days_from 1 (year_months md y)) s =
  if c && (1 <=? m) && (m <=? 12) && (1 <=? d) && (d <=? znth (year_months md y) (m - 1))
  then Some (r (s + (cum_months (year_months md y) (m - 1) + d)) (m, d)) else None.
Proof.
  pose proof (first_hit_date_from r (year_months md y) 0 c m d s (year_months_nonneg md y)) as H.
  cbn [skipn] in H. rewrite H, year_months_length. change (Z.of_nat 12) with 12. change (Z.of_nat 0) with 0.
  pose proof (cum_months_nonneg _ (year_months_nonneg md y) (m - 1)).
  destruct (c && (1 <=? m) && (m <=? 12) && (1 <=? d) && (d <=? znth (year_months md y) (m - 1))) eqn:V.
  - replace (0 <? cum_months (year_months md y) (m - 1) + d) with true by lia. cbn [andb].
    eq_args.
  - reflexivity.
Qed.

(* ... and from position k (0-based) of the year on *)
Lemma first_hit_date_year_from {R} (r : Z -> Z * Z -> R) md y k (c : bool) m d s : 0 <= k ->
  first_hit (fun _ x => c && (fst x =? m) && (snd x =? d)) r 1
    (skipn (Z.to_nat k) (days_from 1 (year_months md y))) s =
  if c && (1 <=? m) && (m <=? 12) && (1 <=? d) && (d <=? znth (year_months md y) (m - 1))
       && (k <? cum_months (year_months md y) (m - 1) + d)
  then Some (r (s + (cum_months (year_months md y) (m - 1) + d - k)) (m, d)) else None.
Proof.
  intros Hk. rewrite (first_hit_date_from r _ _ c m d s (year_months_nonneg md y)), year_months_length.
  change (Z.of_nat 12) with 12. rewrite Z2Nat.id by lia. reflexivity.
Qed.

Lemma ord_from_cal_unfold md y m d :
  ord_from_cal md y m d =
  if (1 <=? m) && (m <=? 12) && (1 <=? d) && (d <=? znth (year_months md y) (m - 1))
  then Some (y, cum_months (year_months md y) (m - 1) + d) else None.
Proof. reflexivity. Qed.

Ltac date_step c m d wy :=
  loop_first 1 (fun (_ : Z) (x : Z * Z) => c && (fst x =? m) && (snd x =? d))
               (fun (i : Z) (_ : Z * Z) => Ret (wy, i / 7 + 1, i mod 7 + 1)).



(* one of the three candidate week-years: the loop from its start (sy, sm, sd),
   then the loops over the years sy + 1 and sy + 2; symbolic execution, loop by loop *)
Ltac date_step_any m d wy := first [ date_step true m d wy | date_step false m d wy ].
Ltac run_loops m d wy :=
  repeat first
    [ progress cbv iota
    | progress cbn [andb]
    | rewrite for_ret_cons; cbv beta
    | rewrite for_ret_nil
    | rewrite gen_iter_months_days_eq
    | date_step_any m d wy;
      rewrite ?first_hit_date_year_from, ?first_hit_date_year, ?year_days_from_length, ?year_days_length by lia
    | split_if ].

Ltac week_loops md y m d sy sm sd wy HS :=
  rewrite (start_shape_ord md sy sm sd HS), ord_from_cal_unfold;
  pose proof (start_shape_bounds md sy sm sd HS);
  pose proof (year_len_bounds md sy); pose proof (year_len_bounds md (sy + 1));
  rewrite (gen_iter_months_days_from_eq md sy sm sd (or_introl HS));
  destruct (sy =? y) eqn:E1; destruct (sy + 1 =? y) eqn:E2; destruct (sy + 2 =? y) eqn:E3;
  try (exfalso; lia);
  try (apply Z.eqb_eq in E1; rewrite E1 in * );
  try (apply Z.eqb_eq in E2; rewrite E2 in * );
  try (apply Z.eqb_eq in E3; rewrite E3 in * );
  run_loops m d wy; try (exfalso; lia); eq_args.

(* ---------- get_week_date_from_calendar_date ---------- *)
(* for every year, month and day (ValueError exactly where the model says None) *)
Lemma gen_get_week_date_from_calendar_date_eq md y m d :
  py_get_week_date_from_calendar_date (DAYS_IN_YEAR md) (DAYS_IN_YEAR_LEAP md)
    (idx_months md) (idx_months_leap md) y m d =
  match week_from_cal md y m d with Some r => Ret r | None => Abn RaiseValueError end.
Proof.
  unfold py_get_week_date_from_calendar_date, week_from_cal. cbv zeta.
  rewrite !gen_get_calendar_date_week_date_start_eq. cbv beta iota.
  pose proof (week_date_start_shape md (y - 1)) as HP.
  pose proof (week_date_start_shape md y) as HT.
  pose proof (week_date_start_shape md (y + 1)) as HN.
  destruct (week_date_start md (y - 1)) as [[py pm] pd].
  destruct (week_date_start md y) as [[ty tm] td].
  destruct (week_date_start md (y + 1)) as [[ny nm] nd].
  destruct HP as [_ HP]. destruct HT as [_ HT]. destruct HN as [_ HN].
  cbv [triple_leb triple_ltb tup3_ltb]. cbv beta iota.
  split_if; [|split_if]; cbv beta iota.
  - week_loops md y m d py pm pd (y - 1) HP.
  - week_loops md y m d ty tm td y HT.
  - week_loops md y m d ny nm nd (y + 1) HN.
Qed.

(* ---------- get_ordinal_date_from_week_date, get_week_date_from_ordinal_date ---------- *)
Lemma gen_get_ordinal_date_from_week_date_eq md y w d :
  py_get_ordinal_date_from_week_date (DAYS_IN_YEAR md) (DAYS_IN_YEAR_LEAP md)
    (idx_months md) (idx_months_leap md) y w d =
  match ord_from_week md y w d with Some r => Ret r | None => Abn RaiseValueError end.
Proof.
  unfold py_get_ordinal_date_from_week_date, ord_from_week.
  rewrite gen_get_calendar_date_from_week_date_eq.
  destruct (cal_from_week md y w d) as [[[cy cm] cd]|]; cbv beta iota; [|reflexivity].
  apply gen_get_ordinal_date_from_calendar_date_eq.
Qed.

Lemma gen_get_week_date_from_ordinal_date_eq md y doy :
  py_get_week_date_from_ordinal_date (DAYS_IN_YEAR md) (DAYS_IN_YEAR_LEAP md)
    (idx_months md) (idx_months_leap md) y doy =
  match week_from_ord md y doy with Some r => Ret r | None => Abn RaiseValueError end.
Proof.
  unfold py_get_week_date_from_ordinal_date, week_from_ord.
  rewrite gen_get_calendar_date_from_ordinal_date_eq.
  destruct (cal_from_ord md y doy) as [[[cy cm] cd]|]; cbv beta iota; [|reflexivity].
  apply gen_get_week_date_from_calendar_date_eq.
Qed.

(* ---------- on their domains, the four week conversions return (Spec/Cal.v day numbers) ---------- *)
Lemma gen_get_week_date_from_calendar_date_domain md y m d : valid_cal md y m d = true ->
  exists wy w wd,
  py_get_week_date_from_calendar_date (DAYS_IN_YEAR md) (DAYS_IN_YEAR_LEAP md)
    (idx_months md) (idx_months_leap md) y m d = Ret (wy, w, wd) /\
  valid_week md wy w wd = true /\ dn_week md wy w wd = dn_cal md y m d.
Proof.
  intros V. destruct (week_from_cal_spec md y m d V) as (wy & w & wd & H1 & H2 & H3).
  exists wy, w, wd. rewrite gen_get_week_date_from_calendar_date_eq, H1. auto.
Qed.

Lemma gen_get_calendar_date_from_week_date_domain md wy w wd : valid_week md wy w wd = true ->
  exists y m d,
  py_get_calendar_date_from_week_date (DAYS_IN_YEAR md) (DAYS_IN_YEAR_LEAP md)
    (idx_months md) (idx_months_leap md) wy w wd = Ret (y, m, d) /\
  valid_cal md y m d = true /\ dn_cal md y m d = dn_week md wy w wd.
Proof.
  intros V. destruct (cal_from_week_spec md wy w wd V) as (y & m & d & H1 & H2 & H3).
  exists y, m, d. rewrite gen_get_calendar_date_from_week_date_eq, H1. auto.
Qed.

Lemma gen_get_ordinal_date_from_week_date_domain md wy w wd : valid_week md wy w wd = true ->
  exists y doy,
  py_get_ordinal_date_from_week_date (DAYS_IN_YEAR md) (DAYS_IN_YEAR_LEAP md)
    (idx_months md) (idx_months_leap md) wy w wd = Ret (y, doy) /\
  valid_ord md y doy = true /\ dn_ord md y doy = dn_week md wy w wd.
Proof.
  intros V. destruct (ord_from_week_spec md wy w wd V) as (y & doy & H1 & H2 & H3).
  exists y, doy. rewrite gen_get_ordinal_date_from_week_date_eq, H1. auto.
Qed.

Lemma gen_get_week_date_from_ordinal_date_domain md y doy : valid_ord md y doy = true ->
  exists wy w wd,
  py_get_week_date_from_ordinal_date (DAYS_IN_YEAR md) (DAYS_IN_YEAR_LEAP md)
    (idx_months md) (idx_months_leap md) y doy = Ret (wy, w, wd) /\
  valid_week md wy w wd = true /\ dn_week md wy w wd = dn_ord md y doy.
Proof.
  intros V. destruct (week_from_ord_spec md y doy V) as (wy & w & wd & H1 & H2 & H3).
  exists wy, w, wd. rewrite gen_get_week_date_from_ordinal_date_eq, H1. auto.
Qed.

(* no division by zero in the covered bodies: the only divisor is DAYS_IN_WEEK *)
Lemma gen_code2_divisors_nonzero : 0 < DAYS_IN_WEEK.
Proof. reflexivity. Qed.

(* a generated function applied to the CALENDAR attributes of mode md (for examples) *)
Definition c2 {A} (f : Z -> Z -> list (Z * Z) -> list (Z * Z) -> A) (md : mode) : A :=
  f (DAYS_IN_YEAR md) (DAYS_IN_YEAR_LEAP md) (idx_months md) (idx_months_leap md).
Definition c1 {A} (f : list (Z * Z) -> list (Z * Z) -> A) (md : mode) : A :=
  f (idx_months md) (idx_months_leap md).
