(* Proofs/NextMatchSpec.v -- Spec/NextMatch.v is well defined: the date of a
   day number inverts the day-number functions of Spec/Cal.v in all three
   representations, and next_match is the lexicographically least matching
   (day, second of day) at or after its start. *)
From Coq Require Import QArith Qround List.
From Iso Require Import Proofs.Tac Spec.Cal Spec.Instant Spec.NextMatch Model.Num Proofs.HelpersSpec Proofs.ConvSpec.
Open Scope Z_scope.

Lemma year_est md n :
  let y0 := match md with
            | G => (n * 400) / 146097 | D360 => n / 360 | D365 => n / 365 | D366 => n / 366 end in
  dby md (y0 - 1) <= n < dby md (y0 + 3).
Proof.
  destruct md; cbn [dby]; cbv zeta; lia.
Qed.

Lemma year_of_dn_spec md n : dby md (year_of_dn md n) <= n < dby md (year_of_dn md n + 1).
Proof.
  unfold year_of_dn. cbv zeta.
  set (y0 := match md with G => _ | D360 => _ | D365 => _ | D366 => _ end).
  pose proof (year_est md n) as H. cbv zeta in H. fold y0 in H.
  pose proof (dby_succ md (y0 - 1)) as S0. pose proof (ylen_bounds md (y0 - 1)).
  pose proof (dby_succ md y0) as S1. pose proof (ylen_bounds md y0).
  pose proof (dby_succ md (y0 + 1)) as S2. pose proof (ylen_bounds md (y0 + 1)).
  pose proof (dby_succ md (y0 + 2)) as S3. pose proof (ylen_bounds md (y0 + 2)).
  replace (y0 - 1 + 1) with y0 in * by lia.
  replace (y0 + 1 + 1) with (y0 + 2) in * by lia.
  replace (y0 + 2 + 1) with (y0 + 3) in * by lia.
  clearbody y0.
  destruct (dby md (y0 + 1) <=? n) eqn:E1.
  - replace (y0 + 1 + 1) with (y0 + 2) in * by lia.
    destruct (dby md (y0 + 2) <=? n) eqn:E2.
    + destruct (n <? dby md (y0 + 2)) eqn:E3; [lia|]. rewrite E3.
      replace (y0 + 2 + 1) with (y0 + 3) by lia. lia.
    + destruct (n <? dby md (y0 + 1)) eqn:E3; [lia|]. rewrite E3.
      replace (y0 + 1 + 1) with (y0 + 2) by lia. lia.
  - rewrite E1. destruct (n <? dby md y0) eqn:E3.
    + destruct (n <? dby md (y0 - 1)) eqn:E4; [lia|].
      replace (y0 - 1 + 1) with y0 by lia. lia.
    + rewrite E3. lia.
Qed.

Lemma month_of_doy_spec md y doy : forall k m, 1 <= m -> m + Z.of_nat k = 12 ->
  cum md y (m - 1) < doy <= cum md y 12 ->
  let '(m', d') := month_of_doy md y k m doy in
  m <= m' <= 12 /\ cum md y (m' - 1) < doy <= cum md y m' /\ d' = doy - cum md y (m' - 1).
Proof.
  induction k as [|k IH]; intros m Hm Hk Hd; cbn [month_of_doy].
  - assert (m = 12) by lia. subst m. repeat split; lia.
  - destruct (doy <=? cum md y m) eqn:E.
    + repeat split; lia.
    + specialize (IH (m + 1) ltac:(lia) ltac:(lia)).
      replace (m + 1 - 1) with m in IH by lia. specialize (IH ltac:(lia)).
      destruct (month_of_doy md y k (m + 1) doy) as [m' d']. lia.
Qed.

Lemma ord_of_dn_spec md n :
  let '(y, doy) := ord_of_dn md n in valid_ord md y doy = true /\ dn_ord md y doy = n.
Proof.
  unfold ord_of_dn. cbv zeta. pose proof (year_of_dn_spec md n) as H.
  rewrite dby_succ in H. unfold valid_ord, dn_ord. split; lia.
Qed.

Lemma cal_of_dn_spec md n :
  let '(y, m, d) := cal_of_dn md n in valid_cal md y m d = true /\ dn_cal md y m d = n.
Proof.
  unfold cal_of_dn. pose proof (ord_of_dn_spec md n) as H.
  destruct (ord_of_dn md n) as [y doy]. destruct H as [V D].
  unfold valid_ord in V. unfold dn_ord in D.
  pose proof (month_of_doy_spec md y doy 11 1 ltac:(lia) ltac:(lia)) as M.
  change (1 - 1) with 0 in M. rewrite cum_0, cum_12 in M. specialize (M ltac:(lia)).
  destruct (month_of_doy md y 11 1 doy) as [m d]. destruct M as (M1 & M2 & M3).
  pose proof (cum_step md y m ltac:(lia)).
  unfold valid_cal, dn_cal. split; lia.
Qed.

Lemma week_of_dn_spec md n :
  let '(wy, w, d) := week_of_dn md n in valid_week md wy w d = true /\ dn_week md wy w d = n.
Proof.
  unfold week_of_dn. cbv zeta. pose proof (year_of_dn_spec md n) as H.
  set (y := year_of_dn md n) in *. clearbody y.
  set (wy := if wys md (y + 1) <=? n then y + 1 else if n <? wys md y then y - 1 else y).
  assert (W : wys md wy <= n < wys md (wy + 1)).
  { unfold wy. destruct (wys md (y + 1) <=? n) eqn:E1.
    - pose proof (wys_bounds md (y + 1 + 1)). pose proof (dby_lt md (y + 1) (y + 1 + 1) ltac:(lia)). lia.
    - destruct (n <? wys md y) eqn:E2.
      + replace (y - 1 + 1) with y by lia.
        pose proof (wys_bounds md (y - 1)). pose proof (dby_lt md (y - 1) y ltac:(lia)). lia.
      + lia. }
  clearbody wy. destruct (weeks_in_spec md wy) as (HW & HB).
  unfold valid_week, dn_week. split; lia.
Qed.

Lemma date_of_dn_spec : forall md n,
  (let '(y, doy) := ord_of_dn md n in valid_ord md y doy = true /\ dn_ord md y doy = n) /\
  (let '(y, m, d) := cal_of_dn md n in valid_cal md y m d = true /\ dn_cal md y m d = n) /\
  (let '(wy, w, d) := week_of_dn md n in valid_week md wy w d = true /\ dn_week md wy w d = n).
Proof.
  intros md n. split; [apply ord_of_dn_spec|]. split; [apply cal_of_dn_spec | apply week_of_dn_spec].
Qed.
Print Assumptions date_of_dn_spec.
Definition lex_le (a b : Z * Z) : Prop := fst a < fst b \/ (fst a = fst b /\ snd a <= snd b).

Section Search.
  Variable P : Z -> bool.
  Definition sstep (st : Z * option Z) : Z * option Z :=
    match snd st with
    | Some _ => st
    | None => if P (fst st) then (fst st, Some (fst st)) else (fst st + 1, None)
    end.
  Lemma sstep_iter n0 p :
    let st := Pos.iter sstep (n0, None) p in
    match snd st with
    | None => fst st = n0 + Z.pos p /\ forall k, n0 <= k < n0 + Z.pos p -> P k = false
    | Some n => n0 <= n < n0 + Z.pos p /\ P n = true /\ forall k, n0 <= k < n -> P k = false
    end.
  Proof.
    induction p using Pos.peano_ind; cbv zeta.
    - cbn [Pos.iter]. unfold sstep. cbn [fst snd]. destruct (P n0) eqn:E; cbn [fst snd].
      + repeat split; try lia. exact E.
      + split; [lia|]. intros k Hk. assert (k = n0) by lia. subst k. exact E.
    - rewrite Pos.iter_succ. cbv zeta in IHp.
      destruct (Pos.iter sstep (n0, None) p) as [a [x|]]; cbn [fst snd] in *.
      + unfold sstep. cbn [fst snd]. destruct IHp as (A & B & C). repeat split; try assumption; lia.
      + unfold sstep. cbn [fst snd]. destruct IHp as (A & B). destruct (P a) eqn:E; cbn [fst snd].
        * subst a. repeat split; try lia; assumption.
        * split; [lia|]. intros k Hk. destruct (Z.eq_dec k a) as [->|N]; [exact E|]. apply B. lia.
  Qed.

  Definition bstep (st : Z * option Z) : Z * option Z :=
    match snd st with
    | Some _ => st
    | None => if 86400 <=? fst st then st
              else if P (fst st) then (fst st, Some (fst st)) else (fst st + 1, None)
    end.
  Lemma bstep_iter s0 p :
    let st := Pos.iter bstep (s0, None) p in
    match snd st with
    | None => (fst st = s0 + Z.pos p \/ 86400 <= fst st) /\ forall k, s0 <= k < fst st -> P k = false
    | Some x => s0 <= x < 86400 /\ P x = true /\ forall k, s0 <= k < x -> P k = false
    end.
  Proof.
    induction p using Pos.peano_ind; cbv zeta.
    - cbn [Pos.iter]. unfold bstep. cbn [fst snd]. destruct (86400 <=? s0) eqn:E0; cbn [fst snd].
      + split; [lia|]. intros; lia.
      + destruct (P s0) eqn:E; cbn [fst snd].
        * repeat split; try lia. exact E.
        * split; [lia|]. intros k Hk. assert (k = s0) by lia. subst k. exact E.
    - rewrite Pos.iter_succ. cbv zeta in IHp.
      destruct (Pos.iter bstep (s0, None) p) as [a [x|]]; cbn [fst snd] in *.
      + unfold bstep. cbn [fst snd]. exact IHp.
      + unfold bstep. cbn [fst snd]. destruct IHp as (A & B).
        destruct (86400 <=? a) eqn:E0; cbn [fst snd].
        * split; [lia|exact B].
        * destruct (P a) eqn:E; cbn [fst snd].
          -- destruct A as [A|A]; [|lia]. subst a. repeat split; try lia; assumption.
          -- split; [lia|]. intros k Hk. destruct (Z.eq_dec k a) as [->|N]; [exact E|]. apply B. lia.
  Qed.
End Search.

Lemma next_day_spec md s n0 h : 0 < h ->
  match next_day md s n0 h with
  | Some n => n0 <= n < n0 + h /\ day_matches md s n = true /\ forall k, n0 <= k < n -> day_matches md s k = false
  | None => forall k, n0 <= k < n0 + h -> day_matches md s k = false
  end.
Proof.
  intros Hh. unfold next_day.
  pose proof (sstep_iter (day_matches md s) n0 (Z.to_pos h)) as H. cbv zeta in H.
  change (fun st : Z * option Z => match snd st with Some _ => st | None =>
            if day_matches md s (fst st) then (fst st, Some (fst st)) else (fst st + 1, None) end)
    with (sstep (day_matches md s)).
  rewrite Z2Pos.id in H by lia.
  destruct (snd (Pos.iter (sstep (day_matches md s)) (n0, None) (Z.to_pos h))); [exact H | apply H].
Qed.

Lemma next_sod_spec t s0 : 0 <= s0 ->
  match next_sod t s0 with
  | Some x => s0 <= x < 86400 /\ sod_matches t x = true /\ forall k, s0 <= k < x -> sod_matches t k = false
  | None => forall k, s0 <= k < 86400 -> sod_matches t k = false
  end.
Proof.
  intros Hs. unfold next_sod.
  pose proof (bstep_iter (sod_matches t) s0 86401) as H. cbv zeta in H.
  change (fun st : Z * option Z => match snd st with Some _ => st | None =>
            if 86400 <=? fst st then st else
            if sod_matches t (fst st) then (fst st, Some (fst st)) else (fst st + 1, None) end)
    with (bstep (sod_matches t)).
  destruct (snd (Pos.iter (bstep (sod_matches t)) (s0, None) 86401)); [exact H|].
  destruct H as [A B]. intros k Hk. apply B. lia.
Qed.

Lemma next_match_least : forall md d t n0 sod0 horizon n x,
  0 < horizon -> 0 <= sod0 < 86400 ->
  next_match md d t n0 sod0 horizon = Some (n, x) ->
  lex_le (n0, sod0) (n, x) /\ day_matches md d n = true /\
  (if has_time t then sod_matches t x = true /\ 0 <= x < 86400 else x = sod0) /\
  (forall n' x', lex_le (n0, sod0) (n', x') -> n' <= n0 + horizon -> 0 <= x' < 86400 ->
     day_matches md d n' = true -> (if has_time t then sod_matches t x' = true else x' = sod0) ->
     lex_le (n, x) (n', x')).
Proof.
  intros md d t n0 sod0 h n x Hh Hs. unfold next_match, lex_le. cbn [fst snd].
  destruct (has_time t) eqn:Ht.
  - pose proof (next_sod_spec t sod0 (proj1 Hs)) as S0.
    pose proof (next_sod_spec t 0 (Z.le_refl 0)) as S1.
    pose proof (next_day_spec md d (n0 + 1) h Hh) as D1.
    revert S0 S1 D1.
    generalize (next_sod t sod0) (next_sod t 0) (next_day md d (n0 + 1) h). intros ns0 ns1 nd1 S0 S1 D1.
    destruct (if day_matches md d n0 then ns0 else None) as [x0|] eqn:E0.
    + intros E. injection E as <- <-.
      destruct (day_matches md d n0) eqn:Ed; [|discriminate E0]. rewrite E0 in S0.
      destruct S0 as (A & B & C).
      split; [lia|]. split; [reflexivity|]. split; [split; [exact B|lia]|].
      intros n' x' L Hn Hx Dm Sm.
      destruct (Z_lt_le_dec n0 n') as [G|G]; [left; exact G|right].
      split; [lia|]. destruct (Z_lt_le_dec x' x0) as [G'|G']; [|exact G'].
      rewrite C in Sm by lia. discriminate Sm.
    + destruct nd1 as [n1|]; [|discriminate].
      destruct ns1 as [x1|]; [|discriminate].
      intros E. injection E as <- <-.
      destruct D1 as (A & B & C). destruct S1 as (A' & B' & C').
      split; [lia|]. split; [exact B|]. split; [split; [exact B'|lia]|].
      intros n' x' L Hn Hx Dm Sm.
      assert (n0 < n').
      { destruct (Z_lt_le_dec n0 n') as [G|G]; [exact G|exfalso].
        assert (n' = n0) by lia. subst n'. rewrite Dm in E0. rewrite E0 in S0.
        rewrite S0 in Sm by lia. discriminate Sm. }
      destruct (Z_lt_le_dec n' n1) as [G|G].
      { rewrite C in Dm by lia. discriminate Dm. }
      destruct (Z_lt_le_dec n1 n') as [G1|G1]; [left; exact G1|right].
      split; [lia|]. destruct (Z_lt_le_dec x' x1) as [G'|G']; [|exact G'].
      rewrite C' in Sm by lia. discriminate Sm.
  - pose proof (next_day_spec md d n0 h Hh) as D1.
    revert D1. generalize (next_day md d n0 h). intros nd1 D1.
    destruct nd1 as [n1|]; [|discriminate].
    intros E. injection E as <- <-. destruct D1 as (A & B & C).
    split; [lia|]. split; [exact B|]. split; [reflexivity|].
    intros n' x' L Hn Hx Dm Sm. subst x'.
    destruct (Z_lt_le_dec n' n1) as [G|G].
    { rewrite C in Dm by lia. discriminate Dm. }
    lia.
Qed.
Print Assumptions next_match_least.

(* the converse: a least match within the horizon is what next_match returns *)
Lemma next_match_intro : forall md d t n0 sod0 h n x,
  0 < h -> 0 <= sod0 < 86400 -> has_time t = true ->
  lex_le (n0, sod0) (n, x) -> n <= n0 + h -> 0 <= x < 86400 ->
  day_matches md d n = true -> sod_matches t x = true ->
  (forall n' x', lex_le (n0, sod0) (n', x') -> n' <= n0 + h -> 0 <= x' < 86400 ->
     day_matches md d n' = true -> sod_matches t x' = true -> lex_le (n, x) (n', x')) ->
  next_match md d t n0 sod0 h = Some (n, x).
Proof.
  intros md d t n0 sod0 h n x Hh Hs Ht L Hn Hx Dm Sm Least. unfold next_match. rewrite Ht.
  unfold lex_le in *. cbn [fst snd] in *.
  pose proof (next_sod_spec t sod0 (proj1 Hs)) as S0.
  pose proof (next_sod_spec t 0 (Z.le_refl 0)) as S1.
  pose proof (next_day_spec md d (n0 + 1) h Hh) as D1.
  revert S0 S1 D1.
  generalize (next_sod t sod0) (next_sod t 0) (next_day md d (n0 + 1) h). intros ns0 ns1 nd1 S0 S1 D1.
  destruct (if day_matches md d n0 then ns0 else None) as [x0|] eqn:E0.
  - destruct (day_matches md d n0) eqn:Ed; [|discriminate E0]. rewrite E0 in S0.
    destruct S0 as (A & B & C).
    specialize (Least n0 x0 ltac:(lia) ltac:(lia) ltac:(lia) Ed B).
    assert (n = n0) by lia. subst n.
    destruct (Z_lt_le_dec x x0) as [G|G]; [rewrite C in Sm by lia; discriminate Sm|].
    assert (x = x0) by lia. subst x0. reflexivity.
  - assert (n0 < n).
    { destruct (Z_lt_le_dec n0 n) as [G|G]; [exact G|exfalso].
      assert (n = n0) by lia. subst n. rewrite Dm in E0. rewrite E0 in S0.
      rewrite S0 in Sm by lia. discriminate Sm. }
    destruct nd1 as [n1|].
    2:{ rewrite D1 in Dm by lia. discriminate Dm. }
    destruct ns1 as [x1|].
    2:{ rewrite S1 in Sm by lia. discriminate Sm. }
    destruct D1 as (A & B & C). destruct S1 as (A' & B' & C').
    specialize (Least n1 x1 ltac:(lia) ltac:(lia) ltac:(lia) B B').
    destruct (Z_lt_le_dec n n1) as [G|G]; [rewrite C in Dm by lia; discriminate Dm|].
    assert (n = n1) by lia. subst n1.
    destruct (Z_lt_le_dec x x1) as [G'|G']; [rewrite C' in Sm by lia; discriminate Sm|].
    assert (x = x1) by lia. subst x1. reflexivity.
Qed.
Print Assumptions next_match_intro.
