(* Proofs/DecodeRoundSpec.v -- property C07, dump_as_parsed, the theorem: the
   point parsed from  date "T" time zone  (complete date form, non-truncated
   time form, any allowed zone form or none) with dump_as_parsed is written
   back by its own dump format as the input text, a decimal fraction in the
   dumper's form (no trailing zeros).  Pieces in Proofs/DecodeDumpSpec.v. *)
From Coq Require Import ZArith QArith Qround Lqa List Bool String Ascii Lia.
From Iso Require Import Proofs.Tac Spec.Cal Spec.Instant Model.Num Model.Helpers Model.Duration Model.TimePoint
  Model.Forms Model.Parse Model.Dump Spec.FormText Proofs.MatchSpec gen.Grammar Model.DriverText
  Proofs.HelpersSpec Proofs.ConvSpec Proofs.TickSpec Proofs.AddSpec Proofs.ZoneSpec Proofs.CmpSpec Proofs.ConstructSpec
  Proofs.RoundTripSpec Proofs.DecodeSpec Proofs.DecodeDumpSpec.
Import ListNotations.
Close Scope Q_scope.
Close Scope Z_scope.
Local Open Scope string_scope.

Lemma asp_tables : forall cfg fd ft zo bf, In (c_ned cfg) [0; 2; 3]%Z ->
  In fd (date_forms_of (c_ned cfg)) -> f_type fd = "complete" ->
  (c_ned cfg = 0%Z -> binds "expanded_year" (f_parse fd) = false) ->
  In ft TIME_FORMS -> not_trunc ft = true -> In zo (zone_choices cfg bf ft) ->
  asp_ok (x_ned cfg (f_parse fd)) fd ft zo = true.
Proof.
  intros cfg fd ft zo bf N ID TY EX IT NT IZ.
  pose proof tables_asp as T. rewrite forallb_forall in T. specialize (T (c_ned cfg) N).
  rewrite forallb_forall in T. specialize (T fd ID). rewrite TY in T. cbn [String.eqb Ascii.eqb Bool.eqb negb orb] in T.
  assert (E0 : (c_ned cfg =? 0)%Z && binds "expanded_year" (f_parse fd) = false).
  { destruct (c_ned cfg =? 0)%Z eqn:Q; [|reflexivity]. apply Z.eqb_eq in Q. rewrite (EX Q). reflexivity. }
  rewrite E0 in T. cbn [orb] in T. rewrite forallb_forall in T. specialize (T ft IT). rewrite NT in T.
  cbn [negb orb] in T. rewrite forallb_forall in T. apply T.
  unfold all_zos. destruct zo as [fz|]; [right|left; reflexivity].
  unfold zone_choices in IZ. apply in_app_or in IZ. destruct IZ as [IZ|IZ].
  - destruct (String.eqb (f_type ft) "truncated"); [destruct IZ|]. destruct IZ as [IZ|[]]. discriminate.
  - apply in_map_iff in IZ. destruct IZ as [x [E IZ]]. inversion E; subst x.
    apply in_map. apply (zone_search_In _ _ _ _ IZ).
Qed.

(* the date conversion step of the dumper leaves the decoded point alone *)
Lemma x_date_wk : forall dt ad, date_full_shape dt = true -> binds "week_of_year" dt = true ->
  exists w dd, x_date dt ad = Wk (x_year dt ad) w dd.
Proof.
  intros dt ad S B. unfold date_full_shape in S. cbv zeta in S. apply andb_true_iff in S. destruct S as [_ Sh].
  unfold x_date. cbv zeta. destruct (binds "day_of_year" dt).
  - rewrite B, !andb_false_r in Sh. cbn [andb] in Sh. discriminate Sh.
  - rewrite B. eexists. eexists. reflexivity.
Qed.
Lemma x_date_notwk : forall dt ad, binds "week_of_year" dt = false ->
  match x_date dt ad with Wk _ _ _ => false | _ => true end = true.
Proof. intros dt ad B. unfold x_date. cbv zeta. destruct (binds "day_of_year" dt); [reflexivity|]. rewrite B. reflexivity. Qed.

Lemma p1_same : forall md d t z (wk cal : bool),
  (wk = true -> cal = false /\ exists y w dd, d = Wk y w dd) ->
  (wk = false -> match d with Wk _ _ _ => false | _ => true end = true) ->
  (if wk then
     if negb cal
     then match to_week_date md (tdate (mkTp d t z)) with Some d' => Some (with_date (mkTp d t z) d') | None => None end
     else Some (mkTp d t z)
   else if (match tdate (mkTp d t z) with Wk _ _ _ => true | _ => false end) && cal
        then match to_calendar_date md (tdate (mkTp d t z)) with Some d' => Some (with_date (mkTp d t z) d') | None => None end
        else Some (mkTp d t z)) = Some (mkTp d t z).
Proof.
  intros md d t z wk cal A B. destruct wk.
  - destruct (A eq_refl) as (-> & y & w & dd & ->). reflexivity.
  - specialize (B eq_refl). destruct d; try discriminate B; reflexivity.
Qed.

(* the year of the decoded point is inside the dumper's bounds *)
Lemma year_bounds : forall cfg dt ad, In (c_ned cfg) [0; 2; 3]%Z ->
  date_full_shape dt = true -> date_names_ok dt = true -> wf_assign dt ad = true ->
  (c_ned cfg = 0%Z -> binds "expanded_year" dt = false) ->
  forallb (fun t => match t with
                    | PDig nm w => negb (String.eqb nm "expanded_year") || (Z.of_nat w =? x_ned cfg dt)%Z
                    | _ => true end) dt = true ->
  let y := x_year dt ad in let ex := binds "expanded_year" dt in let ned := x_ned cfg dt in
  (true && (negb ex || (ned =? 0)%Z) && negb ((0 <=? y)%Z && (y <=? 9999)%Z) ||
   ex && negb (Z.abs y <=? 10 ^ (ned + 4) - 1)%Z) = false.
Proof.
  intros cfg dt ad N S NO W EX WD. cbv zeta.
  pose proof S as S'. unfold date_full_shape in S'. cbv zeta in S'.
  apply andb_true_iff in S'. destruct S' as [S1 Sh]. apply andb_true_iff in S1. destruct S1 as [S1 K].
  apply andb_true_iff in S1. destruct S1 as [S1 Ns]. apply andb_true_iff in S1. destruct S1 as [S1 Bd].
  apply andb_true_iff in S1. destruct S1 as [Bt Bc].
  pose proof NO as NO'. unfold date_names_ok in NO'.
  apply andb_true_iff in NO'. destruct NO' as [NF SE]. apply eqb_prop in SE.
  set (Y := fval "year_of_century" dt ad). set (Cc := fval "century" dt ad). set (X := fval "expanded_year" dt ad).
  assert (RY : (0 <= Y < 100)%Z) by (apply two_digit_key; try assumption; simpl; auto).
  assert (RC : (0 <= Cc < 100)%Z) by (apply two_digit_key; try assumption; simpl; auto).
  assert (RX : (0 <= X)%Z) by (apply (fval_nonneg DATE_KEYS); try assumption; in_keys).
  assert (AY : Z.abs (x_year dt ad) = (Y + 100 * Cc + 10000 * X)%Z) by (unfold x_year; apply abs_signed; lia).
  unfold x_ned in *. destruct (binds "expanded_year" dt) eqn:BX; cbn [negb orb andb].
  - (* expanded year: the digits fit *)
    destruct (binds_In _ _ BX) as [t [I T]].
    rewrite forallb_forall in WD. pose proof (WD t I) as WT.
    unfold num_keys_ok in K. rewrite forallb_forall in K. pose proof (K t I) as KT.
    rewrite forallb_forall in NF. pose proof (NF t I) as NT.
    destruct t as [l|nm w|nm|nm|nm l|nm]; cbn [tok_name] in T; inversion T; subst nm; try discriminate NT.
    2:{ cbn in KT. discriminate KT. }
    cbn [String.eqb Ascii.eqb Bool.eqb negb orb] in WT. apply Z.eqb_eq in WT.
    pose proof (digits_n_range w _ (wf_In_dig dt ad "expanded_year" w W I)) as RW.
    rewrite <- (fval_bound _ _ _ BX) in RW. fold X in RW. rewrite WT in RW.
    rewrite AY.
    assert (NE : c_ned cfg <> 0%Z) by (intros Q; specialize (EX Q); discriminate EX).
    destruct N as [Q|[Q|[Q|[]]]]; rewrite <- Q in *; try congruence.
    + change (10 ^ 2)%Z with 100%Z in RW. change (10 ^ (2 + 4) - 1)%Z with 999999%Z. cbn [Z.eqb]. lia.
    + change (10 ^ 3)%Z with 1000%Z in RW. change (10 ^ (3 + 4) - 1)%Z with 9999999%Z. cbn [Z.eqb]. lia.
  - (* plain year *)
    rewrite andb_false_r || idtac. cbn [Z.eqb orb andb].
    assert (YS : fget "year_sign" dt ad = None) by (unfold fget; rewrite SE; reflexivity).
    assert (X0 : X = 0%Z) by (unfold X; apply fval_unbound; exact BX).
    unfold x_year. rewrite YS. cbn [signed]. fold Y Cc X. rewrite X0. lia.
Qed.

(* THE DUMP of the decoded point with the as-parsed format *)
Theorem dump_decoded : forall md cfg fd ft zo ad atm az,
  In (c_ned cfg) [0; 2; 3]%Z ->
  asp_ok (x_ned cfg (f_parse fd)) fd ft zo = true ->
  date_full_shape (f_parse fd) = true -> time_full_shape (f_parse ft) = true -> zo_shape zo = true ->
  (c_ned cfg = 0%Z -> binds "expanded_year" (f_parse fd) = false) ->
  wf_assign (f_parse fd) ad = true -> wf_assign (f_parse ft) atm = true -> zo_wf zo az = true ->
  (fget "year_sign" (f_parse fd) ad = Some "-" -> x_year (f_parse fd) ad <> 0%Z) ->
  (fget "time_zone_sign" (zo_parse zo) az = Some "-" -> x_zone cfg zo az <> mkZone 0 0) ->
  dec_fits (f_parse ft) atm = true ->
  let q := mkTp (x_date (f_parse fd) ad) (x_tod (f_parse ft) atm) (x_zone cfg zo az) in
  do_dump md (x_ned cfg (f_parse fd)) q (f_expr fd ++ "T" ++ f_expr ft ++ zo_expr zo) =
  DOk (render_toks (f_parse fd) ad ++ "T" ++ render_toks (f_parse ft) (canon_env atm) ++ zo_text zo az).
Proof.
  intros md cfg fd ft zo ad atm az N A Sd St Sz EX Wd Wt Wz NZy NZz DF q.
  unfold asp_ok in A. cbv zeta in A.
  repeat match type of A with _ && _ = true => let X := fresh "A" in apply andb_true_iff in A; destruct A as [A X] end.
  apply negb_true_iff in A.
  set (fmt := f_expr fd ++ "T" ++ f_expr ft ++ zo_expr zo) in *.
  set (ned := x_ned cfg (f_parse fd)) in *.
  destruct (expression_of (date_forms_of ned) TIME_FORMS ZONE_FORMS zone_of_text fmt) as [[[[tmpl pr] cz]|]|] eqn:EO;
    try discriminate.
  repeat match goal with X : _ && _ = true |- _ => apply andb_true_iff in X; destruct X end.
  repeat match goal with
         | X : dtoks_eqb _ _ = true |- _ => apply dtoks_eqb_eq in X
         | X : strs_eqb _ _ = true |- _ => apply strs_eqb_eq in X
         | X : opt_zz_eqb _ _ = true |- _ => apply opt_zz_eqb_eq in X
         | X : Bool.eqb _ _ = true |- _ => apply eqb_prop in X
         end.
  subst tmpl pr cz.
  unfold do_dump. rewrite A. unfold dump. rewrite A. fold ned. rewrite EO.
  set (props := (f_props fd ++ f_props ft ++ zo_props zo)%list) in *.
  set (cal := mem "month_of_year" props || mem "day_of_month" props || mem "day_of_year" props) in *.
  rewrite (dump_with_flags ned md q _ props (zo_cz zo) (binds "week_of_year" (f_parse fd)) cal true
             (binds "expanded_year" (f_parse fd))) by (try assumption; reflexivity).
  cbv zeta. unfold q at 1 2 3 4 5 6 7.
  rewrite p1_same.
  2:{ intros B. split.
      - match goal with X : implb _ _ = true |- _ => rewrite B in X; cbn [implb] in X; apply negb_true_iff in X; exact X end.
      - destruct (x_date_wk _ ad Sd B) as (w & dd & E). eauto. }
  2:{ intros B. apply x_date_notwk. exact B. }
  fold q.
  assert (P0 : match zo_cz zo with Some (h, m) => negb (valid_zone (mkZone h m)) | None => false end = false).
  { destruct zo as [fz|]; cbn [zo_cz]; [|reflexivity].
    destruct (binds "time_zone_utc" (f_parse fz)); reflexivity. }
  rewrite P0.
  assert (P2 : match zo_cz zo with Some (h, m) => to_time_zone md q (mkZone h m) | None => Some q end = Some q).
  { destruct zo as [fz|]; cbn [zo_cz]; [|reflexivity].
    destruct (binds "time_zone_utc" (f_parse fz)) eqn:U; [|reflexivity].
    unfold q. cbn [x_zone]. rewrite U. apply to_time_zone_same_utc. }
  rewrite P2.
  assert (DY : date_year (tdate q) = x_year (f_parse fd) ad) by (unfold q; cbn [tdate]; apply x_date_year).
  rewrite DY.
  pose proof (year_bounds cfg (f_parse fd) ad N Sd ltac:(assumption) Wd EX ltac:(assumption)) as YB. cbv zeta in YB.
  fold ned in YB. rewrite YB.
  (* the text *)
  unfold q. rewrite render_app.
  rewrite (render_corr md _ (f_dump fd) (f_parse fd) ad ad) by (try assumption; apply date_agrees; assumption).
  cbn [List.app render]. rewrite render_app.
  rewrite (render_corr md _ (f_dump ft) (f_parse ft) atm (canon_env atm)) by (try assumption; apply time_agrees; assumption).
  destruct zo as [fz|]; cbn [zo_dump zo_parse zo_text zo_shape zo_wf] in *.
  - rewrite (render_corr md _ (f_dump fz) (f_parse fz) az az) by (try assumption; apply zone_agrees; assumption).
    reflexivity.
  - cbn [render]. reflexivity.
Qed.

(* END TO END: parse with dump_as_parsed, then str() *)
Theorem dump_as_parsed : forall md cfg fd gd ft zo ad atm az,
  In (c_ned cfg) [0; 2; 3]%Z ->
  let dfs := date_forms_of (c_ned cfg) in
  In fd (date_search dfs cfg ["reduced"]) -> f_type fd = "complete" ->
  hit (date_search dfs cfg ["reduced"]) fd = Some gd ->
  let bf := bad_formats_of (f_format gd) (f_type gd) in
  In ft (time_search TIME_FORMS cfg bf ["truncated"]) ->
  In zo (zone_choices cfg bf ft) ->
  (c_ned cfg = 0%Z -> binds "expanded_year" (f_parse fd) = false) ->
  wf_assign (f_parse fd) ad = true -> wf_assign (f_parse ft) atm = true -> zo_wf zo az = true ->
  let q := mkTp (x_date (f_parse fd) ad) (x_tod (f_parse ft) atm) (x_zone cfg zo az) in
  valid_tp md q = true ->
  (fget "year_sign" (f_parse fd) ad = Some "-" -> x_year (f_parse fd) ad <> 0%Z) ->
  (fget "time_zone_sign" (zo_parse zo) az = Some "-" -> x_zone cfg zo az <> mkZone 0 0) ->
  dec_fits (f_parse ft) atm = true ->
  exists p,
    parse_text md cfg (render_toks (f_parse fd) ad ++ "T" ++ render_toks (f_parse ft) atm ++ zo_text zo az) true = POk p /\
    ptp_to_tp p = Some q /\ p_fmt p = f_expr fd ++ "T" ++ f_expr ft ++ zo_expr zo /\
    do_dump md (p_ned p) q (p_fmt p) =
    DOk (render_toks (f_parse fd) ad ++ "T" ++ render_toks (f_parse ft) (canon_env atm) ++ zo_text zo az).
Proof.
  intros md cfg fd gd ft zo ad atm az N dfs ID TY H bf IT IZ EX Wd Wt Wz q V NZy NZz DF.
  pose proof (decode_full md cfg fd gd ft zo ad atm az true N ID TY H IT IZ EX Wd Wt Wz) as P.
  cbv zeta in P. fold q in P. rewrite V in P.
  eexists. split; [exact P|]. split; [apply ptp_to_tp_of|]. split; [reflexivity|].
  cbn [ptp_of p_ned p_fmt].
  assert (NT : not_trunc fd = true) by (unfold not_trunc; rewrite TY; reflexivity).
  assert (Sd : date_full_shape (f_parse fd) = true).
  { apply (date_shape_tables (c_ned cfg)); try assumption. apply (date_search_In _ _ _ _ ID). }
  assert (NTt : not_trunc ft = true).
  { pose proof (time_search_type _ _ _ _ _ IT) as M. unfold not_trunc. unfold mem in M. cbn [existsb] in M.
    rewrite orb_false_r in M. rewrite M. reflexivity. }
  assert (St : time_full_shape (f_parse ft) = true).
  { apply time_shape_tables; [apply (time_search_In _ _ _ _ _ IT)|exact NTt]. }
  apply dump_decoded; try assumption.
  - apply (asp_tables cfg fd ft zo bf); try assumption.
    + apply (date_search_In _ _ _ _ ID).
    + apply (time_search_In _ _ _ _ _ IT).
  - apply (zone_shape_choices _ _ _ _ IZ).
Qed.

(* without a decimal group the text is reproduced exactly; a decimal field is
   reproduced up to trailing zeros *)
Lemma canon_env_other : forall ts a,
  forallb (fun t => match t with PDigs _ => false | PUnix _ => false | _ => true end) ts = true ->
  time_names_ok ts = true -> render_toks ts (canon_env a) = render_toks ts a.
Proof.
  induction ts as [|t ts IH]; intros a F NO; [reflexivity|].
  cbn [forallb] in F. apply andb_true_iff in F. destruct F as [F1 F2].
  unfold time_names_ok in NO. cbn [forallb] in NO. apply andb_true_iff in NO. destruct NO as [N1 N2].
  fold (time_names_ok ts) in N2. specialize (IH a F2 N2).
  destruct t as [l|nm w|nm|nm|nm l|nm]; cbn [render_toks]; try discriminate; rewrite IH; try reflexivity.
  apply andb_true_iff in N1. destruct N1 as [N1 _]. mem_cases N1; reflexivity.
Qed.
Lemma canon_spec : forall f, exists k,
  (f = canon f ++ zeros k) \/ (canon f = "0" /\ f = zeros k).
Proof.
  intros f. destruct (strip_zeros_spec f) as [k E]. exists k. unfold canon.
  destruct (String.eqb (strip_zeros f) "") eqn:Q.
  - right. split; [reflexivity|]. apply String.eqb_eq in Q. rewrite Q in E. exact E.
  - left. exact E.
Qed.
Lemma canon_id : forall f, strip_zeros f = f -> f <> "" -> canon f = f.
Proof. intros f S NE. unfold canon. rewrite S. destruct (String.eqb f "") eqn:Q; [apply String.eqb_eq in Q; contradiction|reflexivity]. Qed.

(* ------------------------------------------------------------------ *)
(* a date alone: parse with dump_as_parsed, then str()                 *)
(* ------------------------------------------------------------------ *)
Definition aspd_ok (dned : Z) (fd : form) : bool :=
  let props := f_props fd in
  let cal := mem "month_of_year" props || mem "day_of_month" props || mem "day_of_year" props in
  negb (contains_char "%" (f_expr fd)) &&
  match expression_of (date_forms_of dned) TIME_FORMS ZONE_FORMS zone_of_text (f_expr fd) with
  | inl (Some (tmpl, pr, cz)) => dtoks_eqb tmpl (f_dump fd) && strs_eqb pr props && opt_zz_eqb cz None
  | _ => false end &&
  Bool.eqb (mem "week_of_year" props || mem "day_of_week" props) (binds "week_of_year" (f_parse fd)) &&
  implb (binds "week_of_year" (f_parse fd)) (negb cal) &&
  mem "century" props && Bool.eqb (mem "expanded_year_digits" props) (binds "expanded_year" (f_parse fd)) &&
  corr (f_dump fd) (f_parse fd) && date_names_ok (f_parse fd) &&
  forallb (fun t => match t with
                    | PDig nm w => negb (String.eqb nm "expanded_year") || (Z.of_nat w =? dned)%Z
                    | _ => true end) (f_parse fd).
Theorem tables_aspd :
  forallb (fun n =>
    forallb (fun fd => negb (not_trunc fd) || ((n =? 0)%Z && binds "expanded_year" (f_parse fd)) ||
                       aspd_ok (dump_ned n fd) fd) (date_forms_of n)) [0; 2; 3]%Z = true.
Proof. vm_compute. reflexivity. Qed.

Theorem dump_date_decoded : forall md cfg fd ad t z,
  In (c_ned cfg) [0; 2; 3]%Z ->
  aspd_ok (x_ned cfg (f_parse fd)) fd = true -> date_full_shape (f_parse fd) = true ->
  (c_ned cfg = 0%Z -> binds "expanded_year" (f_parse fd) = false) ->
  wf_assign (f_parse fd) ad = true ->
  (fget "year_sign" (f_parse fd) ad = Some "-" -> x_year (f_parse fd) ad <> 0%Z) ->
  do_dump md (x_ned cfg (f_parse fd)) (mkTp (x_date (f_parse fd) ad) t z) (f_expr fd) = DOk (render_toks (f_parse fd) ad).
Proof.
  intros md cfg fd ad t z N A Sd EX Wd NZy. set (q := mkTp (x_date (f_parse fd) ad) t z).
  unfold aspd_ok in A. cbv zeta in A.
  repeat match type of A with _ && _ = true => let X := fresh "A" in apply andb_true_iff in A; destruct A as [A X] end.
  apply negb_true_iff in A.
  set (ned := x_ned cfg (f_parse fd)) in *.
  destruct (expression_of (date_forms_of ned) TIME_FORMS ZONE_FORMS zone_of_text (f_expr fd)) as [[[[tmpl pr] cz]|]|] eqn:EO;
    try discriminate.
  repeat match goal with X : _ && _ = true |- _ => apply andb_true_iff in X; destruct X end.
  repeat match goal with
         | X : dtoks_eqb _ _ = true |- _ => apply dtoks_eqb_eq in X
         | X : strs_eqb _ _ = true |- _ => apply strs_eqb_eq in X
         | X : opt_zz_eqb _ _ = true |- _ => apply opt_zz_eqb_eq in X
         | X : Bool.eqb _ _ = true |- _ => apply eqb_prop in X
         end.
  subst tmpl pr cz.
  unfold do_dump. rewrite A. unfold dump. rewrite A. fold ned. rewrite EO.
  set (props := f_props fd) in *.
  set (cal := mem "month_of_year" props || mem "day_of_month" props || mem "day_of_year" props) in *.
  rewrite (dump_with_flags ned md q _ props None (binds "week_of_year" (f_parse fd)) cal true
             (binds "expanded_year" (f_parse fd))) by (try assumption; reflexivity).
  cbv zeta. unfold q at 1 2 3 4 5 6 7.
  rewrite p1_same.
  2:{ intros B. split.
      - match goal with X : implb _ _ = true |- _ => rewrite B in X; cbn [implb] in X; apply negb_true_iff in X; exact X end.
      - destruct (x_date_wk _ ad Sd B) as (w & dd & E). eauto. }
  2:{ intros B. apply x_date_notwk. exact B. }
  fold q.
  assert (DY : date_year (tdate q) = x_year (f_parse fd) ad) by (unfold q; cbn [tdate]; apply x_date_year).
  rewrite DY.
  pose proof (year_bounds cfg (f_parse fd) ad N Sd ltac:(assumption) Wd EX ltac:(assumption)) as YB. cbv zeta in YB.
  fold ned in YB. rewrite YB.
  unfold q.
  rewrite (render_corr md _ (f_dump fd) (f_parse fd) ad ad) by (try assumption; apply date_agrees; assumption).
  reflexivity.
Qed.

Theorem dump_date_as_parsed : forall md cfg fd ad,
  In (c_ned cfg) [0; 2; 3]%Z ->
  let dfs := date_forms_of (c_ned cfg) in
  In fd (date_search dfs cfg []) -> f_type fd = "complete" \/ f_type fd = "reduced" ->
  mem (f_expr fd) (date_exceptions (c_ned cfg) (c_trunc cfg) []) = false ->
  (c_ned cfg = 0%Z -> binds "expanded_year" (f_parse fd) = false) ->
  wf_assign (f_parse fd) ad = true ->
  let q := mkTp (x_date (f_parse fd) ad) (HMS 0 0 0) (x_zone cfg None []) in
  valid_tp md q = true ->
  (fget "year_sign" (f_parse fd) ad = Some "-" -> x_year (f_parse fd) ad <> 0%Z) ->
  exists p,
    parse_text md cfg (render_toks (f_parse fd) ad) true = POk p /\
    ptp_to_tp p = Some q /\ p_fmt p = f_expr fd /\
    do_dump md (p_ned p) q (p_fmt p) = DOk (render_toks (f_parse fd) ad).
Proof.
  intros md cfg fd ad N dfs I TY E EX W q V NZy.
  pose proof (decode_date_full md cfg fd ad true N I TY E EX W) as P. cbv zeta in P. fold q in P. rewrite V in P.
  eexists. split; [exact P|]. split; [apply ptp_to_tp_of|]. split; [reflexivity|].
  cbn [ptp_of p_ned p_fmt].
  assert (NT : not_trunc fd = true) by (unfold not_trunc; destruct TY as [-> | ->]; reflexivity).
  assert (ID : In fd (date_forms_of (c_ned cfg))) by apply (date_search_In _ _ _ _ I).
  assert (Sd : date_full_shape (f_parse fd) = true) by (apply (date_shape_tables (c_ned cfg)); assumption).
  apply dump_date_decoded; try assumption.
  pose proof tables_aspd as T. rewrite forallb_forall in T. specialize (T (c_ned cfg) N).
  rewrite forallb_forall in T. specialize (T fd ID). rewrite NT in T. cbn [negb orb] in T.
  assert (E0 : (c_ned cfg =? 0)%Z && binds "expanded_year" (f_parse fd) = false).
  { destruct (c_ned cfg =? 0)%Z eqn:Q; [|reflexivity]. apply Z.eqb_eq in Q. rewrite (EX Q). reflexivity. }
  rewrite E0 in T. cbn [orb] in T. exact T.
Qed.
