(* Proofs/RecQuerySpec.v -- the queries on a forward recurrence (property C13):
   get_is_valid against the grid of members, r[i], get_next / get_prev and the
   closed form of get_first_after for whole-second intervals and probes. *)
From Coq Require Import QArith Qround Qabs Lqa ZifyNat.
From Iso Require Import Proofs.Tac Spec.Cal Spec.Instant Spec.Series Model.Num Model.Helpers
  Model.Duration Model.TimePoint Model.Recurrence Proofs.DurSpec Proofs.TickSpec Proofs.AddSpec
  Proofs.CmpSpec Proofs.SubSpec Proofs.RecSpec.
Open Scope Z_scope.

(* same bodies as in Props/C13.v *)
Definition wf_fwd (md : mode) (r : recur) (s : tp) (d : dur) : Prop :=
  r_start r = Some s /\ r_dur r = Some d /\ valid_tp md s = true /\ exact_pos d /\
  match r_reps r, r_end r with
  | Some n, Some e => 2 <= n /\ valid_tp md e = true /\
                      (instant md e == instant md s + inject_Z (n - 1) * dur_len d)%Q
  | None, None => True
  | _, _ => False
  end.

Definition in_range (r : recur) (i : Z) : Prop :=
  0 <= i /\ match r_reps r with Some n => i < n | None => True end.

Lemma wf_fwd_ok md r s d : wf_fwd md r s d -> fwd_ok md r s d.
Proof. intros H. exact H. Qed.

Lemma in_range_iff r i : in_rangeb r i = true <-> in_range r i.
Proof. apply in_rangeb_iff. Qed.

Lemma in_range_mono r i j : 0 <= i -> i <= j -> in_range r j -> in_rangeb r i = true.
Proof. unfold in_range, in_rangeb. destruct (r_reps r); lia. Qed.

(* ====================================================================== *)
(* 1. get_next / get_prev, r[i]                                            *)
(* ====================================================================== *)

Lemma next_prev_spec : forall md r s d t, wf_fwd md r s d -> valid_tp md t = true ->
  (instant md s <= instant md t)%Q ->
  (match get_next md r (Some t) with
   | Some q => (instant md q == instant md t + dur_len d)%Q /\ valid_tp md q = true /\
               match r_end r with Some e => (instant md q <= instant md e)%Q | None => True end
   | None => match r_end r with Some e => (instant md e < instant md t + dur_len d)%Q | None => False end
   end) /\
  (match get_prev md r (Some t) with
   | Some q => (instant md q == instant md t - dur_len d)%Q /\ valid_tp md q = true /\
               (instant md s <= instant md q)%Q
   | None => (instant md t - dur_len d < instant md s)%Q \/
             match r_end r with Some e => (instant md e < instant md t - dur_len d)%Q | None => False end
   end).
Proof. exact next_prev_fwd. Qed.

Lemma getitem_spec : forall md r s d i, wf_fwd md r s d -> 0 <= i ->
  (in_range r i -> exists p, rec_getitem md r i = Some p /\
      (instant md p == instant md s + inject_Z i * dur_len d)%Q /\
      nth_error (iter_take md r (S (Z.to_nat i))) (Z.to_nat i) = Some p) /\
  (~ in_range r i -> rec_getitem md r i = None).
Proof.
  intros md r s d i W Hi. destruct (getitem_fwd md r s d i W Hi) as [A B]. split.
  - intros R. apply in_range_iff in R. destruct (A R) as (p & E & I & _ & _ & N).
    exists p. split; [exact E|]. split; [exact I|exact N].
  - intros R. apply B. destruct (in_rangeb r i) eqn:E; [|reflexivity].
    exfalso. apply R. apply in_range_iff. exact E.
Qed.

(* ====================================================================== *)
(* 2. get_is_valid                                                         *)
(* ====================================================================== *)

Lemma valid_scan_None md r fwd t f b : valid_scan md r fwd t f None = Some b -> b = false.
Proof. destruct f; cbn [valid_scan]; intros H; [discriminate H|]. injection H as <-. reflexivity. Qed.

Lemma valid_scan_None_total md r fwd t f : (0 < f)%nat -> valid_scan md r fwd t f None = Some false.
Proof. destruct f; [lia|]. reflexivity. Qed.

(* members are strictly ordered like their indices *)
Lemma grid_lt s L i j : (0 < L)%Q -> i < j -> (s + inject_Z i * L < s + inject_Z j * L)%Q.
Proof. intros HL H. apply (qmul_lt_inj i j L HL) in H. lra. Qed.

Lemma grid_le s L i j : (0 < L)%Q -> i <= j -> (s + inject_Z i * L <= s + inject_Z j * L)%Q.
Proof. intros HL H. apply (qmul_le_inj i j L HL) in H. lra. Qed.

(* the scan from the member number i: yes exactly when the probe is at a member
   numbered i or more *)
Lemma valid_scan_fwd : forall md r s d t, wf_fwd md r s d -> valid_tp md t = true ->
  forall fuel p i b, valid_tp md p = true -> 0 <= i ->
  (instant md p == instant md s + inject_Z i * dur_len d)%Q ->
  valid_scan md r true t fuel (Some p) = Some b ->
  (b = true <-> exists j, i <= j /\ in_range r j /\
                  (instant md t == instant md s + inject_Z j * dur_len d)%Q).
Proof.
  intros md r s d t W Vt. pose proof W as (S & D & Vs & [Ex L] & B).
  induction fuel as [|f IH]; intros p i b Vp Hi Ip H; [discriminate H|].
  cbn [valid_scan] in H.
  rewrite (in_bounds_fwd_gridb md r s d p i W Vp Ip) in H.
  destruct (in_rangeb r i) eqn:R.
  2:{ injection H as <-. split; [discriminate|]. intros (j & Hj & Rj & _). exfalso.
      rewrite (in_range_mono r i j Hi Hj Rj) in R. discriminate R. }
  (* what the recursive call says, whatever the comparison *)
  assert (REC : valid_scan md r true t f (step_point md r true (Some p)) = Some b ->
                ~ (instant md p == instant md t)%Q ->
                (b = true <-> exists j, i <= j /\ in_range r j /\
                  (instant md t == instant md s + inject_Z j * dur_len d)%Q)).
  { intros H' NE.
    destruct (step_fwd_grid md r s d true p i W Vp Ip) as (p' & _ & Ip' & _ & Vp' & St).
    rewrite St in H'. destruct (in_rangeb r (i + 1)) eqn:R1.
    - rewrite (IH p' (i + 1) b Vp' ltac:(lia) Ip' H'). split.
      + intros (j & Hj & Rj & Ij). exists j. split; [lia|]. split; assumption.
      + intros (j & Hj & Rj & Ij). exists j. split; [|split; assumption].
        destruct (Z.eq_dec i j) as [<-|N]; [|lia]. exfalso. apply NE. rewrite Ip, Ij. reflexivity.
    - apply valid_scan_None in H'. subst b. split; [discriminate|].
      intros (j & Hj & Rj & Ij). exfalso.
      destruct (Z.eq_dec i j) as [<-|N]; [apply NE; rewrite Ip, Ij; reflexivity|].
      rewrite (in_range_mono r (i + 1) j ltac:(lia) ltac:(lia) Rj) in R1. discriminate R1. }
  rewrite (tp_cmp_spec md p t Vp Vt) in H.
  destruct (instant md p ?= instant md t)%Q eqn:C.
  - rewrite <- Qeq_alt in C. injection H as <-. split; [|reflexivity]. intros _.
    exists i. split; [lia|]. split; [apply in_range_iff; exact R|]. rewrite <- C. exact Ip.
  - rewrite <- Qlt_alt in C. rewrite S in H. cbv beta iota in H.
    assert (T : match r_end r with None => cmp_op 3 Lt | Some _ => false end = false)
      by (destruct (r_end r); reflexivity).
    rewrite T in H. apply REC; [exact H|]. intros K. lra.
  - rewrite <- Qgt_alt in C. rewrite S in H. cbv beta iota in H.
    destruct (r_end r) as [e|] eqn:En.
    + apply REC; [exact H|]. intros K. lra.
    + change (cmp_op 3 Gt) with true in H. cbv beta iota in H. injection H as <-.
      split; [discriminate|]. intros (j & Hj & _ & Ij). exfalso.
      pose proof (grid_le (instant md s) (dur_len d) i j L Hj). lra.
Qed.

Lemma get_is_valid_spec : forall md r s d t fuel b, wf_fwd md r s d -> valid_tp md t = true ->
  get_is_valid md r t fuel = Some b ->
  (b = true <-> exists i, in_range r i /\ (instant md t == instant md s + inject_Z i * dur_len d)%Q).
Proof.
  intros md r s d t fuel b W Vt H. pose proof W as (S & D & Vs & [Ex L] & B).
  unfold get_is_valid in H.
  destruct (in_bounds_spec md r s d t W Vt) as (b0 & E0 & H0). rewrite E0 in H.
  destruct b0.
  - rewrite S, (fwd_ok_reps md r s d W), D, (exact_pos_falsy d (conj Ex L)) in H.
    cbn [orb] in H.
    assert (I0 : (instant md s == instant md s + inject_Z 0 * dur_len d)%Q).
    { change (inject_Z 0) with 0%Q. ring. }
    rewrite (valid_scan_fwd md r s d t W Vt fuel s 0 b Vs ltac:(lia) I0 H). split.
    + intros (j & _ & Rj & Ij). exists j. split; assumption.
    + intros (j & Rj & Ij). exists j. split; [apply Rj|]. split; assumption.
  - injection H as <-. split; [discriminate|]. intros (i & [Hi Ri] & Ii). exfalso.
    assert (K : false = true); [|discriminate K]. apply H0. split.
    + rewrite Ii. pose proof (qmul_nonneg i (dur_len d) Hi L). lra.
    + destruct (r_reps r) as [n|], (r_end r) as [e|]; try contradiction; [|exact I].
      destruct B as (_ & _ & Ie). rewrite Ii, Ie. apply grid_le; [exact L|lia].
Qed.

(* the scan answers when the fuel outlasts the members left (bounded) ... *)
Lemma valid_scan_total_bounded : forall md r s d t n, wf_fwd md r s d -> valid_tp md t = true ->
  r_reps r = Some n ->
  forall fuel p i, valid_tp md p = true -> 0 <= i <= n ->
  (instant md p == instant md s + inject_Z i * dur_len d)%Q ->
  n - i < Z.of_nat fuel ->
  exists b, valid_scan md r true t fuel (Some p) = Some b.
Proof.
  intros md r s d t n W Vt Rn. pose proof W as (S & D & Vs & [Ex L] & B).
  induction fuel as [|f IH]; intros p i Vp Hi Ip F; [lia|].
  cbn [valid_scan].
  rewrite (in_bounds_fwd_gridb md r s d p i W Vp Ip).
  destruct (in_rangeb r i) eqn:R; [|exists false; reflexivity].
  assert (REC : exists b, valid_scan md r true t f (step_point md r true (Some p)) = Some b).
  { destruct (step_fwd_grid md r s d true p i W Vp Ip) as (p' & _ & Ip' & _ & Vp' & St).
    rewrite St. unfold in_rangeb in R |- *. rewrite Rn in R |- *.
    destruct ((0 <=? i + 1) && (i + 1 <? n)) eqn:R1.
    - apply (IH p' (i + 1) Vp' ltac:(lia) Ip'). lia.
    - exists false. apply valid_scan_None_total. lia. }
  rewrite (tp_cmp_spec md p t Vp Vt).
  rewrite S. rewrite Rn in B. destruct (r_end r) as [e|]; [|contradiction].
  destruct (instant md p ?= instant md t)%Q; [exists true; reflexivity | exact REC | exact REC].
Qed.

(* ... or reaches past the probe (unbounded) *)
Lemma valid_scan_total_unbounded : forall md r s d t, wf_fwd md r s d -> valid_tp md t = true ->
  r_reps r = None ->
  forall fuel p i, valid_tp md p = true -> 0 <= i ->
  (instant md p == instant md s + inject_Z i * dur_len d)%Q ->
  (instant md p < instant md t + dur_len d)%Q ->
  (inject_Z (Z.of_nat fuel) * dur_len d > instant md t - instant md p + dur_len d + dur_len d)%Q ->
  exists b, valid_scan md r true t fuel (Some p) = Some b.
Proof.
  intros md r s d t W Vt Rn. pose proof W as (S & D & Vs & [Ex L] & B).
  rewrite Rn in B. destruct (r_end r) as [e|] eqn:En; [contradiction|].
  induction fuel as [|f IH]; intros p i Vp Hi Ip Near F.
  - exfalso. change (inject_Z (Z.of_nat 0)) with 0%Q in F. lra.
  - cbn [valid_scan].
    rewrite (in_bounds_fwd_gridb md r s d p i W Vp Ip).
    assert (R : in_rangeb r i = true) by (unfold in_rangeb; rewrite Rn; lia).
    rewrite R, (tp_cmp_spec md p t Vp Vt), S, En.
    destruct (instant md p ?= instant md t)%Q eqn:C.
    + exists true. reflexivity.
    + rewrite <- Qlt_alt in C. change (cmp_op 3 Lt) with false. cbv beta iota.
      destruct (step_fwd_grid md r s d true p i W Vp Ip) as (p' & E' & Ip' & _ & Vp' & St).
      assert (R1 : in_rangeb r (i + 1) = true) by (unfold in_rangeb; rewrite Rn; lia).
      rewrite St, R1.
      assert (I' : (instant md p' == instant md p + dur_len d)%Q).
      { rewrite Ip', Ip, inj_plus1_mul. ring. }
      apply (IH p' (i + 1) Vp' ltac:(lia) Ip').
      * rewrite I'. lra.
      * rewrite I'. rewrite inj_succ_mul in F. lra.
    + exists false. reflexivity.
Qed.

Lemma get_is_valid_total : forall md r s d t fuel, wf_fwd md r s d -> valid_tp md t = true ->
  (match r_reps r with
   | Some n => n < Z.of_nat fuel
   | None => (inject_Z (Z.of_nat fuel) * dur_len d > instant md t - instant md s + dur_len d + dur_len d)%Q
   end) ->
  exists b, get_is_valid md r t fuel = Some b.
Proof.
  intros md r s d t fuel W Vt F. pose proof W as (S & D & Vs & [Ex L] & B).
  unfold get_is_valid.
  destruct (in_bounds_spec md r s d t W Vt) as (b0 & E0 & H0). rewrite E0.
  destruct b0; [|exists false; reflexivity].
  rewrite S, (fwd_ok_reps md r s d W), D, (exact_pos_falsy d (conj Ex L)).
  cbn [orb].
  assert (I0 : (instant md s == instant md s + inject_Z 0 * dur_len d)%Q).
  { change (inject_Z 0) with 0%Q. ring. }
  destruct (r_reps r) as [n|] eqn:Rn.
  - destruct (r_end r); [|contradiction].
    apply (valid_scan_total_bounded md r s d t n W Vt Rn fuel s 0 Vs ltac:(lia) I0). lia.
  - apply (valid_scan_total_unbounded md r s d t W Vt Rn fuel s 0 Vs ltac:(lia) I0).
    + destruct H0 as [H0 _]. destruct (H0 eq_refl) as [K _]. lra.
    + exact F.
Qed.

(* ====================================================================== *)
(* 3. get_first_after, closed form                                         *)
(* ====================================================================== *)

Lemma dur_make_secs k : dur_make 0 0 0 0 0 0 k = DU 0 0 0 0 0 k.
Proof. reflexivity. Qed.

Lemma get_seconds_exact md x : is_exact x = true -> get_seconds md x = dur_len x.
Proof. intros E. unfold get_seconds. rewrite E. reflexivity. Qed.

(* the next grid point is strictly later than the probe *)
Lemma floor_next_lt x L : (0 < L)%Q -> (x < inject_Z (Qfloor (x / L) + 1) * L)%Q.
Proof.
  intros HL. pose proof (Qlt_floor (x / L)) as H.
  assert (Hx : (x == (x / L) * L)%Q) by (field; lra).
  rewrite Hx at 1. apply Qmult_lt_compat_r; assumption.
Qed.

Lemma first_after_spec : forall md r s d t fuel, wf_fwd md r s d -> valid_tp md t = true ->
  qis_int (dur_len d) = true -> qis_int (instant md t - instant md s) = true ->
  let later := (instant md s + inject_Z (Qfloor ((instant md t - instant md s) / dur_len d) + 1) * dur_len d)%Q in
  match get_first_after md r t fuel with
  | Some (Some q) =>
    ((instant md t < instant md s)%Q /\ q = s) \/
    ((instant md s <= instant md t)%Q /\ (instant md q == later)%Q /\ (instant md t < instant md q)%Q /\
     match r_end r with Some e => (instant md q <= instant md e)%Q | None => True end)
  | Some None =>
    match r_end r with
    | Some e => (instant md s <= instant md t)%Q /\ (instant md e < later)%Q
    | None => False end
  | None => False
  end.
Proof.
  intros md r s d t fuel W Vt IL IX later. subst later.
  pose proof W as (S & D & Vs & [Ex L] & B).
  set (qf := Qfloor ((instant md t - instant md s) / dur_len d)).
  assert (LT : (instant md t < instant md s + inject_Z (qf + 1) * dur_len d)%Q).
  { pose proof (floor_next_lt (instant md t - instant md s) (dur_len d) L) as K. fold qf in K. lra. }
  unfold get_first_after. rewrite S.
  destruct (in_bounds_spec md r s d t W Vt) as (b0 & E0 & H0). rewrite E0.
  destruct b0.
  - destruct H0 as [H0 _]. destruct (H0 eq_refl) as [Lst Lte]. clear H0.
    rewrite D, Ex.
    destruct (tp_sub_spec md t s Vt Vs) as (dd & h & m & ss & E & Len & _). rewrite E.
    cbv zeta.
    rewrite (get_seconds_exact md (DU 0 0 dd h m ss) eq_refl), (get_seconds_exact md d Ex).
    destruct (qeqb (dur_len d) 0) eqn:Z0.
    { apply DurSpec.qeqb_iff in Z0. lra. }
    assert (QF : Qfloor (dur_len (DU 0 0 dd h m ss) / dur_len d) = qf).
    { unfold qf. rewrite Len. reflexivity. }
    rewrite QF. rewrite dur_make_secs.
    set (since := Qred (dur_len (DU 0 0 dd h m ss) - qz qf * dur_len d)).
    assert (Si : (since == (instant md t - instant md s) - inject_Z qf * dur_len d)%Q).
    { unfold since. rewrite Qred_correct, Len. reflexivity. }
    apply qis_int_iff in IL, IX.
    assert (Ii : isint since).
    { apply isint_eq with ((instant md t - instant md s) - inject_Z qf * dur_len d)%Q;
        [symmetry; exact Si|].
      apply isint_sub; [exact IX|]. apply isint_mul; [apply isint_Z|exact IL]. }
    destruct Ii as [k Hk].
    assert (FK : Qfloor since = k) by (rewrite Hk; apply Qfloor_Z).
    rewrite FK.
    set (a := dur_sub d (DU 0 0 0 0 0 (qz k))).
    assert (Ea : is_exact a = true).
    { unfold a, dur_sub. rewrite is_exact_ym in Ex |- *.
      rewrite dur_add_years, dur_add_months, dur_mul_years, dur_mul_months.
      cbn [dur_years dur_months]. lia. }
    assert (La : (dur_len a == dur_len d - since)%Q).
    { unfold a, dur_sub. rewrite dur_add_len, dur_mul_len, dur_len_DU'. unfold qz. rewrite Hk.
      change (inject_Z (-1)) with (-1 # 1)%Q. change (inject_Z 0) with 0%Q. ring. }
    destruct (tp_add_exact_spec md t a Vt Ea) as (q & Eq & Iq & _ & _ & _ & Vq). rewrite Eq.
    assert (Iql : (instant md q == instant md s + inject_Z (qf + 1) * dur_len d)%Q).
    { rewrite Iq, La, Si, inj_plus1_mul. ring. }
    destruct (in_bounds_spec md r s d q W Vq) as (b1 & E1 & H1). rewrite E1.
    destruct b1.
    + right. split; [exact Lst|]. split; [exact Iql|]. split; [rewrite Iql; exact LT|].
      destruct H1 as [H1 _]. destruct (H1 eq_refl) as [_ K]. exact K.
    + destruct (r_end r) as [e|].
      * split; [exact Lst|].
        destruct (Qlt_le_dec (instant md e) (instant md s + inject_Z (qf + 1) * dur_len d)) as [K|K];
          [exact K|].
        exfalso. assert (F : false = true); [|discriminate F]. apply H1. split; lra.
      * assert (F : false = true); [|discriminate F]. apply H1. split; [lra|exact I].
  - destruct (tp_ltb_spec md t s Vt Vs) as (c & Ec & Hc). rewrite Ec. destruct c.
    + left. split; [apply Hc; reflexivity|reflexivity].
    + assert (Lst : (instant md s <= instant md t)%Q).
      { destruct (Qlt_le_dec (instant md t) (instant md s)) as [K|K]; [|exact K].
        apply Hc in K. discriminate K. }
      destruct (r_end r) as [e|].
      * split; [exact Lst|].
        destruct (Qlt_le_dec (instant md e) (instant md t)) as [K|K]; [lra|].
        exfalso. assert (F : false = true); [|discriminate F]. apply H0. split; assumption.
      * assert (F : false = true); [|discriminate F]. apply H0. split; [exact Lst|exact I].
Qed.
