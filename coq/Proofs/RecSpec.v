(* Proofs/RecSpec.v -- TimeRecurrence (Model/Recurrence.v): the constructor per
   notation, the bounds test, stepping and iteration (property C12), with the
   reusable characterisations needed by the query (C13) and value (C14)
   properties. *)
From Coq Require Import QArith Qround Qabs Lqa ZifyNat.
From Iso Require Import Proofs.Tac Spec.Cal Spec.Instant Spec.Series Model.Num Model.Helpers
  Model.Duration Model.TimePoint Model.Recurrence Proofs.DurSpec Proofs.AddSpec Proofs.CmpSpec
  Proofs.SubSpec.
Open Scope Z_scope.

(* ====================================================================== *)
(* 0. small arithmetic                                                     *)
(* ====================================================================== *)

Lemma qmul_le_inj a b L : (0 < L)%Q -> ((inject_Z a * L <= inject_Z b * L)%Q <-> a <= b).
Proof.
  intros HL. rewrite Qmult_le_r by exact HL. rewrite <- Zle_Qle. reflexivity.
Qed.

Lemma qmul_lt_inj a b L : (0 < L)%Q -> ((inject_Z a * L < inject_Z b * L)%Q <-> a < b).
Proof.
  intros HL. rewrite Qmult_lt_r by exact HL. rewrite <- Zlt_Qlt. reflexivity.
Qed.

Lemma qmul_nonneg i L : 0 <= i -> (0 < L)%Q -> (0 <= inject_Z i * L)%Q.
Proof.
  intros Hi HL. apply Qmult_le_0_compat; [|lra].
  change 0%Q with (inject_Z 0). rewrite <- Zle_Qle. exact Hi.
Qed.

Lemma inj_succ_mul j L : (inject_Z (Z.of_nat (S j)) * L == inject_Z (Z.of_nat j) * L + L)%Q.
Proof. rewrite Nat2Z.inj_succ. unfold Z.succ. rewrite inject_Z_plus. change (inject_Z 1) with 1%Q. ring. Qed.

Lemma inj_plus1_mul i L : (inject_Z (i + 1) * L == inject_Z i * L + L)%Q.
Proof. rewrite inject_Z_plus. change (inject_Z 1) with 1%Q. ring. Qed.

(* ====================================================================== *)
(* 1. durations: exactness, sign tests                                     *)
(* ====================================================================== *)

Lemma is_exact_dzero : is_exact dzero = true.
Proof. reflexivity. Qed.

Lemma is_exact_mul d k : is_exact d = true -> is_exact (dur_mul d k) = true.
Proof.
  intros E. rewrite is_exact_ym in *. rewrite dur_mul_years, dur_mul_months. lia.
Qed.

Lemma dur_len_mul d k : (dur_len (dur_mul d k) == inject_Z k * dur_len d)%Q.
Proof. rewrite dur_mul_len. ring. Qed.

(* the constructor's "negative interval" guard *)
Lemma dur_ltb_dzero md d : is_exact d = true ->
  (dur_ltb md d dzero = true <-> (dur_len d < 0)%Q).
Proof.
  intros E. destruct (dur_order_exact md d dzero E is_exact_dzero) as [H _].
  rewrite H, dur_len_dzero. reflexivity.
Qed.

Lemma dur_ltb_dzero_false md d : is_exact d = true -> (0 <= dur_len d)%Q -> dur_ltb md d dzero = false.
Proof.
  intros E L. destruct (dur_ltb md d dzero) eqn:H; [|reflexivity].
  apply (dur_ltb_dzero md d E) in H. lra.
Qed.

(* the constructor's "zero interval" test *)
Lemma dur_eqb_dzero d : is_exact d = true -> (dur_eqb d dzero = true <-> (dur_len d == 0)%Q).
Proof.
  intros E. rewrite (dur_eqb_exact d dzero E is_exact_dzero), dur_len_dzero. reflexivity.
Qed.

Lemma dur_eqb_dzero_false d : is_exact d = true -> (0 < dur_len d)%Q -> dur_eqb d dzero = false.
Proof.
  intros E L. destruct (dur_eqb d dzero) eqn:H; [|reflexivity].
  apply (dur_eqb_dzero d E) in H. lra.
Qed.

(* truthiness: a falsy duration has length 0 *)
Lemma dur_bool_false_len d : dur_bool d = false -> (dur_len d == 0)%Q.
Proof.
  destruct d as [w | y mo dd h mi s]; cbn [dur_bool]; intros B; apply negb_false_iff in B.
  - assert (w = 0) by lia. subst w. reflexivity.
  - apply andb_prop in B. destruct B as [B Bs]. apply andb_prop in B. destruct B as [B Bmi].
    apply andb_prop in B. destruct B as [B Bh]. apply andb_prop in B. destruct B as [B Bd].
    assert (dd = 0) by lia. subst dd.
    apply DurSpec.qeqb_iff in Bs, Bmi, Bh. rewrite dur_len_DU'. rewrite Bs, Bmi, Bh.
    change (inject_Z 0) with 0%Q. ring.
Qed.

Lemma exact_pos_bool d : exact_pos d -> dur_bool d = true.
Proof.
  intros [_ L]. destruct (dur_bool d) eqn:B; [reflexivity|].
  apply dur_bool_false_len in B. lra.
Qed.

Lemma exact_pos_falsy d : exact_pos d -> dur_falsy (Some d) = false.
Proof. intros H. unfold dur_falsy. rewrite (exact_pos_bool d H). reflexivity. Qed.

(* ====================================================================== *)
(* 2. point comparisons in terms of instants                               *)
(* ====================================================================== *)

Lemma tp_ltb_spec md a b : valid_tp md a = true -> valid_tp md b = true ->
  exists c, tp_ltb md a b = Some c /\ (c = true <-> (instant md a < instant md b)%Q).
Proof.
  intros Va Vb. unfold tp_ltb. destruct (tp_cmp md a b) as [c|] eqn:E.
  - exists (cmp_op 1 c). split; [reflexivity|]. apply (tp_cmp_operators md a b c Va Vb E).
  - rewrite (tp_cmp_spec md a b Va Vb) in E. discriminate E.
Qed.

Lemma tp_gtb_spec md a b : valid_tp md a = true -> valid_tp md b = true ->
  exists c, tp_gtb md a b = Some c /\ (c = true <-> (instant md b < instant md a)%Q).
Proof.
  intros Va Vb. unfold tp_gtb. destruct (tp_cmp md a b) as [c|] eqn:E.
  - exists (cmp_op 3 c). split; [reflexivity|]. apply (tp_cmp_operators md a b c Va Vb E).
  - rewrite (tp_cmp_spec md a b Va Vb) in E. discriminate E.
Qed.

Lemma tp_leb_spec md a b : valid_tp md a = true -> valid_tp md b = true ->
  exists c, tp_leb md a b = Some c /\ (c = true <-> (instant md a <= instant md b)%Q).
Proof.
  intros Va Vb. unfold tp_leb. destruct (tp_cmp md a b) as [c|] eqn:E.
  - exists (cmp_op 2 c). split; [reflexivity|]. apply (tp_cmp_operators md a b c Va Vb E).
  - rewrite (tp_cmp_spec md a b Va Vb) in E. discriminate E.
Qed.

Lemma tp_eqb_spec md a b : valid_tp md a = true -> valid_tp md b = true ->
  exists c, tp_eqb md a b = Some c /\ (c = true <-> (instant md a == instant md b)%Q).
Proof.
  intros Va Vb. unfold tp_eqb. destruct (tp_cmp md a b) as [c|] eqn:E.
  - exists (cmp_op 0 c). split; [reflexivity|]. apply (tp_cmp_operators md a b c Va Vb E).
  - rewrite (tp_cmp_spec md a b Va Vb) in E. discriminate E.
Qed.

Lemma tp_eqb_true md a b : valid_tp md a = true -> valid_tp md b = true ->
  (instant md a == instant md b)%Q -> tp_eqb md a b = Some true.
Proof.
  intros Va Vb I. destruct (tp_eqb_spec md a b Va Vb) as (c & E & H).
  rewrite E. f_equal. apply H. exact I.
Qed.

Lemma tp_cmp_lt md a b : valid_tp md a = true -> valid_tp md b = true ->
  (instant md a < instant md b)%Q -> tp_cmp md a b = Some Lt.
Proof. intros Va Vb I. rewrite (tp_cmp_spec md a b Va Vb). f_equal. rewrite <- Qlt_alt. exact I. Qed.

Lemma tp_cmp_eq md a b : valid_tp md a = true -> valid_tp md b = true ->
  (instant md a == instant md b)%Q -> tp_cmp md a b = Some Eq.
Proof. intros Va Vb I. rewrite (tp_cmp_spec md a b Va Vb). f_equal. rewrite <- Qeq_alt. exact I. Qed.

Lemma tp_cmp_gt md a b : valid_tp md a = true -> valid_tp md b = true ->
  (instant md b < instant md a)%Q -> tp_cmp md a b = Some Gt.
Proof. intros Va Vb I. rewrite (tp_cmp_spec md a b Va Vb). f_equal. rewrite <- Qgt_alt. exact I. Qed.

(* ====================================================================== *)
(* 3. in_bounds                                                            *)
(* ====================================================================== *)

Definition opt_valid (md : mode) (o : option tp) : Prop :=
  match o with Some p => valid_tp md p = true | None => True end.

(* in_bounds on a valid probe, for a recurrence whose ends (if any) are valid:
   it answers, and says yes exactly when the instant lies between the ends *)
Lemma in_bounds_char : forall md r t,
  valid_tp md t = true -> opt_valid md (r_start r) -> opt_valid md (r_end r) ->
  exists b, in_bounds md r (Some t) = Some b /\
    (b = true <->
     match r_start r with Some s => (instant md s <= instant md t)%Q | None => True end /\
     match r_end r with Some e => (instant md t <= instant md e)%Q | None => True end).
Proof.
  intros md r t Vt Vs Ve. unfold in_bounds.
  assert (A : exists b1,
     match r_start r with Some s => tp_ltb md t s | None => Some false end = Some b1 /\
     (b1 = false <-> match r_start r with Some s => (instant md s <= instant md t)%Q | None => True end)).
  { destruct (r_start r) as [s|].
    - destruct (tp_ltb_spec md t s Vt Vs) as (c & E & H). exists c. split; [exact E|].
      destruct c; split; intros K; try discriminate K; try reflexivity.
      + exfalso. assert (instant md t < instant md s)%Q by (apply H; reflexivity). lra.
      + destruct (Qlt_le_dec (instant md t) (instant md s)) as [L|L]; [|exact L].
        apply H in L. discriminate L.
    - exists false. split; [reflexivity|]. tauto. }
  assert (B : exists b2,
     match r_end r with Some e => tp_gtb md t e | None => Some false end = Some b2 /\
     (b2 = false <-> match r_end r with Some e => (instant md t <= instant md e)%Q | None => True end)).
  { destruct (r_end r) as [e|].
    - destruct (tp_gtb_spec md t e Vt Ve) as (c & E & H). exists c. split; [exact E|].
      destruct c; split; intros K; try discriminate K; try reflexivity.
      + exfalso. assert (instant md e < instant md t)%Q by (apply H; reflexivity). lra.
      + destruct (Qlt_le_dec (instant md e) (instant md t)) as [L|L]; [|exact L].
        apply H in L. discriminate L.
    - exists false. split; [reflexivity|]. tauto. }
  destruct A as (b1 & E1 & H1). destruct B as (b2 & E2 & H2). rewrite E1.
  destruct b1.
  - exists false. split; [reflexivity|]. split; [discriminate|]. intros [K _]. apply H1 in K. discriminate K.
  - rewrite E2. destruct b2.
    + exists false. split; [reflexivity|]. split; [discriminate|]. intros [_ K]. apply H2 in K. discriminate K.
    + exists true. split; [reflexivity|]. split; [|reflexivity]. intros _. split; [apply H1|apply H2]; reflexivity.
Qed.

Lemma in_bounds_None md r : in_bounds md r None = Some false.
Proof. reflexivity. Qed.

Lemma in_bounds_true_intro md r t :
  valid_tp md t = true -> opt_valid md (r_start r) -> opt_valid md (r_end r) ->
  match r_start r with Some s => (instant md s <= instant md t)%Q | None => True end ->
  match r_end r with Some e => (instant md t <= instant md e)%Q | None => True end ->
  in_bounds md r (Some t) = Some true.
Proof.
  intros Vt Vs Ve A B. destruct (in_bounds_char md r t Vt Vs Ve) as (b & E & H).
  rewrite E. f_equal. apply H. split; assumption.
Qed.

(* ====================================================================== *)
(* 4. step_point                                                           *)
(* ====================================================================== *)

Lemma step_point_None md r fwd : step_point md r fwd None = None.
Proof. unfold step_point. destruct (zopt_eqb (r_reps r) 1); reflexivity. Qed.

Lemma step_point_unfold md r fwd t d : zopt_eqb (r_reps r) 1 = false -> r_dur r = Some d ->
  step_point md r fwd (Some t) =
  match in_bounds md r (if fwd then tp_add md t d else tp_sub_dur md t d) with
  | Some true => (if fwd then tp_add md t d else tp_sub_dur md t d)
  | _ => None
  end.
Proof. intros H1 H2. unfold step_point. rewrite H1, H2. reflexivity. Qed.

(* whatever step_point returns is the previous point plus/minus the interval, in bounds *)
Lemma step_point_Some_inv md r fwd p q : step_point md r fwd p = Some q ->
  exists t d, p = Some t /\ r_dur r = Some d /\ zopt_eqb (r_reps r) 1 = false /\
    (if fwd then tp_add md t d else tp_sub_dur md t d) = Some q /\
    in_bounds md r (Some q) = Some true.
Proof.
  unfold step_point. destruct (zopt_eqb (r_reps r) 1); [discriminate|].
  destruct p as [t|]; [|discriminate]. destruct (r_dur r) as [d|]; [|discriminate].
  cbv zeta. intros H. exists t, d.
  destruct (if fwd then tp_add md t d else tp_sub_dur md t d) as [q'|] eqn:E.
  - destruct (in_bounds md r (Some q')) as [[|]|] eqn:B; try discriminate H.
    injection H as <-. repeat split; try reflexivity. exact B.
  - cbn [in_bounds] in H. discriminate H.
Qed.

(* stepping from a valid point by an exact interval: the candidate exists, is
   valid, one interval away and written like the point; it is returned exactly
   when it is in bounds *)
Lemma step_point_spec : forall md r (fwd : bool) t d,
  opt_valid md (r_start r) -> opt_valid md (r_end r) ->
  zopt_eqb (r_reps r) 1 = false -> r_dur r = Some d -> is_exact d = true ->
  valid_tp md t = true ->
  exists t', (if fwd then tp_add md t d else tp_sub_dur md t d) = Some t' /\
    (instant md t' == instant md t + (if fwd then dur_len d else - dur_len d))%Q /\
    rep_kind (tdate t') = rep_kind (tdate t) /\ tod_kind (ttod t') = tod_kind (ttod t) /\
    tzone t' = tzone t /\ valid_tp md t' = true /\
    exists b, in_bounds md r (Some t') = Some b /\
      (b = true <->
       match r_start r with Some s => (instant md s <= instant md t')%Q | None => True end /\
       match r_end r with Some e => (instant md t' <= instant md e)%Q | None => True end) /\
      step_point md r fwd (Some t) = (if b then Some t' else None).
Proof.
  intros md r fwd t d Vs Ve R D Ex Vt.
  assert (A : exists t', (if fwd then tp_add md t d else tp_sub_dur md t d) = Some t' /\
    (instant md t' == instant md t + (if fwd then dur_len d else - dur_len d))%Q /\
    rep_kind (tdate t') = rep_kind (tdate t) /\ tod_kind (ttod t') = tod_kind (ttod t) /\
    tzone t' = tzone t /\ valid_tp md t' = true).
  { destruct fwd.
    - apply tp_add_exact_spec; assumption.
    - rewrite tp_sub_dur_def.
      destruct (tp_add_exact_spec md t (dur_mul d (-1)) Vt (is_exact_mul d (-1) Ex))
        as (t' & E & I & K).
      exists t'. split; [exact E|]. split; [|exact K]. rewrite I, (dur_len_neg d Ex). reflexivity. }
  destruct A as (t' & E & I & K1 & K2 & K3 & V').
  exists t'. repeat (split; [assumption|]).
  destruct (in_bounds_char md r t' V' Vs Ve) as (b & B & H).
  exists b. split; [exact B|]. split; [exact H|].
  rewrite (step_point_unfold md r fwd t d R D), E, B. destruct b; reflexivity.
Qed.

(* ====================================================================== *)
(* 5. iter_from: structure                                                 *)
(* ====================================================================== *)

Lemma iter_from_None md r fwd k : iter_from md r fwd k None = [].
Proof. destruct k; reflexivity. Qed.

Lemma iter_from_O md r fwd p : iter_from md r fwd 0 p = [].
Proof. reflexivity. Qed.

Lemma iter_from_in md r fwd k t : in_bounds md r (Some t) = Some true ->
  iter_from md r fwd (S k) (Some t) = t :: iter_from md r fwd k (step_point md r fwd (Some t)).
Proof. intros H. cbn [iter_from]. rewrite H. reflexivity. Qed.

Lemma iter_from_out md r fwd k t : in_bounds md r (Some t) <> Some true ->
  iter_from md r fwd k (Some t) = [].
Proof.
  intros H. destruct k; [reflexivity|]. cbn [iter_from].
  destruct (in_bounds md r (Some t)) as [[|]|]; try reflexivity. exfalso. apply H. reflexivity.
Qed.

(* the bounds filter inside step_point is redundant for iteration *)
Lemma iter_from_filter md r fwd k q :
  iter_from md r fwd k (match in_bounds md r q with Some true => q | _ => None end) =
  iter_from md r fwd k q.
Proof.
  destruct q as [t|]; [|reflexivity].
  destruct (in_bounds md r (Some t)) as [[|]|] eqn:B; try reflexivity;
    rewrite iter_from_None; symmetry; apply iter_from_out; rewrite B; discriminate.
Qed.

Lemma iter_from_step md r fwd k t d : zopt_eqb (r_reps r) 1 = false -> r_dur r = Some d ->
  iter_from md r fwd k (step_point md r fwd (Some t)) =
  iter_from md r fwd k (if fwd then tp_add md t d else tp_sub_dur md t d).
Proof.
  intros R D. rewrite (step_point_unfold md r fwd t d R D). apply iter_from_filter.
Qed.

(* the head of a non-empty iteration is the point it started from *)
Lemma iter_from_head md r fwd k p q l : iter_from md r fwd k p = q :: l ->
  p = Some q /\ in_bounds md r (Some q) = Some true /\
  exists k', k = S k' /\ l = iter_from md r fwd k' (step_point md r fwd (Some q)).
Proof.
  destruct k as [|k']; [discriminate|]. cbn [iter_from].
  destruct p as [t|]; [|discriminate].
  destruct (in_bounds md r (Some t)) as [[|]|] eqn:B; try discriminate.
  intros H. injection H as <- <-. split; [reflexivity|]. split; [exact B|].
  exists k'. split; reflexivity.
Qed.

(* any interval, no validity needed: consecutive points differ by one step *)
Lemma iter_from_consecutive : forall md r fwd k p0 i p q,
  nth_error (iter_from md r fwd k p0) i = Some p ->
  nth_error (iter_from md r fwd k p0) (S i) = Some q ->
  step_point md r fwd (Some p) = Some q.
Proof.
  intros md r fwd k. induction k as [|k IH]; intros p0 i p q H1 H2.
  - destruct i; discriminate H1.
  - destruct (iter_from md r fwd (S k) p0) as [|a l] eqn:E; [destruct i; discriminate H1|].
    apply iter_from_head in E. destruct E as (-> & B & k' & Hk & ->). injection Hk as <-.
    destruct i as [|i].
    + cbn [nth_error] in H1, H2. injection H1 as ->.
      destruct (iter_from md r fwd k (step_point md r fwd (Some p))) as [|b l'] eqn:E2; [discriminate H2|].
      cbn [nth_error] in H2. injection H2 as ->.
      apply iter_from_head in E2. destruct E2 as (E2 & _). exact E2.
    + cbn [nth_error] in H1, H2. exact (IH _ _ _ _ H1 H2).
Qed.

(* every iterated point is in bounds *)
Lemma iter_from_in_bounds : forall md r fwd k p0 i p,
  nth_error (iter_from md r fwd k p0) i = Some p -> in_bounds md r (Some p) = Some true.
Proof.
  intros md r fwd k. induction k as [|k IH]; intros p0 i p H.
  - destruct i; discriminate H.
  - destruct (iter_from md r fwd (S k) p0) as [|a l] eqn:E; [destruct i; discriminate H|].
    apply iter_from_head in E. destruct E as (-> & B & k' & Hk & ->). injection Hk as <-.
    destruct i as [|i]; cbn [nth_error] in H.
    + injection H as <-. exact B.
    + exact (IH _ _ _ H).
Qed.

(* iteration is prefix-monotone in the number of points asked for *)
Lemma iter_from_prefix : forall md r fwd k p0 i p,
  nth_error (iter_from md r fwd k p0) i = Some p ->
  nth_error (iter_from md r fwd (S k) p0) i = Some p.
Proof.
  intros md r fwd k. induction k as [|k IH]; intros p0 i p H.
  - destruct i; discriminate H.
  - destruct (iter_from md r fwd (S k) p0) as [|a l] eqn:E; [destruct i; discriminate H|].
    apply iter_from_head in E. destruct E as (-> & B & k' & Hk & ->). injection Hk as <-.
    rewrite (iter_from_in md r fwd (S k) a B).
    destruct i as [|i]; cbn [nth_error] in H |- *; [exact H|]. apply IH. exact H.
Qed.

(* ====================================================================== *)
(* 6. well-formed recurrences and their iteration                          *)
(* ====================================================================== *)

(* a recurrence with a start, an exact positive interval and, when bounded, its
   end at start + (n-1) * interval (same body as wf_fwd in Props/C13.v) *)
Definition fwd_ok (md : mode) (r : recur) (s : tp) (d : dur) : Prop :=
  r_start r = Some s /\ r_dur r = Some d /\ valid_tp md s = true /\ exact_pos d /\
  match r_reps r, r_end r with
  | Some n, Some e => 2 <= n /\ valid_tp md e = true /\
                      (instant md e == instant md s + inject_Z (n - 1) * dur_len d)%Q
  | None, None => True
  | _, _ => False
  end.

(* an unbounded recurrence running backwards from its end *)
Definition bwd_ok (md : mode) (r : recur) (e : tp) (d : dur) : Prop :=
  r_start r = None /\ r_end r = Some e /\ r_dur r = Some d /\ r_reps r = None /\
  valid_tp md e = true /\ exact_pos d.

(* a one-point recurrence *)
Definition single_ok (md : mode) (r : recur) (a : tp) : Prop :=
  r_reps r = Some 1 /\ r_dur r = None /\ r_start r = Some a /\ valid_tp md a = true /\
  exists e, r_end r = Some e /\ valid_tp md e = true /\ (instant md a == instant md e)%Q.

Definition same_shape (p q : tp) : Prop :=
  rep_kind (tdate p) = rep_kind (tdate q) /\ tod_kind (ttod p) = tod_kind (ttod q) /\
  tzone p = tzone q.

Lemma same_shape_refl p : same_shape p p.
Proof. repeat split. Qed.
Lemma same_shape_trans p q r : same_shape p q -> same_shape q r -> same_shape p r.
Proof. unfold same_shape. intuition congruence. Qed.
Lemma same_shape_sym p q : same_shape p q -> same_shape q p.
Proof. unfold same_shape. intuition congruence. Qed.

Lemma fwd_ok_reps md r s d : fwd_ok md r s d -> zopt_eqb (r_reps r) 1 = false.
Proof.
  intros (_ & _ & _ & _ & H). destruct (r_reps r) as [n|]; [|reflexivity].
  destruct (r_end r); [|contradiction]. cbn [zopt_eqb]. lia.
Qed.
Lemma fwd_ok_start md r s d : fwd_ok md r s d -> opt_valid md (r_start r).
Proof. intros (-> & _ & V & _). exact V. Qed.
Lemma fwd_ok_end md r s d : fwd_ok md r s d -> opt_valid md (r_end r).
Proof.
  intros (_ & _ & _ & _ & H). destruct (r_end r) as [e|]; [|exact I].
  destruct (r_reps r); [|contradiction]. apply H.
Qed.
Lemma fwd_ok_falsy md r s d : fwd_ok md r s d -> dur_falsy (r_dur r) = false.
Proof. intros (_ & -> & _ & P & _). apply exact_pos_falsy. exact P. Qed.

Lemma bwd_ok_reps md r e d : bwd_ok md r e d -> zopt_eqb (r_reps r) 1 = false.
Proof. intros (_ & _ & _ & -> & _). reflexivity. Qed.
Lemma bwd_ok_start md r e d : bwd_ok md r e d -> opt_valid md (r_start r).
Proof. intros (-> & _). exact I. Qed.
Lemma bwd_ok_end md r e d : bwd_ok md r e d -> opt_valid md (r_end r).
Proof. intros (_ & -> & _ & _ & V & _). exact V. Qed.
Lemma bwd_ok_falsy md r e d : bwd_ok md r e d -> dur_falsy (r_dur r) = false.
Proof. intros (_ & _ & -> & _ & _ & P). apply exact_pos_falsy. exact P. Qed.

(* in_bounds for a forward recurrence, in the form of C13 *)
Lemma in_bounds_fwd : forall md r s d t, fwd_ok md r s d -> valid_tp md t = true ->
  exists b, in_bounds md r (Some t) = Some b /\
    (b = true <-> (instant md s <= instant md t)%Q /\
                  match r_end r with Some e => (instant md t <= instant md e)%Q | None => True end).
Proof.
  intros md r s d t W Vt.
  destruct (in_bounds_char md r t Vt (fwd_ok_start _ _ _ _ W) (fwd_ok_end _ _ _ _ W)) as (b & E & H).
  exists b. split; [exact E|]. destruct W as (S & _). rewrite S in H. exact H.
Qed.

(* ... at a grid point start + i * interval: in bounds iff 0 <= i < n *)
Lemma in_bounds_fwd_grid : forall md r s d t i, fwd_ok md r s d -> valid_tp md t = true ->
  (instant md t == instant md s + inject_Z i * dur_len d)%Q ->
  exists b, in_bounds md r (Some t) = Some b /\
    (b = true <-> 0 <= i /\ match r_reps r with Some n => i < n | None => True end).
Proof.
  intros md r s d t i W Vt It.
  destruct (in_bounds_fwd md r s d t W Vt) as (b & E & H). exists b. split; [exact E|].
  rewrite H. destruct W as (_ & _ & _ & [_ L] & B).
  assert (A : (instant md s <= instant md t)%Q <-> 0 <= i).
  { rewrite It. pose proof (qmul_le_inj 0 i (dur_len d) L) as Q.
    change (inject_Z 0) with 0%Q in Q. rewrite <- Q. split; intros; lra. }
  rewrite A. destruct (r_reps r) as [n|], (r_end r) as [e|]; try contradiction; [|tauto].
  destruct B as (_ & _ & Ie).
  assert (C : (instant md t <= instant md e)%Q <-> i <= n - 1).
  { rewrite It, Ie. rewrite <- (qmul_le_inj i (n - 1) (dur_len d) L). split; intros; lra. }
  rewrite C. split; intros; lia.
Qed.

(* forward iteration from the grid point number i *)
Lemma iter_from_fwd_char : forall md r s d, fwd_ok md r s d -> forall k p i,
  valid_tp md p = true -> 0 <= i ->
  (instant md p == instant md s + inject_Z i * dur_len d)%Q ->
  length (iter_from md r true k (Some p)) =
    match r_reps r with None => k | Some n => Nat.min k (Z.to_nat (n - i)) end /\
  forall j q, nth_error (iter_from md r true k (Some p)) j = Some q ->
    (instant md q == instant md p + inject_Z (Z.of_nat j) * dur_len d)%Q /\
    valid_tp md q = true /\ same_shape q p.
Proof.
  intros md r s d W k. induction k as [|k IH]; intros p i Vp Hi Ip.
  - split; [cbn [iter_from length]; destruct (r_reps r); lia|].
    intros j q H. destruct j; discriminate H.
  - destruct (in_bounds_fwd_grid md r s d p i W Vp Ip) as (b & B & Hb).
    destruct b.
    + assert (R : match r_reps r with Some n => i < n | None => True end) by (apply Hb; reflexivity).
      rewrite (iter_from_in md r true k p B).
      pose proof W as (_ & D & _ & [Ex L] & _).
      rewrite (iter_from_step md r true k p d (fwd_ok_reps _ _ _ _ W) D).
      destruct (tp_add_exact_spec md p d Vp Ex) as (p' & E' & I' & K1 & K2 & K3 & V').
      rewrite E'.
      assert (Ip' : (instant md p' == instant md s + inject_Z (i + 1) * dur_len d)%Q).
      { rewrite I', Ip, inj_plus1_mul. ring. }
      destruct (IH p' (i + 1) V' ltac:(lia) Ip') as [IL IN].
      split.
      * cbn [length]. rewrite IL. destruct (r_reps r) as [n|]; lia.
      * intros j q H. destruct j as [|j]; cbn [nth_error] in H.
        -- injection H as <-. split; [|split; [exact Vp|apply same_shape_refl]].
           change (inject_Z (Z.of_nat 0)) with 0%Q. ring.
        -- destruct (IN j q H) as (Iq & Vq & Sq). split; [|split; [exact Vq|]].
           ++ rewrite Iq, I', inj_succ_mul. ring.
           ++ apply (same_shape_trans _ _ _ Sq). repeat split; assumption.
    + assert (O : iter_from md r true (S k) (Some p) = []).
      { apply iter_from_out. rewrite B. discriminate. }
      rewrite O. split.
      * cbn [length]. destruct (r_reps r) as [n|] eqn:Rn.
        -- assert (~ (0 <= i /\ i < n)) by (intros K; apply Hb in K; discriminate K). lia.
        -- assert (false = true) by (apply Hb; split; [exact Hi|exact I]). discriminate.
      * intros j q H. destruct j; discriminate H.
Qed.

(* backward iteration of an unbounded recurrence from end - i * interval *)
Lemma in_bounds_bwd : forall md r e d t, bwd_ok md r e d -> valid_tp md t = true ->
  exists b, in_bounds md r (Some t) = Some b /\ (b = true <-> (instant md t <= instant md e)%Q).
Proof.
  intros md r e d t W Vt.
  destruct (in_bounds_char md r t Vt (bwd_ok_start _ _ _ _ W) (bwd_ok_end _ _ _ _ W)) as (b & E & H).
  exists b. split; [exact E|]. destruct W as (S & En & _). rewrite S, En in H. rewrite H. tauto.
Qed.

Lemma iter_from_bwd_char : forall md r e d, bwd_ok md r e d -> forall k p i,
  valid_tp md p = true -> 0 <= i ->
  (instant md p == instant md e - inject_Z i * dur_len d)%Q ->
  length (iter_from md r false k (Some p)) = k /\
  forall j q, nth_error (iter_from md r false k (Some p)) j = Some q ->
    (instant md q == instant md p - inject_Z (Z.of_nat j) * dur_len d)%Q /\
    valid_tp md q = true /\ same_shape q p.
Proof.
  intros md r e d W k. induction k as [|k IH]; intros p i Vp Hi Ip.
  - split; [reflexivity|]. intros j q H. destruct j; discriminate H.
  - pose proof W as (_ & _ & D & _ & _ & [Ex L]).
    destruct (in_bounds_bwd md r e d p W Vp) as (b & B & Hb).
    assert (b = true).
    { apply Hb. rewrite Ip. pose proof (qmul_nonneg i (dur_len d) Hi L). lra. }
    subst b.
    rewrite (iter_from_in md r false k p B).
    rewrite (iter_from_step md r false k p d (bwd_ok_reps _ _ _ _ W) D).
    rewrite tp_sub_dur_def.
    destruct (tp_add_exact_spec md p (dur_mul d (-1)) Vp (is_exact_mul d (-1) Ex))
      as (p' & E' & I' & K1 & K2 & K3 & V').
    rewrite (dur_len_neg d Ex) in I'. rewrite E'.
    assert (Ip' : (instant md p' == instant md e - inject_Z (i + 1) * dur_len d)%Q).
    { rewrite I', Ip, inj_plus1_mul. ring. }
    destruct (IH p' (i + 1) V' ltac:(lia) Ip') as [IL IN].
    split.
    + cbn [length]. rewrite IL. reflexivity.
    + intros j q H. destruct j as [|j]; cbn [nth_error] in H.
      * injection H as <-. split; [|split; [exact Vp|apply same_shape_refl]].
        change (inject_Z (Z.of_nat 0)) with 0%Q. ring.
      * destruct (IN j q H) as (Iq & Vq & Sq). split; [|split; [exact Vq|]].
        -- rewrite Iq, I', inj_succ_mul. ring.
        -- apply (same_shape_trans _ _ _ Sq). repeat split; assumption.
Qed.

(* ---------- iter_take ---------- *)
Lemma iter_take_fwd md r s d k : fwd_ok md r s d ->
  iter_take md r k = iter_from md r true k (Some s).
Proof.
  intros W. unfold iter_take.
  rewrite (fwd_ok_reps _ _ _ _ W), (fwd_ok_falsy _ _ _ _ W). destruct W as (-> & _). reflexivity.
Qed.

Lemma iter_take_bwd md r e d k : bwd_ok md r e d ->
  iter_take md r k = iter_from md r false k (Some e).
Proof.
  intros W. unfold iter_take.
  rewrite (bwd_ok_reps _ _ _ _ W), (bwd_ok_falsy _ _ _ _ W). destruct W as (-> & -> & _). reflexivity.
Qed.

Lemma iter_take_single md r a k : single_ok md r a -> iter_take md r (S k) = [a].
Proof.
  intros (R & D & S & Va & e & En & Ve & Ie). unfold iter_take. rewrite R, S. cbn [zopt_eqb].
  change (1 =? 1) with true. cbn [orb].
  rewrite (in_bounds_true_intro md r a Va); [reflexivity | | | |].
  - rewrite S. exact Va.
  - rewrite En. exact Ve.
  - rewrite S. lra.
  - rewrite En. lra.
Qed.

Lemma iter_take_single_O md r a : single_ok md r a -> iter_take md r 0 = [].
Proof.
  intros (R & D & S & _). unfold iter_take. rewrite R, S. reflexivity.
Qed.

(* the series a forward recurrence iterates *)
Lemma fwd_ok_series : forall md r s d k, fwd_ok md r s d ->
  length (iter_take md r k) = count (r_reps r) k /\
  series_ok md (iter_take md r k) (instant md s) (dur_len d) 1 s.
Proof.
  intros md r s d k W. rewrite (iter_take_fwd md r s d k W).
  pose proof W as (_ & _ & Vs & _).
  assert (I0 : (instant md s == instant md s + inject_Z 0 * dur_len d)%Q).
  { change (inject_Z 0) with 0%Q. ring. }
  destruct (iter_from_fwd_char md r s d W k s 0 Vs ltac:(lia) I0) as [HL HN].
  split.
  - rewrite HL. unfold count. destruct (r_reps r) as [n|]; [|reflexivity].
    rewrite Z.sub_0_r. reflexivity.
  - intros i p H. destruct (HN i p H) as (Ip & Vp & S1 & S2 & S3).
    rewrite Z.mul_1_l. repeat split; assumption.
Qed.

(* the i-th point, when there is one *)
Lemma fwd_ok_nth : forall md r s d k i, fwd_ok md r s d ->
  (i < count (r_reps r) k)%nat ->
  exists p, nth_error (iter_take md r k) i = Some p /\
    (instant md p == instant md s + inject_Z (Z.of_nat i) * dur_len d)%Q /\
    valid_tp md p = true /\ same_shape p s.
Proof.
  intros md r s d k i W Hi. destruct (fwd_ok_series md r s d k W) as [HL HS].
  destruct (nth_error (iter_take md r k) i) as [p|] eqn:E.
  - exists p. split; [reflexivity|]. destruct (HS i p E) as (Ip & Vp & S). rewrite Z.mul_1_l in Ip.
    split; [exact Ip|]. split; [exact Vp|exact S].
  - apply nth_error_None in E. lia.
Qed.

Lemma bwd_ok_series : forall md r e d k, bwd_ok md r e d ->
  length (iter_take md r k) = k /\
  series_ok md (iter_take md r k) (instant md e) (dur_len d) (-1) e.
Proof.
  intros md r e d k W. rewrite (iter_take_bwd md r e d k W).
  pose proof W as (_ & _ & _ & _ & Ve & _).
  assert (I0 : (instant md e == instant md e - inject_Z 0 * dur_len d)%Q).
  { change (inject_Z 0) with 0%Q. ring. }
  destruct (iter_from_bwd_char md r e d W k e 0 Ve ltac:(lia) I0) as [HL HN].
  split; [exact HL|].
  intros i p H. destruct (HN i p H) as (Ip & Vp & S1 & S2 & S3).
  split; [|repeat split; assumption].
  rewrite Ip. replace (-1 * Z.of_nat i) with (- Z.of_nat i) by lia. rewrite inject_Z_opp. ring.
Qed.

Lemma bwd_ok_nth : forall md r e d k i, bwd_ok md r e d -> (i < k)%nat ->
  exists p, nth_error (iter_take md r k) i = Some p /\
    (instant md p == instant md e - inject_Z (Z.of_nat i) * dur_len d)%Q /\
    valid_tp md p = true /\ same_shape p e.
Proof.
  intros md r e d k i W Hi. rewrite (iter_take_bwd md r e d k W).
  pose proof W as (_ & _ & _ & _ & Ve & _).
  assert (I0 : (instant md e == instant md e - inject_Z 0 * dur_len d)%Q).
  { change (inject_Z 0) with 0%Q. ring. }
  destruct (iter_from_bwd_char md r e d W k e 0 Ve ltac:(lia) I0) as [HL HN].
  destruct (nth_error (iter_from md r false k (Some e)) i) as [p|] eqn:E.
  - exists p. split; [reflexivity|]. apply HN. exact E.
  - apply nth_error_None in E. lia.
Qed.

(* transport of series_ok along equal parameters *)
Lemma series_ok_ext md l a L sgn sh a' L' sh' :
  series_ok md l a L sgn sh -> (a == a')%Q -> (L == L')%Q -> same_shape sh sh' ->
  series_ok md l a' L' sgn sh'.
Proof.
  intros H Ea EL (S1 & S2 & S3) i p Hp. destruct (H i p Hp) as (Ip & Vp & K1 & K2 & K3).
  split; [rewrite Ip, Ea, EL; reflexivity|]. split; [exact Vp|].
  repeat split; congruence.
Qed.

(* ====================================================================== *)
(* 7. the constructor, notation by notation                                *)
(* ====================================================================== *)

Lemma tp_add_mul_spec md p d k : valid_tp md p = true -> is_exact d = true ->
  exists q, tp_add md p (dur_mul d k) = Some q /\
    (instant md q == instant md p + inject_Z k * dur_len d)%Q /\
    same_shape q p /\ valid_tp md q = true.
Proof.
  intros V Ex.
  destruct (tp_add_exact_spec md p (dur_mul d k) V (is_exact_mul d k Ex)) as (q & E & I & K1 & K2 & K3 & Vq).
  exists q. split; [exact E|]. split; [rewrite I, dur_len_mul; reflexivity|].
  split; [repeat split; assumption|exact Vq].
Qed.

Lemma tp_sub_dur_mul_spec md p d k : valid_tp md p = true -> is_exact d = true ->
  exists q, tp_sub_dur md p (dur_mul d k) = Some q /\
    (instant md q == instant md p - inject_Z k * dur_len d)%Q /\
    same_shape q p /\ valid_tp md q = true.
Proof.
  intros V Ex. rewrite tp_sub_dur_def.
  destruct (tp_add_exact_spec md p (dur_mul (dur_mul d k) (-1)) V
              (is_exact_mul _ (-1) (is_exact_mul d k Ex))) as (q & E & I & K1 & K2 & K3 & Vq).
  exists q. split; [exact E|].
  split; [rewrite I, (dur_len_neg _ (is_exact_mul d k Ex)), dur_len_mul; ring|].
  split; [repeat split; assumption|exact Vq].
Qed.

(* ---------- start/duration (format 3) ---------- *)
Lemma rec_make_fmt3_unbounded md s d : exact_pos d ->
  rec_make md None (Some s) (Some d) None = Ok (mkRec None (Some s) (Some d) None None 3).
Proof.
  intros [Ex L]. unfold rec_make. cbv beta iota.
  rewrite (dur_ltb_dzero_false md d Ex) by lra.
  cbn [zopt_eqb orb]. rewrite (dur_eqb_dzero_false d Ex L). reflexivity.
Qed.

Lemma rec_make_fmt3_bounded md s d n : valid_tp md s = true -> exact_pos d -> 2 <= n ->
  exists e', tp_add md s (dur_mul d (n - 1)) = Some e' /\
    (instant md e' == instant md s + inject_Z (n - 1) * dur_len d)%Q /\
    same_shape e' s /\ valid_tp md e' = true /\
    rec_make md (Some n) (Some s) (Some d) None = Ok (mkRec (Some n) (Some s) (Some d) (Some e') None 3).
Proof.
  intros V [Ex L] Hn. destruct (tp_add_mul_spec md s d (n - 1) V Ex) as (e' & E & I & S & Ve).
  exists e'. repeat (split; [assumption|]).
  unfold rec_make. cbv beta iota.
  destruct (n <=? 0) eqn:G; [lia|].
  rewrite (dur_ltb_dzero_false md d Ex) by lra.
  cbn [zopt_eqb]. destruct (n =? 1) eqn:G1; [lia|]. cbn [orb].
  rewrite (dur_eqb_dzero_false d Ex L), E. reflexivity.
Qed.

Lemma rec_make_fmt3_single md reps s d : is_exact d = true -> (0 <= dur_len d)%Q ->
  (reps = Some 1 \/ ((dur_len d == 0)%Q /\ match reps with Some n => 1 <= n | None => True end)) ->
  rec_make md reps (Some s) (Some d) None = Ok (mkRec (Some 1) (Some s) None (Some s) None 3).
Proof.
  intros Ex L H. unfold rec_make. cbv beta iota.
  rewrite (dur_ltb_dzero_false md d Ex L).
  assert (G : match reps with Some n => n <=? 0 | None => false end = false).
  { destruct H as [-> | [_ H]]; [reflexivity|]. destruct reps; [lia|reflexivity]. }
  rewrite G.
  assert (T : zopt_eqb reps 1 || dur_eqb d dzero = true).
  { destruct H as [-> | [Z _]]; [reflexivity|].
    apply orb_true_iff. right. apply (dur_eqb_dzero d Ex). exact Z. }
  rewrite T. reflexivity.
Qed.

(* ---------- duration/end (format 4) ---------- *)
Lemma rec_make_fmt4_unbounded md e d : exact_pos d ->
  rec_make md None None (Some d) (Some e) = Ok (mkRec None None (Some d) (Some e) None 4).
Proof.
  intros [Ex L]. unfold rec_make. cbv beta iota.
  rewrite (dur_ltb_dzero_false md d Ex) by lra.
  cbn [zopt_eqb orb]. rewrite (dur_eqb_dzero_false d Ex L). reflexivity.
Qed.

Lemma rec_make_fmt4_bounded md e d n : valid_tp md e = true -> exact_pos d -> 2 <= n ->
  exists s', tp_sub_dur md e (dur_mul d (n - 1)) = Some s' /\
    (instant md s' == instant md e - inject_Z (n - 1) * dur_len d)%Q /\
    same_shape s' e /\ valid_tp md s' = true /\
    rec_make md (Some n) None (Some d) (Some e) = Ok (mkRec (Some n) (Some s') (Some d) (Some e) None 4).
Proof.
  intros V [Ex L] Hn. destruct (tp_sub_dur_mul_spec md e d (n - 1) V Ex) as (s' & E & I & S & Vs).
  exists s'. repeat (split; [assumption|]).
  unfold rec_make. cbv beta iota.
  destruct (n <=? 0) eqn:G; [lia|].
  rewrite (dur_ltb_dzero_false md d Ex) by lra.
  cbn [zopt_eqb]. destruct (n =? 1) eqn:G1; [lia|]. cbn [orb].
  rewrite (dur_eqb_dzero_false d Ex L), E. reflexivity.
Qed.

Lemma rec_make_fmt4_single md reps e d : is_exact d = true -> (0 <= dur_len d)%Q ->
  (reps = Some 1 \/ ((dur_len d == 0)%Q /\ match reps with Some n => 1 <= n | None => True end)) ->
  rec_make md reps None (Some d) (Some e) = Ok (mkRec (Some 1) (Some e) None (Some e) None 4).
Proof.
  intros Ex L H. unfold rec_make. cbv beta iota.
  rewrite (dur_ltb_dzero_false md d Ex L).
  assert (G : match reps with Some n => n <=? 0 | None => false end = false).
  { destruct H as [-> | [_ H]]; [reflexivity|]. destruct reps; [lia|reflexivity]. }
  rewrite G.
  assert (T : zopt_eqb reps 1 || dur_eqb d dzero = true).
  { destruct H as [-> | [Z _]]; [reflexivity|].
    apply orb_true_iff. right. apply (dur_eqb_dzero d Ex). exact Z. }
  rewrite T. reflexivity.
Qed.

(* ---------- start/second point (format 1) ---------- *)
Lemma rec_make_fmt1_one md s e : 
  rec_make md (Some 1) s None e = Ok (mkRec (Some 1) s None s s 1).
Proof. reflexivity. Qed.

Lemma rec_make_fmt1_equal md reps s e : valid_tp md s = true -> valid_tp md e = true ->
  (instant md s == instant md e)%Q -> match reps with Some n => 2 <= n | None => True end ->
  rec_make md reps (Some s) None (Some e) = Ok (mkRec (Some 1) (Some s) None (Some e) (Some e) 1).
Proof.
  intros Vs Ve I H. unfold rec_make. cbv beta iota.
  assert (G : match reps with Some n => n <=? 0 | None => false end = false).
  { destruct reps; [lia|reflexivity]. }
  assert (G1 : zopt_eqb reps 1 = false).
  { destruct reps; [cbn [zopt_eqb]; lia|reflexivity]. }
  rewrite G, G1, (tp_cmp_eq md s e Vs Ve I). reflexivity.
Qed.

Lemma rec_make_fmt1_later md reps s e : valid_tp md s = true -> valid_tp md e = true ->
  (instant md s < instant md e)%Q -> match reps with Some n => 2 <= n | None => True end ->
  exists dd, tp_sub md e s = Some dd /\ exact_pos dd /\
    (dur_len dd == instant md e - instant md s)%Q /\
    match reps with
    | None => rec_make md None (Some s) None (Some e) = Ok (mkRec None (Some s) (Some dd) None (Some e) 1)
    | Some n => exists e', tp_add md s (dur_mul dd (n - 1)) = Some e' /\
        (instant md e' == instant md s + inject_Z (n - 1) * dur_len dd)%Q /\
        same_shape e' s /\ valid_tp md e' = true /\
        rec_make md (Some n) (Some s) None (Some e) =
          Ok (mkRec (Some n) (Some s) (Some dd) (Some e') (Some e) 1)
    end.
Proof.
  intros Vs Ve I H.
  destruct (tp_sub_spec md e s Ve Vs) as (dd & h & m & ss & E & Len & _).
  set (dur := DU 0 0 dd h m ss) in *.
  assert (Ex : is_exact dur = true) by reflexivity.
  exists dur. split; [exact E|]. split; [split; [exact Ex|lra]|]. split; [exact Len|].
  destruct reps as [n|].
  - destruct (tp_add_mul_spec md s dur (n - 1) Vs Ex) as (e' & E' & I' & S' & V').
    exists e'. repeat (split; [assumption|]).
    unfold rec_make. cbv beta iota. cbn [zopt_eqb].
    destruct (n <=? 0) eqn:G; [lia|]. destruct (n =? 1) eqn:G1; [lia|].
    rewrite (tp_cmp_lt md s e Vs Ve I), E, E'. reflexivity.
  - unfold rec_make. cbv beta iota. cbn [zopt_eqb].
    rewrite (tp_cmp_lt md s e Vs Ve I), E. reflexivity.
Qed.

(* ====================================================================== *)
(* 8. property C12                                                         *)
(* ====================================================================== *)

Lemma start_duration_series : forall md s d reps k,
  valid_tp md s = true -> exact_pos d -> (match reps with Some n => 2 <= n | None => True end) ->
  exists r, rec_make md reps (Some s) (Some d) None = Ok r /\
    r_start r = Some s /\ r_reps r = reps /\ r_dur r = Some d /\ r_fmt r = 3 /\
    (match reps, r_end r with
     | Some n, Some e => (instant md e == instant md s + inject_Z (n - 1) * dur_len d)%Q
     | None, None => True | _, _ => False end) /\
    length (iter_take md r k) = count reps k /\
    series_ok md (iter_take md r k) (instant md s) (dur_len d) 1 s.
Proof.
  intros md s d reps k Vs P H. destruct reps as [n|].
  - destruct (rec_make_fmt3_bounded md s d n Vs P H) as (e' & _ & I & _ & Ve & E).
    eexists. split; [exact E|]. cbn [r_start r_reps r_dur r_fmt r_end].
    repeat (split; [reflexivity|]). split; [exact I|].
    apply (fwd_ok_series md (mkRec (Some n) (Some s) (Some d) (Some e') None 3) s d k).
    repeat split; try assumption; apply P.
  - eexists. split; [apply (rec_make_fmt3_unbounded md s d P)|]. cbn [r_start r_reps r_dur r_fmt r_end].
    repeat (split; [reflexivity|]).
    apply (fwd_ok_series md (mkRec None (Some s) (Some d) None None 3) s d k).
    repeat split; try assumption; apply P.
Qed.

Lemma duration_end_unbounded_series : forall md e d k,
  valid_tp md e = true -> exact_pos d ->
  exists r, rec_make md None None (Some d) (Some e) = Ok r /\
    r_start r = None /\ r_end r = Some e /\ r_fmt r = 4 /\
    length (iter_take md r k) = k /\
    series_ok md (iter_take md r k) (instant md e) (dur_len d) (-1) e.
Proof.
  intros md e d k Ve P. eexists. split; [apply (rec_make_fmt4_unbounded md e d P)|].
  cbn [r_start r_end r_fmt]. repeat (split; [reflexivity|]).
  apply (bwd_ok_series md (mkRec None None (Some d) (Some e) None 4) e d k).
  repeat split; try assumption; apply P.
Qed.

Lemma duration_end_bounded_series : forall md e d n k,
  valid_tp md e = true -> exact_pos d -> 2 <= n ->
  exists r, rec_make md (Some n) None (Some d) (Some e) = Ok r /\
    r_end r = Some e /\ r_reps r = Some n /\ r_fmt r = 4 /\
    length (iter_take md r k) = count (Some n) k /\
    series_ok md (iter_take md r k) (instant md e - inject_Z (n - 1) * dur_len d) (dur_len d) 1 e /\
    (forall p, nth_error (iter_take md r k) (Z.to_nat (n - 1)) = Some p -> (instant md p == instant md e)%Q).
Proof.
  intros md e d n k Ve P Hn.
  destruct (rec_make_fmt4_bounded md e d n Ve P Hn) as (s' & _ & I & S & Vs & E).
  eexists. split; [exact E|]. cbn [r_end r_reps r_fmt]. repeat (split; [reflexivity|]).
  assert (W : fwd_ok md (mkRec (Some n) (Some s') (Some d) (Some e) None 4) s' d).
  { repeat split; try assumption; try apply P. cbn [r_end]. rewrite I. ring. }
  destruct (fwd_ok_series md _ s' d k W) as [HL HS]. cbn [r_reps] in HL.
  split; [exact HL|]. split.
  - apply (series_ok_ext md _ _ _ _ _ _ _ _ HS); [exact I | reflexivity | exact S].
  - intros p Hp. destruct (HS _ p Hp) as (Ip & _). rewrite Ip, I.
    rewrite Z.mul_1_l, Z2Nat.id by lia. ring.
Qed.

Lemma start_second_series : forall md s e reps k,
  valid_tp md s = true -> valid_tp md e = true -> (instant md s < instant md e)%Q ->
  (match reps with Some n => 2 <= n | None => True end) ->
  exists r, rec_make md reps (Some s) None (Some e) = Ok r /\
    r_start r = Some s /\ r_reps r = reps /\ r_fmt r = 1 /\
    (exists d, r_dur r = Some d /\ is_exact d = true /\ (dur_len d == instant md e - instant md s)%Q) /\
    length (iter_take md r k) = count reps k /\
    series_ok md (iter_take md r k) (instant md s) (instant md e - instant md s) 1 s.
Proof.
  intros md s e reps k Vs Ve I H.
  destruct (rec_make_fmt1_later md reps s e Vs Ve I H) as (dd & _ & P & Len & M).
  destruct reps as [n|].
  - destruct M as (e' & _ & I' & _ & V' & E).
    eexists. split; [exact E|]. cbn [r_start r_reps r_fmt r_dur]. repeat (split; [reflexivity|]).
    split; [exists dd; split; [reflexivity|]; split; [apply P|exact Len]|].
    assert (W : fwd_ok md (mkRec (Some n) (Some s) (Some dd) (Some e') (Some e) 1) s dd).
    { repeat split; try assumption; apply P. }
    destruct (fwd_ok_series md _ s dd k W) as [HL HS]. split; [exact HL|].
    apply (series_ok_ext md _ _ _ _ _ _ _ _ HS); [reflexivity | exact Len | apply same_shape_refl].
  - eexists. split; [exact M|]. cbn [r_start r_reps r_fmt r_dur]. repeat (split; [reflexivity|]).
    split; [exists dd; split; [reflexivity|]; split; [apply P|exact Len]|].
    assert (W : fwd_ok md (mkRec None (Some s) (Some dd) None (Some e) 1) s dd).
    { repeat split; try assumption; apply P. }
    destruct (fwd_ok_series md _ s dd k W) as [HL HS]. split; [exact HL|].
    apply (series_ok_ext md _ _ _ _ _ _ _ _ HS); [reflexivity | exact Len | apply same_shape_refl].
Qed.

Lemma single_point_series : forall md a d reps k,
  valid_tp md a = true -> is_exact d = true -> (0 <= dur_len d)%Q ->
  (reps = Some 1 \/ ((dur_len d == 0)%Q /\ match reps with Some n => 1 <= n | None => True end)) ->
  (exists r, rec_make md reps (Some a) (Some d) None = Ok r /\ iter_take md r (S k) = [a]) /\
  (exists r, rec_make md reps None (Some d) (Some a) = Ok r /\ iter_take md r (S k) = [a]) /\
  (exists r, rec_make md (Some 1) (Some a) None (Some a) = Ok r /\ iter_take md r (S k) = [a]).
Proof.
  intros md a d reps k Va Ex L H.
  assert (S : forall sec f, single_ok md (mkRec (Some 1) (Some a) None (Some a) sec f) a).
  { intros sec f. repeat split; try assumption. exists a. repeat split; try assumption; reflexivity. }
  split; [|split].
  - eexists. split; [apply (rec_make_fmt3_single md reps a d Ex L H)|]. apply iter_take_single, S.
  - eexists. split; [apply (rec_make_fmt4_single md reps a d Ex L H)|]. apply iter_take_single, S.
  - eexists. split; [apply rec_make_fmt1_one|]. apply iter_take_single, S.
Qed.

Lemma dur_eqb_same_len a b : is_exact a = true -> is_exact b = true ->
  (dur_len a == dur_len b)%Q -> dur_eqb a b = true.
Proof. intros Ea Eb H. apply (dur_eqb_exact a b Ea Eb). exact H. Qed.

Lemma notations_equal : forall md s d n e r1 r3 r4,
  valid_tp md s = true -> exact_pos d -> 2 <= n ->
  tp_add md s d = Some e ->
  rec_make md (Some n) (Some s) None (Some e) = Ok r1 ->
  rec_make md (Some n) (Some s) (Some d) None = Ok r3 ->
  (forall last, r_end r3 = Some last -> rec_make md (Some n) None (Some d) (Some last) = Ok r4) ->
  rec_eqb md r1 r3 = true /\ rec_eqb md r3 r4 = true /\ rec_eqb md r1 r4 = true.
Proof.
  intros md s d n e r1 r3 r4 Vs P Hn Ha H1 H3 H4.
  pose proof P as [Ex L].
  destruct (tp_add_exact_spec md s d Vs Ex) as (e0 & Ea & Ie & _ & _ & _ & Ve).
  rewrite Ha in Ea. injection Ea as <-.
  assert (Lt : (instant md s < instant md e)%Q) by lra.
  destruct (rec_make_fmt1_later md (Some n) s e Vs Ve Lt Hn) as (dd & _ & [Exd Ld] & Len & e1 & _ & I1 & _ & V1 & E1).
  rewrite E1 in H1. injection H1 as <-.
  destruct (rec_make_fmt3_bounded md s d n Vs P Hn) as (e3 & _ & I3 & _ & V3 & E3).
  rewrite E3 in H3. injection H3 as <-.
  specialize (H4 e3 eq_refl).
  destruct (rec_make_fmt4_bounded md e3 d n V3 P Hn) as (s4 & _ & I4 & _ & V4 & E4).
  rewrite E4 in H4. injection H4 as <-.
  assert (Dd : dur_eqb dd d = true).
  { apply dur_eqb_same_len; [exact Exd | exact Ex |]. rewrite Len, Ie. ring. }
  assert (D0 : dur_eqb d d = true).
  { apply dur_eqb_same_len; [exact Ex | exact Ex | reflexivity]. }
  assert (Tss : tp_eqb md s s = Some true) by (apply tp_eqb_true; [assumption..|reflexivity]).
  assert (T33 : tp_eqb md e3 e3 = Some true) by (apply tp_eqb_true; [assumption..|reflexivity]).
  assert (T13 : tp_eqb md e1 e3 = Some true).
  { apply tp_eqb_true; [assumption..|]. rewrite I1, I3, Len, Ie.
    setoid_replace (instant md s + dur_len d - instant md s)%Q with (dur_len d) by ring. reflexivity. }
  assert (Ts4 : tp_eqb md s s4 = Some true).
  { apply tp_eqb_true; [assumption..|]. rewrite I4, I3. ring. }
  unfold rec_eqb, opt_z_eqb, opt_tp_eqb, opt_dur_eqb.
  cbn [r_reps r_start r_end r_dur].
  rewrite Z.eqb_refl, Tss, T33, T13, Ts4, Dd, D0. repeat split; reflexivity.
Qed.

(* the single-point branch of iter_take yields at most one point *)
Lemma iter_take_unfold md r k :
  iter_take md r k =
  if zopt_eqb (r_reps r) 1 || dur_falsy (r_dur r) then
    match k, (match r_start r with None => r_end r | Some _ => r_start r end),
          in_bounds md r (match r_start r with None => r_end r | Some _ => r_start r end) with
    | S _, Some t, Some true => [t]
    | _, _, _ => []
    end
  else iter_from md r (match r_start r with None => false | Some _ => true end) k
         (match r_start r with None => r_end r | Some _ => r_start r end).
Proof.
  unfold iter_take.
  destruct (r_start r); [reflexivity|].
  destruct (zopt_eqb (r_reps r) 1 || dur_falsy (r_dur r)); [|reflexivity].
  destruct k; [reflexivity|]. destruct (r_end r); reflexivity.
Qed.

Lemma iter_step : forall md r k i p q d,
  r_dur r = Some d -> nth_error (iter_take md r k) i = Some p ->
  nth_error (iter_take md r k) (S i) = Some q ->
  Some q = (match r_start r with Some _ => tp_add md p d | None => tp_sub_dur md p d end).
Proof.
  intros md r k i p q d D H1 H2. rewrite iter_take_unfold in H1, H2.
  destruct (zopt_eqb (r_reps r) 1 || dur_falsy (r_dur r)).
  - exfalso. destruct k as [|k]; [destruct i; discriminate H1|].
    destruct (match r_start r with None => r_end r | Some _ => r_start r end) as [t|];
      [|destruct i; discriminate H1].
    destruct (in_bounds md r (Some t)) as [[|]|]; try (destruct i; discriminate H1).
    destruct i; discriminate H2.
  - pose proof (iter_from_consecutive _ _ _ _ _ _ _ _ H1 H2) as St.
    apply step_point_Some_inv in St.
    destruct St as (t & d' & Et & D' & _ & Q & _). injection Et as <-.
    rewrite D in D'. injection D' as <-.
    destruct (r_start r); symmetry; exact Q.
Qed.

(* ====================================================================== *)
(* 9. more for the query properties (C13)                                  *)
(* ====================================================================== *)

(* statement of C13_in_bounds *)
Lemma in_bounds_spec : forall md r s d t, fwd_ok md r s d -> valid_tp md t = true ->
  exists b, in_bounds md r (Some t) = Some b /\
    (b = true <-> (instant md s <= instant md t)%Q /\
                  match r_end r with Some e => (instant md t <= instant md e)%Q | None => True end).
Proof. exact in_bounds_fwd. Qed.

(* index range of the series, as a boolean *)
Definition in_rangeb (r : recur) (i : Z) : bool :=
  (0 <=? i) && match r_reps r with Some n => i <? n | None => true end.

Lemma in_rangeb_iff r i :
  in_rangeb r i = true <-> 0 <= i /\ match r_reps r with Some n => i < n | None => True end.
Proof. unfold in_rangeb. destruct (r_reps r); lia. Qed.

Lemma in_bounds_fwd_gridb : forall md r s d t i, fwd_ok md r s d -> valid_tp md t = true ->
  (instant md t == instant md s + inject_Z i * dur_len d)%Q ->
  in_bounds md r (Some t) = Some (in_rangeb r i).
Proof.
  intros md r s d t i W Vt It.
  destruct (in_bounds_fwd_grid md r s d t i W Vt It) as (b & E & H). rewrite E. f_equal.
  rewrite <- in_rangeb_iff in H. destruct b, (in_rangeb r i); try reflexivity.
  - symmetry. apply H. reflexivity.
  - apply H. reflexivity.
Qed.

(* get_next / get_prev from a grid point of a forward recurrence *)
Lemma step_fwd_grid : forall md r s d (fwd : bool) t i, fwd_ok md r s d -> valid_tp md t = true ->
  (instant md t == instant md s + inject_Z i * dur_len d)%Q ->
  exists t', (if fwd then tp_add md t d else tp_sub_dur md t d) = Some t' /\
    (instant md t' == instant md s + inject_Z (if fwd then i + 1 else i - 1) * dur_len d)%Q /\
    same_shape t' t /\ valid_tp md t' = true /\
    step_point md r fwd (Some t) = (if in_rangeb r (if fwd then i + 1 else i - 1) then Some t' else None).
Proof.
  intros md r s d fwd t i W Vt It.
  pose proof W as (_ & D & _ & [Ex L] & _).
  destruct (step_point_spec md r fwd t d (fwd_ok_start _ _ _ _ W) (fwd_ok_end _ _ _ _ W)
              (fwd_ok_reps _ _ _ _ W) D Ex Vt) as (t' & E & I' & K1 & K2 & K3 & V' & b & B & _ & St).
  exists t'. split; [exact E|].
  assert (Ig : (instant md t' == instant md s + inject_Z (if fwd then i + 1 else i - 1) * dur_len d)%Q).
  { rewrite I', It. destruct fwd.
    - rewrite inj_plus1_mul. ring.
    - unfold Z.sub. rewrite inject_Z_plus, inject_Z_opp. change (inject_Z 1) with 1%Q. ring. }
  split; [exact Ig|]. split; [repeat split; assumption|]. split; [exact V'|].
  rewrite St. rewrite (in_bounds_fwd_gridb md r s d t' _ W V' Ig) in B. injection B as <-. reflexivity.
Qed.

(* get_next / get_prev from any valid point at or after the start (C13_next_prev) *)
Lemma next_prev_fwd : forall md r s d t, fwd_ok md r s d -> valid_tp md t = true ->
  (instant md s <= instant md t)%Q ->
  (match get_next md r (Some t) with
   | Some q => (instant md q == instant md t + dur_len d)%Q /\ valid_tp md q = true /\
               match r_end r with Some e => (instant md q <= instant md e)%Q | None => True end
   | None => match r_end r with Some e => (instant md e < instant md t + dur_len d)%Q | None => False end
   end) /\
  (match get_prev md r (Some t) with
   | Some q => (instant md q == instant md t - dur_len d)%Q /\ valid_tp md q = true /\
               (instant md s <= instant md q)%Q
   | None => (instant md t - dur_len d < instant md s)%Q \/
             match r_end r with Some e => (instant md e < instant md t - dur_len d)%Q | None => False end
   end).
Proof.
  intros md r s d t W Vt Ls.
  pose proof W as (S & D & _ & [Ex L] & _).
  split.
  - destruct (step_point_spec md r true t d (fwd_ok_start _ _ _ _ W) (fwd_ok_end _ _ _ _ W)
                (fwd_ok_reps _ _ _ _ W) D Ex Vt) as (t' & E & I' & _ & _ & _ & V' & b & B & Hb & St).
    unfold get_next. rewrite St. rewrite S in Hb. destruct b.
    + split; [exact I'|]. split; [exact V'|]. apply Hb. reflexivity.
    + destruct (r_end r) as [e|].
      * destruct (Qlt_le_dec (instant md e) (instant md t + dur_len d)) as [K|K]; [exact K|].
        exfalso. assert (false = true); [|discriminate]. apply Hb. split; lra.
      * assert (false = true); [|discriminate]. apply Hb. split; [lra|exact I].
  - destruct (step_point_spec md r false t d (fwd_ok_start _ _ _ _ W) (fwd_ok_end _ _ _ _ W)
                (fwd_ok_reps _ _ _ _ W) D Ex Vt) as (t' & E & I' & _ & _ & _ & V' & b & B & Hb & St).
    unfold get_prev. rewrite St. rewrite S in Hb. destruct b.
    + split; [rewrite I'; ring|]. split; [exact V'|]. apply Hb. reflexivity.
    + destruct (Qlt_le_dec (instant md t - dur_len d) (instant md s)) as [K|K]; [left; exact K|].
      right. destruct (r_end r) as [e|].
      * destruct (Qlt_le_dec (instant md e) (instant md t - dur_len d)) as [K'|K']; [exact K'|].
        exfalso. assert (false = true); [|discriminate]. apply Hb. split; lra.
      * assert (false = true); [|discriminate]. apply Hb. split; [lra|exact I].
Qed.

(* r[i] *)
Lemma fwd_ok_nth_none : forall md r s d k i, fwd_ok md r s d ->
  ~ (i < count (r_reps r) k)%nat -> nth_error (iter_take md r k) i = None.
Proof.
  intros md r s d k i W H. apply nth_error_None.
  destruct (fwd_ok_series md r s d k W) as [HL _]. lia.
Qed.

Lemma getitem_fwd : forall md r s d i, fwd_ok md r s d -> 0 <= i ->
  (in_rangeb r i = true -> exists p, rec_getitem md r i = Some p /\
      (instant md p == instant md s + inject_Z i * dur_len d)%Q /\ valid_tp md p = true /\
      same_shape p s /\
      nth_error (iter_take md r (S (Z.to_nat i))) (Z.to_nat i) = Some p) /\
  (in_rangeb r i = false -> rec_getitem md r i = None).
Proof.
  intros md r s d i W Hi. unfold rec_getitem. destruct (i <? 0) eqn:N; [lia|].
  split; intros R.
  - apply in_rangeb_iff in R.
    destruct (fwd_ok_nth md r s d (S (Z.to_nat i)) (Z.to_nat i) W) as (p & E & Ip & Vp & Sp).
    { unfold count. destruct (r_reps r); lia. }
    exists p. rewrite Z2Nat.id in Ip by lia. repeat (split; [assumption|]). exact E.
  - apply (fwd_ok_nth_none md r s d _ _ W). intros K.
    assert (in_rangeb r i = true); [|congruence].
    apply in_rangeb_iff. unfold count in K. destruct (r_reps r); lia.
Qed.

(* ====================================================================== *)
(* 10. the constructor inverted (for C14)                                  *)
(* ====================================================================== *)

Definition reps_ge (k : Z) (reps : option Z) : Prop :=
  match reps with Some n => k <= n | None => True end.

(* everything rec_make can return on valid points and exact intervals *)
Inductive rec_shape (md : mode) : option Z -> option tp -> option dur -> option tp -> recur -> Prop :=
| RS1_one s e : opt_valid md s ->
    rec_shape md (Some 1) s None e (mkRec (Some 1) s None s s 1)
| RS1_equal reps s0 e0 : reps_ge 2 reps -> valid_tp md s0 = true -> valid_tp md e0 = true ->
    (instant md s0 == instant md e0)%Q ->
    rec_shape md reps (Some s0) None (Some e0) (mkRec (Some 1) (Some s0) None (Some e0) (Some e0) 1)
| RS1_unbounded s0 e0 dd : valid_tp md s0 = true -> valid_tp md e0 = true ->
    (instant md s0 < instant md e0)%Q -> tp_sub md e0 s0 = Some dd -> exact_pos dd ->
    (dur_len dd == instant md e0 - instant md s0)%Q ->
    rec_shape md None (Some s0) None (Some e0) (mkRec None (Some s0) (Some dd) None (Some e0) 1)
| RS1_bounded n s0 e0 dd e' : 2 <= n -> valid_tp md s0 = true -> valid_tp md e0 = true ->
    (instant md s0 < instant md e0)%Q -> tp_sub md e0 s0 = Some dd -> exact_pos dd ->
    (dur_len dd == instant md e0 - instant md s0)%Q ->
    tp_add md s0 (dur_mul dd (n - 1)) = Some e' -> valid_tp md e' = true -> same_shape e' s0 ->
    (instant md e' == instant md s0 + inject_Z (n - 1) * dur_len dd)%Q ->
    rec_shape md (Some n) (Some s0) None (Some e0) (mkRec (Some n) (Some s0) (Some dd) (Some e') (Some e0) 1)
| RS3_single reps s0 dd : reps_ge 1 reps -> valid_tp md s0 = true -> is_exact dd = true ->
    (0 <= dur_len dd)%Q -> (reps = Some 1 \/ (dur_len dd == 0)%Q) ->
    rec_shape md reps (Some s0) (Some dd) None (mkRec (Some 1) (Some s0) None (Some s0) None 3)
| RS3_unbounded s0 dd : valid_tp md s0 = true -> exact_pos dd ->
    rec_shape md None (Some s0) (Some dd) None (mkRec None (Some s0) (Some dd) None None 3)
| RS3_bounded n s0 dd e' : 2 <= n -> valid_tp md s0 = true -> exact_pos dd ->
    tp_add md s0 (dur_mul dd (n - 1)) = Some e' -> valid_tp md e' = true -> same_shape e' s0 ->
    (instant md e' == instant md s0 + inject_Z (n - 1) * dur_len dd)%Q ->
    rec_shape md (Some n) (Some s0) (Some dd) None (mkRec (Some n) (Some s0) (Some dd) (Some e') None 3)
| RS4_single reps e0 dd : reps_ge 1 reps -> valid_tp md e0 = true -> is_exact dd = true ->
    (0 <= dur_len dd)%Q -> (reps = Some 1 \/ (dur_len dd == 0)%Q) ->
    rec_shape md reps None (Some dd) (Some e0) (mkRec (Some 1) (Some e0) None (Some e0) None 4)
| RS4_unbounded e0 dd : valid_tp md e0 = true -> exact_pos dd ->
    rec_shape md None None (Some dd) (Some e0) (mkRec None None (Some dd) (Some e0) None 4)
| RS4_bounded n e0 dd s' : 2 <= n -> valid_tp md e0 = true -> exact_pos dd ->
    tp_sub_dur md e0 (dur_mul dd (n - 1)) = Some s' -> valid_tp md s' = true -> same_shape s' e0 ->
    (instant md s' == instant md e0 - inject_Z (n - 1) * dur_len dd)%Q ->
    rec_shape md (Some n) None (Some dd) (Some e0) (mkRec (Some n) (Some s') (Some dd) (Some e0) None 4).

Lemma zopt_eqb_true reps k : zopt_eqb reps k = true -> reps = Some k.
Proof. destruct reps as [n|]; cbn [zopt_eqb]; [|discriminate]. intros H. f_equal. lia. Qed.

Lemma reps_guard reps : match reps with Some n => n <=? 0 | None => false end = false -> reps_ge 1 reps.
Proof. destruct reps; cbn [reps_ge]; lia. Qed.

Lemma reps_guard2 reps : reps_ge 1 reps -> zopt_eqb reps 1 = false -> reps_ge 2 reps.
Proof. destruct reps; cbn [reps_ge zopt_eqb]; lia. Qed.

Lemma rec_make_shape : forall md reps s d e r,
  rec_make md reps s d e = Ok r -> opt_valid md s -> opt_valid md e ->
  match d with Some x => is_exact x = true | None => True end ->
  rec_shape md reps s d e r.
Proof.
  intros md reps s d e r H Vs Ve Ex. unfold rec_make in H.
  destruct (match reps with Some n => n <=? 0 | None => false end) eqn:G; [discriminate H|].
  apply reps_guard in G.
  destruct d as [dd|].
  - destruct (dur_ltb md dd dzero) eqn:G2; [discriminate H|].
    assert (L0 : (0 <= dur_len dd)%Q).
    { destruct (Qlt_le_dec (dur_len dd) 0) as [K|K]; [|exact K].
      apply (dur_ltb_dzero md dd Ex) in K. congruence. }
    assert (SINGLE : zopt_eqb reps 1 || dur_eqb dd dzero = true -> reps = Some 1 \/ (dur_len dd == 0)%Q).
    { intros T. apply orb_true_iff in T. destruct T as [T|T].
      - left. apply zopt_eqb_true. exact T.
      - right. apply (dur_eqb_dzero dd Ex). exact T. }
    assert (MULTI : zopt_eqb reps 1 || dur_eqb dd dzero = false -> reps_ge 2 reps /\ exact_pos dd).
    { intros T. apply orb_false_iff in T. destruct T as [T1 T2]. split; [apply reps_guard2; assumption|].
      split; [exact Ex|]. destruct (Qlt_le_dec 0 (dur_len dd)) as [K|K]; [exact K|].
      assert (dur_eqb dd dzero = true); [|congruence]. apply (dur_eqb_dzero dd Ex). lra. }
    destruct s as [s0|], e as [e0|]; try discriminate H.
    + destruct (zopt_eqb reps 1 || dur_eqb dd dzero) eqn:T.
      * injection H as <-. apply RS3_single; auto.
      * destruct (MULTI eq_refl) as [R2 P]. destruct reps as [n|].
        -- destruct (tp_add_mul_spec md s0 dd (n - 1) Vs Ex) as (e' & E & I & S & V).
           rewrite E in H. injection H as <-. apply RS3_bounded; auto.
        -- injection H as <-. apply RS3_unbounded; auto.
    + destruct (zopt_eqb reps 1 || dur_eqb dd dzero) eqn:T.
      * injection H as <-. apply RS4_single; auto.
      * destruct (MULTI eq_refl) as [R2 P]. destruct reps as [n|].
        -- destruct (tp_sub_dur_mul_spec md e0 dd (n - 1) Ve Ex) as (s' & E & I & S & V).
           rewrite E in H. injection H as <-. apply RS4_bounded; auto.
        -- injection H as <-. apply RS4_unbounded; auto.
  - cbv beta iota in H. destruct (zopt_eqb reps 1) eqn:T.
    + apply zopt_eqb_true in T. subst reps. injection H as <-. apply RS1_one. exact Vs.
    + pose proof (reps_guard2 reps G T) as R2.
      destruct s as [s0|], e as [e0|]; try discriminate H.
      cbn [opt_valid] in Vs, Ve.
      rewrite (tp_cmp_spec md s0 e0 Vs Ve) in H.
      destruct (instant md s0 ?= instant md e0)%Q eqn:C.
      * rewrite <- Qeq_alt in C. injection H as <-. apply RS1_equal; auto.
      * rewrite <- Qlt_alt in C.
        destruct (tp_sub_spec md e0 s0 Ve Vs) as (dy & h & m & ss & E & Len & _).
        rewrite E in H.
        assert (P : exact_pos (DU 0 0 dy h m ss)) by (split; [reflexivity|lra]).
        destruct reps as [n|].
        -- destruct (tp_add_mul_spec md s0 (DU 0 0 dy h m ss) (n - 1) Vs eq_refl) as (e' & E' & I' & S' & V').
           rewrite E' in H. injection H as <-. apply RS1_bounded; auto.
        -- injection H as <-. apply RS1_unbounded; auto.
      * discriminate H.
Qed.

(* ... and conversely *)
Lemma rec_shape_make : forall md reps s d e r, rec_shape md reps s d e r -> rec_make md reps s d e = Ok r.
Proof.
  intros md reps s d e r H. destruct H.
  - reflexivity.
  - apply rec_make_fmt1_equal; assumption.
  - destruct (rec_make_fmt1_later md None s0 e0 H H0 H1 I) as (dd' & E & _ & _ & M).
    rewrite H2 in E. injection E as <-. exact M.
  - destruct (rec_make_fmt1_later md (Some n) s0 e0 H0 H1 H2 H) as (dd' & E & _ & _ & e'' & E' & _ & _ & _ & M).
    rewrite H3 in E. injection E as <-. rewrite H6 in E'. injection E' as <-. exact M.
  - apply rec_make_fmt3_single; try assumption. destruct H3 as [->|Z]; [left; reflexivity|right].
    split; [exact Z|exact H].
  - apply rec_make_fmt3_unbounded; assumption.
  - destruct (rec_make_fmt3_bounded md s0 dd n H0 H1 H) as (e'' & E' & _ & _ & _ & M).
    rewrite H2 in E'. injection E' as <-. exact M.
  - apply rec_make_fmt4_single; try assumption. destruct H3 as [->|Z]; [left; reflexivity|right].
    split; [exact Z|exact H].
  - apply rec_make_fmt4_unbounded; assumption.
  - destruct (rec_make_fmt4_bounded md e0 dd n H0 H1 H) as (s'' & E' & _ & _ & _ & M).
    rewrite H2 in E'. injection E' as <-. exact M.
Qed.

(* the three kinds of recurrence the constructor produces (given an anchor) *)
Lemma rec_shape_cases : forall md reps s d e r, rec_shape md reps s d e r ->
  (r_start r <> None \/ r_end r <> None) ->
  (exists a, single_ok md r a) \/ (exists s0 d0, fwd_ok md r s0 d0) \/ (exists e0 d0, bwd_ok md r e0 d0).
Proof.
  intros md reps s d e r H NE. destruct H.
  - left. destruct s as [a|]; [|cbn [r_start r_end] in NE; destruct NE as [K|K]; contradiction K; reflexivity].
    exists a. repeat split; try assumption. exists a. repeat split; try assumption; reflexivity.
  - left. exists s0. repeat split; try assumption. exists e0. repeat split; assumption.
  - right. left. exists s0, dd. repeat split; try assumption; apply H3.
  - right. left. exists s0, dd. repeat split; try assumption; apply H4.
  - left. exists s0. repeat split; try assumption. exists s0. repeat split; try assumption; reflexivity.
  - right. left. exists s0, dd. repeat split; try assumption; apply H0.
  - right. left. exists s0, dd. repeat split; try assumption; apply H1.
  - left. exists e0. repeat split; try assumption. exists e0. repeat split; try assumption; reflexivity.
  - right. right. exists e0, dd. repeat split; try assumption; apply H0.
  - right. left. exists s', dd. repeat split; try assumption; try apply H1. cbn [r_end]. rewrite H5. ring.
Qed.

(* points of any constructed recurrence: instants are determined by the kind *)
Lemma single_ok_nth md r a k i p : single_ok md r a -> nth_error (iter_take md r k) i = Some p ->
  p = a /\ i = 0%nat.
Proof.
  intros S H. destruct k as [|k].
  - rewrite (iter_take_single_O md r a S) in H. destruct i; discriminate H.
  - rewrite (iter_take_single md r a k S) in H. destruct i as [|i]; cbn [nth_error] in H.
    + injection H as <-. split; reflexivity.
    + destruct i; discriminate H.
Qed.

(* finding F4: bounded recurrences with nominal intervals fall short *)
Lemma bounded_nominal_refuted :
  exists md n s d r, rec_make md (Some n) (Some s) (Some d) None = Ok r /\ valid_tp md s = true /\
    2 <= n /\ dur_ltb md d dzero = false /\
    (length (iter_take md r 12) < Z.to_nat n)%nat /\
  exists e r', rec_make md (Some 2) None (Some (DU 0 1 2 0 0 0)) (Some e) = Ok r' /\ valid_tp md e = true /\
    length (iter_take md r' 12) = 1%nat.
Proof.
  exists G, 3, (mkTp (Cal 2001 1 29) (HMS 0 0 0) (mkZone 0 0)), (DU 0 1 1 0 0 0).
  exists (mkRec (Some 3) (Some (mkTp (Cal 2001 1 29) (HMS 0 0 0) (mkZone 0 0))) (Some (DU 0 1 1 0 0 0))
            (Some (mkTp (Cal 2001 3 28) (HMS 0 0 0) (mkZone 0 0))) None 3).
  split; [vm_compute; reflexivity|].
  split; [vm_compute; reflexivity|]. split; [lia|]. split; [vm_compute; reflexivity|].
  split; [vm_compute; reflexivity|].
  exists (mkTp (Cal 2016 8 1) (HMS 0 59 0) (mkZone 0 0)).
  exists (mkRec (Some 2) (Some (mkTp (Cal 2016 6 30) (HMS 0 59 0) (mkZone 0 0))) (Some (DU 0 1 2 0 0 0))
            (Some (mkTp (Cal 2016 8 1) (HMS 0 59 0) (mkZone 0 0))) None 4).
  split; [vm_compute; reflexivity|].
  split; vm_compute; reflexivity.
Qed.
