(* Proofs/CacheSpec.v -- property C15: the calendar mode alone determines
   calendar results.
   A. reflection over the generated tables (gen/CacheTable.v, gen/CalTables.v):
      cache keys, mode-dependent attributes, set_mode def/use;
   B. the cache machine of Model/Cache.v: invariant, histories, fresh process;
   C. what goes wrong without the mode in a key; the lengths of each mode. *)
From Coq Require Import String Ascii.
From Iso Require Import Proofs.Tac Spec.Cal Model.Helpers gen.CalTables gen.CacheTable
  Model.Cache Proofs.TablesOk Proofs.HelpersSpec.
Local Open Scope Z_scope.

(* ================================================================== *)
(* A. the generated tables                                            *)
(* ================================================================== *)
Definition mem (x : string) (l : list string) : bool := existsb (String.eqb x) l.
Definition is_nil {A} (l : list A) : bool := match l with [] => true | _ => false end.

Fixpoint func_row (n : string) (l : list (string * (list string * list string)))
  : option (list string * list string) :=
  match l with
  | [] => None
  | (n', r) :: t => if String.eqb n n' then Some r else func_row n t
  end.

(* does the result of function f depend on mode-dependent CALENDAR state,
   directly or through its callees?  Unknown callees and exhausted fuel count
   as "yes". *)
Fixpoint dep (fuel : nat) (f : string) : bool :=
  match fuel with
  | O => true
  | S n =>
    match func_row f FUNCS with
    | None => true
    | Some (attrs, callees) =>
      existsb (fun a => mem a MODE_DEP_ATTRS) attrs || existsb (dep n) callees
    end
  end.
Definition mode_dependent (f : string) : bool := dep (S (List.length FUNCS)) f.

Definition row_name (r : string * (list string * (list string * (bool * (bool * bool))))) := fst r.
Definition row_params (r : string * (list string * (list string * (bool * (bool * bool))))) := fst (snd r).
Definition row_key_has_mode (r : string * (list string * (list string * (bool * (bool * bool))))) : bool :=
  fst (snd (snd (snd r))).
Definition row_returns_container (r : string * (list string * (list string * (bool * (bool * bool))))) : bool :=
  fst (snd (snd (snd (snd r)))).
Definition row_mutated (r : string * (list string * (list string * (bool * (bool * bool))))) : bool :=
  snd (snd (snd (snd (snd r)))).

(* the obligation on one cached function *)
Definition cached_row_ok (r : string * (list string * (list string * (bool * (bool * bool))))) : bool :=
  (negb (mode_dependent (row_name r)) || row_key_has_mode r) && negb (row_mutated r).

(* the model's functions are rows of the table, with the modelled arity, and
   exactly get_is_leap_year has no mode in its key *)
Definition model_arity (f : fname) : nat :=
  match f with FMlen | FMlenLeap | FRange => 2 | _ => 1 end.
Definition model_row_ok (f : fname) : bool :=
  match cached_row (py_name f) CACHED with
  | Some (params, (_, (k, _))) =>
    Nat.eqb (List.length params)
            (match f with FMlenLeap => 3 | _ => model_arity f + (if k then 1 else 0) end)%nat
    && Bool.eqb k (negb (fname_eqb f FLeap))
  | None => false
  end.

(* MODE_DEP_ATTRS against the independently generated SET_MODE_DEFUSE: an
   attribute assigned from no other attribute (i.e. from the argument / locals)
   or from a mode-dependent attribute is listed as mode dependent *)
Definition taint_closed : bool :=
  forallb (fun ar : string * list string =>
             let '(a, reads) := ar in
             (negb (is_nil reads) && negb (existsb (fun r => mem r MODE_DEP_ATTRS) reads))
             || mem a MODE_DEP_ATTRS) SET_MODE_DEFUSE
  && forallb (fun a => mem a (map fst SET_MODE_DEFUSE)) MODE_DEP_ATTRS.

(* every CALENDAR attribute read in the analysed call graph is either assigned
   by set_mode or a class constant *)
Definition attrs_known : bool :=
  forallb (fun row : string * (list string * list string) =>
             forallb (fun a => mem a (map fst SET_MODE_DEFUSE) || mem a CLASS_CONSTANTS) (fst (snd row)))
          FUNCS.

Definition cli_ok : bool :=
  forallb (fun s => match mode_of_spelling s with Some _ => true | None => false end) CLI_CALENDAR_CHOICES
  && String.eqb ENV_CALENDAR_MODE "ISODATETIMECALENDAR".

Definition cache_table_ok : bool :=
  translator_ok_cache && translator_ok_cal
  && negb (is_nil CACHED)
  && forallb cached_row_ok CACHED
  && forallb model_row_ok all_fnames
  && taint_closed && attrs_known
  && is_nil CALENDAR_EXTERNAL_WRITES
  && cli_ok.

Lemma cache_table_accepted : cache_table_ok = true.
Proof. vm_compute. reflexivity. Qed.

Lemma andb_l a b : a && b = true -> a = true.
Proof. destruct a; [reflexivity | discriminate]. Qed.
Lemma andb_r a b : a && b = true -> b = true.
Proof. destruct a; [intro H; exact H | discriminate]. Qed.

(* readable form: every cached function whose result depends on
   mode-dependent CALENDAR state has the mode in its key, and nobody mutates a
   cached object *)
Lemma keys_ok :
  cache_table_ok = true /\
  (forall r, In r CACHED ->
     (mode_dependent (row_name r) = true -> row_key_has_mode r = true) /\ row_mutated r = false) /\
  (forall f, keyed_tbl f = negb (fname_eqb f FLeap)) /\
  mode_dependent "data.get_is_leap_year" = false /\
  CALENDAR_EXTERNAL_WRITES = [].
Proof.
  split; [exact cache_table_accepted|].
  split.
  - assert (H : forallb cached_row_ok CACHED = true) by (vm_compute; reflexivity).
    intros r Hr. pose proof (proj1 (forallb_forall _ _) H r Hr) as Hrow.
    unfold cached_row_ok in Hrow.
    pose proof (andb_l _ _ Hrow) as H1. pose proof (andb_r _ _ Hrow) as H2.
    split.
    + intro Hd. rewrite Hd in H1. exact H1.
    + destruct (row_mutated r); [discriminate | reflexivity].
  - split; [intro f; destruct f; vm_compute; reflexivity|].
    split; vm_compute; reflexivity.
Qed.

(* ---------- spellings ---------- *)
Lemma spellings_ok :
  forallb (fun row : string * (list Z * option (list Z)) =>
             match mode_of_spelling (fst row), mode_of_string (fst row) with
             | Some a, Some b => mode_eqb a b
             | _, _ => false
             end) MODES = true /\
  (forall s md, mode_of_spelling s = Some md -> In (lower s) (map fst MODES)).
Proof.
  split; [vm_compute; reflexivity|].
  intros s md. unfold mode_of_spelling, mode_of_lower.
  repeat match goal with
         | |- context [String.eqb ?a ?b] =>
           let E := fresh "E" in destruct (String.eqb a b) eqn:E;
           [apply String.eqb_eq in E; rewrite E; intros _; cbn; tauto|]
         end.
  cbn. discriminate.
Qed.

(* ---------- set_mode def/use ---------- *)
(* a class constant that set_mode never assigns (never shadowed on the instance) *)
Definition pure_const (all : list string) (x : string) : bool :=
  mem x CLASS_CONSTANTS && negb (mem x all).

Fixpoint defuse_ok (before all : list string) (l : list (string * list string)) : bool :=
  match l with
  | [] => true
  | (a, reads) :: r =>
    forallb (fun x => mem x before || pure_const all x) reads && defuse_ok (a :: before) all r
  end.
Definition set_mode_assigned : list string := map fst SET_MODE_DEFUSE.
Definition set_mode_defuse_ok : bool := defuse_ok [] set_mode_assigned SET_MODE_DEFUSE.

(* meaning: run the assignments from two arbitrary previous instance states *)
Section DefUse.
  Variable V : Type.
  (* right-hand side of the i-th assignment as a function of the attribute
     values it reads (and of the mode argument, which is fixed) *)
  Variable F : nat -> list V -> V.
  Definition upd (s : string -> V) (a : string) (v : V) : string -> V :=
    fun x => if String.eqb x a then v else s x.
  Fixpoint run_defuse (i : nat) (l : list (string * list string)) (s : string -> V) : string -> V :=
    match l with
    | [] => s
    | (a, reads) :: r => run_defuse (S i) r (upd s a (F i (map s reads)))
    end.

  Lemma mem_in x l : mem x l = true <-> In x l.
  Proof.
    unfold mem. rewrite existsb_exists. split.
    - intros (y & Hy & E). apply String.eqb_eq in E. subst. exact Hy.
    - intro H. exists x. split; [exact H | apply String.eqb_refl].
  Qed.

  Lemma defuse_sound all : forall l i before s1 s2,
    defuse_ok before all l = true ->
    (forall a, In a (map fst l) -> mem a all = true) ->
    (forall x, mem x before = true \/ pure_const all x = true -> s1 x = s2 x) ->
    forall x, mem x before = true \/ In x (map fst l) \/ pure_const all x = true ->
              run_defuse i l s1 x = run_defuse i l s2 x.
  Proof.
    induction l as [|[a reads] r IH]; intros i before s1 s2 Hok Hall Hag x Hx.
    - cbn. apply Hag. destruct Hx as [H | [[] | H]]; auto.
    - cbn [run_defuse]. cbn [defuse_ok] in Hok.
      pose proof (andb_l _ _ Hok) as Hreads. pose proof (andb_r _ _ Hok) as Hrest.
      assert (Hmap : map s1 reads = map s2 reads).
      { apply map_ext_in. intros y Hy.
        pose proof (proj1 (forallb_forall _ _) Hreads y Hy) as Hy'.
        apply Hag. apply orb_true_iff in Hy'. exact Hy'. }
      rewrite Hmap.
      apply (IH (S i) (a :: before)); [exact Hrest | | |].
      + intros b Hb. apply Hall. cbn. right. exact Hb.
      + intros y Hy. unfold upd. destruct (String.eqb y a) eqn:E; [reflexivity|].
        apply Hag. destruct Hy as [Hy | Hy]; [|right; exact Hy].
        left. unfold mem in Hy. cbn [existsb] in Hy. rewrite E in Hy. exact Hy.
      + destruct Hx as [Hx | [Hx | Hx]].
        * left. unfold mem. cbn [existsb]. unfold mem in Hx. rewrite Hx. apply orb_true_r.
        * cbn in Hx. destruct Hx as [Hx | Hx].
          -- left. subst x. unfold mem. cbn [existsb]. rewrite String.eqb_refl. reflexivity.
          -- right. left. exact Hx.
        * right. right. exact Hx.
  Qed.
End DefUse.

Lemma set_mode_fresh :
  set_mode_defuse_ok = true /\
  (forall (V : Type) (F : nat -> list V -> V) (s1 s2 : string -> V),
     (forall x, pure_const set_mode_assigned x = true -> s1 x = s2 x) ->
     forall a, In a set_mode_assigned ->
               run_defuse V F 0 SET_MODE_DEFUSE s1 a = run_defuse V F 0 SET_MODE_DEFUSE s2 a).
Proof.
  assert (H : set_mode_defuse_ok = true) by (vm_compute; reflexivity).
  split; [exact H|].
  intros V F s1 s2 Hag a Ha.
  apply (defuse_sound V F set_mode_assigned SET_MODE_DEFUSE 0 [] s1 s2 H).
  - intros b Hb. apply (mem_in b set_mode_assigned). exact Hb.
  - intros x [Hx | Hx]; [discriminate Hx | apply Hag; exact Hx].
  - right. left. exact Ha.
Qed.

(* ================================================================== *)
(* B. the cache machine                                               *)
(* ================================================================== *)
Lemma zlist_eqb_eq : forall a b, zlist_eqb a b = true -> a = b.
Proof.
  induction a as [|x r IH]; destruct b as [|y s]; cbn; intro H; try discriminate; [reflexivity|].
  pose proof (andb_l _ _ H) as H1. pose proof (andb_r _ _ H) as H2.
  apply Z.eqb_eq in H1. rewrite H1, (IH s H2). reflexivity.
Qed.
Lemma ostr_eqb_eq a b : ostr_eqb a b = true -> a = b.
Proof.
  destruct a, b; cbn; intro H; try discriminate; [|reflexivity].
  apply String.eqb_eq in H. rewrite H. reflexivity.
Qed.
Lemma key_eqb_eq (a b : key) : key_eqb a b = true -> a = b.
Proof.
  destruct a as [a1 a2], b as [b1 b2]. unfold key_eqb. cbn [fst snd]. intro H.
  rewrite (zlist_eqb_eq _ _ (andb_l _ _ H)), (ostr_eqb_eq _ _ (andb_r _ _ H)). reflexivity.
Qed.
Lemma fname_eqb_eq a b : fname_eqb a b = true -> a = b.
Proof. destruct a, b; cbn; intro H; try discriminate; reflexivity. Qed.

Lemma lookup_in : forall c f k v, lookup c f k = Some v -> In (f, k, v) c.
Proof.
  induction c as [|[[f' k'] v'] r IH]; cbn [lookup]; intros f k v H; [discriminate|].
  destruct (fname_eqb f f' && key_eqb k k') eqn:E.
  - injection H as H. subst v'.
    rewrite (fname_eqb_eq _ _ (andb_l _ _ E)), (key_eqb_eq _ _ (andb_r _ _ E)). left. reflexivity.
  - right. apply IH. exact H.
Qed.

(* every cache entry equals the pure helper at its key's mode *)
Definition entry_ok (e : fname * key * val) : Prop :=
  match e with
  | (f, (a, Some sp), v) => v = pure f (smode sp) a
  | (f, (a, None), v) => forall md, v = pure f md a
  end.
Definition inv (c : cache) : Prop := forall e, In e c -> entry_ok e.

Definition mode_indep (f : fname) : Prop := forall md md' a, pure f md a = pure f md' a.
(* a key table is sound when only mode-independent functions lack the mode *)
Definition keys_sound (keyed : fname -> bool) : Prop := forall f, keyed f = false -> mode_indep f.

Lemma keyed_tbl_sound : keys_sound keyed_tbl.
Proof.
  intros f Hf. destruct f; try (vm_compute in Hf; discriminate Hf).
  intros md md' a. destruct a as [|y [|z l]]; reflexivity.
Qed.

Lemma z2b_b2z b : z2b (b2z b) = b.
Proof. destruct b; reflexivity. Qed.

Lemma sum_loop_pure md : forall n a k,
  pure_run md (sum_loop a n k) = pure_run md (k (sum_ylen md a n)).
Proof.
  induction n as [|n IH]; intros a k; [reflexivity|].
  cbn [sum_loop pure_run pure hd0 sum_ylen]. rewrite IH. reflexivity.
Qed.

(* each body, with its nested calls answered purely, is the pure helper *)
Lemma body_ok md f a : pure_run md (body md f a) = pure f md a.
Proof.
  destruct f; destruct a as [|x [|y [|z l]]]; try reflexivity.
  - (* FYlen *)
    cbn [body pure_run pure hd0]. rewrite z2b_b2z. unfold get_days_in_year.
    destruct (get_is_leap_year x); reflexivity.
  - (* FMlen *)
    cbn [body pure_run pure hd0]. unfold table_of. cbn [hd0]. rewrite z2b_b2z.
    unfold get_days_in_month, year_months. destruct (get_is_leap_year y); reflexivity.
  - (* FRange *)
    cbn [body pure]. unfold get_days_in_year_range at 2. destruct (x =? y) eqn:E.
    + cbn [pure_run pure]. reflexivity.
    + cbn [pure_run]. unfold get_days_in_year_range. rewrite E. reflexivity.
  - (* FWeeks *)
    cbn [body pure_run pure]. unfold get_weeks_in_year.
    destruct (ord_week_date_start md x) as [[cy co]|]; cbn [enc_opt2];
      destruct (ord_week_date_start md (x + 1)) as [[cyn con]|]; cbn [enc_opt2]; try reflexivity.
    rewrite sum_loop_pure. reflexivity.
  - (* FWstart *)
    cbn [body pure]. unfold week_date_start.
    destruct (x =? REF_YEAR); [reflexivity|].
    destruct (REF_YEAR <? x);
      cbn [pure_run pure hd0];
      repeat match goal with
             | |- context [if ?b then _ else _] =>
               lazymatch b with
               | get_is_leap_year _ => fail
               | z2b _ => fail
               | _ => destruct b
               end
             end; try reflexivity;
      cbn [pure_run pure hd0 enc3]; unfold table_of, year_months; cbn [hd0]; rewrite z2b_b2z;
      destruct (get_is_leap_year (x - 1)); reflexivity.
  - (* FOwstart *)
    cbn [body pure_run pure]. unfold ord_week_date_start.
    destruct (week_date_start md x) as [[cy cm] cd]. cbn [enc3 pure_run pure hd0].
    unfold table_of. cbn [hd0]. rewrite z2b_b2z.
    unfold ord_from_cal, ord_from_cal_ms, year_months.
    destruct (get_is_leap_year cy); reflexivity.
  - (* FSince *)
    cbn [body pure]. unfold get_days_since_1_ad.
    destruct (x =? 1); [reflexivity|]. destruct (x <? 1); reflexivity.
Qed.

(* nesting is bounded by `level` *)
Inductive below (n : nat) : prog -> Prop :=
| BRet v : below n (Ret v)
| BCall f a k : (level f < n)%nat -> (forall v, below n (k v)) -> below n (CallThen f a k).

Lemma below_mono n m p : (n <= m)%nat -> below n p -> below m p.
Proof.
  intros Hnm Hb. induction Hb as [v | f a k Hlt Hk IH].
  - apply BRet.
  - apply BCall; [lia | exact IH].
Qed.

Lemma sum_loop_below n : (1 < n)%nat -> forall m a k,
  (forall s, below n (k s)) -> below n (sum_loop a m k).
Proof.
  intros Hn. induction m as [|m IH]; intros a k Hk; cbn [sum_loop]; [apply Hk|].
  apply BCall; [cbn [level]; lia|]. intro v. apply IH. intro s. apply Hk.
Qed.

Ltac bel :=
  repeat match goal with
         | |- below _ (Ret _) => apply BRet
         | |- below _ (CallThen _ _ _) => apply BCall; [cbn [level]; lia | intros ?]
         | |- below _ (if ?b then _ else _) => destruct b
         | |- below _ (sum_loop _ _ _) => apply sum_loop_below; [cbn [level]; lia | intros ?]
         end.

Lemma body_below md f a : below (level f) (body md f a).
Proof.
  destruct f; destruct a as [|x [|y [|z l]]]; cbn [body]; bel.
  - (* FWeeks: the two week-date starts *)
    destruct v as [|c1 [|c2 [|c3 t]]]; bel;
      destruct v0 as [|d1 [|d2 [|d3 t']]]; bel.
  - (* FOwstart *)
    destruct v as [|c1 [|c2 [|c3 [|c4 t]]]]; bel.
Qed.

Lemma exec_eq keyed cur n c p :
  exec keyed cur n c p =
  match p with
  | Ret v => (v, c)
  | CallThen f a k =>
    match lookup c f (mk_key keyed cur f a) with
    | Some v => exec keyed cur n c (k v)
    | None =>
      match n with
      | O => ([], c)
      | S n' =>
        let '(v, c1) := exec keyed cur n' c (body (smode cur) f a) in
        exec keyed cur n ((f, mk_key keyed cur f a, v) :: c1) (k v)
      end
    end
  end.
Proof. destruct n; destruct p; reflexivity. Qed.

Lemma hit_ok keyed cur c f a v :
  inv c -> lookup c f (mk_key keyed cur f a) = Some v -> v = pure f (smode cur) a.
Proof.
  intros Hinv L. apply lookup_in in L. specialize (Hinv _ L).
  unfold mk_key, entry_ok in Hinv. destruct (keyed f); [exact Hinv | apply Hinv].
Qed.

Lemma fill_ok keyed cur c f a :
  keys_sound keyed -> inv c -> inv ((f, mk_key keyed cur f a, pure f (smode cur) a) :: c).
Proof.
  intros Hk Hinv e [He | He]; [|apply Hinv; exact He].
  subst e. unfold mk_key, entry_ok. destruct (keyed f) eqn:E; [reflexivity|].
  intro md. apply (Hk f E).
Qed.

(* running any program of bounded nesting against a good cache gives the pure
   answer and leaves a good cache *)
Lemma exec_ok keyed cur : keys_sound keyed ->
  forall n c p, below n p -> inv c ->
  fst (exec keyed cur n c p) = pure_run (smode cur) p /\ inv (snd (exec keyed cur n c p)).
Proof.
  intro Hk. induction n as [|n IHn]; intros c p Hb; revert c;
    induction Hb as [v | f a k Hlt Hbk IHk]; intros c Hinv; rewrite exec_eq.
  - split; [reflexivity | exact Hinv].
  - lia.
  - split; [reflexivity | exact Hinv].
  - cbn [pure_run]. destruct (lookup c f (mk_key keyed cur f a)) as [v|] eqn:L.
    + rewrite (hit_ok _ _ _ _ _ _ Hinv L). apply IHk. exact Hinv.
    + assert (Hbody : below n (body (smode cur) f a)).
      { apply (below_mono (level f)); [lia | apply body_below]. }
      destruct (IHn c _ Hbody Hinv) as [Hv Hc1].
      destruct (exec keyed cur n c (body (smode cur) f a)) as [v c1]. cbn [fst snd] in Hv, Hc1.
      rewrite Hv, body_ok. apply IHk. apply fill_ok; assumption.
Qed.

Lemma level_lt_fuel f : (level f < FUEL)%nat.
Proof. unfold FUEL. destruct f; cbn [level]; lia. Qed.

(* one step: good caches stay good, the output is the single-mode answer *)
Lemma step_with_ok keyed : keys_sound keyed -> forall st o,
  inv (store st) ->
  inv (store (fst (step_with keyed st o))) /\
  cur (fst (step_with keyed st o)) = fst (spec_step (cur st) o) /\
  snd (step_with keyed st o) = snd (spec_step (cur st) o).
Proof.
  intros Hk st o Hinv. destruct o as [s | f a]; cbn [step_with spec_step].
  - unfold set_mode. destruct (mode_of_spelling (norm_spelling s)); cbn; auto.
  - assert (Hb : below FUEL (CallThen f a Ret)).
    { apply BCall; [apply level_lt_fuel | intro v; apply BRet]. }
    destruct (exec_ok keyed (cur st) Hk FUEL (store st) _ Hb Hinv) as [Hv Hc].
    destruct (exec keyed (cur st) FUEL (store st) (CallThen f a Ret)) as [v c].
    cbn [fst snd cur store] in *. rewrite Hv. cbn [pure_run]. auto.
Qed.

Lemma step_flat_with_ok keyed : keys_sound keyed -> forall st o,
  inv (store st) ->
  inv (store (fst (step_flat_with keyed st o))) /\
  cur (fst (step_flat_with keyed st o)) = fst (spec_step (cur st) o) /\
  snd (step_flat_with keyed st o) = snd (spec_step (cur st) o).
Proof.
  intros Hk st o Hinv. destruct o as [s | f a]; cbn [step_flat_with spec_step].
  - unfold set_mode. destruct (mode_of_spelling (norm_spelling s)); cbn; auto.
  - destruct (lookup (store st) f (mk_key keyed (cur st) f a)) as [v|] eqn:L; cbn [fst snd cur store].
    + rewrite (hit_ok _ _ _ _ _ _ Hinv L). auto.
    + split; [apply fill_ok; assumption | auto].
Qed.

(* fold_left form = recursive form *)
Fixpoint run_rec (stp : state -> op -> state * out) (st : state) (ops : list op) : state * list out :=
  match ops with
  | [] => (st, [])
  | o :: r => let '(s', x) := stp st o in
              let '(s'', xs) := run_rec stp s' r in (s'', x :: xs)
  end.

Lemma run_gen_acc stp : forall ops st acc,
  fold_left (fun (a : state * list out) (o : op) =>
               let '(s, outs) := a in let '(s', x) := stp s o in (s', (outs ++ [x])%list))
            ops (st, acc)
  = (fst (run_rec stp st ops), (acc ++ snd (run_rec stp st ops))%list).
Proof.
  induction ops as [|o r IH]; intros st acc; cbn [fold_left run_rec].
  - cbn. rewrite app_nil_r. reflexivity.
  - destruct (stp st o) as [s' x]. rewrite IH.
    destruct (run_rec stp s' r) as [s'' xs]. cbn [fst snd].
    rewrite <- app_assoc. reflexivity.
Qed.

Lemma run_gen_rec stp st ops : run_gen stp st ops = run_rec stp st ops.
Proof.
  unfold run_gen. rewrite run_gen_acc. cbn [app]. destruct (run_rec stp st ops); reflexivity.
Qed.

Definition step_sound (stp : state -> op -> state * out) : Prop :=
  forall st o, inv (store st) ->
    inv (store (fst (stp st o))) /\
    cur (fst (stp st o)) = fst (spec_step (cur st) o) /\
    snd (stp st o) = snd (spec_step (cur st) o).

Lemma history_gen stp : step_sound stp -> forall ops st, inv (store st) ->
  snd (run_gen stp st ops) = spec_run (cur st) ops /\
  inv (store (fst (run_gen stp st ops))) /\
  cur (fst (run_gen stp st ops)) = last_set (cur st) ops.
Proof.
  intros Hs ops st Hinv. rewrite run_gen_rec. revert st Hinv.
  induction ops as [|o r IH]; intros st Hinv; cbn [run_rec spec_run last_set fold_left].
  - auto.
  - destruct (Hs st o Hinv) as (H1 & H2 & H3).
    destruct (stp st o) as [s' x]. cbn [fst snd] in H1, H2, H3.
    destruct (IH s' H1) as (I1 & I2 & I3).
    destruct (run_rec stp s' r) as [s'' xs]. cbn [fst snd] in *.
    destruct (spec_step (cur st) o) as [c' x']. cbn [fst snd] in *. subst.
    unfold last_set in I3. auto.
Qed.

Lemma inv_nil : inv [].
Proof. intros e []. Qed.

Lemma step_sound_tbl : step_sound step.
Proof. intros st o. apply step_with_ok. exact keyed_tbl_sound. Qed.
Lemma step_flat_sound_tbl : step_sound step_flat.
Proof. intros st o. apply step_flat_with_ok. exact keyed_tbl_sound. Qed.

(* C15_inv *)
Lemma cache_inv :
  inv (store init) /\
  (forall st o, inv (store st) -> inv (store (fst (step st o)))) /\
  (forall st o, inv (store st) -> inv (store (fst (step_flat st o)))) /\
  (forall keyed, keys_sound keyed -> forall st o, inv (store st) -> inv (store (fst (step_with keyed st o)))).
Proof.
  split; [exact inv_nil|]. split; [|split].
  - intros st o H. exact (proj1 (step_sound_tbl st o H)).
  - intros st o H. exact (proj1 (step_flat_sound_tbl st o H)).
  - intros keyed Hk st o H. exact (proj1 (step_with_ok keyed Hk st o H)).
Qed.

(* C15_history *)
Lemma spec_run_nth : forall ops c i o,
  nth_error ops i = Some o ->
  nth_error (spec_run c ops) i = Some (snd (spec_step (last_set c (firstn i ops)) o)).
Proof.
  induction ops as [|o' r IH]; intros c i o H; destruct i as [|i]; cbn in H; try discriminate.
  - injection H as H. subst o'. cbn [spec_run firstn last_set fold_left].
    destruct (spec_step c o); reflexivity.
  - cbn [spec_run firstn]. unfold last_set. cbn [fold_left].
    destruct (spec_step c o') as [c' x] eqn:E. cbn [nth_error fst].
    apply IH. exact H.
Qed.

Lemma history :
  (forall ops, snd (run init ops) = spec_run "gregorian" ops) /\
  (forall ops, snd (run_flat init ops) = spec_run "gregorian" ops) /\
  (forall ops i o, nth_error ops i = Some o ->
     nth_error (snd (run init ops)) i
     = Some (snd (spec_step (last_set "gregorian" (firstn i ops)) o))) /\
  (forall ops, cur (fst (run init ops)) = last_set "gregorian" ops).
Proof.
  assert (A : forall ops, snd (run init ops) = spec_run "gregorian" ops).
  { intro ops. exact (proj1 (history_gen step step_sound_tbl ops init inv_nil)). }
  split; [exact A|]. split; [|split].
  - intro ops. exact (proj1 (history_gen step_flat step_flat_sound_tbl ops init inv_nil)).
  - intros ops i o H. rewrite A. apply spec_run_nth. exact H.
  - intro ops. exact (proj2 (proj2 (history_gen step step_sound_tbl ops init inv_nil))).
Qed.

(* the current spelling is always one set_mode accepts *)
Definition cur_valid (st : state) : Prop := mode_of_spelling (cur st) <> None.
Lemma cur_valid_step stp : step_sound stp -> forall st o, inv (store st) -> cur_valid st -> cur_valid (fst (stp st o)).
Proof.
  intros Hs st o Hinv Hv. destruct (Hs st o Hinv) as (_ & H2 & _).
  unfold cur_valid. rewrite H2. destruct o as [s | f a]; cbn [spec_step].
  - destruct (mode_of_spelling (norm_spelling s)) eqn:E; cbn [fst]; [rewrite E; discriminate | exact Hv].
  - exact Hv.
Qed.

Lemma cur_valid_run : forall ops st, inv (store st) -> cur_valid st -> cur_valid (fst (run st ops)).
Proof.
  intros ops st. unfold run. rewrite run_gen_rec. revert st.
  induction ops as [|o r IH]; intros st Hinv Hv; cbn [run_rec]; [exact Hv|].
  pose proof (cur_valid_step step step_sound_tbl st o Hinv Hv) as Hv'.
  pose proof (proj1 (step_sound_tbl st o Hinv)) as Hinv'.
  destruct (step st o) as [s' x]. cbn [fst] in Hv', Hinv'.
  specialize (IH s' Hinv' Hv'). destruct (run_rec step s' r) as [s'' xs]. exact IH.
Qed.

(* C15_fresh: what follows a history = what a fresh process computes after a
   single set_mode of the current spelling *)
Lemma fresh : forall ops1 ops2,
  let st := fst (run init ops1) in
  let fresh_st := fst (step init (SetMode (cur st))) in
  cur fresh_st = cur st /\ store fresh_st = [] /\
  snd (run st ops2) = snd (run fresh_st ops2) /\
  snd (run st ops2) = spec_run (cur st) ops2.
Proof.
  intros ops1 ops2 st fresh_st.
  assert (Hinv : inv (store st)).
  { exact (proj1 (proj2 (history_gen step step_sound_tbl ops1 init inv_nil))). }
  assert (Hv : cur_valid st).
  { apply cur_valid_run; [exact inv_nil | unfold cur_valid; cbn; discriminate]. }
  assert (Hn : norm_spelling (cur st) = cur st).
  { unfold norm_spelling. destruct (String.eqb (cur st) "") eqn:E; [|reflexivity].
    apply String.eqb_eq in E. exfalso. apply Hv. rewrite E. reflexivity. }
  assert (Hf : fresh_st = mkState (cur st) []).
  { unfold fresh_st. cbn [step step_with]. unfold set_mode. rewrite Hn.
    unfold cur_valid in Hv. destruct (mode_of_spelling (cur st)); [reflexivity | contradiction]. }
  rewrite Hf. cbn [cur store]. split; [reflexivity|]. split; [reflexivity|].
  pose proof (proj1 (history_gen step step_sound_tbl ops2 st Hinv)) as H1.
  pose proof (proj1 (history_gen step step_sound_tbl ops2 (mkState (cur st) []) inv_nil)) as H2.
  cbn [cur] in H2. unfold run. rewrite H1, H2. auto.
Qed.

(* ================================================================== *)
(* C. without the mode in the key; lengths                            *)
(* ================================================================== *)
(* the key table of a mutant whose get_days_in_month wrapper does not pass CALENDAR.mode *)
Definition keyed_without_mlen (f : fname) : bool :=
  match f with FMlen => false | _ => keyed_tbl f end.

Lemma unkeyed_refuted :
  let ops := [SetMode "360day"; Call FMlen [2; 2001]; SetMode "gregorian"; Call FMlen [2; 2001]] in
  snd (run_with keyed_without_mlen init ops) = [OOk; OVal [30]; OOk; OVal [30]] /\
  spec_run "gregorian" ops = [OOk; OVal [30]; OOk; OVal [28]] /\
  snd (run init ops) = [OOk; OVal [30]; OOk; OVal [28]] /\
  ~ keys_sound keyed_without_mlen.
Proof.
  cbv zeta. split; [vm_compute; reflexivity|]. split; [vm_compute; reflexivity|].
  split; [vm_compute; reflexivity|].
  intro H. specialize (H FMlen eq_refl D360 G [2; 2001]). vm_compute in H. discriminate H.
Qed.

(* month and year lengths are exactly those of the mode, through the helpers *)
Lemma lengths y :
  year_months D360 y = m360 /\ year_months D365 y = m365 /\ year_months D366 y = m366 /\
  year_months G y = (if is_leap y then m366 else m365) /\
  (forall m, 1 <= m <= 12 -> get_days_in_month D360 m y = 30) /\
  get_days_in_year D360 y = 360 /\ get_days_in_year D365 y = 365 /\ get_days_in_year D366 y = 366 /\
  get_days_in_month D365 2 y = 28 /\ get_days_in_month D366 2 y = 29 /\
  get_days_in_year G y = (if is_leap y then 366 else 365) /\
  get_days_in_month G 2 y = (if is_leap y then 29 else 28) /\
  (forall md m, 1 <= m <= 12 -> get_days_in_month md m y = mlen md y m) /\
  (forall md, get_days_in_year md y = ylen md y).
Proof.
  destruct (mode_lengths y) as (L1 & L2 & L3 & L4 & L5 & L6 & L7 & L8).
  unfold year_months. rewrite get_is_leap_year_spec.
  repeat split; try (destruct (is_leap y); reflexivity).
  - intros m Hm. rewrite get_days_in_month_spec by exact Hm. apply L1. exact Hm.
  - rewrite get_days_in_year_spec. exact L2.
  - rewrite get_days_in_year_spec. exact L3.
  - rewrite get_days_in_year_spec. exact L4.
  - rewrite get_days_in_month_spec by lia. exact L5.
  - rewrite get_days_in_month_spec by lia. exact L6.
  - rewrite get_days_in_year_spec. exact L7.
  - rewrite get_days_in_month_spec by lia. exact L8.
  - intros md m Hm. apply get_days_in_month_spec. exact Hm.
  - intro md. apply get_days_in_year_spec.
Qed.

(* the seven spellings select the four calendars *)
Lemma spelling_modes :
  smode "gregorian" = G /\ smode "360day" = D360 /\ smode "360_day" = D360 /\
  smode "365day" = D365 /\ smode "365_day" = D365 /\ smode "366day" = D366 /\ smode "366_day" = D366.
Proof. repeat split; reflexivity. Qed.
