(* Proofs/DecodeTruncSpec.v -- property C07, truncated forms: the parser's result
   on a truncated date (alone, or with "T", any time form it allows and a zone
   or none) is the explicit truncated point t_point -- exactly the fields the
   text spells, nothing defaulted, the truncated property, the zone unknown
   unless written or supplied by the configuration -- returned exactly when the
   constructor's bound check (Model/Parse.check_bounds, year possibly absent)
   and the zone range check accept it. *)
From Coq Require Import ZArith QArith Qround Lqa List Bool String Ascii Lia.
From Iso Require Import Proofs.Tac Spec.Cal Spec.Instant Model.Num Model.Helpers Model.Duration Model.TimePoint
  Model.Forms Model.Parse Model.Dump Spec.FormText Proofs.MatchSpec gen.Grammar Model.DriverText
  Proofs.HelpersSpec Proofs.ConvSpec Proofs.TickSpec Proofs.AddSpec Proofs.ZoneSpec Proofs.CmpSpec Proofs.ConstructSpec
  Proofs.RoundTripSpec Proofs.DecodeSpec.
Import ListNotations.
Close Scope Q_scope.
Close Scope Z_scope.
Local Open Scope string_scope.

(* ------------------------------------------------------------------ *)
(* 0. the explicit truncated point                                     *)
(* ------------------------------------------------------------------ *)
(* the year digits a truncated form can carry: year of century or year of decade *)
Definition t_year (dt : list ptok) (ad : env) : option Z :=
  if binds "year_of_century" dt then Some (fval "year_of_century" dt ad)
  else if binds "year_of_decade" dt then Some (fval "year_of_decade" dt ad) else None.
Definition t_prop (dt : list ptok) : string :=
  if binds "year_of_century" dt then "year_of_century"
  else if binds "year_of_decade" dt then "year_of_decade" else "".
(* a time unit with its decimal fraction, when the form has the unit *)
Definition t_unit (k kdec : string) (tt : list ptok) (atm : env) : option Q :=
  match fget k tt atm with
  | None => None
  | Some s => Some (match fget kdec tt atm with
                    | Some f => qadd (qz (dnum s)) (frac_of f)
                    | None => qz (dnum s) end)
  end.
(* the zone: written, or supplied by the configuration (assumed / local), or
   unknown (None) when the parser defaults to unknown *)
Definition t_zone (cfg : pcfg) (zo : option form) (az : env) : option zone :=
  match zo with
  | Some _ => Some (x_zone cfg zo az)
  | None => match c_assumed cfg with
            | Some _ => Some (x_zone cfg zo az)
            | None => if c_unknown cfg then None else Some (x_zone cfg zo az) end
  end.
Definition t_point (cfg : pcfg) (dt tt : list ptok) (zo : option form) (ad atm az : env) (fmt : string) : ptp :=
  mkPtp (t_year dt ad) (fnum "month_of_year" dt ad) (fnum "day_of_month" dt ad) (fnum "day_of_year" dt ad)
        (fnum "week_of_year" dt ad) (fnum "day_of_week" dt ad)
        (t_unit "hour_of_day" "hour_of_day_decimal" tt atm)
        (t_unit "minute_of_hour" "minute_of_hour_decimal" tt atm)
        (t_unit "second_of_minute" "second_of_minute_decimal" tt atm)
        (t_zone cfg zo az) true (t_prop dt) 0 fmt.
Definition t_zone_ok (z : option zone) : bool := match z with Some x => valid_zone x | None => true end.

(* ------------------------------------------------------------------ *)
(* 1. shapes                                                           *)
(* ------------------------------------------------------------------ *)
Definition trunc_date_shape (ts : list ptok) : bool :=
  let b := fun k => binds k ts in
  (b "truncated" || (negb (b "century") && b "year_of_century")) &&
  negb (b "century") && negb (b "expanded_year") && negb (b "year_sign") &&
  negb (b "year_of_century" && b "year_of_decade") &&
  no_grp "year_sign" ts && num_keys_ok DATE_KEYS ts &&
  (* at most one of the three day notations *)
  negb ((b "month_of_year" || b "day_of_month") && (b "week_of_year" || b "day_of_week")) &&
  negb ((b "month_of_year" || b "day_of_month") && b "day_of_year") &&
  negb ((b "week_of_year" || b "day_of_week") && b "day_of_year").
(* any time form: a decimal group sits on the last unit given *)
Definition time_any_shape (ts : list ptok) : bool :=
  let b := fun k => binds k ts in
  num_keys_ok TIME_KEYS ts &&
  implb (b "hour_of_day_decimal") (b "hour_of_day" && negb (b "minute_of_hour") && negb (b "second_of_minute")) &&
  implb (b "minute_of_hour_decimal") (b "minute_of_hour" && negb (b "second_of_minute")) &&
  implb (b "second_of_minute_decimal") (b "second_of_minute").

Theorem tables_trunc_shapes :
  forallb (fun f => not_trunc f || trunc_date_shape (f_parse f)) (DATE_FORMS_0 ++ DATE_FORMS_2 ++ DATE_FORMS_3)%list = true /\
  forallb (fun f => time_any_shape (f_parse f)) TIME_FORMS = true.
Proof. vm_compute. repeat split; reflexivity. Qed.

(* ------------------------------------------------------------------ *)
(* 2. the constructor, truncated                                       *)
(* ------------------------------------------------------------------ *)
Definition zone_stage_t (zn : option (Z * option Z)) : pres (option zone) :=
  match zn with None => POk None | Some _ => zone_stage zn end.

Lemma construct_trunc_eq md yr month dom doy week dow hour hdec minute mdec sec sdec zn tprop ned fmt :
  construct md yr month dom doy week dow hour hdec minute mdec sec sdec zn true tprop ned fmt false =
  (h1 <-- dec_h hour hdec minute sec ;;;
   m1 <-- dec_m minute mdec sec ;;;
   s1 <-- dec_s sec sdec ;;;
   z <-- zone_stage_t zn ;;;
   if conflict month dom doy week dow then PErr EBadInput
   else let p := mkPtp yr month dom doy week dow h1 m1 s1 z true tprop ned fmt in
        if check_bounds md p then POk p else PErr EBadInput).
Proof.
  unfold construct.
  change (match hdec with
          | None => POk hour
          | Some f => match hour with
                      | None => PErr EBadInput
                      | Some h => if negb (qleb 0 f && qltb f 1) then PErr EBadInput
                                  else match minute, sec with
                                       | None, None => POk (Some (qadd h f))
                                       | _, _ => PErr EBadInput end
                      end
          end) with (dec_h hour hdec minute sec).
  destruct (dec_h hour hdec minute sec) as [h1|e]; [|reflexivity]. cbn [pbind].
  change (match mdec with
          | None => POk minute
          | Some f => match minute with
                      | None => PErr EBadInput
                      | Some m => if negb (qleb 0 f && qltb f 1) then PErr EBadInput
                                  else match sec with None => POk (Some (qadd m f)) | Some _ => PErr EBadInput end
                      end
          end) with (dec_m minute mdec sec).
  destruct (dec_m minute mdec sec) as [m1|e]; [|reflexivity]. cbn [pbind].
  change (match sdec with
          | None => POk sec
          | Some f => match sec with
                      | None => PErr EBadInput
                      | Some s => if negb (qleb 0 f && qltb f 1) then PErr EBadInput else POk (Some (qadd s f))
                      end
          end) with (dec_s sec sdec).
  destruct (dec_s sec sdec) as [s1|e]; [|reflexivity]. cbn [pbind].
  cbn [negb andb]. unfold zone_stage_t, zone_stage, conflict, is_some. cbv zeta.
  destruct zn as [[zh zmo]|].
  - destruct (negb ((-99 <=? zh) && (zh <=? 99))%Z); [reflexivity|].
    match goal with |- context [if negb ?c then _ else _] => destruct (negb c) end; [reflexivity|].
    cbn [pbind].
    destruct (truthy month || truthy dom), (truthy week || truthy dow), doy; reflexivity.
  - cbn [pbind].
    destruct (truthy month || truthy dom), (truthy week || truthy dow), doy; reflexivity.
Qed.

(* the decimal stage on the numbers of any time form *)
Lemma time_any : forall tt atm, time_any_shape tt = true -> wf_assign tt atm = true ->
  let t := bindings tt atm in
  dec_h (nq t "hour_of_day") (ndec t "hour_of_day_decimal") (nq t "minute_of_hour") (nq t "second_of_minute")
    = POk (t_unit "hour_of_day" "hour_of_day_decimal" tt atm) /\
  dec_m (nq t "minute_of_hour") (ndec t "minute_of_hour_decimal") (nq t "second_of_minute")
    = POk (t_unit "minute_of_hour" "minute_of_hour_decimal" tt atm) /\
  dec_s (nq t "second_of_minute") (ndec t "second_of_minute_decimal")
    = POk (t_unit "second_of_minute" "second_of_minute_decimal" tt atm).
Proof.
  intros tt atm S W. cbv zeta. unfold time_any_shape in S. cbv zeta in S.
  apply andb_true_iff in S. destruct S as [S S3]. apply andb_true_iff in S. destruct S as [S S2].
  apply andb_true_iff in S. destruct S as [K S1].
  rewrite !(nq_bindings TIME_KEYS) by (try assumption; in_keys).
  rewrite !(ndec_bindings TIME_KEYS) by (try assumption; in_keys).
  assert (FR : forall k, In k TIME_KEYS -> binds k tt = true ->
               qleb 0 (frac_of (fld k atm)) && qltb (frac_of (fld k atm)) 1 = true).
  { intros k I B. apply frac_of_range. apply (fget_digits TIME_KEYS tt atm k); try assumption.
    unfold fget. rewrite B. reflexivity. }
  pose proof (FR "hour_of_day_decimal" ltac:(in_keys)) as F1.
  pose proof (FR "minute_of_hour_decimal" ltac:(in_keys)) as F2.
  pose proof (FR "second_of_minute_decimal" ltac:(in_keys)) as F3. clear FR.
  unfold t_unit, fget.
  destruct (binds "hour_of_day" tt) eqn:B0; destruct (binds "hour_of_day_decimal" tt) eqn:B1;
    destruct (binds "minute_of_hour" tt) eqn:B2; destruct (binds "second_of_minute" tt) eqn:B3;
    destruct (binds "minute_of_hour_decimal" tt) eqn:B4; destruct (binds "second_of_minute_decimal" tt) eqn:B5;
    cbn [negb andb implb] in S1, S2, S3; try discriminate S1; try discriminate S2; try discriminate S3;
    cbn [option_map dec_h dec_m dec_s];
    rewrite ?(F1 eq_refl), ?(F2 eq_refl), ?(F3 eq_refl); cbn [negb]; repeat split; reflexivity.
Qed.

(* the zone stage, truncated *)
Definition zone_opt (zn : option (Z * option Z)) : option zone :=
  match zn with None => None | Some _ => Some (zone_of_args zn) end.
Lemma zone_stage_t_eq : forall zn,
  zone_stage_t zn = if t_zone_ok (zone_opt zn) then POk (zone_opt zn) else PErr EBadInput.
Proof.
  intros [p|]; [|reflexivity]. unfold zone_stage_t, zone_opt, t_zone_ok. rewrite zone_stage_eq. reflexivity.
Qed.
Lemma zone_num_opt : forall cfg zo az, zo_shape zo = true ->
  exists zn, zone_num cfg (zo_bind zo az) = POk zn /\ zone_opt zn = t_zone cfg zo az.
Proof.
  intros cfg zo az S. destruct (zone_num_full cfg zo az S) as (zn & ZN & ZA). exists zn. split; [exact ZN|].
  unfold zone_opt, t_zone. rewrite <- ZA. destruct zo as [fz|].
  - (* a written zone: the arguments are present *)
    destruct zn as [p|]; [reflexivity|]. exfalso.
    cbn [zo_shape zo_bind] in *. unfold zone_shape in S. apply andb_true_iff in S. destruct S as [S B].
    apply andb_true_iff in S. destruct S as [K _].
    unfold zone_num in ZN. destruct (bindings (f_parse fz) az) as [|b0 l] eqn:E.
    + pose proof (has_key_bindings "time_zone_utc" (f_parse fz) az) as H1.
      pose proof (has_key_bindings "time_zone_hour" (f_parse fz) az) as H2. rewrite E in H1, H2. cbn in H1, H2.
      rewrite <- H1, <- H2 in B. discriminate.
    + destruct (has_key "time_zone_utc" (b0 :: l)); [discriminate ZN|].
      destruct (nz (b0 :: l) "time_zone_hour"); discriminate ZN.
  - cbn [zo_bind] in ZN. unfold zone_num in ZN.
    destruct (c_assumed cfg) as [[h m]|]; [inversion ZN; reflexivity|].
    destruct (c_unknown cfg); inversion ZN; reflexivity.
Qed.

(* THE CONSTRUCTOR CALL EVALUATED, truncated forms *)
Theorem point_num_trunc : forall md cfg dt tt ad atm zn fmt,
  trunc_date_shape dt = true -> wf_assign dt ad = true ->
  (time_any_shape tt = true /\ wf_assign tt atm = true) ->
  point_num md cfg (bindings dt ad) (bindings tt atm) zn fmt false =
  let p := mkPtp (t_year dt ad) (fnum "month_of_year" dt ad) (fnum "day_of_month" dt ad) (fnum "day_of_year" dt ad)
                 (fnum "week_of_year" dt ad) (fnum "day_of_week" dt ad)
                 (t_unit "hour_of_day" "hour_of_day_decimal" tt atm)
                 (t_unit "minute_of_hour" "minute_of_hour_decimal" tt atm)
                 (t_unit "second_of_minute" "second_of_minute_decimal" tt atm)
                 (zone_opt zn) true (t_prop dt) 0 fmt in
  if t_zone_ok (zone_opt zn) && check_bounds md p then POk p else PErr EBadInput.
Proof.
  intros md cfg dt tt ad atm zn fmt S Wd [St Wt].
  unfold trunc_date_shape in S. cbv zeta in S.
  repeat match type of S with _ && _ = true => let X := fresh "S" in apply andb_true_iff in S; destruct S as [S X] end.
  repeat match goal with X : negb _ = true |- _ => apply negb_true_iff in X end.
  rename S into T1.
  match goal with X : num_keys_ok DATE_KEYS dt = true |- _ => rename X into K end.
  match goal with X : no_grp "year_sign" dt = true |- _ => rename X into Ns end.
  match goal with X : binds "century" dt = false |- _ => rename X into Bc end.
  match goal with X : binds "expanded_year" dt = false |- _ => rename X into Bx end.
  match goal with X : binds "year_sign" dt = false |- _ => rename X into Bs end.
  rewrite Bc in T1. cbn [negb andb] in T1.
  rewrite point_num_eq.
  assert (PT : pn_trunc (bindings dt ad) = true).
  { unfold pn_trunc. rewrite !has_key_bindings, Bc. cbn [negb andb].
    destruct (binds "truncated" dt); [reflexivity|]. cbn [negb andb orb] in *. exact T1. }
  assert (PY : pn_year (bindings dt ad) = t_year dt ad).
  { unfold pn_year, pn_year_present. rewrite PT. cbn [negb orb]. rewrite !has_key_bindings, Bc, Bx, Bs.
    rewrite !(nz_bindings DATE_KEYS) by (try assumption; in_keys).
    rewrite lookup_bindings by assumption. unfold fget at 1. rewrite Bs.
    unfold t_year, fval.
    assert (EC : fnum "century" dt ad = None) by (unfold fnum, fget; rewrite Bc; reflexivity).
    assert (EX : fnum "expanded_year" dt ad = None) by (unfold fnum, fget; rewrite Bx; reflexivity).
    rewrite EC, EX. cbn [od].
    destruct (binds "year_of_century" dt) eqn:B1; destruct (binds "year_of_decade" dt) eqn:B2;
      cbn [orb andb] in *; try discriminate.
    - assert (E : fnum "year_of_decade" dt ad = None) by (unfold fnum, fget; rewrite B2; reflexivity).
      rewrite E. cbn [od]. f_equal. lia.
    - assert (E : fnum "year_of_century" dt ad = None) by (unfold fnum, fget; rewrite B1; reflexivity).
      rewrite E. cbn [od]. f_equal. lia.
    - reflexivity. }
  assert (PP : pn_tprop (bindings dt ad) = t_prop dt).
  { unfold pn_tprop, pn_year_present. rewrite PT. cbn [negb orb]. rewrite !has_key_bindings, Bc, Bx, Bs. unfold t_prop.
    destruct (binds "truncated" dt) eqn:B0; destruct (binds "year_of_century" dt) eqn:B1;
      destruct (binds "year_of_decade" dt) eqn:B2; cbn [orb andb negb] in *; try discriminate; reflexivity. }
  assert (PN : pn_ned cfg (bindings dt ad) = 0%Z).
  { unfold pn_ned. rewrite lookup_bindings by (apply (num_keys_no_grp DATE_KEYS); [assumption|in_keys]).
    unfold fget. rewrite Bx. reflexivity. }
  rewrite PT, PY, PP, PN. cbn [orb].
  rewrite !(nz_bindings DATE_KEYS) by (try assumption; in_keys).
  rewrite construct_trunc_eq.
  destruct (time_any tt atm St Wt) as (Hh & Hm & Hs). cbv zeta in *.
  rewrite Hh, Hm, Hs. cbn [pbind]. rewrite zone_stage_t_eq.
  destruct (t_zone_ok (zone_opt zn)); cbn [andb pbind]; [|reflexivity].
  assert (CF : conflict (fnum "month_of_year" dt ad) (fnum "day_of_month" dt ad) (fnum "day_of_year" dt ad)
                        (fnum "week_of_year" dt ad) (fnum "day_of_week" dt ad) = false).
  { unfold conflict, fnum, fget.
    destruct (binds "month_of_year" dt), (binds "day_of_month" dt), (binds "day_of_year" dt),
             (binds "week_of_year" dt), (binds "day_of_week" dt);
      cbn [orb andb negb] in *; try discriminate; cbn [option_map truthy is_some orb andb];
      rewrite ?andb_false_r, ?orb_false_r; reflexivity. }
  rewrite CF. reflexivity.
Qed.

(* ------------------------------------------------------------------ *)
(* 3. END TO END over the tables                                       *)
(* ------------------------------------------------------------------ *)
Lemma trunc_shape_tables : forall ned f, In f (date_forms_of ned) -> f_type f = "truncated" ->
  trunc_date_shape (f_parse f) = true.
Proof.
  intros ned f I T. destruct tables_trunc_shapes as (S & _). rewrite forallb_forall in S.
  assert (J : In f (DATE_FORMS_0 ++ DATE_FORMS_2 ++ DATE_FORMS_3)%list).
  { unfold date_forms_of in I. destruct (ned =? 0)%Z; [apply in_or_app; left; exact I|].
    apply in_or_app; right. apply in_or_app. destruct (ned =? 3)%Z; [right|left]; exact I. }
  specialize (S f J). unfold not_trunc in S. rewrite T in S. exact S.
Qed.
Lemma time_any_tables : forall f, In f TIME_FORMS -> time_any_shape (f_parse f) = true.
Proof. intros f I. destruct tables_trunc_shapes as (_ & S). rewrite forallb_forall in S. apply S. exact I. Qed.
Lemma trunc_no_expanded : forall ts, trunc_date_shape ts = true -> binds "expanded_year" ts = false.
Proof.
  intros ts S. unfold trunc_date_shape in S. cbv zeta in S.
  repeat match type of S with _ && _ = true => let X := fresh "S" in apply andb_true_iff in S; destruct S as [S X] end.
  repeat match goal with X : negb _ = true |- _ => apply negb_true_iff in X end. assumption.
Qed.
Lemma trunc_num_keys : forall ts, trunc_date_shape ts = true -> num_keys_ok DATE_KEYS ts = true.
Proof.
  intros ts S. unfold trunc_date_shape in S. cbv zeta in S.
  repeat match type of S with _ && _ = true => let X := fresh "S" in apply andb_true_iff in S; destruct S as [S X] end.
  assumption.
Qed.

Theorem decode_trunc : forall md cfg fd gd ft zo ad atm az (asp : bool),
  In (c_ned cfg) [0; 2; 3]%Z ->
  let dfs := date_forms_of (c_ned cfg) in
  In fd (date_search dfs cfg ["reduced"]) -> f_type fd = "truncated" ->
  hit (date_search dfs cfg ["reduced"]) fd = Some gd ->
  let bf := bad_formats_of (f_format gd) (f_type gd) in
  In ft (time_search TIME_FORMS cfg bf (trunc_types fd)) ->
  In zo (zone_choices cfg bf ft) ->
  wf_assign (f_parse fd) ad = true -> wf_assign (f_parse ft) atm = true -> zo_wf zo az = true ->
  let p := t_point cfg (f_parse fd) (f_parse ft) zo ad atm az
                   (if asp then f_expr fd ++ "T" ++ f_expr ft ++ zo_expr zo else "") in
  parse_text md cfg (render_toks (f_parse fd) ad ++ "T" ++ render_toks (f_parse ft) atm ++ zo_text zo az) asp =
  if t_zone_ok (t_zone cfg zo az) && check_bounds md p then POk p else PErr EBadInput.
Proof.
  intros md cfg fd gd ft zo ad atm az asp N dfs ID TY H bf IT IZ Wd Wt Wz p.
  assert (Sd : trunc_date_shape (f_parse fd) = true).
  { apply (trunc_shape_tables (c_ned cfg)); [apply (date_search_In _ _ _ _ ID)|exact TY]. }
  assert (St : time_any_shape (f_parse ft) = true) by (apply time_any_tables; apply (time_search_In _ _ _ _ _ IT)).
  rewrite (decode_tables md cfg fd gd ft zo ad atm az asp N ID H); try assumption.
  2:{ intros _. apply trunc_no_expanded. exact Sd. }
  destruct (zone_num_opt cfg zo az (zone_shape_choices _ _ _ _ IZ)) as (zn & ZN & ZA).
  rewrite ZN. cbn [pbind]. rewrite point_num_trunc by auto. cbv zeta. rewrite ZA. reflexivity.
Qed.

Theorem decode_trunc_date : forall md cfg fd ad (asp : bool),
  In (c_ned cfg) [0; 2; 3]%Z ->
  let dfs := date_forms_of (c_ned cfg) in
  In fd (date_search dfs cfg []) -> f_type fd = "truncated" ->
  mem (f_expr fd) (date_exceptions (c_ned cfg) (c_trunc cfg) []) = false ->
  wf_assign (f_parse fd) ad = true ->
  let p := t_point cfg (f_parse fd) [] None ad [] [] (if asp then f_expr fd else "") in
  parse_text md cfg (render_toks (f_parse fd) ad) asp =
  if t_zone_ok (t_zone cfg None []) && check_bounds md p then POk p else PErr EBadInput.
Proof.
  intros md cfg fd ad asp N dfs I TY E W p.
  assert (Sd : trunc_date_shape (f_parse fd) = true).
  { apply (trunc_shape_tables (c_ned cfg)); [apply (date_search_In _ _ _ _ I)|exact TY]. }
  rewrite (parse_text_date_only md cfg fd ad asp N I E (trunc_num_keys _ Sd) W).
  destruct (zone_num_opt cfg None [] eq_refl) as (zn & ZN & ZA). cbn [zo_bind] in ZN.
  rewrite ZN. cbn [pbind].
  change (@nil (string * string)) with (bindings [] []).
  rewrite point_num_trunc by auto. cbv zeta. rewrite ZA. reflexivity.
Qed.

(* ------------------------------------------------------------------ *)
(* 4. gap (b): a truncated time with NO zone after "T"                 *)
(*    (its leading "-" goes through the parser's rsplit heuristic)     *)
(* ------------------------------------------------------------------ *)
(* the text of a truncated time form: "-" or "--", then no further "-" *)
Definition trunc_time_lead (ts : list ptok) : bool :=
  match ts with
  | PGrp _ l :: rest => (String.eqb l "-" || String.eqb l "--") && no_char "-" rest
  | _ => false
  end.
Theorem tables_trunc_times :
  forallb (fun f => not_trunc f || trunc_time_lead (f_parse f)) TIME_FORMS = true /\
  forallb (fun f => match pmatch (f_parse f) "" [] with None => true | Some _ => false end &&
                    match pmatch (f_parse f) "-" [] with None => true | Some _ => false end) TIME_FORMS = true.
Proof. vm_compute. split; reflexivity. Qed.

Lemma first_match_none_sub : forall (L : list form) s,
  (forall f, In f L -> pmatch (f_parse f) s [] = None) -> first_match L s = None.
Proof.
  induction L as [|g L IH]; intros s H; [reflexivity|].
  cbn [first_match]. rewrite (H g (or_introl eq_refl)). apply IH. intros f I. apply H. right. exact I.
Qed.
Lemma time_info_dash : forall cfg bf bt t0, t0 = "" \/ t0 = "-" -> get_time_info TIME_FORMS cfg t0 bf bt = None.
Proof.
  intros cfg bf bt t0 T. rewrite get_time_info_search. apply first_match_none_sub. intros f I.
  apply time_search_In in I. destruct I as [I _].
  destruct tables_trunc_times as (_ & S). rewrite forallb_forall in S. specialize (S f I).
  apply andb_true_iff in S. destruct S as [S1 S2].
  destruct T as [-> | ->].
  - destruct (pmatch (f_parse f) "" []); [discriminate|reflexivity].
  - destruct (pmatch (f_parse f) "-" []); [discriminate|reflexivity].
Qed.

Lemma split_tz_trunc : forall zfs cfg ts a bf bt,
  trunc_time_lead ts = true -> wf_assign ts a = true ->
  no_char "Z" ts = true -> no_char "+" ts = true ->
  split_tz TIME_FORMS zfs cfg (render_toks ts a) bf bt = POk (render_toks ts a, None).
Proof.
  intros zfs cfg ts a bf bt L W NZ NP. unfold split_tz.
  rewrite ends_with_Z_none by (apply render_no_char; assumption).
  rewrite (render_no_char "+" ts a NP W).
  destruct ts as [|t rest]; [discriminate L|]. destruct t as [l|nm n|nm|nm|nm l|nm]; try discriminate L.
  cbn [trunc_time_lead] in L. apply andb_true_iff in L. destruct L as [L1 L2].
  cbn [render_toks wf_assign] in *.
  pose proof (render_no_char "-" rest a L2 W) as ND.
  set (r := render_toks rest a) in *.
  apply orb_true_iff in L1. destruct L1 as [E|E]; apply String.eqb_eq in E; subst l.
  - change ("-" ++ r) with ("" ++ String "-" r).
    rewrite contains_char_app. simpl contains_char at 2. rewrite orb_true_r.
    rewrite rsplit_dash_app by assumption. rewrite time_info_dash by auto. reflexivity.
  - change ("--" ++ r) with ("-" ++ String "-" r).
    rewrite contains_char_app. simpl contains_char at 2. rewrite orb_true_r.
    rewrite rsplit_dash_app by assumption. rewrite time_info_dash by auto. reflexivity.
Qed.

Theorem get_info_trunc_nozone : forall dfs zfs cfg fd gd ft ad atm,
  date_ok dfs cfg fd = true -> hit (date_search dfs cfg ["reduced"]) fd = Some gd ->
  time_ok TIME_FORMS cfg (bad_formats_of (f_format gd) (f_type gd)) (trunc_types fd) ft = true ->
  trunc_time_lead (f_parse ft) = true ->
  wf_assign (f_parse fd) ad = true -> wf_assign (f_parse ft) atm = true ->
  get_info dfs TIME_FORMS zfs cfg (render_toks (f_parse fd) ad ++ "T" ++ render_toks (f_parse ft) atm) =
  match process_zone cfg [] with
  | POk z => POk (mkInfo (bindings (f_parse fd) ad) (bindings (f_parse ft) atm) z (f_expr fd ++ "T" ++ f_expr ft ++ ""))
  | PErr x => PErr x
  end.
Proof.
  intros dfs zfs cfg fd gd ft ad atm DO Hd TO TL Wd Wt. unfold date_ok, time_ok, trunc_types in *.
  repeat match goal with X : _ && _ = true |- _ => apply andb_true_iff in X; destruct X end.
  match goal with X : found (date_search _ _ _) fd = true |- _ =>
    destruct (found_hit _ _ X) as [gd' [Hd' [Ed [Td _]]]] end.
  rewrite Hd in Hd'. inversion Hd'; subst gd'. clear Hd'.
  match goal with X : found (time_search _ _ _ _) ft = true |- _ =>
    destruct (found_hit _ _ X) as [gt [Ht [Et _]]] end.
  set (bf := bad_formats_of (f_format gd) (f_type gd)) in *.
  assert (N : String.eqb (render_toks (f_parse fd) ad) "" && c_trunc cfg = false).
  { match goal with X : negb (c_trunc cfg) || _ = true |- _ => apply orb_true_iff in X; destruct X as [NT|NL] end.
    - apply negb_true_iff in NT. rewrite NT. apply andb_false_r.
    - rewrite nonempty_lead_render by assumption. reflexivity. }
  pose proof (date_part_hit dfs cfg fd gd ad Hd ltac:(assumption) Wd N) as DP.
  assert (BT : bad_types_of (bindings (f_parse fd) ad) = if binds "truncated" (f_parse fd) then [] else ["truncated"]).
  { unfold bad_types_of. rewrite has_key_bindings. reflexivity. }
  set (bt := if binds "truncated" (f_parse fd) then [] else ["truncated"]) in *.
  destruct (first_match_hit _ _ _ atm Ht ltac:(assumption) Wt) as [TM _].
  rewrite <- get_time_info_search in TM.
  set (d := render_toks (f_parse fd) ad) in *. set (t := render_toks (f_parse ft) atm) in *.
  assert (CdT : contains_char "T" d = false) by (apply render_no_char; assumption).
  assert (CtT : contains_char "T" t = false) by (apply render_no_char; assumption).
  change ("T" ++ t) with (String "T" t).
  rewrite <- Ed, <- Et.
  erewrite get_info_parts; [| assumption | assumption | exact DP | rewrite BT; apply split_tz_trunc; assumption ].
  rewrite BT. erewrite finish_none by eassumption. reflexivity.
Qed.

Lemma date_time_ok_tables : forall (cfg : pcfg) (fd gd ft : form),
  In cfg all_cfgs ->
  let dfs := date_forms_of (c_ned cfg) in
  In fd (date_search dfs cfg ["reduced"]) -> hit (date_search dfs cfg ["reduced"]) fd = Some gd ->
  In ft (time_search TIME_FORMS cfg (bad_formats_of (f_format gd) (f_type gd)) (trunc_types fd)) ->
  date_ok dfs cfg fd = true /\
  time_ok TIME_FORMS cfg (bad_formats_of (f_format gd) (f_type gd)) (trunc_types fd) ft = true.
Proof.
  intros cfg fd gd ft IC dfs ID H IT.
  pose proof tables_triples as T. rewrite forallb_forall in T. specialize (T cfg IC).
  unfold table_triples_ok in T. fold dfs in T. apply andb_true_iff in T. destruct T as [TD TT].
  rewrite forallb_forall in TD. specialize (TD fd ID).
  apply andb_true_iff in TD. destruct TD as [T1 _]. split; [exact T1|].
  rewrite forallb_forall in TT. specialize (TT _ (bad_formats_of_choice (f_format gd) (f_type gd))).
  rewrite forallb_forall in TT. specialize (TT _ (trunc_types_choice fd)).
  rewrite forallb_forall in TT. specialize (TT ft IT). apply andb_true_iff in TT. tauto.
Qed.

Lemma date_ok_cfg : forall dfs cfg fd, date_ok dfs cfg fd = date_ok dfs (cfg_of (c_ned cfg) (c_trunc cfg) (c_basic cfg)) fd.
Proof. destruct cfg; reflexivity. Qed.
Lemma time_ok_cfg : forall tfs cfg bf bt ft, time_ok tfs cfg bf bt ft = time_ok tfs (cfg_of (c_ned cfg) (c_trunc cfg) (c_basic cfg)) bf bt ft.
Proof. destruct cfg; reflexivity. Qed.

Theorem decode_trunc_nozone : forall md cfg fd gd ft ad atm (asp : bool),
  In (c_ned cfg) [0; 2; 3]%Z ->
  let dfs := date_forms_of (c_ned cfg) in
  In fd (date_search dfs cfg ["reduced"]) -> f_type fd = "truncated" ->
  hit (date_search dfs cfg ["reduced"]) fd = Some gd ->
  let bf := bad_formats_of (f_format gd) (f_type gd) in
  In ft (time_search TIME_FORMS cfg bf (trunc_types fd)) -> f_type ft = "truncated" ->
  wf_assign (f_parse fd) ad = true -> wf_assign (f_parse ft) atm = true ->
  let p := t_point cfg (f_parse fd) (f_parse ft) None ad atm [] (if asp then f_expr fd ++ "T" ++ f_expr ft else "") in
  parse_text md cfg (render_toks (f_parse fd) ad ++ "T" ++ render_toks (f_parse ft) atm) asp =
  if t_zone_ok (t_zone cfg None []) && check_bounds md p then POk p else PErr EBadInput.
Proof.
  intros md cfg fd gd ft ad atm asp N dfs ID TY H bf IT TT Wd Wt p.
  set (cfg' := cfg_of (c_ned cfg) (c_trunc cfg) (c_basic cfg)).
  assert (IC : In cfg' all_cfgs) by (apply cfg_of_in; assumption).
  assert (OKs : date_ok dfs cfg fd = true /\ time_ok TIME_FORMS cfg bf (trunc_types fd) ft = true).
  { rewrite date_ok_cfg, time_ok_cfg. fold cfg'.
    apply (date_time_ok_tables cfg' fd gd ft IC); unfold cfg'; cbn [c_ned cfg_of]; fold dfs.
    - rewrite <- date_search_cfg. exact ID.
    - rewrite <- date_search_cfg. exact H.
    - fold bf. rewrite <- (time_search_cfg TIME_FORMS cfg). exact IT. }
  destruct OKs as [DO TO].
  assert (Sd : trunc_date_shape (f_parse fd) = true).
  { apply (trunc_shape_tables (c_ned cfg)); [apply (date_search_In _ _ _ _ ID)|exact TY]. }
  assert (IT' : In ft TIME_FORMS) by apply (time_search_In _ _ _ _ _ IT).
  assert (St : time_any_shape (f_parse ft) = true) by (apply time_any_tables; exact IT').
  assert (TL : trunc_time_lead (f_parse ft) = true).
  { destruct tables_trunc_times as (S & _). rewrite forallb_forall in S. specialize (S ft IT').
    unfold not_trunc in S. rewrite TT in S. exact S. }
  destruct tables_num_keys as [K23 [K0 [KT KZ]]].
  assert (Kd : num_keys_ok DATE_KEYS (f_parse fd) = true) by (apply trunc_num_keys; exact Sd).
  assert (Kt : num_keys_ok TIME_KEYS (f_parse ft) = true) by (rewrite forallb_forall in KT; apply KT; exact IT').
  (* parse_text = get_info then the constructor call on numbers *)
  unfold parse_text.
  assert (AS : is_ascii_str (render_toks (f_parse fd) ad ++ "T" ++ render_toks (f_parse ft) atm) = true).
  { unfold date_ok, time_ok in DO, TO.
    repeat match goal with X : _ && _ = true |- _ => apply andb_true_iff in X; destruct X end.
    rewrite !is_ascii_app. rewrite !render_ascii by assumption. reflexivity. }
  rewrite AS. cbn [negb]. fold dfs.
  rewrite (get_info_trunc_nozone dfs ZONE_FORMS cfg fd gd ft ad atm DO H TO TL Wd Wt).
  rewrite sapp_nil_r.
  destruct (zone_num_opt cfg None [] eq_refl) as (zn & ZN & ZA). cbn [zo_bind] in ZN.
  rewrite <- zone_num_ok in ZN by (intros k s _ L; discriminate).
  destruct (process_zone cfg []) as [z|x]; [|discriminate ZN]. cbn [pbind] in ZN. cbn [i_expr].
  rewrite create_timepoint_num; cbn [i_date i_time i_zone]; [|apply bindings_digit_env; assumption|apply bindings_digit_env; assumption].
  rewrite ZN. cbn [pbind]. rewrite point_num_trunc by auto. cbv zeta. rewrite ZA. reflexivity.
Qed.

(* ------------------------------------------------------------------ *)
(* 5. vocabulary of the Examples of Props/C07Ext.v                     *)
(* ------------------------------------------------------------------ *)
(* parse with dump_as_parsed, then str() *)
Definition pstr (md : mode) (cfg : pcfg) (s : string) : option dres :=
  match parse_text md cfg s true with
  | POk p => match ptp_to_tp p with Some q => Some (do_dump md (p_ned p) q (p_fmt p)) | None => None end
  | PErr _ => None end.

Definition inb (f : form) (L : list form) : bool := existsb (form_eqb f) L.
Definition F_YM : form := Eval vm_compute in pick "basic" "CCYY-MM" DATE_FORMS_2.
Definition F_CC : form := Eval vm_compute in pick "basic" "CC" DATE_FORMS_2.
Definition F_ORDX3_BASIC : form := Eval vm_compute in pick "basic" "+XCCYYDDD" DATE_FORMS_3.
Definition F_HD_BASIC : form := Eval vm_compute in pick "basic" "hh.ii" TIME_FORMS.
Definition F_TMD_EXT : form := Eval vm_compute in pick "extended" "--MM-DD" DATE_FORMS_2.
Definition F_TMS_EXT : form := Eval vm_compute in pick "extended" "-mm:ss,tt" TIME_FORMS.
