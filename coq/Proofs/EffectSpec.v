(* Proofs/EffectSpec.v -- property C16: soundness of the write-effect checker
   of Model/EffectSem.v with respect to the heap semantics (the frame theorem),
   histories of public operations, and the reflection lemma for the table
   generated from /repo (gen/Effects.v). *)
From Coq Require Import List String Bool Arith Lia.
From Iso Require Import Spec.EffectIR Spec.Heap Model.EffectSem gen.Effects.
Import ListNotations.

(* ------------------------------------------------------------------ *)
(* heaps                                                               *)
(* ------------------------------------------------------------------ *)
Lemma set_nth_length : forall l o h, List.length (set_nth l o h) = List.length h.
Proof.
  intros l o h. revert l. induction h as [|x r IH]; intros [|l]; simpl; auto.
Qed.

Lemma set_nth_other : forall l o h l', l' <> l -> nth_error (set_nth l o h) l' = nth_error h l'.
Proof.
  intros l o h. revert l. induction h as [|x r IH]; intros l l' Hne; destruct l, l'; simpl; auto;
    try congruence.
Qed.

Lemma set_nth_same : forall l o h, l < List.length h -> nth_error (set_nth l o h) l = Some o.
Proof.
  intros l o h. revert l. induction h as [|x r IH]; intros [|l] Hl; simpl in *; try lia; auto.
  apply IH. lia.
Qed.

Lemma havoc_length : forall h v o, List.length (havoc h v o) = List.length h.
Proof. intros h [l|n] o; simpl; auto using set_nth_length. Qed.

Lemma havoc_other : forall h v o l, v <> VLoc l -> nth_error (havoc h v o) l = nth_error h l.
Proof.
  intros h [l0|n] o l Hne; simpl; auto.
  apply set_nth_other. congruence.
Qed.

Lemma extends_iff : forall h h',
  extends h h' <-> (List.length h <= List.length h' /\
                    forall l, l < List.length h -> nth_error h' l = nth_error h l).
Proof.
  intros h h'; split.
  - intros [k ->]. split.
    + rewrite app_length. lia.
    + intros l Hl. apply nth_error_app1. exact Hl.
  - revert h'. induction h as [|x r IH]; intros h' [Hlen Hsame].
    + exists h'. reflexivity.
    + destruct h' as [|y r']; simpl in Hlen; [lia|].
      assert (Hxy : y = x).
      { specialize (Hsame 0). simpl in Hsame. assert (H0 : 0 < S (List.length r)) by lia.
        specialize (Hsame H0). congruence. }
      subst y. destruct (IH r') as [k Hk].
      * split; [lia|]. intros l Hl. apply (Hsame (S l)). simpl. lia.
      * exists k. simpl. rewrite Hk. reflexivity.
Qed.

Lemma extends_refl : forall h, extends h h.
Proof. intros h. exists []. rewrite app_nil_r. reflexivity. Qed.

Lemma extends_trans : forall a b c, extends a b -> extends b c -> extends a c.
Proof. intros a b c [k ->] [k' ->]. exists (k ++ k')%list. rewrite app_assoc. reflexivity. Qed.

(* ------------------------------------------------------------------ *)
(* abstract values                                                     *)
(* ------------------------------------------------------------------ *)
(* concretisation: v is described by a in an activation that started when the
   heap had w objects and whose receiver is recv *)
Definition val_ok (a : aval) (w : nat) (recv v : val) : Prop :=
  match v with
  | VPrim _ => True
  | VLoc l =>
    match a with
    | AFresh => w <= l
    | ASelfOrFresh => w <= l \/ recv = VLoc l
    | AAny => True
    end
  end.

Definition env_ok (G : list aval) (w : nat) (recv : val) (e : env) : Prop :=
  forall x, val_ok (aget G x) w recv (e x).

Lemma val_ok_fresh : forall a w recv l, w <= l -> val_ok a w recv (VLoc l).
Proof. intros [] w recv l H; simpl; auto. Qed.

Lemma val_ok_mono : forall a b w recv v, aleb a b = true -> val_ok a w recv v -> val_ok b w recv v.
Proof. intros [] [] w recv [l|n]; simpl; intros; auto; try discriminate; tauto. Qed.

Lemma val_ok_any : forall a w recv v, aleb AAny a = true -> val_ok a w recv v.
Proof. intros [] w recv [l|n]; simpl; intros; auto; discriminate. Qed.

Lemma val_ok_apply_ret : forall r ay w w' recv recv' v,
  val_ok r w' recv' v -> w <= w' -> val_ok ay w recv recv' ->
  val_ok (apply_ret r ay) w recv v.
Proof.
  intros r ay w w' recv recv' [l|n] Hv Hw Hr; simpl; auto.
  destruct r; simpl in *.
  - lia.
  - destruct Hv as [Hv|Hv].
    + apply val_ok_fresh. lia.
    + subst recv'. exact Hr.
  - exact I.
Qed.

Lemma env_ok_upd : forall G w recv e x v,
  env_ok G w recv e -> val_ok (aget G x) w recv v -> env_ok G w recv (upd e x v).
Proof.
  intros G w recv e x v He Hv y. unfold upd.
  destruct (Nat.eqb y x) eqn:E.
  - apply Nat.eqb_eq in E. subst y. exact Hv.
  - apply He.
Qed.

Lemma env_ok_env0 : forall G w recv,
  aleb ASelfOrFresh (aget G 0) = true -> env_ok G w recv (env0 recv).
Proof.
  intros G w recv H [|x]; simpl.
  - apply (val_ok_mono ASelfOrFresh); auto. destruct recv; simpl; auto.
  - exact I.
Qed.

(* a write through a writable variable leaves every object older than the
   activation alone, except the receiver of a method allowed to write it *)
Definition frame (w : nat) (mu : bool) (recv : val) (h h' : heap) : Prop :=
  forall l, l < w -> (mu = true /\ recv = VLoc l) \/ nth_error h' l = nth_error h l.

Lemma frame_refl : forall w mu recv h, frame w mu recv h h.
Proof. intros w mu recv h l Hl. right. reflexivity. Qed.

Lemma frame_trans : forall w mu recv h1 h2 h3,
  frame w mu recv h1 h2 -> frame w mu recv h2 h3 -> frame w mu recv h1 h3.
Proof.
  intros w mu recv h1 h2 h3 H12 H23 l Hl.
  destruct (H12 l Hl) as [H|H]; [left; exact H|].
  destruct (H23 l Hl) as [H'|H']; [left; exact H'|].
  right. congruence.
Qed.

Lemma frame_havoc : forall w mu recv h v o a,
  writable mu a = true -> val_ok a w recv v -> frame w mu recv h (havoc h v o).
Proof.
  intros w mu recv h v o a Hw Hv l Hl.
  destruct v as [l0|n]; [|right; reflexivity].
  destruct (Nat.eq_dec l0 l) as [->|Hne].
  - destruct a; simpl in *.
    + lia.
    + destruct Hv as [Hv|Hv]; [lia|]. left. split; auto.
    + discriminate.
  - right. apply havoc_other. congruence.
Qed.

(* a callee that respects its own frame respects the caller's *)
Lemma frame_call : forall w w' mu cm recv recv' h h' ay,
  frame w' cm recv' h h' -> w <= w' ->
  (negb cm || writable mu ay = true) -> val_ok ay w recv recv' ->
  frame w mu recv h h'.
Proof.
  intros w w' mu cm recv recv' h h' ay Hf Hw Hperm Hr l Hl.
  destruct (Hf l ltac:(lia)) as [[Hcm Hrecv]|H]; [|right; exact H].
  subst cm recv'. simpl in Hperm.
  destruct ay; simpl in *.
  - lia.
  - destruct Hr as [Hr|Hr]; [lia|]. left. split; auto.
  - discriminate.
Qed.

Definition ret_ok (rt : aval) (w : nat) (recv : val) (st : status) : Prop :=
  match st with Returned v => val_ok rt w recv v | _ => True end.

(* ------------------------------------------------------------------ *)
(* soundness of the checker                                            *)
(* ------------------------------------------------------------------ *)
Lemma forallb2_In : forall A B (f : A -> B -> bool) l m a,
  forallb2 f l m = true -> In a l -> exists b, f a b = true.
Proof.
  intros A B f l. induction l as [|x l IH]; intros [|y m] a H Hin; simpl in *; try discriminate; try tauto.
  apply andb_true_iff in H. destruct H as [H1 H2].
  destruct Hin as [->|Hin]; [exists y; exact H1|]. eapply IH; eauto.
Qed.

Section Sound.
Variable T : list entry.
Variable Sm : summaries.
(* every method of the table checks against the summaries (with some
   assignment of abstract values to its variables) *)
Hypothesis table_ok : forall ent, In ent T -> exists G, tc_entry Sm ent G = true.

Lemma exec_sound : forall s e h e' h' st,
  exec T s e h e' h' st ->
  forall G mu rt w rc,
    tc G mu rt Sm s = true -> env_ok G w rc e -> w <= List.length h ->
    env_ok G w rc e' /\ List.length h <= List.length h' /\
    frame w mu rc h h' /\ ret_ok rt w rc st.
Proof.
  induction 1; intros G mu rt w rc Htc Henv Hw.
  - (* skip *) repeat split; auto using frame_refl.
  - (* crash *) repeat split; auto using frame_refl.
  - (* seq, first part runs through *)
    simpl in Htc. apply andb_true_iff in Htc. destruct Htc as [Ha Hb].
    destruct (IHexec1 G mu rt w rc Ha Henv Hw) as (He1 & Hl1 & Hf1 & _).
    destruct (IHexec2 G mu rt w rc Hb He1 ltac:(lia)) as (He2 & Hl2 & Hf2 & Hr2).
    repeat split; auto; try lia. eapply frame_trans; eauto.
  - (* seq, first part stops *)
    simpl in Htc. apply andb_true_iff in Htc. destruct Htc as [Ha Hb].
    apply (IHexec G mu rt w rc Ha Henv Hw).
  - simpl in Htc. apply andb_true_iff in Htc. destruct Htc as [Ha Hb].
    apply (IHexec G mu rt w rc Ha Henv Hw).
  - simpl in Htc. apply andb_true_iff in Htc. destruct Htc as [Ha Hb].
    apply (IHexec G mu rt w rc Hb Henv Hw).
  - (* loop, no more iterations *) repeat split; auto using frame_refl.
  - (* loop, one iteration then the rest *)
    assert (Hb : tc G mu rt Sm b = true) by exact Htc.
    destruct (IHexec1 G mu rt w rc Hb Henv Hw) as (He1 & Hl1 & Hf1 & _).
    destruct (IHexec2 G mu rt w rc Htc He1 ltac:(lia)) as (He2 & Hl2 & Hf2 & Hr2).
    repeat split; auto; try lia. eapply frame_trans; eauto.
  - (* loop, the body returns or aborts *)
    apply (IHexec G mu rt w rc Htc Henv Hw).
  - (* new *)
    repeat split; auto using frame_refl.
    + apply env_ok_upd; auto. apply val_ok_fresh. exact Hw.
    + rewrite app_length. simpl. lia.
    + intros l Hl. right. apply nth_error_app1. lia.
  - (* alias *)
    simpl in Htc. repeat split; auto using frame_refl.
    apply env_ok_upd; auto. eapply val_ok_mono; [exact Htc|apply Henv].
  - (* any *)
    simpl in Htc. repeat split; auto using frame_refl.
    apply env_ok_upd; auto. apply val_ok_any. exact Htc.
  - (* prim *)
    repeat split; auto using frame_refl. apply env_ok_upd; auto; exact I.
  - (* write *)
    simpl in Htc. repeat split; auto.
    + rewrite havoc_length. lia.
    + eapply frame_havoc; [exact Htc|apply Henv].
  - (* store *)
    simpl in Htc. repeat split; auto.
    + rewrite havoc_length. lia.
    + eapply frame_havoc; [exact Htc|apply Henv].
  - (* call *)
    simpl in Htc. subst m.
    destruct (lookup Sm (e_name ent)) as [[r cm]|] eqn:Hlk; [|discriminate].
    apply andb_true_iff in Htc. destruct Htc as [Hperm Hres].
    destruct (table_ok ent H) as [G' HG']. unfold tc_entry in HG'. rewrite Hlk in HG'.
    apply andb_true_iff in HG'. destruct HG' as [HG' _].
    apply andb_true_iff in HG'. destruct HG' as [Hbody Hself].
    destruct (IHexec G' cm r (List.length h) (e y) Hbody (env_ok_env0 _ _ _ Hself) (le_n _))
      as (_ & Hl1 & Hf1 & Hr1).
    assert (Hfr : frame w mu rc h h1).
    { eapply frame_call; [exact Hf1|exact Hw|exact Hperm|apply Henv]. }
    destruct s1 as [| |v|]; simpl in *; repeat split; auto.
    + apply env_ok_upd; auto; exact I.
    + apply env_ok_upd; auto; exact I.
    + apply env_ok_upd; auto. eapply val_ok_mono; [exact Hres|].
      eapply val_ok_apply_ret; [exact Hr1|exact Hw|apply Henv].
  - (* external code: one public call *)
    simpl in Htc.
    destruct (table_ok ent H) as [G' HG']. unfold tc_entry in HG'.
    destruct (lookup Sm (e_name ent)) as [[r cm]|] eqn:Hlk; [|discriminate].
    apply andb_true_iff in HG'. destruct HG' as [HG' Hpub].
    apply andb_true_iff in HG'. destruct HG' as [Hbody Hself].
    rewrite H0 in Hpub. simpl in Hpub. apply negb_true_iff in Hpub. subst cm.
    destruct (IHexec G' false r (List.length h) recv Hbody (env_ok_env0 _ _ _ Hself) (le_n _))
      as (_ & Hl1 & Hf1 & _).
    assert (Hfr : frame w mu rc h h1).
    { intros l Hl. destruct (Hf1 l ltac:(lia)) as [[Hc _]|Hs]; [discriminate|]. right. exact Hs. }
    repeat split; auto.
    + apply env_ok_upd; auto. apply val_ok_any. exact Htc.
    + destruct H4; subst s; exact I.
  - (* return *)
    simpl in Htc. repeat split; auto using frame_refl.
    simpl. eapply val_ok_mono; [exact Htc|apply Henv].
  - repeat split; auto using frame_refl.
  - repeat split; auto using frame_refl.
Qed.

(* the frame theorem for one public operation *)
Lemma public_frame : forall ent recv h e1 h1 s1,
  In ent T -> is_public (e_name ent) = true ->
  exec T (e_body ent) (env0 recv) h e1 h1 s1 ->
  List.length h <= List.length h1 /\
  forall l, l < List.length h -> nth_error h1 l = nth_error h l.
Proof.
  intros ent recv h e1 h1 s1 Hin Hpub Hex.
  destruct (table_ok ent Hin) as [G HG]. unfold tc_entry in HG.
  destruct (lookup Sm (e_name ent)) as [[r cm]|] eqn:Hlk; [|discriminate].
  apply andb_true_iff in HG. destruct HG as [HG Hp].
  apply andb_true_iff in HG. destruct HG as [Hbody Hself].
  unfold outside_callable in Hp. rewrite Hpub in Hp. simpl in Hp. apply negb_true_iff in Hp. subst cm.
  destruct (exec_sound _ _ _ _ _ _ Hex G false r (List.length h) recv Hbody
              (env_ok_env0 _ _ _ Hself) (le_n _)) as (_ & Hl & Hf & _).
  split; auto. intros l Hl'. destruct (Hf l Hl') as [[Hc _]|Hs]; [discriminate|exact Hs].
Qed.

Lemma op_step_extends : forall h h1, op_step T h h1 -> extends h h1.
Proof.
  intros h h1 Hs. destruct Hs as [ent recv h e1 h1 s1 Hin Hpub _ Hex].
  apply extends_iff. eapply public_frame; eauto.
Qed.

Lemma history_extends_all : forall h0 hs, history T h0 hs -> Forall (extends h0) hs.
Proof.
  intros h0 hs Hh. induction Hh as [h|h h1 rest Hs Hh IH]; constructor.
  - apply op_step_extends. exact Hs.
  - eapply Forall_impl; [|exact IH]. intros a Ha.
    eapply extends_trans; [apply op_step_extends; exact Hs|exact Ha].
Qed.

(* every heap of a history extends every earlier one *)
Lemma history_pairs : forall h0 hs, history T h0 hs ->
  forall i j hi hj, i <= j -> nth_error (h0 :: hs) i = Some hi -> nth_error (h0 :: hs) j = Some hj ->
  extends hi hj.
Proof.
  intros h0 hs Hh. induction Hh as [h|h h1 rest Hs Hh IH]; intros i j hi hj Hij Hi Hj.
  - destruct i as [|i]; [|destruct i; discriminate]. destruct j as [|j]; [|destruct j; discriminate].
    simpl in *. inversion Hi; inversion Hj; subst. apply extends_refl.
  - destruct i as [|i].
    + simpl in Hi. inversion Hi; subst hi. destruct j as [|j].
      * simpl in Hj. inversion Hj; subst. apply extends_refl.
      * simpl in Hj. pose proof (history_extends_all _ _ (H_cons _ _ _ _ Hs Hh)) as Hall.
        rewrite Forall_forall in Hall. apply Hall. eapply nth_error_In. exact Hj.
    + destruct j as [|j]; [lia|]. simpl in Hi, Hj. eapply (IH i j); eauto. lia.
Qed.

End Sound.

(* ------------------------------------------------------------------ *)
(* from the boolean check                                              *)
(* ------------------------------------------------------------------ *)
Lemma check_table_ok : forall T, check T = true ->
  exists Sm, forall ent, In ent T -> exists G, tc_entry Sm ent G = true.
Proof.
  intros T H. unfold check in H. destruct (infer T) as [Sm Gs]. exists Sm.
  intros ent Hin. unfold check_with in H. eapply forallb2_In; eauto.
Qed.

(* analysis_sound (the frame theorem): when the table passes the check, no
   execution of a public method writes an object that existed before it *)
Theorem analysis_sound : forall T, check T = true ->
  forall ent recv h e1 h1 s1,
    In ent T -> is_public (e_name ent) = true ->
    exec T (e_body ent) (env0 recv) h e1 h1 s1 ->
    forall l, l < List.length h -> nth_error h1 l = nth_error h l.
Proof.
  intros T Hc ent recv h e1 h1 s1 Hin Hpub Hex.
  destruct (check_table_ok T Hc) as [Sm Hok].
  apply (public_frame T Sm Hok ent recv h e1 h1 s1 Hin Hpub Hex).
Qed.

(* the same with the new objects made explicit: the heap after the operation
   is the heap before it followed by the objects the operation allocated *)
Theorem analysis_sound_extends : forall T, check T = true ->
  forall h h1, op_step T h h1 -> extends h h1.
Proof.
  intros T Hc h h1 Hs. destruct (check_table_ok T Hc) as [Sm Hok].
  eapply op_step_extends; eauto.
Qed.

Definition C16_histories_statement (T : list entry) : Prop :=
  forall h0 hs, history T h0 hs ->
  forall i j hi hj, i <= j ->
    nth_error (h0 :: hs) i = Some hi -> nth_error (h0 :: hs) j = Some hj ->
    extends hi hj.

Theorem histories_sound : forall T, check T = true -> C16_histories_statement T.
Proof.
  intros T Hc. destruct (check_table_ok T Hc) as [Sm Hok].
  intros h0 hs Hh. eapply history_pairs; eauto.
Qed.

(* ------------------------------------------------------------------ *)
(* observations                                                        *)
(* ------------------------------------------------------------------ *)
Lemma valid_extends : forall h k v, valid h v -> valid (h ++ k)%list v.
Proof. intros h k [l|n]; simpl; auto. rewrite app_length. lia. Qed.

(* what can be observed (to any depth) of a value of a well-formed heap is
   the same in every extension of that heap *)
Lemma observe_extends : forall n h k v, wf_heap h -> valid h v ->
  observe n (h ++ k)%list v = observe n h v.
Proof.
  induction n as [|n IH]; intros h k v Hwf Hv; simpl; auto.
  destruct v as [l|p]; auto. simpl in Hv.
  rewrite nth_error_app1 by exact Hv.
  destruct (nth_error h l) as [o|] eqn:Ho; auto.
  f_equal. apply map_ext_in. intros a Ha. apply IH; auto.
  specialize (Hwf l o Ho). rewrite Forall_forall in Hwf. apply Hwf. exact Ha.
Qed.

(* ------------------------------------------------------------------ *)
(* well-formedness is preserved (no dangling references are created)   *)
(* ------------------------------------------------------------------ *)
Definition env_valid (h : heap) (e : env) : Prop := forall x, valid h (e x).

Lemma valid_mono : forall h h' v, List.length h <= List.length h' -> valid h v -> valid h' v.
Proof. intros h h' [l|n]; simpl; auto. lia. Qed.

Lemma wf_set_nth : forall h l o, wf_heap h -> Forall (valid h) o -> wf_heap (set_nth l o h).
Proof.
  intros h l o Hwf Ho l' o' Hl'.
  assert (Hv : forall v, valid h v -> valid (set_nth l o h) v).
  { intros v. apply valid_mono. rewrite set_nth_length. lia. }
  destruct (Nat.eq_dec l' l) as [->|Hne].
  - destruct (Nat.lt_ge_cases l (List.length h)) as [Hlt|Hge].
    + rewrite set_nth_same in Hl' by exact Hlt. inversion Hl'; subst o'.
      eapply Forall_impl; [|exact Ho]. exact Hv.
    + assert (Hnone : nth_error (set_nth l o h) l = None).
      { apply nth_error_None. rewrite set_nth_length. exact Hge. }
      congruence.
  - rewrite set_nth_other in Hl' by exact Hne.
    eapply Forall_impl; [|exact (Hwf l' o' Hl')]. exact Hv.
Qed.

Lemma wf_havoc : forall h v o, wf_heap h -> Forall (valid h) o -> wf_heap (havoc h v o).
Proof. intros h [l|n] o Hwf Ho; simpl; auto using wf_set_nth. Qed.

Lemma wf_alloc : forall h, wf_heap h -> wf_heap (h ++ [[]])%list.
Proof.
  intros h Hwf l o Hl.
  destruct (Nat.lt_ge_cases l (List.length h)) as [Hlt|Hge].
  - rewrite nth_error_app1 in Hl by exact Hlt.
    eapply Forall_impl; [|exact (Hwf l o Hl)]. intros v. apply valid_extends.
  - rewrite nth_error_app2 in Hl by exact Hge.
    destruct (l - List.length h) as [|d]; simpl in Hl.
    + inversion Hl. constructor.
    + destruct d; discriminate.
Qed.

Lemma env_valid_upd : forall h e x v, env_valid h e -> valid h v -> env_valid h (upd e x v).
Proof.
  intros h e x v He Hv y. unfold upd. destruct (Nat.eqb y x); auto.
Qed.

Lemma env_valid_env0 : forall h recv, valid h recv -> env_valid h (env0 recv).
Proof. intros h recv Hv [|x]; simpl; auto. Qed.

Lemma env_valid_mono : forall h h' e, List.length h <= List.length h' -> env_valid h e -> env_valid h' e.
Proof. intros h h' e Hl He x. eapply valid_mono; eauto. Qed.

Definition status_valid (h : heap) (st : status) : Prop :=
  match st with Returned v => valid h v | _ => True end.

Lemma exec_wf : forall T s e h e' h' st,
  exec T s e h e' h' st -> wf_heap h -> env_valid h e ->
  wf_heap h' /\ env_valid h' e' /\ List.length h <= List.length h' /\ status_valid h' st.
Proof.
  induction 1; intros Hwf Hev.
  - repeat split; auto.
  - repeat split; auto.
  - destruct (IHexec1 Hwf Hev) as (Hw1 & He1 & Hl1 & _).
    destruct (IHexec2 Hw1 He1) as (Hw2 & He2 & Hl2 & Hs2). repeat split; auto. lia.
  - auto.
  - auto.
  - auto.
  - repeat split; auto.
  - destruct (IHexec1 Hwf Hev) as (Hw1 & He1 & Hl1 & _).
    destruct (IHexec2 Hw1 He1) as (Hw2 & He2 & Hl2 & Hs2). repeat split; auto. lia.
  - auto.
  - (* new *)
    assert (Hlen : List.length h <= List.length (h ++ [[]])%list) by (rewrite app_length; lia).
    repeat split; auto using wf_alloc.
    apply env_valid_upd.
    + eapply env_valid_mono; eauto.
    + simpl. rewrite app_length. simpl. lia.
  - repeat split; auto. apply env_valid_upd; auto.
  - repeat split; auto. apply env_valid_upd; auto.
  - repeat split; auto. apply env_valid_upd; auto. exact I.
  - repeat split; auto using wf_havoc.
    + eapply env_valid_mono; [|exact Hev]. rewrite havoc_length. lia.
    + rewrite havoc_length. lia.
  - repeat split; auto using wf_havoc.
    + eapply env_valid_mono; [|exact Hev]. rewrite havoc_length. lia.
    + rewrite havoc_length. lia.
  - (* call *)
    destruct (IHexec Hwf (env_valid_env0 _ _ (Hev y))) as (Hw1 & _ & Hl1 & Hs1).
    assert (Hev1 : env_valid h1 e) by (eapply env_valid_mono; eauto).
    destruct s1 as [| |v|]; simpl in *; repeat split; auto; apply env_valid_upd; auto; exact I.
  - (* external *)
    destruct (IHexec Hwf (env_valid_env0 _ _ H1)) as (Hw1 & _ & Hl1 & _).
    repeat split; auto.
    + apply env_valid_upd; auto. eapply env_valid_mono; eauto.
    + destruct H4; subst s; exact I.
  - repeat split; auto. simpl. apply Hev.
  - repeat split; auto.
  - repeat split; auto.
Qed.

Lemma op_step_wf : forall T h h1, op_step T h h1 -> wf_heap h -> wf_heap h1.
Proof.
  intros T h h1 Hs Hwf. destruct Hs as [ent recv h e1 h1 s1 _ _ Hv Hex].
  destruct (exec_wf _ _ _ _ _ _ _ Hex Hwf (env_valid_env0 _ _ Hv)) as (Hw & _). exact Hw.
Qed.

Lemma history_wf : forall T h0 hs, history T h0 hs -> wf_heap h0 -> Forall wf_heap hs.
Proof.
  intros T h0 hs Hh. induction Hh as [h|h h1 rest Hs Hh IH]; intros Hwf; constructor.
  - eapply op_step_wf; eauto.
  - apply IH. eapply op_step_wf; eauto.
Qed.

(* every earlier value, re-inspected after every later step, looks the same
   to any depth *)
Theorem histories_observe : forall T, check T = true ->
  forall h0 hs, wf_heap h0 -> history T h0 hs ->
  forall i j hi hj v n, i <= j ->
    nth_error (h0 :: hs) i = Some hi -> nth_error (h0 :: hs) j = Some hj ->
    valid hi v -> observe n hj v = observe n hi v.
Proof.
  intros T Hc h0 hs Hwf Hh i j hi hj v n Hij Hi Hj Hv.
  destruct (histories_sound T Hc h0 hs Hh i j hi hj Hij Hi Hj) as [k ->].
  apply observe_extends; auto.
  pose proof (history_wf T h0 hs Hh Hwf) as Hall.
  assert (Hall' : Forall wf_heap (h0 :: hs)) by (constructor; auto).
  rewrite Forall_forall in Hall'. apply Hall'. eapply nth_error_In. exact Hi.
Qed.

(* ------------------------------------------------------------------ *)
(* the table generated from /repo                                      *)
(* ------------------------------------------------------------------ *)
Lemma effects_table_ok : translator_ok_effects = true /\ check Effects.table = true.
Proof. vm_compute. split; reflexivity. Qed.

(* the hypotheses are satisfiable: a public method, a non-empty heap *)
Lemma effects_nonvacuous :
  existsb (fun ent => (is_public (e_name ent) && String.eqb (e_name ent) "to_time_zone")%bool) Effects.table = true /\
  existsb (fun ent => negb (is_public (e_name ent))) Effects.table = true /\
  Nat.leb 100 (List.length Effects.table) = true.
Proof. vm_compute. repeat split; reflexivity. Qed.

(* the check is what carries the theorem: a table whose public method writes
   its receiver is rejected, and its semantics does change an existing object *)
Definition bad_table : list entry := [mkEntry "K" "poke" 1 false (SWrite 0)].
Lemma frame_needs_check :
  check bad_table = false /\
  op_step bad_table [[VPrim 1]] [[VPrim 2]].
Proof.
  split; [vm_compute; reflexivity|].
  eapply (OpStep bad_table (mkEntry "K" "poke" 1 false (SWrite 0)) (VLoc 0) [[VPrim 1]]
                 (env0 (VLoc 0)) [[VPrim 2]] Running).
  - left. reflexivity.
  - vm_compute. reflexivity.
  - simpl. auto.
  - simpl. apply (E_Write bad_table 0 [VPrim 2] (env0 (VLoc 0)) [[VPrim 1]]).
    constructor; simpl; auto.
Qed.

(* the hypotheses of the history theorem are satisfiable on the generated
   table: it has a public method, and a public method applied to an existing
   object of a well-formed heap gives a history of length one *)
Definition ex_heap : heap := [[VPrim 2000; VPrim 1; VPrim 1]].
Lemma effects_history_example :
  check Effects.table = true /\ wf_heap ex_heap /\
  exists hs, hs <> [] /\ history Effects.table ex_heap hs.
Proof.
  split; [vm_compute; reflexivity|]. split.
  - intros l o Hl. destruct l as [|l]; simpl in Hl.
    + inversion Hl. repeat constructor.
    + destruct l; discriminate.
  - assert (Hex : existsb (fun ent => is_public (e_name ent)) Effects.table = true)
      by (vm_compute; reflexivity).
    apply existsb_exists in Hex. destruct Hex as [ent [Hin Hpub]].
    exists [ex_heap]. split; [discriminate|].
    eapply H_cons; [|apply H_nil].
    eapply (OpStep Effects.table ent (VLoc 0) ex_heap (env0 (VLoc 0)) ex_heap Aborted); auto.
    + simpl. auto.
    + apply E_Crash.
Qed.
