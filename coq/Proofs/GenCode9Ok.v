(* Proofs/GenCode9Ok.v -- the dumper as translated from dumpers.py / data.py on this run
   (gen/GenCode9.v) against the hand-written model Model/Dump.v, Model/Strftime.v,
   Model/DriverText.v (do_dump, do_str).

   The abstract operations of gen/GenCode9.v (dump_ops) are instantiated by `mops md fuel`:
   the TimePoint operations with PHASE 4's translated methods (gen/GenCode4.v, through
   lift4), so that the lemmas of Proofs/GenCode4*.v give the model's functions; the table
   look-ups (regex substitutions, strftime directives) with the model's look-ups in the
   generated tables of gen/Grammar.v; get_time_zone with DriverText.zone_of_text;
   "%0.6f" with fmt6f (round half up on exact rationals: DESIGN.md section 3).

   Proofs are by evaluation of the generated code on constructor-headed states (rep fl p)
   and case analysis on what the code scrutinises; nothing mentions temporaries. *)
From Coq Require Import ZArith QArith Qround Qabs Lqa Lia String Ascii List Bool.
From Iso Require Import Proofs.Tac Spec.Cal Spec.Instant Model.Num Model.Helpers Model.Duration Model.TimePoint
  Model.Forms Model.Parse Model.LocalZone Model.Dump Model.Strftime Model.DriverText gen.Grammar
  gen.CalTables gen.GenCode gen.GenCode2 gen.GenCode4
  Proofs.GenCode4Base Proofs.GenCode4Stmt Proofs.GenCode4Stmt2 Proofs.GenCode4Conv Proofs.GenCode4Zone
  Proofs.GenCode4Ok Proofs.RoundTripSpec.
From Iso Require gen.GenCode3 Spec.FormText.
From Iso Require Import gen.GenCode9.
Import ListNotations.
Local Open Scope string_scope.
Local Open Scope Z_scope.

Lemma gen_code9_accepted : translator_ok_code9 = true.
Proof. reflexivity. Qed.

(* ------------------------------------------------------------------ the instantiation *)
(* "%0.6f" % x on an exact rational: round half up at the sixth decimal *)
Definition fmt6f (x : Q) : string :=
  let n := Qfloor (Qabs x * 1000000 + (1 # 2)) in
  (if Qle_bool 0 x then "" else "-") ++ show_Z (n / 1000000) ++ "." ++ pad_num 6 (n mod 1000000).
Definition float_format (f : string) (x : Q) : exc string :=
  if String.eqb f "%0.6f" then Ok (fmt6f x) else Raise NotTranslated.

(* TimeZone(hours=h, minutes=m): the bounds of TimeZone.__init__ (phase 7: valid_zone) *)
Definition zone_make (h m : Z) : exc pyTimeZone :=
  if valid_zone (mkZone h m) then Ok (mkTimeZone h m false) else Raise BadInputError.

(* the substitution loops of _get_expression_and_properties, as the model reads them:
   whole-string look-up in the generated tables *)
Definition translate_part (d : pyDumper) (key s : string) : exc (list dtok * list string) :=
  let ned := d_num_expanded_year_digits d in
  if String.eqb key "date" then
    match date_template (date_forms_of ned) s with Some r => Ok r | None => Raise Unmodelled end
  else if String.eqb key "time" then
    if String.eqb s "" then Ok ([], [])
    else match find_expr TIME_FORMS s with Some f => Ok (Forms.f_dump f, f_props f) | None => Raise Unmodelled end
  else
    if String.eqb s "" then Ok ([], [])
    else match zone_template ZONE_FORMS s with Some r => Ok r | None => Raise Unmodelled end.

Definition translate_token (d : string) : exc (list dtok * list string) :=
  match lookup_dir d STRFTIME_TABLE with
  | Some (dt, dp, _) => Ok (dt, dp)
  | None => Raise StrftimeSyntaxError
  end.

Definition lift3d {A : Type} (r : GenCode3.exc A) : exc A :=
  match r with
  | GenCode3.Ok a => Ok a
  | GenCode3.Raise GenCode3.TypeError => Raise TypeError
  | GenCode3.Raise GenCode3.ZeroDivisionError => Raise ZeroDivisionError
  end.

Definition unix_epoch_tp : tp := mkTp (Cal 1970 1 1) (HMS 0 0 0) (mkZone 0 0).

Definition mops (md : mode) (fuel : nat) : dump_ops :=
  let c := cal_of md in
  mkOps
    (fun o => lift4 (py_TimePoint_to_week_date fuel c o))
    (fun o => lift4 (py_TimePoint_to_calendar_date fuel c o))
    (fun o => lift4 (py_TimePoint_to_ordinal_date fuel c o))
    (fun o => lift4 (py_TimePoint_to_utc fuel c o))
    (fun o => lift4 (py_TimePoint__normalised fuel c o))
    (fun o z => lift4 (py_TimePoint_to_time_zone fuel c o z))
    (fun o => lift4 (py_TimePoint_get_calendar_date fuel c o))
    (fun o => lift4 (py_TimePoint_get_ordinal_date fuel c o))
    (fun o => lift4 (py_TimePoint_get_week_date fuel c o))
    (fun o => lift4 (py_TimePoint_get_hour_minute_second fuel c o))
    (Ok (rep (mkFlags 0 None None None) unix_epoch_tp))
    (fun a b => lift4 (py_TimePoint___sub____TimePoint fuel c a b))
    (fun d => lift3d (GenCode3.py_Duration_get_days_and_seconds (c_SECONDS_IN_HOUR c) (c_SECONDS_IN_DAY c) (c_ROUGH_DAYS_IN_YEAR c) d))
    (c_SECONDS_IN_DAY c)
    zone_make
    (fun _ s => Ok (zone_of_text s))
    translate_part
    translate_token
    float_format.

(* ------------------------------------------------------------------ the string library *)
Lemma rstrip_zero_strip : forall s, rstrip_char "0" s = strip_zeros s.
Proof.
  intro s. unfold strip_zeros.
  set (go := fix go (l : list ascii) : list ascii :=
      match l with [] => [] | c :: r => match go r with
                                        | [] => if Ascii.eqb c "0" then [] else [c]
                                        | x => c :: x end end).
  assert (H : forall s, rstrip_char "0" s = string_of_list_ascii (go (list_ascii_of_string s))).
  { induction s0 as [|a r IH]; [reflexivity|].
    cbn [rstrip_char list_ascii_of_string]. rewrite IH.
    change (go (a :: list_ascii_of_string r)) with
      (match go (list_ascii_of_string r) with [] => if Ascii.eqb a "0" then [] else [a] | x => a :: x end).
    destruct (go (list_ascii_of_string r)) as [|x l]; cbn [string_of_list_ascii].
    - destruct (Ascii.eqb a "0"); reflexivity.
    - reflexivity. }
  apply H.
Qed.

Lemma endswith_Z : forall s, ends_with_Z s = if py_endswith "Z" s then Some (py_drop_last s) else None.
Proof.
  induction s as [|c r IH]; [reflexivity|].
  destruct r as [|c' r'].
  - cbn. destruct c as [[] [] [] [] [] [] [] []]; reflexivity.
  - change (ends_with_Z (String c (String c' r'))) with
      (match ends_with_Z (String c' r') with Some x => Some (String c x) | None => None end).
    rewrite IH.
    change (py_endswith "Z" (String c (String c' r'))) with
      (String.eqb "Z" (String c (String c' r')) || py_endswith "Z" (String c' r')).
    assert (E : String.eqb "Z" (String c (String c' r')) = false).
    { cbn [String.eqb]. destruct (Ascii.eqb "Z" c); reflexivity. }
    rewrite E. cbn [orb].
    destruct (py_endswith "Z" (String c' r')); reflexivity.
Qed.

Lemma contains_one : forall c s, py_contains (String c "") s = contains_char c s.
Proof.
  intros c s. unfold py_contains. induction s as [|a r IH]; [reflexivity|].
  cbn [contains_sub contains_char str_prefix]. rewrite (Ascii.eqb_sym a c).
  destruct (Ascii.eqb c a); [reflexivity|]. cbn [orb]. exact IH.
Qed.

Lemma lstrip_dash_eq : forall s, lstrip_char "-" s = lstrip_dash s.
Proof.
  induction s as [|a r IH]; [reflexivity|].
  cbn [lstrip_char]. destruct (Ascii.eqb a "-") eqn:E.
  - apply Ascii.eqb_eq in E. subst a. cbn [lstrip_dash]. exact IH.
  - destruct a as [[] [] [] [] [] [] [] []]; try reflexivity; discriminate E.
Qed.

(* show_Z / read_Z round trip, for the run-time template "%0<width>d" *)
Lemma read_show_Z : forall z, read_Z (show_Z z) = Some z.
Proof.
  intro z. unfold read_Z, show_Z.
  rewrite DecimalString.NilZero.isi.
  - rewrite DecimalZ.of_to. reflexivity.
  - destruct z; cbn; try discriminate; intro H; injection H; apply DecimalPos.Unsigned.to_uint_nonnil.
  - destruct z; cbn; try discriminate; intro H; injection H; apply DecimalPos.Unsigned.to_uint_nonnil.
Qed.

Lemma split_last_app : forall s c, split_last (s ++ String c "") = Some (s, c).
Proof.
  induction s as [|a r IH]; intro c; [reflexivity|].
  cbn [append]. destruct r as [|b r'].
  - reflexivity.
  - change (split_last (String a (String b r' ++ String c ""))) with
      (match split_last (String b r' ++ String c "") with Some (x, l) => Some (String a x, l) | None => None end).
    rewrite IH. reflexivity.
Qed.

(* "%0<n>d" % v *)
Lemma percent_int_ok : forall n v, 0 <= n ->
  py_percent_int (("%0" ++ show_Z n) ++ "d") v = Ok (pad_num (Z.to_nat n) v).
Proof.
  intros n v Hn. unfold py_percent_int.
  change (str_prefix "%0" (("%0" ++ show_Z n) ++ "d")) with (Some (show_Z n ++ "d")).
  cbv beta iota. rewrite split_last_app.
  assert (D : forallb is_digit (list_ascii_of_string (show_Z n)) = true).
  { pose proof (show_Z_digits n Hn) as H.     revert H. generalize (show_Z n). induction s as [|a r IH]; [reflexivity|].
    cbn [Iso.Spec.FormText.all_digits list_ascii_of_string forallb]. destruct (is_digit a); [exact IH | intro X; exact X]. }
  rewrite D, (show_Z_nonempty n), read_show_Z. reflexivity.
Qed.


(* ------------------------------------------------------------------ evaluation on rep fl p *)
Ltac proj9 :=
  cbn [rep rep_zone tdate ttod tzone zh zm f_digits f_tprop f_tdump GenCode4Base.f_dump
       s_num_expanded_year_digits s_year s_month_of_year s_day_of_year s_day_of_month s_day_of_week
       s_week_of_year s_hour_of_day s_minute_of_hour s_second_of_minute s_truncated s_truncated_property
       s_truncated_dump_format s_dump_format s_time_zone z_hours z_minutes z_unknown
       ebind need is_none negb d_num_expanded_year_digits] in *.
Ltac ev9 := code9_unfold; proj9.

Definition date_of (q : tp) := tdate q.

(* ---- the simple getters: on every non-truncated state *)
Section Getters.
Variable ops : dump_ops.
Variable fl : flags.

Lemma gen9_year_sign p :
  py_TimePoint_year_sign ops (rep fl p) = Ok (if 0 <=? date_year (tdate p) then "+" else "-").
Proof.
  destruct p as [[y m d|y d|y w d] [h mi s|h mi|h] z]; ev9; cbn [date_year];
    rewrite Z.geb_leb; reflexivity.
Qed.
Lemma gen9_century p :
  py_TimePoint_century ops (rep fl p) = Ok ((Z.abs (date_year (tdate p)) mod 10000) / 100).
Proof. destruct p as [[y m d|y d|y w d] [h mi s|h mi|h] z]; ev9; reflexivity. Qed.
Lemma gen9_year_of_century p :
  py_TimePoint_year_of_century ops (rep fl p) = Ok (Z.abs (date_year (tdate p)) mod 100).
Proof. destruct p as [[y m d|y d|y w d] [h mi s|h mi|h] z]; ev9; reflexivity. Qed.
Lemma gen9_year_of_decade p :
  py_TimePoint_year_of_decade ops (rep fl p) = Ok (Z.abs (date_year (tdate p)) mod 10).
Proof. destruct p as [[y m d|y d|y w d] [h mi s|h mi|h] z]; ev9; reflexivity. Qed.
(* abs(year / 10000) is a float; the templates print it with %d, i.e. truncated *)
Lemma gen9_expanded_year_digits p :
  exists q, py_TimePoint_expanded_year_digits ops (rep fl p) = Ok q /\
            qtrunc q = Z.abs (date_year (tdate p)) / 10000.
Proof.
  assert (K : forall y, qtrunc (Qabs (inject_Z y / inject_Z 10000)) = Z.abs y / 10000).
  { intro y. unfold qtrunc.
    assert (E : (Qabs (inject_Z y / inject_Z 10000) == inject_Z (Z.abs y) / inject_Z 10000)%Q).
    { unfold Qdiv. rewrite Qabs_Qmult. rewrite (Qabs_pos (/ inject_Z 10000)) by (cbv; discriminate).
      unfold Qabs, inject_Z. cbn [Qnum Qden]. reflexivity. }
    assert (P : Qle_bool 0 (Qabs (inject_Z y / inject_Z 10000)) = true) by (apply Qle_bool_iff, Qabs_nonneg).
    rewrite P, (Qfloor_comp _ _ E).
    unfold Qdiv, Qfloor, Qmult, Qinv, inject_Z. cbn [Qnum Qden Z.sgn]. cbn [Pos.mul Z.mul].
    f_equal; lia. }
  destruct p as [[y m d|y d|y w d] [h mi s|h mi|h] z]; ev9; cbn [date_year]; eexists; (split; [reflexivity | apply K]).
Qed.
Lemma gen9_time_zone_sign p :
  py_TimePoint_time_zone_sign ops (rep fl p) =
  Ok (if (zh (tzone p) <? 0) || (zm (tzone p) <? 0) then "-" else "+").
Proof.
  destruct p as [[y m d|y d|y w d] [h mi s|h mi|h] [a b]]; ev9;
    destruct ((a <? 0) || (b <? 0)); reflexivity.
Qed.
Lemma gen9_time_zone_hour_abs p :
  py_TimePoint_time_zone_hour_abs ops (rep fl p) = Ok (Z.abs (zh (tzone p))).
Proof. destruct p as [[y m d|y d|y w d] [h mi s|h mi|h] [a b]]; ev9; reflexivity. Qed.
Lemma gen9_time_zone_minute_abs p :
  py_TimePoint_time_zone_minute_abs ops (rep fl p) = Ok (Z.abs (zm (tzone p))).
Proof. destruct p as [[y m d|y d|y w d] [h mi s|h mi|h] [a b]]; ev9; reflexivity. Qed.
Lemma gen9_truncated p : py_TimePoint_truncated ops (rep fl p) = Ok false.
Proof. destruct p as [[y m d|y d|y w d] [h mi s|h mi|h] z]; ev9; reflexivity. Qed.
Lemma gen9_get_is_week_date p :
  py_TimePoint_get_is_week_date ops (rep fl p) = Ok (match tdate p with Wk _ _ _ => true | _ => false end).
Proof. destruct p as [[y m d|y d|y w d] [h mi s|h mi|h] z]; ev9; reflexivity. Qed.
Lemma gen9_hour_of_day p :
  py_TimePoint_hour_of_day ops (rep fl p) = Ok (Some (tod_hour (ttod p))).
Proof. destruct p as [[y m d|y d|y w d] [h mi s|h mi|h] z]; ev9; reflexivity. Qed.
End Getters.

(* ------------------------------------------------------------------ _decimal_string *)
Lemma qtrunc_nonneg_floor x : (0 <= x)%Q -> qtrunc x = Qfloor x.
Proof. intro H. unfold qtrunc. apply Qle_bool_iff in H. rewrite H. reflexivity. Qed.
Lemma frac_bounds x : (0 <= x)%Q -> (0 <= x - inject_Z (qtrunc x) /\ x - inject_Z (qtrunc x) < 1)%Q.
Proof.
  intro H. rewrite (qtrunc_nonneg_floor x H).
  pose proof (Qfloor_le x). pose proof (Qlt_floor x) as L.
  rewrite inject_Z_plus in L. change (inject_Z 1) with 1%Q in L. split; lra.
Qed.
Lemma Qle_bool_comp a b c d : (a == c)%Q -> (b == d)%Q -> Qle_bool a b = Qle_bool c d.
Proof.
  intros E F. destruct (Qle_bool a b) eqn:X, (Qle_bool c d) eqn:Y; try reflexivity.
  - apply Qle_bool_iff in X. rewrite E, F in X. apply Qle_bool_iff in X. congruence.
  - apply Qle_bool_iff in Y. rewrite <- E, <- F in Y. apply Qle_bool_iff in Y. congruence.
Qed.

Lemma fmt6f_small d : (0 <= d)%Q -> Qle_bool (1999999 # 2000000) d = false ->
  fmt6f d = String "0" (String "." (pad_num 6 (Qfloor (d * 1000000 + (1 # 2))))).
Proof.
  intros P L. unfold fmt6f.
  assert (Pb : Qle_bool 0 d = true) by (apply Qle_bool_iff; exact P). rewrite Pb.
  assert (A : (Qabs d == d)%Q) by (apply Qabs_pos; exact P).
  assert (E : Qfloor (Qabs d * 1000000 + (1 # 2)) = Qfloor (d * 1000000 + (1 # 2))) by (apply Qfloor_comp; rewrite A; reflexivity).
  rewrite E. set (n := Qfloor (d * 1000000 + (1 # 2))).
  assert (Ld : (d < 1999999 # 2000000)%Q).
  { apply Qnot_le_lt. intro X. apply Qle_bool_iff in X. congruence. }
  assert (R : 0 <= n < 1000000).
  { subst n. split.
    - change 0 with (Qfloor 0). apply Qfloor_resp_le. lra.
    - rewrite Zlt_Qlt. eapply Qle_lt_trans; [apply Qfloor_le|]. change (inject_Z 1000000) with (1000000 # 1)%Q. lra. }
  rewrite (Z.div_small n 1000000 R), (Z.mod_small n 1000000 R). reflexivity.
Qed.

(* the model's decimal_string, with the fractional part given up to == *)
Lemma decimal_string_unfold x d : (d == x - inject_Z (qtrunc x))%Q ->
  decimal_string x =
  if Qle_bool (1999999 # 2000000) d then "999999"
  else let s := strip_zeros (pad_num 6 (Qfloor (d * 1000000 + (1 # 2)))) in
       if String.eqb s "" then "0" else s.
Proof.
  intro E. unfold decimal_string, qleb, qz.
  assert (F : (Qred (x - inject_Z (qtrunc x)) == d)%Q) by (rewrite Qred_correct, E; reflexivity).
  rewrite (Qle_bool_comp (9999995 # 10000000) (Qred (x - inject_Z (qtrunc x))) (1999999 # 2000000) d) by (try exact F; reflexivity).
  destruct (Qle_bool (1999999 # 2000000) d); [reflexivity|].
  assert (G : Qfloor (Qred (x - inject_Z (qtrunc x)) * inject_Z 1000000 + (1 # 2)) = Qfloor (d * 1000000 + (1 # 2))).
  { apply Qfloor_comp. rewrite F. reflexivity. }
  rewrite G. reflexivity.
Qed.

(* what the body of _decimal_string computes from the fractional part d of x *)
Lemma decimal_code x d : (0 <= x)%Q -> (d == x - inject_Z (qtrunc x))%Q ->
  (if Qle_bool (1999999 # 2000000) d then Ok "999999"
   else let s := rstrip_char "0" (pad_num 6 (Qfloor (d * 1000000 + (1 # 2)))) in
        if truthy_s s then Ok s else Ok "0") = Ok (decimal_string x).
Proof.
  intros P E. rewrite (decimal_string_unfold x d E), rstrip_zero_strip. unfold truthy_s.
  destruct (Qle_bool (1999999 # 2000000) d); [reflexivity|]. cbv zeta.
  destruct (String.eqb (strip_zeros (pad_num 6 (Qfloor (d * 1000000 + (1 # 2))))) ""); reflexivity.
Qed.

Lemma ff_ok md fuel d : F_float_format (mops md fuel) "%0.6f" d = Ok (fmt6f d).
Proof. reflexivity. Qed.
Lemma ff_ok' d : float_format "%0.6f" d = Ok (fmt6f d).
Proof. reflexivity. Qed.
Lemma split1_dot X : py_split1 "." (String "0" (String "." X)) = Ok ["0"; X].
Proof. reflexivity. Qed.
Lemma nth_1 {A} (a b : A) : py_nth [a; b] 1 = Ok b.
Proof. reflexivity. Qed.
Lemma rstrip_0 s : py_rstrip "0" s = Ok (rstrip_char "0" s).
Proof. reflexivity. Qed.

(* the goal is  <body of _decimal_string on the fraction d of x> = Ok (decimal_string x) *)
Ltac dec_solve x :=
  match goal with
  | |- context [Qle_bool (1999999 # 2000000) ?d] =>
    let E := fresh "E" in let L := fresh "L" in let B := fresh "B" in
    assert (E : (d == x - inject_Z (qtrunc x))%Q) by (try reflexivity; lra);
    assert (B : (0 <= d)%Q) by (let FB := fresh in assert (FB : (0 <= x)%Q) by tauto; apply frac_bounds in FB; lra);
    rewrite (decimal_string_unfold x d E);
    destruct (Qle_bool (1999999 # 2000000) d) eqn:L; [reflexivity|];
    rewrite ?ff_ok, ?ff_ok'; cbn [ebind]; rewrite (fmt6f_small d B L);
    rewrite ?split1_dot; cbn [ebind]; rewrite ?nth_1; cbn [ebind]; rewrite ?rstrip_0; cbn [ebind];
    rewrite rstrip_zero_strip; unfold truthy_s; cbv zeta;
    match goal with |- context [String.eqb ?s ""] => destruct (String.eqb s "") end; reflexivity
  end.

Definition tod_nonneg (t : tod) : Prop :=
  match t with
  | HMS h m s => (0 <= h /\ 0 <= m /\ 0 <= s)%Q
  | HM h m => (0 <= h /\ 0 <= m)%Q
  | HH h => (0 <= h)%Q
  end.

Lemma gen9_hour_decimal md fuel fl p : tod_nonneg (ttod p) ->
  py_TimePoint_hour_of_day_decimal_string (mops md fuel) (rep fl p) = Ok (decimal_string (tod_hour (ttod p))).
Proof.
  destruct p as [[y m d|y d|y w d] [h mi s|h mi|h] z]; cbn [ttod tod_nonneg tod_hour]; intro N; ev9.
  all: dec_solve h.
Qed.

Ltac ops9 :=
  cbn [mops T_to_week_date T_to_calendar_date T_to_ordinal_date T_to_utc T__normalised T_to_time_zone
       T_get_calendar_date T_get_ordinal_date T_get_week_date T_get_hour_minute_second
       T_unix_epoch_reference T_sub_timepoint U_get_days_and_seconds C_SECONDS_IN_DAY Z_make
       D_get_time_zone D_translate S_translate_token F_float_format] in *.

Lemma qtrunc_nonneg x : (0 <= x)%Q -> (0 <= inject_Z (qtrunc x))%Q.
Proof.
  intro H. rewrite (qtrunc_nonneg_floor x H). change 0%Q with (inject_Z 0). rewrite <- Zle_Qle.
  change 0 with (Qfloor 0). apply Qfloor_resp_le. exact H.
Qed.

Lemma hms_nonneg t : tod_nonneg t ->
  let '(h, m, s) := get_hour_minute_second t in (0 <= h /\ 0 <= m /\ 0 <= s)%Q.
Proof.
  destruct t as [h m s|h m|h]; cbn [tod_nonneg get_hour_minute_second]; unfold qsub, qmul, qz.
  - tauto.
  - intros (Hh & Hm). repeat split; try assumption.
    + apply qtrunc_nonneg; assumption.
    + rewrite !Qred_correct. pose proof (frac_bounds m Hm). change (inject_Z 60) with 60%Q. lra.
  - intro Hh.
    assert (F : (0 <= Qred (inject_Z 60 * Qred (h - inject_Z (qtrunc h))))%Q).
    { rewrite !Qred_correct. pose proof (frac_bounds h Hh). change (inject_Z 60) with 60%Q. lra. }
    set (M := Qred (inject_Z 60 * Qred (h - inject_Z (qtrunc h)))) in *.
    repeat split.
    + apply qtrunc_nonneg; assumption.
    + apply qtrunc_nonneg; exact F.
    + pose proof (frac_bounds M F) as FB. clearbody M. rewrite !Qred_correct.
      change (inject_Z 60) with 60%Q. lra.
Qed.

Definition tod_minute (t : tod) : Q :=
  match t with HMS _ m _ | HM _ m => m | HH _ => let '(_, mi, _) := get_hour_minute_second t in mi end.
Definition tod_second (t : tod) : Q := let '(_, _, s) := get_hour_minute_second t in s.

Lemma gen9_minute_decimal md fuel fl p : tod_nonneg (ttod p) ->
  py_TimePoint_minute_of_hour_decimal_string (mops md fuel) (rep fl p) = Ok (decimal_string (tod_minute (ttod p))).
Proof.
  intro N. pose proof (hms_nonneg _ N) as HN.
  destruct (gen4_get_hms md fl p p fuel (tp_equiv_refl p)) as (h' & m' & s' & G & GE).
  destruct p as [[y m d|y d|y w d] [h mi s|h mi|h] z]; cbn [ttod tod_nonneg tod_minute] in *; ev9; ops9.
  all: try (dec_solve mi);
    rewrite G; cbn [lift4 ebind need];
    destruct (get_hour_minute_second (HH h)) as [[h0 m0] s0]; destruct GE as (Eh & Em & Es);
    rewrite <- (decimal_string_comp m' m0 Em);
    assert (N' : (0 <= m')%Q) by (rewrite Em; tauto); dec_solve m'.
Qed.

Lemma gen9_second_decimal md fuel fl p : tod_nonneg (ttod p) ->
  py_TimePoint_second_of_minute_decimal_string (mops md fuel) (rep fl p) = Ok (decimal_string (tod_second (ttod p))).
Proof.
  intro N. pose proof (hms_nonneg _ N) as HN.
  destruct (gen4_get_hms md fl p p fuel (tp_equiv_refl p)) as (h' & m' & s' & G & GE).
  unfold tod_second.
  remember (get_hour_minute_second (ttod p)) as r eqn:EQ in *. destruct r as [[h0 m0] s0].
  destruct GE as (Eh & Em & Es).
  destruct p as [[y m d|y d|y w d] [h mi s|h mi|h] z]; cbn [ttod tod_nonneg get_hour_minute_second] in *; ev9; ops9;
    try (injection EQ as -> -> ->; dec_solve s);
    rewrite G; cbn [lift4 ebind need];
    rewrite <- (decimal_string_comp s' s0 Es);
    assert (N' : (0 <= s')%Q) by (rewrite Es; tauto); dec_solve s'.
Qed.

(* ------------------------------------------------------------------ _get_dump_format *)
Lemma qtrunc_Z z : qtrunc (inject_Z z) = z.
Proof.
  unfold qtrunc. destruct (Qle_bool 0 (inject_Z z)); [apply Qfloor_Z|].
  unfold Qceiling. change (- inject_Z z)%Q with (inject_Z (- z)). rewrite Qfloor_Z. lia.
Qed.
Lemma trunc_is_int s : Qeq_bool (inject_Z (qtrunc s)) s = qis_int s.
Proof.
  destruct (qis_int s) eqn:A.
  - apply TickSpec.qis_int_iff in A. destruct A as [z Hz]. apply Qeq_bool_iff.
    rewrite (qtrunc_comp s (inject_Z z) Hz), qtrunc_Z. symmetry. exact Hz.
  - destruct (Qeq_bool (inject_Z (qtrunc s)) s) eqn:B; [|reflexivity].
    apply Qeq_bool_iff in B.
    assert (I : TickSpec.isint s) by (exists (qtrunc s); symmetry; exact B).
    apply TickSpec.qis_int_iff in I. congruence.
Qed.

Definition dres_exc (d : dres) : exc string :=
  match d with
  | DOk s => Ok s | DBounds => Raise TimePointDumperBoundsError | DOverflow => Raise OverflowError
  | DSyntax => Raise StrftimeSyntaxError | DErr => Raise ValueError | DUnmodelled => Raise Unmodelled
  | DBadInput => Raise BadInputError end.

Lemma gen9_get_dump_format ops fl p : 0 <= f_digits fl ->
  py_TimePoint__get_dump_format ops (rep fl p) = dres_exc (get_dump_format (f_digits fl) p).
Proof.
  intro Hn. assert (H4 : 0 <= 4 + f_digits fl) by lia.
  unfold get_dump_format.
  destruct p as [[y m d|y d|y w d] [h mi s|h mi|h] [a b]]; ev9;
    cbn [tdate ttod tzone date_year zh zm opt_eqb]; unfold truthy_Z;
    rewrite ?trunc_is_int;
    destruct (f_digits fl =? 0) eqn:EN; cbn [negb];
    destruct (y <? 0) eqn:EY; cbn [negb ebind dres_exc];
    rewrite ?(percent_int_ok (4 + f_digits fl) _ H4); cbn [ebind dres_exc];
    try reflexivity;
    try (destruct (qis_int s); cbn [negb]);
    destruct ((a =? 0) && (b =? 0)); cbn [truthy_s String.eqb negb dres_exc append]; reflexivity.
Qed.

(* ------------------------------------------------------------------ _dump_expression_with_properties (cut) *)
(* the year bounds check of the property loop, as the model states it (Model/Dump.v dump_with: `bad`) *)
Definition year_bad (ned y : Z) (props : list string) : bool :=
  (mem "century" props && (negb (mem "expanded_year_digits" props) || (ned =? 0)) && negb ((0 <=? y) && (y <=? 9999))) ||
  (mem "expanded_year_digits" props && negb (Z.abs y <=? 10 ^ (ned + 4) - 1)).
Definition trig (ned y : Z) (props : list string) (name : string) : bool :=
  (String.eqb name "century" && (negb (mem "expanded_year_digits" props) || (ned =? 0)) && negb ((0 <=? y) && (y <=? 9999))) ||
  (String.eqb name "expanded_year_digits" && negb (Z.abs y <=? 10 ^ (ned + 4) - 1)).

Lemma existsb_trig ned y props l :
  existsb (trig ned y props) l =
  (mem "century" l && (negb (mem "expanded_year_digits" props) || (ned =? 0)) && negb ((0 <=? y) && (y <=? 9999))) ||
  (mem "expanded_year_digits" l && negb (Z.abs y <=? 10 ^ (ned + 4) - 1)).
Proof.
  induction l as [|a r IH]; [reflexivity|].
  cbn [existsb]. rewrite IH. unfold trig, mem. cbn [existsb].
  rewrite (String.eqb_sym "century"%string a), (String.eqb_sym "expanded_year_digits"%string a).
  destruct (String.eqb a "century"), (String.eqb a "expanded_year_digits"),
    (existsb (String.eqb "century") r), (existsb (String.eqb "expanded_year_digits") r),
    (negb (existsb (String.eqb "expanded_year_digits") props) || (ned =? 0)),
    (negb ((0 <=? y) && (y <=? 9999))), (negb (Z.abs y <=? 10 ^ (ned + 4) - 1)); reflexivity.
Qed.

Lemma abs_range y M : (- M <=? y) && (y <=? M) = (Z.abs y <=? M).
Proof. destruct (Z.leb_spec (- M) y), (Z.leb_spec y M), (Z.leb_spec (Z.abs y) M); cbn; try reflexivity; lia. Qed.

Definition add_props (gv : string -> pyval) (l : list string) (acc : pydict) : pydict :=
  fold_left (fun d n => py_dict_set d n (gv n)) l acc.

Lemma for_props (body : pydict -> string -> exc pydict) (tr : string -> bool) (gv : string -> pyval) :
  forall l acc,
  (forall acc name, In name l ->
     body acc name = if tr name then Raise TimePointDumperBoundsError else Ok (py_dict_set acc name (gv name))) ->
  py_for l body acc = if existsb tr l then Raise TimePointDumperBoundsError else Ok (add_props gv l acc).
Proof.
  induction l as [|a r IH]; intros acc H; [reflexivity|].
  cbn [py_for existsb]. rewrite (H acc a (or_introl eq_refl)).
  destruct (tr a); [reflexivity|]. cbn [ebind orb]. apply IH. intros acc' n Hn. apply H. right. exact Hn.
Qed.

(* no date conversion is called for: the branch of the first `if` block that leaves the point alone *)
Definition no_conversion (props : list string) (p : tp) : bool :=
  let hasp := fun k => mem k props in
  if hasp "week_of_year" || hasp "day_of_week"
  then hasp "month_of_year" || hasp "day_of_month" || hasp "day_of_year"
  else negb ((match tdate p with Wk _ _ _ => true | _ => false end) &&
             (hasp "month_of_year" || hasp "day_of_month" || hasp "day_of_year")).

Lemma gen9_dump_expression_cut md fuel fl p ned tmpl props gv :
  0 <= ned -> no_conversion props p = true ->
  (forall name, In name props -> py_TimePoint_getattr (mops md fuel) (rep fl p) name = Ok (gv name)) ->
  py_Dumper__dump_expression_with_properties (mops md fuel) (mkDumper ned) (rep fl p) tmpl props None =
  if year_bad ned (date_year (tdate p)) props then Raise TimePointDumperBoundsError
  else py_render tmpl (add_props gv props []).
Proof.
  intros Hn NC GV.
  unfold py_Dumper__dump_expression_with_properties. code9_helpers. cbn [ebind].
  rewrite gen9_truncated. cbn [ebind is_none negb].
  (* the conversions: none *)
  unfold no_conversion in NC. rewrite ?gen9_get_is_week_date. cbn [ebind].
  assert (Y : py_TimePoint_year (mops md fuel) (rep fl p) = Ok (Some (date_year (tdate p)))).
  { destruct p as [[y m d|y d|y w d] [h mi s|h mi|h] z]; ev9; reflexivity. }
  set (y := date_year (tdate p)) in *.
  assert (L : forall body,
     (forall acc name, In name props ->
        body acc name = if trig ned y props name then Raise TimePointDumperBoundsError
                        else Ok (py_dict_set acc name (gv name))) ->
     (st <- py_for props body [] ;; py_render tmpl st) =
     if year_bad ned y props then Raise TimePointDumperBoundsError else py_render tmpl (add_props gv props [])).
  { intros body Hb. rewrite (for_props body (trig ned y props) gv props [] Hb), existsb_trig.
    fold (year_bad ned y props). destruct (year_bad ned y props); reflexivity. }
  assert (P : py_pow 10 (ned + 4) = Ok (10 ^ (ned + 4))).
  { unfold py_pow. destruct (ned + 4 <? 0) eqn:E; [lia|reflexivity]. }
  (* every path through the first block reaches the loop with the point unchanged *)
  assert (R : forall m : exc string, (t <- m ;; Ok t) = m) by (intros [x|e]; reflexivity).
  repeat match goal with
  | |- context [if ?c then _ else _] =>
    match c with
    | context [mem] => destruct c eqn:?; cbn [negb andb orb] in *; try discriminate
    | match tdate p with _ => _ end => destruct c eqn:?; cbn [negb andb orb] in *; try discriminate
    end
  end.
  all: match goal with |- context [py_for ?l ?body []] =>
         transitivity (st <- py_for l body [] ;; py_render tmpl st);
         [ destruct (py_for l body []) as [st|e]; cbn [ebind]; [apply R | reflexivity] | apply L ] end.
  all: intros acc name Hin; cbv beta; rewrite (GV name Hin); cbn [ebind d_num_expanded_year_digits];
    rewrite ?Y, ?P; cbn [ebind need]; unfold trig, truthy_Z;
    repeat (match goal with
            | |- context [ebind (if ?c then _ else _) _] => destruct c eqn:?
            | |- context [need (if ?c then _ else _)] => destruct c eqn:?
            | |- context [is_none (if ?c then _ else _)] => destruct c eqn:?
            end; cbn [ebind need is_none negb d_num_expanded_year_digits]; rewrite ?Y, ?P; cbn [ebind need is_none negb]);
    rewrite <- (abs_range y (10 ^ (ned + 4) - 1));
    (destruct (String.eqb_spec name "century") as [->|NE1];
    [ change (String.eqb "century" "expanded_year_digits") with false; cbn [andb orb negb]
    | cbn [andb orb negb]; destruct (String.eqb name "expanded_year_digits"); cbn [andb orb negb] ]);
    repeat match goal with |- context [if ?c then _ else _] => destruct c eqn:?; cbn [andb orb negb] in * end;
    try reflexivity; try discriminate; try congruence.
  all: repeat match goal with
       | H : ?c = true, H' : context [?c] |- _ => lazymatch H' with H => fail | _ => rewrite H in H' end
       | H : ?c = false, H' : context [?c] |- _ => lazymatch H' with H => fail | _ => rewrite H in H' end
       end; cbn [negb andb orb] in *; try discriminate.
  all: destruct (mem "expanded_year_digits" props), (ned =? 0); cbn [negb andb orb] in *; congruence.
Qed.

(* ------------------------------------------------------------------ __str__ (cut at the call of dump) *)
Lemma gen9_str_cut ops fl p : truthy_os (GenCode4Base.f_dump fl) = false ->
  py_TimePoint___str__ ops (rep fl p) =
  (fmt <- py_TimePoint__get_dump_format ops (rep fl p) ;; py_Dumper_dump ops (mkDumper (f_digits fl)) (rep fl p) fmt).
Proof.
  intro H.
  assert (R : forall m : exc string, (t <- m ;; Ok t) = m) by (intros [x|e]; reflexivity).
  unfold py_TimePoint___str__.
  destruct p as [[y m d|y d|y w d] [h mi s|h mi|h] z]; proj9; rewrite H; cbn [andb];
    (destruct (py_TimePoint__get_dump_format ops _) as [f|e]; cbn [ebind]; [apply R | reflexivity]).
Qed.

(* ------------------------------------------------------------------ the Example's scenario *)
Definition sh_exc (m : exc string) : string :=
  match m with
  | Ok s => s
  | Raise TimePointDumperBoundsError => "!bounds" | Raise OverflowError => "!overflow"
  | Raise BadInputError => "!badinput" | Raise StrftimeSyntaxError => "!strftime"
  | Raise ValueError => "!value" | Raise Unmodelled => "!unmodelled" | Raise _ => "!other" end.
Definition fl_n (n : Z) : flags := mkFlags n None None None.
Definition ex_p1 : tp := mkTp (Cal 2000 1 1) (HMS 12 30 (11 # 2)) (mkZone 0 0).
Definition ex_p2 : tp := mkTp (Wk 2009 53 5) (HMS 24 0 0) (mkZone 5 30).
Definition ex_p3 : tp := mkTp (Ord (-1234) 60) (HH (25 # 2)) (mkZone (-3) 0).
Definition ex_p4 : tp := mkTp (Cal 10000 2 28) (HMS 23 59 (59999999 # 1000000)) (mkZone 0 0).
Definition ex_results : list string :=
  let o := mops G 400 in
  [ sh_exc (py_TimePoint___str__ o (rep (fl_n 0) ex_p1));
    sh_exc (py_TimePoint___str__ o (rep (fl_n 0) ex_p2));
    sh_exc (py_TimePoint___str__ o (rep (fl_n 2) ex_p3));
    sh_exc (py_TimePoint___str__ o (rep (fl_n 0) ex_p3));
    sh_exc (py_TimePoint___str__ o (rep (fl_n 0) ex_p4));
    sh_exc (py_TimePoint___str__ o (rep (fl_n 2) ex_p4));
    sh_exc (py_TimePoint_hour_of_day_decimal_string o (rep (fl_n 0) ex_p3));
    sh_exc (py_TimePoint_minute_of_hour_decimal_string o (rep (fl_n 0) ex_p3));
    sh_exc (py_TimePoint_second_of_minute_decimal_string o (rep (fl_n 0) ex_p1));
    sh_exc (py_TimePoint_second_of_minute_decimal_string o (rep (fl_n 0) ex_p4));
    sh_exc (py_TimePoint_year_sign o (rep (fl_n 0) ex_p3));
    sh_exc (py_TimePoint_seconds_since_unix_epoch o (rep (fl_n 0) ex_p1));
    sh_exc (py_TimePoint__get_dump_format o (rep (fl_n 3) ex_p2));
    sh_exc (py_Dumper_dump o (mkDumper 2) (rep (fl_n 0) ex_p1) "CCYY-MM-DDThh:mm+01:00");
    sh_exc (py_Dumper_dump o (mkDumper 2) (rep (fl_n 0) ex_p1) "CCYYDDDThhmmss-0330");
    sh_exc (py_Dumper_dump o (mkDumper 2) (rep (fl_n 0) ex_p2) "CCYY-MM-DDThh:mmZ");
    sh_exc (py_Dumper_dump o (mkDumper 2) (rep (fl_n 0) ex_p1) "CCYY-Www-DThh:mm:ss,tt+hh:mm");
    sh_exc (py_Dumper_dump o (mkDumper 2) (rep (fl_n 0) ex_p3) "+XCCYY-MM-DDThh,ii");
    sh_exc (py_Dumper_dump o (mkDumper 2) (rep (fl_n 0) ex_p1) "%Y-%m-%d %H:%M:%S %j");
    sh_exc (py_Dumper_dump o (mkDumper 2) (rep (fl_n 0) ex_p2) "%F %X");
    sh_exc (py_Dumper_dump o (mkDumper 0) (rep (fl_n 0) ex_p4) "%Y");
    sh_exc (py_TimePoint_strftime o (rep (fl_n 0) ex_p1) "%s|%z");
    sh_exc (py_Dumper_dump o (mkDumper 2) (rep (fl_n 0) ex_p1) "CCYY-MM-DDThh:mm+99:00") ].

(* ------------------------------------------------------------------ strftime *)
(* the items of REC_SPLIT_STRFTIME_DIRECTIVE.split as the model's literal / directive items *)
Definition to_fitems (l : list string) : list fitem :=
  flat_map (fun it => if py_is_directive it then [FDir it]
                      else if String.eqb it "" then [] else [FLit it]) l.
Definition flush9 (c : string) : list fitem := if String.eqb c "" then [] else [FLit c].

Lemma is_word9_eq c : is_word9 c = is_word c.
Proof. reflexivity. Qed.
Lemma str_app_assoc (a b c : string) : ((a ++ b) ++ c)%string = (a ++ b ++ c)%string.
Proof. induction a as [|x a IH]; [reflexivity|]. cbn [append]. rewrite IH. reflexivity. Qed.
Lemma str_app_nil (a : string) : (a ++ "")%string = a.
Proof. induction a as [|x a IH]; [reflexivity|]. cbn [append]. rewrite IH. reflexivity. Qed.

(* a literal run under construction never becomes a directive token *)
Definition safe9 (cur s : string) : Prop :=
  py_is_directive cur = false /\
  (cur = "%" -> match s with String b _ => is_word9 b = false | EmptyString => True end).

Lemma dir_app_pct cur : py_is_directive (cur ++ "%") = false.
Proof.
  destruct cur as [|a [|b [|c r]]]; try reflexivity.
  - cbn. destruct a as [[] [] [] [] [] [] [] []]; reflexivity.
  - cbn [append]. unfold py_is_directive.
    destruct a as [[] [] [] [] [] [] [] []]; try reflexivity.
  - cbn [append]. unfold py_is_directive.
    destruct a as [[] [] [] [] [] [] [] []]; try reflexivity.
Qed.
Lemma dir_app_char cur a r : safe9 cur (String a r) -> Ascii.eqb a "%" = false ->
  py_is_directive (cur ++ String a "") = false.
Proof.
  intros [D P] NA. destruct cur as [|x [|y [|z t]]].
  - cbn. destruct a as [[] [] [] [] [] [] [] []]; reflexivity.
  - cbn [append]. unfold py_is_directive.
    destruct (Ascii.eqb_spec x "%") as [->|NX].
    + apply (P eq_refl).
    + destruct x as [[] [] [] [] [] [] [] []]; try reflexivity. contradiction NX. reflexivity.
  - cbn [append]. unfold py_is_directive. destruct x as [[] [] [] [] [] [] [] []]; reflexivity.
  - cbn [append]. unfold py_is_directive. destruct x as [[] [] [] [] [] [] [] []]; reflexivity.
Qed.

Lemma to_fitems_lit c : py_is_directive c = false -> to_fitems [c] = flush9 c.
Proof. intro H. unfold to_fitems, flush9. cbn [flat_map]. rewrite H, app_nil_r. reflexivity. Qed.

Lemma to_fitems_cons x l : to_fitems (x :: l) = (to_fitems [x] ++ to_fitems l)%list.
Proof. unfold to_fitems. cbn [flat_map]. rewrite app_nil_r. reflexivity. Qed.

Lemma split_items : forall n s cur, (String.length s <= n)%nat -> safe9 cur s ->
  to_fitems (strftime_split s cur) = split_fmt s cur false.
Proof.
  induction n as [|n IH]; intros s cur L S.
  - destruct s; [|cbn in L; lia]. cbn [strftime_split split_fmt]. apply to_fitems_lit, S.
  - destruct s as [|a r]; [cbn [strftime_split split_fmt]; apply to_fitems_lit, S|].
    cbn [String.length] in L. cbn [strftime_split split_fmt].
    destruct (Ascii.eqb a "%") eqn:A.
    + apply Ascii.eqb_eq in A. subst a.
      destruct r as [|b r'].
      * cbn [split_fmt]. apply to_fitems_lit, dir_app_pct.
      * cbn [split_fmt]. change (is_word b) with (is_word9 b). destruct (is_word9 b) eqn:W.
        -- rewrite (to_fitems_cons cur), (to_fitems_cons (String "%" (String b ""))).
           rewrite (to_fitems_lit cur (proj1 S)).
           assert (D : to_fitems [String "%" (String b "")] = [FDir (String "%" (String b ""))]).
           { unfold to_fitems. cbn [flat_map py_is_directive]. rewrite W. reflexivity. }
           rewrite D. rewrite (IH r' ""); [reflexivity | cbn [String.length] in L; lia |].
           split; [reflexivity | discriminate].
        -- (* "%" followed by a non-word character: the "%" joins the literal *)
           assert (S' : safe9 (cur ++ "%") (String b r')).
           { split; [apply dir_app_pct | intros _; exact W]. }
           rewrite (IH (String b r') (cur ++ "%")%string); [| lia | exact S'].
           cbn [split_fmt]. destruct (Ascii.eqb b "%") eqn:B.
           ++ reflexivity.
           ++ rewrite str_app_assoc. reflexivity.
    + assert (S' : safe9 (cur ++ String a "") r).
      { split; [eapply dir_app_char; eassumption|].
        intro E. exfalso. destruct cur as [|x t]; cbn [append] in E.
        - injection E as ->. discriminate A.
        - destruct t; discriminate E. }
      apply IH; [lia | exact S'].
Qed.

Theorem strftime_split_model fmt : to_fitems (py_strftime_split fmt) = split_format fmt "".
Proof.
  unfold py_strftime_split, split_format. apply (split_items (String.length fmt)); [lia|].
  split; [reflexivity | discriminate].
Qed.

From Iso Require Import Proofs.StrftimeSpec.

Lemma for_items (body : list dtok * list string -> string -> exc (list dtok * list string)) :
  (forall e ps it, body (e, ps) it =
     if py_is_directive it
     then match lookup_dir it STRFTIME_TABLE with
          | Some (dt, dp, _) => Ok ((e ++ dt)%list, (ps ++ dp)%list)
          | None => Raise StrftimeSyntaxError end
     else Ok ((e ++ lit_tmpl it)%list, ps)) ->
  forall items e ps,
  py_for items body (e, ps) =
  match build_d STRFTIME_TABLE (to_fitems items) with
  | Some (t, q) => Ok ((e ++ t)%list, (ps ++ q)%list)
  | None => Raise StrftimeSyntaxError end.
Proof.
  intros Hb. induction items as [|it r IH]; intros e ps.
  - cbn. rewrite !app_nil_r. reflexivity.
  - cbn [py_for]. rewrite Hb, to_fitems_cons. unfold to_fitems at 1. cbn [flat_map]. rewrite app_nil_r.
    destruct (py_is_directive it).
    + cbn [app build_d]. destruct (lookup_dir it STRFTIME_TABLE) as [[[dt dp] pt]|]; [|reflexivity].
      cbn [ebind]. rewrite IH. destruct (build_d STRFTIME_TABLE (to_fitems r)) as [[t q]|]; [|reflexivity].
      rewrite !app_assoc. reflexivity.
    + cbn [ebind]. rewrite IH. unfold lit_tmpl. destruct (String.eqb it "").
      * cbn [app]. rewrite app_nil_r. reflexivity.
      * cbn [app build_d]. destruct (build_d STRFTIME_TABLE (to_fitems r)) as [[t q]|]; [|reflexivity].
        rewrite <- app_assoc. reflexivity.
Qed.

Definition strftime_conv (md : mode) (p : tp) : option tp :=
  match tdate p with
  | Wk _ _ _ => match to_calendar_date md (tdate p) with Some d => Some (with_date p d) | None => None end
  | _ => Some p end.

Theorem gen9_strftime md fuel fl p ned fmt :
  match build_d STRFTIME_TABLE (split_format fmt "") with
  | None => py_Dumper_strftime (mops md fuel) (mkDumper ned) (rep fl p) fmt = Raise StrftimeSyntaxError
  | Some (tmpl, props) =>
    match strftime_conv md p with
    | None => py_Dumper_strftime (mops md fuel) (mkDumper ned) (rep fl p) fmt = Raise ValueError
    | Some q =>
      month_ok q ->
      (Z.to_nat (if qeqb (tod_hour (ttod q)) 24 then tick_bound md q else 0) <= fuel)%nat ->
      exists q', tp_equiv q' (normalised md q) /\
        py_Dumper_strftime (mops md fuel) (mkDumper ned) (rep fl p) fmt =
        py_Dumper__dump_expression_with_properties (mops md fuel) (mkDumper ned) (rep fl q') tmpl props None
    end
  end.
Proof.
  assert (R : forall m : exc string, (t <- m ;; Ok t) = m) by (intros [x|e]; reflexivity).
  unfold py_Dumper_strftime. code9_helpers.
  match goal with |- context [py_for _ ?body _] =>
    assert (Hb : forall e ps it, body (e, ps) it =
       if py_is_directive it
       then match lookup_dir it STRFTIME_TABLE with
            | Some (dt, dp, _) => Ok ((e ++ dt)%list, (ps ++ dp)%list)
            | None => Raise StrftimeSyntaxError end
       else Ok ((e ++ lit_tmpl it)%list, ps))
  end.
  { intros e ps it. cbv beta iota. destruct (py_is_directive it); [|reflexivity].
    ops9. unfold translate_token. destruct (lookup_dir it STRFTIME_TABLE) as [[[dt dp] pt]|]; reflexivity. }
  rewrite (for_items _ Hb), strftime_split_model. clear Hb.
  destruct (build_d STRFTIME_TABLE (split_format fmt "")) as [[tmpl props]|]; [|reflexivity].
  cbn [ebind lit_tmpl String.eqb app]. rewrite gen9_truncated. cbn [ebind].
  rewrite gen9_get_is_week_date. cbn [ebind]. unfold strftime_conv. ops9.
  assert (N : forall q, month_ok q ->
     (Z.to_nat (if qeqb (tod_hour (ttod q)) 24 then tick_bound md q else 0) <= fuel)%nat ->
     exists q', tp_equiv q' (normalised md q) /\
       lift4 (py_TimePoint__normalised fuel (cal_of md) (rep fl q)) = Ok (rep fl q')).
  { intros q M F. destruct (returns_tp_elim _ _ _ (gen4_normalised md fl q q fuel (tp_equiv_refl q) M F)) as (q' & E & T).
    exists q'. split; [exact T|]. rewrite E. reflexivity. }
  destruct (tdate p) eqn:D.
  1,2: intros M F; destruct (N p M F) as (q' & T & E); exists q'; split; [exact T|];
       rewrite E; cbn [ebind]; apply R.
  rewrite gen4_to_calendar_date, D.
  destruct (to_calendar_date md (Wk y w d)) as [c|]; [|reflexivity].
  cbn [lift4 ebind]. intros M F. destruct (N _ M F) as (q' & T & E). exists q'. split; [exact T|].
  rewrite E. cbn [ebind]. apply R.
Qed.

(* ------------------------------------------------------------------ _dump_expression_with_properties, all branches *)
(* the model's first stage (Model/Dump.v dump_with: p1) and zone stage (p2) *)
Definition conv9 (md : mode) (props : list string) (p : tp) : option tp :=
  let hasp := fun k => mem k props in
  if hasp "week_of_year" || hasp "day_of_week" then
    if negb (hasp "month_of_year" || hasp "day_of_month" || hasp "day_of_year")
    then match to_week_date md (tdate p) with Some d => Some (with_date p d) | None => None end
    else Some p
  else if (match tdate p with Wk _ _ _ => true | _ => false end) &&
          (hasp "month_of_year" || hasp "day_of_month" || hasp "day_of_year")
  then match to_calendar_date md (tdate p) with Some d => Some (with_date p d) | None => None end
  else Some p.
Definition zone9 (md : mode) (q : tp) (cz : option (Z * Z)) : option tp :=
  match cz with None => Some q | Some (h, m) => to_time_zone md q (mkZone h m) end.
Definition zone_fuel (md : mode) (q : tp) (cz : option (Z * Z)) (fuel : nat) : Prop :=
  match cz with
  | None => True
  | Some (h, m) => (Z.to_nat (tp_add_bound md q (zone_diff (mkZone h m) (tzone q))) <= fuel)%nat
  end.
(* what the property loop and the final `expression % property_map` compute on the state rep fl r' *)
Definition loop_result (md : mode) (fuel : nat) (fl : flags) (ned : Z) (tmpl : list dtok) (props : list string)
  (r' : tp) (m : exc string) : Prop :=
  forall gv, (forall name, In name props -> py_TimePoint_getattr (mops md fuel) (rep fl r') name = Ok (gv name)) ->
  m = if year_bad ned (date_year (tdate r')) props then Raise TimePointDumperBoundsError
      else py_render tmpl (add_props gv props []).

Lemma year_rep md fuel fl r : py_TimePoint_year (mops md fuel) (rep fl r) = Ok (Some (date_year (tdate r))).
Proof. destruct r as [[y m d|y d|y w d] [h mi s|h mi|h] z]; ev9; reflexivity. Qed.

Lemma loop_part (r : tp) ned tmpl props gv (body : pydict -> string -> exc pydict) :
  (forall acc name, In name props ->
     body acc name = if trig ned (date_year (tdate r)) props name then Raise TimePointDumperBoundsError
                     else Ok (py_dict_set acc name (gv name))) ->
  (st <- py_for props body [] ;; t <- py_render tmpl st ;; Ok t) =
  if year_bad ned (date_year (tdate r)) props then Raise TimePointDumperBoundsError
  else py_render tmpl (add_props gv props []).
Proof.
  intro Hb. rewrite (for_props body (trig ned (date_year (tdate r)) props) gv props [] Hb), existsb_trig.
  fold (year_bad ned (date_year (tdate r)) props).
  destruct (year_bad ned (date_year (tdate r)) props); [reflexivity|]. cbn [ebind].
  destruct (py_render tmpl (add_props gv props [])); reflexivity.
Qed.

(* discharges the hypothesis of loop_part for the body the translator emitted *)
Ltac body9 GV P :=
  let acc := fresh "acc" in let name := fresh "name" in let Hin := fresh "Hin" in
  intros acc name Hin; cbv beta; rewrite (GV name Hin); cbn [ebind d_num_expanded_year_digits];
  rewrite ?year_rep, ?P; cbn [ebind need]; unfold trig, truthy_Z;
  repeat (match goal with
          | |- context [ebind (if ?c then _ else _) _] => destruct c eqn:?
          | |- context [need (if ?c then _ else _)] => destruct c eqn:?
          | |- context [is_none (if ?c then _ else _)] => destruct c eqn:?
          end; cbn [ebind need is_none negb d_num_expanded_year_digits]; rewrite ?year_rep, ?P; cbn [ebind need is_none negb]);
  match goal with |- context [Z.abs ?y <=? ?M] => rewrite <- (abs_range y M) end;
  (destruct (String.eqb_spec name "century") as [->|?];
   [ change (String.eqb "century" "expanded_year_digits") with false; cbn [andb orb negb]
   | cbn [andb orb negb]; destruct (String.eqb name "expanded_year_digits"); cbn [andb orb negb] ]);
  repeat match goal with |- context [if ?c then _ else _] => destruct c eqn:?; cbn [andb orb negb] in * end;
  try reflexivity; try discriminate; try congruence;
  repeat match goal with
         | H : ?c = true, H' : context [?c] |- _ => lazymatch H' with H => fail | _ => rewrite H in H' end
         | H : ?c = false, H' : context [?c] |- _ => lazymatch H' with H => fail | _ => rewrite H in H' end
         end; cbn [negb andb orb] in *; try discriminate;
  repeat match goal with
         | H : context [mem "expanded_year_digits" ?pr] |- _ =>
           destruct (mem "expanded_year_digits" pr); cbn [negb andb orb] in *
         | H : context [negb (?n =? 0)] |- _ => destruct (n =? 0); cbn [negb andb orb] in *
         | H : context [_ || (?n =? 0)] |- _ => destruct (n =? 0); cbn [negb andb orb] in *
         end;
  try congruence; try discriminate.

Theorem gen9_dump_expression md fuel fl p ned tmpl props cz : 0 <= ned ->
  let code := py_Dumper__dump_expression_with_properties (mops md fuel) (mkDumper ned) (rep fl p) tmpl props cz in
  match conv9 md props p with
  | None => code = Raise ValueError
  | Some q =>
    if match cz with Some (h, m) => negb (valid_zone (mkZone h m)) | None => false end
    then code = Raise BadInputError
    else match zone9 md q cz with
         | None => True
         | Some r => month_ok q -> zone_fuel md q cz fuel ->
                     exists r', tp_equiv r' r /\ loop_result md fuel fl ned tmpl props r' code
         end
  end.
Proof.
  intros Hn code. subst code.
  assert (P : py_pow 10 (ned + 4) = Ok (10 ^ (ned + 4))).
  { unfold py_pow. destruct (ned + 4 <? 0) eqn:E; [lia|reflexivity]. }
  (* the zone stage and the loop, from any point X the first stage produces *)
  assert (ZS : forall X (k : pyTimePoint -> exc string),
     (forall r', loop_result md fuel fl ned tmpl props r' (k (rep fl r'))) ->
     let c := (if negb (is_none cz)
               then if opt_eqb zz_eqb cz (Some (0, 0))
                    then t <- T_to_utc (mops md fuel) (rep fl X) ;; k t
                    else t13 <- need cz ;; t14 <- need cz ;;
                         t15 <- Z_make (mops md fuel) (let '(a, _) := t13 in a) (let '(_, b) := t14 in b) ;;
                         t16 <- T_to_time_zone (mops md fuel) (rep fl X) t15 ;; k t16
               else k (rep fl X)) in
     if match cz with Some (h, m) => negb (valid_zone (mkZone h m)) | None => false end
     then c = Raise BadInputError
     else match zone9 md X cz with
          | None => True
          | Some r => month_ok X -> zone_fuel md X cz fuel ->
                      exists r', tp_equiv r' r /\ loop_result md fuel fl ned tmpl props r' c
          end).
  { intros X k K c. subst c. destruct cz as [[h m]|]; cbn [is_none negb zone9 zone_fuel].
    2:{ intros _ _. exists X. split; [apply tp_equiv_refl | apply K]. }
    cbn [opt_eqb need ebind]. unfold zz_eqb. cbn [fst snd]. ops9.
    destruct ((h =? 0) && (m =? 0)) eqn:U.
    - apply andb_true_iff in U. destruct U as [Uh Um]. apply Z.eqb_eq in Uh. apply Z.eqb_eq in Um. subst h m.
      change (negb (valid_zone (mkZone 0 0))) with false. cbv iota.
      destruct (to_time_zone md X (mkZone 0 0)) as [r|] eqn:TZ; [|exact I].
      intros M F.
      destruct (returns_tp_elim _ _ _ (gen4_to_utc md fl X X fuel r (tp_equiv_refl X) M TZ F)) as (r' & E & T).
      rewrite E. cbn [lift4 ebind]. exists r'. split; [exact T | apply K].
    - unfold zone_make. destruct (valid_zone (mkZone h m)) eqn:V; cbn [negb ebind]; [|reflexivity].
      destruct (to_time_zone md X (mkZone h m)) as [r|] eqn:TZ; [|exact I].
      intros M F.
      destruct (returns_tp_elim _ _ _ (gen4_to_time_zone md fl X X (mkZone h m) fuel r (tp_equiv_refl X) M TZ F))
        as (r' & E & T).
      change (mkTimeZone h m false) with (rep_zone (mkZone h m)). rewrite E. cbn [lift4 ebind].
      exists r'. split; [exact T | apply K]. }
  unfold py_Dumper__dump_expression_with_properties. code9_helpers. cbn [ebind].
  rewrite gen9_truncated. cbn [ebind is_none negb].
  rewrite ?gen9_get_is_week_date. cbn [ebind]. unfold conv9.
  repeat match goal with
  | |- context [if ?c then _ else _] =>
    match c with
    | context [mem] => destruct c eqn:?; cbn [negb andb orb] in *; try discriminate
    | match tdate p with _ => _ end => destruct c eqn:?; cbn [negb andb orb] in *; try discriminate
    end
  end.
  all: ops9; rewrite ?gen4_to_week_date, ?gen4_to_calendar_date.
  all: try match goal with
           | |- context [to_week_date ?m ?d] => destruct (to_week_date m d); cbn [lift4 ebind]
           | |- context [to_calendar_date ?m ?d] => destruct (to_calendar_date m d); cbn [lift4 ebind]
           end.
  all: try reflexivity.
  all: apply ZS; intros r' gv GV; cbv beta; apply loop_part; body9 GV P.
Qed.

