(* Proofs/GenCode4Zone.v -- TimePoint.to_time_zone, to_utc, _normalised,
   get_hour_minute_second, get_second_of_day and __hash__ as translated from
   data.py (gen/GenCode4.v) compute the model's to_time_zone / to_utc /
   normalised / get_hour_minute_second / get_second_of_day / tp_hash_key
   (Model/TimePoint.v).  Statements: Proofs/GenCode4Stmt.v, GenCode4Stmt2.v.
   The statements about _tick_over and __add__(Duration) are section hypotheses
   (discharged in Proofs/GenCode4Ok.v); _copy and get_calendar_date are used as
   proved in Proofs/GenCode4Conv.v.

   Between two calls the object state is `rep fl q` for a model point q that is
   the model's intermediate value up to the representation of rationals
   (tp_equiv); nothing depends on the names of the temporaries. *)
From Coq Require Import QArith Qround Qabs Lqa Lia String Morphisms.
From Iso Require Import Proofs.Tac Spec.Cal Spec.Instant Model.Num Model.Helpers Model.Duration Model.TimePoint
  gen.CalTables gen.GenCode gen.GenCode2 gen.GenCode4
  Proofs.TablesOk Proofs.DurSpec Proofs.TickSpec Proofs.GenCode4Base Proofs.GenCode4Tick
  Proofs.GenCode4Stmt Proofs.GenCode4Stmt2 Proofs.GenCode4Conv.
From Iso Require gen.GenCode3 Proofs.GenCode3Ok.
Open Scope Z_scope.

(* ====================================================================== *)
(* 1. model-level facts: the month of a calendar date stays in 1..12       *)
(* ====================================================================== *)

Lemma month_ok_date q p : tdate q = tdate p -> month_ok p -> month_ok q.
Proof. unfold month_ok. intros ->. auto. Qed.

Lemma month_ok_tick_over md p : month_ok p -> month_ok (tick_over md p).
Proof.
  intros H. destruct (tick_over_spec md p H) as (_ & V & _).
  unfold month_ok. destruct (tdate (tick_over md p)) as [y m d| |]; [|exact I|exact I].
  cbn [valid_date] in V. unfold valid_cal in V. lia.
Qed.

Lemma month_ok_set_tod p t : month_ok p -> month_ok (with_tod p t).
Proof. exact (fun H => H). Qed.

Lemma month_ok_raw_days p n : month_ok p -> month_ok (with_date p (add_days_raw (tdate p) n)).
Proof. unfold month_ok. cbn [with_date tdate]. destruct (tdate p); cbn [add_days_raw]; auto. Qed.

Lemma month_step_range md n y m d : 1 <= m <= 12 ->
  let '(_, m', _) := month_step md n (y, m, d) in 1 <= m' <= 12.
Proof.
  intros H. unfold month_step.
  destruct (0 <? n); [destruct (12 <? m + 1) eqn:E | destruct (m - 1 <? 1) eqn:E]; lia.
Qed.

Lemma month_iter_range md n k : forall y m d, 1 <= m <= 12 ->
  let '(_, m', _) := Nat.iter k (month_step md n) (y, m, d) in 1 <= m' <= 12.
Proof.
  induction k as [|k IH]; intros y m d H; [exact H|].
  cbn [Nat.iter nat_rect]. specialize (IH y m d H). unfold Nat.iter in IH.
  destruct (nat_rect _ _ _ k) as [[y1 m1] d1]. apply month_step_range. exact IH.
Qed.

Lemma month_ok_add_months md p n q : add_months md p n = Some q -> month_ok p -> month_ok q.
Proof.
  unfold add_months. destruct (n =? 0). { intros E; injection E as <-. auto. }
  destruct (get_calendar_date md (tdate p)) as [c|] eqn:Ec; [|discriminate].
  destruct (Pos.iter (month_step md n) c (Z.to_pos (Z.abs n))) as [[y m] d] eqn:Ei.
  destruct (tdate p) as [y0 m0 d0|y0 doy|y0 w d0] eqn:Ed.
  - intros E Hm; injection E as <-. apply month_ok_tick_over.
    unfold month_ok in *. rewrite Ed in Hm. cbn [with_date tdate].
    cbn [get_calendar_date] in Ec. injection Ec as <-.
    rewrite Pos2Nat.inj_iter in Ei.
    pose proof (month_iter_range md n (Pos.to_nat (Z.to_pos (Z.abs n))) y0 m0 d0 Hm) as R.
    unfold Nat.iter in R. rewrite Ei in R. exact R.
  - destruct (to_ordinal_date md _) as [d'|] eqn:Eo; [|discriminate].
    intros E _; injection E as <-. unfold to_ordinal_date in Eo.
    destruct (get_ordinal_date md _) as [[? ?]|]; [|discriminate]. injection Eo as <-. exact I.
  - destruct (to_week_date md _) as [d'|] eqn:Eo; [|discriminate].
    intros E _; injection E as <-. unfold to_week_date in Eo.
    destruct (get_week_date md _) as [[[? ?] ?]|]; [|discriminate]. injection Eo as <-. exact I.
Qed.

Lemma month_ok_add_years md p n : month_ok p -> month_ok (with_date p (add_years md (tdate p) n)).
Proof. unfold month_ok. cbn [with_date tdate]. destruct (tdate p); cbn [add_years]; auto. Qed.

Lemma month_ok_tp_add md p x q : tp_add md p x = Some q -> month_ok p -> month_ok q.
Proof.
  unfold tp_add. destruct (to_days x) as [|ys mos ds h mi s]; [discriminate|]. cbv zeta.
  intros E Hm.
  set (p1 := if qeqb s 0 then p else _) in E.
  assert (H1 : month_ok p1) by (subst p1; destruct (qeqb s 0); [exact Hm | apply month_ok_tick_over, Hm]).
  set (p2 := if qeqb mi 0 then p1 else _) in E.
  assert (H2 : month_ok p2) by (subst p2; destruct (qeqb mi 0); [exact H1 | apply month_ok_tick_over, H1]).
  set (p3 := if qeqb h 0 then p2 else _) in E.
  assert (H3 : month_ok p3) by (subst p3; destruct (qeqb h 0); [exact H2 | apply month_ok_tick_over, H2]).
  set (p4 := if ds =? 0 then p3 else _) in E.
  assert (H4 : month_ok p4)
    by (subst p4; destruct (ds =? 0); [exact H3 | apply month_ok_tick_over, month_ok_raw_days, H3]).
  clearbody p1 p2 p3 p4.
  destruct (if mos =? 0 then Some p4 else add_months md p4 mos) as [p5|] eqn:E5; [|discriminate].
  assert (H5 : month_ok p5).
  { destruct (mos =? 0); [injection E5 as <-; exact H4 | eapply month_ok_add_months; eassumption]. }
  injection E as <-. destruct (ys =? 0); [exact H5 | apply month_ok_add_years, H5].
Qed.

Lemma to_time_zone_zone md p z q : to_time_zone md p z = Some q -> tzone q = z.
Proof.
  unfold to_time_zone. destruct (tp_add md p _) as [r|]; [|discriminate].
  intros E; injection E as <-. reflexivity.
Qed.

Lemma month_ok_to_time_zone md p z q : to_time_zone md p z = Some q -> month_ok p -> month_ok q.
Proof.
  unfold to_time_zone. destruct (tp_add md p _) as [r|] eqn:Er; [|discriminate].
  intros E Hm; injection E as <-. apply (month_ok_date _ r); [reflexivity|].
  eapply month_ok_tp_add; eassumption.
Qed.

Lemma month_ok_to_utc md p q : to_utc md p = Some q -> month_ok p -> month_ok q.
Proof. apply month_ok_to_time_zone. Qed.

Lemma month_ok_normalised md p : month_ok p -> month_ok (normalised md p).
Proof.
  intros H. unfold normalised. destruct (qeqb _ 24); [apply month_ok_tick_over, H | exact H].
Qed.

(* ====================================================================== *)
(* 2. code-level facts                                                     *)
(* ====================================================================== *)

Lemma s_time_zone_rep fl p : s_time_zone (rep fl p) = rep_zone (tzone p).
Proof. destruct p as [[?|?|?] [?|?|?] ?]; reflexivity. Qed.

Lemma s_truncated_rep fl p : s_truncated (rep fl p) = false.
Proof. destruct p as [[?|?|?] [?|?|?] ?]; reflexivity. Qed.

Lemma s_hour_of_day_rep fl p : s_hour_of_day (rep fl p) = Some (tod_hour (ttod p)).
Proof. destruct p as [[?|?|?] [?|?|?] ?]; reflexivity. Qed.

(* storing a (known) time zone *)
Lemma set_time_zone_rep fl q z :
  set_time_zone (rep fl q) (rep_zone z) = rep fl (mkTp (tdate q) (ttod q) z).
Proof. destruct q as [[?|?|?] [?|?|?] ?]; reflexivity. Qed.

Lemma tod_hour_equiv t' t : tod_equiv t' t -> (tod_hour t' == tod_hour t)%Q.
Proof. destruct t', t; cbn [tod_equiv tod_hour]; tauto. Qed.

(* `t <- m ;; Ok t` *)
Lemma returns_tp_bind_ret fl m q : returns_tp fl m q -> returns_tp fl (ebind m (fun v => Ok v)) q.
Proof.
  intros H. apply returns_tp_elim in H. destruct H as (r & -> & Hr).
  rewrite ebind_ok. apply returns_tp_intro with r; [reflexivity | exact Hr].
Qed.

(* ---------- TimeZone - TimeZone (Duration.__sub__ of phase 3) ---------- *)
Definition zone_dur (z : zone) : dur := DU 0 0 0 (inject_Z (zh z)) (inject_Z (zm z)) (inject_Z 0).

Lemma tz_duration_rep z : tz_duration (rep_zone z) = GenCode3Ok.rep (zone_dur z).
Proof. reflexivity. Qed.

Lemma dur_equiv_trans3 a b c :
  GenCode3Ok.dur_equiv a b -> GenCode3Ok.dur_equiv b c -> GenCode3Ok.dur_equiv a c.
Proof.
  destruct a, b, c; cbn [GenCode3Ok.dur_equiv]; try tauto.
  - congruence.
  - intros (-> & -> & -> & H1 & H2 & H3) (-> & -> & -> & G1 & G2 & G3).
    repeat split; try reflexivity; etransitivity; eassumption.
Qed.

Lemma zone_sub_equiv z1 z2 :
  GenCode3Ok.dur_equiv (dur_sub (zone_dur z1) (zone_dur z2)) (zone_diff z1 z2).
Proof.
  unfold dur_sub, zone_dur, dur_mul, dur_add, to_days, zone_diff. cbn [GenCode3Ok.dur_equiv].
  unfold qadd, qmul, qz. rewrite !Qred_correct.
  repeat split.
  - unfold Z.sub. rewrite inject_Z_plus, inject_Z_opp. change (inject_Z (-1)) with (-(1))%Q. ring.
  - unfold Z.sub. rewrite inject_Z_plus, inject_Z_opp. change (inject_Z (-1)) with (-(1))%Q. ring.
Qed.

Lemma zone_sub_denotes z1 z2 : exists od,
  lift3 (GenCode3.py_Duration___sub__ (tz_duration (rep_zone z1)) (tz_duration (rep_zone z2))) = Ok od /\
  dur_denotes od (zone_diff z1 z2).
Proof.
  rewrite !tz_duration_rep.
  destruct (GenCode3Ok.returns_dur_rep _ _ (GenCode3Ok.gen3_sub (zone_dur z1) (zone_dur z2))) as (r & E & D).
  exists (GenCode3Ok.rep r). split.
  - rewrite E. reflexivity.
  - exists r. split; [reflexivity|]. eapply dur_equiv_trans3; [exact D | apply zone_sub_equiv].
Qed.

(* ---------- get_hour_minute_second, get_second_of_day ---------- *)
Ltac run4z :=
  cbv beta iota zeta delta [rep rep_zone tdate ttod tzone zh zm f_digits f_tprop f_tdump f_dump
    ebind need is_none negb andb orb fst snd
    s_num_expanded_year_digits s_year s_month_of_year s_day_of_year s_day_of_month s_day_of_week
    s_week_of_year s_hour_of_day s_minute_of_hour s_second_of_minute s_truncated s_truncated_property
    s_truncated_dump_format s_dump_format s_time_zone].

(* rewrite with the == hypotheses (also below qtrunc / inject_Z), drop the model's Qred *)
Ltac q_norm :=
  unfold qadd, qsub, qmul, qz; repeat rewrite Qred_correct;
  repeat match goal with H : (_ == _)%Q |- _ => rewrite H; clear H end.

Lemma gen4_get_hour_minute_second : GetHmsOk.
Proof.
  intros md fl p p' fuel (Hd & Ht & Hz).
  unfold py_TimePoint_get_hour_minute_second. consts4. change py_int_Q with qtrunc.
  destruct p as [dt t z], p' as [dt' t' z']. cbn [tdate ttod tzone] in *. subst dt' z'.
  destruct t as [h mi s|h mi|h], t' as [h' mi' s'|h' mi'|h']; cbn [tod_equiv] in Ht; try (exfalso; exact Ht);
    destruct dt as [y m d|y doy|y w d]; run4z;
    (do 3 eexists; split; [reflexivity|]);
    cbv beta iota zeta delta [get_hour_minute_second];
    repeat match goal with H : _ /\ _ |- _ => destruct H end;
    q_norm; repeat split; unify_floors; q_solve.
Qed.
Print Assumptions gen4_get_hour_minute_second.

Lemma gen4_get_second_of_day : SodOk.
Proof.
  intros md fl p p' fuel (Hd & Ht & Hz).
  unfold py_TimePoint_get_second_of_day. consts4. cal4 md.
  destruct p as [dt t z], p' as [dt' t' z']. cbn [tdate ttod tzone] in *. subst dt' z'.
  destruct t as [h mi s|h mi|h], t' as [h' mi' s'|h' mi'|h']; cbn [tod_equiv] in Ht; try (exfalso; exact Ht);
    destruct dt as [y m d|y doy|y w d]; run4z;
    (eexists; split; [reflexivity|]);
    cbv beta iota zeta delta [get_second_of_day];
    repeat match goal with H : _ /\ _ |- _ => destruct H end;
    q_norm; q_solve.
Qed.
Print Assumptions gen4_get_second_of_day.

(* ====================================================================== *)
(* 3. the methods that call _tick_over and __add__                         *)
(* ====================================================================== *)
Section WithParts.
  Hypothesis tick_ok : TickOk.
  Hypothesis add_ok : AddOk.

  (* ---------- to_time_zone: self + (dest - self._time_zone), then the zone is stored ---------- *)
  Theorem gen4_to_time_zone_with : ToZoneOk.
  Proof.
    intros md fl p p' z fuel q Hpp Hm Hz Hf.
    unfold to_time_zone in Hz.
    destruct (tp_add md p (zone_diff z (tzone p))) as [q0|] eqn:Eadd; [|discriminate]. injection Hz as <-.
    unfold py_TimePoint_to_time_zone.
    change (z_unknown (rep_zone z)) with false. cbv iota.
    rewrite s_time_zone_rep.
    assert (Ez : tzone p' = tzone p) by apply Hpp. rewrite Ez.
    destruct (zone_sub_denotes z (tzone p)) as (od & E & D). rewrite E, ebind_ok.
    pose proof (add_ok md fl p p' od _ fuel q0 Hpp D Hm Eadd Hf) as HA.
    apply returns_tp_elim in HA. destruct HA as (q' & E' & (Q1 & Q2 & Q3)).
    rewrite E', ebind_ok. cbv zeta. rewrite set_time_zone_rep.
    eapply returns_tp_intro; [reflexivity|].
    repeat split; cbn [tdate ttod tzone]; assumption.
  Qed.

  (* ---------- to_utc ---------- *)
  Theorem gen4_to_utc_with : ToUtcOk.
  Proof.
    intros md fl p p' fuel q Hpp Hm Hz Hf.
    unfold py_TimePoint_to_utc. apply returns_tp_bind_ret.
    change (mkTimeZone 0 0 false) with (rep_zone zone_utc).
    exact (gen4_to_time_zone_with md fl p p' zone_utc fuel q Hpp Hm Hz Hf).
  Qed.

  (* ---------- _normalised ---------- *)
  Theorem gen4_normalised_with : NormalisedOk.
  Proof.
    intros md fl p p' fuel Hpp Hm Hf.
    unfold py_TimePoint__normalised, normalised in *. consts4.
    rewrite s_hour_of_day_rep. cbn [opt_eqb].
    assert (Eh : Qeq_bool (tod_hour (ttod p')) (inject_Z 24) = qeqb (tod_hour (ttod p)) 24).
    { unfold qeqb. apply qeqb_comp; [apply tod_hour_equiv, Hpp | reflexivity]. }
    rewrite Eh. destruct (qeqb (tod_hour (ttod p)) 24); cbn [negb].
    - rewrite gen4_copy, ebind_ok. cbv zeta. apply returns_tp_bind_ret.
      apply tick_ok; assumption.
    - apply returns_tp_intro with p'; [reflexivity | exact Hpp].
  Qed.

  (* ---------- __hash__: to_utc, _normalised, the calendar date and h/m/s ---------- *)
  Theorem gen4_hash_with : HashOk.
  Proof.
    intros md fl p p' fuel k Hpp Hm Hk Hf.
    unfold tp_hash_key in Hk. unfold hash_bound, zone_bound, norm_bound in Hf.
    destruct (to_utc md p) as [u|] eqn:Eu; [|discriminate].
    pose proof (month_ok_to_utc md p u Eu Hm) as Hmu.
    unfold py_TimePoint___hash__. rewrite s_truncated_rep. cbv iota.
    (* to_utc *)
    pose proof (gen4_to_utc_with md fl p p' fuel u Hpp Hm Eu ltac:(lia)) as H1.
    apply returns_tp_elim in H1. destruct H1 as (u' & -> & Hu). rewrite ebind_ok.
    (* _normalised *)
    pose proof (gen4_normalised_with md fl u u' fuel Hu Hmu ltac:(lia)) as H2.
    apply returns_tp_elim in H2. destruct H2 as (n' & -> & Hn). rewrite ebind_ok. cbv zeta.
    (* get_calendar_date: the date is the model's *)
    rewrite gen4_get_calendar_date.
    assert (Ed : tdate n' = tdate (normalised md u)) by apply Hn. rewrite Ed.
    destruct (get_calendar_date md (tdate (normalised md u))) as [[[y0 m0] d0]|]; [|discriminate].
    injection Hk as <-. cbn [opt3 need ebind].
    (* get_hour_minute_second *)
    destruct (gen4_get_hour_minute_second md fl (normalised md u) n' fuel Hn) as (h & mi & s & -> & Hhms).
    cbn [ebind fst snd].
    exists y0, m0, d0, h, mi, s. split; [reflexivity|].
    destruct (get_hour_minute_second (ttod (normalised md u))) as [[h0 mi0] s0].
    repeat split; try reflexivity; apply Hhms.
  Qed.
End WithParts.
Print Assumptions gen4_to_time_zone_with.
Print Assumptions gen4_to_utc_with.
Print Assumptions gen4_normalised_with.
Print Assumptions gen4_hash_with.
