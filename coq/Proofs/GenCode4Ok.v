(* Proofs/GenCode4Ok.v -- assembly: the method bodies of class TimePoint that the
   translator read from data.py on this run (gen/GenCode4.v) compute, on every
   object state `rep fl p` (p : tp a non-truncated time point, fl the carried
   presentation flags), the hand-written model functions of Model/TimePoint.v,
   for every fuel >= the model's own loop bounds.  The parts are proved in
   Proofs/GenCode4Dom.v (_tick_over_day_of_month), GenCode4Tick.v (_tick_over),
   GenCode4Conv.v (_copy, conversions), GenCode4Add.v (add_months, + and - a
   Duration), GenCode4Zone.v (zones, comparison, hash key, difference); the
   statements are the Props of Proofs/GenCode4Stmt.v / GenCode4Stmt2.v. *)
From Coq Require Import QArith Qround Lia String.
From Iso Require Import Proofs.Tac Spec.Cal Spec.Instant Model.Num Model.Helpers Model.Duration Model.TimePoint
  gen.GenCode4 Proofs.GenCode4Base Proofs.GenCode4Stmt Proofs.GenCode4Stmt2
  Proofs.GenCode4Dom Proofs.GenCode4Tick Proofs.GenCode4Conv Proofs.GenCode4Add Proofs.GenCode4Zone Proofs.GenCode4Cmp.
From Iso Require gen.GenCode3 Proofs.GenCode3Ok Proofs.AddSpec.
Open Scope Z_scope.

Theorem gen4_dom : DomOk.
Proof. exact gen4_tick_over_day_of_month. Qed.

Theorem gen4_tick_over : TickOk.
Proof. intros md fl p p' fuel. apply gen4_tick_over_with. exact gen4_tick_over_day_of_month. Qed.

(* ---------- + / - a Duration, add_months ---------- *)
Theorem gen4_add_months : AddMonthsOk.
Proof.
  exact (gen4_add_months_with gen4_tick_over gen4_copy gen4_to_calendar_date gen4_to_ordinal_date
           gen4_to_week_date).
Qed.

Theorem gen4_add : AddOk.
Proof.
  exact (gen4_add_with gen4_tick_over gen4_copy gen4_to_calendar_date gen4_to_ordinal_date
           gen4_to_week_date).
Qed.

Theorem gen4_sub_dur : SubDurOk.
Proof.
  exact (gen4_sub_dur_with gen4_tick_over gen4_copy gen4_to_calendar_date gen4_to_ordinal_date
           gen4_to_week_date).
Qed.

(* ---------- zones, _normalised, the hash key ---------- *)
Theorem gen4_to_time_zone : ToZoneOk.
Proof. exact (gen4_to_time_zone_with gen4_add). Qed.

Theorem gen4_to_utc : ToUtcOk.
Proof. exact (gen4_to_utc_with gen4_add). Qed.

Theorem gen4_normalised : NormalisedOk.
Proof. exact (gen4_normalised_with gen4_tick_over). Qed.

Theorem gen4_hash_key : HashOk.
Proof. exact (gen4_hash_with gen4_tick_over gen4_add). Qed.

Theorem gen4_get_hms : GetHmsOk.
Proof. exact gen4_get_hour_minute_second. Qed.

Theorem gen4_second_of_day : SodOk.
Proof. exact gen4_get_second_of_day. Qed.

(* ---------- _cmp (the five operators), TimePoint - TimePoint ---------- *)
(* CmpOkZ = CmpOk of Proofs/GenCode4Stmt2.v + both time zones inside TimeZone's own bounds
   (Spec/Instant.v valid_zone): without it the statement is false (cmp_stmt_refuted:
   zones +01:00 and +00:60 are equal as Durations, different for the model) *)
Theorem gen4_cmp_eq : CmpOkZ 0 py_TimePoint__cmp__eq.
Proof.
  exact (gen4_cmp_eq_with gen4_to_time_zone gen4_normalised gen4_get_hms gen4_second_of_day
           month_ok_to_time_zone month_ok_normalised).
Qed.
Theorem gen4_cmp_lt : CmpOkZ 1 py_TimePoint__cmp__lt.
Proof.
  exact (gen4_cmp_lt_with gen4_to_time_zone gen4_normalised gen4_get_hms gen4_second_of_day
           month_ok_to_time_zone month_ok_normalised).
Qed.
Theorem gen4_cmp_le : CmpOkZ 2 py_TimePoint__cmp__le.
Proof.
  exact (gen4_cmp_le_with gen4_to_time_zone gen4_normalised gen4_get_hms gen4_second_of_day
           month_ok_to_time_zone month_ok_normalised).
Qed.
Theorem gen4_cmp_gt : CmpOkZ 3 py_TimePoint__cmp__gt.
Proof.
  exact (gen4_cmp_gt_with gen4_to_time_zone gen4_normalised gen4_get_hms gen4_second_of_day
           month_ok_to_time_zone month_ok_normalised).
Qed.
Theorem gen4_cmp_ge : CmpOkZ 4 py_TimePoint__cmp__ge.
Proof.
  exact (gen4_cmp_ge_with gen4_to_time_zone gen4_normalised gen4_get_hms gen4_second_of_day
           month_ok_to_time_zone month_ok_normalised).
Qed.
Theorem gen4_cmp_refuted_without_valid_zones : ~ CmpOk 1 py_TimePoint__cmp__lt.
Proof. exact cmp_stmt_refuted. Qed.

Theorem gen4_sub_tp : SubTpOk.
Proof.
  exact (gen4_sub_tp_with gen4_to_time_zone gen4_normalised gen4_get_hms gen4_second_of_day
           month_ok_to_time_zone month_ok_normalised).
Qed.

(* ---------- the object states of the theorems ---------- *)
Theorem gen4_state :
  (forall fl p, abs4 (rep fl p) = Some p /\ flags_of (rep fl p) = fl) /\
  (forall o p, abs4 o = Some p -> o = rep (flags_of o) p).
Proof. exact (conj abs4_rep rep_abs4). Qed.

(* ---------- property C01 stated of the translated code ---------- *)
Lemma tod_secs_equiv a b : tod_equiv a b -> (tod_secs a == tod_secs b)%Q.
Proof.
  destruct a, b; cbn [tod_equiv tod_secs]; try tauto.
  - intros (H1 & H2 & H3). rewrite H1, H2, H3. reflexivity.
  - intros (H1 & H2). rewrite H1, H2. reflexivity.
  - intros H1. rewrite H1. reflexivity.
Qed.
Lemma instant_equiv md q r : tp_equiv q r -> (instant md q == instant md r)%Q.
Proof.
  intros (H1 & H2 & H3). unfold instant. rewrite H1, H3, (tod_secs_equiv _ _ H2). reflexivity.
Qed.

(* adding an exact duration with the source's __add__ moves the instant by its length *)
Theorem gen4_add_instant : forall md fl p d od fuel,
  valid_tp md p = true -> is_exact d = true -> dur_denotes od d ->
  (Z.to_nat (tp_add_bound md p d) <= fuel)%nat ->
  exists q, py_TimePoint___add____Duration fuel (cal_of md) (rep fl p) od = Ok (rep fl q) /\
            (instant md q == instant md p + dur_len d)%Q /\
            rep_kind (tdate q) = rep_kind (tdate p) /\ tod_kind (ttod q) = tod_kind (ttod p) /\
            tzone q = tzone p.
Proof.
  intros md fl p d od fuel V E D F.
  destruct (AddSpec.tp_add_exact_spec md p d V E) as (r & Hr & I & K1 & K2 & K3 & _).
  assert (M : month_ok p).
  { unfold month_ok. apply (AddSpec.valid_month md). apply (AddSpec.valid_tp_parts md p V). }
  pose proof (gen4_add md fl p p od d fuel r (tp_equiv_refl p) D M Hr F) as R.
  apply returns_tp_elim in R. destruct R as (q & Hq & (Q1 & Q2 & Q3)).
  exists q. split; [exact Hq|]. split; [rewrite (instant_equiv md q r (conj Q1 (conj Q2 Q3))); exact I|].
  rewrite Q1, Q3. repeat split; try assumption.
  destruct (ttod q), (ttod r); cbn [tod_equiv] in Q2; try contradiction; exact K2.
Qed.

(* ---------- checkers used by the closed Example of Props/C01Code.v ---------- *)
Definition oz_eqb := opt_eqb Z.eqb.
Definition oq_eqb := opt_eqb Qeq_bool.
Definition tz_eqb (a b : pyTimeZone) : bool :=
  (z_hours a =? z_hours b) && (z_minutes a =? z_minutes b) && Bool.eqb (z_unknown a) (z_unknown b).
Definition tp_eqb (a b : pyTimePoint) : bool :=
  (s_num_expanded_year_digits a =? s_num_expanded_year_digits b) && oz_eqb (s_year a) (s_year b) &&
  oz_eqb (s_month_of_year a) (s_month_of_year b) && oz_eqb (s_day_of_year a) (s_day_of_year b) &&
  oz_eqb (s_day_of_month a) (s_day_of_month b) && oz_eqb (s_day_of_week a) (s_day_of_week b) &&
  oz_eqb (s_week_of_year a) (s_week_of_year b) && oq_eqb (s_hour_of_day a) (s_hour_of_day b) &&
  oq_eqb (s_minute_of_hour a) (s_minute_of_hour b) && oq_eqb (s_second_of_minute a) (s_second_of_minute b) &&
  Bool.eqb (s_truncated a) (s_truncated b) && tz_eqb (s_time_zone a) (s_time_zone b).
Definition tp_is (m : exc pyTimePoint) (o : pyTimePoint) : bool :=
  match m with Ok r => tp_eqb r o | _ => false end.
Definition b_is (m : exc bool) (v : bool) : bool := match m with Ok r => Bool.eqb r v | _ => false end.
Fixpoint zs_eqb (a : list (option Z)) (b : list Z) : bool :=
  match a, b with
  | [], [] => true | Some x :: r, y :: r' => (x =? y) && zs_eqb r r' | _, _ => false end.
Fixpoint qs_eqb (a : list (option Q)) (b : list Q) : bool :=
  match a, b with
  | [], [] => true | Some x :: r, y :: r' => Qeq_bool x y && qs_eqb r r' | _, _ => false end.
Definition zs_is (m : exc (option (option Z * option Z * option Z))) (v : list Z) : bool :=
  match m with Ok (Some (a, b, c)) => zs_eqb [a; b; c] v | _ => false end.
Definition hash_is (m : exc (option Z * option Z * option Z * option Q * option Q * option Q))
  (v : list Z) (w : list Q) : bool :=
  match m with Ok (a, b, c, d, e, f) => zs_eqb [a; b; c] v && qs_eqb [d; e; f] w | _ => false end.
Definition dur_eqb (a b : GenCode3.pyDuration) : bool :=
  oz_eqb (GenCode3.s_years a) (GenCode3.s_years b) && oz_eqb (GenCode3.s_months a) (GenCode3.s_months b) &&
  oz_eqb (GenCode3.s_weeks a) (GenCode3.s_weeks b) && oz_eqb (GenCode3.s_days a) (GenCode3.s_days b) &&
  oq_eqb (GenCode3.s_hours a) (GenCode3.s_hours b) && oq_eqb (GenCode3.s_minutes a) (GenCode3.s_minutes b) &&
  oq_eqb (GenCode3.s_seconds a) (GenCode3.s_seconds b).
Definition dur_is (m : exc GenCode3.pyDuration) (o : GenCode3.pyDuration) : bool :=
  match m with Ok r => dur_eqb r o | _ => false end.
Definition out_of_fuel {A} (m : exc A) : bool := match m with Raise OutOfFuel => true | _ => false end.
