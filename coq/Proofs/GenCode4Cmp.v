(* Proofs/GenCode4Cmp.v -- TimePoint._cmp (the five operators), __gt__ and
   __sub__(TimePoint) as translated from data.py (gen/GenCode4.v) against the
   model's tp_cmp / tp_sub (Model/TimePoint.v).  Statements: Proofs/GenCode4Stmt2.v
   (CmpOk, SubTpOk).  The statements about to_time_zone, _normalised,
   get_hour_minute_second and get_second_of_day are section hypotheses
   (Proofs/GenCode4Zone.v, discharged in Proofs/GenCode4Ok.v).

   FINDING about the statement CmpOk: it is false for time zones outside
   TimeZone's own bounds (cmp_stmt_refuted below: zones +01:00 and +00:60).  The
   code compares the zones as Durations (total seconds), the model's
   tp_props_eqb compares hours and minutes separately.  The theorems carry the
   extra premise that both zones are valid (CmpOkZ); SubTpOk has valid_tp and
   needs nothing more.

   The proofs are semantic: the slot-by-slot comparison of get_props is taken out
   of the generated definition as it is (props_chain) and shown to be the model's
   tp_props_eqb by evaluation; the general path is run call by call with the
   lemmas of the parts; the final list comparison is decided by case analysis. *)
From Coq Require Import QArith Qround Qabs Lqa Lia String Morphisms.
From Iso Require Import Proofs.Tac Spec.Cal Spec.Instant Model.Num Model.Helpers Model.Duration Model.TimePoint
  gen.CalTables gen.GenCode gen.GenCode2 gen.GenCode4
  Proofs.TablesOk Proofs.GenCodeOk Proofs.DurSpec Proofs.GenCode4Base Proofs.GenCode4Tick
  Proofs.GenCode4Stmt Proofs.GenCode4Stmt2 Proofs.GenCode4Conv.
From Iso Require gen.GenCode3 Proofs.GenCode3Ok Proofs.AddSpec Proofs.CmpSpec.
Open Scope Z_scope.

(* ====================================================================== *)
(* 0. the statement with valid zones                                       *)
(* ====================================================================== *)
Definition CmpOkZ (op : Z)
  (code : nat -> pyCalendar -> pyTimePoint -> pyTimePoint -> exc bool) : Prop :=
  forall md fl1 fl2 a a' b b' fuel c,
  tp_equiv a' a -> tp_equiv b' b -> month_ok a -> month_ok b ->
  valid_zone (tzone a) = true -> valid_zone (tzone b) = true ->
  (fl1 = fl2 \/ tp_props_eqb a b = false) ->
  tp_cmp md a b = Some c ->
  (Z.to_nat (cmp_bound md a b) <= fuel)%nat ->
  code fuel (cal_of md) (rep fl1 a') (rep fl2 b') = Ok (cmp_op op c).

(* CmpOk itself fails on zones that TimeZone.__init__ rejects *)
Lemma cmp_stmt_refuted : ~ CmpOk 1 py_TimePoint__cmp__lt.
Proof.
  intros H.
  pose (a := mkTp (Cal 2001 2 30) (HMS 0 30 0) (mkZone 1 0)).
  pose (b := mkTp (Cal 2001 2 30) (HMS 0 30 0) (mkZone 0 60)).
  specialize (H G (mkFlags 0 None None None) (mkFlags 0 None None None) a a b b 10%nat Lt
                (tp_equiv_refl a) (tp_equiv_refl b)).
  assert (E : py_TimePoint__cmp__lt 10 (cal_of G) (rep (mkFlags 0 None None None) a)
                (rep (mkFlags 0 None None None) b) = Ok false) by (vm_compute; reflexivity).
  rewrite E in H.
  assert (F : Ok false = Ok (cmp_op 1 Lt)); [|discriminate F].
  apply H.
  - cbn. lia.
  - cbn. lia.
  - left; reflexivity.
  - vm_compute. reflexivity.
  - vm_compute. lia.
Qed.

(* ====================================================================== *)
(* 1. slots of rep                                                         *)
(* ====================================================================== *)
Lemma rep_truncated fl p : s_truncated (rep fl p) = false.
Proof. destruct p as [[y m d|y doy|y w d] [h mi s|h mi|h] z]; reflexivity. Qed.
Lemma rep_time_zone fl p : s_time_zone (rep fl p) = rep_zone (tzone p).
Proof. destruct p as [[y m d|y doy|y w d] [h mi s|h mi|h] z]; reflexivity. Qed.

Lemma rep_trunc_test {A} fl1 fl2 p q (x y : A) :
  (if negb (Bool.eqb (s_truncated (rep fl1 p)) (s_truncated (rep fl2 q))) then x else y) = y.
Proof. rewrite !rep_truncated. reflexivity. Qed.

(* ====================================================================== *)
(* 2. the zones as Durations                                               *)
(* ====================================================================== *)
Lemma inj3600 a b c d :
  (inject_Z a * inject_Z 3600 + inject_Z b * inject_Z 60 ==
   inject_Z c * inject_Z 3600 + inject_Z d * inject_Z 60)%Q <-> a * 3600 + b * 60 = c * 3600 + d * 60.
Proof.
  rewrite <- !inject_Z_mult, <- !inject_Z_plus. split.
  - apply inject_Z_injective.
  - intros ->. reflexivity.
Qed.

Lemma tz_eq md z1 z2 : valid_zone z1 = true -> valid_zone z2 = true ->
  lift3 (GenCode3.py_Duration___eq__ (c_SECONDS_IN_HOUR (cal_of md)) (c_SECONDS_IN_DAY (cal_of md))
           (tz_duration (rep_zone z1)) (tz_duration (rep_zone z2))) =
  Ok ((zh z1 =? zh z2) && (zm z1 =? zm z2)).
Proof.
  intros V1 V2.
  change (tz_duration (rep_zone z1))
    with (GenCode3Ok.rep (DU 0 0 0 (inject_Z (zh z1)) (inject_Z (zm z1)) (inject_Z 0))).
  change (tz_duration (rep_zone z2))
    with (GenCode3Ok.rep (DU 0 0 0 (inject_Z (zh z2)) (inject_Z (zm z2)) (inject_Z 0))).
  change (c_SECONDS_IN_HOUR (cal_of md)) with (GenCode3Ok.cSIH md).
  change (c_SECONDS_IN_DAY (cal_of md)) with (GenCode3Ok.cSID md).
  rewrite GenCode3Ok.gen3_eq. cbn [lift3]. f_equal.
  unfold dur_eqb. cbn [is_exact non_nominal_seconds]. change ((0 =? 0) && (0 =? 0)) with true. cbv iota.
  unfold qeqb. apply Bool.eq_true_iff_eq. rewrite Qeq_bool_iff, !Qred_correct.
  unfold qz. change (inject_Z (0 * 86400)) with 0%Q. change (inject_Z 0) with 0%Q.
  rewrite !Qplus_0_l, !Qplus_0_r, inj3600.
  unfold valid_zone in V1, V2. destruct z1 as [h1 m1], z2 as [h2 m2]. cbn [zh zm] in *.
  destruct (0 <? h1) eqn:?, (h1 <? 0) eqn:?, (0 <? h2) eqn:?, (h2 <? 0) eqn:?; lia.
Qed.

(* ====================================================================== *)
(* 3. get_props() == get_props(): the slot-by-slot comparison              *)
(* ====================================================================== *)
(* the comparison as the translator generated it, taken out of _cmp [op = 'eq'] *)
Definition props_chain : pyCalendar -> pyTimePoint -> pyTimePoint -> exc bool :=
  ltac:(let body := eval cbv beta zeta delta [py_TimePoint__cmp__eq] in py_TimePoint__cmp__eq in
        lazymatch body with
        | (fun (fuel : nat) (cal : pyCalendar) (s o : pyTimePoint) =>
             if _ then _ else ebind (@?m cal s o) _) => exact m
        end).

Definition oeqb {A} (e : A -> A -> bool) (a b : option A) : bool :=
  match a, b with Some x, Some y => e x y | None, None => true | _, _ => false end.
Definition flags_eqb (f g : flags) : bool :=
  (f_digits f =? f_digits g) && oeqb String.eqb (f_tprop f) (f_tprop g) &&
  oeqb String.eqb (f_tdump f) (f_tdump g) && oeqb String.eqb (f_dump f) (f_dump g).

Lemma flags_eqb_refl f : flags_eqb f f = true.
Proof.
  destruct f as [dg [a|] [b|] [c|]]; unfold flags_eqb; cbn [f_digits f_tprop f_tdump f_dump oeqb];
    rewrite Z.eqb_refl, ?String.eqb_refl; reflexivity.
Qed.

Lemma if_ok_false (c x : bool) : (if c then Ok x else Ok false) = Ok (c && x).
Proof. destruct c; reflexivity. Qed.

(* Qeq_bool on the code's rationals -> on the model's *)
Ltac q_to_model :=
  repeat match goal with
  | |- context [Qeq_bool ?x ?y] =>
    match goal with H1 : (x == ?x1)%Q, H2 : (y == ?y1)%Q |- _ =>
      rewrite (qeqb_comp x x1 y y1 H1 H2) end
  end.

Lemma props_chain_ok md fl1 fl2 a a' b b' :
  tp_equiv a' a -> tp_equiv b' b ->
  valid_zone (tzone a) = true -> valid_zone (tzone b) = true ->
  props_chain (cal_of md) (rep fl1 a') (rep fl2 b') = Ok (flags_eqb fl1 fl2 && tp_props_eqb a b).
Proof.
  intros (Hd1 & Ht1 & Hz1) (Hd2 & Ht2 & Hz2) V1 V2.
  unfold props_chain. rewrite !rep_time_zone, Hz1, Hz2, (tz_eq md _ _ V1 V2).
  destruct fl1 as [dg1 tp1 td1 df1], fl2 as [dg2 tp2 td2 df2].
  destruct a as [da ta [za1 za2]], a' as [da' ta' za'], b as [db tb [zb1 zb2]], b' as [db' tb' zb'].
  cbn [tdate ttod tzone] in *. subst da' db' za' zb'.
  destruct da as [y m d|y doy|y w d], db as [y0 m0 d0|y0 doy0|y0 w0 d0];
  destruct ta as [h mi s|h mi|h], ta' as [h' mi' s'|h' mi'|h']; try (exfalso; exact Ht1);
  destruct tb as [k mk sk|k mk|k], tb' as [k' mk' sk'|k' mk'|k']; try (exfalso; exact Ht2);
  cbn [tod_equiv] in Ht1, Ht2; decompose [and] Ht1; decompose [and] Ht2;
  cbv beta iota zeta delta [rep rep_zone tdate ttod tzone zh zm f_digits f_tprop f_tdump f_dump
    ebind opt_eqb oeqb flags_eqb tp_props_eqb qeqb
    s_num_expanded_year_digits s_year s_month_of_year s_day_of_year s_day_of_month s_day_of_week
    s_week_of_year s_hour_of_day s_minute_of_hour s_second_of_minute s_truncated s_truncated_property
    s_truncated_dump_format s_dump_format s_time_zone];
  change (Bool.eqb false false) with true; cbv iota;
  q_to_model; rewrite ?if_ok_false; f_equal;
  apply Bool.eq_true_iff_eq; rewrite ?andb_true_iff;
  first [ tauto
        | split; intros HH; exfalso; decompose [and] HH;
          match goal with F : false = true |- _ => discriminate F end ].
Qed.

(* ====================================================================== *)
(* 4. the list comparison of [*date, second_of_day]                        *)
(* ====================================================================== *)
Ltac z_atoms :=
  repeat match goal with
  | |- context [?x =? ?y] =>
    first [ replace (x =? y) with true by lia | replace (x =? y) with false by lia ]
  | |- context [?x <? ?y] =>
    first [ replace (x <? y) with true by lia | replace (x <? y) with false by lia ]
  | |- context [?x <=? ?y] =>
    first [ replace (x <=? y) with true by lia | replace (x <=? y) with false by lia ]
  end.

Ltac q_props :=
  repeat match goal with
  | H : Qeq_bool _ _ = true |- _ => apply Qeq_bool_iff in H
  | H : Qeq_bool _ _ = false |- _ => apply Qeq_bool_neq in H
  | H : Qle_bool _ _ = true |- _ => apply Qle_bool_iff in H
  | H : Qle_bool ?a ?b = false |- _ =>
    assert (~ (a <= b)%Q) by (rewrite <- Qle_bool_iff; congruence); clear H
  end.

(* decide  <code's comparison of the two lists> = cmp_op op (key_cmp ka kb) *)
Ltac lex_solve :=
  unfold key_cmp, cmp_op, qltb, Qlt_bool; cbn [fst snd lex_cmp];
  repeat match goal with
  | |- context [?x ?= ?y] =>
    destruct (Z.compare_spec x y); [subst | | ]; z_atoms; cbn [negb andb]; cbv iota
  end;
  repeat match goal with
  | |- context [Qeq_bool ?a ?b] => destruct (Qeq_bool a b) eqn:?
  | |- context [Qle_bool ?a ?b] => destruct (Qle_bool a b) eqn:?
  end; cbn [negb andb]; try reflexivity; exfalso; q_props; lra.

(* ---------- the borrow steps of __sub__ ---------- *)
Ltac q_lits :=
  change (inject_Z 0) with 0%Q; change (inject_Z 1) with 1%Q;
  change (inject_Z 60) with 60%Q; change (inject_Z 24) with 24%Q.
Ltac q_side := unfold qsub, qadd; rewrite ?Qred_correct; q_lits; lra.

(* `if diff < 0` of the code against `if qltb diff 0` of the model (goal: model equation -> code) *)
Ltac borrow_step :=
  match goal with |- context [Qlt_bool ?x (inject_Z 0)] =>
    match goal with |- context [qltb ?y 0] =>
      let E := fresh "E" in
      assert (E : Qlt_bool x (inject_Z 0) = qltb y 0)
        by (unfold Qlt_bool, qltb; f_equal; apply qleb_comp; [reflexivity | q_side]);
      rewrite E; clear E; destruct (qltb y 0); cbv iota
    end
  end.

(* ---------- small model-level facts ---------- *)
Lemma qeqb_sym a b : qeqb a b = qeqb b a.
Proof.
  unfold qeqb. apply Bool.eq_true_iff_eq. rewrite !Qeq_bool_iff. split; intros H; symmetry; exact H.
Qed.

Lemma tp_props_eqb_sym a b : tp_props_eqb a b = tp_props_eqb b a.
Proof.
  unfold tp_props_eqb.
  rewrite (Z.eqb_sym (zh (tzone a))), (Z.eqb_sym (zm (tzone a))).
  f_equal. f_equal. f_equal.
  - destruct (tdate a), (tdate b); try reflexivity; lia.
  - destruct (ttod a) as [h m s|h m|h], (ttod b) as [h' m' s'|h' m'|h']; try reflexivity;
      rewrite (qeqb_sym h h'), ?(qeqb_sym m m'), ?(qeqb_sym s s'); reflexivity.
Qed.

Lemma dur_equiv_trans a b c :
  GenCode3Ok.dur_equiv a b -> GenCode3Ok.dur_equiv b c -> GenCode3Ok.dur_equiv a c.
Proof.
  destruct a, b, c; cbn [GenCode3Ok.dur_equiv]; try tauto; [congruence|].
  intros (? & ? & ? & ? & ? & ?) (? & ? & ? & ? & ? & ?).
  repeat split; try congruence; etransitivity; eassumption.
Qed.

Lemma dur_mul_equiv a b n : GenCode3Ok.dur_equiv a b -> GenCode3Ok.dur_equiv (dur_mul a n) (dur_mul b n).
Proof.
  destruct a, b; cbn [GenCode3Ok.dur_equiv dur_mul]; try tauto.
  - intros ->. reflexivity.
  - intros (-> & -> & -> & H1 & H2 & H3). unfold qmul. rewrite !Qred_correct, H1, H2, H3.
    repeat split; reflexivity.
Qed.

(* one level of the recursion `-1 * (other - self)` *)
Lemma sub_rec f cal s o od0 :
  py_TimePoint___gt__ f cal o s = Ok true ->
  py_TimePoint___sub____TimePoint f cal o s = Ok od0 ->
  py_TimePoint___sub____TimePoint (Datatypes.S f) cal s o =
  (t3 <- lift3 (GenCode3.py_Duration___rmul__ od0 (-1)) ;; Ok t3).
Proof.
  intros H1 H2. cbn [py_TimePoint___sub____TimePoint]. rewrite H1, ebind_ok. cbv beta iota.
  rewrite H2, ebind_ok. reflexivity.
Qed.

(* ====================================================================== *)
(* 5. _cmp                                                                 *)
(* ====================================================================== *)
Section WithParts.
  Hypothesis to_zone_ok : ToZoneOk.
  Hypothesis normalised_ok : NormalisedOk.
  Hypothesis hms_ok : GetHmsOk.
  Hypothesis sod_ok : SodOk.
  (* model-level facts proved elsewhere (Proofs/GenCode4Zone.v): *)
  Hypothesis zone_month_ok : forall md p z q, to_time_zone md p z = Some q -> month_ok p -> month_ok q.
  Hypothesis norm_month_ok : forall md p, month_ok p -> month_ok (normalised md p).

  (* other.to_time_zone(self._time_zone)._normalised(); self._normalised() *)
  Lemma cmp_prefix md fl1 fl2 a a' b b' b1 fuel :
    tp_equiv a' a -> tp_equiv b' b -> month_ok a -> month_ok b ->
    to_time_zone md b (tzone a) = Some b1 ->
    (Z.to_nat (cmp_bound md a b) <= fuel)%nat ->
    exists qa qb,
      py_TimePoint_to_time_zone fuel (cal_of md) (rep fl2 b') (s_time_zone (rep fl1 a')) = Ok (rep fl2 qb) /\
      (exists qb2, py_TimePoint__normalised fuel (cal_of md) (rep fl2 qb) = Ok (rep fl2 qb2) /\
                   tp_equiv qb2 (normalised md b1)) /\
      py_TimePoint__normalised fuel (cal_of md) (rep fl1 a') = Ok (rep fl1 qa) /\
      tp_equiv qa (normalised md a).
  Proof.
    intros Ha Hb Ma Mb Ez Hf. unfold cmp_bound in Hf. rewrite Ez in Hf. unfold zone_bound, norm_bound in Hf.
    rewrite rep_time_zone. replace (tzone a') with (tzone a) by (symmetry; apply Ha).
    destruct (returns_tp_elim _ _ _ (to_zone_ok md fl2 b b' (tzone a) fuel b1 Hb Mb Ez ltac:(lia)))
      as (q1 & E1 & Hq1).
    destruct (returns_tp_elim _ _ _ (normalised_ok md fl2 b1 q1 fuel Hq1 (zone_month_ok _ _ _ _ Ez Mb) ltac:(lia)))
      as (q2 & E2 & Hq2).
    destruct (returns_tp_elim _ _ _ (normalised_ok md fl1 a a' fuel Ha Ma ltac:(lia))) as (q3 & E3 & Hq3).
    exists q3, q1. split; [exact E1|]. split; [exists q2; split; assumption|]. split; assumption.
  Qed.

  (* the part of _cmp after the comparison of the properties, for one operator *)
  Ltac cmp_general md fl1 fl2 a fuel Ha Hb Ma Mb Ep Hc Hf :=
    unfold tp_cmp in Hc; rewrite Ep in Hc;
    rewrite rep_truncated; cbv iota;
    match type of Hc with context [to_time_zone md ?b ?z] =>
      let b1 := fresh "b1" in let Ez := fresh "Ez" in
      destruct (to_time_zone md b z) as [b1|] eqn:Ez; [|discriminate Hc];
      let qa := fresh "qa" in let qb := fresh "qb" in let qb2 := fresh "qb2" in
      let E1 := fresh "E1" in let E2 := fresh "E2" in let E3 := fresh "E3" in
      let Hqa := fresh "Hqa" in let Hqb := fresh "Hqb" in
      destruct (cmp_prefix md fl1 fl2 _ _ _ _ b1 _ Ha Hb Ma Mb Ez Hf) as (qa & qb & E1 & (qb2 & E2 & Hqb) & E3 & Hqa);
      rewrite E1, ebind_ok; cbv beta; rewrite E2, ebind_ok; cbv beta; rewrite E3, ebind_ok; cbv beta;
      cbv zeta in Hc |- *;
      rewrite gen4_get_is_calendar_date, ebind_ok; cbv beta;
      replace (tdate qa) with (tdate (normalised md a)) by (symmetry; apply Hqa);
      let sa := fresh "sa" in let sb := fresh "sb" in let Hsa := fresh "Hsa" in let Hsb := fresh "Hsb" in
      destruct (sod_ok md fl1 _ _ fuel Hqa) as (sa & Esa & Hsa);
      destruct (sod_ok md fl2 _ _ fuel Hqb) as (sb & Esb & Hsb);
      rewrite ?gen4_get_calendar_date, ?gen4_get_ordinal_date, Esa, Esb;
      replace (tdate qa) with (tdate (normalised md a)) by (symmetry; apply Hqa);
      replace (tdate qb2) with (tdate (normalised md b1)) by (symmetry; apply Hqb);
      unfold cmp_key in Hc;
      revert Hc;
      match goal with |- _ -> (if ?uc then _ else _) = _ => destruct uc end;
      cbv iota;
      repeat match goal with
      | |- context [get_calendar_date ?m ?d] => destruct (get_calendar_date m d) as [[[? ?] ?]|]
      | |- context [get_ordinal_date ?m ?d] => destruct (get_ordinal_date m d) as [[? ?]|]
      end;
      intros Hc; try discriminate Hc; injection Hc as <-;
      cbv beta iota zeta delta [ebind need fst snd opt3 opt2 opt_eqb]; f_equal;
      revert Hsa Hsb;
      repeat match goal with |- context [get_second_of_day ?t] =>
        let s := fresh "s" in generalize (get_second_of_day t); intro s end;
      intros Hsa Hsb; lex_solve
    end.

  (* one proof for the five operators (the generated definitions differ in the
     constants returned for equal properties and in the final list comparison) *)
  Ltac cmp_proof unfold_code :=
    let md := fresh "md" in let fl1 := fresh "fl1" in let fl2 := fresh "fl2" in
    let a := fresh "a" in let a' := fresh "a'" in let b := fresh "b" in let b' := fresh "b'" in
    let fuel := fresh "fuel" in let c := fresh "c" in
    let Ha := fresh "Ha" in let Hb := fresh "Hb" in let Ma := fresh "Ma" in let Mb := fresh "Mb" in
    let Va := fresh "Va" in let Vb := fresh "Vb" in let Hfl := fresh "Hfl" in
    let Hc := fresh "Hc" in let Hf := fresh "Hf" in let Efl := fresh "Efl" in let Ep := fresh "Ep" in
    intros md fl1 fl2 a a' b b' fuel c Ha Hb Ma Mb Va Vb Hfl Hc Hf;
    unfold_code;
    rewrite rep_trunc_test;
    match goal with |- ebind ?m _ = _ =>
      change m with (props_chain (cal_of md) (rep fl1 a') (rep fl2 b')) end;
    rewrite (props_chain_ok md fl1 fl2 a a' b b' Ha Hb Va Vb), ebind_ok; cbv beta;
    assert (Efl : flags_eqb fl1 fl2 && tp_props_eqb a b = tp_props_eqb a b)
      by (destruct Hfl as [-> | ->]; [rewrite flags_eqb_refl; reflexivity | apply andb_false_r]);
    rewrite Efl; clear Efl Hfl;
    destruct (tp_props_eqb a b) eqn:Ep;
    [ unfold tp_cmp in Hc; rewrite Ep in Hc; injection Hc as <-; reflexivity
    | cmp_general md fl1 fl2 a fuel Ha Hb Ma Mb Ep Hc Hf ].

  Theorem gen4_cmp_eq_with : CmpOkZ 0 py_TimePoint__cmp__eq.
  Proof using All. cmp_proof ltac:(unfold py_TimePoint__cmp__eq). Qed.
  Theorem gen4_cmp_lt_with : CmpOkZ 1 py_TimePoint__cmp__lt.
  Proof using All. cmp_proof ltac:(unfold py_TimePoint__cmp__lt). Qed.
  Theorem gen4_cmp_le_with : CmpOkZ 2 py_TimePoint__cmp__le.
  Proof using All. cmp_proof ltac:(unfold py_TimePoint__cmp__le). Qed.
  Theorem gen4_cmp_gt_with : CmpOkZ 3 py_TimePoint__cmp__gt.
  Proof using All. cmp_proof ltac:(unfold py_TimePoint__cmp__gt). Qed.
  Theorem gen4_cmp_ge_with : CmpOkZ 4 py_TimePoint__cmp__ge.
  Proof using All. cmp_proof ltac:(unfold py_TimePoint__cmp__ge). Qed.

  (* ==================================================================== *)
  (* 6. __sub__(TimePoint)                                                 *)
  (* ==================================================================== *)
  (* the path after `other > self` was false *)
  Lemma sub_general md fl1 fl2 a a' b b' f d :
    tp_equiv a' a -> tp_equiv b' b -> month_ok a -> month_ok b ->
    tp_sub_pos md a b = Some d ->
    (Z.to_nat (cmp_bound md a b) <= f)%nat ->
    py_TimePoint___gt__ f (cal_of md) (rep fl2 b') (rep fl1 a') = Ok false ->
    exists od, py_TimePoint___sub____TimePoint (Datatypes.S f) (cal_of md) (rep fl1 a') (rep fl2 b') = Ok od /\
               dur_denotes od d.
  Proof.
    intros Ha Hb Ma Mb Hd Hf Hgt.
    cbn [py_TimePoint___sub____TimePoint]. rewrite Hgt, ebind_ok. cbv beta iota.
    unfold tp_sub_pos in Hd.
    destruct (to_time_zone md b (tzone a)) as [b1|] eqn:Ez; [|discriminate Hd].
    destruct (cmp_prefix md fl1 fl2 _ _ _ _ b1 _ Ha Hb Ma Mb Ez Hf) as (qa & qb & E1 & (qb2 & E2 & Hqb) & E3 & Hqa).
    rewrite E1, ebind_ok; cbv beta; rewrite E2, ebind_ok; cbv beta; rewrite E3, ebind_ok; cbv beta.
    cbv zeta in Hd |- *.
    rewrite !gen4_get_ordinal_date.
    replace (tdate qa) with (tdate (normalised md a)) by (symmetry; apply Hqa).
    replace (tdate qb2) with (tdate (normalised md b1)) by (symmetry; apply Hqb).
    destruct (hms_ok md fl1 _ _ f Hqa) as (ha & ma & sa & Ea & Hhms_a).
    destruct (hms_ok md fl2 _ _ f Hqb) as (hb & mb & sb & Eb & Hhms_b).
    rewrite Ea, Eb.
    destruct (get_ordinal_date md (tdate (normalised md a))) as [[my mdoy]|]; [|discriminate Hd].
    destruct (get_ordinal_date md (tdate (normalised md b1))) as [[oy odoy]|]; [|discriminate Hd].
    destruct (get_hour_minute_second (ttod (normalised md a))) as [[mh mm] ms].
    destruct (get_hour_minute_second (ttod (normalised md b1))) as [[oh om] os].
    destruct Hhms_a as (A1 & A2 & A3), Hhms_b as (B1 & B2 & B3).
    cbv beta iota zeta delta [ebind need opt2].
    cal4 md. rewrite !gen_get_days_in_year_range_eq. consts4.
    revert Hd. destruct (oy <? my); cbv iota.
    all: repeat borrow_step.
    all: intros Hd; injection Hd as <-; rewrite GenCode3Ok.gen3_init; cbv beta iota delta [lift3];
      eexists; (split; [reflexivity|]); eexists; (split; [reflexivity|]);
      unfold dur_make; change (negb (0 =? 0)) with false; cbn [andb]; cbv iota;
      cbn [GenCode3Ok.dur_equiv]; repeat split; try lia; q_side.
  Qed.

  Theorem gen4_sub_tp_with : SubTpOk.
  Proof using All.
    intros md fl1 fl2 a a' b b' fuel d Ha Hb Va Vb Hfl Hd Hf.
    destruct (AddSpec.valid_tp_parts md a Va) as (Vda & _ & Vza).
    destruct (AddSpec.valid_tp_parts md b Vb) as (Vdb & _ & Vzb).
    assert (Ma : month_ok a) by (apply (AddSpec.valid_month md), Vda).
    assert (Mb : month_ok b) by (apply (AddSpec.valid_month md), Vdb).
    assert (Hfl' : fl2 = fl1 \/ tp_props_eqb b a = false)
      by (rewrite tp_props_eqb_sym; destruct Hfl; auto).
    destruct fuel as [|[|f]]; [lia|lia|].
    unfold tp_sub in Hd.
    destruct (tp_cmp md b a) as [c|] eqn:Ec; [|discriminate Hd].
    assert (Hgt : py_TimePoint___gt__ (Datatypes.S f) (cal_of md) (rep fl2 b') (rep fl1 a') = Ok (cmp_op 3 c)).
    { unfold py_TimePoint___gt__.
      rewrite (gen4_cmp_gt_with md fl2 fl1 b b' a a' (Datatypes.S f) c Hb Ha Mb Ma Vzb Vza Hfl' Ec ltac:(lia)).
      reflexivity. }
    destruct c.
    - apply (sub_general md fl1 fl2 a a' b b' (Datatypes.S f) d Ha Hb Ma Mb Hd ltac:(lia) Hgt).
    - apply (sub_general md fl1 fl2 a a' b b' (Datatypes.S f) d Ha Hb Ma Mb Hd ltac:(lia) Hgt).
    - destruct (tp_sub_pos md b a) as [d0|] eqn:E0; [|discriminate Hd]. injection Hd as <-.
      pose proof (CmpSpec.tp_cmp_sym md b a Gt Vb Va Ec) as Ec'. cbn [CompOpp] in Ec'.
      assert (Hin : py_TimePoint___gt__ f (cal_of md) (rep fl1 a') (rep fl2 b') = Ok false).
      { unfold py_TimePoint___gt__.
        rewrite (gen4_cmp_gt_with md fl1 fl2 a a' b b' f Lt Ha Hb Ma Mb Vza Vzb Hfl Ec' ltac:(lia)).
        reflexivity. }
      destruct (sub_general md fl2 fl1 b b' a a' f d0 Hb Ha Mb Ma E0 ltac:(lia) Hin)
        as (od0 & Eod & (x' & -> & Hx')).
      rewrite (sub_rec (Datatypes.S f) (cal_of md) (rep fl1 a') (rep fl2 b') _ Hgt Eod).
      destruct (GenCode3Ok.returns_dur_rep _ _ (GenCode3Ok.gen3_rmul x' (-1))) as (r & Er & Hr).
      rewrite Er. cbn [lift3 ebind]. eexists. split; [reflexivity|].
      exists r. split; [reflexivity|].
      eapply dur_equiv_trans; [exact Hr | apply dur_mul_equiv, Hx'].
  Qed.
End WithParts.

Check gen4_cmp_eq_with.
Check gen4_sub_tp_with.
Print Assumptions cmp_stmt_refuted.
Print Assumptions props_chain_ok.
Print Assumptions gen4_cmp_eq_with.
Print Assumptions gen4_cmp_lt_with.
Print Assumptions gen4_cmp_le_with.
Print Assumptions gen4_cmp_gt_with.
Print Assumptions gen4_cmp_ge_with.
Print Assumptions gen4_sub_tp_with.
