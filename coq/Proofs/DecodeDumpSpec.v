(* Proofs/DecodeDumpSpec.v -- property C07, dump_as_parsed: the point parsed from
   date "T" time zone  with its own expression text as dump format is written
   back as the input text (a decimal fraction loses its trailing zeros).
   (1) decimal strings of n + 0.digits; (2) a dump template that corresponds
   token by token to a regex renders the regex's text when the point's
   properties are the assigned numbers; (3) the properties of the decoded
   point; (4) the template of the as-parsed format (reflection over the
   tables) and the dumper's conversions and bounds; (5) the theorem. *)
From Coq Require Import ZArith QArith Qround Lqa List Bool String Ascii Lia.
From Iso Require Import Proofs.Tac Spec.Cal Spec.Instant Model.Num Model.Helpers Model.Duration Model.TimePoint
  Model.Forms Model.Parse Model.Dump Spec.FormText Proofs.MatchSpec gen.Grammar Model.DriverText
  Proofs.HelpersSpec Proofs.ConvSpec Proofs.TickSpec Proofs.AddSpec Proofs.ZoneSpec Proofs.CmpSpec Proofs.ConstructSpec
  Proofs.RoundTripSpec Proofs.DecodeSpec.
Import ListNotations.
Close Scope Q_scope.
Close Scope Z_scope.
Local Open Scope string_scope.

(* ------------------------------------------------------------------ *)
(* 0. definitions used by Props/C07Ext.v                               *)
(* ------------------------------------------------------------------ *)
(* a fraction's digits as the dumper writes them: no trailing zeros, "0" for zero *)
Definition canon (f : string) : string :=
  let s := strip_zeros f in if String.eqb s "" then "0" else s.
(* the assignment with the three decimal fields in that form *)
Definition canon_env (a : env) : env :=
  ("hour_of_day_decimal", canon (fld "hour_of_day_decimal" a)) ::
  ("minute_of_hour_decimal", canon (fld "minute_of_hour_decimal" a)) ::
  ("second_of_minute_decimal", canon (fld "second_of_minute_decimal" a)) :: a.
(* at most six significant fraction digits (the dumper prints six) *)
Definition frac6 (f : string) : bool := Nat.leb (String.length (strip_zeros f)) 6.
Definition dec_fits (tt : list ptok) (atm : env) : bool :=
  forallb (fun k => match fget k tt atm with Some f => frac6 f | None => true end)
          ["hour_of_day_decimal"; "minute_of_hour_decimal"; "second_of_minute_decimal"].

(* ------------------------------------------------------------------ *)
(* 1. decimal strings                                                  *)
(* ------------------------------------------------------------------ *)
Lemma sgo_zeros : forall k, sgo (repeat "0"%char k) = [].
Proof. induction k; [reflexivity|]. cbn [repeat sgo]. rewrite IHk. reflexivity. Qed.
Lemma sgo_app_zeros : forall l k, sgo (l ++ repeat "0"%char k)%list = sgo l.
Proof.
  induction l as [|c r IH]; intros k; [apply sgo_zeros|].
  cbn [List.app sgo]. rewrite IH. reflexivity.
Qed.
Lemma laos_app : forall a b, list_ascii_of_string (a ++ b) = (list_ascii_of_string a ++ list_ascii_of_string b)%list.
Proof. induction a; simpl; intros; [reflexivity|]. rewrite IHa. reflexivity. Qed.
Lemma laos_zeros : forall k, list_ascii_of_string (zeros k) = repeat "0"%char k.
Proof. induction k; simpl; [reflexivity|]. rewrite IHk. reflexivity. Qed.
Lemma strip_zeros_app_zeros : forall s k, strip_zeros (s ++ zeros k) = strip_zeros s.
Proof. intros. rewrite !strip_zeros_sgo, laos_app, laos_zeros, sgo_app_zeros. reflexivity. Qed.

Local Open Scope Q_scope.
Lemma qtrunc_int_frac : forall n f, (0 <= n)%Z -> 0 <= f -> f < 1 -> qtrunc (qadd (qz n) f) = n.
Proof.
  intros n f N F0 F1. pose proof (qadd_eq (qz n) f) as E. unfold qz in *.
  assert (N0 : 0 <= inject_Z n) by (change 0 with (inject_Z 0); apply le_inj; exact N).
  rewrite qtrunc_nonneg by lra. apply floor_unique; [lra|]. rewrite inject_Z_plus. change (inject_Z 1) with 1. lra.
Qed.
Lemma qtrunc_qz : forall n, qtrunc (qz n) = n.
Proof.
  intros n. unfold qtrunc, qz. destruct (Qle_bool 0 (inject_Z n)); [apply Qfloor_Z|apply Qceiling_Z].
Qed.

(* the dumper's six-digit decimal string of n + m/10^6 *)
Lemma decimal_string_of : forall x (n m : Z), (0 <= n)%Z -> (0 <= m < 1000000)%Z ->
  x == inject_Z n + inject_Z m * (1 # 1000000) ->
  decimal_string x = (let s := strip_zeros (pad_num 6 m) in if String.eqb s "" then "0"%string else s).
Proof.
  intros x n m N M E. unfold decimal_string.
  assert (M0 : 0 <= inject_Z m) by (change 0 with (inject_Z 0); apply le_inj; lia).
  assert (M1 : inject_Z m <= 999999) by (change 999999 with (inject_Z 999999); apply le_inj; lia).
  assert (N0 : 0 <= inject_Z n) by (change 0 with (inject_Z 0); apply le_inj; exact N).
  assert (T : qtrunc x = n).
  { rewrite qtrunc_nonneg by lra. apply floor_unique; [lra|]. rewrite inject_Z_plus. change (inject_Z 1) with 1. lra. }
  rewrite T. set (fr := Qred (x - qz n)).
  assert (FR : fr == inject_Z m * (1 # 1000000)) by (unfold fr, qz; rewrite Qred_correct; lra).
  assert (Q1 : qleb (9999995 # 10000000) fr = false).
  { destruct (qleb (9999995 # 10000000) fr) eqn:Q; [|reflexivity]. apply qleb_iff in Q. lra. }
  rewrite Q1.
  assert (FL : Qfloor (fr * qz 1000000 + (1 # 2)) = m).
  { apply floor_unique; unfold qz; change (inject_Z 1000000) with 1000000.
    - lra.
    - rewrite inject_Z_plus. change (inject_Z 1) with 1. lra. }
  rewrite FL. reflexivity.
Qed.

Lemma frac_of_six : forall f g k j, digits_plus f = true -> f = (g ++ zeros k)%string ->
  (String.length g + j = 6)%nat ->
  frac_of f == inject_Z (dnum g * 10 ^ Z.of_nat j) * (1 # 1000000).
Proof.
  intros f g k j D E LJ. pose proof (frac_of_scaled f 0 D) as S.
  assert (A : all_digits f = true) by (unfold digits_plus in D; apply andb_true_iff in D; tauto).
  rewrite E, all_digits_app in A. apply andb_true_iff in A. destruct A as [Ag _].
  rewrite Nat.add_0_r, Z.mul_1_r in S.
  assert (DN : dnum f = (dnum g * 10 ^ Z.of_nat k)%Z).
  { rewrite E, dnum_app by (try assumption; apply zeros_digits). rewrite zeros_length, dnum_zeros. lia. }
  assert (LN : String.length f = (String.length g + k)%nat) by (rewrite E, slen_app, zeros_length; reflexivity).
  rewrite DN, LN in S.
  set (P := (10 ^ Z.of_nat (String.length g + k))%Z) in *.
  assert (PP : (0 < P)%Z) by (unfold P; apply Z.pow_pos_nonneg; lia).
  assert (QP : 0 < inject_Z P) by (change 0 with (inject_Z 0); apply lt_inj; exact PP).
  assert (ID : (dnum g * 10 ^ Z.of_nat j * P = dnum g * 10 ^ Z.of_nat k * 1000000)%Z).
  { unfold P. change 1000000%Z with (10 ^ Z.of_nat 6)%Z. rewrite <- LJ.
    rewrite <- !Z.mul_assoc, <- !Z.pow_add_r by lia. do 2 f_equal. lia. }
  apply (f_equal inject_Z) in ID. rewrite !inject_Z_mult in ID. change (inject_Z 1000000) with 1000000 in ID.
  rewrite <- inject_Z_mult in ID.
  set (C := inject_Z (dnum g * 10 ^ Z.of_nat j)) in *. set (B := inject_Z (dnum g * 10 ^ Z.of_nat k)) in *.
  apply (Qmult_inj_r _ _ (inject_Z P)); [lra|]. rewrite S.
  setoid_replace (C * (1 # 1000000) * inject_Z P) with ((C * inject_Z P) * (1 # 1000000)) by ring.
  rewrite ID. unfold B. rewrite inject_Z_mult. ring.
Qed.
Close Scope Q_scope.

Lemma strip_idem : forall f, strip_zeros (strip_zeros f) = strip_zeros f.
Proof.
  intros f. destruct (strip_zeros_spec f) as [k E].
  rewrite E at 2. rewrite strip_zeros_app_zeros. reflexivity.
Qed.

Theorem decimal_string_frac : forall n f, (0 <= n)%Z -> digits_plus f = true -> frac6 f = true ->
  decimal_string (qadd (qz n) (frac_of f)) = canon f.
Proof.
  intros n f N D F6. unfold frac6 in F6. apply Nat.leb_le in F6.
  destruct (strip_zeros_spec f) as [k E]. set (g := strip_zeros f) in *.
  set (j := (6 - String.length g)%nat).
  assert (LJ : (String.length g + j = 6)%nat) by (unfold j; lia).
  assert (A : all_digits f = true) by (unfold digits_plus in D; apply andb_true_iff in D; tauto).
  assert (Ag : all_digits g = true).
  { rewrite E, all_digits_app in A. apply andb_true_iff in A. tauto. }
  pose proof (dnum_lt g Ag) as R.
  set (m := (dnum g * 10 ^ Z.of_nat j)%Z).
  assert (M : (0 <= m < 1000000)%Z).
  { unfold m. change 1000000%Z with (10 ^ Z.of_nat 6)%Z. rewrite <- LJ, Nat2Z.inj_add, Z.pow_add_r by lia.
    assert (0 < 10 ^ Z.of_nat j)%Z by (apply Z.pow_pos_nonneg; lia). nia. }
  rewrite (decimal_string_of _ n m N M).
  2:{ rewrite qadd_eq. unfold qz. rewrite (frac_of_six f g k j D E LJ). reflexivity. }
  cbv zeta.
  assert (DS : digits_n 6 (g ++ zeros j) = true).
  { unfold digits_n. rewrite slen_app, zeros_length, LJ, all_digits_app, Ag, zeros_digits. reflexivity. }
  assert (PM : pad_num 6 m = g ++ zeros j).
  { rewrite <- (pad_dnum 6 _ DS) by lia. f_equal. unfold m.
    rewrite dnum_app by (try assumption; apply zeros_digits). rewrite zeros_length, dnum_zeros. lia. }
  assert (SG : strip_zeros g = g) by (unfold g; apply strip_idem).
  rewrite PM, strip_zeros_app_zeros, SG. reflexivity.
Qed.

(* ------------------------------------------------------------------ *)
(* 2. a dump template that corresponds to a regex, token by token      *)
(* ------------------------------------------------------------------ *)
(* the dump property that prints the group nm *)
Definition dname (nm : string) : string :=
  if String.eqb nm "expanded_year" then "expanded_year_digits"
  else if String.eqb nm "time_zone_hour" then "time_zone_hour_abs"
  else if String.eqb nm "time_zone_minute" then "time_zone_minute_abs" else nm.
Fixpoint corr (ds : list dtok) (ps : list ptok) : bool :=
  match ds, ps with
  | [], [] => true
  | DLit l :: ds', PLit l' :: ps' => String.eqb l l' && corr ds' ps'
  | DLit l :: ds', PGrp _ l' :: ps' => String.eqb l l' && corr ds' ps'
  | DNum nm w :: ds', PDig nm' w' :: ps' => String.eqb nm (dname nm') && Nat.eqb w w' && Nat.leb 1 w && corr ds' ps'
  | DStr nm :: ds', PSign nm' :: ps' => String.eqb nm nm' && corr ds' ps'
  | DStr nm :: ds', PDigs nm' :: ps' => String.eqb nm (nm' ++ "_string") && corr ds' ps'
  | _, _ => false
  end.

(* the properties of point q are what assignment a (numbers) and a' (texts
   of signs and fractions) say, for every group of ps *)
Definition agrees (md : mode) (q : tp) (ps : list ptok) (a a' : env) : Prop :=
  (forall nm w, In (PDig nm w) ps -> prop_value md q (dname nm) = VInt (dnum (fld nm a)) /\ fld nm a' = fld nm a) /\
  (forall nm, In (PSign nm) ps -> prop_value md q nm = VStr (fld nm a')) /\
  (forall nm, In (PDigs nm) ps -> prop_value md q (nm ++ "_string") = VStr (fld nm a')).

Lemma agrees_tail : forall md q t ps a a', agrees md q (t :: ps) a a' -> agrees md q ps a a'.
Proof.
  intros md q t ps a a' (A & B & C). repeat split; intros.
  - apply A with (w := w). right; assumption.
  - apply A with (w := w). right; assumption.
  - apply B. right; assumption.
  - apply C. right; assumption.
Qed.

Theorem render_corr : forall md q ds ps a a',
  corr ds ps = true -> wf_assign ps a = true -> agrees md q ps a a' ->
  render md q ds = Some (render_toks ps a').
Proof.
  intros md q. induction ds as [|d ds IH]; intros ps a a' C W G.
  - destruct ps; [reflexivity|discriminate].
  - destruct d as [l|nm w|nm]; destruct ps as [|t ps]; try discriminate C;
      destruct t as [l'|nm' w'|nm'|nm'|nm' l'|nm']; try discriminate C; cbn [corr] in C.
    + apply andb_true_iff in C. destruct C as [E C]. apply String.eqb_eq in E. subst l'.
      cbn [render render_toks]. cbn [wf_assign] in W. rewrite (IH ps a a' C W (agrees_tail _ _ _ _ _ _ G)). reflexivity.
    + apply andb_true_iff in C. destruct C as [E C]. apply String.eqb_eq in E. subst l'.
      cbn [render render_toks]. cbn [wf_assign] in W. rewrite (IH ps a a' C W (agrees_tail _ _ _ _ _ _ G)). reflexivity.
    + apply andb_true_iff in C. destruct C as [C C4]. apply andb_true_iff in C. destruct C as [C C3].
      apply andb_true_iff in C. destruct C as [C1 C2].
      apply String.eqb_eq in C1. apply Nat.eqb_eq in C2. apply Nat.leb_le in C3. subst nm w'.
      cbn [wf_assign] in W. apply andb_true_iff in W. destruct W as [W1 W2].
      cbn [render render_toks]. destruct G as (A & B & D).
      destruct (A nm' w ltac:(left; reflexivity)) as [PV FE]. rewrite PV.
      rewrite (IH ps a a' C4 W2 (agrees_tail _ _ _ _ _ _ (conj A (conj B D)))).
      rewrite pad_dnum by assumption. rewrite FE. reflexivity.
    + apply andb_true_iff in C. destruct C as [E C]. apply String.eqb_eq in E. subst nm.
      cbn [wf_assign] in W. apply andb_true_iff in W. destruct W as [W1 W2].
      cbn [render render_toks]. destruct G as (A & B & D).
      rewrite (D nm' ltac:(left; reflexivity)).
      rewrite (IH ps a a' C W2 (agrees_tail _ _ _ _ _ _ (conj A (conj B D)))). reflexivity.
    + apply andb_true_iff in C. destruct C as [E C]. apply String.eqb_eq in E. subst nm'.
      cbn [wf_assign] in W. apply andb_true_iff in W. destruct W as [W1 W2].
      cbn [render render_toks]. destruct G as (A & B & D).
      rewrite (B nm ltac:(left; reflexivity)).
      rewrite (IH ps a a' C W2 (agrees_tail _ _ _ _ _ _ (conj A (conj B D)))). reflexivity.
Qed.

(* In a token list, a named digit group is bound *)
Lemma In_binds : forall t ts nm, In t ts -> tok_name t = Some nm -> binds nm ts = true.
Proof.
  intros t ts nm I T. unfold binds. apply existsb_exists. exists t. split; [exact I|].
  rewrite T. apply String.eqb_refl.
Qed.
Lemma fget_bound : forall k ts a, binds k ts = true -> fget k ts a = Some (fld k a).
Proof. intros. unfold fget. rewrite H. reflexivity. Qed.
Lemma fval_bound : forall k ts a, binds k ts = true -> fval k ts a = dnum (fld k a).
Proof. intros. unfold fval, fnum. rewrite fget_bound by assumption. reflexivity. Qed.
Lemma fval1_bound : forall k ts a, binds k ts = true -> fval1 k ts a = dnum (fld k a).
Proof. intros. unfold fval1, fnum. rewrite fget_bound by assumption. reflexivity. Qed.
Lemma fval_unbound : forall k ts a, binds k ts = false -> fval k ts a = 0%Z.
Proof. intros. unfold fval, fnum, fget. rewrite H. reflexivity. Qed.

(* widths and names of the groups of full date / time / zone forms *)
Definition date_names_ok (ts : list ptok) : bool :=
  forallb (fun t => match t with
    | PDig nm w => (mem nm ["century"; "year_of_century"] && Nat.eqb w 2) ||
                   (mem nm ["expanded_year"; "month_of_year"; "day_of_month"; "day_of_year"; "week_of_year"; "day_of_week"] && Nat.leb 1 w)
    | PSign nm => String.eqb nm "year_sign"
    | PDigs _ => false | PUnix _ => false | _ => true end) ts &&
  Bool.eqb (binds "year_sign" ts) (binds "expanded_year" ts).
Definition time_names_ok (ts : list ptok) : bool :=
  forallb (fun t => match t with
    | PDig nm w => mem nm ["hour_of_day"; "minute_of_hour"; "second_of_minute"] && Nat.leb 1 w
    | PDigs nm => mem nm ["hour_of_day_decimal"; "minute_of_hour_decimal"; "second_of_minute_decimal"]
    | PSign _ => false | PUnix _ => false | _ => true end) ts.
Definition zone_names_ok (ts : list ptok) : bool :=
  forallb (fun t => match t with
    | PDig nm w => mem nm ["time_zone_hour"; "time_zone_minute"] && Nat.leb 1 w && negb (binds "time_zone_utc" ts)
    | PSign nm => String.eqb nm "time_zone_sign" && negb (binds "time_zone_utc" ts)
    | PDigs _ => false | PUnix _ => false | _ => true end) ts.

(* ------------------------------------------------------------------ *)
(* 3. the dump properties of the decoded point                         *)
(* ------------------------------------------------------------------ *)
Lemma wf_In_dig : forall ts a nm w, wf_assign ts a = true -> In (PDig nm w) ts -> digits_n w (fld nm a) = true.
Proof.
  induction ts as [|t ts IH]; intros a nm w W I; [destruct I|].
  destruct I as [E|I].
  - subst t. cbn [wf_assign] in W. apply andb_true_iff in W. tauto.
  - apply IH; [|exact I]. destruct t; cbn [wf_assign] in W; try exact W; apply andb_true_iff in W; tauto.
Qed.
Lemma wf_In_digs : forall ts a nm, wf_assign ts a = true -> In (PDigs nm) ts -> digits_plus (fld nm a) = true.
Proof.
  induction ts as [|t ts IH]; intros a nm W I; [destruct I|].
  destruct I as [E|I].
  - subst t. cbn [wf_assign] in W. apply andb_true_iff in W. tauto.
  - apply IH; [|exact I]. destruct t; cbn [wf_assign] in W; try exact W; apply andb_true_iff in W; tauto.
Qed.
Lemma wf_In_sign : forall ts a nm, wf_assign ts a = true -> In (PSign nm) ts -> is_sign (fld nm a) = true.
Proof.
  induction ts as [|t ts IH]; intros a nm W I; [destruct I|].
  destruct I as [E|I].
  - subst t. cbn [wf_assign] in W. apply andb_true_iff in W. tauto.
  - apply IH; [|exact I]. destruct t; cbn [wf_assign] in W; try exact W; apply andb_true_iff in W; tauto.
Qed.

Lemma digits_n_range : forall w s, digits_n w s = true -> (0 <= dnum s < 10 ^ Z.of_nat w)%Z.
Proof. intros w s D. apply digits_n_inv in D. destruct D as [L A]. rewrite <- L. apply dnum_lt. exact A. Qed.

Lemma binds_In : forall k ts, binds k ts = true -> exists t, In t ts /\ tok_name t = Some k.
Proof.
  intros k ts B. unfold binds in B. apply existsb_exists in B. destruct B as [t [I E]]. exists t. split; [exact I|].
  destruct (tok_name t) as [nm|]; [|discriminate]. apply String.eqb_eq in E. subst nm. reflexivity.
Qed.

(* a bound numeric key of a well-formed assignment is a non-negative number *)
Lemma fval_nonneg : forall keys ts a k, num_keys_ok keys ts = true -> wf_assign ts a = true -> In k keys ->
  (0 <= fval k ts a)%Z.
Proof.
  intros keys ts a k N W K. unfold fval, fnum. destruct (fget k ts a) as [s|] eqn:F; cbn [option_map od]; [|lia].
  pose proof (fget_digits keys ts a k s N W K F) as D. unfold digits_plus in D. apply andb_true_iff in D.
  apply dnum_nonneg. tauto.
Qed.

Ltac mem_cases H :=
  unfold mem in H; cbn [existsb] in H;
  repeat match type of H with
         | context [String.eqb ?x ?lit] =>
           let E := fresh "E" in destruct (String.eqb x lit) eqn:E;
           [apply String.eqb_eq in E; subst x|]
         end; cbn [orb andb] in H; try discriminate H.

(* the two-digit year groups *)
Lemma two_digit_key : forall ts a k, date_names_ok ts = true -> num_keys_ok DATE_KEYS ts = true -> wf_assign ts a = true ->
  In k ["century"; "year_of_century"] -> (0 <= fval k ts a < 100)%Z.
Proof.
  intros ts a k NO K W IK. destruct (binds k ts) eqn:B; [|rewrite fval_unbound by assumption; lia].
  rewrite (fval_bound k ts a B).
  destruct (binds_In k ts B) as [t [I T]].
  unfold date_names_ok in NO. apply andb_true_iff in NO. destruct NO as [NO _].
  rewrite forallb_forall in NO. specialize (NO t I).
  unfold num_keys_ok in K. rewrite forallb_forall in K. specialize (K t I).
  assert (MK : mem k DATE_KEYS = true).
  { destruct IK as [<-|[<-|[]]]; reflexivity. }
  destruct t as [l|nm w|nm|nm|nm l|nm]; cbn [tok_name] in T; inversion T; subst nm; try discriminate NO.
  - assert (W2 : w = 2%nat).
    { destruct IK as [<-|[<-|[]]]; cbn in NO; rewrite ?orb_false_r in NO; apply Nat.eqb_eq in NO; exact NO. }
    subst w. apply (digits_n_range 2). apply (wf_In_dig ts a k 2 W I).
  - apply String.eqb_eq in NO. subst k. destruct IK as [X|[X|[]]]; discriminate X.
  - rewrite MK in K. discriminate K.
Qed.

Lemma abs_signed : forall sg v, (0 <= v)%Z -> Z.abs (signed sg v) = v.
Proof. intros sg v V. unfold signed. destruct sg as [s|]; [destruct (String.eqb s "-")|]; lia. Qed.

Theorem date_agrees : forall md dt ad t z,
  date_full_shape dt = true -> date_names_ok dt = true -> wf_assign dt ad = true ->
  (fget "year_sign" dt ad = Some "-" -> x_year dt ad <> 0%Z) ->
  agrees md (mkTp (x_date dt ad) t z) dt ad ad.
Proof.
  intros md dt ad t z S NO W NZ.
  pose proof S as S'. unfold date_full_shape in S'. cbv zeta in S'.
  apply andb_true_iff in S'. destruct S' as [S1 Sh]. apply andb_true_iff in S1. destruct S1 as [S1 K].
  apply andb_true_iff in S1. destruct S1 as [S1 Ns]. apply andb_true_iff in S1. destruct S1 as [S1 Bd].
  apply andb_true_iff in S1. destruct S1 as [Bt Bc].
  pose proof NO as NO'. unfold date_names_ok in NO'.
  apply andb_true_iff in NO'. destruct NO' as [NF SE]. rewrite forallb_forall in NF.
  set (Y := fval "year_of_century" dt ad). set (Cc := fval "century" dt ad). set (X := fval "expanded_year" dt ad).
  assert (RY : (0 <= Y < 100)%Z) by (apply two_digit_key; try assumption; simpl; auto).
  assert (RC : (0 <= Cc < 100)%Z) by (apply two_digit_key; try assumption; simpl; auto).
  assert (RX : (0 <= X)%Z) by (apply (fval_nonneg DATE_KEYS); try assumption; in_keys).
  assert (AY : Z.abs (x_year dt ad) = (Y + 100 * Cc + 10000 * X)%Z) by (unfold x_year; apply abs_signed; lia).
  split; [|split].
  - (* digit groups *)
    intros nm w H. split; [|reflexivity].
    pose proof (NF _ H) as N1. cbv beta iota in N1.
    pose proof (In_binds _ _ nm H eq_refl) as B.
    apply orb_true_iff in N1. destruct N1 as [N1|N1]; apply andb_true_iff in N1; destruct N1 as [N1 N2]; mem_cases N1.
    + rewrite pv_century, x_date_year, AY. f_equal. fold Cc in RC. unfold Cc in *. rewrite <- (fval_bound _ _ _ B). fold Cc. lia.
    + rewrite pv_yoc, x_date_year, AY. f_equal. rewrite <- (fval_bound _ _ _ B). fold Y. lia.
    + change (dname "expanded_year") with "expanded_year_digits".
      rewrite pv_xyd, x_date_year, AY. f_equal. rewrite <- (fval_bound _ _ _ B). fold X. lia.
    + change (dname "month_of_year") with "month_of_year". rewrite pv_moy. unfold x_date. cbv zeta.
      destruct (binds "day_of_year" dt) eqn:B1; [rewrite B in Sh; discriminate Sh|].
      destruct (binds "week_of_year" dt) eqn:B2; [rewrite B in Sh; discriminate Sh|].
      cbn [get_calendar_date]. rewrite fval1_bound by assumption. reflexivity.
    + change (dname "day_of_month") with "day_of_month". rewrite pv_dom. unfold x_date. cbv zeta.
      destruct (binds "day_of_year" dt) eqn:B1; [rewrite B, andb_false_r in Sh; discriminate Sh|].
      destruct (binds "week_of_year" dt) eqn:B2; [rewrite B, andb_false_r in Sh; discriminate Sh|].
      cbn [get_calendar_date]. rewrite fval1_bound by assumption. reflexivity.
    + change (dname "day_of_year") with "day_of_year". rewrite pv_doy. unfold x_date. cbv zeta. rewrite B.
      cbn [get_ordinal_date]. rewrite fval_bound by assumption. reflexivity.
    + change (dname "week_of_year") with "week_of_year". rewrite pv_woy. unfold x_date. cbv zeta.
      destruct (binds "day_of_year" dt) eqn:B1; [rewrite B, !andb_false_r in Sh; cbn [andb] in Sh; discriminate Sh|].
      rewrite B. cbn [get_week_date]. rewrite fval_bound by assumption. reflexivity.
    + change (dname "day_of_week") with "day_of_week". rewrite pv_dow. unfold x_date. cbv zeta.
      destruct (binds "day_of_year" dt) eqn:B1; [rewrite B, !andb_false_r in Sh; discriminate Sh|].
      destruct (binds "week_of_year" dt) eqn:B2; [|rewrite B in Sh; discriminate Sh].
      cbn [get_week_date]. rewrite fval1_bound by assumption. reflexivity.
  - (* the sign *)
    intros nm H.
    pose proof (NF _ H) as N1. cbv beta iota in N1. apply String.eqb_eq in N1. subst nm.
    pose proof (In_binds _ _ "year_sign" H eq_refl) as B.
    rewrite pv_ysign, x_date_year. f_equal.
    pose proof (wf_In_sign dt ad _ W H) as SG. apply is_sign_inv in SG.
    assert (V : (0 <= Y + 100 * Cc + 10000 * X)%Z) by lia.
    unfold x_year in *. fold Y Cc X in NZ |- *. rewrite (fget_bound _ _ _ B) in *. unfold signed in *.
    destruct SG as [E|E]; rewrite E in *; cbn [String.eqb Ascii.eqb Bool.eqb] in *.
    + destruct (0 <=? Y + 100 * Cc + 10000 * X)%Z eqn:Q; [reflexivity|lia].
    + specialize (NZ eq_refl). destruct (0 <=? - (Y + 100 * Cc + 10000 * X))%Z eqn:Q; [lia|reflexivity].
  - (* no digit runs in a date *)
    intros nm H. pose proof (NF _ H) as N1. discriminate N1.
Qed.

Lemma dec_fits_key : forall tt atm k f, dec_fits tt atm = true ->
  In k ["hour_of_day_decimal"; "minute_of_hour_decimal"; "second_of_minute_decimal"] ->
  fget k tt atm = Some f -> frac6 f = true.
Proof.
  intros tt atm k f D I F. unfold dec_fits in D. rewrite forallb_forall in D. specialize (D k I).
  rewrite F in D. exact D.
Qed.

Theorem time_agrees : forall md d tt atm z,
  time_full_shape tt = true -> time_names_ok tt = true -> wf_assign tt atm = true -> dec_fits tt atm = true ->
  agrees md (mkTp d (x_tod tt atm) z) tt atm (canon_env atm).
Proof.
  intros md d tt atm z S NO W DF.
  pose proof S as S'. unfold time_full_shape in S'. cbv zeta in S'.
  apply andb_true_iff in S'. destruct S' as [S1 Sh]. apply andb_true_iff in S1. destruct S1 as [S1 K].
  apply andb_true_iff in S1. destruct S1 as [_ Bh].
  unfold time_names_ok in NO. rewrite forallb_forall in NO.
  assert (NN : forall k, In k TIME_KEYS -> (0 <= fval k tt atm)%Z)
    by (intros; apply (fval_nonneg TIME_KEYS); assumption).
  assert (FR : forall k f, In k TIME_KEYS -> fget k tt atm = Some f ->
               digits_plus f = true /\ (0 <= frac_of f)%Q /\ (frac_of f < 1)%Q).
  { intros k f I F. pose proof (fget_digits TIME_KEYS tt atm k f K W I F) as D. split; [exact D|].
    pose proof (frac_of_range f D) as R. apply andb_true_iff in R. destruct R as [R1 R2].
    apply qleb_iff in R1. apply qltb_iff in R2. tauto. }
  pose proof (NN "hour_of_day" ltac:(in_keys)) as NH.
  pose proof (NN "minute_of_hour" ltac:(in_keys)) as NM.
  pose proof (NN "second_of_minute" ltac:(in_keys)) as NS.
  pose proof (FR "hour_of_day_decimal") as F1. pose proof (FR "minute_of_hour_decimal") as F2.
  pose proof (FR "second_of_minute_decimal") as F3.
  pose proof (fun f => dec_fits_key tt atm "hour_of_day_decimal" f DF ltac:(simpl; auto)) as G1.
  pose proof (fun f => dec_fits_key tt atm "minute_of_hour_decimal" f DF ltac:(simpl; auto)) as G2.
  pose proof (fun f => dec_fits_key tt atm "second_of_minute_decimal" f DF ltac:(simpl; auto)) as G3.
  clear NN FR.
  split; [|split].
  - (* digit groups *)
    intros nm w H. pose proof (NO _ H) as N1. cbv beta iota in N1. apply andb_true_iff in N1. destruct N1 as [N1 _].
    pose proof (In_binds _ _ nm H eq_refl) as B.
    mem_cases N1; (split; [|reflexivity]).
    + change (dname "hour_of_day") with "hour_of_day". rewrite pv_hour. f_equal.
      rewrite <- (fval_bound _ _ _ B). unfold x_tod.
      destruct (fget "hour_of_day_decimal" tt atm) as [f1|] eqn:E1;
        [|destruct (fget "minute_of_hour_decimal" tt atm) as [f2|] eqn:E2;
          [|destruct (fget "second_of_minute_decimal" tt atm) as [f3|] eqn:E3]]; cbn [tod_hour];
        try apply qtrunc_qz.
      destruct (F1 f1 ltac:(in_keys) eq_refl) as (_ & A1 & A2). apply qtrunc_int_frac; assumption.
    + change (dname "minute_of_hour") with "minute_of_hour".
      rewrite <- (fval_bound _ _ _ B). unfold x_tod.
      destruct (fget "hour_of_day_decimal" tt atm) as [f1|] eqn:E1.
      { exfalso. unfold fget in E1. destruct (binds "hour_of_day_decimal" tt); [|discriminate].
        rewrite B in Sh. discriminate Sh. }
      destruct (fget "minute_of_hour_decimal" tt atm) as [f2|] eqn:E2;
        [|destruct (fget "second_of_minute_decimal" tt atm) as [f3|] eqn:E3].
      * rewrite pv_min_hm. f_equal. destruct (F2 f2 ltac:(in_keys) eq_refl) as (_ & A1 & A2).
        apply qtrunc_int_frac; assumption.
      * rewrite pv_min_hms. f_equal. apply qtrunc_qz.
      * rewrite pv_min_hms. f_equal. apply qtrunc_qz.
    + change (dname "second_of_minute") with "second_of_minute".
      rewrite <- (fval_bound _ _ _ B). unfold x_tod.
      destruct (fget "hour_of_day_decimal" tt atm) as [f1|] eqn:E1.
      { exfalso. unfold fget in E1. destruct (binds "hour_of_day_decimal" tt); [|discriminate].
        rewrite B, andb_false_r in Sh. discriminate Sh. }
      destruct (fget "minute_of_hour_decimal" tt atm) as [f2|] eqn:E2.
      { exfalso. unfold fget in E1, E2. destruct (binds "hour_of_day_decimal" tt); [discriminate|].
        destruct (binds "minute_of_hour_decimal" tt); [|discriminate].
        rewrite B, andb_false_r in Sh. discriminate Sh. }
      destruct (fget "second_of_minute_decimal" tt atm) as [f3|] eqn:E3.
      * rewrite pv_sec_hms. f_equal. destruct (F3 f3 ltac:(in_keys) eq_refl) as (_ & A1 & A2).
        apply qtrunc_int_frac; assumption.
      * rewrite pv_sec_hms. f_equal. apply qtrunc_qz.
  - intros nm H. pose proof (NO _ H) as N1. discriminate N1.
  - (* the fractions *)
    intros nm H. pose proof (NO _ H) as N1. cbv beta iota in N1.
    pose proof (In_binds _ _ nm H eq_refl) as B. pose proof (fget_bound _ _ atm B) as FB.
    mem_cases N1.
    + change (fld "hour_of_day_decimal" (canon_env atm)) with (canon (fld "hour_of_day_decimal" atm)).
      change ("hour_of_day_decimal" ++ "_string") with "hour_of_day_decimal_string".
      rewrite pv_hourdec. f_equal. unfold x_tod. rewrite FB. cbn [tod_hour].
      destruct (F1 _ ltac:(in_keys) FB) as (D & _). apply decimal_string_frac; auto.
    + change (fld "minute_of_hour_decimal" (canon_env atm)) with (canon (fld "minute_of_hour_decimal" atm)).
      change ("minute_of_hour_decimal" ++ "_string") with "minute_of_hour_decimal_string".
      unfold x_tod. rewrite FB.
      destruct (fget "hour_of_day_decimal" tt atm) as [f1|] eqn:E1.
      { exfalso. unfold fget in E1. destruct (binds "hour_of_day_decimal" tt); [|discriminate].
        rewrite B, !andb_false_r in Sh. cbn [andb] in Sh. rewrite ?andb_false_r in Sh. discriminate Sh. }
      rewrite pv_mindec_hm. f_equal.
      destruct (F2 _ ltac:(in_keys) FB) as (D & _). apply decimal_string_frac; auto.
    + change (fld "second_of_minute_decimal" (canon_env atm)) with (canon (fld "second_of_minute_decimal" atm)).
      change ("second_of_minute_decimal" ++ "_string") with "second_of_minute_decimal_string".
      unfold x_tod. rewrite FB.
      destruct (fget "hour_of_day_decimal" tt atm) as [f1|] eqn:E1.
      { exfalso. unfold fget in E1. destruct (binds "hour_of_day_decimal" tt); [|discriminate].
        rewrite B, !andb_false_r in Sh. discriminate Sh. }
      destruct (fget "minute_of_hour_decimal" tt atm) as [f2|] eqn:E2.
      { exfalso. unfold fget in E1, E2. destruct (binds "hour_of_day_decimal" tt); [discriminate|].
        destruct (binds "minute_of_hour_decimal" tt); [|discriminate].
        rewrite B, !andb_false_r in Sh. discriminate Sh. }
      rewrite pv_secdec_hms. f_equal.
      destruct (F3 _ ltac:(in_keys) FB) as (D & _). apply decimal_string_frac; auto.
Qed.

Theorem zone_agrees : forall md d t cfg fz az,
  zone_shape (f_parse fz) = true -> zone_names_ok (f_parse fz) = true -> wf_assign (f_parse fz) az = true ->
  (fget "time_zone_sign" (f_parse fz) az = Some "-" -> x_zone cfg (Some fz) az <> mkZone 0 0) ->
  agrees md (mkTp d t (x_zone cfg (Some fz) az)) (f_parse fz) az az.
Proof.
  intros md d t cfg fz az S NO W NZ. set (zt := f_parse fz) in *.
  unfold zone_shape in S. apply andb_true_iff in S. destruct S as [S _]. apply andb_true_iff in S. destruct S as [K _].
  unfold zone_names_ok in NO. rewrite forallb_forall in NO.
  pose proof (fval_nonneg ZONE_KEYS zt az "time_zone_hour" K W ltac:(in_keys)) as NH.
  pose proof (fval_nonneg ZONE_KEYS zt az "time_zone_minute" K W ltac:(in_keys)) as NM.
  cbn [x_zone] in *. fold zt in NZ |- *.
  split; [|split].
  - intros nm w H. pose proof (NO _ H) as N1. cbv beta iota in N1. apply andb_true_iff in N1. destruct N1 as [N1 U].
    apply andb_true_iff in N1. destruct N1 as [N1 _]. apply negb_true_iff in U. rewrite U.
    pose proof (In_binds _ _ nm H eq_refl) as B.
    mem_cases N1; (split; [|reflexivity]).
    + change (dname "time_zone_hour") with "time_zone_hour_abs". rewrite pv_zh. cbn [zh]. f_equal.
      rewrite <- (fval_bound _ _ _ B). apply abs_signed. exact NH.
    + change (dname "time_zone_minute") with "time_zone_minute_abs". rewrite pv_zm. cbn [zm]. f_equal.
      rewrite <- (fval_bound _ _ _ B). apply abs_signed. exact NM.
  - intros nm H. pose proof (NO _ H) as N1. cbv beta iota in N1. apply andb_true_iff in N1. destruct N1 as [N1 U].
    apply String.eqb_eq in N1. subst nm. apply negb_true_iff in U. rewrite U in *.
    pose proof (In_binds _ _ "time_zone_sign" H eq_refl) as B.
    rewrite pv_zsign. f_equal. unfold zone_sign. cbn [zh zm].
    pose proof (wf_In_sign zt az _ W H) as SG. apply is_sign_inv in SG.
    rewrite (fget_bound _ _ _ B) in *. unfold signed in *.
    set (Hh := fval "time_zone_hour" zt az) in *. set (Mm := fval "time_zone_minute" zt az) in *.
    destruct SG as [E|E]; rewrite E in *; cbn [String.eqb Ascii.eqb Bool.eqb] in *.
    + destruct ((Hh <? 0)%Z || (Mm <? 0)%Z) eqn:Q; [lia|reflexivity].
    + specialize (NZ eq_refl). destruct ((- Hh <? 0)%Z || (- Mm <? 0)%Z) eqn:Q; [reflexivity|].
      exfalso. apply NZ. f_equal; lia.
  - intros nm H. pose proof (NO _ H) as N1. discriminate N1.
Qed.

(* ------------------------------------------------------------------ *)
(* 4. the as-parsed format: its template, flags and bounds             *)
(* ------------------------------------------------------------------ *)
Lemma ptp_to_tp_of : forall q ned fmt, ptp_to_tp (ptp_of q ned fmt) = Some q.
Proof. intros [d t z] ned fmt. destruct d, t; reflexivity. Qed.

Definition zo_dump (zo : option form) : list dtok := match zo with Some fz => f_dump fz | None => [] end.
Definition zo_props (zo : option form) : list string := match zo with Some fz => f_props fz | None => [] end.
Definition zo_parse (zo : option form) : list ptok := match zo with Some fz => f_parse fz | None => [] end.
Definition zo_cz (zo : option form) : option (Z * Z) :=
  match zo with Some fz => if binds "time_zone_utc" (f_parse fz) then Some (0, 0)%Z else None | None => None end.
Definition opt_zz_eqb (a b : option (Z * Z)) : bool :=
  match a, b with
  | None, None => true
  | Some (x, y), Some (u, v) => (x =? u)%Z && (y =? v)%Z
  | _, _ => false end.
Lemma opt_zz_eqb_eq : forall a b, opt_zz_eqb a b = true -> a = b.
Proof.
  intros [[x y]|] [[u v]|] H; cbn in H; try discriminate; [|reflexivity].
  apply andb_true_iff in H. destruct H as [A B]. apply Z.eqb_eq in A. apply Z.eqb_eq in B. subst. reflexivity.
Qed.

(* everything the dump of the as-parsed format needs to know about a triple
   of forms; dned = the dumper's number of expanded year digits *)
Definition asp_ok (dned : Z) (fd ft : form) (zo : option form) : bool :=
  let fmt := f_expr fd ++ "T" ++ f_expr ft ++ zo_expr zo in
  let props := (f_props fd ++ f_props ft ++ zo_props zo)%list in
  let cal := mem "month_of_year" props || mem "day_of_month" props || mem "day_of_year" props in
  negb (contains_char "%" fmt) &&
  match expression_of (date_forms_of dned) TIME_FORMS ZONE_FORMS zone_of_text fmt with
  | inl (Some (tmpl, pr, cz)) =>
    dtoks_eqb tmpl (f_dump fd ++ [DLit "T"] ++ f_dump ft ++ zo_dump zo)%list && strs_eqb pr props &&
    opt_zz_eqb cz (zo_cz zo)
  | _ => false end &&
  Bool.eqb (mem "week_of_year" props || mem "day_of_week" props) (binds "week_of_year" (f_parse fd)) &&
  implb (binds "week_of_year" (f_parse fd)) (negb cal) &&
  mem "century" props && Bool.eqb (mem "expanded_year_digits" props) (binds "expanded_year" (f_parse fd)) &&
  corr (f_dump fd) (f_parse fd) && corr (f_dump ft) (f_parse ft) && corr (zo_dump zo) (zo_parse zo) &&
  date_names_ok (f_parse fd) && time_names_ok (f_parse ft) && zone_names_ok (zo_parse zo) &&
  forallb (fun t => match t with
                    | PDig nm w => negb (String.eqb nm "expanded_year") || (Z.of_nat w =? dned)%Z
                    | _ => true end) (f_parse fd).

Definition dump_ned (n : Z) (fd : form) : Z := if binds "expanded_year" (f_parse fd) then n else 0%Z.
Definition all_zos : list (option form) := None :: map Some ZONE_FORMS.
Theorem tables_asp :
  forallb (fun n =>
    forallb (fun fd => negb (String.eqb (f_type fd) "complete") || ((n =? 0)%Z && binds "expanded_year" (f_parse fd)) ||
      forallb (fun ft => negb (not_trunc ft) ||
        forallb (fun zo => asp_ok (dump_ned n fd) fd ft zo) all_zos) TIME_FORMS) (date_forms_of n)) [0; 2; 3]%Z = true.
Proof. vm_compute. reflexivity. Qed.
