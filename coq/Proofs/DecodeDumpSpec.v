(* Proofs/DecodeDumpSpec.v -- property C07, dump_as_parsed: the point parsed from
   date "T" time zone  with its own expression text as dump format is written
   back as the input text (a decimal fraction loses its trailing zeros).
   (1) decimal strings of n + 0.digits; (2) a dump template that corresponds
   token by token to a regex renders the regex's text when the point's
   properties are the assigned numbers; (3) the properties of the decoded
   point; (4) the template of the as-parsed format (reflection over the
   tables) and the dumper's conversions and bounds; (5) the theorem. *)
From Coq Require Import ZArith QArith Qround Lqa List Bool String Ascii Lia.
From Iso Require Import Proofs.Tac Spec.Cal Spec.Instant Model.Num Model.Helpers Model.Duration Model.TimePoint
  Model.Forms Model.Parse Model.Dump Spec.FormText Proofs.MatchSpec gen.Grammar Model.DriverText
  Proofs.HelpersSpec Proofs.ConvSpec Proofs.TickSpec Proofs.AddSpec Proofs.ZoneSpec Proofs.CmpSpec Proofs.ConstructSpec
  Proofs.RoundTripSpec Proofs.DecodeSpec.
Import ListNotations.
Close Scope Q_scope.
Close Scope Z_scope.
Local Open Scope string_scope.

(* ------------------------------------------------------------------ *)
(* 0. definitions used by Props/C07Ext.v                               *)
(* ------------------------------------------------------------------ *)
(* a fraction's digits as the dumper writes them: no trailing zeros, "0" for zero *)
Definition canon (f : string) : string :=
  let s := strip_zeros f in if String.eqb s "" then "0" else s.
(* the assignment with the three decimal fields in that form *)
Definition canon_env (a : env) : env :=
  ("hour_of_day_decimal", canon (fld "hour_of_day_decimal" a)) ::
  ("minute_of_hour_decimal", canon (fld "minute_of_hour_decimal" a)) ::
  ("second_of_minute_decimal", canon (fld "second_of_minute_decimal" a)) :: a.
(* at most six significant fraction digits (the dumper prints six) *)
Definition frac6 (f : string) : bool := Nat.leb (String.length (strip_zeros f)) 6.
Definition dec_fits (tt : list ptok) (atm : env) : bool :=
  forallb (fun k => match fget k tt atm with Some f => frac6 f | None => true end)
          ["hour_of_day_decimal"; "minute_of_hour_decimal"; "second_of_minute_decimal"].

(* ------------------------------------------------------------------ *)
(* 1. decimal strings                                                  *)
(* ------------------------------------------------------------------ *)
Lemma sgo_zeros : forall k, sgo (repeat "0"%char k) = [].
Proof. induction k; [reflexivity|]. cbn [repeat sgo]. rewrite IHk. reflexivity. Qed.
Lemma sgo_app_zeros : forall l k, sgo (l ++ repeat "0"%char k)%list = sgo l.
Proof.
  induction l as [|c r IH]; intros k; [apply sgo_zeros|].
  cbn [List.app sgo]. rewrite IH. reflexivity.
Qed.
Lemma laos_app : forall a b, list_ascii_of_string (a ++ b) = (list_ascii_of_string a ++ list_ascii_of_string b)%list.
Proof. induction a; simpl; intros; [reflexivity|]. rewrite IHa. reflexivity. Qed.
Lemma laos_zeros : forall k, list_ascii_of_string (zeros k) = repeat "0"%char k.
Proof. induction k; simpl; [reflexivity|]. rewrite IHk. reflexivity. Qed.
Lemma strip_zeros_app_zeros : forall s k, strip_zeros (s ++ zeros k) = strip_zeros s.
Proof. intros. rewrite !strip_zeros_sgo, laos_app, laos_zeros, sgo_app_zeros. reflexivity. Qed.

Local Open Scope Q_scope.
Lemma qtrunc_int_frac : forall n f, (0 <= n)%Z -> 0 <= f -> f < 1 -> qtrunc (qadd (qz n) f) = n.
Proof.
  intros n f N F0 F1. pose proof (qadd_eq (qz n) f) as E. unfold qz in *.
  assert (N0 : 0 <= inject_Z n) by (change 0 with (inject_Z 0); apply le_inj; exact N).
  rewrite qtrunc_nonneg by lra. apply floor_unique; [lra|]. rewrite inject_Z_plus. change (inject_Z 1) with 1. lra.
Qed.
Lemma qtrunc_qz : forall n, qtrunc (qz n) = n.
Proof.
  intros n. unfold qtrunc, qz. destruct (Qle_bool 0 (inject_Z n)); [apply Qfloor_Z|apply Qceiling_Z].
Qed.

(* the dumper's six-digit decimal string of n + m/10^6 *)
Lemma decimal_string_of : forall x (n m : Z), (0 <= n)%Z -> (0 <= m < 1000000)%Z ->
  x == inject_Z n + inject_Z m / 1000000 ->
  decimal_string x = (let s := strip_zeros (pad_num 6 m) in if String.eqb s "" then "0"%string else s).
Proof.
  intros x n m N M E. unfold decimal_string.
  assert (M0 : 0 <= inject_Z m) by (change 0 with (inject_Z 0); apply le_inj; lia).
  assert (M1 : inject_Z m <= 999999) by (change 999999 with (inject_Z 999999); apply le_inj; lia).
  assert (N0 : 0 <= inject_Z n) by (change 0 with (inject_Z 0); apply le_inj; exact N).
  assert (T : qtrunc x = n).
  { rewrite qtrunc_nonneg by lra. apply floor_unique; [lra|]. rewrite inject_Z_plus. change (inject_Z 1) with 1. lra. }
  rewrite T. set (fr := Qred (x - qz n)).
  assert (FR : fr == inject_Z m / 1000000) by (unfold fr, qz; rewrite Qred_correct; lra).
  assert (Q1 : qleb (9999995 # 10000000) fr = false).
  { destruct (qleb (9999995 # 10000000) fr) eqn:Q; [|reflexivity]. apply qleb_iff in Q. lra. }
  rewrite Q1.
  assert (FL : Qfloor (fr * qz 1000000 + (1 # 2)) = m).
  { apply floor_unique; unfold qz; change (inject_Z 1000000) with 1000000.
    - lra.
    - rewrite inject_Z_plus. change (inject_Z 1) with 1. lra. }
  rewrite FL. reflexivity.
Qed.

Lemma frac_of_six : forall f g k j, digits_plus f = true -> f = (g ++ zeros k)%string ->
  (String.length g + j = 6)%nat ->
  frac_of f == inject_Z (dnum g * 10 ^ Z.of_nat j) / 1000000.
Proof.
  intros f g k j D E LJ. pose proof (frac_of_scaled f 0 D) as S.
  assert (A : all_digits f = true) by (unfold digits_plus in D; apply andb_true_iff in D; tauto).
  rewrite E, all_digits_app in A. apply andb_true_iff in A. destruct A as [Ag _].
  rewrite Nat.add_0_r, Z.mul_1_r in S.
  assert (DN : dnum f = (dnum g * 10 ^ Z.of_nat k)%Z).
  { rewrite E, dnum_app by (try assumption; apply zeros_digits). rewrite zeros_length, dnum_zeros. lia. }
  assert (LN : String.length f = (String.length g + k)%nat) by (rewrite E, slen_app, zeros_length; reflexivity).
  rewrite DN, LN in S.
  set (P := (10 ^ Z.of_nat (String.length g + k))%Z) in *.
  assert (PP : (0 < P)%Z) by (unfold P; apply Z.pow_pos_nonneg; lia).
  assert (QP : 0 < inject_Z P) by (change 0 with (inject_Z 0); apply lt_inj; exact PP).
  assert (ID : (dnum g * 10 ^ Z.of_nat j * P = dnum g * 10 ^ Z.of_nat k * 1000000)%Z).
  { unfold P. change 1000000%Z with (10 ^ Z.of_nat 6)%Z. rewrite <- LJ.
    rewrite <- !Z.mul_assoc, <- !Z.pow_add_r by lia. do 2 f_equal. lia. }
  apply (f_equal inject_Z) in ID. rewrite !inject_Z_mult in ID. change (inject_Z 1000000) with 1000000 in ID.
  rewrite <- inject_Z_mult in ID.
  set (C := inject_Z (dnum g * 10 ^ Z.of_nat j)) in *. set (B := inject_Z (dnum g * 10 ^ Z.of_nat k)) in *.
  apply (Qmult_inj_r _ _ (inject_Z P)); [lra|]. rewrite S.
  unfold Qdiv. setoid_replace (C * / 1000000 * inject_Z P) with ((C * inject_Z P) * / 1000000) by ring.
  rewrite ID. field.
Qed.
Close Scope Q_scope.

Lemma strip_idem : forall f, strip_zeros (strip_zeros f) = strip_zeros f.
Proof.
  intros f. destruct (strip_zeros_spec f) as [k E].
  rewrite E at 2. rewrite strip_zeros_app_zeros. reflexivity.
Qed.

Theorem decimal_string_frac : forall n f, (0 <= n)%Z -> digits_plus f = true -> frac6 f = true ->
  decimal_string (qadd (qz n) (frac_of f)) = canon f.
Proof.
  intros n f N D F6. unfold frac6 in F6. apply Nat.leb_le in F6.
  destruct (strip_zeros_spec f) as [k E]. set (g := strip_zeros f) in *.
  set (j := (6 - String.length g)%nat).
  assert (LJ : (String.length g + j = 6)%nat) by (unfold j; lia).
  assert (A : all_digits f = true) by (unfold digits_plus in D; apply andb_true_iff in D; tauto).
  assert (Ag : all_digits g = true).
  { rewrite E, all_digits_app in A. apply andb_true_iff in A. tauto. }
  pose proof (dnum_lt g Ag) as R.
  set (m := (dnum g * 10 ^ Z.of_nat j)%Z).
  assert (M : (0 <= m < 1000000)%Z).
  { unfold m. change 1000000%Z with (10 ^ Z.of_nat 6)%Z. rewrite <- LJ, Nat2Z.inj_add, Z.pow_add_r by lia.
    assert (0 < 10 ^ Z.of_nat j)%Z by (apply Z.pow_pos_nonneg; lia). nia. }
  rewrite (decimal_string_of _ n m N M).
  2:{ rewrite qadd_eq. unfold qz. rewrite (frac_of_six f g k j D E LJ). reflexivity. }
  cbv zeta.
  assert (DS : digits_n 6 (g ++ zeros j) = true).
  { unfold digits_n. rewrite slen_app, zeros_length, LJ, all_digits_app, Ag, zeros_digits. reflexivity. }
  assert (PM : pad_num 6 m = g ++ zeros j).
  { rewrite <- (pad_dnum 6 _ DS) by lia. f_equal. unfold m.
    rewrite dnum_app by (try assumption; apply zeros_digits). rewrite zeros_length, dnum_zeros. lia. }
  rewrite PM, strip_zeros_app_zeros. unfold canon. fold g. unfold g at 1 3. rewrite strip_idem. reflexivity.
Qed.

(* ------------------------------------------------------------------ *)
(* 2. a dump template that corresponds to a regex, token by token      *)
(* ------------------------------------------------------------------ *)
(* the dump property that prints the group nm *)
Definition dname (nm : string) : string :=
  if String.eqb nm "expanded_year" then "expanded_year_digits"
  else if String.eqb nm "time_zone_hour" then "time_zone_hour_abs"
  else if String.eqb nm "time_zone_minute" then "time_zone_minute_abs" else nm.
Fixpoint corr (ds : list dtok) (ps : list ptok) : bool :=
  match ds, ps with
  | [], [] => true
  | DLit l :: ds', PLit l' :: ps' => String.eqb l l' && corr ds' ps'
  | DLit l :: ds', PGrp _ l' :: ps' => String.eqb l l' && corr ds' ps'
  | DNum nm w :: ds', PDig nm' w' :: ps' => String.eqb nm (dname nm') && Nat.eqb w w' && Nat.leb 1 w && corr ds' ps'
  | DStr nm :: ds', PSign nm' :: ps' => String.eqb nm nm' && corr ds' ps'
  | DStr nm :: ds', PDigs nm' :: ps' => String.eqb nm (nm' ++ "_string") && corr ds' ps'
  | _, _ => false
  end.

(* the properties of point q are what assignment a (numbers) and a' (texts
   of signs and fractions) say, for every group of ps *)
Definition agrees (md : mode) (q : tp) (ps : list ptok) (a a' : env) : Prop :=
  (forall nm w, In (PDig nm w) ps -> prop_value md q (dname nm) = VInt (dnum (fld nm a)) /\ fld nm a' = fld nm a) /\
  (forall nm, In (PSign nm) ps -> prop_value md q nm = VStr (fld nm a')) /\
  (forall nm, In (PDigs nm) ps -> prop_value md q (nm ++ "_string") = VStr (fld nm a')).

Lemma agrees_tail : forall md q t ps a a', agrees md q (t :: ps) a a' -> agrees md q ps a a'.
Proof.
  intros md q t ps a a' (A & B & C). repeat split; intros.
  - apply A with (w := w). right; assumption.
  - apply A with (w := w). right; assumption.
  - apply B. right; assumption.
  - apply C. right; assumption.
Qed.

Theorem render_corr : forall md q ds ps a a',
  corr ds ps = true -> wf_assign ps a = true -> agrees md q ps a a' ->
  render md q ds = Some (render_toks ps a').
Proof.
  intros md q. induction ds as [|d ds IH]; intros ps a a' C W G.
  - destruct ps; [reflexivity|discriminate].
  - destruct d as [l|nm w|nm]; destruct ps as [|t ps]; try discriminate C;
      destruct t as [l'|nm' w'|nm'|nm'|nm' l'|nm']; try discriminate C; cbn [corr] in C.
    + apply andb_true_iff in C. destruct C as [E C]. apply String.eqb_eq in E. subst l'.
      cbn [render render_toks]. cbn [wf_assign] in W. rewrite (IH ps a a' C W (agrees_tail _ _ _ _ _ _ G)). reflexivity.
    + apply andb_true_iff in C. destruct C as [E C]. apply String.eqb_eq in E. subst l'.
      cbn [render render_toks]. cbn [wf_assign] in W. rewrite (IH ps a a' C W (agrees_tail _ _ _ _ _ _ G)). reflexivity.
    + apply andb_true_iff in C. destruct C as [C C4]. apply andb_true_iff in C. destruct C as [C C3].
      apply andb_true_iff in C. destruct C as [C1 C2].
      apply String.eqb_eq in C1. apply Nat.eqb_eq in C2. apply Nat.leb_le in C3. subst nm w'.
      cbn [wf_assign] in W. apply andb_true_iff in W. destruct W as [W1 W2].
      cbn [render render_toks]. destruct G as (A & B & D).
      destruct (A nm' w ltac:(left; reflexivity)) as [PV FE]. rewrite PV.
      rewrite (IH ps a a' C4 W2 (agrees_tail _ _ _ _ _ _ (conj A (conj B D)))).
      rewrite pad_dnum by assumption. rewrite FE. reflexivity.
    + apply andb_true_iff in C. destruct C as [E C]. apply String.eqb_eq in E. subst nm'.
      cbn [wf_assign] in W. apply andb_true_iff in W. destruct W as [W1 W2].
      cbn [render render_toks]. destruct G as (A & B & D).
      rewrite (B nm ltac:(left; reflexivity)).
      rewrite (IH ps a a' C W2 (agrees_tail _ _ _ _ _ _ (conj A (conj B D)))). reflexivity.
    + apply andb_true_iff in C. destruct C as [E C]. apply String.eqb_eq in E. subst nm.
      cbn [wf_assign] in W. apply andb_true_iff in W. destruct W as [W1 W2].
      cbn [render render_toks]. destruct G as (A & B & D).
      rewrite (D nm' ltac:(left; reflexivity)).
      rewrite (IH ps a a' C W2 (agrees_tail _ _ _ _ _ _ (conj A (conj B D)))). reflexivity.
Qed.

(* In a token list, a named digit group is bound *)
Lemma In_binds : forall t ts nm, In t ts -> tok_name t = Some nm -> binds nm ts = true.
Proof.
  intros t ts nm I T. unfold binds. apply existsb_exists. exists t. split; [exact I|].
  rewrite T. apply String.eqb_refl.
Qed.
Lemma fget_bound : forall k ts a, binds k ts = true -> fget k ts a = Some (fld k a).
Proof. intros. unfold fget. rewrite H. reflexivity. Qed.
Lemma fval_bound : forall k ts a, binds k ts = true -> fval k ts a = dnum (fld k a).
Proof. intros. unfold fval, fnum. rewrite fget_bound by assumption. reflexivity. Qed.
Lemma fval1_bound : forall k ts a, binds k ts = true -> fval1 k ts a = dnum (fld k a).
Proof. intros. unfold fval1, fnum. rewrite fget_bound by assumption. reflexivity. Qed.
Lemma fval_unbound : forall k ts a, binds k ts = false -> fval k ts a = 0%Z.
Proof. intros. unfold fval, fnum, fget. rewrite H. reflexivity. Qed.

(* widths and names of the groups of full date / time / zone forms *)
Definition date_names_ok (ts : list ptok) : bool :=
  forallb (fun t => match t with
    | PDig nm w => (mem nm ["century"; "year_of_century"] && Nat.eqb w 2) ||
                   (mem nm ["expanded_year"; "month_of_year"; "day_of_month"; "day_of_year"; "week_of_year"; "day_of_week"] && Nat.leb 1 w)
    | PSign nm => String.eqb nm "year_sign"
    | PDigs _ => false | PUnix _ => false | _ => true end) ts &&
  Bool.eqb (binds "year_sign" ts) (binds "expanded_year" ts) && binds "year_of_century" ts.
Definition time_names_ok (ts : list ptok) : bool :=
  forallb (fun t => match t with
    | PDig nm w => mem nm ["hour_of_day"; "minute_of_hour"; "second_of_minute"] && Nat.leb 1 w
    | PDigs nm => mem nm ["hour_of_day_decimal"; "minute_of_hour_decimal"; "second_of_minute_decimal"]
    | PSign _ => false | PUnix _ => false | _ => true end) ts.
Definition zone_names_ok (ts : list ptok) : bool :=
  forallb (fun t => match t with
    | PDig nm w => mem nm ["time_zone_hour"; "time_zone_minute"] && Nat.leb 1 w
    | PSign nm => String.eqb nm "time_zone_sign"
    | PDigs _ => false | PUnix _ => false | _ => true end) ts.
