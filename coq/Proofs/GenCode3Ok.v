(* Proofs/GenCode3Ok.v -- the method bodies of class Duration that the
   translator read from data.py on this run (gen/GenCode3.v) compute, on every
   object state `rep x` (x : dur), the hand-written model functions of
   Model/Duration.v, and never raise there.

   Abstraction: `rep : dur -> pyDuration` is the state Duration.__init__ leaves
   behind (week form: only _weeks set; unit form: _weeks None, the six others
   set); `abs3 : pyDuration -> option dur` is its partial inverse.  Rational
   results are compared with Qeq (the model reduces fractions with Qred, the
   code does not); integer and boolean results with Leibniz equality.
   The CALENDAR attributes assigned by Calendar.set_mode are instantiated with
   set_mode's own right-hand sides (gen/CalTables.v, the sm_ definitions) evaluated on the
   month tables of the mode.

   The proofs are semantic: unfold, case on week/unit form, then lia / lra /
   ring on what is left; they do not depend on local names, statement order or
   the spelling of the arithmetic. *)
From Coq Require Import QArith Qround Qabs Lqa Lia String.
From Iso Require Import Proofs.Tac Spec.Cal Model.Num Model.Helpers Model.Duration
  gen.CalTables gen.GenCode3 Proofs.TablesOk Proofs.DurSpec.
Open Scope Z_scope.

Lemma gen_code3_accepted : translator_ok_code3 = true.
Proof. reflexivity. Qed.

(* ---------- object state <-> model value ---------- *)
Definition rep (x : dur) : pyDuration :=
  match x with
  | DW w => mkDuration None None (Some w) None None None None
  | DU y mo d h mi s => mkDuration (Some y) (Some mo) None (Some d) (Some h) (Some mi) (Some s)
  end.

Definition abs3 (o : pyDuration) : option dur :=
  match s_years o, s_months o, s_weeks o, s_days o, s_hours o, s_minutes o, s_seconds o with
  | None, None, Some w, None, None, None, None => Some (DW w)
  | Some y, Some mo, None, Some d, Some h, Some mi, Some s => Some (DU y mo d h mi s)
  | _, _, _, _, _, _, _ => None
  end.

Lemma abs3_rep x : abs3 (rep x) = Some x.
Proof. destruct x; reflexivity. Qed.

Lemma rep_abs3 o x : abs3 o = Some x -> o = rep x.
Proof.
  destruct o as [[y|] [mo|] [w|] [d|] [h|] [mi|] [s|]]; cbn; intros H;
    try discriminate; injection H as <-; reflexivity.
Qed.

(* the same duration up to the representation of the three rationals *)
Definition dur_equiv (a b : dur) : Prop :=
  match a, b with
  | DW w, DW w' => w = w'
  | DU y mo d h mi s, DU y' mo' d' h' mi' s' =>
    y = y' /\ mo = mo' /\ d = d' /\ (h == h')%Q /\ (mi == mi')%Q /\ (s == s')%Q
  | _, _ => False
  end.

(* `m` returns normally with a value satisfying R *)
Definition returns {A : Type} (m : exc A) (R : A -> Prop) : Prop :=
  match m with Ok a => R a | Raise _ => False end.
(* ... with an object that represents the model value x (up to Qeq) *)
Definition returns_dur (m : exc pyDuration) (x : dur) : Prop :=
  returns m (fun o => match abs3 o with Some r => dur_equiv r x | None => False end).

(* ---------- the calendar attributes ---------- *)
Definition cSIH (md : mode) : Z := sm_SECONDS_IN_HOUR (DAYS_IN_MONTHS md) (DAYS_IN_MONTHS_LEAP md).
Definition cSID (md : mode) : Z := sm_SECONDS_IN_DAY (DAYS_IN_MONTHS md) (DAYS_IN_MONTHS_LEAP md).
Definition cRDY (md : mode) : Z := sm_ROUGH_DAYS_IN_YEAR (DAYS_IN_MONTHS md) (DAYS_IN_MONTHS_LEAP md).

Lemma cal_values md : cSIH md = 3600 /\ cSID md = 86400 /\ cRDY md = DAYS_IN_YEAR md.
Proof.
  destruct (set_mode_derived_ok md) as (_ & _ & H3 & _ & _ & _ & H7 & H8).
  unfold cSIH, cSID, cRDY. auto.
Qed.

(* replace the calendar attributes and class constants by the model's numbers *)
Ltac class_consts :=
  let K1 := fresh in let K2 := fresh in let K3 := fresh in
  let K4 := fresh in let K5 := fresh in let K6 := fresh in
  destruct unit_constants_ok as (K1 & K2 & K3 & K4 & K5 & K6);
  rewrite ?K1, ?K2, ?K3, ?K4, ?K5, ?K6; clear K1 K2 K3 K4 K5 K6.
Ltac cal_consts md :=
  let H1 := fresh in let H2 := fresh in let H3 := fresh in
  destruct (cal_values md) as (H1 & H2 & H3); rewrite ?H1, ?H2, ?H3; clear H1 H2 H3;
  class_consts.

(* ---------- tactics ---------- *)
(* the zero tests of the division helpers on literal divisors *)
Ltac div_checks :=
  cbv beta iota delta [py_divmod_Q py_floordiv_Q py_mod_Q py_truediv py_divmod_Z py_floordiv_Z py_mod_Z];
  repeat match goal with
  | |- context [Qeq_bool (inject_Z (Zpos ?p)) 0] => change (Qeq_bool (inject_Z (Zpos p)) 0) with false
  | |- context [Zpos ?p =? 0] => change (Zpos p =? 0) with false
  end;
  cbv beta iota.

(* run the generated code on constructor-headed states *)
Ltac run := cbv beta iota delta [rep]; code3_unfold; class_consts; div_checks; code3_unfold.

(* booleans over Z and Q to propositions *)
Ltac bool_hyps :=
  repeat match goal with
  | H : Qeq_bool _ _ = true |- _ => apply Qeq_bool_iff in H
  | H : Qeq_bool _ _ = false |- _ => apply Qeq_bool_neq in H
  | H : Qle_bool _ _ = true |- _ => apply Qle_bool_iff in H
  | H : Qle_bool ?a ?b = false |- _ =>
    assert (~ (a <= b)%Q) by (rewrite <- Qle_bool_iff; congruence); clear H
  end.
Ltac bool_cases :=
  repeat match goal with
  | |- context [Qeq_bool ?a ?b] => destruct (Qeq_bool a b) eqn:?
  | |- context [Qle_bool ?a ?b] => destruct (Qle_bool a b) eqn:?
  | |- context [?a =? ?b] => destruct (a =? b) eqn:?
  | |- context [?a <? ?b] => destruct (a <? b) eqn:?
  | |- context [?a <=? ?b] => destruct (a <=? b) eqn:?
  end.
(* decide an equation between boolean expressions over Z and Q comparisons *)
Ltac bool_solve :=
  unfold qeqb, qltb, qleb, Qlt_bool in *; bool_cases; cbn [negb andb orb];
  try reflexivity; exfalso; bool_hyps; qnorm; first [lia | lra].

(* ---------- priority 1: the observers ---------- *)
Lemma gen3_get_is_in_weeks x : py_Duration_get_is_in_weeks (rep x) = Ok (get_is_in_weeks x).
Proof. destruct x; reflexivity. Qed.

Lemma gen3_is_exact x : py_Duration_is_exact (rep x) = Ok (is_exact x).
Proof.
  destruct x as [w|y mo d h mi s]; run; [reflexivity|].
  cbn [is_exact]. destruct (y =? 0), (mo =? 0); reflexivity.
Qed.

Lemma gen3_non_nominal_seconds md x : exists q,
  py_Duration__get_non_nominal_seconds (cSIH md) (cSID md) (rep x) = Ok q /\
  (q == non_nominal_seconds x)%Q.
Proof.
  cal_consts md. destruct x as [w|y mo d h mi s]; run; eexists; (split; [reflexivity|]);
    cbn [non_nominal_seconds]; qnorm; ring.
Qed.

(* equal rationals (up to Qeq) under Qfloor: make the occurrences syntactically equal *)
Ltac hide_floors :=
  repeat match goal with |- context [Qfloor ?a] => let f := fresh "fl" in generalize (Qfloor a); intros f end.
Ltac q_eq := hide_floors; qnorm; first [reflexivity | ring | field | lra].
Ltac floor_unify :=
  repeat match goal with
  | |- context [Qfloor ?a] =>
    match goal with
    | |- context [Qfloor ?b] =>
      lazymatch a with b => fail | _ => idtac end;
      let E := fresh "EF" in
      assert (E : Qfloor a = Qfloor b) by (apply Qfloor_comp; qnorm; first [reflexivity | ring | field | lra]);
      rewrite E; clear E
    end
  end.

Lemma gen3_get_days_and_seconds md x : exists d s,
  py_Duration_get_days_and_seconds (cSIH md) (cSID md) (cRDY md) (rep x) = Ok (d, s) /\
  d = fst (days_and_seconds md x) /\ (s == snd (days_and_seconds md x))%Q.
Proof.
  cal_consts md. destruct x as [w|y mo d h mi s]; run; do 2 eexists; (split; [reflexivity|]);
    cbn [days_and_seconds]; unfold qdivmod; cbn [fst snd]; floor_unify.
  all: (split; [reflexivity || lia | q_eq]).
Qed.

Lemma gen3_get_seconds md x : exists q,
  py_Duration_get_seconds (cSIH md) (cSID md) (cRDY md) (rep x) = Ok q /\
  (q == get_seconds md x)%Q.
Proof.
  unfold py_Duration_get_seconds, get_seconds. rewrite gen3_is_exact. cbv beta iota delta [ebind].
  destruct (is_exact x).
  - destruct (gen3_non_nominal_seconds md x) as (q & -> & Hq). exists q. split; [reflexivity|exact Hq].
  - destruct (gen3_get_days_and_seconds md x) as (d & s & -> & Hd & Hs).
    destruct (days_and_seconds md x) as [D S]. cbn [fst snd] in Hd, Hs. subst d.
    cal_consts md. eexists. split; [reflexivity|]. rewrite Hs. q_eq.
Qed.

(* ---------- priority 2: equality, hash key, orderings ---------- *)
Lemma gen3_eq md a b :
  py_Duration___eq__ (cSIH md) (cSID md) (rep a) (rep b) = Ok (dur_eqb a b).
Proof.
  unfold py_Duration___eq__, dur_eqb. rewrite !gen3_is_exact.
  destruct (gen3_non_nominal_seconds md a) as (qa & -> & Ha).
  destruct (gen3_non_nominal_seconds md b) as (qb & -> & Hb).
  cbv beta iota delta [ebind].
  assert (E : Qeq_bool qa qb = qeqb (non_nominal_seconds a) (non_nominal_seconds b)).
  { unfold qeqb. apply Bool.eq_true_iff_eq. rewrite !Qeq_bool_iff, Ha, Hb. reflexivity. }
  rewrite E. generalize (qeqb (non_nominal_seconds a) (non_nominal_seconds b)); intros e.
  destruct a as [w1|y1 m1 d1 h1 i1 s1], b as [w2|y2 m2 d2 h2 i2 s2];
    cbn [is_exact rep to_days get_is_in_weeks negb andb]; code3_unfold;
    repeat match goal with |- context [?a =? ?b] => destruct (a =? b) eqn:? end;
    cbn [negb andb]; try reflexivity; destruct e; reflexivity.
Qed.

(* __hash__ hashes this tuple (the integer hash itself is CPython's) *)
Lemma gen3_hash_key md x : exists y m q,
  py_Duration___hash__ (cSIH md) (cSID md) (rep x) = Ok (y, m, q) /\
  y = Some (fst (fst (dur_hash_key x))) /\ m = Some (snd (fst (dur_hash_key x))) /\
  (q == snd (dur_hash_key x))%Q.
Proof.
  unfold py_Duration___hash__. rewrite gen3_get_is_in_weeks.
  destruct (gen3_non_nominal_seconds md x) as (q & -> & Hq). cbv beta iota delta [ebind].
  destruct x; cbn [get_is_in_weeks dur_hash_key fst snd rep]; code3_unfold;
    do 3 eexists; (split; [reflexivity|]); auto.
Qed.

(* the four orderings compare get_days_and_seconds() tuples as CPython compares tuples *)
Ltac order_proof md a b :=
  destruct (gen3_get_days_and_seconds md a) as (d1 & s1 & -> & Hd1 & Hs1);
  destruct (gen3_get_days_and_seconds md b) as (d2 & s2 & -> & Hd2 & Hs2);
  cbv beta iota delta [ebind]; f_equal;
  unfold dur_gtb, dur_geb, dur_ltb, dur_leb, ds_leb, ds_ltb;
  destruct (days_and_seconds md a) as [D1 S1], (days_and_seconds md b) as [D2 S2];
  cbn [fst snd] in *; subst d1 d2; bool_solve.

Lemma gen3_lt md a b :
  py_Duration___lt__ (cSIH md) (cSID md) (cRDY md) (rep a) (rep b) = Ok (dur_ltb md a b).
Proof. unfold py_Duration___lt__. order_proof md a b. Qed.

Lemma gen3_le md a b :
  py_Duration___le__ (cSIH md) (cSID md) (cRDY md) (rep a) (rep b) = Ok (dur_leb md a b).
Proof. unfold py_Duration___le__. order_proof md a b. Qed.

Lemma gen3_gt md a b :
  py_Duration___gt__ (cSIH md) (cSID md) (cRDY md) (rep a) (rep b) = Ok (dur_gtb md a b).
Proof. unfold py_Duration___gt__. order_proof md a b. Qed.

Lemma gen3_ge md a b :
  py_Duration___ge__ (cSIH md) (cSID md) (cRDY md) (rep a) (rep b) = Ok (dur_geb md a b).
Proof. unfold py_Duration___ge__. order_proof md a b. Qed.

(* ---------- priority 3: copy-then-update methods ---------- *)
(* _copy is the identity on the record *)
Lemma gen3_copy o : py_Duration__copy o = Ok o.
Proof. destruct o; reflexivity. Qed.

Lemma gen3_to_days x : py_Duration_to_days (rep x) = Ok (rep (to_days x)).
Proof. destruct x; run; reflexivity. Qed.

Ltac dur_result := cbv beta iota delta [returns_dur returns abs3 s_years s_months s_weeks s_days s_hours s_minutes s_seconds dur_equiv].
(* data-dependent branches of the code (e.g. an update skipped for a zero component) *)
Ltac code_cases :=
  repeat match goal with
  | |- context [if negb (?a =? 0) then _ else _] => destruct (a =? 0) eqn:?; cbn [negb]
  | |- context [if negb (Qeq_bool ?a 0) then _ else _] => destruct (Qeq_bool a 0) eqn:?; cbn [negb]
  | |- context [if (?a =? 0) then _ else _] => destruct (a =? 0) eqn:?
  | |- context [if (Qeq_bool ?a 0) then _ else _] => destruct (Qeq_bool a 0) eqn:?
  end; code3_unfold.
Ltac use_zero_hyps :=
  bool_hyps;
  repeat match goal with H : (?x == 0)%Q |- _ => is_var x; rewrite ?H; clear H end.
(* the components of the returned object against the model's *)
Ltac fields := dur_result; repeat split; try first [lia | nia]; use_zero_hyps; q_eq.

Lemma gen3_mul x n : returns_dur (py_Duration___mul__ (rep x) n) (dur_mul x n).
Proof.
  destruct x; run; code_cases; cbn [dur_mul]; fields.
Qed.

Lemma gen3_rmul x n : returns_dur (py_Duration___rmul__ (rep x) n) (dur_mul x n).
Proof.
  destruct x; run; code_cases; cbn [dur_mul]; fields.
Qed.

Lemma gen3_add a b : returns_dur (py_Duration___add__ (rep a) (rep b)) (dur_add a b).
Proof.
  destruct a, b; run; code_cases; cbn [dur_add to_days]; fields.
Qed.

Lemma gen3_sub a b : returns_dur (py_Duration___sub__ (rep a) (rep b)) (dur_sub a b).
Proof.
  destruct a, b; run; code_cases; cbn [dur_sub dur_add dur_mul to_days]; fields.
Qed.

Lemma gen3_abs x : returns_dur (py_Duration___abs__ (rep x)) (dur_abs x).
Proof.
  destruct x; run; cbn [dur_abs]; dur_result; repeat split; rewrite ?Qred_correct; reflexivity.
Qed.

Lemma gen3_floordiv x n : n <> 0 ->
  returns_dur (py_Duration___floordiv__ (rep x) n) (dur_floordiv x n).
Proof.
  intros Hn.
  assert (E1 : (n =? 0) = false) by lia.
  assert (E2 : Qeq_bool (inject_Z n) 0 = false).
  { destruct (Qeq_bool (inject_Z n) 0) eqn:E; [|reflexivity]. apply Qeq_bool_iff in E.
    exfalso. apply Hn. change 0%Q with (inject_Z 0) in E. rewrite inject_Z_injective in E. exact E. }
  destruct x; cbv beta iota delta [rep]; code3_unfold;
    cbv beta iota delta [py_floordiv_Z py_floordiv_Q]; rewrite ?E1, ?E2; code3_unfold;
    cbn [dur_floordiv]; dur_result; unfold qfloordiv, qz; repeat split; reflexivity.
Qed.

Lemma gen3_floordiv_zero x :
  exists e, py_Duration___floordiv__ (rep x) 0 = Raise e /\ e = ZeroDivisionError.
Proof. destruct x; eexists; (split; [reflexivity|reflexivity]). Qed.

Lemma gen3_bool x : py_Duration___bool__ (rep x) = Ok (dur_bool x).
Proof.
  destruct x; run; cbn [dur_bool]; unfold qeqb;
    repeat match goal with
    | |- context [?a =? 0] => destruct (a =? 0)
    | |- context [Qeq_bool ?a 0] => destruct (Qeq_bool a 0)
    end; reflexivity.
Qed.

(* Duration(years=, months=, weeks=, days=, hours=, minutes=, seconds=), standardize off *)
Lemma gen3_init y mo w d h mi s :
  py_Duration___init___days_hours_minutes_months_seconds_weeks_years d h mi mo s w y =
  Ok (rep (dur_make y mo w d h mi s)).
Proof.
  run. unfold dur_make, qeqb.
  destruct (w =? 0) eqn:?, (y =? 0) eqn:?, (mo =? 0) eqn:?, (d =? 0) eqn:?,
    (Qeq_bool h 0), (Qeq_bool mi 0), (Qeq_bool s 0); cbn [negb andb rep]; try reflexivity.
  do 3 f_equal. lia.
Qed.

(* to_weeks: unit form -> Duration(weeks=days // 7), week form -> self *)
Lemma gen3_to_weeks x :
  py_Duration_to_weeks (rep x) =
  Ok (rep (match x with DW _ => x | DU _ _ d _ _ _ => dur_make 0 0 (d / 7) 0 0 0 0 end)).
Proof.
  destruct x as [w|y mo d h mi s]; run; [reflexivity|].
  unfold dur_make, qeqb.
  change (Qeq_bool (Qmake 0 1) 0) with true. change (Qeq_bool 0 0) with true. change (0 =? 0) with true.
  destruct (d / 7 =? 0) eqn:?; cbn [negb andb rep]; try reflexivity; do 3 f_equal; lia.
Qed.

(* ---------- two C11 laws stated of the translated code itself ---------- *)
Lemma dur_equiv_obs r x : dur_equiv r x ->
  is_exact r = is_exact x /\ dur_years r = dur_years x /\ dur_months r = dur_months x /\
  (dur_len r == dur_len x)%Q.
Proof.
  destruct r, x; cbn [dur_equiv]; try contradiction.
  - intros ->. repeat split; reflexivity.
  - intros (-> & -> & -> & Hh & Hm & Hs). repeat split; try reflexivity.
    rewrite !dur_len_DU', Hh, Hm, Hs. reflexivity.
Qed.

Lemma dur_eqb_equiv r x r' x' : dur_equiv r x -> dur_equiv r' x' -> dur_eqb r r' = dur_eqb x x'.
Proof.
  intros H H'. apply dur_equiv_obs in H, H'.
  destruct H as (E & Y & M & L), H' as (E' & Y' & M' & L').
  apply Bool.eq_true_iff_eq. rewrite !dur_eqb_general, E, E', Y, Y', M, M', L, L'. reflexivity.
Qed.

Lemma returns_dur_rep m x : returns_dur m x -> exists r, m = Ok (rep r) /\ dur_equiv r x.
Proof.
  unfold returns_dur, returns. destruct m as [o|e]; [|contradiction].
  destruct (abs3 o) as [r|] eqn:E; [|contradiction].
  intros H. exists r. split; [|exact H]. f_equal. apply rep_abs3. exact E.
Qed.

(* self == other  ->  the two __hash__ keys agree *)
Lemma gen3_eq_hash md a b :
  py_Duration___eq__ (cSIH md) (cSID md) (rep a) (rep b) = Ok true ->
  exists y m q1 q2,
    py_Duration___hash__ (cSIH md) (cSID md) (rep a) = Ok (y, m, q1) /\
    py_Duration___hash__ (cSIH md) (cSID md) (rep b) = Ok (y, m, q2) /\ (q1 == q2)%Q.
Proof.
  rewrite gen3_eq. intros H. injection H as H. apply dur_eqb_hash in H.
  destruct (gen3_hash_key md a) as (y1 & m1 & q1 & E1 & Y1 & M1 & Q1).
  destruct (gen3_hash_key md b) as (y2 & m2 & q2 & E2 & Y2 & M2 & Q2).
  destruct (dur_hash_key a) as [[ya ma] sa], (dur_hash_key b) as [[yb mb] sb].
  cbn [fst snd] in *. destruct H as (-> & -> & Hs).
  subst y1 m1 y2 m2. do 4 eexists. split; [exact E1|]. split; [exact E2|].
  rewrite Q1, Q2. exact Hs.
Qed.

(* (a + b) == (b + a), computed by the translated __add__ and __eq__ *)
Lemma gen3_add_comm md a b : exists o1 o2,
  py_Duration___add__ (rep a) (rep b) = Ok o1 /\ py_Duration___add__ (rep b) (rep a) = Ok o2 /\
  py_Duration___eq__ (cSIH md) (cSID md) o1 o2 = Ok true.
Proof.
  destruct (returns_dur_rep _ _ (gen3_add a b)) as (r1 & E1 & H1).
  destruct (returns_dur_rep _ _ (gen3_add b a)) as (r2 & E2 & H2).
  exists (rep r1), (rep r2). repeat split; try assumption.
  rewrite gen3_eq, (dur_eqb_equiv _ _ _ _ H1 H2), dur_add_comm. reflexivity.
Qed.

(* a - a is falsy, computed by the translated __sub__ (= __add__ of __rmul__ by -1) and __bool__ *)
Lemma gen3_sub_self a : exists o,
  py_Duration___sub__ (rep a) (rep a) = Ok o /\ py_Duration___bool__ o = Ok false.
Proof.
  destruct (returns_dur_rep _ _ (gen3_sub a a)) as (r & E & H).
  exists (rep r). split; [exact E|]. rewrite gen3_bool. f_equal.
  pose proof (dur_add_inverse a) as Hz. change (dur_add a (dur_mul a (-1))) with (dur_sub a a) in Hz.
  destruct r, (dur_sub a a); cbn [dur_equiv] in H; try contradiction; cbn [dur_bool] in *.
  - subst. exact Hz.
  - destruct H as (-> & -> & -> & Hh & Hm & Hs). unfold qeqb in *.
    destruct (y0 =? 0), (mo0 =? 0), (d0 =? 0); cbn [andb negb] in *; try exact Hz.
    assert (F : forall p q, (p == q)%Q -> Qeq_bool p 0 = Qeq_bool q 0).
    { intros p q Hpq. apply Bool.eq_true_iff_eq. rewrite !Qeq_bool_iff, Hpq. reflexivity. }
    rewrite (F _ _ Hh), (F _ _ Hm), (F _ _ Hs). exact Hz.
Qed.
