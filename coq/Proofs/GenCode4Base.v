(* Proofs/GenCode4Base.v -- common ground for the proofs about gen/GenCode4.v
   (the method bodies of class TimePoint translated from data.py):
   the calendar record of a mode, the abstraction rep / abs4 between the model's
   `tp` and the object state pyTimePoint, equality of time points up to the
   representation of rationals, and the generic lemmas about the loop
   combinators for_flow / while_flow (fuel). *)
From Coq Require Import QArith Qround Qabs Lqa Lia String.
From Iso Require Import Proofs.Tac Spec.Cal Model.Num Model.Helpers Model.Duration Model.TimePoint
  gen.CalTables gen.GenCode gen.GenCode2 gen.GenCode4
  Proofs.TablesOk Proofs.GenCodeOk Proofs.GenCode2Ok Proofs.DurSpec Proofs.TickSpec.
Open Scope Z_scope.

Lemma gen_code4_accepted : translator_ok_code4 = true.
Proof. reflexivity. Qed.

(* ---------- the CALENDAR attributes of a mode, as Calendar.set_mode computes them ---------- *)
Definition cal_of (md : mode) : pyCalendar :=
  let dim := DAYS_IN_MONTHS md in let diml := DAYS_IN_MONTHS_LEAP md in
  mkCalendar (sm_DAYS_IN_YEAR dim diml) (sm_DAYS_IN_YEAR_LEAP dim diml) dim diml
    (idx_months md) (idx_months_leap md) (sm_MONTHS_IN_YEAR dim diml)
    (sm_SECONDS_IN_HOUR dim diml) (sm_SECONDS_IN_DAY dim diml) (sm_ROUGH_DAYS_IN_YEAR dim diml).

Lemma cal_of_values md :
  c_DAYS_IN_YEAR (cal_of md) = DAYS_IN_YEAR md /\
  c_DAYS_IN_YEAR_LEAP (cal_of md) = DAYS_IN_YEAR_LEAP md /\
  c_DAYS_IN_MONTHS (cal_of md) = DAYS_IN_MONTHS md /\
  c_DAYS_IN_MONTHS_LEAP (cal_of md) = DAYS_IN_MONTHS_LEAP md /\
  c_INDEXED_DAYS_IN_MONTHS (cal_of md) = idx_months md /\
  c_INDEXED_DAYS_IN_MONTHS_LEAP (cal_of md) = idx_months_leap md /\
  c_MONTHS_IN_YEAR (cal_of md) = 12 /\
  c_SECONDS_IN_HOUR (cal_of md) = 3600 /\
  c_SECONDS_IN_DAY (cal_of md) = 86400 /\
  c_ROUGH_DAYS_IN_YEAR (cal_of md) = DAYS_IN_YEAR md.
Proof.
  destruct (set_mode_derived_ok md) as (H1 & H2 & H3 & _ & _ & H6 & H7 & H8).
  unfold cal_of. cbn [c_DAYS_IN_YEAR c_DAYS_IN_YEAR_LEAP c_DAYS_IN_MONTHS c_DAYS_IN_MONTHS_LEAP
    c_INDEXED_DAYS_IN_MONTHS c_INDEXED_DAYS_IN_MONTHS_LEAP c_MONTHS_IN_YEAR c_SECONDS_IN_HOUR
    c_SECONDS_IN_DAY c_ROUGH_DAYS_IN_YEAR].
  repeat split; assumption.
Qed.

(* rewrite every c_X (cal_of md) to the model's value *)
Ltac cal4 md :=
  let H := fresh in
  pose proof (cal_of_values md) as H;
  destruct H as (?C1 & ?C2 & ?C3 & ?C4 & ?C5 & ?C6 & ?C7 & ?C8 & ?C9 & ?C10);
  rewrite ?C1, ?C2, ?C3, ?C4, ?C5, ?C6, ?C7, ?C8, ?C9, ?C10.

(* ---------- object state <-> model value ---------- *)
(* the slots that do not take part in arithmetic, carried unchanged *)
Record flags : Type := mkFlags {
  f_digits : Z; f_tprop : option string; f_tdump : option string; f_dump : option string }.

Definition rep_zone (z : zone) : pyTimeZone := mkTimeZone (zh z) (zm z) false.

(* the state TimePoint.__init__ leaves behind for a non-truncated point: the date
   slots of the other two representations None, the lower time slots of the
   HM / H forms None, _truncated False, a known time zone *)
Definition rep (fl : flags) (p : tp) : pyTimePoint :=
  let z := rep_zone (tzone p) in
  let mk y mo doy dom dow woy :=
    match ttod p with
    | HMS h m s => mkTimePoint (f_digits fl) (Some y) mo doy dom dow woy (Some h) (Some m) (Some s)
                     false (f_tprop fl) (f_tdump fl) (f_dump fl) z
    | HM h m => mkTimePoint (f_digits fl) (Some y) mo doy dom dow woy (Some h) (Some m) None
                     false (f_tprop fl) (f_tdump fl) (f_dump fl) z
    | HH h => mkTimePoint (f_digits fl) (Some y) mo doy dom dow woy (Some h) None None
                     false (f_tprop fl) (f_tdump fl) (f_dump fl) z
    end in
  match tdate p with
  | Cal y m d => mk y (Some m) None (Some d) None None
  | Ord y doy => mk y None (Some doy) None None None
  | Wk y w d => mk y None None None (Some d) (Some w)
  end.

Definition flags_of (o : pyTimePoint) : flags :=
  mkFlags (s_num_expanded_year_digits o) (s_truncated_property o) (s_truncated_dump_format o) (s_dump_format o).

Definition abs4 (o : pyTimePoint) : option tp :=
  if s_truncated o || z_unknown (s_time_zone o) then None else
  match s_year o with
  | None => None
  | Some y =>
    let d :=
      match s_month_of_year o, s_day_of_year o, s_day_of_month o, s_day_of_week o, s_week_of_year o with
      | Some m, None, Some d, None, None => Some (Cal y m d)
      | None, Some doy, None, None, None => Some (Ord y doy)
      | None, None, None, Some d, Some w => Some (Wk y w d)
      | _, _, _, _, _ => None
      end in
    let t :=
      match s_hour_of_day o, s_minute_of_hour o, s_second_of_minute o with
      | Some h, Some m, Some s => Some (HMS h m s)
      | Some h, Some m, None => Some (HM h m)
      | Some h, None, None => Some (HH h)
      | _, _, _ => None
      end in
    match d, t with
    | Some d, Some t => Some (mkTp d t (mkZone (z_hours (s_time_zone o)) (z_minutes (s_time_zone o))))
    | _, _ => None
    end
  end.

Lemma abs4_rep fl p : abs4 (rep fl p) = Some p /\ flags_of (rep fl p) = fl.
Proof. destruct fl, p as [[y m d|y doy|y w d] [h mi s|h mi|h] [a b]]; split; reflexivity. Qed.

Lemma rep_abs4 o p : abs4 o = Some p -> o = rep (flags_of o) p.
Proof.
  destruct o as [dg [y|] [mo|] [doy|] [dom|] [dow|] [woy|] [h|] [mi|] [s|] [|] tp tdf df [zh zm [|]]];
    cbn; intros H; try discriminate; injection H as <-; reflexivity.
Qed.

(* the same time point up to the representation of the rationals *)
Definition tod_equiv (a b : tod) : Prop :=
  match a, b with
  | HMS h m s, HMS h' m' s' => (h == h' /\ m == m' /\ s == s')%Q
  | HM h m, HM h' m' => (h == h' /\ m == m')%Q
  | HH h, HH h' => (h == h')%Q
  | _, _ => False
  end.
Definition tp_equiv (a b : tp) : Prop :=
  tdate a = tdate b /\ tod_equiv (ttod a) (ttod b) /\ tzone a = tzone b.

Lemma tod_equiv_refl t : tod_equiv t t.
Proof. destruct t; cbn; repeat split; reflexivity. Qed.
Lemma tp_equiv_refl p : tp_equiv p p.
Proof. repeat split. apply tod_equiv_refl. Qed.
Lemma tod_equiv_sym a b : tod_equiv a b -> tod_equiv b a.
Proof. destruct a, b; cbn; intuition (symmetry; assumption). Qed.
Lemma tod_equiv_trans a b c : tod_equiv a b -> tod_equiv b c -> tod_equiv a c.
Proof.
  destruct a, b, c; cbn; try tauto; intuition (etransitivity; eassumption).
Qed.
Lemma tp_equiv_sym a b : tp_equiv a b -> tp_equiv b a.
Proof. intros (H1 & H2 & H3). repeat split; auto using tod_equiv_sym. Qed.
Lemma tp_equiv_trans a b c : tp_equiv a b -> tp_equiv b c -> tp_equiv a c.
Proof.
  intros (H1 & H2 & H3) (G1 & G2 & G3). repeat split; try congruence. eapply tod_equiv_trans; eassumption.
Qed.

(* `m` returns normally with a value satisfying P *)
Definition returns {A : Type} (m : exc A) (P : A -> Prop) : Prop :=
  match m with Ok a => P a | Raise _ => False end.
(* ... with the state (flags fl) of a time point equivalent to x *)
Definition returns_tp (fl : flags) (m : exc pyTimePoint) (x : tp) : Prop :=
  returns m (fun o => exists q, o = rep fl q /\ tp_equiv q x).

Lemma returns_tp_intro fl m q x : m = Ok (rep fl q) -> tp_equiv q x -> returns_tp fl m x.
Proof. intros -> H. exists q. split; [reflexivity | exact H]. Qed.
Lemma returns_tp_elim fl m x : returns_tp fl m x -> exists q, m = Ok (rep fl q) /\ tp_equiv q x.
Proof. destruct m as [o|e]; cbn; [|tauto]. intros (q & -> & H). exists q. split; [reflexivity | exact H]. Qed.

(* ---------- the monad ---------- *)
Lemma ebind_ok {A B} (a : A) (f : A -> exc B) : ebind (Ok a) f = f a.
Proof. reflexivity. Qed.

(* ---------- while_flow against the model's bounded loops ---------- *)
Lemma nat_iter_guarded_done {A} (c : A -> bool) (st : A -> A) n a :
  c a = false -> Nat.iter n (guarded c st) a = a.
Proof.
  intros H. induction n as [|n IH]; [reflexivity|]. cbn [Nat.iter nat_rect].
  unfold Nat.iter in IH. rewrite IH. unfold guarded. rewrite H. reflexivity.
Qed.

Lemma loop_nat_iter {A} (c : A -> bool) (st : A -> A) n a :
  loop c st n a = Nat.iter (Pos.to_nat (Z.to_pos n)) (guarded c st) a.
Proof. unfold loop. rewrite Pos2Nat.inj_iter. reflexivity. Qed.

Lemma nat_iter_succ_r {A} (f : A -> A) n a : Nat.iter (Datatypes.S n) f a = Nat.iter n f (f a).
Proof. induction n as [|n IH]; [reflexivity|]. change (Nat.iter (Datatypes.S (Datatypes.S n)) f a) with (f (Nat.iter (Datatypes.S n) f a)). rewrite IH. reflexivity. Qed.

Section WhileSim.
  Context {S A R : Type} (cond : S -> exc bool) (body : S -> exc (flow S R))
          (mcond : A -> bool) (mstep : A -> A) (Rel : S -> A -> Prop).
  Hypothesis Hc : forall s a, Rel s a -> cond s = Ok (mcond a).
  Hypothesis Hb : forall s a, Rel s a -> mcond a = true ->
    exists s', body s = Ok (Next s') /\ Rel s' (mstep a).

  Lemma while_flow_exit fuel s a : Rel s a -> mcond a = false ->
    while_flow fuel cond body s = Ok (Next s).
  Proof.
    intros HR Hm. destruct fuel; cbn [while_flow]; rewrite (Hc _ _ HR), Hm; reflexivity.
  Qed.

  Lemma while_flow_iter : forall (n fuel : nat) s a, Rel s a -> (n <= fuel)%nat ->
    mcond (Nat.iter n (guarded mcond mstep) a) = false ->
    exists s', while_flow fuel cond body s = Ok (Next s') /\
               Rel s' (Nat.iter n (guarded mcond mstep) a).
  Proof.
    induction n as [|n IH]; intros fuel s a HR Hle Hend.
    - cbn in Hend |- *. exists s. split; [apply (while_flow_exit fuel s a HR Hend) | exact HR].
    - rewrite nat_iter_succ_r in *. destruct (mcond a) eqn:Em.
      + destruct fuel as [|fuel]; [lia|].
        destruct (Hb _ _ HR Em) as (s1 & Hs1 & HR1).
        assert (G : guarded mcond mstep a = mstep a) by (unfold guarded; rewrite Em; reflexivity).
        rewrite G in *. destruct (IH fuel s1 (mstep a) HR1 ltac:(lia) Hend) as (s' & Hw & HR').
        exists s'. split; [|exact HR'].
        cbn [while_flow]. rewrite (Hc _ _ HR), Em. cbn [ebind]. rewrite Hs1. cbn [ebind]. exact Hw.
      + assert (G : guarded mcond mstep a = a) by (unfold guarded; rewrite Em; reflexivity).
        rewrite G in *. rewrite nat_iter_guarded_done in * by exact Em.
        exists s. split; [apply (while_flow_exit fuel s a HR Em) | exact HR].
  Qed.

  (* the Python loop terminates with the state the model's `loop cond step bound`
     computes, for every fuel >= the model's bound *)
  Lemma while_flow_loop (n : Z) (fuel : nat) s a : Rel s a ->
    (Z.to_nat (Z.max n 1) <= fuel)%nat -> mcond (loop mcond mstep n a) = false ->
    exists s', while_flow fuel cond body s = Ok (Next s') /\ Rel s' (loop mcond mstep n a).
  Proof.
    intros HR Hle Hend. rewrite loop_nat_iter in *.
    apply while_flow_iter; [exact HR | | exact Hend].
    destruct n; cbn [Z.to_pos] in *; lia.
  Qed.
End WhileSim.

(* ---------- for_flow ---------- *)
Lemma for_flow_nil {E S R} (body : S -> E -> exc (flow S R)) s : for_flow [] body s = Ok (Next s).
Proof. reflexivity. Qed.

Lemma for_flow_cons {E S R} (body : S -> E -> exc (flow S R)) x l s :
  for_flow (x :: l) body s =
  ebind (body s x) (fun f => match f with Next s' => for_flow l body s' | Brk s' => Ok (Brk s')
                                       | Retn v => Ok (Retn v) end).
Proof. reflexivity. Qed.

(* a loop that never breaks: a fold *)
Lemma for_flow_fold {E S R} (body : S -> E -> exc (flow S R)) (upd : S -> E -> S) :
  (forall s x, body s x = Ok (Next (upd s x))) ->
  forall l s, for_flow l body s = Ok (Next (fold_left upd l s)).
Proof.
  intros H. induction l as [|x l IH]; intros s; [reflexivity|].
  rewrite for_flow_cons, H. cbn [ebind fold_left]. apply IH.
Qed.

(* a counting search loop: each iteration moves a counter by d (d <> 0) and leaves
   (break / return) at the iteration where the counter reaches k *)
Section ForCount.
  Context {E S R : Type} (body : S -> E -> exc (flow S R)) (cnt : S -> Z) (d k : Z)
          (upd : S -> E -> S) (hit : S -> E -> flow S R).
  Hypothesis Hd : d <> 0.
  Hypothesis Hbody : forall s x, body s x = Ok (if cnt s + d =? k then hit s x else Next (upd s x)).
  Hypothesis Hcnt : forall s x, cnt (upd s x) = cnt s + d.
  Hypothesis Hhit : forall s x, match hit s x with Next _ => False | _ => True end.

  Lemma fold_upd_cnt l : forall s, cnt (fold_left upd l s) = cnt s + d * Z.of_nat (length l).
  Proof.
    induction l as [|x l IH]; intros s; cbn [fold_left length]; [lia|]. rewrite IH, Hcnt. lia.
  Qed.

  (* the counter reaches k at position j *)
  Lemma for_flow_count_hit : forall l s j x, nth_error l j = Some x ->
    cnt s + d * (Z.of_nat j + 1) = k ->
    for_flow l body s = Ok (hit (fold_left upd (firstn j l) s) x).
  Proof.
    induction l as [|y l IH]; intros s j x Hn Hk; [destruct j; discriminate|].
    rewrite for_flow_cons, Hbody. destruct j as [|j].
    - cbn in Hn. injection Hn as ->. replace (cnt s + d =? k) with true by lia.
      cbn [ebind firstn fold_left]. specialize (Hhit s x). destruct (hit s x); [tauto | reflexivity | reflexivity].
    - replace (cnt s + d =? k) with false by nia. cbn [ebind firstn fold_left].
      apply IH; [exact Hn | rewrite Hcnt; lia].
  Qed.

  (* ... or does not reach k inside the list *)
  Lemma for_flow_count_miss : forall l s,
    (forall j, (j < length l)%nat -> cnt s + d * (Z.of_nat j + 1) <> k) ->
    for_flow l body s = Ok (Next (fold_left upd l s)).
  Proof.
    induction l as [|y l IH]; intros s Hm; [reflexivity|].
    rewrite for_flow_cons, Hbody.
    assert (cnt s + d =? k = false) as ->.
    { specialize (Hm 0%nat ltac:(cbn; lia)). lia. }
    cbn [ebind fold_left]. apply IH. intros j Hj. rewrite Hcnt.
    specialize (Hm (Datatypes.S j) ltac:(cbn [length]; lia)). lia.
  Qed.
End ForCount.

(* ---------- rationals ---------- *)
Lemma py_int_Q_qtrunc x : py_int_Q x = qtrunc x.
Proof. reflexivity. Qed.

Lemma qtrunc_comp a b : (a == b)%Q -> qtrunc a = qtrunc b.
Proof.
  intros H. unfold qtrunc.
  assert (E : Qle_bool 0 a = Qle_bool 0 b).
  { apply Bool.eq_true_iff_eq. rewrite !Qle_bool_iff, H. reflexivity. }
  rewrite E. destruct (Qle_bool 0 b); [apply Qfloor_comp | apply Qceiling_comp]; exact H.
Qed.

Lemma qeqb_comp a b c d : (a == b)%Q -> (c == d)%Q -> Qeq_bool a c = Qeq_bool b d.
Proof. intros H1 H2. apply Bool.eq_true_iff_eq. rewrite !Qeq_bool_iff, H1, H2. reflexivity. Qed.
Lemma qleb_comp a b c d : (a == b)%Q -> (c == d)%Q -> Qle_bool a c = Qle_bool b d.
Proof. intros H1 H2. apply Bool.eq_true_iff_eq. rewrite !Qle_bool_iff, H1, H2. reflexivity. Qed.
